import PySMT.Impl.SolverTrack
/-!
# C16, solver side: the bookkeeping of `IncrementalTrackingSolver` and the `pending_pop` protocol refine the
SMT-LIB assertion stack, for every placement of `@clear_pending_pop` that `Covers` the entry points.

Simulation relation `Inv cfg s st`: *after clearing a pending pop* the state `st` is `Good` for the spec stack `s`:
the native solver holds exactly the levels of `s`, `_assertion_stack` is `live s`, and `_backtrack_points` starts
with the cumulative lengths of the outer levels of `s` (below them there may be stale points left behind by
`reset_assertions`, which does not clear that list).
-/

namespace PySMT.Proofs.C16
open PySMT.AssertStack PySMT.SolverTrack

/-! ### spec-side facts -/

theorem items_cons (l : List Item) (ls : Stack) : items (l :: ls) = items ls ++ l := by
  simp [items]

theorem assertsOf_append (a b : List Item) : assertsOf (a ++ b) = assertsOf a ++ assertsOf b := by
  simp [assertsOf, List.filterMap_append]

theorem live_cons (l : List Item) (ls : Stack) : live (l :: ls) = live ls ++ assertsOf l := by
  simp [live, items_cons, assertsOf_append]

theorem live_nil_level (ls : Stack) : live ([] :: ls) = live ls := by
  simp [live_cons, assertsOf]

theorem live_replicate (n : Nat) (s : Stack) : live (List.replicate n [] ++ s) = live s := by
  induction n with
  | zero => simp
  | succ n ih => simp [List.replicate_succ, live_nil_level, ih]

theorem live_addItem_assert (f : Nat) (s : Stack) : live (addItem (.assert f) s) = live s ++ [f] := by
  cases s with
  | nil => simp [addItem, live, items, assertsOf]
  | cons l ls => simp [addItem, live_cons, assertsOf]

theorem live_init : live init = [] := by simp [live, items, init, assertsOf]

/-- the native solver's view of a spec stack -/
def natOf (s : Stack) : List (List Nat) := s.map assertsOf

theorem nativeLive_natOf (s : Stack) : nativeLive (natOf s) = live s := by
  induction s with
  | nil => simp [nativeLive, natOf, live, items, assertsOf]
  | cons l ls ih =>
    simp only [nativeLive, natOf] at ih
    simp [nativeLive, natOf, live_cons, ih]

theorem natOf_addItem (f : Nat) (s : Stack) (h : s ≠ []) :
    natOf (addItem (.assert f) s) = nativeAdd f (natOf s) := by
  cases s with
  | nil => exact absurd rfl h
  | cons l ls => simp [addItem, natOf, nativeAdd, assertsOf]

theorem natOf_replicate (n : Nat) (s : Stack) :
    natOf (List.replicate n [] ++ s) = List.replicate n [] ++ natOf s := by
  simp [natOf, assertsOf]

/-- cumulative numbers of live assertions below each pushed level, most recent first -/
def cumLens : Stack → List Nat
  | [] => []
  | [_] => []
  | _ :: l' :: ls => (live (l' :: ls)).length :: cumLens (l' :: ls)

theorem cumLens_addItem (it : Item) (s : Stack) : cumLens (addItem it s) = cumLens s := by
  match s with
  | [] => simp [addItem, cumLens]
  | [_] => simp [addItem, cumLens]
  | _ :: _ :: _ => simp [addItem, cumLens]

theorem cumLens_push1 (s : Stack) (h : s ≠ []) : cumLens ([] :: s) = (live s).length :: cumLens s := by
  match s, h with
  | l :: ls, _ => simp [cumLens]

theorem cumLens_replicate (n : Nat) (s : Stack) (h : s ≠ []) :
    cumLens (List.replicate n [] ++ s) = List.replicate n (live s).length ++ cumLens s := by
  induction n with
  | zero => simp
  | succ n ih =>
    have hne : List.replicate n ([] : List Item) ++ s ≠ [] := by simp [h]
    simp only [List.replicate_succ, List.cons_append]
    rw [cumLens_push1 _ hne, ih, live_replicate]

/-! ### `unwind` follows the spec's `pop` -/

theorem unwind_spec (g : List Nat) : ∀ (n : Nat) (s : Stack), n < s.length →
    unwind n (live s) (cumLens s ++ g) = .ok (live (s.drop n), cumLens (s.drop n) ++ g)
  | 0, s, _ => by simp [unwind]
  | n + 1, [], h => by simp at h
  | n + 1, [_], h => by simp at h
  | n + 1, l :: l' :: ls, h => by
    have ih := unwind_spec g n (l' :: ls) (by simp at h ⊢; omega)
    simp only [cumLens, List.cons_append, unwind, List.drop_succ_cons]
    rw [live_cons l (l' :: ls), List.take_left']
    · exact ih
    · rfl

/-! ### the simulation relation -/

structure Good (cfg : Config) (s : Stack) (st : St) : Prop where
  nonempty : s ≠ []
  notPending : st.pending = false
  native : cfg.native = true → st.native = natOf s
  tracked : cfg.tracking = true → st.tracked = live s
  points : cfg.tracking = true → ∃ g, st.points = cumLens s ++ g

def Inv (cfg : Config) (s : Stack) (st : St) : Prop :=
  ∃ st', clear cfg st = .ok st' ∧ Good cfg s st'

theorem Good.inv {cfg : Config} {s : Stack} {st : St} (h : Good cfg s st) : Inv cfg s st :=
  ⟨st, by simp [clear, h.notPending], h⟩

theorem good_init (cfg : Config) : Good cfg init St.init :=
  ⟨by simp [init], rfl, fun _ => by simp [St.init, natOf, init, assertsOf],
   fun _ => by simp [St.init, live_init], fun _ => ⟨[], by simp [St.init, init, cumLens]⟩⟩

theorem popCore_good {cfg : Config} {s : Stack} {st : St} (h : Good cfg s st) (n : Nat) (hn : n < s.length) :
    ∃ st', popCore cfg n st = .ok st' ∧ Good cfg (s.drop n) st' := by
  have hne : s.drop n ≠ [] := by
    intro h0
    have := congrArg List.length h0
    simp at this; omega
  unfold popCore
  by_cases hnat : cfg.native = true
  · have hlen : st.native.length = s.length := by rw [h.native hnat]; simp [natOf]
    by_cases htr : cfg.tracking = true
    · obtain ⟨g, hp⟩ := h.points htr
      have hu := unwind_spec g n s hn
      rw [← h.tracked htr, ← hp] at hu
      simp only [hnat, hlen, hn, htr, hu]
      refine ⟨_, rfl, hne, h.notPending, fun _ => ?_, fun _ => rfl, fun _ => ⟨g, rfl⟩⟩
      simp [h.native hnat, natOf, List.map_drop]
    · simp only [hnat, hlen, hn, htr]
      refine ⟨_, rfl, hne, h.notPending, fun _ => ?_, fun c => absurd c htr, fun c => absurd c htr⟩
      simp [h.native hnat, natOf, List.map_drop]
  · by_cases htr : cfg.tracking = true
    · obtain ⟨g, hp⟩ := h.points htr
      have hu := unwind_spec g n s hn
      rw [← h.tracked htr, ← hp] at hu
      simp only [hnat, htr, hu]
      exact ⟨_, rfl, hne, h.notPending, fun c => absurd c hnat, fun _ => rfl, fun _ => ⟨g, rfl⟩⟩
    · simp only [hnat, htr]
      exact ⟨_, rfl, hne, h.notPending, fun c => absurd c hnat, fun c => absurd c htr, fun c => absurd c htr⟩

/-- a decorated entry point starts from a `Good` state -/
theorem enter_inv {cfg : Config} {s : Stack} {st : St} (h : Inv cfg s st) :
    ∃ st', enter cfg true st = .ok st' ∧ Good cfg s st' := by
  simp only [enter, if_true]
  exact h

theorem pending_eta (st : St) (h : st.pending = false) : { st with pending := false } = st := by
  cases st
  simp only at h
  simp [h]

theorem add_good {cfg : Config} {s : Stack} {st : St} (h : Good cfg s st) (f : Nat) :
    Good cfg (addItem (.assert f) s)
      { st with native := if cfg.native then nativeAdd f st.native else st.native
                tracked := if cfg.tracking then st.tracked ++ [f] else st.tracked } := by
  refine ⟨?_, h.notPending, fun hn => ?_, fun ht => ?_, fun ht => ?_⟩
  · cases s <;> simp [addItem]
  · simp [hn, h.native hn, natOf_addItem f s h.nonempty]
  · simp [ht, h.tracked ht, live_addItem_assert]
  · obtain ⟨g, hg⟩ := h.points ht
    exact ⟨g, by simp [hg, cumLens_addItem]⟩

theorem push_good {cfg : Config} {s : Stack} {st : St} (h : Good cfg s st) (n : Nat) :
    Good cfg (List.replicate n [] ++ s)
      { st with native := if cfg.native then List.replicate n [] ++ st.native else st.native
                points := if cfg.tracking then List.replicate n st.tracked.length ++ st.points else st.points } := by
  refine ⟨by simp [h.nonempty], h.notPending, fun hn => ?_, fun ht => ?_, fun ht => ?_⟩
  · simp [hn, h.native hn, natOf_replicate]
  · simp [h.tracked ht, live_replicate]
  · obtain ⟨g, hg⟩ := h.points ht
    exact ⟨g, by simp [ht, hg, cumLens_replicate n s h.nonempty, h.tracked ht]⟩

theorem solve_good {cfg : Config} {s : Stack} {st : St} (h : Good cfg s st) (c : List Nat) :
    Good cfg s { st with checks := c :: st.checks } :=
  ⟨h.nonempty, h.notPending, h.native, h.tracked, h.points⟩

theorem reset_good {cfg : Config} {s : Stack} {st : St} (h : Good cfg s st) :
    Good cfg init { st with native := if cfg.native then [[]] else st.native
                            tracked := if cfg.tracking then [] else st.tracked } := by
  refine ⟨by simp [init], h.notPending, fun hn => ?_, fun ht => ?_, fun ht => ?_⟩
  · simp [hn, natOf, init, assertsOf]
  · simp [ht, live_init]
  · obtain ⟨g, hg⟩ := h.points ht
    exact ⟨cumLens s ++ g, by simp [hg, init, cumLens]⟩

theorem covers_iff (cfg : Config) : Covers cfg = true ↔
    cfg.dAdd = true ∧ cfg.dPush = true ∧ cfg.dPop = true ∧ cfg.dSolve = true ∧
    (cfg.dReset = true ∨ cfg.native = false) ∧ (cfg.dRead = true ∨ cfg.tracking = false) := by
  simp [Covers, and_assoc]

/-- `reset_assertions` without the decorator, on a solver without native stack: the pending pop stays pending
    but has become harmless. -/
theorem reset_undecorated {cfg : Config} {s : Stack} {st : St} (hnat : cfg.native = false) (h : Inv cfg s st) :
    Inv cfg init { st with native := if cfg.native then [[]] else st.native
                           tracked := if cfg.tracking then [] else st.tracked } := by
  obtain ⟨st', hc, hg⟩ := h
  by_cases hp : st.pending = true
  · -- the pending pop succeeded on `st`, hence `points` is non-empty when tracking
    simp only [clear, hp, if_true, popCore, hnat, Bool.false_and, Bool.false_eq_true, if_false] at hc ⊢
    by_cases htr : cfg.tracking = true
    · simp only [htr, if_true] at hc ⊢
      cases hpts : st.points with
      | nil => simp [hpts, unwind] at hc
      | cons p ps =>
        simp only [hpts, unwind, Except.ok.injEq] at hc
        subst hc
        obtain ⟨g, hgp⟩ := hg.points htr
        refine ⟨⟨st.native, [], ps, false, st.checks⟩, ?_, ?_⟩
        · simp [clear, popCore, hnat, htr, unwind]
        · refine ⟨by simp [init], rfl, fun c => by simp [hnat] at c, fun _ => by simp [live_init], fun _ => ?_⟩
          exact ⟨cumLens s ++ g, by simpa [init, cumLens] using hgp⟩
    · simp only [htr] at hc ⊢
      simp only [Bool.false_eq_true, if_false, Except.ok.injEq] at hc
      subst hc
      refine ⟨⟨st.native, st.tracked, st.points, false, st.checks⟩, ?_, ?_⟩
      · simp [clear, popCore, hnat, htr]
      · exact ⟨by simp [init], rfl, fun c => by simp [hnat] at c, fun c => absurd c htr, fun c => absurd c htr⟩
  · have hp' : st.pending = false := by simpa using hp
    simp only [clear, hp', Bool.false_eq_true, if_false, Except.ok.injEq] at hc
    subst hc
    have := reset_good hg
    exact this.inv

theorem add_ok {cfg : Config} (hd : cfg.dAdd = true) {s : Stack} {st : St} (h : Inv cfg s st) (f : Nat) :
    ∃ st', SolverTrack.add cfg f st = .ok st' ∧ Good cfg (addItem (.assert f) s) st' := by
  obtain ⟨st1, h1, g1⟩ := enter_inv h
  simp only [SolverTrack.add, hd, h1, seq_ok]
  exact ⟨_, rfl, add_good g1 f⟩

theorem push_ok {cfg : Config} (hd : cfg.dPush = true) {s : Stack} {st : St} (h : Inv cfg s st) (n : Nat) :
    ∃ st', SolverTrack.push cfg n st = .ok st' ∧ Good cfg (List.replicate n [] ++ s) st' := by
  obtain ⟨st1, h1, g1⟩ := enter_inv h
  simp only [SolverTrack.push, hd, h1, seq_ok]
  exact ⟨_, rfl, push_good g1 n⟩

theorem pop_ok {cfg : Config} (hd : cfg.dPop = true) {s : Stack} {st : St} (h : Inv cfg s st) (n : Nat)
    (hn : n < s.length) : ∃ st', SolverTrack.pop cfg n st = .ok st' ∧ Good cfg (s.drop n) st' := by
  obtain ⟨st1, h1, g1⟩ := enter_inv h
  obtain ⟨st2, h2, g2⟩ := popCore_good g1 n hn
  simp only [SolverTrack.pop, hd, h1, seq_ok]
  exact ⟨st2, h2, g2⟩

theorem solve_ok {cfg : Config} (hd : cfg.dSolve = true) {s : Stack} {st : St} (h : Inv cfg s st)
    (a : Option Nat) : ∃ st', SolverTrack.solve cfg a st = .ok st' ∧ Good cfg s st' := by
  obtain ⟨st1, h1, g1⟩ := enter_inv h
  simp only [SolverTrack.solve, hd, h1, seq_ok]
  exact ⟨_, rfl, solve_good g1 _⟩

theorem isSat_ok {cfg : Config} (hc : Covers cfg = true) {s : Stack} {st : St} (h : Inv cfg s st) (f : Nat) :
    ∃ st', isSat cfg f st = .ok st' ∧ Inv cfg s st' := by
  obtain ⟨hAdd, hPush, hPop, hSolve, hReset, hRead⟩ := (covers_iff cfg).1 hc
  by_cases hps : cfg.pushSupported = true
  · obtain ⟨s1, e1, g1⟩ := push_ok hPush h 1
    obtain ⟨s2, e2, g2⟩ := add_ok hAdd g1.inv f
    obtain ⟨s3, e3, g3⟩ := solve_ok hSolve g2.inv none
    refine ⟨{ s3 with pending := true }, by simp [isSat, hps, e1, e2, e3], ?_⟩
    -- the pending pop of the final state undoes the pushed level
    have hne : s ≠ [] := by obtain ⟨_, _, g0⟩ := h; exact g0.nonempty
    obtain ⟨s4, e4, g4⟩ := popCore_good g3 1 (by
      cases s with
      | nil => exact absurd rfl hne
      | cons _ _ => simp [addItem])
    refine ⟨s4, ?_, by simpa [addItem] using g4⟩
    have := pending_eta s3 g3.notPending
    simp only [clear, if_true]
    rw [this]
    exact e4
  · obtain ⟨s1, e1, g1⟩ := solve_ok hSolve h (some f)
    exact ⟨s1, by simp [isSat, hps, e1], g1.inv⟩

/-- a one-shot query one of whose native calls raises: the `finally` sets `pending_pop`, and the pending pop undoes
    whatever the query had done before the exception -/
theorem isSatFails_ok {cfg : Config} (hc : Covers cfg = true) {s : Stack} {st : St} (h : Inv cfg s st) (fail : Fail)
    (f : Nat) : ∃ st', isSatFails cfg fail f st = .ok st' ∧ Inv cfg s st' := by
  obtain ⟨hAdd, hPush, hPop, hSolve, hReset, hRead⟩ := (covers_iff cfg).1 hc
  have hne : s ≠ [] := by obtain ⟨_, _, g0⟩ := h; exact g0.nonempty
  by_cases hps : cfg.pushSupported = true
  · obtain ⟨s1, e1, g1⟩ := push_ok hPush h 1
    cases fail with
    | add =>
      obtain ⟨s2, e2, g2⟩ := enter_inv g1.inv
      refine ⟨{ s2 with pending := true }, by simp [isSatFails, hps, e1, hAdd, e2], ?_⟩
      obtain ⟨s4, e4, g4⟩ := popCore_good g2 1 (by
        cases s with
        | nil => exact absurd rfl hne
        | cons _ _ => simp)
      refine ⟨s4, ?_, by simpa using g4⟩
      have := pending_eta s2 g2.notPending
      simp only [clear, if_true]
      rw [this]
      exact e4
    | solve =>
      obtain ⟨s2, e2, g2⟩ := add_ok hAdd g1.inv f
      obtain ⟨s3, e3, g3⟩ := solve_ok hSolve g2.inv none
      refine ⟨{ s3 with pending := true }, by simp [isSatFails, hps, e1, e2, e3], ?_⟩
      obtain ⟨s4, e4, g4⟩ := popCore_good g3 1 (by
        cases s with
        | nil => exact absurd rfl hne
        | cons _ _ => simp [addItem])
      refine ⟨s4, ?_, by simpa [addItem] using g4⟩
      have := pending_eta s3 g3.notPending
      simp only [clear, if_true]
      rw [this]
      exact e4
  · obtain ⟨s1, e1, g1⟩ := solve_ok hSolve h (some f)
    exact ⟨s1, by simp [isSatFails, hps, e1], g1.inv⟩

/-- `solve([f])` through a temporary level, as the wrappers implement it -/
theorem assumingPush_ok {cfg : Config} (hc : Covers cfg = true) {s : Stack} {st : St} (h : Inv cfg s st) (f : Nat) :
    ∃ st', assumingPush cfg f st = .ok st' ∧ Inv cfg s st' := by
  obtain ⟨hAdd, hPush, hPop, hSolve, hReset, hRead⟩ := (covers_iff cfg).1 hc
  have hne : s ≠ [] := by obtain ⟨_, _, g0⟩ := h; exact g0.nonempty
  by_cases hap : cfg.assumePush = true
  case neg =>
    obtain ⟨s1, e1, g1⟩ := solve_ok hSolve h (some f)
    exact ⟨s1, by simp [assumingPush, hap, e1], g1.inv⟩
  obtain ⟨s0, e0, g0⟩ := enter_inv h
  obtain ⟨s1, e1, g1⟩ := push_ok hPush g0.inv 1
  obtain ⟨s2, e2, g2⟩ := add_ok hAdd g1.inv f
  have g3 := solve_good g2 (seen cfg s2)
  refine ⟨{ s2 with pending := true, checks := seen cfg s2 :: s2.checks },
    by simp [assumingPush, hap, hSolve, e0, e1, e2], ?_⟩
  obtain ⟨s4, e4, g4⟩ := popCore_good g3 1 (by
    cases s with
    | nil => exact absurd rfl hne
    | cons _ _ => simp [addItem])
  refine ⟨s4, ?_, by simpa [addItem] using g4⟩
  have := pending_eta _ g3.notPending
  simp only [clear, if_true]
  rw [← this] at e4
  exact e4

/-- … when asserting the assumption raises, PROVIDED the wrapper sets `pending_pop` on the way out -/
theorem assumingPushFails_ok {cfg : Config} (hc : Covers cfg = true) (hg : cfg.assumeGuarded = true) {s : Stack}
    {st : St} (h : Inv cfg s st) (f : Nat) : ∃ st', assumingPushFails cfg f st = .ok st' ∧ Inv cfg s st' := by
  obtain ⟨hAdd, hPush, hPop, hSolve, hReset, hRead⟩ := (covers_iff cfg).1 hc
  have hne : s ≠ [] := by obtain ⟨_, _, g0⟩ := h; exact g0.nonempty
  by_cases hap : cfg.assumePush = true
  case neg =>
    obtain ⟨s1, e1, g1⟩ := solve_ok hSolve h (some f)
    exact ⟨s1, by simp [assumingPushFails, hap, e1], g1.inv⟩
  obtain ⟨s0, e0, g0⟩ := enter_inv h
  obtain ⟨s1, e1, g1⟩ := push_ok hPush g0.inv 1
  obtain ⟨s2, e2, g2⟩ := enter_inv g1.inv
  refine ⟨{ s2 with pending := true }, by simp [assumingPushFails, hap, hSolve, hAdd, hg, e0, e1, e2], ?_⟩
  obtain ⟨s4, e4, g4⟩ := popCore_good g2 1 (by
    cases s with
    | nil => exact absurd rfl hne
    | cons _ _ => simp)
  refine ⟨s4, ?_, by simpa using g4⟩
  have := pending_eta s2 g2.notPending
  simp only [clear, if_true]
  rw [this]
  exact e4

/-- one step of the solver API, started in a related state, ends in a related state -/
theorem step_inv {cfg : Config} (hc : Covers cfg = true) {s : Stack} {st : St} (h : Inv cfg s st) (o : Op)
    (hl : legal s o.cmd = true) (ha : cfg.assumeGuarded = true ∨ leaky o = false) :
    ∃ st', SolverTrack.step cfg st o = .ok st' ∧ Inv cfg (AssertStack.step s o.cmd) st' := by
  obtain ⟨hAdd, hPush, hPop, hSolve, hReset, hRead⟩ := (covers_iff cfg).1 hc
  cases o with
  | assert f =>
    obtain ⟨st1, h1, g1⟩ := add_ok hAdd h f
    exact ⟨st1, h1, g1.inv⟩
  | push n =>
    obtain ⟨st1, h1, g1⟩ := push_ok hPush h n
    exact ⟨st1, h1, g1.inv⟩
  | pop n =>
    simp only [Op.cmd, legal, decide_eq_true_eq] at hl
    obtain ⟨st1, h1, g1⟩ := pop_ok hPop h n hl
    exact ⟨st1, h1, g1.inv⟩
  | reset =>
    simp only [SolverTrack.step, SolverTrack.reset, Op.cmd, AssertStack.step]
    by_cases hd : cfg.dReset = true
    · obtain ⟨st1, h1, g1⟩ := enter_inv h
      simp only [hd, h1, seq_ok]
      exact ⟨_, rfl, (reset_good g1).inv⟩
    · have hnat : cfg.native = false := by
        cases hReset with
        | inl h => exact absurd h hd
        | inr h => exact h
      simp only [enter, hd, Bool.false_eq_true, if_false, seq_ok]
      exact ⟨_, rfl, reset_undecorated hnat h⟩
  | solve =>
    obtain ⟨st1, h1, g1⟩ := solve_ok hSolve h none
    exact ⟨st1, h1, g1.inv⟩
  | oneshot q f =>
    cases q with
    | isSat => exact isSat_ok hc h f
    | isUnsat => exact isSat_ok hc h f
    | isValid => exact isSat_ok hc h (negOf f)
    | assuming =>
      obtain ⟨st1, h1, g1⟩ := solve_ok hSolve h (some f)
      exact ⟨st1, h1, g1.inv⟩
  | solveFails =>
    obtain ⟨st1, h1, g1⟩ := solve_ok hSolve h none
    exact ⟨st1, h1, g1.inv⟩
  | oneshotFails q fail f =>
    cases q with
    | isSat => exact isSatFails_ok hc h fail f
    | isUnsat => exact isSatFails_ok hc h fail f
    | isValid => exact isSatFails_ok hc h fail (negOf f)
    | assuming =>
      obtain ⟨st1, h1, g1⟩ := solve_ok hSolve h (some f)
      exact ⟨st1, h1, g1.inv⟩
  | assumingPush f => exact assumingPush_ok hc h f
  | assumingPushFails f =>
    cases ha with
    | inl hg => exact assumingPushFails_ok hc hg h f
    | inr hn => simp [leaky] at hn
  | read =>
    simp only [SolverTrack.step, SolverTrack.read, Op.cmd, AssertStack.step]
    by_cases hd : cfg.dRead = true
    · obtain ⟨st1, h1, g1⟩ := enter_inv h
      simp only [hd, h1]
      exact ⟨_, rfl, g1.inv⟩
    · simp only [enter, hd, Bool.false_eq_true, if_false]
      exact ⟨_, rfl, h⟩

/-- the sequence contains no call whose exception path this placement leaves unprotected -/
def Admits (cfg : Config) (ops : List Op) : Prop :=
  cfg.assumeGuarded = true ∨ ∀ o ∈ ops, leaky o = false

instance (cfg : Config) (ops : List Op) : Decidable (Admits cfg ops) := by unfold Admits; exact inferInstance

theorem Admits.tail {cfg : Config} {o : Op} {os : List Op} (h : Admits cfg (o :: os)) : Admits cfg os := by
  cases h with
  | inl h => exact .inl h
  | inr h => exact .inr fun x hx => h x (by simp [hx])

theorem Admits.head {cfg : Config} {o : Op} {os : List Op} (h : Admits cfg (o :: os)) :
    cfg.assumeGuarded = true ∨ leaky o = false := by
  cases h with
  | inl h => exact .inl h
  | inr h => exact .inr (h o (by simp))

theorem Admits.take {cfg : Config} {ops : List Op} (h : Admits cfg ops) (k : Nat) : Admits cfg (ops.take k) := by
  cases h with
  | inl h => exact .inl h
  | inr h => exact .inr fun x hx => h x (List.mem_of_mem_take hx)

theorem runFrom_inv {cfg : Config} (hc : Covers cfg = true) : ∀ (ops : List Op) (s s' : Stack) (st : St),
    Admits cfg ops → Inv cfg s st → AssertStack.runFrom s (ops.map Op.cmd) = some s' →
    ∃ st', SolverTrack.runFrom cfg st ops = .ok st' ∧ Inv cfg s' st'
  | [], s, s', st, _, h, hr => by
    simp only [List.map_nil, AssertStack.runFrom, Option.some.injEq] at hr
    subst hr
    exact ⟨st, rfl, h⟩
  | o :: os, s, s', st, ha, h, hr => by
    simp only [List.map_cons, AssertStack.runFrom] at hr
    by_cases hl : legal s o.cmd = true
    · simp only [hl, if_true] at hr
      obtain ⟨st1, h1, i1⟩ := step_inv hc h o hl ha.head
      obtain ⟨st2, h2, i2⟩ := runFrom_inv hc os _ s' st1 ha.tail i1 hr
      exact ⟨st2, by simp [SolverTrack.runFrom, h1, h2], i2⟩
    · simp [hl] at hr

/-- Every legal sequence of API calls runs without exception and ends in a state related to the spec's. -/
theorem run_inv {cfg : Config} (hc : Covers cfg = true) (ops : List Op) (ha : Admits cfg ops) (s : Stack)
    (h : runOps ops = some s) : ∃ st, SolverTrack.run cfg ops = .ok st ∧ Inv cfg s st :=
  runFrom_inv hc ops init s St.init ha (good_init cfg).inv h

/-! ### what is observed in a related state -/

theorem observe_inv {cfg : Config} (hc : Covers cfg = true) (htr : cfg.tracking = true) {s : Stack} {st : St}
    (h : Inv cfg s st) : observe cfg st = .ok (live s) := by
  obtain ⟨_, _, _, _, _, hRead⟩ := (covers_iff cfg).1 hc
  have hd : cfg.dRead = true := by
    cases hRead with
    | inl h => exact h
    | inr h => simp [htr] at h
  obtain ⟨st1, h1, g1⟩ := enter_inv h
  simp [observe, SolverTrack.read, hd, h1, g1.tracked htr]

theorem wouldCheck_inv {cfg : Config} (hc : Covers cfg = true) (hs : cfg.native = true ∨ cfg.tracking = true)
    {s : Stack} {st : St} (h : Inv cfg s st) : wouldCheck cfg st = .ok (live s) := by
  obtain ⟨_, _, _, hSolve, _, _⟩ := (covers_iff cfg).1 hc
  obtain ⟨st1, h1, g1⟩ := enter_inv h
  simp only [wouldCheck, SolverTrack.solve, hSolve, h1, seq_ok, List.headD_cons, Option.toList_none,
    List.append_nil, seen]
  by_cases hn : cfg.native = true
  · simp [hn, g1.native hn, nativeLive_natOf]
  · have ht : cfg.tracking = true := by
      cases hs with
      | inl h => exact absurd h hn
      | inr h => exact h
    simp [hn, g1.tracked ht]

/-- the legal prefixes of a legal sequence are legal -/
theorem runFrom_append (s : Stack) (a b : List Cmd) :
    AssertStack.runFrom s (a ++ b) = (AssertStack.runFrom s a).bind fun s' => AssertStack.runFrom s' b := by
  induction a generalizing s with
  | nil => simp [AssertStack.runFrom]
  | cons c cs ih =>
    simp only [List.cons_append, AssertStack.runFrom]
    by_cases hl : legal s c = true
    · simp [hl, ih]
    · simp [hl]

theorem legal_take {ops : List Op} (h : LegalOps ops) (k : Nat) : LegalOps (ops.take k) := by
  unfold LegalOps runOps AssertStack.run at *
  have := runFrom_append init ((ops.take k).map Op.cmd) ((ops.drop k).map Op.cmd)
  rw [← List.map_append, List.take_append_drop] at this
  rw [this] at h
  cases hr : AssertStack.runFrom init ((ops.take k).map Op.cmd) with
  | none => rw [hr] at h; simp at h
  | some _ => simp

end PySMT.Proofs.C16
