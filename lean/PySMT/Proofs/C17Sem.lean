import PySMT.Proofs.C17Run
/-!
# C17, part 5: the model returned by `get_model` satisfies the live assertions

Terms are abstract in the specification, so "satisfies" is relative to an arbitrary semantics `Semantics.holds`
of terms under assignments of (printed) values to symbols that looks at a term's own symbols only, and to a
decision procedure that is *sound* for it: whenever it answers `sat`, the values it reports afterwards are those
of one assignment under which every live assertion holds.
-/
namespace PySMT.SmtSolver
open PySMT.StrictSolver

/-- truth of a term under an assignment of value texts to symbols; only the term's own symbols matter -/
structure Semantics where
  holds : (Sym → String) → Expr → Prop
  coincidence : ∀ (μ ν : Sym → String) (e : Expr), (∀ s ∈ e.syms, μ s = ν s) → (holds μ e ↔ holds ν e)

/-- soundness of the decision procedure behind the front end: a `sat` verdict comes with an assignment satisfying
    all live assertions, and the values reported while sat mode lasts are the values of that assignment -/
def OracleSound (O : Oracle) (sem : Semantics) : Prop :=
  ∀ (ω : O.ω) (st : State), (O.verdict ω st).1 = .sat →
    ∃ μ : Sym → String, (∀ e ∈ live st.levels, sem.holds μ e) ∧
      ∀ s, O.value (O.verdict ω st).2 { st with satMode := true } (Expr.ofSym s) = μ s

/-- a front-end state in sat mode is the state in which `check-sat` was answered `sat`, with the flag set, paired
    with the oracle state after that verdict (nothing moved since) -/
def SatWitness (O : Oracle) (s : State × O.ω) : Prop :=
  s.1.satMode = true → s.1.exited = false →
    ∃ (ω₀ : O.ω) (st₀ : State), st₀.logicSet = true ∧ (O.verdict ω₀ st₀).1 = .sat ∧
      s = ({ st₀ with satMode := true }, (O.verdict ω₀ st₀).2)

theorem respond_satWitness {O : Oracle} (s : State × O.ω) (c : Cmd) (h : SatWitness O s)
    (hr : (respond O s c).2.isError = false) : SatWitness O (respond O s c).1 := by
  unfold respond at hr ⊢
  by_cases hl : legal s.1 c = true
  · simp only [hl, if_true] at hr ⊢
    cases c with
    | checkSat =>
      intro hs _
      simp only [next, beq_iff_eq] at hs
      simp only [legal, Bool.and_eq_true, Bool.not_eq_true'] at hl
      exact ⟨s.2, s.1, hl.2, hs, by simp [next, hs]⟩
    | getValue e => exact h
    | setOption k v => exact h
    | setLogic l =>
      intro hs hx
      simp only [next] at hs hx
      obtain ⟨ω₀, st₀, hlog, _, heq⟩ := h hs hx
      simp only [legal, Bool.and_eq_true, Bool.not_eq_true'] at hl
      rw [heq] at hl
      simp [hlog] at hl
    | exit => intro _ hx; simp [next] at hx
    | declareSort d => intro hs; simp [next] at hs
    | declareFun f => intro hs; simp [next] at hs
    | assert e => intro hs; simp [next] at hs
    | push n => intro hs; simp [next] at hs
    | pop n => intro hs; simp [next] at hs
    | resetAssertions => intro hs; simp [next] at hs
  · simp only [hl] at hr
    cases hr

theorem exec_satWitness {O : Oracle} : ∀ (cs : List Cmd) (s₀ s : State × O.ω), exec O s₀ cs = some s →
    SatWitness O s₀ → SatWitness O s
  | [], s₀, s, h, hs => by simp only [exec] at h; cases h; exact hs
  | c :: cs, s₀, s, h, hs => by
    simp only [exec] at h
    split at h
    · cases h
    · rename_i hr
      exact exec_satWitness cs _ s h (respond_satWitness s₀ c hs (by simpa using hr))

theorem Final.satWitness {O : Oracle} {w : W O} (h : Final w) : SatWitness O w.chan.solver :=
  exec_satWitness _ _ _ h.accepted (by intro hs; simp [State.init] at hs)

/-- the assignment a returned model stands for (symbols without an entry get the empty text) -/
def modelValue (m : List (Sym × String)) (s : Sym) : String :=
  match m.find? (fun p => p.1 = s) with
  | some p => p.2
  | none => ""

theorem modelValue_of_mem (m : List (Sym × String)) (f : Sym → String) (hm : ∀ p ∈ m, p.2 = f p.1) (s : Sym)
    (hs : s ∈ m.map (·.1)) : modelValue m s = f s := by
  unfold modelValue
  cases hfind : m.find? (fun p => p.1 = s) with
  | some p =>
    have hp := List.find?_some hfind
    have hmem := List.mem_of_find?_eq_some hfind
    simp only [decide_eq_true_eq] at hp
    simp only [hm p hmem, hp]
  | none =>
    exfalso
    obtain ⟨p, hp, rfl⟩ := List.mem_map.mp hs
    have := List.find?_eq_none.mp hfind p hp
    simp at this

/-- in sat mode, with a sound decision procedure, the model `get_model()` returns satisfies every live assertion -/
theorem getModel_satisfies {U : Universe} {O : Oracle} (sem : Semantics) (hO : OracleSound O sem) {w : W O}
    (hI : Inv U w) (hsat : w.chan.solver.1.satMode = true) :
    ∃ m, (call .getModel w).2 = .model m ∧ ∀ e ∈ live (levelsOf w), sem.holds (modelValue m) e := by
  obtain ⟨m, hm, _, hcov, hval, _⟩ := getModel_total hI hsat
  refine ⟨m, hm, ?_⟩
  obtain ⟨ω₀, st₀, _, hv, heq⟩ := hI.final.satWitness hsat hI.notExited
  obtain ⟨μ, hμ, hvalμ⟩ := hO ω₀ st₀ hv
  intro e he
  have hlive : live (levelsOf w) = live st₀.levels := by
    show live w.chan.solver.1.levels = _
    rw [heq]
  have : sem.holds μ e := hμ e (hlive ▸ he)
  refine (sem.coincidence (modelValue m) μ e ?_).mpr this
  intro s hs
  rw [modelValue_of_mem m (fun s => O.value w.chan.solver.2 w.chan.solver.1 (Expr.ofSym s)) hval s (hcov e he s hs)]
  rw [heq]
  exact hvalμ s

end PySMT.SmtSolver
