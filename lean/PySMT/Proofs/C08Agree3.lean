import PySMT.Proofs.C08Agree2
/-!
# C08/C09 agreement, operator families 3: `/` (with pySMT's constant folding and `Div` by a constant)
-/
namespace PySMT.Parser.Agree
open PySMT PySMT.Parser PySMT.Std PySMT.Sexp

/-- a well-formed constant of sort Real is a Real constant node -/
theorem const_real (a : Term) (ha : TOK a .real) (hc : Mk.isConstant a = true) : ∃ x, a = .node .realConst [] (.q x) := by
  match a, ha, hc with
  | .node op args p, ha, hc =>
    have hsh := (Term.wf_node.mp ha.wf).2.1
    have hty := ha.ty
    rw [typeOf_node] at hty
    simp only [Mk.isConstant] at hc
    cases op <;> simp only [Op.isConstant] at hc <;> try (cases hc; done)
    · -- realConst
      cases p <;> simp only [Op.shapeOK] at hsh <;> try (cases hsh; done)
      have : args = [] := by simpa using hsh
      subst this
      exact ⟨_, rfl⟩
    · -- boolConst
      cases p <;> simp only [Op.shapeOK] at hsh <;> try (cases hsh; done)
      have : args = [] := by simpa using hsh
      subst this
      cases hty
    · -- intConst
      cases p <;> simp only [Op.shapeOK] at hsh <;> try (cases hsh; done)
      have : args = [] := by simpa using hsh
      subst this
      cases hty
    · -- strConst
      cases p <;> simp only [Op.shapeOK] at hsh <;> try (cases hsh; done)
      have : args = [] := by simpa using hsh
      subst this
      cases hty
    · -- bvConst
      cases p <;> simp only [Op.shapeOK] at hsh <;> try (cases hsh; done)
      simp only [Bool.and_eq_true, beq_iff_eq, List.length_eq_zero_iff] at hsh
      obtain ⟨rfl, _⟩ := hsh
      cases hty
    · -- algebraicConst
      simp [Op.shapeOK] at hsh

theorem tyDiv : typeOfNode .div .none [some .real, some .real] = some .real := rfl
theorem tyTimes2 : typeOfNode .times .none [some .real, some .real] = some .real := rfl

/-- `Mk.Div` on Real arguments is `mkDivNorm` -/
theorem mkDiv_eq (a b : Term) (ha : TOK a .real) (hb : TOK b .real) :
    Mk.Div a b = .ok (mkDivNorm a b) ∧ TOK (mkDivNorm a b) .real := by
  have htyd : typeOfNode .div .none ([a, b].map Term.typeOf) = some .real := by
    simp only [List.map_cons, List.map_nil, ha.ty, hb.ty]; rfl
  by_cases h : ∃ c, b = .node .realConst [] (.q c)
  · obtain ⟨c, rfl⟩ := h
    by_cases hc : c = 0
    · simp only [Mk.Div, mkDivNorm, hc, if_true]
      exact ⟨create_ok (by rw [← hc]; exact htyd), tok_node (by rw [← hc]; exact htyd) (by rw [← hc]; exact wf2 ha.wf hb.wf) rfl nobw_real⟩
    · have htyt : typeOfNode .times .none ([a, Term.real (1 / c)].map Term.typeOf) = some .real := by
        simp only [List.map_cons, List.map_nil, ha.ty, typeOf_real]; rfl
      simp only [Mk.Div, mkDivNorm, hc, if_false, Mk.Times, Mk.RealC]
      exact ⟨create_ok htyt, tok_node htyt (wf2 ha.wf (wf_real _)) rfl nobw_real⟩
  · have h1 : mkDivNorm a b = .node .div [a, b] .none := by
      unfold mkDivNorm
      split
      · exact absurd ⟨_, rfl⟩ h
      · rfl
    have h2 : Mk.Div a b = Mk.create .div [a, b] := by
      unfold Mk.Div
      split
      · exact absurd ⟨_, rfl⟩ h
      · rfl
    rw [h1, h2]
    exact ⟨create_ok htyd, tok_node htyd (wf2 ha.wf hb.wf) rfl nobw_real⟩

theorem special_div : ("_division" == "_minus_or_uminus") = false ∧ ("_division" == "_division") = true := by decide

/-- `_division` on Real arguments is `divNorm` -/
theorem division_eq (a b : Term) (ha : TOK a .real) (hb : TOK b .real) :
    applySpecial "_division" [a, b] = .ok (divNorm a b) ∧ TOK (divNorm a b) .real := by
  obtain ⟨hd1, hd2⟩ := mkDiv_eq a b ha hb
  have hfix : fixReal "Div" [a, b] = .ok (mkDivNorm a b) :=
    fixReal_ok (by rw [callMgr_div, hd1]; rfl)
  simp only [applySpecial, special_div.1, special_div.2, Bool.false_eq_true, if_false, if_true, divNorm]
  by_cases hc : (Mk.isConstant a && Mk.isConstant b) = true
  · simp only [hc, if_true]
    simp only [Bool.and_eq_true] at hc
    obtain ⟨x, rfl⟩ := const_real a ha hc.1
    obtain ⟨y, rfl⟩ := const_real b hb hc.2
    simp only [constNum]
    by_cases hy : y = 0
    · simp only [hy, ne_eq, not_true_eq_false, if_false]
      rw [← hy]; exact ⟨hfix, hd2⟩
    · simp only [ne_eq, hy, not_false_eq_true, if_true]
      exact ⟨trivial, tok_real _⟩
  · have hc' : (Mk.isConstant a && Mk.isConstant b) = false := by simpa using hc
    simp only [hc', Bool.false_eq_true, if_false]
    exact ⟨hfix, hd2⟩

theorem isNumConst_real {t : Term} {x : Rat} (h : isNumConst t = some (.inr x)) : t = Term.real x := by
  unfold isNumConst at h
  split at h
  · cases h
  · cases h; rfl
  · cases h

theorem ag_div (a b : TT) (u : Term) (τ : Ty) (ha : TOK (mkNorm a.1) a.2) (hb : TOK (mkNorm b.1) b.2)
    (hstd : applyTheory "/" [a, b] = .ok (u, τ)) : Agrees (.special "_division") [a, b] u τ := by
  simp only [applyTheory, List.length_cons, List.length_nil, leftFold, List.foldlM_cons, List.foldlM_nil, bind,
    Except.bind, pure, Except.pure] at hstd
  simp (config := { decide := true }) only [if_true] at hstd
  cases hr : realDiv a b with
  | error e => simp [hr] at hstd
  | ok r =>
    simp only [hr, Except.ok.injEq] at hstd
    subst hstd
    unfold realDiv at hr
    split at hr
    · rename_i hc
      simp only [Bool.and_eq_true, beq_iff_eq] at hc
      have ha' : TOK (mkNorm a.1) .real := hc.1 ▸ ha
      have hb' : TOK (mkNorm b.1) .real := hc.2 ▸ hb
      obtain ⟨h1, h2⟩ := division_eq _ _ ha' hb'
      have hplain : mkNorm (Std.node .div [a, b]) = divNorm (mkNorm a.1) (mkNorm b.1) := by
        simp only [Std.node, List.map_cons, List.map_nil]
        rw [mkNorm_node]
        simp only [List.map_cons, List.map_nil, rootNorm, ha'.ty, beq_self_eq_true, if_true]
      have fin : ∀ v, mkNorm v = divNorm (mkNorm a.1) (mkNorm b.1) → Agrees (.special "_division") [a, b] v .real := by
        intro v hv
        unfold Agrees
        rw [hv]
        refine ⟨?_, h2⟩
        rw [applyFn_special]
        simp only [nargs_cons, nargs_nil, h1]; rfl
      split at hr
      · rename_i x y hx hy
        have hax : a.1 = Term.real x := isNumConst_real hx
        have hby : b.1 = Term.real y := isNumConst_real hy
        split at hr
        · rename_i hy0
          cases hr
          apply fin
          rw [hax, hby, mkNorm_real, mkNorm_real, mkNorm_real]
          simp only [divNorm, Term.real, Mk.isConstant, Op.isConstant, Bool.and_self, if_true, constNum, ne_eq, hy0,
            not_false_eq_true]
        · cases hr
          exact fin _ hplain
      · cases hr
        exact fin _ hplain
    · cases hr

end PySMT.Parser.Agree
