import PySMT.Proofs.C15ParserCmd
/-!
# C15, parser objects — the operational reader computes the functional model (`lc = false`)

`Impl/Parser.lean` passes environments down and never undoes a binding; `Impl/ParserSession.lean` mutates one cache
and unbinds on the way out. Without the literal cache (which `Impl/Parser.lean` does not model) the two agree on every
S-expression: same value or same exception, same state of the formula manager (`rdValS_ref` … `cmdS_ref`,
`getCommands_ref`, `getScript_ref`). This is what ties the session model to the model that the differential run of C08
compares with `SmtLibParser.get_script`.
-/
namespace PySMT.ParserSession
open PySMT.Parser PySMT.Gen.ParserOps

/-- image of an operational result in the functional model's result type -/
def img {α β : Type} (r : Res α) (g : α → St → β) : Except Err β :=
  match r.1 with
  | .ok x => .ok (g x r.2)
  | .error e => .error e

@[simp] theorem img_ok {α β : Type} (x : α) (st : St) (g : α → St → β) : img ((.ok x, st) : Res α) g = .ok (g x st) := rfl
@[simp] theorem img_error {α β : Type} (e : Err) (st : St) (g : α → St → β) :
    img ((.error e, st) : Res α) g = .error e := rfl

theorem env_of_post {α : Type} {st st' : St} {x : α} (h : Post false st (.ok x : Except Err α) st') :
    st'.keys = st.keys ∧ st'.intArith = st.intArith := by
  obtain ⟨P, hr, hp⟩ := h
  have := hp rfl ⟨x, rfl⟩
  subst this
  exact ⟨by simpa using hr.keys, hr.ia⟩

theorem env_eq_of_post {α : Type} {st st' : St} {x : α} (h : Post false st (.ok x : Except Err α) st') :
    st'.env = { st.env with mgr := st'.mgr } := by
  obtain ⟨h1, h2⟩ := env_of_post h
  simp [St.env, h1, h2]

@[simp] theorem unbindAllS_mgr (ns : List String) (st : St) : (unbindAllS ns st).mgr = st.mgr := by
  induction ns generalizing st with
  | nil => rfl
  | cons n ns ih => simp only [unbindAllS, List.foldl_cons] at ih ⊢; rw [ih]; rfl

@[simp] theorem unbindAllS_intArith (ns : List String) (st : St) : (unbindAllS ns st).intArith = st.intArith := by
  induction ns generalizing st with
  | nil => rfl
  | cons n ns ih => simp only [unbindAllS, List.foldl_cons] at ih ⊢; rw [ih]; rfl

theorem bindAllS_env (bs : List (String × Val)) (st : St) :
    (bindAllS bs st).env = { st.env with binds := bindAll bs st.env.binds } := by
  induction bs generalizing st with
  | nil => rfl
  | cons b bs ih =>
    simp only [bindAllS, bindAll, List.foldl_cons] at ih ⊢
    rw [ih]
    rfl

theorem rdAtomS_false (st : St) (lone : Bool) (tok : String) :
    rdAtomS false st lone tok = (atomVal st.env lone (.atom tok), st) := by
  unfold rdAtomS
  split <;> simp_all

/-- the binder list of a quantifier -/
theorem rdQuantBindsS_ref (l : List Sexp) (st : St) (vrs : List (String × Sym)) :
    rdQuantBinds st.env (vrs.map (·.2)) l = img (rdQuantBindsS st vrs l) (fun vs s => (s.env, vs.map (·.2))) := by
  unfold rdQuantBindsS
  split
  · rw [rdQuantBinds_nil]; simp [List.map_reverse]
  · next x ty bs =>
    rw [rdQuantBinds]
    simp only [St.env]
    cases ht : readTy st.keys [] ty with
    | error e => rfl
    | ok t =>
      dsimp only
      cases hq : quantVar st.mgr (pyTok x) t with
      | error e => rfl
      | ok r =>
        obtain ⟨s, σ⟩ := r
        dsimp only
        have := rdQuantBindsS_ref bs ((st.setMgr σ).bind (pyTok x) (.term (Term.sym s))) ((pyTok x, s) :: vrs)
        simpa [St.env, St.bind, St.setMgr] using this
  · next hne =>
    unfold rdQuantBinds
    split
    · next heq => cases heq
    · next heq => cases heq; exact absurd rfl (hne _ _)
    · rfl
termination_by sizeOf l

theorem img_applyFn (f : Fn) (vals : List Val) (st' : St) :
    (applyFn f vals).map (fun v => (v, st'.mgr)) = img ((applyFn f vals, st') : Res Val) (fun v s' => (v, s'.mgr)) := by
  cases applyFn f vals <;> rfl

theorem img_underscore (rest : List Sexp) (st : St) :
    Except.map (fun v => (v, st.env.mgr)) (underscore rest) = img ((underscore rest, st) : Res Val) (fun v s' => (v, s'.mgr)) := by
  cases underscore rest <;> rfl

theorem img_asForm (rest : List Sexp) (st : St) :
    asForm st.env rest = img (match asForm st.env rest with
      | .ok (v, σ) => ((.ok v, st.setMgr σ) : Res Val)
      | .error e => (.error e, st)) (fun v s' => (v, s'.mgr)) := by
  cases asForm st.env rest with
  | error e => rfl
  | ok r => obtain ⟨v, σ⟩ := r; rfl

/-- applying an interpreted operator or a callable of the cache to the arguments -/
theorem img_apply (f : Fn) (rest : List Sexp) (st : St)
    (hargs : rdArgs st.env rest = img (rdArgsS false st rest) (fun vs s' => (vs, s'.mgr))) :
    (match rdArgs st.env rest with
      | .ok (vals, σ) => (applyFn f vals).map (fun v => (v, σ))
      | .error e => .error e) =
    img (match rdArgsS false st rest with
      | (.ok vals, st') => ((applyFn f vals, st') : Res Val)
      | (.error e, st') => (.error e, st')) (fun v s' => (v, s'.mgr)) := by
  rw [hargs]
  rcases hr : rdArgsS false st rest with ⟨_ | _, st'⟩ <;> simp only [img_ok, img_error, img_applyFn]

mutual
theorem rdValS_ref (s : Sexp) (st : St) (lone : Bool) :
    rdVal st.env lone s = img (rdValS false st lone s) (fun v s' => (v, s'.mgr)) := by
  match s with
  | .atom tok =>
    rw [rdValS, rdVal, rdAtomS_false]
    cases atomVal st.env lone (.atom tok) <;> rfl
  | .str lit => rw [rdValS, rdVal_str]; rfl
  | .list [] => rw [rdValS, rdVal]; rfl
  | .list (.str _ :: _) => rw [rdValS, rdVal]; rfl
  | .list (.atom hd :: rest) =>
    rw [rdValS, rdVal]
    have hargs := rdArgsS_ref rest st
    cases htl : tableLookup (pyTok hd) with
    | none =>
      dsimp only
      rw [rdAtomS_false]
      cases hat : atomVal st.env false (.atom hd) with
      | error e => rfl
      | ok v =>
        cases v with
        | fn f => exact img_apply f rest st hargs
        | _ =>
          dsimp only
          rw [hargs]
          rcases hr : rdArgsS false st rest with ⟨_ | _, st'⟩ <;> simp only [img_ok, img_error]
    | some e =>
      cases e with
      | handler fn =>
        dsimp only
        split
        · exact rdLetFormS_ref rest st
        · split
          · exact rdQuantFormS_ref rest st _
          · split
            · exact rdAnnotFormS_ref rest st
            · split
              · exact img_underscore rest st
              · split
                · exact img_asForm rest st
                · rfl
      | mgr m => exact img_apply _ rest st hargs
      | fixReal m => exact img_apply _ rest st hargs
      | special m => exact img_apply _ rest st hargs
  | .list (.list hl :: rest) =>
    rw [rdValS, rdVal]
    · cases hw : isToBvS (.list hl) with
      | some w =>
        rcases rest with _ | ⟨n, _ | ⟨n2, r⟩⟩
        · rfl
        · cases w with
          | none => rfl
          | some w' =>
            dsimp only
            rw [rdValS_ref n st false]
            rcases hr : rdValS false st false n with ⟨_ | v, st'⟩
            · rfl
            · simp only [img_ok]
              split
              · next h1 h2 =>
                cases h1; cases h2
                dsimp only
                split
                · rfl
                · generalize liftMk _ = r
                  cases r <;> rfl
              · exact absurd ‹some w' = none› (by simp)
              · next a heq hne _ =>
                cases heq
                split
                · next h3 => cases h3; exact absurd rfl (hne _ _ _ _ rfl)
                · rfl
                · next h3 => cases h3
              · next e heq _ => cases heq
        · rfl
      | none =>
        dsimp only
        rw [rdValS_ref (.list hl) st false]
        have hp := rdValS_post (.list hl) false st false
        rcases hr : rdValS false st false (.list hl) with ⟨_ | v, st1⟩
        · rfl
        · rw [hr] at hp
          cases v with
          | fn f =>
            simp only [img_ok]
            rw [← env_eq_of_post hp]
            exact img_apply f rest st1 (rdArgsS_ref rest st1)
          | _ => rfl
    · intros; simp_all
    · intros; simp_all
    · intros; simp_all
    · intros; simp_all
termination_by sizeOf s

theorem rdLetFormS_ref (l : List Sexp) (st : St) :
    rdLetForm st.env l = img (rdLetFormS false st l) (fun v s' => (v, s'.mgr)) := by
  unfold rdLetFormS
  split
  · next b bs body =>
    rw [rdLetForm, rdLetBindsS_ref (b :: bs) st [] []]
    rcases hr : rdLetBindsS false st [] [] (b :: bs) with ⟨_ | names, st1⟩
    · rfl
    · simp only [img_ok]
      rw [rdValS_ref body st1 false]
      rcases hr2 : rdValS false st1 false body with ⟨_ | v, st2⟩
      · rfl
      · simp only [img_ok, unbindAllS_mgr]
  · next hne =>
    unfold rdLetForm
    split
    · next heq => cases heq; exact (hne _ rfl).elim
    · rfl
    · next hne2 => exact absurd rfl (hne2 _ _ _)
  · next hne1 hne2 =>
    unfold rdLetForm
    split
    · next heq => exact absurd rfl (hne1 _ _ _)
    · next heq => exact absurd rfl (hne2 _ _ _)
    · rfl
termination_by sizeOf l

theorem rdQuantFormS_ref (l : List Sexp) (st : St) (isForall : Bool) :
    rdQuantForm st.env isForall l = img (rdQuantFormS false st isForall l) (fun v s' => (v, s'.mgr)) := by
  unfold rdQuantFormS
  split
  · next b bs body =>
    rw [rdQuantForm]
    have hq := rdQuantBindsS_ref (b :: bs) st []
    simp only [List.map_nil] at hq
    rw [hq]
    rcases hr : rdQuantBindsS st [] (b :: bs) with ⟨_ | vrs, st1⟩
    · rfl
    · simp only [img_ok]
      rw [rdValS_ref body st1 false]
      rcases hr2 : rdValS false st1 false body with ⟨_ | v, st2⟩
      · rfl
      · cases v with
        | term t =>
          simp only [img_ok]
          generalize liftMk _ = r
          cases r <;> simp [img, Except.map]
        | _ => rfl
  · next hne =>
    unfold rdQuantForm
    split
    · next heq => cases heq; exact (hne _ rfl).elim
    · rfl
    · next hne2 => exact absurd rfl (hne2 _ _ _)
  · next hne1 hne2 =>
    unfold rdQuantForm
    split
    · next heq => exact absurd rfl (hne1 _ _ _)
    · next heq => exact absurd rfl (hne2 _ _ _)
    · rfl
termination_by sizeOf l

theorem rdAnnotFormS_ref (l : List Sexp) (st : St) :
    rdAnnotForm st.env l = img (rdAnnotFormS false st l) (fun v s' => (v, s'.mgr)) := by
  match l with
  | [] => rw [rdAnnotFormS, rdAnnotForm_nil]; rfl
  | t :: attrs =>
    rw [rdAnnotFormS, rdAnnotForm, rdValS_ref t st false]
    rcases hr : rdValS false st false t with ⟨_ | v, st1⟩
    · rfl
    · cases v with
      | term t' =>
        simp only [img_ok]
        cases attrsOK attrs <;> rfl
      | _ => rfl
termination_by sizeOf l

theorem rdArgsS_ref (l : List Sexp) (st : St) :
    rdArgs st.env l = img (rdArgsS false st l) (fun vs s' => (vs, s'.mgr)) := by
  match l with
  | [] => rw [rdArgsS, rdArgs_nil]; rfl
  | s :: rest =>
    rw [rdArgsS, rdArgs, rdValS_ref s st false]
    have hp := rdValS_post s false st false
    rcases hr : rdValS false st false s with ⟨_ | v, st1⟩
    · rfl
    · rw [hr] at hp
      simp only [img_ok]
      rw [← env_eq_of_post hp, rdArgsS_ref rest st1]
      rcases hr2 : rdArgsS false st1 rest with ⟨_ | vs, st2⟩ <;> rfl
termination_by sizeOf l

theorem rdLetBindsS_ref (l : List Sexp) (st : St) (seen : List String) (delayed : List (String × Val)) :
    rdLetBinds st.env seen delayed l = img (rdLetBindsS false st seen delayed l) (fun _ s' => s'.env) := by
  unfold rdLetBindsS
  split
  · rw [rdLetBinds_nil]
    simp only [img_ok, bindAllS_env]
  · next x e bs =>
    rw [rdLetBinds]
    split
    · rfl
    · rw [rdValS_ref e st false]
      have hp := rdValS_post e false st false
      rcases hr : rdValS false st false e with ⟨_ | v, st1⟩
      · rfl
      · rw [hr] at hp
        obtain ⟨hk, hia⟩ := env_of_post hp
        dsimp only at hk hia
        simp only [img_ok]
        rw [hk, show st.env.binds = st.keys from rfl]
        cases hlk : lookup (pyTok x) st.keys with
        | none =>
          have e1 : (st1.bind (pyTok x) v).env =
              { binds := (pyTok x, v) :: st.keys, intArith := st.env.intArith, mgr := st1.mgr } := by
            simp [St.env, St.bind, hk, hia]
          dsimp only
          rw [← e1]
          exact rdLetBindsS_ref bs (st1.bind (pyTok x) v) (pyTok x :: seen) delayed
        | some _ =>
          have e1 : st1.env = { binds := st.keys, intArith := st.env.intArith, mgr := st1.mgr } := by
            simp [St.env, hk, hia]
          dsimp only
          rw [← e1]
          exact rdLetBindsS_ref bs st1 (pyTok x :: seen) ((pyTok x, v) :: delayed)
  · next hne =>
    unfold rdLetBinds
    split
    · next heq => cases heq
    · next heq => cases heq; exact (hne _ _ rfl).elim
    · rfl
termination_by sizeOf l
end

end PySMT.ParserSession
