import PySMT.Proofs.C07Read6
/-!
# C07 (`read_toSexp`, continued): indexed bit-vector operators, applications of declared functions, constants
-/
namespace PySMT.Printer
open PySMT.Std PySMT.Sexp

theorem indices_natAtoms : ∀ (idx : List Nat), indices (idx.map natAtom) = some idx
  | [] => rfl
  | n :: idx => by simp [indices, natAtom, numeral?_natStr, indices_natAtoms idx]

theorem symName_indexed : symName? "extract" = some "extract" ∧ symName? "zero_extend" = some "zero_extend"
    ∧ symName? "sign_extend" = some "sign_extend" ∧ symName? "rotate_left" = some "rotate_left"
    ∧ symName? "rotate_right" = some "rotate_right" := by decide +kernel

theorem rd_indexed (env : SEnv) (sc : List Binding) (name : String) (hn : symName? name = some name)
    (idx : List Nat) (hidx : idx ≠ []) (args : List Sexp) (as : List TT)
    (hargs : rdList env sc args = .ok as) :
    rd env sc (indexed name idx args) = applyIndexed name idx as := by
  have hemp : idx.isEmpty = false := by cases idx <;> simp_all
  simp [indexed, rd, hargs, applyHead, hn, indices_natAtoms, hemp]

section
variable (sp : Spell) (hsp : SpellStd sp) (env : SEnv) (sc : List Binding) (srt : Bool) (toS : Term → Sexp)
include hsp

theorem reads_extract (p : Payload) (args : List Term) (τ : Ty)
    (hargs : ∀ a ∈ args, Reads env sc srt toS a) (hty : (Term.node .bvExtract args p).typeOf = some τ)
    (hS : stdTy .bvExtract p (args.map tyD) = some τ) : NodeReads sp env sc srt toS .bvExtract args p := by
  simp only [stdTy] at hS
  split at hS
  · next ts w lo hi m hts =>
    split at hS <;> simp at hS
    rename_i hc
    simp only [Bool.and_eq_true, decide_eq_true_eq, beq_iff_eq] at hc
    obtain ⟨⟨hlh, hhm⟩, hw⟩ := hc
    obtain ⟨a, rfl, ha⟩ := map_eq_one hts
    subst hS
    apply reads_of sp env sc srt toS _ _ _ _ _ hty (unfoldAV_plain srt _ _ _ (by decide))
    simp only [nodeSexp, walkKey, spell sp hsp "walk_bv_extract" "extract" (by decide)]
    rw [rd_indexed env sc "extract" symName_indexed.1 [hi, lo] (by simp) _ _ (rdList_args env sc srt toS [a] hargs)]
    simp only [List.map, U, ha]
    rw [ai_extract _ m hi lo hlh hhm, hw]
  · simp at hS

theorem reads_rot (op : Op) (hop : op = .bvRol ∨ op = .bvRor) (p : Payload) (args : List Term) (τ : Ty)
    (hargs : ∀ a ∈ args, Reads env sc srt toS a) (hty : (Term.node op args p).typeOf = some τ)
    (hS : stdTy op p (args.map tyD) = some τ) : NodeReads sp env sc srt toS op args p := by
  rcases hop with rfl | rfl
  · simp only [stdTy] at hS
    split at hS
    · next ts w k m hts =>
      split at hS <;> simp at hS
      rename_i hc
      simp only [beq_iff_eq] at hc
      obtain ⟨a, rfl, ha⟩ := map_eq_one hts
      subst hS
      apply reads_of sp env sc srt toS _ _ _ _ _ hty (unfoldAV_plain srt _ _ _ (by decide))
      simp only [nodeSexp, walkKey, spell sp hsp "walk_bv_rotate:is_bv_rol" "rotate_left" (by decide)]
      rw [rd_indexed env sc "rotate_left" symName_indexed.2.2.2.1 [k] (by simp) _ _ (rdList_args env sc srt toS [a] hargs)]
      simp only [List.map, U, ha]
      rw [ai_rol, hc]
    · simp at hS
  · simp only [stdTy] at hS
    split at hS
    · next ts w k m hts =>
      split at hS <;> simp at hS
      rename_i hc
      simp only [beq_iff_eq] at hc
      obtain ⟨a, rfl, ha⟩ := map_eq_one hts
      subst hS
      apply reads_of sp env sc srt toS _ _ _ _ _ hty (unfoldAV_plain srt _ _ _ (by decide))
      simp only [nodeSexp, walkKey, spell sp hsp "walk_bv_rotate:is_bv_ror" "rotate_right" (by decide)]
      rw [rd_indexed env sc "rotate_right" symName_indexed.2.2.2.2 [k] (by simp) _ _ (rdList_args env sc srt toS [a] hargs)]
      simp only [List.map, U, ha]
      rw [ai_ror, hc]
    · simp at hS

theorem reads_ext (op : Op) (hop : op = .bvZext ∨ op = .bvSext) (p : Payload) (args : List Term) (τ : Ty)
    (hargs : ∀ a ∈ args, Reads env sc srt toS a) (hty : (Term.node op args p).typeOf = some τ)
    (hS : stdTy op p (args.map tyD) = some τ) : NodeReads sp env sc srt toS op args p := by
  rcases hop with rfl | rfl
  · simp only [stdTy] at hS
    split at hS
    · next ts w k m hts =>
      split at hS <;> simp at hS
      rename_i hc
      simp only [beq_iff_eq] at hc
      obtain ⟨a, rfl, ha⟩ := map_eq_one hts
      subst hS
      apply reads_of sp env sc srt toS _ _ _ _ _ hty (unfoldAV_plain srt _ _ _ (by decide))
      simp only [nodeSexp, walkKey, spell sp hsp "walk_bv_extend:is_bv_zext" "zero_extend" (by decide)]
      rw [rd_indexed env sc "zero_extend" symName_indexed.2.1 [k] (by simp) _ _ (rdList_args env sc srt toS [a] hargs)]
      simp only [List.map, U, ha]
      rw [ai_zext, hc]
    · simp at hS
  · simp only [stdTy] at hS
    split at hS
    · next ts w k m hts =>
      split at hS <;> simp at hS
      rename_i hc
      simp only [beq_iff_eq] at hc
      obtain ⟨a, rfl, ha⟩ := map_eq_one hts
      subst hS
      apply reads_of sp env sc srt toS _ _ _ _ _ hty (unfoldAV_plain srt _ _ _ (by decide))
      simp only [nodeSexp, walkKey, spell sp hsp "walk_bv_extend:is_bv_sext" "sign_extend" (by decide)]
      rw [rd_indexed env sc "sign_extend" symName_indexed.2.2.1 [k] (by simp) _ _ (rdList_args env sc srt toS [a] hargs)]
      simp only [List.map, U, ha]
      rw [ai_sext, hc]
    · simp at hS

end

end PySMT.Printer
