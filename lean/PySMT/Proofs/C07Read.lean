import PySMT.Proofs.C07Num
import PySMT.Proofs.C07Apply
/-!
# C07: the standard's reading of the tree printer's output is the formula (`read_toSexp`)

Infrastructure: scopes of bound variables, symbol tokens, sorts, spellings.
-/
namespace PySMT.Printer
open PySMT.Std PySMT.Sexp

/-! ## spellings -/

/-- the spellings `toSexpWith` needs for the terms `Printable` admits, with the standard's name -/
def stdSpellings : List (String × String) :=
  [("walk_and", "and"), ("walk_or", "or"), ("walk_not", "not"), ("walk_implies", "=>"), ("walk_iff", "="),
   ("walk_plus", "+"), ("walk_minus", "-"), ("walk_times", "*"), ("walk_equals", "="), ("walk_le", "<="),
   ("walk_lt", "<"), ("walk_ite", "ite"), ("walk_toreal", "to_real"), ("walk_div", "/"),
   ("walk_bv_and", "bvand"), ("walk_bv_or", "bvor"), ("walk_bv_not", "bvnot"), ("walk_bv_xor", "bvxor"),
   ("walk_bv_add", "bvadd"), ("walk_bv_sub", "bvsub"), ("walk_bv_neg", "bvneg"), ("walk_bv_mul", "bvmul"),
   ("walk_bv_udiv", "bvudiv"), ("walk_bv_urem", "bvurem"), ("walk_bv_lshl", "bvshl"), ("walk_bv_lshr", "bvlshr"),
   ("walk_bv_ult", "bvult"), ("walk_bv_ule", "bvule"), ("walk_bv_slt", "bvslt"), ("walk_bv_sle", "bvsle"),
   ("walk_bv_concat", "concat"), ("walk_bv_comp", "bvcomp"), ("walk_bv_ashr", "bvashr"), ("walk_bv_sdiv", "bvsdiv"),
   ("walk_bv_srem", "bvsrem"), ("walk_bv_tonatural", "bv2nat"), ("walk_array_select", "select"),
   ("walk_array_store", "store"), ("walk_int_constant", "-"), ("walk_real_constant:0", "-"),
   ("walk_real_constant:1", "/"), ("walk_forall", "forall"), ("walk_exists", "exists"), ("walk_bv_extract", "extract"),
   ("walk_bv_rotate:is_bv_ror", "rotate_right"), ("walk_bv_rotate:is_bv_rol", "rotate_left"),
   ("walk_bv_extend:is_bv_zext", "zero_extend"), ("walk_bv_extend:is_bv_sext", "sign_extend"),
   ("walk_str_length", "str.len"), ("walk_str_charat", "str.at"), ("walk_str_concat", "str.++"),
   ("walk_str_contains", "str.contains"), ("walk_str_indexof", "str.indexof"), ("walk_str_replace", "str.replace"),
   ("walk_str_substr", "str.substr"), ("walk_str_prefixof", "str.prefixof"), ("walk_str_suffixof", "str.suffixof"),
   ("walk_array_value:0", "store"), ("walk_array_value:1", "as"), ("walk_array_value:2", "const")]

/-- a spelling table that writes the standard's names -/
def SpellStd (sp : Spell) : Prop := ∀ kv ∈ stdSpellings, sp kv.1 = kv.2

/-- the table regenerated from `SmtPrinter` does -/
theorem treeSpell_std : SpellStd treeSpell := by
  unfold SpellStd
  decide +kernel

theorem dagSpell_std : SpellStd dagSpell := by
  unfold SpellStd
  decide +kernel

/-- facts about the operator tokens: each is its own symbol name, a theory symbol, and none of the words `rd` treats
specially -/
def opTokOK (f : String) : Bool :=
  symName? f == some f && theorySymbols.contains f && f != "let" && f != "forall" && f != "exists" && f != "!"
    && f != "_" && f != "as" && f != "match" && f != "par"

def opToks : List String :=
  ["and", "or", "not", "=>", "=", "+", "-", "*", "<=", "<", "ite", "to_real", "/", "bvand", "bvor", "bvnot", "bvxor",
   "bvadd", "bvsub", "bvneg", "bvmul", "bvudiv", "bvurem", "bvshl", "bvlshr", "bvult", "bvule", "bvslt", "bvsle",
   "concat", "bvcomp", "bvashr", "bvsdiv", "bvsrem", "bv2nat", "select", "store", "str.len", "str.at", "str.++",
   "str.contains", "str.indexof", "str.replace", "str.substr", "str.prefixof", "str.suffixof"]

theorem opToks_ok : ∀ f ∈ opToks, opTokOK f = true := by decide +kernel

/-! ## scopes -/

theorem lookupScope_vars (n : String) : ∀ (vs : List Sym) (crossed : List Sym),
    lookupScope n (vs.map Binding.var) crossed = (findVar vs n).map (fun s => Except.ok (Term.sym s, s.ret))
  | [], _ => rfl
  | v :: vs, crossed => by
    simp only [List.map_cons, lookupScope, findVar, List.find?_cons]
    by_cases h : (v.name == n) = true
    · simp [h]
    · have h' : (v.name == n) = false := by simpa using h
      simp only [h', Bool.false_eq_true, if_false]
      exact lookupScope_vars n vs (v :: crossed)

/-- no bound variable is named like a theory symbol -/
def ScopeOK (scope : List Sym) : Prop := ∀ s ∈ scope, theorySymbols.contains s.name = false

theorem findVar_theory {scope : List Sym} (h : ScopeOK scope) {f : String} (hf : theorySymbols.contains f = true) :
    findVar scope f = none := by
  unfold findVar
  rw [List.find?_eq_none]
  intro s hs hname
  have := h s hs
  have hn : s.name = f := by simpa using hname
  rw [hn, hf] at this
  exact absurd this (by simp)

/-- no name bound in the scope is a theory symbol -/
def ThFree (sc : List Binding) : Prop := ∀ f, theorySymbols.contains f = true → lookupScope f sc [] = none

theorem thFree_vars {scope : List Sym} (h : ScopeOK scope) : ThFree (scope.map Binding.var) := by
  intro f hf
  rw [lookupScope_vars, findVar_theory h hf]; rfl

/-- reading an application of an operator token -/
theorem rd_op (env : SEnv) (sc : List Binding) (hsc : ThFree sc) (f : String) (hf : f ∈ opToks)
    (args : List Sexp) (as : List TT) (hargs : rdList env sc args = .ok as) (hne : as ≠ []) :
    rd env sc (.list (.atom f :: args)) = applyTheory f as := by
  have hok := opToks_ok f hf
  simp only [opTokOK, Bool.and_eq_true, bne_iff_ne, ne_eq, beq_iff_eq] at hok
  obtain ⟨⟨⟨⟨⟨⟨⟨⟨⟨hsn, hth⟩, h1⟩, h2⟩, h3⟩, h4⟩, h5⟩, h6⟩, h7⟩, h8⟩ := hok
  have e1 : (f == "let") = false := by simpa using h1
  have e2 : (f == "forall") = false := by simpa using h2
  have e3 : (f == "exists") = false := by simpa using h3
  have e4 : (f == "!") = false := by simpa using h4
  have e5 : (f == "_") = false := by simpa using h5
  have e6 : (f == "as") = false := by simpa using h6
  have e7 : (f == "match") = false := by simpa using h7
  have e8 : (f == "par") = false := by simpa using h8
  have hls : (lookupScope f sc []).isSome = false := by rw [hsc f hth]; rfl
  have hemp : as.isEmpty = false := by cases as <;> simp_all
  rw [rd]
  simp only [e1, e2, e3, e4, e5, e6, e7, e8, Bool.false_eq_true, if_false, Bool.or_self, hsn, hargs, applySym, hemp,
    hls, hth, if_true]

/-! ## symbol tokens are not literals -/

theorem notNumeral_of_head {c : Char} (cs : List Char) (hc : isDigit c = false) : isNumeralChars (c :: cs) = false := by
  unfold isNumeralChars
  split
  · rfl
  · next heq =>
    simp only [List.cons.injEq] at heq
    rw [heq.1] at hc
    revert hc; decide
  · next c' cs' _ heq =>
    simp only [List.cons.injEq] at heq
    obtain ⟨rfl, rfl⟩ := heq
    simp [hc]

theorem notDecimal_of_head {c : Char} (cs : List Char) (hc : isDigit c = false) : isDecimalChars (c :: cs) = false := by
  unfold isDecimalChars
  by_cases hd : c = '.'
  · subst hd
    simp [splitDot, isNumeralChars]
  · have hd' : (c == '.') = false := by simpa using hd
    cases hsd : splitDot cs with
    | mk a b =>
      cases b with
      | none => simp [splitDot, hd', hsd]
      | some b => simp [splitDot, hd', hsd, notNumeral_of_head a hc]

theorem sym_not_literal (n : List Char) :
    let tok := String.ofList (symTokChars n)
    numeral? tok = none ∧ decimal? tok = none ∧ binary? tok = none ∧ hex? tok = none := by
  simp only [numeral?, decimal?, binary?, hex?, String.toList_ofList]
  by_cases hns : isNonSymbolChars n = true
  · have hb : isDigit '|' = false := by decide
    simp [symTokChars, hns, notNumeral_of_head _ hb, notDecimal_of_head _ hb, isBinaryChars, isHexChars]
  · have hns' : isNonSymbolChars n = false := by simpa using hns
    have h := hns'
    simp only [isNonSymbolChars, Bool.or_eq_false_iff] at h
    simp [symTokChars, hns', h.1.1.1.1.1, h.1.1.1.1.2, h.1.1.1.2, h.1.1.2]

/-- reading the token of a constant symbol -/
theorem atomTerm_sym (env : SEnv) (scope : List Sym) (s : Sym)
    (hok : nodeOK env scope .symbol (.sym s) [] = true) :
    rd env (scope.map Binding.var) (quoteAtom s.name) = .ok (Term.sym s, s.ret) := by
  simp only [nodeOK, List.length_nil, beq_self_eq_true, Bool.true_and, Bool.and_eq_true] at hok
  obtain ⟨⟨hfine, hpar⟩, hres⟩ := hok
  simp only [nameFine, Bool.and_eq_true, Bool.not_eq_true'] at hfine
  obtain ⟨⟨hch, hrsv⟩, hth⟩ := hfine
  rw [quoteAtom_eq s.name hch hrsv]
  obtain ⟨tok, htok, hsn⟩ := symName?_sym s.name hch
  have hlit := sym_not_literal s.name.toList
  simp only [Sexp.sym, Sexp.atom.injEq] at htok
  rw [← htok] at hsn
  simp only [Sexp.sym, rd, atomTerm, hlit.1, hlit.2.1, hlit.2.2.1, hlit.2.2.2, hsn, lookupScope_vars]
  cases hfv : findVar scope s.name with
  | some s' =>
    simp only [hfv] at hres
    have : s' = s := by simpa using hres
    subst this
    rfl
  | none =>
    simp only [hfv] at hres
    have hlf : env.lookupFun s.name = some s := by simpa using hres
    have ht : (s.name == "true") = false := by
      apply beq_eq_false_iff_ne.2
      intro e; rw [e] at hth; revert hth; decide
    have hf : (s.name == "false") = false := by
      apply beq_eq_false_iff_ne.2
      intro e; rw [e] at hth; revert hth; decide
    simp [ht, hf, hlf, hpar, Term.sym]

end PySMT.Printer
