import PySMT.Proofs.C04Width
/-!
# C04 — documented constructor normalisations: two different calls, one node
-/
namespace PySMT.Manager

/-! ## program equalities (the rewriting is the definition of the constructor) -/

theorem mkGE_eq (a b : Nid) : mkGE a b = mkLE b a := rfl
theorem mkGT_eq (a b : Nid) : mkGT a b = mkLT b a := rfl
theorem mkBVUGT_eq (a b : Nid) : mkBVUGT a b = mkBVULT b a := rfl
theorem mkBVUGE_eq (a b : Nid) : mkBVUGE a b = mkBVULE b a := rfl
theorem mkBVSGT_eq (a b : Nid) : mkBVSGT a b = mkBVSLT b a := rfl
theorem mkBVSGE_eq (a b : Nid) : mkBVSGE a b = mkBVSLE b a := rfl
theorem mkOr_single (a : Nid) : mkOr [a] = pure a := rfl
theorem mkPlus_single (a : Nid) : mkPlus [a] = pure a := rfl
theorem mkTimes_single (a : Nid) : mkTimes [a] = pure a := rfl
theorem mkXor_eq (a b : Nid) : mkXor a b = (mkIff a b).bind mkNot := rfl
theorem mkNotEquals_eq (a b : Nid) : mkNotEquals a b = (mkEquals a b).bind mkNot := rfl
theorem mkBVOne_eq (w : Nat) : mkBVpy (.int 1) (.int w) = if (w : Int) ≤ 0 then failP .valueError else mkBV (.int 1) (some w) := by
  simp [mkBVpy]

/-! ## state-reading normalisations: equal runs in every state -/

/-- `Not(n)` for a node `n = Not(a)` returns `a` and changes nothing. -/
theorem mkNot_of_not {s : Mgr} {n a : Nid} {rest : List Nid} {pl : Payload}
    (h : s.content? n = some ⟨NT.NOT, a :: rest, pl⟩) : (mkNot n).run s = (.ok a, s) := by
  show ((getC n).bind _).run s = _
  rw [getC_run h]
  simp
  rfl

/-- `ToReal` of an Int constant is `Real` of the same Python int. -/
theorem mkToReal_int_const {s : Mgr} (hs : Inv s) {f : Nid} {n : Int} (h : (intC n, f) ∈ s.formulae) :
    (mkToReal f).run s = (mkReal (.int n)).run s := by
  have hc := content?_of_mem hs h
  have hty : s.typeOf f = some .int := by
    simp only [Mgr.typeOf, typeOfAux, hc, intC]
    unfold typeView
    simp +decide
  simp only [mkToReal, typeOfP, bind]
  rw [read_run]
  simp only [hty, Prog.bind]
  rw [if_neg (by decide), if_pos trivial, getC_run hc]
  simp [intC]

/-- `ToReal` of a Real-typed term is the term itself. -/
theorem mkToReal_real {s : Mgr} {f : Nid} (hty : s.typeOf f = some .real) : (mkToReal f).run s = (.ok f, s) := by
  simp only [mkToReal, typeOfP, bind]
  rw [read_run]
  simp only [hty, Prog.bind]
  simp
  rfl

/-- `EqualsOrIff` is `Iff` on Boolean terms and `Equals` otherwise. -/
theorem mkEqualsOrIff_bool {s : Mgr} {l r : Nid} (h : s.typeOf l = some .bool) :
    (mkEqualsOrIff l r).run s = (mkIff l r).run s := by
  simp only [mkEqualsOrIff, typeOfP, bind]
  rw [read_run]
  simp only [h, Prog.bind]
  simp [mkIff]

theorem mkEqualsOrIff_nonbool {s : Mgr} {l r : Nid} {t : Ty} (h : s.typeOf l = some t) (ht : t ≠ .bool) :
    (mkEqualsOrIff l r).run s = (mkEquals l r).run s := by
  simp only [mkEqualsOrIff, typeOfP, bind]
  rw [read_run]
  simp only [h, Prog.bind]
  simp [mkEquals, ht]

/-- `Div(x, c)` by a non-zero Real constant `c` is `Times(x, Real(1/c))`. -/
theorem mkDiv_real_const {s : Mgr} (hs : Inv s) {x r : Nid} {q : Rat} (hr : (realC q, r) ∈ s.formulae)
    (hq : q ≠ 0) :
    (mkDiv x r).run s = ((mkReal (.frac (1 / q))).bind fun inv => mkTimes [x, inv]).run s := by
  have hc := content?_of_mem hs hr
  show ((getC r).bind _).run s = _
  rw [getC_run hc]
  have h1 : (Payload.rat q == Payload.rat 0) = false := by
    simp [hq]
  simp [realC, h1, bind]

/-- `Div(x, 0)` stays a `DIV` node (division by zero is allowed). -/
theorem mkDiv_zero {s : Mgr} (hs : Inv s) {x r : Nid} (hr : (realC 0, r) ∈ s.formulae) :
    (mkDiv x r).run s = (create ⟨NT.DIV, [x, r], .none⟩).run s := by
  have hc := content?_of_mem hs hr
  show ((getC r).bind _).run s = _
  rw [getC_run hc]
  simp [realC]

/-! ## one node, whenever and however it is requested -/

/-- The same `create_node` request at two points of a history returns the same node. -/
theorem create_twice {α : Type} {s s1 s3 : Mgr} (hs : Inv s) {c : Content} {i j : Nid} (p : Prog α)
    (h1 : (create c).run s = (.ok i, s1)) (h2 : (create c).run (p.run s1).2 = (.ok j, s3)) : i = j := by
  have c1 := create_content hs h1
  have hp := Prog.run_spec p s1 c1.2.1
  have c2 := create_content hp.1 h2
  exact c2.2.1.tfun c i j (c2.2.2.sub _ (hp.2.sub _ (content?_mem c1.1))) (content?_mem c2.1)

/-- `GE(a, b)` now and `LE(b, a)` at any later point: the same node (likewise `GT`/`LT` and
    the bit-vector `UGT/UGE/SGT/SGE`, by the program equalities above). -/
theorem ge_le_same_node {α : Type} {s s1 s3 : Mgr} (hs : Inv s) {a b i j : Nid} (p : Prog α)
    (h1 : (mkGE a b).run s = (.ok i, s1)) (h2 : (mkLE b a).run (p.run s1).2 = (.ok j, s3)) : i = j :=
  create_twice hs p h1 h2

theorem gt_lt_same_node {α : Type} {s s1 s3 : Mgr} (hs : Inv s) {a b i j : Nid} (p : Prog α)
    (h1 : (mkGT a b).run s = (.ok i, s1)) (h2 : (mkLT b a).run (p.run s1).2 = (.ok j, s3)) : i = j :=
  create_twice hs p h1 h2

/-- `EqualsOrIff(l, r)` on Boolean terms now and `Iff(l, r)` later: the same node. -/
theorem equalsOrIff_iff_same_node {α : Type} {s s1 s3 : Mgr} (hs : Inv s) {l r i j : Nid} (p : Prog α)
    (hb : s.typeOf l = some .bool)
    (h1 : (mkEqualsOrIff l r).run s = (.ok i, s1)) (h2 : (mkIff l r).run (p.run s1).2 = (.ok j, s3)) : i = j := by
  rw [mkEqualsOrIff_bool hb] at h1
  exact create_twice hs p h1 h2

/-- `Not(Not(x))` is `x`: at any later point `Not` of the node `Not(x)` returns `x`. -/
theorem not_not_same_node {α : Type} {s s1 : Mgr} (hs : Inv s) {x n : Nid} (p : Prog α)
    (hx : ∃ c, s.content? x = some c ∧ c.nodeType ≠ NT.NOT)
    (h1 : (mkNot x).run s = (.ok n, s1)) : (mkNot n).run (p.run s1).2 = (.ok x, (p.run s1).2) := by
  obtain ⟨c, hc, hnt⟩ := hx
  have h' : (create ⟨NT.NOT, [x], .none⟩).run s = (.ok n, s1) := by
    have : (mkNot x).run s = (create ⟨NT.NOT, [x], .none⟩).run s := by
      show ((getC x).bind _).run s = _
      rw [getC_run hc]
      simp [hnt]
    rw [← this]; exact h1
  have c1 := create_content hs h'
  have hp := Prog.run_spec p s1 c1.2.1
  exact mkNot_of_not (content_stable hp.1 hp.2 (content?_mem c1.1))

/-- a `Real(v)` call that returned: its node has the denoted content -/
theorem mkReal_ret {s s' : Mgr} (hs : Inv s) {v : PyNum} {q : Rat} (hv : v.realValue = .ok q) {i : Nid}
    (h : (mkReal v).run s = (.ok i, s')) : (realC q, i) ∈ s'.formulae ∧ Inv s' ∧ Ext s s' := by
  rw [mkReal, prim_run] at h
  simp only [Prim.exec] at h
  have hsp := realConst_spec v s hs
  rw [h] at hsp
  obtain ⟨q', hq', hm⟩ := hsp.2 i rfl
  rw [hv] at hq'; cases hq'
  exact ⟨hm, hsp.1.inv, hsp.1.ext⟩

/-- `ToReal(Int(n))` now and `Real(n)` later: the same node. -/
theorem toReal_const_same_node {α : Type} {s s1 s3 : Mgr} (hs : Inv s) {f i j : Nid} {n : Int} (p : Prog α)
    (hf : (intC n, f) ∈ s.formulae) (h1 : (mkToReal f).run s = (.ok i, s1))
    (h2 : (mkReal (.int n)).run (p.run s1).2 = (.ok j, s3)) : i = j := by
  rw [mkToReal_int_const hs hf] at h1
  obtain ⟨hm1, hi1, _⟩ := mkReal_ret hs (v := .int n) (q := (n : Rat)) rfl h1
  have hp := Prog.run_spec p s1 hi1
  obtain ⟨hm2, hi3, he3⟩ := mkReal_ret hp.1 (v := .int n) (q := (n : Rat)) rfl h2
  exact hi3.tfun _ _ _ (he3.sub _ (hp.2.sub _ hm1)) hm2

/-- `Div(x, c)` now and `Times(x, Real(1/c))` later, for a non-zero Real constant `c`: the
    same node. -/
theorem div_times_same_node {α : Type} {s s1 s3 : Mgr} (hs : Inv s) {x r i j : Nid} {q : Rat} (p : Prog α)
    (hr : (realC q, r) ∈ s.formulae) (hq : q ≠ 0) (h1 : (mkDiv x r).run s = (.ok i, s1))
    (h2 : ((mkReal (.frac (1 / q))).bind fun inv => mkTimes [x, inv]).run (p.run s1).2 = (.ok j, s3)) : i = j := by
  rw [mkDiv_real_const hs hr hq, Prog.run_bind] at h1
  rw [Prog.run_bind] at h2
  cases hra : (mkReal (.frac (1 / q))).run s with
  | mk ra sa =>
    rw [hra] at h1
    cases ra with
    | error e => simp at h1
    | ok a =>
      simp only at h1
      obtain ⟨hma, hia, _⟩ := mkReal_ret hs (v := .frac (1 / q)) (q := 1 / q) rfl hra
      have h1' : (create ⟨NT.TIMES, [x, a], .none⟩).run sa = (.ok i, s1) := h1
      have c1 := create_content hia h1'
      have hp := Prog.run_spec p s1 c1.2.1
      cases hrb : (mkReal (.frac (1 / q))).run (p.run s1).2 with
      | mk rb sb =>
        rw [hrb] at h2
        cases rb with
        | error e => simp at h2
        | ok b =>
          simp only at h2
          obtain ⟨hmb, hib, heb⟩ := mkReal_ret hp.1 (v := .frac (1 / q)) (q := 1 / q) rfl hrb
          have hab : a = b := hib.tfun _ _ _ (heb.sub _ (hp.2.sub _ (c1.2.2.sub _ hma))) hmb
          subst hab
          have h2' : (create ⟨NT.TIMES, [x, a], .none⟩).run sb = (.ok j, s3) := h2
          have c2 := create_content hib h2'
          exact c2.2.1.tfun _ i j (c2.2.2.sub _ (heb.sub _ (hp.2.sub _ (content?_mem c1.1)))) (content?_mem c2.1)

/-! ## payload-decoding accessors report what the constructor was given -/

/-- `Symbol(n, t)`: `symbol_name()` is `n`, `symbol_type()` is `t`; for `t = BV w`,
    `bv_width()` is `w`. -/
theorem symbol_accessors {s s' : Mgr} (hs : Inv s) {n : String} {t : Ty} {i : Nid}
    (h : (mkSymbol n t).run s = (.ok i, s')) :
    s'.symbolName i = some n ∧ s'.symbolType i = some t ∧ (∀ w, t = .bv w → s'.bvWidth i = some w) := by
  rw [mkSymbol, prim_run] at h
  simp only [Prim.exec] at h
  have hsp := symbolPrim_spec n t s hs
  rw [h] at hsp
  have hc := content?_of_mem hsp.1.inv (hsp.2 i rfl)
  refine ⟨by simp [Mgr.symbolName, hc, symC], by simp [Mgr.symbolType, hc, symC], ?_⟩
  intro w hw
  subst hw
  simp only [Mgr.bvWidth, bvWidthAux, hc, symC]
  unfold bvView
  simp +decide

/-- `BV(n, w)`: `bv_width()` is `w`, the value payload is `n`. -/
theorem bvConst_accessors {s s' : Mgr} (hs : Inv s) {v w : Nat} {i : Nid}
    (h : (create ⟨NT.BV_CONSTANT, [], .bv v w⟩).run s = (.ok i, s')) :
    s'.bvWidth i = some w ∧ s'.content? i = some ⟨NT.BV_CONSTANT, [], .bv v w⟩ := by
  have hc := (create_content hs h).1
  refine ⟨?_, hc⟩
  simp only [Mgr.bvWidth, bvWidthAux, hc]
  unfold bvView
  simp +decide

/-- the width of a bit-vector operator node is the width payload computed at construction:
    `BVNot(x).bv_width() = x.bv_width()` (likewise every `mkBVUn`/`mkBVBin` operator) -/
theorem bvUn_width {s s' : Mgr} (hs : Inv s) {nt : Nat} (hnt : nt ∈ bvUnNTs) {x i : Nid}
    (h : (mkBVUn nt x).run s = (.ok i, s')) : s'.bvWidth i = s.bvWidth x := by
  cases hw : s.bvWidth x with
  | none =>
    have : (mkBVUn nt x).run s = (.error .assertion, s) := by
      show ((bvw x).bind _).run s = _
      simp [bvw, Prog.bind, Prog.run, hw]
    rw [this] at h; cases h
  | some w =>
    have h' : (create ⟨nt, [x], .nums [(w : Int)]⟩).run s = (.ok i, s') := by
      rw [← h]; show _ = ((bvw x).bind _).run s; rw [bvw_run hw]
    have hc := (create_content hs h').1
    simp only [Mgr.bvWidth, bvWidthAux, hc]
    simp only [bvUnNTs, List.mem_cons, List.not_mem_nil, or_false] at hnt
    rcases hnt with rfl | rfl <;> (unfold bvView; simp +decide)

/-- `Array(it, d, assign)`: `array_value_assigned_values_map()` is exactly the given
    assignments whose value differs from the default, `array_value_default()` is `d`,
    `array_value_index_type()` is `it`. -/
theorem array_accessors {s s' : Mgr} (hs : Inv s) {addr : Nid → Nat} {it : Ty} {d i : Nid}
    {assign : List (Nid × Nid)} (h : (mkArray addr it d assign).run s = (.ok i, s')) :
    (∃ m, s'.assignedValues i = some m ∧ ∀ kv, kv ∈ m ↔ kv ∈ assign ∧ kv.2 ≠ d) ∧
    s'.arrayDefault i = some d ∧ s'.indexType i = some it := by
  have hc := mkArray_content hs h
  refine ⟨⟨arrayAssignments addr d assign, ?_, fun _ => mem_arrayAssignments⟩, ?_, ?_⟩
  · simp [Mgr.assignedValues, hc, pairsOf_flattenPairs]
  · simp [Mgr.arrayDefault, hc]
  · simp [Mgr.indexType, hc]

end PySMT.Manager
