import PySMT.Proofs.SimpBV4
/-!
# `RuleOK` for `walk_bv_sdiv`, `_srem`, `_ashr` (every width)

The three rules call `walk_bv_neg` / `walk_bv_udiv` / `walk_bv_urem` / `walk_bv_lshr` on constants:
`walkBvX_const` gives the constant each call returns, `walkBvSdiv_const` … the composition, and
`spec_sdiv` / `spec_srem` / `spec_ashr` (Proofs/SimpBVArith.lean) relate the composed number to
`BitVec.smtSDiv` / `srem` / `sshiftRight`.
-/
namespace PySMT.Simp.BVRules
open PySMT PySMT.Build PySMT.Simp

theorem isBin_sdiv : IsBin .bvSdiv (fun _ x y => BitVec.smtSDiv x y) :=
  ⟨rfl, by simp, by simp, rfl, fun _ => rfl, fun _ _ _ _ => rfl⟩
theorem isBin_srem : IsBin .bvSrem (fun _ x y => BitVec.srem x y) :=
  ⟨rfl, by simp, by simp, rfl, fun _ => rfl, fun _ _ _ _ => rfl⟩
theorem isBin_ashr : IsBin .bvAshr (fun _ x y => x.sshiftRight y.toNat) :=
  ⟨rfl, by simp, by simp, rfl, fun _ => rfl, fun _ _ _ _ => rfl⟩

theorem walkBvNeg_const (v w : Nat) : walkBvNeg (.ints [w]) [Term.bvc v w] = Term.bvc (negN w v) w := rfl

theorem walkBvUdiv_const (x y w : Nat) :
    walkBvUdiv (.ints [w]) [Term.bvc x w, Term.bvc y w] = Term.bvc (udivN w x y) w := by
  simp only [walkBvUdiv, isBvConst_bvc, pw, bv_, udivN]
  split
  · rfl
  · split <;> rfl

theorem walkBvUrem_const (x y w : Nat) :
    walkBvUrem (.ints [w]) [Term.bvc x w, Term.bvc y w] = Term.bvc (uremN x y) w := by
  simp only [walkBvUrem, isBvConst_bvc, pw, bv_, uremN]
  split
  · rfl
  · split <;> rfl

theorem walkBvLshr_const (x y w : Nat) :
    walkBvLshr (.ints [w]) [Term.bvc x w, Term.bvc y w] = Term.bvc (lshrN w x y) w := by
  simp only [walkBvLshr, isBvConst_bvc, bvWidth_bvc, bv_, lshrN]
  split
  · rfl
  · split <;> rfl

theorem walkBvSdiv_const (p : Payload) (x y w : Nat) :
    walkBvSdiv p [Term.bvc x w, Term.bvc y w] = Term.bvc (sdivN w x y) w := by
  simp only [walkBvSdiv, isBvConst_bvc, bvWidth_bvc, walkBvNeg_const, walkBvUdiv_const, sdivN]
  split
  · rfl
  · split
    · rfl
    · split <;> rfl

theorem walkBvSrem_const (p : Payload) (x y w : Nat) :
    walkBvSrem p [Term.bvc x w, Term.bvc y w] = Term.bvc (sremN w x y) w := by
  simp only [walkBvSrem, isBvConst_bvc, bvWidth_bvc, sremN]
  cases signedNeg x w <;> cases signedNeg y w <;>
    simp only [Bool.false_eq_true, if_true, if_false, bvWidth_bvc, walkBvNeg_const, walkBvUrem_const]

theorem walkBvAshr_const (p : Payload) (x y w : Nat) (hp : pw p = w) :
    walkBvAshr p [Term.bvc x w, Term.bvc y w] = Term.bvc (ashrN w x y) w := by
  simp only [walkBvAshr, isBvConst_bvc, bvWidth_bvc, walkBvLshr_const, hp, bv_, ashrN]
  split <;> rfl

/-- the shape of the three rules: constants are folded, everything else is rebuilt -/
theorem signed_rule {op : Op} {f} {a b : Term} {p : Payload} {w : Nat} (c : Bin op f a b p w) (rule : Rule)
    (N : Nat → Nat → Nat → Nat)
    (hconst : ∀ x y, rule p [Term.bvc x w, Term.bvc y w] = Term.bvc (N w x y) w)
    (hother : ((isBvConst a).isSome && (isBvConst b).isSome) = false → rule p [a, b] = bvBin op a b)
    (hspec : ∀ x y, x < 2 ^ w → y < 2 ^ w → spec2 f w x y = N w x y) :
    Res (.node op [a, b] p) (.bv w) (rule p [a, b]) := by
  cases h1 : isBvConst a with
  | none => rw [hother (by simp [h1])]; exact c.rebuild
  | some x =>
    cases h2 : isBvConst b with
    | none => rw [hother (by simp [h2])]; exact c.rebuild
    | some y =>
      obtain ⟨rfl, hl⟩ := c.constA h1
      obtain ⟨rfl, hr⟩ := c.constB h2
      rw [hconst]
      exact c.const _ fun I hI => by rw [bvVal_bvc, bvVal_bvc, hspec x y hl hr]

theorem walkBvSdiv_ok : RuleOK .bvSdiv walkBvSdiv := by
  refine RuleOK.of_res fun p args τ hwf hty _ => ?_
  obtain ⟨a, b, w, rfl, rfl, c⟩ := bin_ctx isBin_sdiv (shape2 fun _ _ => rfl) hwf hty
  refine signed_rule c walkBvSdiv sdivN (fun x y => walkBvSdiv_const p x y w) ?_ (fun x y => spec_sdiv)
  intro h
  simp only [walkBvSdiv]
  split
  · next h1 h2 => simp [h1, h2] at h
  · rfl

theorem walkBvSrem_ok : RuleOK .bvSrem walkBvSrem := by
  refine RuleOK.of_res fun p args τ hwf hty _ => ?_
  obtain ⟨a, b, w, rfl, rfl, c⟩ := bin_ctx isBin_srem (shape2 fun _ _ => rfl) hwf hty
  refine signed_rule c walkBvSrem sremN (fun x y => walkBvSrem_const p x y w) ?_ (fun x y => spec_srem)
  intro h
  simp only [walkBvSrem]
  split
  · next h1 h2 => simp [h1, h2] at h
  · rfl

theorem walkBvAshr_ok : RuleOK .bvAshr walkBvAshr := by
  refine RuleOK.of_res fun p args τ hwf hty _ => ?_
  obtain ⟨a, b, w, rfl, rfl, c⟩ := bin_ctx isBin_ashr (shape2 fun _ _ => rfl) hwf hty
  refine signed_rule c walkBvAshr ashrN (fun x y => walkBvAshr_const p x y w c.hpw) ?_ (fun x y => spec_ashr)
  intro h
  simp only [walkBvAshr]
  split
  · next h1 h2 => simp [h1, h2] at h
  · rfl

end PySMT.Simp.BVRules
