import PySMT.Proofs.C09HR4
import PySMT.Core.Eval
/-!
# C09 (human-readable format): n-ary operators — the parser's grouping keeps type, meaning and the tokens between parentheses

`regroup t` (every `And`/`Or`/`Plus`/`Times` of three or more arguments nested to the left) has the type and the meaning of
`t` (unconditionally), and on the fragment `InHRFragN` it is what the parser model reads from the printer model's tokens of
`t`; its own tokens are those of `t` up to parentheses.
-/
namespace PySMT.HR.RT
open PySMT PySMT.HR PySMT.Gen.HROps

/-! ## folding a list function from the left -/

def foldT {α : Type} (T : List α → α) (x : α) : List α → α
  | [] => x
  | y :: ys => foldT T (T [x, y]) ys

theorem foldT_eq {α : Type} (T : List α → α) (K : ∀ x y rest, T (T [x, y] :: rest) = T (x :: y :: rest)) :
    ∀ (ys : List α) (x y : α), foldT T (T [x, y]) ys = T (x :: y :: ys)
  | [], _, _ => rfl
  | z :: zs, x, y => by
    show foldT T (T [T [x, y], z]) zs = _
    rw [foldT_eq T K zs (T [x, y]) z, K]

theorem typeOf_node' (op : Op) (args : List Term) (p : Payload) :
    (Term.node op args p).typeOf = typeOfNode op p (args.map Term.typeOf) := by
  rw [Term.typeOf]

theorem typeOf_leftNest (op : Op) (p : Payload) : ∀ (more : List Term) (acc : Term),
    (leftNest op p acc more).typeOf = foldT (typeOfNode op p) acc.typeOf (more.map Term.typeOf)
  | [], _ => rfl
  | a :: more, acc => by
    rw [leftNest, typeOf_leftNest op p more]
    simp [foldT, typeOf_node']

theorem eval_leftNest (I : Interp) (op : Op) (p : Payload) (hg : groupable op = true) : ∀ (more : List Term) (acc : Term),
    eval I (leftNest op p acc more) = foldT (evalOp I op p) (eval I acc) (more.map (eval I))
  | [], _ => rfl
  | a :: more, acc => by
    rw [leftNest, eval_leftNest I op p hg more]
    have : eval I (.node op [acc, a] p) = evalOp I op p [eval I acc, eval I a] := by
      rw [eval_node]
      cases op <;> first | (cases hg; done) | rfl
    simp [foldT, this]

/-! ## the key facts of the four groupable operators -/

theorem tyKey_bool (p : Payload) (op : Op) (hop : op = .and ∨ op = .or) (x y : Option Ty) (rest : List (Option Ty)) :
    typeOfNode op p (typeOfNode op p [x, y] :: rest) = typeOfNode op p (x :: y :: rest) := by
  have hT : ∀ ts, typeOfNode op p ts = if allAre ts .bool then some .bool else none := by
    rcases hop with rfl | rfl <;> (intro ts; rfl)
  simp only [hT, allAre, List.all_cons, List.all_nil, Bool.and_true]
  by_cases hx : (x == some Ty.bool) = true <;> by_cases hy : (y == some Ty.bool) = true <;> simp [hx, hy]

theorem tyKey_num (p : Payload) (op : Op) (hop : op = .plus ∨ op = .times) (x y : Option Ty) (rest : List (Option Ty)) :
    typeOfNode op p (typeOfNode op p [x, y] :: rest) = typeOfNode op p (x :: y :: rest) := by
  have hT : ∀ ts, typeOfNode op p ts
      = if allAre ts .real then some .real else if allAre ts .int then some .int else none := by
    rcases hop with rfl | rfl <;> (intro ts; rfl)
  have hri : ∀ z : Option Ty, (z == some Ty.real) = true → (z == some Ty.int) = false := by
    intro z hz
    have : z = some Ty.real := by simpa using hz
    subst this; decide
  simp only [hT, allAre, List.all_cons, List.all_nil, Bool.and_true]
  by_cases hxr : (x == some Ty.real) = true <;> by_cases hyr : (y == some Ty.real) = true <;>
    by_cases hxi : (x == some Ty.int) = true <;> by_cases hyi : (y == some Ty.int) = true <;>
    simp_all

theorem tyKey (op : Op) (p : Payload) (hg : groupable op = true) (x y : Option Ty) (rest : List (Option Ty)) :
    typeOfNode op p (typeOfNode op p [x, y] :: rest) = typeOfNode op p (x :: y :: rest) := by
  cases op <;> first | (cases hg; done) | skip
  · exact tyKey_bool p _ (Or.inl rfl) x y rest
  · exact tyKey_bool p _ (Or.inr rfl) x y rest
  · exact tyKey_num p _ (Or.inl rfl) x y rest
  · exact tyKey_num p _ (Or.inr rfl) x y rest

theorem isTrue_b (v : Bool) : (Val.b v).isTrue = v := by cases v <;> rfl

theorem evKey (I : Interp) (op : Op) (p : Payload) (hg : groupable op = true) (x y : Val) (rest : List Val) :
    evalOp I op p (evalOp I op p [x, y] :: rest) = evalOp I op p (x :: y :: rest) := by
  cases op <;> first | (cases hg; done) | skip
  · show Val.b ((Val.b ([x, y].all Val.isTrue) :: rest).all Val.isTrue) = Val.b ((x :: y :: rest).all Val.isTrue)
    simp [isTrue_b, Bool.and_assoc]
  · show Val.b ((Val.b ([x, y].any Val.isTrue) :: rest).any Val.isTrue) = Val.b ((x :: y :: rest).any Val.isTrue)
    simp [isTrue_b, Bool.or_assoc]
  · show Sem.sum (Sem.sum [x, y] :: rest) = Sem.sum (x :: y :: rest)
    simp [Sem.sum]
  · show Sem.prod (Sem.prod [x, y] :: rest) = Sem.prod (x :: y :: rest)
    simp [Sem.prod]

/-! ## `regroup` keeps the type and the meaning -/

theorem regroup_node (op : Op) (args : List Term) (p : Payload) :
    regroup (.node op args p) = regroupNode op (args.map regroup) p := by
  rw [regroup]

/-- `regroupNode` either nests a groupable application of three or more arguments, or leaves the node alone -/
theorem regroupNode_cases (op : Op) (as : List Term) (p : Payload) :
    (∃ s a b c more, shapeOf op = some (.naryInfix s) ∧ groupable op = true ∧ as = a :: b :: c :: more ∧
        regroupNode op as p = leftNest op p a (b :: c :: more)) ∨ regroupNode op as p = .node op as p := by
  unfold regroupNode
  split
  · next s a b c more hs =>
    by_cases hg : groupable op = true
    · exact Or.inl ⟨s, a, b, c, more, hs, hg, rfl, by simp [hg]⟩
    · exact Or.inr (by simp [hg])
  · exact Or.inr rfl

theorem typeOf_regroup : (t : Term) → (regroup t).typeOf = t.typeOf
  | .node op args p => by
    have hargs : (args.map regroup).map Term.typeOf = args.map Term.typeOf := by
      rw [List.map_map]
      exact List.map_congr_left (fun a _ => typeOf_regroup a)
    rw [regroup_node, typeOf_node' op args]
    rcases regroupNode_cases op (args.map regroup) p with ⟨s, a, b, c, more, _, hg, has, h⟩ | h
    · rw [h, typeOf_leftNest, ← hargs, has]
      simp only [List.map_cons]
      exact foldT_eq _ (tyKey op p hg) (c.typeOf :: more.map Term.typeOf) a.typeOf b.typeOf
    · rw [h, typeOf_node', hargs]

theorem eval_regroup : (t : Term) → ∀ I : Interp, eval I (regroup t) = eval I t
  | .node op args p => by
    intro I
    have hargs : (args.map regroup).map (fun a J => eval J a) = args.map (fun a J => eval J a) := by
      rw [List.map_map]
      exact List.map_congr_left (fun a _ => funext (fun J => eval_regroup a J))
    rw [regroup_node, eval_node I op args]
    rcases regroupNode_cases op (args.map regroup) p with ⟨s, a, b, c, more, _, hg, has, h⟩ | h
    · rw [h, eval_leftNest I op p hg]
      have hev : evalNode op p ((args.map regroup).map (fun a J => eval J a)) I
          = evalOp I op p ((args.map regroup).map (eval I)) := by
        have : evalNode op p ((args.map regroup).map (fun a J => eval J a)) I
            = evalOp I op p (((args.map regroup).map (fun a J => eval J a)).map (· I)) := by
          cases op <;> first | (cases hg; done) | rfl
        rw [this, List.map_map]
        rfl
      rw [← hargs, hev, has]
      simp only [List.map_cons]
      exact foldT_eq _ (evKey I op p hg) (eval I c :: more.map (eval I)) (eval I a) (eval I b)
    · rw [h, eval_node, hargs]

/-! ## `regroup` keeps the root operator -/

theorem leftNest_root (op : Op) (p : Payload) : ∀ (more : List Term) (acc : Term), more ≠ [] →
    ∃ x y, leftNest op p acc more = .node op [x, y] p
  | [], _, h => absurd rfl h
  | [a], acc, _ => ⟨acc, a, rfl⟩
  | a :: b :: more, acc, _ => by
    rw [leftNest]
    exact leftNest_root op p (b :: more) _ (by simp)

theorem tight_node (op : Op) (args args' : List Term) (p p' : Payload) :
    tight (.node op args p) = tight (.node op args' p') := rfl

theorem tight_regroup : (t : Term) → tight (regroup t) = tight t
  | .node op args p => by
    rw [regroup_node]
    rcases regroupNode_cases op (args.map regroup) p with ⟨s, a, b, c, more, _, _, _, h⟩ | h
    · obtain ⟨x, y, hxy⟩ := leftNest_root op p (b :: c :: more) a (by simp)
      rw [h, hxy]; rfl
    · rw [h]; rfl

/-! ## the larger fragment -/

theorem inHRFragN_node (op : Op) (args : List Term) (p : Payload) :
    inHRFragN (.node op args p) = ((args.map inHRFragN).all id && fragNodeN op (args.map regroup) p) := by
  rw [inHRFragN]

theorem argOK_regroup {a : Term} (g : Reads a (regroup a)) (hs : startOK (hrTokens a)) : ArgOK regroup a :=
  ⟨g, hs, tight_regroup a, typeOf_regroup a⟩

/-- every term of the larger fragment is read back as its left-grouped form -/
theorem fragN_reads : (t : Term) → inHRFragN t = true → Reads t (regroup t) ∧ startOK (hrTokens t)
  | .node op args p, h => by
    rw [inHRFragN_node] at h
    simp only [Bool.and_eq_true, List.all_eq_true, List.mem_map, id, forall_exists_index, and_imp,
      forall_apply_eq_imp_iff₂] at h
    have ih : ∀ a ∈ args, ArgOK regroup a := fun a ha =>
      let r := fragN_reads a (h.1 a ha); argOK_regroup r.1 r.2
    have hn := h.2
    rw [regroup_node]
    unfold fragNodeN at hn
    split at hn
    · next s a' b' c' more' hs hmap =>
      obtain ⟨a, as, rfl, rfl, hmap2⟩ := map_eq_cons hmap.symm
      simp only [Bool.and_eq_true] at hn
      obtain ⟨hg, hn⟩ := hn
      split at hn
      · next cn l hi =>
        have hrn : regroupNode op (regroup a :: b' :: c' :: more') p = leftNest op p (regroup a) (b' :: c' :: more') := by
          simp [regroupNode, hs, hg]
        rw [List.map_cons, ← hmap2, hrn]
        refine ⟨reads_nary regroup hs hi (fun x hx => (ih x hx).reads) ?_, ?_⟩
        · rw [← hmap2]; exact isOk_eq hn
        · simp [hrTokens_node, nodeToks, hs, startOK]
      · cases hn
    · next hneg =>
      have hrn : regroupNode op (args.map regroup) p = .node op (args.map regroup) p := by
        rcases regroupNode_cases op (args.map regroup) p with ⟨s, a, b, c, more, hs, _, has, _⟩ | h'
        · exact absurd has (hneg s a b c more hs)
        · exact h'
      rw [hrn]
      exact node_reads regroup op args _ p rfl ih hn

/-- **the round trip up to grouping**: the parser model reads the printer model's tokens of a term of the larger fragment
back to the term with its n-ary applications grouped to the left -/
theorem hrParse_hrTokens_regroup (t : Term) (h : InHRFragN t) : hrParse (hrTokens t) = .ok (regroup t) := by
  have g := (fragN_reads t h).1
  have := g.stop 0 [] (by omega) (by simp [headLbp]) (fuelFor (hrTokens t)) (by simp [fuelFor, cost]; omega)
  simp only [List.append_nil] at this
  simp [hrParse, this]

end PySMT.HR.RT
