import PySMT.Proofs.C08AgreeLet
/-!
# C08/C09: the agreement theorem

`agree`: for every text `s` of the fragment `FragS env ρ`, in corresponding environments (`Corr env sc Γ`, manager within
`ρ`), whenever the standard reader elaborates `s` to `(u, τ)`, the parser model returns the term `mkNorm u`, leaves the
manager within `ρ`, and pySMT's checker gives `mkNorm u` the sort `τ`.
-/
namespace PySMT.Parser.Agree
open PySMT PySMT.Parser PySMT.Std PySMT.Sexp

theorem fragBind_inv {env : SEnv} {ρ : List (String × Sym)} {b : Sexp} (h : fragBind env ρ b = true) :
    ∃ x e, b = .list [.atom x, e] ∧ letNameOK env x = true ∧ FragS env ρ e = true := by
  unfold fragBind at h
  split at h
  · rename_i x e
    simp only [Bool.and_eq_true] at h
    exact ⟨x, e, rfl, h.1, h.2⟩
  · cases h

theorem fragBody_inv {env : SEnv} {ρ : List (String × Sym)} {l : List Sexp} (h : fragBody env ρ l = true) :
    ∃ body, l = [body] ∧ FragS env ρ body = true := by
  unfold fragBody at h
  split at h
  · rename_i body; exact ⟨body, rfl, h⟩
  · cases h

theorem fragLet_inv {env : SEnv} {ρ : List (String × Sym)} {args : List Sexp} (h : fragLet env ρ args = true) :
    ∃ bs body, args = [.list bs, body] ∧ fragBinds env ρ bs = true ∧ FragS env ρ body = true := by
  unfold fragLet at h
  split at h
  · cases h
  · rename_i b rest
    simp only [Bool.and_eq_true] at h
    obtain ⟨body, rfl, hb⟩ := fragBody_inv h.2
    have h1 := h.1
    unfold fragLetB at h1
    split at h1
    · rename_i bs; exact ⟨bs, body, rfl, h1, hb⟩
    · cases h1

theorem fragQuant_inv {env : SEnv} {ρ : List (String × Sym)} {args : List Sexp} (h : fragQuant env ρ args = true) :
    ∃ vs body, args = [.list vs, body] ∧ fragVars env ρ vs = true ∧ FragS env ρ body = true := by
  unfold fragQuant at h
  split at h
  · cases h
  · rename_i b rest
    simp only [Bool.and_eq_true] at h
    obtain ⟨body, rfl, hb⟩ := fragBody_inv h.2
    have h1 := h.1
    split at h1
    · rename_i vs; exact ⟨vs, body, rfl, h1, hb⟩
    · cases h1

theorem fragBinds_cons {env : SEnv} {ρ : List (String × Sym)} {b : Sexp} {rest : List Sexp}
    (h : fragBinds env ρ (b :: rest) = true) : fragBind env ρ b = true ∧ fragBinds env ρ rest = true := by
  unfold fragBinds at h
  simpa using h

theorem FragL_cons {env : SEnv} {ρ : List (String × Sym)} {s : Sexp} {r : List Sexp}
    (h : FragL env ρ (s :: r) = true) : FragS env ρ s = true ∧ FragL env ρ r = true := by
  unfold FragL at h
  simpa using h
mutual
theorem agree (env : SEnv) (ρ : List (String × Sym)) : (s : Sexp) → FragS env ρ s = true → AgreeAt env ρ s
  | .atom tok, _ => fun sc Γ lone hc hm _ u τ h =>
    ⟨Γ.mgr, (agree_atom env sc Γ lone hc tok u τ h).1, hm, (agree_atom env sc Γ lone hc tok u τ h).2⟩
  | .str lit, hf => fun sc Γ lone _ hm _ u τ h =>
    have hfine : Printer.strFine lit = true := by rw [FragS] at hf; exact hf
    ⟨Γ.mgr, (agree_str env sc Γ lone lit hfine u τ h).1, hm, (agree_str env sc Γ lone lit hfine u τ h).2⟩
  | .list [], hf => by rw [FragS] at hf; cases hf
  | .list (.str _ :: _), hf => by rw [FragS] at hf; cases hf
  | .list (.list hd :: args), hf => by
    rw [FragS] at hf
    simp only [Bool.and_eq_true] at hf
    exact agree_headapp env ρ hd args hf.1 (agreeL env ρ args hf.2)
  | .list (.atom hd :: args), hf => by
    rw [FragS] at hf
    by_cases h1 : hd = "let"
    · subst h1
      simp only [beq_self_eq_true, if_true] at hf
      obtain ⟨bs, body, hargs, hb, hbody⟩ := fragLet_inv hf
      have := agree_let env ρ bs body (agreeBs env ρ bs hb) (agree env ρ body hbody)
      rw [hargs]; exact this
    · have e1 : (hd == "let") = false := by simpa using h1
      simp only [e1, Bool.false_eq_true, if_false] at hf
      by_cases h2 : hd = "forall" ∨ hd = "exists"
      · have e2 : (hd == "forall" || hd == "exists") = true := by
          rcases h2 with rfl | rfl <;> decide
        simp only [e2, if_true] at hf
        obtain ⟨vs, body, hargs, hv, hbody⟩ := fragQuant_inv hf
        have := agree_quant env ρ hd h2 vs body hv (agree env ρ body hbody)
        rw [hargs]; exact this
      · have e2 : (hd == "forall" || hd == "exists") = false := by
          simp only [not_or] at h2
          simp [h2.1, h2.2]
        simp only [e2, Bool.false_eq_true, if_false] at hf
        by_cases h3 : hd = "_"
        · subst h3
          simp only [beq_self_eq_true, if_true] at hf
          intro sc Γ lone hc hm _ u τ h
          exact ⟨Γ.mgr, (agree_bvlit env sc Γ lone args hf u τ h).1, hm, (agree_bvlit env sc Γ lone args hf u τ h).2⟩
        · have e3 : (hd == "_") = false := by simpa using h3
          simp only [e3, Bool.false_eq_true, if_false] at hf
          by_cases h4 : fragOps.contains hd = true
          · simp only [h4, if_true, Bool.and_eq_true] at hf
            exact agree_app env ρ hd args (by simpa using h4) hf.1.1 hf.1.2 (agreeL env ρ args hf.2)
          · simp only [h4, Bool.false_eq_true, if_false, Bool.and_eq_true] at hf
            exact agree_user env ρ hd args hf.1 (agreeL env ρ args hf.2)
termination_by s => sizeOf s
decreasing_by
  all_goals (try subst_vars)
  all_goals simp_wf
  all_goals omega
theorem agreeL (env : SEnv) (ρ : List (String × Sym)) : (l : List Sexp) → FragL env ρ l = true → AgreeListAt env ρ l
  | [], _ => agreeL_nil env ρ
  | s :: r, hf =>
    agreeL_cons env ρ s r (agree env ρ s (FragL_cons hf).1) (agreeL env ρ r (FragL_cons hf).2)
termination_by l => sizeOf l
decreasing_by
  all_goals (try subst_vars)
  all_goals simp_wf
  all_goals omega
theorem agreeBs (env : SEnv) (ρ : List (String × Sym)) : (bs : List Sexp) → fragBinds env ρ bs = true →
    AgreeBindsAt env ρ bs
  | [], _ => agreeB_nil env ρ
  | b :: rest, hf => by
    obtain ⟨x, e, hbe, hx, he⟩ := fragBind_inv (fragBinds_cons hf).1
    have := agreeB_cons env ρ x e rest hx (agree env ρ e he) (agreeBs env ρ rest (fragBinds_cons hf).2)
    rw [hbe]; exact this
termination_by bs => sizeOf bs
decreasing_by
  all_goals (try subst_vars)
  all_goals simp_wf
  all_goals omega
end

end PySMT.Parser.Agree
