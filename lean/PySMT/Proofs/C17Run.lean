import PySMT.Proofs.C17Scoped
/-!
# C17, part 4: reachable objects, the user's view of the assertion stack, verdicts and models
-/
namespace PySMT.SmtSolver
open PySMT.StrictSolver

variable {O : Oracle}

/-- an object obtained from the constructor by a sequence of legal API calls -/
def Reachable (U : Universe) (w : W O) : Prop :=
  ∃ logic ops, LegalRun U (create (Solver.strict O) logic) ops ∧ w = (run (Solver.strict O) logic ops).1

theorem ginv_run (U : Universe) (O : Oracle) (logic : String) (ops : List Api)
    (h : LegalRun U (create (Solver.strict O) logic) ops) : GInv U (run (Solver.strict O) logic ops).1 := by
  unfold run
  apply runFrom_ginv ops _ _ h
  rw [create_strict]
  exact Or.inl (inv_created U O logic)

theorem Reachable.ginv {U : Universe} {w : W O} (h : Reachable U w) : GInv U w := by
  obtain ⟨logic, ops, hl, rfl⟩ := h
  exact ginv_run U O logic ops hl

theorem Reachable.inv {U : Universe} {w : W O} (h : Reachable U w) (ha : w.dead = false) : Inv U w := by
  rcases h.ginv with h | ⟨hd, _⟩
  · exact h
  · rw [ha] at hd; cases hd

/-! ## the assertion stack as the user sees it -/

/-- what the API calls mean for the user's assertion stack (innermost level first);
    `is_sat` & co. and the queries leave it alone -/
def userStep (u : List (List Expr)) : Api → List (List Expr)
  | .addAssertion e => addTop e u
  | .push n => List.replicate n [] ++ u
  | .pop n => u.drop n
  | .resetAssertions => [[]]
  | _ => u

def userStack (ops : List Api) : List (List Expr) := ops.foldl userStep [[]]

theorem map_asserts_addAssert (e : Expr) (ls : List Level) :
    (addAssert e ls).map (·.asserts) = addTop e (ls.map (·.asserts)) := by
  cases ls <;> simp [addAssert, addTop]

theorem clearedLevels_of_not_pending {w : W O} (h : w.pendingPop = false) : clearedLevels w = levelsOf w := by
  simp [clearedLevels, h]

/-- one live call moves the solver's assertion levels (below a pending `is_sat` level) as `userStep` says -/
theorem call_user {U : Universe} {w : W O} (hI : Inv U w) (a : Api) (hl : LegalCall U w a) (ha : a ≠ .exit) :
    (clearedLevels (call a w).1).map (·.asserts) = userStep ((clearedLevels w).map (·.asserts)) a := by
  cases a with
  | addAssertion e =>
    obtain ⟨w', h, _, p, _, a', _⟩ := addAssertion_ok hI e hl
    simp only [call, outOf_fst, h, userStep]
    rw [clearedLevels_of_not_pending p, a', map_asserts_addAssert]
  | push n =>
    obtain ⟨w', h, _, p, l, _⟩ := push_ok hI n
    simp only [call, outOf_fst, h, userStep]
    rw [clearedLevels_of_not_pending p, l]
    simp
  | pop n =>
    obtain ⟨w', h, _, p, l, _⟩ := pop_ok hI n hl
    simp only [call, outOf_fst, h, userStep]
    rw [clearedLevels_of_not_pending p, l, List.map_drop]
  | resetAssertions =>
    obtain ⟨w', h, _, p, l, _⟩ := resetAssertions_ok hI
    simp only [call, outOf_fst, h, userStep]
    rw [clearedLevels_of_not_pending p, l]
    rfl
  | solve =>
    obtain ⟨w1, _, _, p1, l1, _, h, _⟩ := solve_ok hI
    simp only [call, outOf_fst, h, userStep]
    rw [clearedLevels_of_not_pending (show (checkedState w1).pendingPop = false from p1), levels_checkedState, l1]
  | getValue e =>
    obtain ⟨h, _⟩ := getValue_ok hI hl.1 e hl.2
    simp only [call, outOf_fst, h, userStep]
    rfl
  | getModel =>
    obtain ⟨w', h, _, hs, hp, _⟩ := getModel_ok hI hl
    simp only [call, outOf_fst, h, userStep]
    simp only [clearedLevels, levelsOf, hs, hp]
  | isSat e =>
    obtain ⟨w3, _, _, a3, _, h, _⟩ := isSat_ok hI e hl
    simp only [call, outOf_fst, h, userStep]
    show ((levelsOf w3).drop 1).map (·.asserts) = _
    rw [List.map_drop, a3]; rfl
  | isValid e =>
    obtain ⟨w3, _, _, a3, _, h, _⟩ := isSat_ok hI e hl
    simp only [call, outOf_fst, h, userStep]
    show ((levelsOf w3).drop 1).map (·.asserts) = _
    rw [List.map_drop, a3]; rfl
  | isUnsat e =>
    obtain ⟨w3, _, _, a3, _, h, _⟩ := isSat_ok hI e hl
    simp only [call, outOf_fst, h, userStep]
    show ((levelsOf w3).drop 1).map (·.asserts) = _
    rw [List.map_drop, a3]; rfl
  | exit => exact absurd rfl ha

theorem call_alive {U : Universe} {w : W O} (hI : Inv U w) (a : Api) (hl : LegalCall U w a) (ha : a ≠ .exit) :
    Inv U (call a w).1 := by
  rcases call_inv hI a hl with h | ⟨hd, _⟩
  · exact h
  · exfalso
    cases a <;> first
      | exact ha rfl
      | (simp only [call, outOf_fst] at hd
         first
          | (obtain ⟨w', h, i, _⟩ := addAssertion_ok hI _ hl; rw [h, i.alive] at hd; cases hd)
          | (obtain ⟨w', h, i, _⟩ := push_ok hI _; rw [h, i.alive] at hd; cases hd)
          | (obtain ⟨w', h, i, _⟩ := pop_ok hI _ hl; rw [h, i.alive] at hd; cases hd)
          | (obtain ⟨w', h, i, _⟩ := resetAssertions_ok hI; rw [h, i.alive] at hd; cases hd)
          | (obtain ⟨w1, _, _, _, _, _, h, i⟩ := solve_ok hI; rw [h, i.alive] at hd; cases hd)
          | (obtain ⟨h, i⟩ := getValue_ok hI hl.1 _ hl.2; rw [h, i.alive] at hd; cases hd)
          | (obtain ⟨w', h, i, _⟩ := getModel_ok hI hl; rw [h, i.alive] at hd; cases hd)
          | (obtain ⟨w3, _, _, _, _, h, i⟩ := isSat_ok hI _ hl; rw [h, i.alive] at hd; cases hd))

theorem runFrom_user {U : Universe} : ∀ (ops : List Api) (w : W O), Inv U w → LegalRun U w ops →
    (∀ a ∈ ops, a ≠ .exit) →
    Inv U (runFrom w ops).1 ∧
    (clearedLevels (runFrom w ops).1).map (·.asserts) = ops.foldl userStep ((clearedLevels w).map (·.asserts))
  | [], _, h, _, _ => ⟨h, rfl⟩
  | a :: as, w, hI, hl, hx => by
    have ha : a ≠ .exit := hx a (List.mem_cons_self ..)
    have hstep : step w a = call a w := by simp [step, hI.alive]
    have hl1 := hl.1 hI.alive
    have hI' : Inv U (step w a).1 := by rw [hstep]; exact call_alive hI a hl1 ha
    obtain ⟨i, u⟩ := runFrom_user as (step w a).1 hI' hl.2 (fun b hb => hx b (List.mem_cons_of_mem _ hb))
    refine ⟨i, ?_⟩
    show (clearedLevels (runFrom (step w a).1 as).1).map (·.asserts) = _
    rw [u, hstep, call_user hI a hl1 ha]
    rfl

theorem user_stack_run (U : Universe) (O : Oracle) (logic : String) (ops : List Api)
    (h : LegalRun U (create (Solver.strict O) logic) ops) (hx : ∀ a ∈ ops, a ≠ .exit) :
    (clearedLevels (run (Solver.strict O) logic ops).1).map (·.asserts) = userStack ops := by
  unfold run
  have := (runFrom_user ops (create (Solver.strict O) logic) (by rw [create_strict]; exact inv_created U O logic) h hx).2
  rw [this, create_strict]
  rfl

/-! ## verdicts -/

theorem live_eq_flatten (ls : List Level) : live ls = (ls.map (·.asserts)).flatten := by
  simp [live, List.flatMap_def]

def verdictOut : Verdict → Out
  | .sat => .bool true
  | .unsat => .bool false
  | .unknown => .error .unknownResult

/-- `solve()`: the result is the verdict of the decision procedure on exactly the user's live assertions -/
theorem solve_truth {U : Universe} {w : W O} (hI : Inv U w) :
    ∃ s : State × O.ω, live s.1.levels = ((clearedLevels w).map (·.asserts)).flatten ∧ s.2 = w.chan.solver.2 ∧
      (call .solve w).2 = verdictOut (O.verdict s.2 s.1).1 := by
  obtain ⟨w1, _, _, _, l1, o1, h, _⟩ := solve_ok hI
  refine ⟨w1.chan.solver, by rw [live_eq_flatten]; show ((levelsOf w1).map _).flatten = _; rw [l1], o1, ?_⟩
  simp only [call, h]
  cases (O.verdict w1.chan.solver.2 w1.chan.solver.1).1 <;> rfl

/-- `is_sat(f)`: the verdict on the user's live assertions together with `f` -/
theorem isSat_truth {U : Universe} {w : W O} (hI : Inv U w) (e : Expr) (he : ExprOk U e) :
    ∃ s : State × O.ω, live s.1.levels = e :: ((clearedLevels w).map (·.asserts)).flatten ∧ s.2 = w.chan.solver.2 ∧
      (call (.isSat e) w).2 = verdictOut (O.verdict s.2 s.1).1 := by
  obtain ⟨w3, _, _, a3, o3, h, _⟩ := isSat_ok hI e he
  refine ⟨w3.chan.solver, ?_, o3, ?_⟩
  · rw [live_eq_flatten]
    show ((levelsOf w3).map _).flatten = _
    rw [a3]
    simp [addAssert]
  · simp only [call, h]
    cases (O.verdict w3.chan.solver.2 w3.chan.solver.1).1 <;> rfl

/-! ## models -/

/-- `get_model()` in sat mode: one `get-value` per symbol in scope, every symbol of every live assertion is among
    them, and each entry carries the value the solver reported for that symbol -/
theorem getModel_total {U : Universe} {w : W O} (hI : Inv U w) (hsat : w.chan.solver.1.satMode = true) :
    ∃ m, (call .getModel w).2 = .model m ∧
      m.map (·.1) = w.vars.reverse.flatMap id ∧
      (∀ e ∈ live (levelsOf w), ∀ s ∈ e.syms, s ∈ m.map (·.1)) ∧
      (∀ p ∈ m, p.2 = O.value w.chan.solver.2 w.chan.solver.1 (Expr.ofSym p.1)) ∧
      (call .getModel w).1.chan.solver = w.chan.solver := by
  obtain ⟨w', h, _, hs, _⟩ := getModel_ok hI hsat
  refine ⟨_, by simp only [call, h]; rfl, ?_, ?_, ?_, by simp only [call, outOf_fst, h]; exact hs⟩
  · simp [List.map_map, Function.comp_def]
  · intro e he s hs'
    have hin := live_in_scope _ hI.final.scoped e he s hs'
    simp only [List.map_map, Function.comp_def, List.map_id']
    simp only [scopeSyms, List.mem_flatMap] at hin
    obtain ⟨l, hl, hsl⟩ := hin
    simp only [List.mem_flatMap, List.mem_reverse, id]
    exact ⟨l.syms, by rw [hI.vars]; exact List.mem_map_of_mem hl, hsl⟩
  · intro p hp
    simp only [List.mem_map] at hp
    obtain ⟨s, _, rfl⟩ := hp
    rfl

end PySMT.SmtSolver
