import PySMT.Proofs.SimpBVArith
/-!
# `RuleOK` for `walk_bv_and`, `_or`, `_xor`, `_not`, `_neg`, `_add`, `_sub`, `_mul` (every width)
-/
namespace PySMT.Simp.BVRules
open PySMT PySMT.Build PySMT.Simp

/-- arity of the operators whose `shapeOK` is the default `n == 2` -/
theorem shape2 {op : Op} (h : ∀ p n, op.shapeOK p n = (n == 2)) (p : Payload) (n : Nat)
    (hs : op.shapeOK p n = true) : n = 2 := by
  rw [h] at hs; simpa using hs

theorem shape1 {op : Op} (h : ∀ p n, op.shapeOK p n = (n == 1)) (p : Payload) (n : Nat)
    (hs : op.shapeOK p n = true) : n = 1 := by
  rw [h] at hs; simpa using hs

theorem isBin_and : IsBin .bvAnd (fun _ x y => x &&& y) := ⟨rfl, by simp, by simp, rfl, fun _ => rfl, fun _ _ _ _ => rfl⟩
theorem isBin_or : IsBin .bvOr (fun _ x y => x ||| y) := ⟨rfl, by simp, by simp, rfl, fun _ => rfl, fun _ _ _ _ => rfl⟩
theorem isBin_xor : IsBin .bvXor (fun _ x y => x ^^^ y) := ⟨rfl, by simp, by simp, rfl, fun _ => rfl, fun _ _ _ _ => rfl⟩
theorem isBin_add : IsBin .bvAdd (fun _ x y => x + y) := ⟨rfl, by simp, by simp, rfl, fun _ => rfl, fun _ _ _ _ => rfl⟩
theorem isBin_sub : IsBin .bvSub (fun _ x y => x - y) := ⟨rfl, by simp, by simp, rfl, fun _ => rfl, fun _ _ _ _ => rfl⟩
theorem isBin_mul : IsBin .bvMul (fun _ x y => x * y) := ⟨rfl, by simp, by simp, rfl, fun _ => rfl, fun _ _ _ _ => rfl⟩
theorem isUn_not : IsUn .bvNot (fun _ x => ~~~x) := ⟨rfl, by simp, by simp, rfl, fun _ => rfl, fun _ _ _ => rfl⟩
theorem isUn_neg : IsUn .bvNeg (fun _ x => -x) := ⟨rfl, by simp, by simp, rfl, fun _ => rfl, fun _ _ _ => rfl⟩

theorem walkBvAnd_ok : RuleOK .bvAnd walkBvAnd := by
  refine RuleOK.of_res fun p args τ hwf hty _ => ?_
  obtain ⟨a, b, w, rfl, rfl, c⟩ := bin_ctx isBin_and (shape2 fun _ _ => rfl) hwf hty
  show Res _ _ (walkBvAnd p [a, b])
  unfold walkBvAnd
  simp only [c.hpw]
  split
  · next lhs h1 =>
    obtain ⟨rfl, hl⟩ := c.constA h1
    split
    · next h0 =>
      subst h0
      exact c.const 0 fun I hI => by rw [bvVal_bvc, spec_and hl (c.ltB hI), Nat.zero_and]
    · split
      · next _ hm =>
        subst hm
        exact c.right fun I hI => by rw [bvVal_bvc, spec_and hl (c.ltB hI), ones_and (c.ltB hI)]
      · split
        · next rhs h2 =>
          obtain ⟨rfl, hr⟩ := c.constB h2
          exact c.const _ fun I hI => by rw [bvVal_bvc, bvVal_bvc, spec_and hl hr]
        · exact c.rebuild
  · split
    · next rhs h2 =>
      obtain ⟨rfl, hr⟩ := c.constB h2
      split
      · next h0 =>
        subst h0
        exact c.const 0 fun I hI => by rw [bvVal_bvc, spec_and (c.ltA hI) hr, Nat.and_zero]
      · split
        · next _ hm =>
          subst hm
          exact c.left fun I hI => by
            rw [bvVal_bvc, spec_and (c.ltA hI) hr, Nat.and_comm, ones_and (c.ltA hI)]
        · exact c.rebuild
    · exact c.rebuild

theorem walkBvOr_ok : RuleOK .bvOr walkBvOr := by
  refine RuleOK.of_res fun p args τ hwf hty _ => ?_
  obtain ⟨a, b, w, rfl, rfl, c⟩ := bin_ctx isBin_or (shape2 fun _ _ => rfl) hwf hty
  show Res _ _ (walkBvOr p [a, b])
  unfold walkBvOr
  simp only [c.hpw]
  split
  · next lhs h1 =>
    obtain ⟨rfl, hl⟩ := c.constA h1
    split
    · next h0 =>
      subst h0
      exact c.right fun I hI => by rw [bvVal_bvc, spec_or hl (c.ltB hI), Nat.zero_or]
    · split
      · next _ hm =>
        subst hm
        exact c.const _ fun I hI => by rw [bvVal_bvc, spec_or hl (c.ltB hI), ones_or (c.ltB hI)]
      · split
        · split
          · next rhs h2 =>
            obtain ⟨rfl, hr⟩ := c.constB h2
            exact c.const _ fun I hI => by rw [bvVal_bvc, bvVal_bvc, spec_or hl hr]
          · exact c.rebuild
        · exact c.rebuild
  · split
    · next rhs h2 =>
      obtain ⟨rfl, hr⟩ := c.constB h2
      split
      · next h0 =>
        subst h0
        exact c.left fun I hI => by rw [bvVal_bvc, spec_or (c.ltA hI) hr, Nat.or_zero]
      · split
        · next _ hm =>
          subst hm
          exact c.const _ fun I hI => by
            rw [bvVal_bvc, spec_or (c.ltA hI) hr, Nat.or_comm, ones_or (c.ltA hI)]
        · exact c.rebuild
    · exact c.rebuild

theorem walkBvXor_ok : RuleOK .bvXor walkBvXor := by
  refine RuleOK.of_res fun p args τ hwf hty _ => ?_
  obtain ⟨a, b, w, rfl, rfl, c⟩ := bin_ctx isBin_xor (shape2 fun _ _ => rfl) hwf hty
  show Res _ _ (walkBvXor p [a, b])
  unfold walkBvXor
  simp only [c.hpw]
  split
  · next l r h1 h2 =>
    obtain ⟨rfl, hl⟩ := c.constA h1
    obtain ⟨rfl, hr⟩ := c.constB h2
    exact c.const _ fun I hI => by rw [bvVal_bvc, bvVal_bvc, spec_xor hl hr]
  · exact c.rebuild

theorem walkBvAdd_ok : RuleOK .bvAdd walkBvAdd := by
  refine RuleOK.of_res fun p args τ hwf hty _ => ?_
  obtain ⟨a, b, w, rfl, rfl, c⟩ := bin_ctx isBin_add (shape2 fun _ _ => rfl) hwf hty
  show Res _ _ (walkBvAdd p [a, b])
  unfold walkBvAdd
  simp only [c.hpw]
  split
  · next lhs h1 =>
    obtain ⟨rfl, hl⟩ := c.constA h1
    split
    · next h0 =>
      subst h0
      exact c.right fun I hI => by
        rw [bvVal_bvc, spec_add hl (c.ltB hI), Nat.zero_add, Nat.mod_eq_of_lt (c.ltB hI)]
    · split
      · next rhs h2 =>
        obtain ⟨rfl, hr⟩ := c.constB h2
        exact c.const _ fun I hI => by rw [bvVal_bvc, bvVal_bvc, spec_add hl hr]
      · exact c.rebuild
  · split
    · next h2 =>
      obtain ⟨rfl, hr⟩ := c.constB h2
      exact c.left fun I hI => by
        rw [bvVal_bvc, spec_add (c.ltA hI) hr, Nat.add_zero, Nat.mod_eq_of_lt (c.ltA hI)]
    · exact c.rebuild

theorem walkBvMul_ok : RuleOK .bvMul walkBvMul := by
  refine RuleOK.of_res fun p args τ hwf hty _ => ?_
  obtain ⟨a, b, w, rfl, rfl, c⟩ := bin_ctx isBin_mul (shape2 fun _ _ => rfl) hwf hty
  show Res _ _ (walkBvMul p [a, b])
  unfold walkBvMul
  simp only [c.hpw]
  split
  · next lhs h1 =>
    obtain ⟨rfl, hl⟩ := c.constA h1
    split
    · next h0 =>
      subst h0
      exact c.const 0 fun I hI => by rw [bvVal_bvc, spec_mul hl (c.ltB hI), Nat.zero_mul, Nat.zero_mod]
    · split
      · next _ h1 =>
        subst h1
        exact c.right fun I hI => by
          rw [bvVal_bvc, spec_mul hl (c.ltB hI), Nat.one_mul, Nat.mod_eq_of_lt (c.ltB hI)]
      · split
        · next rhs h2 =>
          obtain ⟨rfl, hr⟩ := c.constB h2
          exact c.const _ fun I hI => by rw [bvVal_bvc, bvVal_bvc, spec_mul hl hr]
        · exact c.rebuild
  · split
    · next rhs h2 =>
      obtain ⟨rfl, hr⟩ := c.constB h2
      split
      · next h0 =>
        subst h0
        exact c.const 0 fun I hI => by rw [bvVal_bvc, spec_mul (c.ltA hI) hr, Nat.mul_zero, Nat.zero_mod]
      · split
        · next _ h1 =>
          subst h1
          exact c.left fun I hI => by
            rw [bvVal_bvc, spec_mul (c.ltA hI) hr, Nat.mul_one, Nat.mod_eq_of_lt (c.ltA hI)]
        · exact c.rebuild
    · exact c.rebuild

theorem walkBvNot_ok : RuleOK .bvNot walkBvNot := by
  refine RuleOK.of_res fun p args τ hwf hty _ => ?_
  obtain ⟨a, w, rfl, rfl, c⟩ := un_ctx isUn_not (shape1 fun _ _ => rfl) hwf hty
  show Res _ _ (walkBvNot p [a])
  unfold walkBvNot
  simp only [c.hpw]
  split
  · next v h1 =>
    obtain ⟨rfl, hl⟩ := c.constA h1
    exact c.const _ fun I hI => by rw [bvVal_bvc, spec_not hl, notAnd_ones hl]
  · exact c.rebuild

theorem walkBvNeg_ok : RuleOK .bvNeg walkBvNeg := by
  refine RuleOK.of_res fun p args τ hwf hty _ => ?_
  obtain ⟨a, w, rfl, rfl, c⟩ := un_ctx isUn_neg (shape1 fun _ _ => rfl) hwf hty
  show Res _ _ (walkBvNeg p [a])
  unfold walkBvNeg
  simp only [c.hpw]
  split
  · next v h1 =>
    obtain ⟨rfl, hl⟩ := c.constA h1
    exact c.const _ fun I hI => by rw [bvVal_bvc, spec_neg hl, neg_int hl]
  · exact c.rebuild

theorem walkBvSub_ok : RuleOK .bvSub walkBvSub := by
  refine RuleOK.of_res fun p args τ hwf hty _ => ?_
  obtain ⟨a, b, w, rfl, rfl, c⟩ := bin_ctx isBin_sub (shape2 fun _ _ => rfl) hwf hty
  show Res _ _ (walkBvSub p [a, b])
  -- `x - x -> 0`
  have hsame : a = b → Res (.node .bvSub [a, b] p) (.bv w) (bv_ 0 w) := by
    rintro rfl
    exact c.const 0 fun I hI => by
      rw [spec_sub (c.ltA hI) (c.ltA hI)]
      have := c.ltA hI
      rw [show 2 ^ w - bvVal I a + bvVal I a = 2 ^ w by omega, Nat.mod_self]
  have hs1 : Res (.node .bvSub [a, b] p) (.bv w)
      (match (if a = b then some (bv_ 0 w) else none : Option Term) with
       | some t => t
       | none => bvSub_ a b) := by
    split
    · next t ht =>
      split at ht
      · next e => cases ht; exact hsame e
      · cases ht
    · exact c.rebuild
  unfold walkBvSub
  simp only [c.hpw]
  cases h2 : isBvConst b with
  | none => exact hs1
  | some rhs =>
    obtain ⟨rfl, hr⟩ := c.constB h2
    simp only
    by_cases h0 : rhs = 0
    · subst h0
      simp only [if_true]
      exact c.left fun I hI => by
        have := c.ltA hI
        rw [bvVal_bvc, spec_sub (c.ltA hI) hr, Nat.sub_zero, Nat.add_comm, Nat.add_mod_right,
          Nat.mod_eq_of_lt this]
    · simp only [if_neg h0]
      cases h1 : isBvConst a with
      | none => exact hs1
      | some lhs =>
        obtain ⟨rfl, hl⟩ := c.constA h1
        exact c.const _ fun I hI => by rw [bvVal_bvc, bvVal_bvc, spec_sub hl hr, sub_int hr]

end PySMT.Simp.BVRules
