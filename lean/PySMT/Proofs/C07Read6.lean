import PySMT.Proofs.C07Read5
/-!
# C07 (`read_toSexp`, continued): string operators, indexed bit-vector operators
-/
namespace PySMT.Printer
open PySMT.Std PySMT.Sexp

def strTable : List (Op × String × String) :=
  [(.strLength, "walk_str_length", "str.len"), (.strCharAt, "walk_str_charat", "str.at"),
   (.strContains, "walk_str_contains", "str.contains"), (.strIndexOf, "walk_str_indexof", "str.indexof"),
   (.strReplace, "walk_str_replace", "str.replace"), (.strSubstr, "walk_str_substr", "str.substr"),
   (.strPrefixOf, "walk_str_prefixof", "str.prefixof"), (.strSuffixOf, "walk_str_suffixof", "str.suffixof")]

theorem strTable_ok : ∀ e ∈ strTable,
    walkKey e.1 = e.2.1 ∧ (e.2.1, e.2.2) ∈ stdSpellings ∧ e.2.2 ∈ opToks ∧ e.1 ≠ .arrayValue := by
  decide +kernel

theorem map_snd_U (args : List Term) : (args.map (U srt)).map (·.2) = args.map tyD := by
  simp [U, Function.comp_def]

section
variable (sp : Spell) (hsp : SpellStd sp) (env : SEnv) (sc : List Binding) (hsc : ThFree sc) (srt : Bool)
  (toS : Term → Sexp) (scope0 : List Sym)
include hsp hsc

theorem reads_str (op : Op) (hop : ∃ key name, (op, key, name) ∈ strTable) (p : Payload) (args : List Term) (τ : Ty)
    (hargs : ∀ a ∈ args, Reads env sc srt toS a) (hty : (Term.node op args p).typeOf = some τ)
    (hS : stdTy op p (args.map tyD) = some τ) : NodeReads sp env sc srt toS op args p := by
  obtain ⟨key, name, he⟩ := hop
  have key2 : ∃ ptys, p = .none ∧ args.map tyD = ptys ∧ ptys ≠ [] ∧ strSig name = some (op, ptys, τ) ∧
      (∀ as, nodeSexp sp srt op .none args as = .list (.atom (sp (walkKey op)) :: as)) := by
    simp only [strTable, List.mem_cons, Prod.mk.injEq, List.not_mem_nil, or_false] at he
    rcases he with ⟨rfl, _, rfl⟩ | ⟨rfl, _, rfl⟩ | ⟨rfl, _, rfl⟩ | ⟨rfl, _, rfl⟩ | ⟨rfl, _, rfl⟩ | ⟨rfl, _, rfl⟩
      | ⟨rfl, _, rfl⟩ | ⟨rfl, _, rfl⟩ <;>
    · simp only [stdTy] at hS
      split at hS <;> simp at hS
      rename_i hc
      simp only [Bool.and_eq_true, beq_iff_eq] at hc
      subst hS
      exact ⟨_, hc.1, hc.2, by simp, by simp [strSig], fun as => by simp [nodeSexp]⟩
  obtain ⟨ptys, rfl, hts, hpne, hsig, hsexp⟩ := key2
  obtain ⟨hk, hs, ht, hna⟩ := strTable_ok _ he
  simp only at hk hs ht hna
  have hne : args ≠ [] := by intro h; subst h; simp at hts; exact hpne hts
  apply reads_simple sp env sc hsc srt toS op .none args name ht
    (fun as => by rw [hsexp, hk, spell sp hsp key name hs])
    (unfoldAV_plain srt _ _ _ hna) hargs hne _ hty
  rw [ap_strSig name op ptys τ hsig _ (by rw [map_snd_U, hts]), map_fst_U srt]

theorem reads_strConcat (p : Payload) (args : List Term) (τ : Ty)
    (hargs : ∀ a ∈ args, Reads env sc srt toS a) (hty : (Term.node .strConcat args p).typeOf = some τ)
    (hS : stdTy .strConcat p (args.map tyD) = some τ) (hok : nodeOK env scope0 .strConcat p args = true) :
    NodeReads sp env sc srt toS .strConcat args p := by
  simp only [stdTy] at hS
  split at hS <;> simp at hS
  rename_i hc
  simp only [Bool.and_eq_true, beq_iff_eq] at hc
  obtain ⟨rfl, hall⟩ := hc
  subst hS
  simp only [nodeOK, decide_eq_true_eq] at hok
  have hne : args ≠ [] := by intro h; subst h; simp at hok
  apply reads_simple sp env sc hsc srt toS .strConcat .none args "str.++" (by decide)
    (fun as => by simp [nodeSexp, walkKey, spell sp hsp "walk_str_concat" "str.++" (by decide)])
    (unfoldAV_plain srt _ _ _ (by decide)) hargs hne _ hty
  rw [ap_strConcat _ (by simpa using hok) (allTy_U hall), map_fst_U srt]

end

end PySMT.Printer
