import PySMT.Proofs.C10NNF
import PySMT.Proofs.C10AIG
/-!
# C10 — interface facts: `nnf` and `aig` introduce no free symbol
-/
namespace PySMT.Rewritings

theorem fv_tt' : Term.tt.fv = [] := by rw [Term.tt, fv_node_plain _ _ _ (by decide) (by decide) (by decide)]; rfl
theorem fv_ff' : Term.ff.fv = [] := by rw [Term.ff, fv_node_plain _ _ _ (by decide) (by decide) (by decide)]; rfl

theorem fv_plain_mem {op : Op} (h1 : op ≠ .symbol) (h2 : op ≠ .function) (h3 : op.isQuantifier = false)
    {args : List Term} {p : Payload} {s : Sym} :
    s ∈ (Term.node op args p).fv ↔ ∃ a ∈ args, s ∈ a.fv := by
  rw [fv_node_plain _ _ _ h1 h2 h3]
  simp only [List.mem_flatten, List.mem_map]
  constructor
  · rintro ⟨_, ⟨a, ha, rfl⟩, hs⟩; exact ⟨a, ha, hs⟩
  · rintro ⟨a, ha, hs⟩; exact ⟨_, ⟨a, ha, rfl⟩, hs⟩

/-- the free symbols of `mkAnd ms` / `mkOr ms` / `mkNot m` come from the arguments -/
theorem fv_mkAnd {ms : List Term} {P : Sym → Prop} (h : ∀ m ∈ ms, ∀ s ∈ m.fv, P s) : ∀ s ∈ (mkAnd ms).fv, P s := by
  intro s hs
  match ms, h, hs with
  | [], _, hs => rw [show mkAnd [] = Term.tt from rfl, fv_tt'] at hs; cases hs
  | [a], h, hs => exact h a (by simp) s hs
  | a :: b :: rest, h, hs =>
    rw [show mkAnd (a :: b :: rest) = .node .and (a :: b :: rest) .none from rfl,
      fv_plain_mem (by decide) (by decide) rfl] at hs
    obtain ⟨m, hm, hsm⟩ := hs
    exact h m hm s hsm

theorem fv_mkOr {ms : List Term} {P : Sym → Prop} (h : ∀ m ∈ ms, ∀ s ∈ m.fv, P s) : ∀ s ∈ (mkOr ms).fv, P s := by
  intro s hs
  match ms, h, hs with
  | [], _, hs => rw [show mkOr [] = Term.ff from rfl, fv_ff'] at hs; cases hs
  | [a], h, hs => exact h a (by simp) s hs
  | a :: b :: rest, h, hs =>
    rw [show mkOr (a :: b :: rest) = .node .or (a :: b :: rest) .none from rfl,
      fv_plain_mem (by decide) (by decide) rfl] at hs
    obtain ⟨m, hm, hsm⟩ := hs
    exact h m hm s hsm

theorem fv_mkNot {m : Term} {P : Sym → Prop} (h : ∀ s ∈ m.fv, P s) : ∀ s ∈ (mkNot m).fv, P s := by
  intro s hs
  rcases mkNot_cases m with ⟨a, p, rfl, h2⟩ | h2
  · rw [h2] at hs
    exact h s ((fv_plain_mem (by decide) (by decide) rfl).mpr ⟨a, by simp, hs⟩)
  · rw [h2, fv_plain_mem (by decide) (by decide) rfl] at hs
    obtain ⟨a, ha, hsa⟩ := hs
    simp only [List.mem_cons, List.not_mem_nil, or_false] at ha
    subst ha; exact h s hsa

theorem fv_pair {x y : Term} {P : Sym → Prop} (hx : ∀ s ∈ x.fv, P s) (hy : ∀ s ∈ y.fv, P s) :
    ∀ m ∈ [x, y], ∀ s ∈ m.fv, P s := by
  intro m hm
  simp only [List.mem_cons, List.not_mem_nil, or_false] at hm
  rcases hm with rfl | rfl
  · exact hx
  · exact hy

theorem fv_quant_mem (isEx : Bool) (b : Term) (vs : List Sym) (s : Sym) :
    s ∈ (Term.node (if isEx then .exists_ else .forall_) [b] (.qvars vs)).fv ↔ s ∈ b.fv ∧ s ∉ vs := by
  cases isEx
  · simp only [Bool.false_eq_true, if_false, fv_forall]; simp
  · simp only [if_true, fv_exists]; simp

theorem fv_mkForall {vs : List Sym} {b b' : Term} (h : ∀ s ∈ b'.fv, s ∈ b.fv) :
    ∀ s ∈ (mkForall vs b').fv, s ∈ (Term.node .forall_ [b] (.qvars vs)).fv := by
  intro s hs
  unfold mkForall at hs
  split at hs
  · next he =>
    have : vs = [] := by simpa using he
    subst this
    exact (fv_quant_mem false b [] s).mpr ⟨h s hs, by simp⟩
  · have := (fv_quant_mem false b' vs s).mp hs
    exact (fv_quant_mem false b vs s).mpr ⟨h s this.1, this.2⟩

theorem fv_mkExists {vs : List Sym} {b b' : Term} (h : ∀ s ∈ b'.fv, s ∈ b.fv) :
    ∀ s ∈ (mkExists vs b').fv, s ∈ (Term.node .exists_ [b] (.qvars vs)).fv := by
  intro s hs
  unfold mkExists at hs
  split at hs
  · next he =>
    have : vs = [] := by simpa using he
    subst this
    exact (fv_quant_mem true b [] s).mpr ⟨h s hs, by simp⟩
  · have := (fv_quant_mem true b' vs s).mp hs
    exact (fv_quant_mem true b vs s).mpr ⟨h s this.1, this.2⟩

/-- the two quantifier nodes over the same body and variables have the same free symbols -/
theorem fv_forall_exists (b : Term) (vs : List Sym) (s : Sym) :
    s ∈ (Term.node .forall_ [b] (.qvars vs)).fv ↔ s ∈ (Term.node .exists_ [b] (.qvars vs)).fv := by
  have h1 := fv_quant_mem false b vs s
  have h2 := fv_quant_mem true b vs s
  simp only [Bool.false_eq_true, if_false] at h1
  simp only [if_true] at h2
  rw [h1, h2]

/-- **`nnf` introduces no free symbol** -/
theorem nnfP_fv : (t : Term) → ∀ pos : Bool, t.wf = true → ∀ s ∈ (nnfP pos t).fv, s ∈ t.fv
  | .node op args p => fun pos h => by
    have ih : ∀ a ∈ args, ∀ pos : Bool, ∀ s ∈ (nnfP pos a).fv, s ∈ a.fv :=
      fun a ha pos => nnfP_fv a pos ((Term.wf_node.mp h).1 a ha)
    by_cases hc : isConnective op = false
    · rw [nnfP_atom hc]
      cases pos
      · intro s hs
        simp only [Bool.false_eq_true, if_false] at hs
        obtain ⟨a, ha, hsa⟩ := (fv_plain_mem (by decide) (by decide) rfl).mp hs
        simp only [List.mem_cons, List.not_mem_nil, or_false] at ha
        subst ha; exact hsa
      · intro s hs; simpa using hs
    · have up : ∀ {o : Op}, o ≠ .symbol → o ≠ .function → o.isQuantifier = false → ∀ {as : List Term} {q : Payload},
          ∀ a ∈ as, ∀ s ∈ a.fv, s ∈ (Term.node o as q).fv :=
        fun h1 h2 h3 _ _ a ha s hs => (fv_plain_mem h1 h2 h3).mpr ⟨a, ha, hs⟩
      have hl : ∀ (o : Op), o ≠ .symbol → o ≠ .function → o.isQuantifier = false → ∀ pos,
          ∀ m ∈ args.map (nnfP pos), ∀ s ∈ m.fv, s ∈ (Term.node o args p).fv := by
        intro o h1 h2 h3 pos m hm s hs
        obtain ⟨a, ha, rfl⟩ := List.mem_map.mp hm
        exact up h1 h2 h3 a ha s (ih a ha pos s hs)
      cases op <;> simp [isConnective] at hc
      case and =>
        cases pos <;> simp only [nnfP, Bool.false_eq_true, if_false, if_true]
        · exact fv_mkOr (hl .and (by decide) (by decide) rfl false)
        · exact fv_mkAnd (hl .and (by decide) (by decide) rfl true)
      case or =>
        cases pos <;> simp only [nnfP, Bool.false_eq_true, if_false, if_true]
        · exact fv_mkAnd (hl .or (by decide) (by decide) rfl false)
        · exact fv_mkOr (hl .or (by decide) (by decide) rfl true)
      case not =>
        obtain ⟨a, rfl⟩ := wf_not_args h
        simp only [nnfP]
        exact fun s hs => up (by decide) (by decide) rfl a (by simp) s (ih a (by simp) _ s hs)
      case implies =>
        obtain ⟨a, b, rfl⟩ := wf_binary_args (.inl rfl) h
        have fa : ∀ pos, ∀ s ∈ (nnfP pos a).fv, s ∈ (Term.node .implies [a, b] p).fv :=
          fun pos s hs => up (by decide) (by decide) rfl a (by simp) s (ih a (by simp) pos s hs)
        have fb : ∀ pos, ∀ s ∈ (nnfP pos b).fv, s ∈ (Term.node .implies [a, b] p).fv :=
          fun pos s hs => up (by decide) (by decide) rfl b (by simp) s (ih b (by simp) pos s hs)
        cases pos <;> simp only [nnfP, Bool.false_eq_true, if_false, if_true]
        · exact fv_mkAnd (fv_pair (fa _) (fb _))
        · exact fv_mkOr (fv_pair (fa _) (fb _))
      case iff =>
        obtain ⟨a, b, rfl⟩ := wf_binary_args (.inr rfl) h
        have fa : ∀ pos, ∀ s ∈ (nnfP pos a).fv, s ∈ (Term.node .iff [a, b] p).fv :=
          fun pos s hs => up (by decide) (by decide) rfl a (by simp) s (ih a (by simp) pos s hs)
        have fb : ∀ pos, ∀ s ∈ (nnfP pos b).fv, s ∈ (Term.node .iff [a, b] p).fv :=
          fun pos s hs => up (by decide) (by decide) rfl b (by simp) s (ih b (by simp) pos s hs)
        cases pos <;> simp only [nnfP, Bool.false_eq_true, if_false, if_true]
        · exact fv_mkOr (fv_pair (fv_mkAnd (fv_pair (fa _) (fb _))) (fv_mkAnd (fv_pair (fb _) (fa _))))
        · exact fv_mkAnd (fv_pair (fv_mkOr (fv_pair (fa _) (fb _))) (fv_mkOr (fv_pair (fb _) (fa _))))
      case ite =>
        obtain ⟨c, a, b, rfl⟩ := wf_ite_args h
        have fc : ∀ pos, ∀ s ∈ (nnfP pos c).fv, s ∈ (Term.node .ite [c, a, b] p).fv :=
          fun pos s hs => up (by decide) (by decide) rfl c (by simp) s (ih c (by simp) pos s hs)
        have fa : ∀ pos, ∀ s ∈ (nnfP pos a).fv, s ∈ (Term.node .ite [c, a, b] p).fv :=
          fun pos s hs => up (by decide) (by decide) rfl a (by simp) s (ih a (by simp) pos s hs)
        have fb : ∀ pos, ∀ s ∈ (nnfP pos b).fv, s ∈ (Term.node .ite [c, a, b] p).fv :=
          fun pos s hs => up (by decide) (by decide) rfl b (by simp) s (ih b (by simp) pos s hs)
        cases pos <;> simp only [nnfP, Bool.false_eq_true, if_false, if_true]
        · exact fv_mkAnd (fv_pair (fv_mkOr (fv_pair (fc _) (fa _))) (fv_mkOr (fv_pair (fc _) (fb _))))
        · exact fv_mkAnd (fv_pair (fv_mkOr (fv_pair (fc _) (fa _))) (fv_mkOr (fv_pair (fc _) (fb _))))
      case forall_ =>
        obtain ⟨b, vs, rfl, rfl⟩ := wf_quant_args (.inl rfl) h
        cases pos <;> simp only [nnfP, Bool.false_eq_true, if_false, if_true]
        · exact fun s hs => (fv_forall_exists b vs s).mpr (fv_mkExists (ih b (by simp) false) s hs)
        · exact fv_mkForall (ih b (by simp) true)
      case exists_ =>
        obtain ⟨b, vs, rfl, rfl⟩ := wf_quant_args (.inr rfl) h
        cases pos <;> simp only [nnfP, Bool.false_eq_true, if_false, if_true]
        · exact fun s hs => (fv_forall_exists b vs s).mp (fv_mkForall (ih b (by simp) false) s hs)
        · exact fv_mkExists (ih b (by simp) true)

theorem nnf_fv_main (t : Term) (hwf : t.wf = true) : ∀ s ∈ (nnf t).fv, s ∈ t.fv := nnfP_fv t true hwf

/-- **`aig` introduces no free symbol** -/
theorem aig_fv_main : (t : Term) → WB t → ∀ s ∈ (aig t).fv, s ∈ t.fv
  | .node op args p => fun h => by
    have ih : ∀ a ∈ args, WB a → ∀ s ∈ (aig a).fv, s ∈ a.fv := fun a _ ha => aig_fv_main a ha
    by_cases hc : isConnective op = false
    · rw [aig_atom hc]; exact fun s hs => hs
    · have up : ∀ {o : Op}, o ≠ .symbol → o ≠ .function → o.isQuantifier = false → ∀ {as : List Term} {q : Payload},
          ∀ a ∈ as, ∀ s ∈ a.fv, s ∈ (Term.node o as q).fv :=
        fun h1 h2 h3 _ _ a ha s hs => (fv_plain_mem h1 h2 h3).mpr ⟨a, ha, hs⟩
      have notAnd : ∀ {x y : Term} {P : Sym → Prop}, (∀ s ∈ x.fv, P s) → (∀ s ∈ y.fv, P s) →
          ∀ s ∈ (mkNot (mkAnd [x, mkNot y])).fv, P s :=
        fun hx hy => fv_mkNot (fv_mkAnd (fv_pair hx (fv_mkNot hy)))
      cases op <;> simp [isConnective] at hc
      case and =>
        have hch := (wb_and _ _).mp h
        simp only [aig]
        refine fv_mkAnd (fun m hm s hs => ?_)
        obtain ⟨a, ha, rfl⟩ := List.mem_map.mp hm
        exact up (by decide) (by decide) rfl a ha s (ih a ha (hch a ha) s hs)
      case or =>
        have hch := (wb_or _ _).mp h
        simp only [aig]
        refine fv_mkNot (fv_mkAnd (fun m hm => ?_))
        obtain ⟨a, ha, rfl⟩ := List.mem_map.mp hm
        exact fv_mkNot (fun s hs => up (by decide) (by decide) rfl a ha s (ih a ha (hch a ha) s hs))
      case not =>
        obtain ⟨a, rfl⟩ := wf_not_args h.1
        simp only [aig]
        exact fv_mkNot (fun s hs => up (by decide) (by decide) rfl a (by simp) s (ih a (by simp) ((wb_not _ _).mp h) s hs))
      case implies =>
        obtain ⟨a, b, rfl⟩ := wf_binary_args (.inl rfl) h.1
        obtain ⟨ha, hb⟩ := (wb_implies _ _ _).mp h
        simp only [aig]
        exact notAnd (fun s hs => up (by decide) (by decide) rfl a (by simp) s (ih a (by simp) ha s hs))
          (fun s hs => up (by decide) (by decide) rfl b (by simp) s (ih b (by simp) hb s hs))
      case iff =>
        obtain ⟨a, b, rfl⟩ := wf_binary_args (.inr rfl) h.1
        obtain ⟨ha, hb⟩ := (wb_iff _ _ _).mp h
        have fa : ∀ s ∈ (aig a).fv, s ∈ (Term.node .iff [a, b] p).fv :=
          fun s hs => up (by decide) (by decide) rfl a (by simp) s (ih a (by simp) ha s hs)
        have fb : ∀ s ∈ (aig b).fv, s ∈ (Term.node .iff [a, b] p).fv :=
          fun s hs => up (by decide) (by decide) rfl b (by simp) s (ih b (by simp) hb s hs)
        simp only [aig]
        exact fv_mkAnd (fv_pair (notAnd fa fb) (notAnd fb fa))
      case ite =>
        obtain ⟨c, a, b, rfl⟩ := wf_ite_args h.1
        obtain ⟨hc', ha, hb⟩ := (wb_ite _ _ _ _).mp h
        have fc : ∀ s ∈ (aig c).fv, s ∈ (Term.node .ite [c, a, b] p).fv :=
          fun s hs => up (by decide) (by decide) rfl c (by simp) s (ih c (by simp) hc' s hs)
        have fa : ∀ s ∈ (aig a).fv, s ∈ (Term.node .ite [c, a, b] p).fv :=
          fun s hs => up (by decide) (by decide) rfl a (by simp) s (ih a (by simp) ha s hs)
        have fb : ∀ s ∈ (aig b).fv, s ∈ (Term.node .ite [c, a, b] p).fv :=
          fun s hs => up (by decide) (by decide) rfl b (by simp) s (ih b (by simp) hb s hs)
        simp only [aig, ha.2, beq_self_eq_true, if_true]
        exact fv_mkAnd (fv_pair (notAnd fc fa) (notAnd (fv_mkNot fc) fb))
      case forall_ =>
        obtain ⟨b, vs, rfl, rfl⟩ := wf_quant_args (.inl rfl) h.1
        simp only [aig]
        exact fv_mkForall (ih b (by simp) ((wb_forall _ _).mp h))
      case exists_ =>
        obtain ⟨b, vs, rfl, rfl⟩ := wf_quant_args (.inr rfl) h.1
        simp only [aig]
        exact fv_mkExists (ih b (by simp) ((wb_exists _ _).mp h))

end PySMT.Rewritings
