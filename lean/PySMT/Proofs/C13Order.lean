/-
C13, order part: `Theory.__le__` / `Logic.__le__` (as translated into `Gen/TheoryOrder.lean`) are partial
orders (modulo the name, for logics), `Theory.combine` is an upper bound exactly on the pairs described by
`Theory.combinable` (in particular on well-formed theories), and `≤` implies feature coverage.

Proof shape: the translated `Theory.le` is a conjunction of 12 conditions, each emitted as its own def
reading at most four flags.  Every condition gets its own lemma over the few Booleans it reads, closed by
`decide +revert` (a finite truth table), and the conjunction is assembled with `exact`.  Nothing here
enumerates the 2^36 triples of theories.
-/
import PySMT.Spec.LogicOrder
namespace PySMT.Logics

/-- unfold the listed (generated) definitions, then decide the remaining statement about the few
Boolean flags it still mentions -/
syntax "flags_decide" "[" ident,* "]" : tactic
macro_rules
  | `(tactic| flags_decide [$ids,*]) => `(tactic| (simp only [$[$ids:ident],*]; decide +revert))

/-! ### `Theory.le` as a conjunction -/

theorem Theory.le_iff (a b : Theory) : Theory.le a b = true ↔
    (Theory.le.conj1 a b = true ∧ Theory.le.conj2 a b = true ∧ Theory.le.conj3 a b = true ∧
     Theory.le.conj4 a b = true ∧ Theory.le.conj5 a b = true ∧ Theory.le.conj6 a b = true ∧
     Theory.le.conj7 a b = true ∧ Theory.le.conj8 a b = true ∧ Theory.le.conj9 a b = true ∧
     Theory.le.conj10 a b = true ∧ Theory.le.conj11 a b = true ∧ Theory.le.conj12 a b = true) := by
  simp only [Theory.le, Bool.and_eq_true, and_assoc]

/-! ### reflexivity, per condition -/
theorem c1_refl (a : Theory) : Theory.le.conj1 a a = true := by cases a; flags_decide [Theory.le.conj1]
theorem c2_refl (a : Theory) : Theory.le.conj2 a a = true := by cases a; flags_decide [Theory.le.conj2]
theorem c3_refl (a : Theory) : Theory.le.conj3 a a = true := by cases a; flags_decide [Theory.le.conj3]
theorem c4_refl (a : Theory) : Theory.le.conj4 a a = true := by cases a; flags_decide [Theory.le.conj4]
theorem c5_refl (a : Theory) : Theory.le.conj5 a a = true := by cases a; flags_decide [Theory.le.conj5]
theorem c6_refl (a : Theory) : Theory.le.conj6 a a = true := by cases a; flags_decide [Theory.le.conj6]
theorem c7_refl (a : Theory) : Theory.le.conj7 a a = true := by
  cases a; flags_decide [Theory.le.conj7, Theory.le.le_integer_difference]
theorem c8_refl (a : Theory) : Theory.le.conj8 a a = true := by cases a; flags_decide [Theory.le.conj8]
theorem c9_refl (a : Theory) : Theory.le.conj9 a a = true := by
  cases a; flags_decide [Theory.le.conj9, Theory.le.le_real_difference]
theorem c10_refl (a : Theory) : Theory.le.conj10 a a = true := by cases a; flags_decide [Theory.le.conj10]
theorem c11_refl (a : Theory) : Theory.le.conj11 a a = true := by
  cases a; flags_decide [Theory.le.conj11, Theory.le.le_linear]
theorem c12_refl (a : Theory) : Theory.le.conj12 a a = true := by cases a; flags_decide [Theory.le.conj12]

theorem Theory.le_refl (a : Theory) : Theory.le a a = true :=
  (Theory.le_iff a a).2 ⟨c1_refl a, c2_refl a, c3_refl a, c4_refl a, c5_refl a, c6_refl a, c7_refl a,
    c8_refl a, c9_refl a, c10_refl a, c11_refl a, c12_refl a⟩

/-! ### transitivity, per condition -/
section
variable (a b c : Theory)
theorem c1_trans : Theory.le.conj1 a b = true → Theory.le.conj1 b c = true → Theory.le.conj1 a c = true := by
  cases a; cases b; cases c; flags_decide [Theory.le.conj1]
theorem c2_trans : Theory.le.conj2 a b = true → Theory.le.conj2 b c = true → Theory.le.conj2 a c = true := by
  cases a; cases b; cases c; flags_decide [Theory.le.conj2]
theorem c3_trans : Theory.le.conj3 a b = true → Theory.le.conj3 b c = true → Theory.le.conj3 a c = true := by
  cases a; cases b; cases c; flags_decide [Theory.le.conj3]
theorem c4_trans : Theory.le.conj4 a b = true → Theory.le.conj4 b c = true → Theory.le.conj4 a c = true := by
  cases a; cases b; cases c; flags_decide [Theory.le.conj4]
theorem c5_trans : Theory.le.conj5 a b = true → Theory.le.conj5 b c = true → Theory.le.conj5 a c = true := by
  cases a; cases b; cases c; flags_decide [Theory.le.conj5]
theorem c6_trans : Theory.le.conj6 a b = true → Theory.le.conj6 b c = true → Theory.le.conj6 a c = true := by
  cases a; cases b; cases c; flags_decide [Theory.le.conj6]
/-- the integer-difference condition is transitive given the integer-arithmetic condition -/
theorem c7_trans : Theory.le.conj8 a b = true → Theory.le.conj8 b c = true →
    Theory.le.conj7 a b = true → Theory.le.conj7 b c = true → Theory.le.conj7 a c = true := by
  cases a; cases b; cases c
  flags_decide [Theory.le.conj7, Theory.le.conj8, Theory.le.le_integer_difference]
theorem c8_trans : Theory.le.conj8 a b = true → Theory.le.conj8 b c = true → Theory.le.conj8 a c = true := by
  cases a; cases b; cases c; flags_decide [Theory.le.conj8]
theorem c9_trans : Theory.le.conj10 a b = true → Theory.le.conj10 b c = true →
    Theory.le.conj9 a b = true → Theory.le.conj9 b c = true → Theory.le.conj9 a c = true := by
  cases a; cases b; cases c
  flags_decide [Theory.le.conj9, Theory.le.conj10, Theory.le.le_real_difference]
theorem c10_trans : Theory.le.conj10 a b = true → Theory.le.conj10 b c = true → Theory.le.conj10 a c = true := by
  cases a; cases b; cases c; flags_decide [Theory.le.conj10]
theorem c11_trans : Theory.le.conj11 a b = true → Theory.le.conj11 b c = true → Theory.le.conj11 a c = true := by
  cases a; cases b; cases c; flags_decide [Theory.le.conj11, Theory.le.le_linear]
theorem c12_trans : Theory.le.conj12 a b = true → Theory.le.conj12 b c = true → Theory.le.conj12 a c = true := by
  cases a; cases b; cases c; flags_decide [Theory.le.conj12]
end

theorem Theory.le_trans (a b c : Theory) (hab : Theory.le a b = true) (hbc : Theory.le b c = true) :
    Theory.le a c = true := by
  obtain ⟨p1, p2, p3, p4, p5, p6, p7, p8, p9, p10, p11, p12⟩ := (Theory.le_iff a b).1 hab
  obtain ⟨q1, q2, q3, q4, q5, q6, q7, q8, q9, q10, q11, q12⟩ := (Theory.le_iff b c).1 hbc
  exact (Theory.le_iff a c).2 ⟨c1_trans a b c p1 q1, c2_trans a b c p2 q2, c3_trans a b c p3 q3,
    c4_trans a b c p4 q4, c5_trans a b c p5 q5, c6_trans a b c p6 q6, c7_trans a b c p8 q8 p7 q7,
    c8_trans a b c p8 q8, c9_trans a b c p10 q10 p9 q9, c10_trans a b c p10 q10,
    c11_trans a b c p11 q11, c12_trans a b c p12 q12⟩

/-! ### antisymmetry, per flag -/
section
variable (a b : Theory)
theorem c1_anti : Theory.le.conj1 a b = true → Theory.le.conj1 b a = true → a.arrays = b.arrays := by
  cases a; cases b; flags_decide [Theory.le.conj1]
theorem c2_anti : Theory.le.conj2 a b = true → Theory.le.conj2 b a = true → a.arrays_const = b.arrays_const := by
  cases a; cases b; flags_decide [Theory.le.conj2]
theorem c3_anti : Theory.le.conj3 a b = true → Theory.le.conj3 b a = true → a.bit_vectors = b.bit_vectors := by
  cases a; cases b; flags_decide [Theory.le.conj3]
theorem c4_anti : Theory.le.conj4 a b = true → Theory.le.conj4 b a = true → a.floating_point = b.floating_point := by
  cases a; cases b; flags_decide [Theory.le.conj4]
theorem c5_anti : Theory.le.conj5 a b = true → Theory.le.conj5 b a = true → a.uninterpreted = b.uninterpreted := by
  cases a; cases b; flags_decide [Theory.le.conj5]
theorem c6_anti : Theory.le.conj6 a b = true → Theory.le.conj6 b a = true → a.custom_type = b.custom_type := by
  cases a; cases b; flags_decide [Theory.le.conj6]
theorem c7_anti : Theory.le.conj8 a b = true → Theory.le.conj8 b a = true →
    Theory.le.conj7 a b = true → Theory.le.conj7 b a = true → a.integer_difference = b.integer_difference := by
  cases a; cases b; flags_decide [Theory.le.conj7, Theory.le.conj8, Theory.le.le_integer_difference]
theorem c8_anti : Theory.le.conj8 a b = true → Theory.le.conj8 b a = true →
    a.integer_arithmetic = b.integer_arithmetic := by
  cases a; cases b; flags_decide [Theory.le.conj8]
theorem c9_anti : Theory.le.conj10 a b = true → Theory.le.conj10 b a = true →
    Theory.le.conj9 a b = true → Theory.le.conj9 b a = true → a.real_difference = b.real_difference := by
  cases a; cases b; flags_decide [Theory.le.conj9, Theory.le.conj10, Theory.le.le_real_difference]
theorem c10_anti : Theory.le.conj10 a b = true → Theory.le.conj10 b a = true →
    a.real_arithmetic = b.real_arithmetic := by
  cases a; cases b; flags_decide [Theory.le.conj10]
theorem c11_anti : Theory.le.conj11 a b = true → Theory.le.conj11 b a = true → a.linear = b.linear := by
  cases a; cases b; flags_decide [Theory.le.conj11, Theory.le.le_linear]
theorem c12_anti : Theory.le.conj12 a b = true → Theory.le.conj12 b a = true → a.strings = b.strings := by
  cases a; cases b; flags_decide [Theory.le.conj12]
end

theorem Theory.le_antisymm (a b : Theory) (hab : Theory.le a b = true) (hba : Theory.le b a = true) :
    a = b := by
  obtain ⟨p1, p2, p3, p4, p5, p6, p7, p8, p9, p10, p11, p12⟩ := (Theory.le_iff a b).1 hab
  obtain ⟨q1, q2, q3, q4, q5, q6, q7, q8, q9, q10, q11, q12⟩ := (Theory.le_iff b a).1 hba
  have e1 := c1_anti a b p1 q1
  have e2 := c2_anti a b p2 q2
  have e3 := c3_anti a b p3 q3
  have e4 := c4_anti a b p4 q4
  have e5 := c5_anti a b p5 q5
  have e6 := c6_anti a b p6 q6
  have e7 := c7_anti a b p8 q8 p7 q7
  have e8 := c8_anti a b p8 q8
  have e9 := c9_anti a b p10 q10 p9 q9
  have e10 := c10_anti a b p10 q10
  have e11 := c11_anti a b p11 q11
  have e12 := c12_anti a b p12 q12
  cases a; cases b
  simp only at e1 e2 e3 e4 e5 e6 e7 e8 e9 e10 e11 e12
  subst e1 e2 e3 e4 e5 e6 e7 e8 e9 e10 e11 e12
  rfl

/-! ### `≤` implies feature coverage -/
section
variable (a b : Theory)
theorem c11_cov : Theory.le.conj11 a b = true → (a.linear || !b.linear) = true := by
  cases a; cases b; flags_decide [Theory.le.conj11, Theory.le.le_linear]
theorem Theory.le_covers (h : Theory.le a b = true) : b.covers a = true := by
  obtain ⟨p1, p2, p3, p4, p5, p6, _, p8, _, p10, p11, p12⟩ := (Theory.le_iff a b).1 h
  have h11 := c11_cov a b p11
  simp only [Theory.le.conj1, Theory.le.conj2, Theory.le.conj3, Theory.le.conj4, Theory.le.conj5,
    Theory.le.conj6, Theory.le.conj8, Theory.le.conj10, Theory.le.conj12] at p1 p2 p3 p4 p5 p6 p8 p10 p12
  simp only [Theory.covers, Bool.and_eq_true]
  exact ⟨⟨⟨⟨⟨⟨⟨⟨⟨p1, p2⟩, p3⟩, p4⟩, p8⟩, p10⟩, p5⟩, p6⟩, p12⟩, h11⟩
end

/-! ### `__eq__` / `__ne__` are structural equality -/
theorem Theory.eq_iff (a b : Theory) : Theory.eq a b = true ↔ a = b := by
  cases a; cases b
  simp only [Theory.eq, Theory.eq.conj1, Theory.eq.conj2, Theory.eq.conj3, Theory.eq.conj4, Theory.eq.conj5,
    Theory.eq.conj6, Theory.eq.conj7, Theory.eq.conj8, Theory.eq.conj9, Theory.eq.conj10, Theory.eq.conj11,
    Theory.eq.conj12, Bool.and_eq_true, beq_iff_eq, Theory.mk.injEq, and_assoc]

theorem Theory.ne_iff (a b : Theory) : Theory.ne a b = true ↔ a ≠ b := by
  simp only [Theory.ne, Bool.not_eq_true', ne_eq, ← Theory.eq_iff]
  cases Theory.eq a b <;> simp

theorem Theory.copy_eq (a : Theory) : Theory.copy a = a := by cases a; rfl

/-! ### `combine` -/

/-- the exact set of pairs on which `combine` is an upper bound: whenever neither side has the
arithmetic, both difference flags must be off (as in every well-formed theory) -/
def Theory.combinable (a b : Theory) : Bool :=
  (a.integer_arithmetic || b.integer_arithmetic || (!a.integer_difference && !b.integer_difference)) &&
  (a.real_arithmetic || b.real_arithmetic || (!a.real_difference && !b.real_difference))

theorem Theory.wf_combinable (a b : Theory) : a.wf = true → b.wf = true → Theory.combinable a b = true := by
  cases a; cases b; flags_decide [Theory.wf, Theory.combinable]

section
variable (a b : Theory)
theorem cmb1_l : Theory.le.conj1 a (a.combine b) = true := by
  cases a; cases b; flags_decide [Theory.le.conj1, Theory.combine]
theorem cmb1_r : Theory.le.conj1 b (a.combine b) = true := by
  cases a; cases b; flags_decide [Theory.le.conj1, Theory.combine]
theorem cmb2_l : Theory.le.conj2 a (a.combine b) = true := by
  cases a; cases b; flags_decide [Theory.le.conj2, Theory.combine]
theorem cmb2_r : Theory.le.conj2 b (a.combine b) = true := by
  cases a; cases b; flags_decide [Theory.le.conj2, Theory.combine]
theorem cmb3_l : Theory.le.conj3 a (a.combine b) = true := by
  cases a; cases b; flags_decide [Theory.le.conj3, Theory.combine]
theorem cmb3_r : Theory.le.conj3 b (a.combine b) = true := by
  cases a; cases b; flags_decide [Theory.le.conj3, Theory.combine]
theorem cmb4_l : Theory.le.conj4 a (a.combine b) = true := by
  cases a; cases b; flags_decide [Theory.le.conj4, Theory.combine]
theorem cmb4_r : Theory.le.conj4 b (a.combine b) = true := by
  cases a; cases b; flags_decide [Theory.le.conj4, Theory.combine]
theorem cmb5_l : Theory.le.conj5 a (a.combine b) = true := by
  cases a; cases b; flags_decide [Theory.le.conj5, Theory.combine]
theorem cmb5_r : Theory.le.conj5 b (a.combine b) = true := by
  cases a; cases b; flags_decide [Theory.le.conj5, Theory.combine]
theorem cmb6_l : Theory.le.conj6 a (a.combine b) = true := by
  cases a; cases b; flags_decide [Theory.le.conj6, Theory.combine]
theorem cmb6_r : Theory.le.conj6 b (a.combine b) = true := by
  cases a; cases b; flags_decide [Theory.le.conj6, Theory.combine]
/-- integer-difference condition, both sides at once: it holds iff the pair is combinable there -/
theorem cmb7 : (Theory.le.conj7 a (a.combine b) = true ∧ Theory.le.conj7 b (a.combine b) = true) ↔
    (a.integer_arithmetic || b.integer_arithmetic || (!a.integer_difference && !b.integer_difference)) = true := by
  cases a; cases b
  flags_decide [Theory.le.conj7, Theory.le.le_integer_difference, Theory.combine, Theory.combine.integer_difference]
theorem cmb8_l : Theory.le.conj8 a (a.combine b) = true := by
  cases a; cases b; flags_decide [Theory.le.conj8, Theory.combine]
theorem cmb8_r : Theory.le.conj8 b (a.combine b) = true := by
  cases a; cases b; flags_decide [Theory.le.conj8, Theory.combine]
theorem cmb9 : (Theory.le.conj9 a (a.combine b) = true ∧ Theory.le.conj9 b (a.combine b) = true) ↔
    (a.real_arithmetic || b.real_arithmetic || (!a.real_difference && !b.real_difference)) = true := by
  cases a; cases b
  flags_decide [Theory.le.conj9, Theory.le.le_real_difference, Theory.combine, Theory.combine.real_difference]
theorem cmb10_l : Theory.le.conj10 a (a.combine b) = true := by
  cases a; cases b; flags_decide [Theory.le.conj10, Theory.combine]
theorem cmb10_r : Theory.le.conj10 b (a.combine b) = true := by
  cases a; cases b; flags_decide [Theory.le.conj10, Theory.combine]
theorem cmb11_l : Theory.le.conj11 a (a.combine b) = true := by
  cases a; cases b; flags_decide [Theory.le.conj11, Theory.le.le_linear, Theory.combine]
theorem cmb11_r : Theory.le.conj11 b (a.combine b) = true := by
  cases a; cases b; flags_decide [Theory.le.conj11, Theory.le.le_linear, Theory.combine]
theorem cmb12_l : Theory.le.conj12 a (a.combine b) = true := by
  cases a; cases b; flags_decide [Theory.le.conj12, Theory.combine]
theorem cmb12_r : Theory.le.conj12 b (a.combine b) = true := by
  cases a; cases b; flags_decide [Theory.le.conj12, Theory.combine]
end

/-- `combine a b` is an upper bound of `a` and `b` **iff** the pair is combinable. -/
theorem Theory.combine_ub_iff (a b : Theory) :
    (Theory.le a (a.combine b) = true ∧ Theory.le b (a.combine b) = true) ↔ Theory.combinable a b = true := by
  constructor
  · intro ⟨h1, h2⟩
    obtain ⟨_, _, _, _, _, _, p7, _, p9, _, _, _⟩ := (Theory.le_iff _ _).1 h1
    obtain ⟨_, _, _, _, _, _, q7, _, q9, _, _, _⟩ := (Theory.le_iff _ _).1 h2
    simp only [Theory.combinable, Bool.and_eq_true]
    exact ⟨(cmb7 a b).1 ⟨p7, q7⟩, (cmb9 a b).1 ⟨p9, q9⟩⟩
  · intro h
    simp only [Theory.combinable, Bool.and_eq_true] at h
    obtain ⟨p7, q7⟩ := (cmb7 a b).2 h.1
    obtain ⟨p9, q9⟩ := (cmb9 a b).2 h.2
    exact ⟨(Theory.le_iff _ _).2 ⟨cmb1_l a b, cmb2_l a b, cmb3_l a b, cmb4_l a b, cmb5_l a b, cmb6_l a b, p7,
        cmb8_l a b, p9, cmb10_l a b, cmb11_l a b, cmb12_l a b⟩,
      (Theory.le_iff _ _).2 ⟨cmb1_r a b, cmb2_r a b, cmb3_r a b, cmb4_r a b, cmb5_r a b, cmb6_r a b, q7,
        cmb8_r a b, q9, cmb10_r a b, cmb11_r a b, cmb12_r a b⟩⟩

theorem Theory.combine_ub (a b : Theory) (ha : WFTheory a) (hb : WFTheory b) :
    Theory.le a (a.combine b) = true ∧ Theory.le b (a.combine b) = true :=
  (Theory.combine_ub_iff a b).2 (Theory.wf_combinable a b ha hb)

/-- For ill-formed theories (difference flag without the arithmetic flag: `Theory(integer_difference=True)`
is accepted by the constructor) `combine` is **not** an upper bound. -/
theorem Theory.combine_not_ub_illformed :
    ¬ ∀ a b : Theory, Theory.le a (a.combine b) = true ∧ Theory.le b (a.combine b) = true := by
  intro h
  have := (h { Theory.default with integer_difference := true } Theory.default).1
  revert this
  decide

theorem Theory.combine_wf (a b : Theory) : a.wf = true → b.wf = true → (a.combine b).wf = true := by
  cases a; cases b
  flags_decide [Theory.wf, Theory.combine, Theory.combine.integer_difference, Theory.combine.real_difference]

/-- the two `assert`s inside `combine` can never fire -/
theorem Theory.combine_asserts (a b : Theory) :
    Theory.combine.assert1 a b = true ∧ Theory.combine.assert2 a b = true := by
  cases a; cases b
  constructor
  · flags_decide [Theory.combine.assert1]
  · flags_decide [Theory.combine.assert2]

/-- `combine` passes the constructor's assertion whenever both arguments do -/
theorem Theory.combine_init_ok (a b : Theory) :
    a.init_ok = true → b.init_ok = true → (a.combine b).init_ok = true := by
  cases a; cases b; flags_decide [Theory.init_ok, Theory.combine]

/-! ### the `set_*` methods keep theories well formed -/
section
variable (a : Theory) (v : Bool)
theorem Theory.set_linear_wf : a.wf = true → (a.set_linear v).wf = true := by
  cases a; flags_decide [Theory.wf, Theory.set_linear, Theory.copy]
theorem Theory.set_strings_wf : a.wf = true → (a.set_strings v).wf = true := by
  cases a; flags_decide [Theory.wf, Theory.set_strings, Theory.copy]
theorem Theory.set_difference_logic_wf : a.wf = true → (a.set_difference_logic v).wf = true := by
  cases a; flags_decide [Theory.wf, Theory.set_difference_logic, Theory.copy]
theorem Theory.set_arrays_const_wf : a.wf = true → (a.set_arrays_const v).wf = true := by
  cases a; flags_decide [Theory.wf, Theory.set_arrays_const, Theory.set_arrays, Theory.copy]
/-- `set_lira(True)` (the only way the library calls it) keeps well-formedness; `set_lira(False)` does so
only when no difference flag is set -/
theorem Theory.set_lira_wf : a.wf = true → (v = true ∨ (a.integer_difference = false ∧ a.real_difference = false)) →
    (a.set_lira v).wf = true := by
  cases a; flags_decide [Theory.wf, Theory.set_lira, Theory.copy]
theorem Theory.set_arrays_wf : a.wf = true → (v = true ∨ a.arrays_const = false) →
    (a.set_arrays v).wf = true := by
  cases a; flags_decide [Theory.wf, Theory.set_arrays, Theory.copy]
end

/-! ### logics -/

theorem Logic.le_iff (a b : Logic) : Logic.le a b = true ↔
    (Theory.le a.theory b.theory = true ∧ (a.quantifier_free || !b.quantifier_free) = true) := by
  simp only [Logic.le, Bool.and_eq_true]

theorem Logic.le_refl (a : Logic) : Logic.le a a = true := by
  refine (Logic.le_iff a a).2 ⟨Theory.le_refl _, ?_⟩
  cases a.quantifier_free <;> rfl

theorem qf_trans : ∀ x y z : Bool, (x || !y) = true → (y || !z) = true → (x || !z) = true := by decide
theorem qf_anti : ∀ x y : Bool, (x || !y) = true → (y || !x) = true → x = y := by decide

theorem Logic.le_trans (a b c : Logic) (hab : Logic.le a b = true) (hbc : Logic.le b c = true) :
    Logic.le a c = true := by
  obtain ⟨h1, h2⟩ := (Logic.le_iff a b).1 hab
  obtain ⟨h3, h4⟩ := (Logic.le_iff b c).1 hbc
  exact (Logic.le_iff a c).2 ⟨Theory.le_trans _ _ _ h1 h3, qf_trans _ _ _ h2 h4⟩

/-- antisymmetry up to the name: two logics below each other have the same theory and the same
quantifier flag -/
theorem Logic.le_antisymm_mod_name (a b : Logic) (hab : Logic.le a b = true) (hba : Logic.le b a = true) :
    a.theory = b.theory ∧ a.quantifier_free = b.quantifier_free := by
  obtain ⟨h1, h2⟩ := (Logic.le_iff a b).1 hab
  obtain ⟨h3, h4⟩ := (Logic.le_iff b a).1 hba
  exact ⟨Theory.le_antisymm _ _ h1 h3, qf_anti _ _ h2 h4⟩

theorem Logic.eq_iff (a b : Logic) : Logic.eq a b = true ↔ a = b := by
  cases a; cases b
  simp only [Logic.eq, Logic.eq.conj1, Logic.eq.conj2, Logic.eq.conj3, Bool.and_eq_true, beq_iff_eq,
    Theory.eq_iff, Logic.mk.injEq, and_assoc]

theorem Logic.ne_iff (a b : Logic) : Logic.ne a b = true ↔ a ≠ b := by
  simp only [Logic.ne, ne_eq, ← Logic.eq_iff]
  cases Logic.eq a b <;> simp

theorem Logic.lt_iff (a b : Logic) : Logic.lt a b = true ↔ (a ≠ b ∧ Logic.le a b = true) := by
  simp only [Logic.lt, Bool.and_eq_true, Logic.ne_iff]

theorem Logic.ge_iff (a b : Logic) : Logic.ge a b = true ↔ Logic.le b a = true := by
  simp only [Logic.ge]

theorem Logic.gt_iff (a b : Logic) : Logic.gt a b = true ↔ Logic.lt b a = true := by
  simp only [Logic.gt]

theorem Logic.le_covers (a b : Logic) (h : Logic.le a b = true) : b.covers a = true := by
  obtain ⟨h1, h2⟩ := (Logic.le_iff a b).1 h
  simp only [Logic.covers, Bool.and_eq_true]
  exact ⟨Theory.le_covers _ _ h1, h2⟩

/-- on a list without twins the order is antisymmetric on the nose -/
theorem Logic.le_antisymm_of_noTwins {sup : List Logic} (hnt : NoTwins sup) {a b : Logic}
    (ha : a ∈ sup) (hb : b ∈ sup) (hab : Logic.le a b = true) (hba : Logic.le b a = true) : a = b := by
  obtain ⟨h1, h2⟩ := Logic.le_antisymm_mod_name a b hab hba
  exact hnt a ha b hb h1 h2

end PySMT.Logics
