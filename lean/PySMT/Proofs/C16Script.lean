import PySMT.Impl.Script
import PySMT.Proofs.C16Items
/-!
# C16, script side: the replay loop of `get_last_formula` refines the SMT-LIB assertion stack.

`SInv s st` relates the spec stack `s` (levels, innermost first) to the state `st` of the replay loop:

* `stack` is `live s`, `backtrack` the cumulative lengths of the outer levels;
* `goals` matches `slots (items s)` element by element: an objective is itself, the slot of identifier `i` is a
  reference to the address that `max_smt_goals[i]` holds;
* `goals_backtrack[k]` = number of slots of the items that were live at the k-th `push`;
* `max_smt_goals` has exactly one entry for every identifier with a live soft clause, the object it points to holds
  exactly the live soft clauses of that identifier, distinct entries point to distinct objects, and its recorded
  position lies below the slot count of a pushed prefix exactly when the identifier already had a soft clause in
  that prefix (this is why the `pop` branch removes the right entries);
* `max_smt_goals_backtrack[i]` = for the pushes since the first live soft clause of `i`, the number of soft clauses of
  `i` live at that push (`btOf`): one entry per level pushed since the goal's creation, which is why the `pop`
  branch may `pop()` it.
-/

namespace PySMT.Proofs.C16
open PySMT.AssertStack PySMT.Script

/-! ### small facts about the containers -/

@[simp] theorem upd_same {β : Type} (h : Tab β) (a : Nat) (v : β) : upd h a v a = v := by simp [upd_apply]

theorem upd_other {β : Type} (h : Tab β) {a x : Nat} (v : β) (hx : x ≠ a) : upd h a v x = h x := by
  simp [upd_apply, hx]

theorem lookup_none {i : Nat} : ∀ {d : List MaxEntry}, lookup i d = none → ∀ e ∈ d, e.id ≠ i
  | [], _, e, he => by simp at he
  | e' :: es, h, e, he => by
    simp only [lookup] at h
    by_cases hi : e'.id = i
    · simp [hi] at h
    · simp only [hi, if_false] at h
      cases List.mem_cons.1 he with
      | inl h1 => rw [h1]; exact hi
      | inr h1 => exact lookup_none h e h1

theorem lookup_some {i : Nat} {e : MaxEntry} : ∀ {d : List MaxEntry}, lookup i d = some e → e ∈ d ∧ e.id = i
  | [], h => by simp [lookup] at h
  | e' :: es, h => by
    simp only [lookup] at h
    by_cases hi : e'.id = i
    · simp only [hi, if_true, Option.some.injEq] at h
      subst h
      exact ⟨by simp, hi⟩
    · simp only [hi, if_false] at h
      have := lookup_some h
      exact ⟨by simp [this.1], this.2⟩

theorem nodup_map_inj {α β : Type} (f : α → β) : ∀ {l : List α}, (l.map f).Nodup → ∀ {a b : α}, a ∈ l → b ∈ l →
    f a = f b → a = b
  | [], _, a, _, ha, _, _ => by simp at ha
  | x :: xs, h, a, b, ha, hb, hab => by
    simp only [List.map_cons, List.nodup_cons, List.mem_map, not_exists, not_and] at h
    cases List.mem_cons.1 ha with
    | inl ha1 =>
      cases List.mem_cons.1 hb with
      | inl hb1 => rw [ha1, hb1]
      | inr hb1 => exact absurd (by rw [← hab, ha1]) (h.1 b hb1)
    | inr ha1 =>
      cases List.mem_cons.1 hb with
      | inl hb1 => exact absurd (by rw [hab, hb1]) (h.1 a ha1)
      | inr hb1 => exact nodup_map_inj f h.2 ha1 hb1 hab

/-- `for k, (_, goal) in max_smt_goals.items(): max_smt_goals_backtrack[k].append(len(goal.soft))` -/
theorem pushBt_spec (heap : Tab (List (Nat × Nat))) : ∀ (d : List MaxEntry) (bt : Tab (List Nat)),
    (d.map (·.id)).Nodup →
    (∀ e ∈ d, pushBt heap d bt e.id = (heap e.addr).length :: bt e.id) ∧
    (∀ j, (∀ e ∈ d, e.id ≠ j) → pushBt heap d bt j = bt j)
  | [], bt, _ => by simp [pushBt]
  | e :: es, bt, hn => by
    simp only [List.map_cons, List.nodup_cons, List.mem_map, not_exists, not_and] at hn
    obtain ⟨ih1, ih2⟩ := pushBt_spec heap es (upd bt e.id ((heap e.addr).length :: bt e.id)) hn.2
    constructor
    · intro e' he'
      cases List.mem_cons.1 he' with
      | inl h1 =>
        subst h1
        simp only [pushBt]
        rw [ih2 e'.id (fun x hx hxe => hn.1 x hx hxe)]
        simp
      | inr h1 =>
        simp only [pushBt]
        rw [ih1 e' h1, upd_other]
        intro hc
        exact hn.1 e' h1 hc
    · intro j hj
      simp only [pushBt]
      rw [ih2 j (fun x hx => hj x (by simp [hx])), upd_other]
      exact fun hc => hj e (by simp) hc.symm

/-- the loop over `max_smt_goals.items()` in the `pop` branch -/
theorem popLoop_spec (glen : Nat) : ∀ (d : List MaxEntry) (bt : Tab (List Nat)) (h : Tab (List (Nat × Nat))),
    (d.map (·.id)).Nodup → (d.map (·.addr)).Nodup → (∀ e ∈ d, e.pos < glen → bt e.id ≠ []) →
    ∃ bt' h', popLoop glen d bt h = .ok (bt', h') ∧
      (∀ e ∈ d, e.pos < glen → bt' e.id = (bt e.id).tail ∧ h' e.addr = (h e.addr).take ((bt e.id).headD 0)) ∧
      (∀ j, (∀ e ∈ d, e.pos < glen → e.id ≠ j) → bt' j = bt j) ∧
      (∀ a, (∀ e ∈ d, e.pos < glen → e.addr ≠ a) → h' a = h a)
  | [], bt, h, _, _, _ => ⟨bt, h, by simp [popLoop]⟩
  | e :: es, bt, h, hn, ha, hne => by
    simp only [List.map_cons, List.nodup_cons, List.mem_map, not_exists, not_and] at hn ha
    by_cases hp : e.pos ≥ glen
    · obtain ⟨bt', h', hr, h1, h2, h3⟩ := popLoop_spec glen es bt h hn.2 ha.2
        (fun x hx => hne x (by simp [hx]))
      refine ⟨bt', h', by simp [popLoop, hp, hr], ?_, ?_, ?_⟩
      · intro x hx hxp
        cases List.mem_cons.1 hx with
        | inl hx1 => subst hx1; omega
        | inr hx1 => exact h1 x hx1 hxp
      · exact fun j hj => h2 j (fun x hx => hj x (by simp [hx]))
      · exact fun a hj => h3 a (fun x hx => hj x (by simp [hx]))
    · have hp' : e.pos < glen := by omega
      cases hb : bt e.id with
      | nil => exact absurd hb (hne e (by simp) hp')
      | cons l r =>
        obtain ⟨bt', h', hr, h1, h2, h3⟩ := popLoop_spec glen es (upd bt e.id r)
          (upd h e.addr ((h e.addr).take l)) hn.2 ha.2 (by
            intro x hx hxp
            rw [upd_other]
            · exact hne x (by simp [hx]) hxp
            · exact fun hc => hn.1 x hx hc)
        refine ⟨bt', h', by simp [popLoop, hp, hb, hr], ?_, ?_, ?_⟩
        · intro x hx hxp
          cases List.mem_cons.1 hx with
          | inl hx1 =>
            subst hx1
            rw [h2 x.id (fun y hy _ => hn.1 y hy), h3 x.addr (fun y hy _ => ha.1 y hy)]
            simp [hb]
          | inr hx1 =>
            have hid : x.id ≠ e.id := fun hc => hn.1 x hx1 hc
            have had : x.addr ≠ e.addr := fun hc => ha.1 x hx1 hc
            have := h1 x hx1 hxp
            rw [upd_other _ _ hid, upd_other _ _ had] at this
            exact this
        · intro j hj
          rw [h2 j (fun x hx => hj x (by simp [hx])), upd_other]
          exact fun hc => hj e (by simp) hp' hc.symm
        · intro a hj
          rw [h3 a (fun x hx => hj x (by simp [hx])), upd_other]
          exact fun hc => hj e (by simp) hp' hc.symm

theorem delKeys_spec : ∀ (ks : List Nat) (bt : Tab (List Nat)) (j : Nat),
    delKeys ks bt j = if j ∈ ks then [] else bt j
  | [], bt, j => by simp [delKeys]
  | k :: ks, bt, j => by
    simp only [delKeys]
    rw [delKeys_spec ks (upd bt k []) j]
    by_cases hj : j ∈ ks
    · simp [hj]
    · by_cases hk : j = k
      · simp [hk]
      · simp [hj, hk, upd_other _ _ hk]

/-! ### the simulation relation -/

/-- an element of `goals` against a slot of the specification -/
def Rel (d : List MaxEntry) : GRef → Slot → Prop
  | .obj g, .obj g' => g = g'
  | .max a, .max i => ∃ e ∈ d, e.id = i ∧ e.addr = a
  | _, _ => False

/-- the expected content of `max_smt_goals_backtrack[i]` -/
def btOf (i : Nat) (ps : List (List Item)) : List Nat :=
  (ps.map fun P => (softOf i P).length).filter (· ≠ 0)

structure SInv (s : Stack) (st : St) : Prop where
  nonempty : s ≠ []
  stack : st.stack = live s
  backtrack : st.backtrack = cumLens s
  goals : Forall₂ (Rel st.maxGoals) st.goals (slots (items s))
  goalsBt : st.goalsBt = (prefs s).map fun P => (slots P).length
  idsNodup : (st.maxGoals.map (·.id)).Nodup
  addrsNodup : (st.maxGoals.map (·.addr)).Nodup
  entry : ∀ e ∈ st.maxGoals, st.heap e.addr = softOf e.id (items s) ∧ softOf e.id (items s) ≠ [] ∧
    e.addr < st.next ∧ e.pos < st.goals.length
  complete : ∀ i, softOf i (items s) ≠ [] → ∃ e ∈ st.maxGoals, e.id = i
  posPref : ∀ e ∈ st.maxGoals, ∀ P ∈ prefs s, (e.pos < (slots P).length ↔ softOf e.id P ≠ [])
  maxBt : ∀ i, st.maxBt i = btOf i (prefs s)

theorem sinv_init (heap : Tab (List (Nat × Nat))) (next : Nat) :
    SInv init { St.init with heap := heap, next := next } := by
  refine ⟨by simp [init], ?_, ?_, ?_, ?_, ?_, ?_, ?_, ?_, ?_, ?_⟩
  · simp [St.init, live_init]
  · simp [St.init, init, cumLens]
  · simpa [St.init, items_init, slots, slotsFrom] using Forall₂.nil
  · simp [St.init, init, prefs]
  · simp [St.init]
  · simp [St.init]
  · simp [St.init]
  · simp [items_init, softOf]
  · simp [St.init]
  · simp [St.init, init, prefs, btOf]

theorem rel_mono {d d' : List MaxEntry} (h : ∀ e ∈ d, e ∈ d') {g : GRef} {sl : Slot} (hr : Rel d g sl) :
    Rel d' g sl := by
  cases g <;> cases sl <;> simp_all [Rel]
  obtain ⟨e, he, h1, h2⟩ := hr
  exact ⟨e, h e he, h1, h2⟩

/-- `assert f` -/
theorem sinv_assert {s : Stack} {st : St} (h : SInv s st) (f : Nat) :
    SInv (addItem (.assert f) s) { st with stack := st.stack ++ [f] } := by
  have hi := items_addItem (.assert f) s h.nonempty
  refine ⟨by cases s <;> simp [addItem], ?_, ?_, ?_, ?_, h.idsNodup, h.addrsNodup, ?_, ?_, ?_, ?_⟩
  · simp [h.stack, live_addItem_assert]
  · simp [h.backtrack, cumLens_addItem]
  · rw [hi, slots_assert]; exact h.goals
  · rw [prefs_addItem]; exact h.goalsBt
  · intro e he
    rw [hi, softOf_append, softOf_assert, List.append_nil]
    exact h.entry e he
  · intro i
    rw [hi, softOf_append, softOf_assert, List.append_nil]
    exact h.complete i
  · rw [prefs_addItem]; exact h.posPref
  · rw [prefs_addItem]; exact h.maxBt

/-- `maximize`, `minimize`, … -/
theorem sinv_objective {s : Stack} {st : St} (h : SInv s st) (g : Nat) :
    SInv (addItem (.objective g) s) { st with goals := st.goals ++ [.obj g] } := by
  have hi := items_addItem (.objective g) s h.nonempty
  refine ⟨by cases s <;> simp [addItem], ?_, ?_, ?_, ?_, h.idsNodup, h.addrsNodup, ?_, ?_, ?_, ?_⟩
  · have : live (addItem (.objective g) s) = live s := by
      simp [live, hi, assertsOf]
    simp [h.stack, this]
  · simp [h.backtrack, cumLens_addItem]
  · rw [hi, slots_objective]
    exact forall₂_append h.goals (Forall₂.cons (by simp [Rel]) Forall₂.nil)
  · rw [prefs_addItem]; exact h.goalsBt
  · intro e he
    rw [hi, softOf_append, softOf_objective, List.append_nil]
    obtain ⟨h1, h2, h3, h4⟩ := h.entry e he
    exact ⟨h1, h2, h3, by simp; omega⟩
  · intro i
    rw [hi, softOf_append, softOf_objective, List.append_nil]
    exact h.complete i
  · rw [prefs_addItem]; exact h.posPref
  · rw [prefs_addItem]; exact h.maxBt

/-- `assert-soft` -/
theorem sinv_soft {s : Stack} {st : St} (h : SInv s st) (i f w : Nat) :
    SInv (addItem (.soft i f w) s) (softStep st i f w) := by
  have hi := items_addItem (.soft i f w) s h.nonempty
  have hne : addItem (.soft i f w) s ≠ [] := by cases s <;> simp [addItem]
  have hlive : live (addItem (.soft i f w) s) = live s := by simp [live, hi, assertsOf]
  unfold softStep
  cases hl : lookup i st.maxGoals with
  | none =>
    -- a new goal object, a new dictionary entry, a new element of `goals`
    have hnone := lookup_none hl
    have hsoft : softOf i (items s) = [] := by
      apply Classical.byContradiction
      intro hc
      obtain ⟨e, he, hei⟩ := h.complete i hc
      exact hnone e he hei
    have hlen : st.goals.length = (slots (items s)).length := forall₂_length h.goals
    simp only
    refine ⟨hne, ?_, ?_, ?_, ?_, ?_, ?_, ?_, ?_, ?_, ?_⟩
    · simp [h.stack, hlive]
    · simp [h.backtrack, cumLens_addItem]
    · rw [hi, slots_soft_new _ _ _ _ hsoft]
      refine forall₂_append (forall₂_imp h.goals fun a b _ hr => rel_mono (fun e he => by simp [he]) hr) ?_
      exact Forall₂.cons ⟨⟨i, st.goals.length, st.next⟩, by simp, rfl, rfl⟩ Forall₂.nil
    · rw [prefs_addItem]; exact h.goalsBt
    · simp only [List.map_append, List.map_cons, List.map_nil]
      rw [List.nodup_append]
      refine ⟨h.idsNodup, by simp, ?_⟩
      intro a ha b hb
      simp only [List.mem_map] at ha
      obtain ⟨e, he, rfl⟩ := ha
      simp only [List.mem_cons, List.not_mem_nil, or_false] at hb
      subst hb
      exact hnone e he
    · simp only [List.map_append, List.map_cons, List.map_nil]
      rw [List.nodup_append]
      refine ⟨h.addrsNodup, by simp, ?_⟩
      intro a ha b hb
      simp only [List.mem_map] at ha
      obtain ⟨e, he, rfl⟩ := ha
      simp only [List.mem_cons, List.not_mem_nil, or_false] at hb
      subst hb
      have := (h.entry e he).2.2.1
      omega
    · intro e he
      dsimp only at he ⊢
      rw [hi, softOf_append]
      cases List.mem_append.1 he with
      | inl he1 =>
        obtain ⟨h1, h2, h3, h4⟩ := h.entry e he1
        have hid : e.id ≠ i := hnone e he1
        rw [softOf_soft_other _ _ (fun hc => hid hc.symm), List.append_nil, upd_other _ _ (by omega)]
        exact ⟨h1, h2, by omega, by simp; omega⟩
      | inr he1 =>
        simp only [List.mem_cons, List.not_mem_nil, or_false] at he1
        subst he1
        simp [hsoft, softOf_soft_same]
    · intro j hj
      rw [hi, softOf_append] at hj
      by_cases hji : j = i
      · exact ⟨⟨i, st.goals.length, st.next⟩, by simp, hji.symm⟩
      · rw [softOf_soft_other _ _ (fun hc => hji hc.symm), List.append_nil] at hj
        obtain ⟨e, he, hej⟩ := h.complete j hj
        exact ⟨e, by simp [he], hej⟩
    · rw [prefs_addItem]
      intro e he P hP
      cases List.mem_append.1 he with
      | inl he1 => exact h.posPref e he1 P hP
      | inr he1 =>
        simp only [List.mem_cons, List.not_mem_nil, or_false] at he1
        subst he1
        obtain ⟨t, ht⟩ := prefs_prefix s P hP
        have h1 : (slots P).length ≤ (slots (items s)).length := by rw [ht]; exact slots_length_le P t
        have h2 : softOf i P = [] := by rw [ht] at hsoft; exact softOf_nil_of_append hsoft
        simp only [h2, ne_eq, not_true_eq_false, iff_false]
        omega
    · rw [prefs_addItem]; exact h.maxBt
  | some e =>
    obtain ⟨he, hei⟩ := lookup_some hl
    obtain ⟨h1, h2, h3, h4⟩ := h.entry e he
    have hsoft : softOf i (items s) ≠ [] := by rw [← hei]; exact h2
    have hlen1 : ¬ (st.heap e.addr ++ [(f, w)]).length = 1 := by
      rw [h1]
      have : (softOf e.id (items s)).length ≠ 0 := by simpa using h2
      simp; omega
    simp only [hlen1, if_false]
    refine ⟨hne, ?_, ?_, ?_, ?_, h.idsNodup, h.addrsNodup, ?_, ?_, ?_, ?_⟩
    · simp [h.stack, hlive]
    · simp [h.backtrack, cumLens_addItem]
    · rw [hi, slots_soft_old _ _ _ _ hsoft]; exact h.goals
    · rw [prefs_addItem]; exact h.goalsBt
    · intro e' he'
      dsimp only at he' ⊢
      rw [hi, softOf_append]
      obtain ⟨g1, g2, g3, g4⟩ := h.entry e' he'
      by_cases hee : e' = e
      · subst hee
        rw [hei, softOf_soft_same, upd_same, h1, hei]
        exact ⟨rfl, by simp, g3, g4⟩
      · have hid : e'.id ≠ e.id := fun hc => hee (nodup_map_inj (·.id) h.idsNodup he' he hc)
        have had : e'.addr ≠ e.addr := fun hc => hee (nodup_map_inj (·.addr) h.addrsNodup he' he hc)
        rw [softOf_soft_other _ _ (fun hc => hid (by rw [hei, hc])), List.append_nil, upd_other _ _ had]
        exact ⟨g1, g2, g3, g4⟩
    · intro j hj
      rw [hi, softOf_append] at hj
      by_cases hji : j = i
      · exact ⟨e, he, by rw [hei, hji]⟩
      · rw [softOf_soft_other _ _ (fun hc => hji hc.symm), List.append_nil] at hj
        exact h.complete j hj
    · rw [prefs_addItem]; exact h.posPref
    · rw [prefs_addItem]; exact h.maxBt

theorem btOf_cons (i : Nat) (P : List Item) (ps : List (List Item)) :
    btOf i (P :: ps) = if softOf i P = [] then btOf i ps else (softOf i P).length :: btOf i ps := by
  by_cases h : softOf i P = []
  · simp [btOf, h]
  · have : (softOf i P).length ≠ 0 := by simpa using h
    simp [btOf, h, this]

theorem btOf_nil (i : Nat) (ps : List (List Item)) (h : ∀ P ∈ ps, softOf i P = []) : btOf i ps = [] := by
  induction ps with
  | nil => simp [btOf]
  | cons P ps ih =>
    rw [btOf_cons, if_pos (h P (by simp))]
    exact ih fun Q hQ => h Q (by simp [hQ])

/-- one iteration of the `push` loop -/
theorem sinv_push {s : Stack} {st : St} (h : SInv s st) : SInv ([] :: s) (pushOnce st) := by
  have hlen : st.goals.length = (slots (items s)).length := forall₂_length h.goals
  obtain ⟨hb1, hb2⟩ := pushBt_spec st.heap st.maxGoals st.maxBt h.idsNodup
  refine ⟨by simp, ?_, ?_, ?_, ?_, h.idsNodup, h.addrsNodup, ?_, ?_, ?_, ?_⟩
  · simp [pushOnce, live_nil_level, h.stack]
  · simp [pushOnce, cumLens_push1 s h.nonempty, h.stack, h.backtrack]
  · rw [items_nil_level]; exact h.goals
  · simp [pushOnce, prefs_push1 s h.nonempty, hlen, h.goalsBt]
  · rw [items_nil_level]; exact h.entry
  · rw [items_nil_level]; exact h.complete
  · rw [prefs_push1 s h.nonempty]
    intro e he P hP
    cases List.mem_cons.1 hP with
    | inl hP1 =>
      subst hP1
      obtain ⟨_, h2, _, h4⟩ := h.entry e he
      simp only [h2, ne_eq, not_false_eq_true, iff_true]
      omega
    | inr hP1 => exact h.posPref e he P hP1
  · intro i
    rw [prefs_push1 s h.nonempty, btOf_cons]
    show pushBt st.heap st.maxGoals st.maxBt i = _
    by_cases hex : ∃ e ∈ st.maxGoals, e.id = i
    · obtain ⟨e, he, hei⟩ := hex
      obtain ⟨h1, h2, _, _⟩ := h.entry e he
      rw [← hei, hb1 e he, h1, if_neg h2, h.maxBt]
    · have hno : ∀ e ∈ st.maxGoals, e.id ≠ i := fun e he hc => hex ⟨e, he, hc⟩
      have hs : softOf i (items s) = [] := by
        apply Classical.byContradiction
        intro hc
        exact hex (h.complete i hc)
      rw [hb2 i hno, if_pos hs, h.maxBt]

/-- which entries survive one iteration of the `pop` loop -/
theorem kept_iff {d : List MaxEntry} (hn : (d.map (·.id)).Nodup) (glen : Nat) {e : MaxEntry} (he : e ∈ d) :
    (!((d.filter fun e => decide (e.pos ≥ glen)).map (·.id)).contains e.id) = true ↔ e.pos < glen := by
  simp only [Bool.not_eq_true', List.contains_eq_mem, decide_eq_false_iff_not, List.mem_map, List.mem_filter,
    decide_eq_true_eq, not_exists, not_and, and_imp]
  constructor
  · intro h
    apply Classical.byContradiction
    intro hc
    exact h e he (by omega) rfl
  · intro h e' he' hp hid
    have := nodup_map_inj (·.id) hn he' he hid
    subst this
    omega

/-- one iteration of the `pop` loop -/
theorem sinv_pop {l l' : List Item} {ls : Stack} {st : St} (h : SInv (l :: l' :: ls) st) :
    ∃ st', popOnce st = .ok st' ∧ SInv (l' :: ls) st' := by
  -- names for the spec side
  have hits : items (l :: l' :: ls) = items (l' :: ls) ++ l := items_cons l (l' :: ls)
  have hprefs : prefs (l :: l' :: ls) = items (l' :: ls) :: prefs (l' :: ls) := rfl
  have hPmem : items (l' :: ls) ∈ prefs (l :: l' :: ls) := by simp [hprefs]
  have hbt : st.backtrack = (live (l' :: ls)).length :: cumLens (l' :: ls) := by rw [h.backtrack]; rfl
  have hgbt : st.goalsBt = (slots (items (l' :: ls))).length :: (prefs (l' :: ls)).map fun P => (slots P).length := by
    rw [h.goalsBt, hprefs]; rfl
  have hlen : st.goals.length = (slots (items (l :: l' :: ls))).length := forall₂_length h.goals
  have hle : (slots (items (l' :: ls))).length ≤ st.goals.length := by
    rw [hlen, hits]; exact slots_length_le _ _
  have htake : (st.goals.take (slots (items (l' :: ls))).length).length = (slots (items (l' :: ls))).length := by
    simp [List.length_take]; omega
  have hbtval : ∀ i, st.maxBt i = btOf i (items (l' :: ls) :: prefs (l' :: ls)) := by
    intro i; rw [h.maxBt i, hprefs]
  -- the loop over the dictionary
  obtain ⟨bt', h', hr, hk1, hk2, hk3⟩ := popLoop_spec (slots (items (l' :: ls))).length st.maxGoals st.maxBt
    st.heap h.idsNodup h.addrsNodup (by
      intro e he hp
      have := (h.posPref e he _ hPmem).1 hp
      rw [hbtval, btOf_cons, if_neg this]
      simp)
  refine ⟨_, by simp only [popOnce, hbt, hgbt, htake, hr]; rfl, ?_⟩
  -- surviving entries
  have hkept : ∀ e, e ∈ st.maxGoals.filter (fun e => !((st.maxGoals.filter fun e =>
      decide (e.pos ≥ (slots (items (l' :: ls))).length)).map (·.id)).contains e.id) ↔
      e ∈ st.maxGoals ∧ e.pos < (slots (items (l' :: ls))).length := by
    intro e
    rw [List.mem_filter]
    constructor
    · exact fun ⟨he, hk⟩ => ⟨he, (kept_iff h.idsNodup _ he).1 hk⟩
    · exact fun ⟨he, hk⟩ => ⟨he, (kept_iff h.idsNodup _ he).2 hk⟩
  refine ⟨by simp, ?_, ?_, ?_, ?_, ?_, ?_, ?_, ?_, ?_, ?_⟩
  · -- stack
    show st.stack.take _ = _
    rw [h.stack, live_cons l (l' :: ls), List.take_left']
    rfl
  · rfl
  · -- goals
    show Forall₂ _ (st.goals.take _) _
    have := forall₂_take h.goals (slots (items (l' :: ls))).length
    rw [hits, slots_take] at this
    refine forall₂_imp this ?_
    intro a b hb hrel
    cases a with
    | obj g =>
      cases b with
      | obj g' => simpa [Rel] using hrel
      | max i => simp [Rel] at hrel
    | max a =>
      cases b with
      | obj g => simp [Rel] at hrel
      | max i =>
        simp only [Rel] at hrel ⊢
        obtain ⟨e, he, hei, hea⟩ := hrel
        refine ⟨e, (hkept e).2 ⟨he, ?_⟩, hei, hea⟩
        have := (mem_slots i _).1 hb
        rw [← hei] at this
        exact (h.posPref e he _ hPmem).2 this
  · rfl
  · exact List.Nodup.sublist (List.Sublist.map _ List.filter_sublist) h.idsNodup
  · exact List.Nodup.sublist (List.Sublist.map _ List.filter_sublist) h.addrsNodup
  · -- entries
    intro e he
    obtain ⟨he1, hp⟩ := (hkept e).1 he
    obtain ⟨g1, g2, g3, g4⟩ := h.entry e he1
    have hs := (h.posPref e he1 _ hPmem).1 hp
    obtain ⟨k1, k2⟩ := hk1 e he1 hp
    refine ⟨?_, hs, g3, ?_⟩
    · show h' e.addr = _
      rw [k2, g1, hits, softOf_append, hbtval, btOf_cons, if_neg hs]
      simp
    · show e.pos < (st.goals.take _).length
      rw [htake]; exact hp
  · -- completeness
    intro i hi
    have : softOf i (items (l :: l' :: ls)) ≠ [] := by
      rw [hits, softOf_append]; simp [hi]
    obtain ⟨e, he, hei⟩ := h.complete i this
    refine ⟨e, (hkept e).2 ⟨he, ?_⟩, hei⟩
    rw [← hei] at hi
    exact (h.posPref e he _ hPmem).2 hi
  · intro e he P hP
    exact h.posPref e ((hkept e).1 he).1 P (by simp [hprefs, hP])
  · -- max_smt_goals_backtrack
    intro i
    show delKeys _ bt' i = _
    rw [delKeys_spec]
    by_cases hex : ∃ e ∈ st.maxGoals, e.id = i
    · obtain ⟨e, he, hei⟩ := hex
      by_cases hp : e.pos < (slots (items (l' :: ls))).length
      · have hnot : i ∉ (st.maxGoals.filter fun e => decide (e.pos ≥ (slots (items (l' :: ls))).length)).map (·.id) := by
          have := (kept_iff h.idsNodup (slots (items (l' :: ls))).length he).2 hp
          simpa [hei] using this
        rw [if_neg hnot, ← hei, (hk1 e he hp).1, hbtval, btOf_cons, if_neg ((h.posPref e he _ hPmem).1 hp)]
        rfl
      · have hin : i ∈ (st.maxGoals.filter fun e => decide (e.pos ≥ (slots (items (l' :: ls))).length)).map (·.id) := by
          simp only [List.mem_map, List.mem_filter, decide_eq_true_eq]
          exact ⟨e, ⟨he, by omega⟩, hei⟩
        rw [if_pos hin]
        have hs : softOf i (items (l' :: ls)) = [] := by
          have := (h.posPref e he _ hPmem)
          rw [hei] at this
          apply Classical.byContradiction
          intro hc
          exact hp (this.2 hc)
        symm
        apply btOf_nil
        intro Q hQ
        obtain ⟨t, ht⟩ := prefs_prefix (l' :: ls) Q hQ
        rw [ht] at hs
        exact softOf_nil_of_append hs
    · have hno : ∀ e ∈ st.maxGoals, e.id ≠ i := fun e he hc => hex ⟨e, he, hc⟩
      have hnot : i ∉ (st.maxGoals.filter fun e => decide (e.pos ≥ (slots (items (l' :: ls))).length)).map (·.id) := by
        simp only [List.mem_map, List.mem_filter, not_exists, not_and, and_imp]
        exact fun e he _ hc => hno e he hc
      have hs : softOf i (items (l' :: ls)) = [] := by
        apply Classical.byContradiction
        intro hc
        have : softOf i (items (l :: l' :: ls)) ≠ [] := by rw [hits, softOf_append]; simp [hc]
        exact hex (h.complete i this)
      rw [if_neg hnot, hk2 i (fun e he _ => hno e he), hbtval, btOf_cons, if_pos hs]

theorem sinv_pushN : ∀ (n : Nat) {s : Stack} {st : St}, SInv s st → SInv (List.replicate n [] ++ s) (pushN n st)
  | 0, _, _, h => by simpa [pushN] using h
  | n + 1, s, st, h => by
    have := sinv_pushN n (sinv_push h)
    simp only [pushN]
    have e : List.replicate (n + 1) ([] : List Item) ++ s = List.replicate n [] ++ ([] :: s) := by
      rw [List.replicate_succ', List.append_assoc]; rfl
    rw [e]; exact this

theorem sinv_popN : ∀ (n : Nat) {s : Stack} {st : St}, SInv s st → n < s.length →
    ∃ st', popN n st = .ok st' ∧ SInv (s.drop n) st'
  | 0, _, st, h, _ => ⟨st, rfl, by simpa using h⟩
  | n + 1, [], _, _, hn => by simp at hn
  | n + 1, [_], _, _, hn => by simp at hn
  | n + 1, l :: l' :: ls, st, h, hn => by
    obtain ⟨st1, h1, i1⟩ := sinv_pop h
    obtain ⟨st2, h2, i2⟩ := sinv_popN n i1 (by simp at hn ⊢; omega)
    exact ⟨st2, by simp [popN, h1, h2], by simpa using i2⟩

theorem sinv_step {s : Stack} {st : St} (h : SInv s st) (c : Cmd) (hl : legal s c = true) :
    ∃ st', Script.step st c = .ok st' ∧ SInv (AssertStack.step s c) st' := by
  cases c with
  | assert f => exact ⟨_, rfl, sinv_assert h f⟩
  | objective g => exact ⟨_, rfl, sinv_objective h g⟩
  | soft i f w => exact ⟨_, rfl, sinv_soft h i f w⟩
  | push n => exact ⟨_, rfl, sinv_pushN n h⟩
  | pop n =>
    simp only [legal, decide_eq_true_eq] at hl
    exact sinv_popN n h hl
  | reset => exact ⟨_, rfl, sinv_init st.heap st.next⟩
  | check => exact ⟨_, rfl, h⟩
  | other => exact ⟨_, rfl, h⟩

theorem sinv_runFrom : ∀ (cs : List Cmd) (s s' : Stack) (st : St), SInv s st →
    AssertStack.runFrom s cs = some s' → ∃ st', Script.runFrom st cs = .ok st' ∧ SInv s' st'
  | [], s, s', st, h, hr => by
    simp only [AssertStack.runFrom, Option.some.injEq] at hr
    subst hr
    exact ⟨st, rfl, h⟩
  | c :: cs, s, s', st, h, hr => by
    simp only [AssertStack.runFrom] at hr
    by_cases hl : legal s c = true
    · simp only [hl, if_true] at hr
      obtain ⟨st1, h1, i1⟩ := sinv_step h c hl
      obtain ⟨st2, h2, i2⟩ := sinv_runFrom cs _ s' st1 i1 hr
      exact ⟨st2, by simp [Script.runFrom, h1, h2], i2⟩
    · simp [hl] at hr

/-- what the replay loop returns in a related state -/
theorem sinv_result {s : Stack} {st : St} (h : SInv s st) : st.result = (live s, liveGoals s) := by
  unfold St.result liveGoals goalsOf
  rw [h.stack]
  congr 1
  refine forall₂_map_eq _ _ h.goals ?_
  intro a b hr
  cases a with
  | obj g =>
    cases b with
    | obj g' => simp only [Rel] at hr; simp [resolve, fill, hr]
    | max i => simp [Rel] at hr
  | max a =>
    cases b with
    | obj g => simp [Rel] at hr
    | max i =>
      simp only [Rel] at hr
      obtain ⟨e, he, hei, hea⟩ := hr
      simp only [resolve, fill]
      rw [← hea, ← hei, (h.entry e he).1]

/-- **The replay loop of `get_last_formula` computes the live assertions and the live goals**, for every command
    list that is legal in SMT-LIB (no bound on its length, on the numbers of levels pushed and popped at once, or on
    the identifiers). -/
theorem lastFormula_refines (cs : List Cmd) (s : Stack) (h : AssertStack.run cs = some s) :
    lastFormula cs = .ok (live s, liveGoals s) := by
  obtain ⟨st, h1, i1⟩ := sinv_runFrom cs init s St.init (sinv_init _ _) h
  simp [lastFormula, h1, sinv_result i1]

/-! ### `get_strict_formula` -/

theorem strict_runFrom : ∀ (cs : List Cmd) (s : Stack), s ≠ [] → cs.any isStackCmd = false →
    ∃ s', AssertStack.runFrom s cs = some s' ∧ live s' = live s ++ assertsOfCmds cs
  | [], s, _, _ => ⟨s, rfl, by simp [assertsOfCmds]⟩
  | c :: cs, s, hs, hc => by
    simp only [List.any_cons, Bool.or_eq_false_iff] at hc
    have hne : AssertStack.step s c ≠ [] := by
      cases c <;> cases s <;> simp_all [AssertStack.step, addItem, isStackCmd]
    obtain ⟨s', h1, h2⟩ := strict_runFrom cs (AssertStack.step s c) hne hc.2
    have hl : legal s c = true := by cases c <;> simp_all [legal, isStackCmd]
    refine ⟨s', by simp [AssertStack.runFrom, hl, h1], ?_⟩
    rw [h2]
    cases c with
    | assert f => simp [AssertStack.step, live_addItem_assert, assertsOfCmds]
    | objective g =>
      have : live (addItem (.objective g) s) = live s := by
        simp [live, items_addItem _ s hs, assertsOf]
      simp [AssertStack.step, this, assertsOfCmds]
    | soft i f w =>
      have : live (addItem (.soft i f w) s) = live s := by
        simp [live, items_addItem _ s hs, assertsOf]
      simp [AssertStack.step, this, assertsOfCmds]
    | push n => simp [isStackCmd] at hc
    | pop n => simp [isStackCmd] at hc
    | reset => simp [isStackCmd] at hc
    | check => simp [AssertStack.step, assertsOfCmds]
    | other => simp [AssertStack.step, assertsOfCmds]

/-! ### exactness: an illegal script is never silently accepted -/

theorem sinv_backtrack_base {l : List Item} {st : St} (h : SInv [l] st) : st.backtrack = [] := by
  rw [h.backtrack]; rfl

theorem popN_illegal : ∀ (n : Nat) {s : Stack} {st : St}, SInv s st → ¬ n < s.length →
    popN n st = .error .indexError
  | 0, s, _, h, hn => by
    have := h.nonempty
    cases s with
    | nil => exact absurd rfl this
    | cons _ _ => simp at hn
  | n + 1, [], _, h, _ => absurd rfl h.nonempty
  | n + 1, [l], st, h, _ => by
    simp [popN, popOnce, sinv_backtrack_base h]
  | n + 1, l :: l' :: ls, st, h, hn => by
    obtain ⟨st1, h1, i1⟩ := sinv_pop h
    have := popN_illegal n i1 (by simp at hn ⊢; omega)
    simp [popN, h1, this]

theorem sinv_runFrom_illegal : ∀ (cs : List Cmd) (s : Stack) (st : St), SInv s st →
    AssertStack.runFrom s cs = none → Script.runFrom st cs = .error .indexError
  | [], s, st, _, hr => by simp [AssertStack.runFrom] at hr
  | c :: cs, s, st, h, hr => by
    simp only [AssertStack.runFrom] at hr
    by_cases hl : legal s c = true
    · simp only [hl, if_true] at hr
      obtain ⟨st1, h1, i1⟩ := sinv_step h c hl
      simp [Script.runFrom, h1, sinv_runFrom_illegal cs _ st1 i1 hr]
    · cases c with
      | pop n =>
        simp only [legal, decide_eq_true_eq] at hl
        simp [Script.runFrom, Script.step, popN_illegal n h hl]
      | _ => simp [legal] at hl

/-- on a script that is illegal in SMT-LIB the replay loop raises `IndexError` (and nothing else) -/
theorem lastFormula_illegal (cs : List Cmd) (h : AssertStack.run cs = none) :
    lastFormula cs = .error .indexError := by
  simp [lastFormula, sinv_runFrom_illegal cs init St.init (sinv_init _ _) h]

end PySMT.Proofs.C16
