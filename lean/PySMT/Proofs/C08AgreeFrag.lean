import PySMT.Proofs.C08AgreeAtom
import PySMT.Proofs.C08AgreeOps
import PySMT.Proofs.C08AgreeSort
import PySMT.Impl.PrinterHyp
/-!
# C08/C09 agreement: the fragment of texts (`FragS`), decidable

Everything the two readers provably read to the same term (after `mkNorm`):
* atoms: numerals, decimals, `#b…`, `#x…`, names; string literals without escapes (`strFine`: printable ASCII, no `\`);
* `(f args…)` for the theory symbols `fragOps` with the arities `arityOK` (`=> xor = distinct / < <= > >=` and the
  bit-vector operators that pySMT builds with a binary constructor: exactly two arguments; `(- t)` only for a numeric
  constant `t`; `and or + * bvand bvor bvadd bvmul concat str.++`: any number), `((_ extract i j) t)`,
  `((_ zero_extend k) t)`, `((_ sign_extend k) t)`, `((_ repeat k) t)`, `((_ rotate_left k) t)`, `((_ rotate_right k) t)`
  (for the rotations the agreement theorem has the side condition `RotOK`, `Proofs/C08AgreeRot.lean`: `k` is at most the
  width of `t` — pySMT refuses larger rotations, the standard does not), `((as const σ) t)`, `(_ bvN w)` with `N < 2^w`,
  and applications of declared functions;
* `(let ((x t)…) body)` (simultaneous), `(forall|exists ((x σ)…) body)`: bound names are not spelled like literals (F16b)
  and not like declared sorts (the parser keeps both in one cache); binder sorts are plain sorts (`FragSort`); every
  binder `(x σ)` agrees with the name ↦ symbol assignment `ρ` of the formula manager (one name, one sort).

Not in the fragment (hence not covered by the agreement theorem): `bvsmod` (own encoding), n-ary `=> = distinct - / < <= > >=
bvxor`, annotations `(! t …)`, `(as x σ)`, parametric sorts, `div mod abs`, `str.to_int`/`str.from_int` (F11 spellings),
applications of `define-fun`s (F17).
-/
namespace PySMT.Parser.Agree
open PySMT PySMT.Parser PySMT.Std PySMT.Sexp

def isNumLit : Sexp → Bool
  | .atom tok => (numeral? tok).isSome || (decimal? tok).isSome
  | _ => false

def isNonzeroLit : Sexp → Bool
  | .atom tok =>
    (match numeral? tok with
     | some n => n != 0
     | none => (match decimal? tok with | some q => q != 0 | none => false))
  | _ => false

/-- the argument of a unary minus: a numeral, a decimal, or the quotient of two of them with a non-zero divisor -/
def minusArgOK : Sexp → Bool
  | .atom tok => isNumLit (.atom tok)
  | .list [.atom hd, a, b] => hd == "/" && isNumLit a && isNonzeroLit b
  | _ => false

def minusOK (f : String) (args : List Sexp) : Bool :=
  match args with
  | [a] => f != "-" || minusArgOK a
  | _ => true

/-- `(_ bvN w)`: the value fits the width (pySMT raises an error otherwise, the standard reduces it) -/
def bvLitOK : List Sexp → Bool
  | [.atom lit, .atom w] =>
    (match bvLiteral? lit, numeral? w with
     | some v, some k => decide (v < 2 ^ k)
     | _, _ => true)
  | _ => true

/-- the head of an application that is itself a list: an indexed operator or `(as const σ)` -/
def fragHead : List Sexp → Bool
  | [.atom u, .atom f, .atom _, .atom _] => u == "_" && f == "extract"
  | [.atom u, .atom f, x] =>
    (u == "_" && (f == "zero_extend" || f == "sign_extend" || f == "repeat" || f == "rotate_left" || f == "rotate_right")
        && (match x with | .atom _ => true | _ => false))
      || (u == "as" && symName? f == some "const" && FragSort x)
  | _ => false

/-- the head of an application of a declared function: a symbol that is not a theory symbol -/
def userHead (hd : String) : Bool :=
  match symName? hd with
  | some n => !theorySymbols.contains n
  | none => false

/-- the sorted variables of a binder: names that can be bound, plain sorts, the manager's sort for the name -/
def fragVars (env : SEnv) (ρ : List (String × Sym)) : List Sexp → Bool
  | [] => true
  | .list [.atom x, sort] :: rest =>
    (match symName? x with
     | some n =>
       bindNameOK env n && FragSort sort &&
         (match sortStd env sort with
          | .ok ty => ρ.lookup n == some (Sym.var n ty)
          | .error _ => true)
     | none => false) && fragVars env ρ rest
  | _ :: _ => false

def letNameOK (env : SEnv) (x : String) : Bool :=
  match symName? x with
  | some n => bindNameOK env n
  | none => false

mutual
def FragS (env : SEnv) (ρ : List (String × Sym)) : Sexp → Bool
  | .atom _ => true
  | .str lit => Printer.strFine lit
  | .list [] => false
  | .list (.atom hd :: args) =>
    if hd == "let" then fragLet env ρ args
    else if hd == "forall" || hd == "exists" then fragQuant env ρ args
    else if hd == "_" then bvLitOK args
    else if fragOps.contains hd then arityOK hd args.length && minusOK hd args && FragL env ρ args
    else userHead hd && FragL env ρ args
  | .list (.list hd :: args) => fragHead hd && FragL env ρ args
  | .list (.str _ :: _) => false
def FragL (env : SEnv) (ρ : List (String × Sym)) : List Sexp → Bool
  | [] => true
  | s :: r => FragS env ρ s && FragL env ρ r
def fragLet (env : SEnv) (ρ : List (String × Sym)) : List Sexp → Bool
  | [] => false
  | bs :: rest => fragLetB env ρ bs && fragBody env ρ rest
def fragLetB (env : SEnv) (ρ : List (String × Sym)) : Sexp → Bool
  | .list bs => fragBinds env ρ bs
  | _ => false
def fragBody (env : SEnv) (ρ : List (String × Sym)) : List Sexp → Bool
  | [body] => FragS env ρ body
  | _ => false
def fragBinds (env : SEnv) (ρ : List (String × Sym)) : List Sexp → Bool
  | [] => true
  | b :: rest => fragBind env ρ b && fragBinds env ρ rest
def fragBind (env : SEnv) (ρ : List (String × Sym)) : Sexp → Bool
  | .list [.atom x, e] => letNameOK env x && FragS env ρ e
  | _ => false
def fragQuant (env : SEnv) (ρ : List (String × Sym)) : List Sexp → Bool
  | [] => false
  | vs :: rest => (match vs with | .list l => fragVars env ρ l | _ => false) && fragBody env ρ rest
end

end PySMT.Parser.Agree
