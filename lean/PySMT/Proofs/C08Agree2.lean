import PySMT.Proofs.C08Agree1
/-!
# C08/C09 agreement, operator families 2: arithmetic (`+ * - / <= < >= > to_real`)

`-` with one argument is covered for numeric constants only (`(- 5)`, `(- 1.5)`, `(- (/ 1.0 3.0))`: the standard reads
`(- t)` as `0 - t`, pySMT as `-1 * t`: same meaning, different term). `/` includes pySMT's constant folding and
`Div` by a constant (`mkNorm`).
-/
namespace PySMT.Parser.Agree
open PySMT PySMT.Parser PySMT.Std PySMT.Sexp

/-! ## manager calls -/

theorem call_plus (ts : List Term) : Mk.call "Plus" (ts.map .t) = Mk.Plus ts := by
  simp [Mk.call, Sound.termArgs_map, bind, Except.bind]
theorem call_times (ts : List Term) : Mk.call "Times" (ts.map .t) = Mk.Times ts := by
  simp [Mk.call, Sound.termArgs_map, bind, Except.bind]
theorem call_minus (a b : Term) : Mk.call "Minus" [.t a, .t b] = Mk.Minus a b := by simp [Mk.call, Mk.asTerm]
theorem call_div (a b : Term) : Mk.call "Div" [.t a, .t b] = Mk.Div a b := by simp [Mk.call, Mk.asTerm]
theorem call_le (a b : Term) : Mk.call "LE" [.t a, .t b] = Mk.LE a b := by simp [Mk.call, Mk.asTerm]
theorem call_lt (a b : Term) : Mk.call "LT" [.t a, .t b] = Mk.LT a b := by simp [Mk.call, Mk.asTerm]
theorem call_ge (a b : Term) : Mk.call "GE" [.t a, .t b] = Mk.GE a b := by simp [Mk.call, Mk.asTerm]
theorem call_gt (a b : Term) : Mk.call "GT" [.t a, .t b] = Mk.GT a b := by simp [Mk.call, Mk.asTerm]
theorem call_toreal (a : Term) : Mk.call "ToReal" [.t a] = Mk.ToReal a := by simp [Mk.call, Mk.asTerm]

theorem callMgr_plus (ts : List Term) : callMgr "Plus" ts = liftMk (Mk.Plus ts) := by
  simp [callMgr, mgrArity, call_plus]
theorem callMgr_times (ts : List Term) : callMgr "Times" ts = liftMk (Mk.Times ts) := by
  simp [callMgr, mgrArity, call_times]
theorem callMgr_minus (a b : Term) : callMgr "Minus" [a, b] = liftMk (Mk.Minus a b) := by
  simp [callMgr, mgrArity, call_minus]
theorem callMgr_div (a b : Term) : callMgr "Div" [a, b] = liftMk (Mk.Div a b) := by
  simp [callMgr, mgrArity, call_div]
theorem callMgr_le (a b : Term) : callMgr "LE" [a, b] = liftMk (Mk.LE a b) := by simp [callMgr, mgrArity, call_le]
theorem callMgr_lt (a b : Term) : callMgr "LT" [a, b] = liftMk (Mk.LT a b) := by simp [callMgr, mgrArity, call_lt]
theorem callMgr_ge (a b : Term) : callMgr "GE" [a, b] = liftMk (Mk.GE a b) := by simp [callMgr, mgrArity, call_ge]
theorem callMgr_gt (a b : Term) : callMgr "GT" [a, b] = liftMk (Mk.GT a b) := by simp [callMgr, mgrArity, call_gt]
theorem callMgr_toreal (a : Term) : callMgr "ToReal" [a] = liftMk (Mk.ToReal a) := by
  simp [callMgr, mgrArity, call_toreal]

/-! ## `+`, `*` -/

theorem arithTy_inv {as : List TT} {t : Ty} (h : arithTy as = .ok t) :
    (t = .int ∨ t = .real) ∧ ∀ a ∈ as, a.2 = t := by
  unfold arithTy at h
  split at h
  · split at h
    · rename_i hc; cases h; exact ⟨Or.inl rfl, allTy_iff.mp hc⟩
    · cases h
  · split at h
    · rename_i hc; cases h; exact ⟨Or.inr rfl, allTy_iff.mp hc⟩
    · cases h
  · cases h

theorem tyNode_sum (op : Op) (hop : op = .plus ∨ op = .times ∨ op = .minus ∨ op = .div) (as : List TT) (t : Ty)
    (ht : t = .int ∨ t = .real) (hne : as ≠ []) (hall : ∀ a ∈ as, a.2 = t) :
    C03.tyNode op .none (as.map (·.2)) = some t := by
  have hA := allAre_snd hall
  match as, hne with
  | a :: rest, _ =>
    have ha : a.2 = t := hall a (by simp)
    rcases ht with rfl | rfl
    · have hnr : allAre (((a :: rest).map (·.2)).map some) .real = false := by
        simp [allAre, ha]
      rcases hop with rfl | rfl | rfl | rfl <;> simp only [C03.tyNode, hnr, hA, if_true, Bool.false_eq_true, if_false]
    · rcases hop with rfl | rfl | rfl | rfl <;> simp only [C03.tyNode, hA, if_true]

theorem ag_plus (as : List TT) (u : Term) (τ : Ty) (hargs : ∀ a ∈ as, TOK (mkNorm a.1) a.2)
    (hstd : applyTheory "+" as = .ok (u, τ)) : Agrees (.fixReal "Plus") as u τ := by
  simp only [applyTheory] at hstd
  split at hstd
  · rename_i hc
    simp only [decide_eq_true_eq, ge_iff_le] at hc
    cases hat : arithTy as with
    | error e => simp [hat, Except.map] at hstd
    | ok t =>
      simp only [hat, Except.map, Except.ok.injEq, Prod.mk.injEq, beq_self_eq_true, if_true] at hstd
      obtain ⟨rfl, rfl⟩ := hstd
      obtain ⟨ht, hall⟩ := arithTy_inv hat
      have hne : as ≠ [] := by intro h; subst h; simp at hc
      have hty : typeOfNode .plus .none ((nargs as).map Term.typeOf) = some t := by
        rw [tyNode_of (nargs_typeOf hargs), tyNode_sum .plus (Or.inl rfl) as t ht hne hall]
      have hn : mkNorm (Std.node .plus as) = .node .plus (nargs as) .none := by
        simp only [Std.node]
        rw [mkNorm_plain _ _ _ (by decide) (by decide) (by decide), map_fst_norm]
      unfold Agrees
      rw [hn]
      have hsh : Op.shapeOK .plus .none (nargs as).length = true := by
        rw [nargs_length]; simpa [Op.shapeOK] using hc
      refine ⟨?_, tok_node hty (nargs_wf hargs) hsh (by intro w hw; rcases ht with rfl | rfl <;> cases hw)⟩
      rw [applyFn_fixReal]
      have h2 : 2 ≤ (nargs as).length := by rw [nargs_length]; exact hc
      have : callMgr "Plus" (nargs as) = .ok (.node .plus (nargs as) .none) := by
        rw [callMgr_plus]
        match hna : nargs as, h2 with
        | a :: b :: rest, _ =>
          rw [hna] at hty
          simp only [Mk.Plus, create_ok hty]; rfl
      rw [fixReal_ok this]; rfl
  · cases hstd

theorem ag_times (as : List TT) (u : Term) (τ : Ty) (hargs : ∀ a ∈ as, TOK (mkNorm a.1) a.2)
    (hstd : applyTheory "*" as = .ok (u, τ)) : Agrees (.fixReal "Times") as u τ := by
  simp only [applyTheory] at hstd
  split at hstd
  · rename_i hc
    simp only [decide_eq_true_eq, ge_iff_le] at hc
    cases hat : arithTy as with
    | error e => simp [hat, Except.map] at hstd
    | ok t =>
      have hne' : ("*" == "+") = false := by decide
      simp only [hat, Except.map, Except.ok.injEq, Prod.mk.injEq, hne', Bool.false_eq_true, if_false] at hstd
      obtain ⟨rfl, rfl⟩ := hstd
      obtain ⟨ht, hall⟩ := arithTy_inv hat
      have hne : as ≠ [] := by intro h; subst h; simp at hc
      have hty : typeOfNode .times .none ((nargs as).map Term.typeOf) = some t := by
        rw [tyNode_of (nargs_typeOf hargs), tyNode_sum .times (Or.inr (Or.inl rfl)) as t ht hne hall]
      have hn : mkNorm (Std.node .times as) = .node .times (nargs as) .none := by
        simp only [Std.node]
        rw [mkNorm_plain _ _ _ (by decide) (by decide) (by decide), map_fst_norm]
      unfold Agrees
      rw [hn]
      have hsh : Op.shapeOK .times .none (nargs as).length = true := by
        rw [nargs_length]; simpa [Op.shapeOK] using hc
      refine ⟨?_, tok_node hty (nargs_wf hargs) hsh (by intro w hw; rcases ht with rfl | rfl <;> cases hw)⟩
      rw [applyFn_fixReal]
      have h2 : 2 ≤ (nargs as).length := by rw [nargs_length]; exact hc
      have : callMgr "Times" (nargs as) = .ok (.node .times (nargs as) .none) := by
        rw [callMgr_times]
        match hna : nargs as, h2 with
        | a :: b :: rest, _ =>
          rw [hna] at hty
          simp only [Mk.Times, create_ok hty]; rfl
      rw [fixReal_ok this]; rfl
  · cases hstd

/-! ## `-` -/

theorem special_minus : ("_minus_or_uminus" == "_minus_or_uminus") = true := by decide

theorem ag_minus2 (a b : TT) (u : Term) (τ : Ty) (ha : TOK (mkNorm a.1) a.2) (hb : TOK (mkNorm b.1) b.2)
    (hstd : applyTheory "-" [a, b] = .ok (u, τ)) : Agrees (.special "_minus_or_uminus") [a, b] u τ := by
  simp only [applyTheory, leftFold, List.foldlM_cons, List.foldlM_nil, bind, Except.bind, pure, Except.pure] at hstd
  cases hs : arithSub a b with
  | error e => simp [hs] at hstd
  | ok r =>
    simp only [hs, Except.ok.injEq] at hstd
    subst hstd
    unfold arithSub at hs
    split at hs
    · rename_i hc
      simp only [Bool.and_eq_true, Bool.or_eq_true, beq_iff_eq] at hc
      cases hs
      have ht : a.2 = .int ∨ a.2 = .real := hc.2
      have hty : typeOfNode .minus .none ([mkNorm a.1, mkNorm b.1].map Term.typeOf) = some a.2 := by
        rw [tys2 ha hb]
        have := tyNode_sum .minus (Or.inr (Or.inr (Or.inl rfl))) [a, b] a.2 ht (by simp)
          (by intro x hx; simp at hx; rcases hx with rfl | rfl; rfl; exact hc.1.symm)
        rw [C03.typeOfNode_eq_tyNode]; exact this
      have hn : mkNorm (Std.node .minus [a, b]) = .node .minus [mkNorm a.1, mkNorm b.1] .none := by
        simp only [Std.node, List.map_cons, List.map_nil]
        rw [mkNorm_plain _ _ _ (by decide) (by decide) (by decide)]; rfl
      unfold Agrees
      rw [hn]
      refine ⟨?_, tok_node hty (wf2 ha.wf hb.wf) rfl (by intro w hw; rcases ht with h | h <;> rw [h] at hw <;> cases hw)⟩
      rw [applyFn_special]
      simp only [nargs_cons, nargs_nil, applySpecial, special_minus, if_true]
      rw [fixReal_ok (t := .node .minus [mkNorm a.1, mkNorm b.1] .none)
        (by rw [callMgr_minus]; simp only [Mk.Minus, create_ok hty]; rfl)]; rfl
    · cases hs

theorem typeOf_int (n : Int) : (Term.int n).typeOf = some .int := by rw [Term.int, typeOf_node]; rfl
theorem typeOf_real (q : Rat) : (Term.real q).typeOf = some .real := by rw [Term.real, typeOf_node]; rfl
theorem wf_int (n : Int) : (Term.int n).wf = true := by
  rw [Term.int]; exact Term.wf_node.mpr ⟨by simp, rfl, rfl⟩
theorem wf_real (q : Rat) : (Term.real q).wf = true := by
  rw [Term.real]; exact Term.wf_node.mpr ⟨by simp, rfl, rfl⟩
theorem tok_int (n : Int) : TOK (Term.int n) .int := ⟨typeOf_int n, wf_int n, nobw_int⟩
theorem tok_real (q : Rat) : TOK (Term.real q) .real := ⟨typeOf_real q, wf_real q, nobw_real⟩
theorem mkNorm_int (n : Int) : mkNorm (Term.int n) = Term.int n := by
  rw [Term.int, mkNorm_plain _ _ _ (by decide) (by decide) (by decide)]; rfl
theorem mkNorm_real (q : Rat) : mkNorm (Term.real q) = Term.real q := by
  rw [Term.real, mkNorm_plain _ _ _ (by decide) (by decide) (by decide)]; rfl

/-- unary minus of a numeric constant -/
theorem ag_minus1 (a : TT) (u : Term) (τ : Ty) (hc : (isNumConst a.1).isSome = true)
    (hstd : applyTheory "-" [a] = .ok (u, τ)) : Agrees (.special "_minus_or_uminus") [a] u τ := by
  simp only [applyTheory] at hstd
  obtain ⟨a1, a2⟩ := a
  simp only at hc hstd
  unfold isNumConst at hc hstd
  split at hc
  · rename_i n
    simp only at hstd
    cases hstd
    unfold Agrees
    rw [mkNorm_int]
    refine ⟨?_, tok_int _⟩
    rw [applyFn_special]
    have h1 : mkNorm (.node .intConst [] (.i n)) = Term.int n := mkNorm_int n
    simp only [nargs_cons, nargs_nil, applySpecial, special_minus, if_true, h1, typeOf_int, beq_self_eq_true]
    rfl
  · rename_i r
    simp only at hstd
    cases hstd
    unfold Agrees
    rw [mkNorm_real]
    refine ⟨?_, tok_real _⟩
    rw [applyFn_special]
    have h1 : mkNorm (.node .realConst [] (.q r)) = Term.real r := mkNorm_real r
    have h2 : ((Term.real r).typeOf == some Ty.int) = false := by rw [typeOf_real]; rfl
    simp only [nargs_cons, nargs_nil, applySpecial, special_minus, if_true, h1, h2, Bool.false_eq_true, if_false]
    rfl
  · simp at hc

/-! ## `to_real` -/

theorem mkToReal_eq (a : Term) (ha : TOK a .int) : Mk.ToReal a = .ok (toRealNorm a) ∧ TOK (toRealNorm a) .real := by
  have hty : typeOfNode .toReal .none ([a].map Term.typeOf) = some .real := by
    simp only [List.map_cons, List.map_nil, ha.ty]; rfl
  by_cases h : ∃ n, a = .node .intConst [] (.i n)
  · obtain ⟨n, rfl⟩ := h
    have : (Term.node .intConst [] (.i n)).typeOf = some .int := ha.ty
    simp only [Mk.ToReal, this, toRealNorm, Mk.RealC]
    exact ⟨trivial, tok_real _⟩
  · have h1 : toRealNorm a = .node .toReal [a] .none := by
      unfold toRealNorm
      split
      · exact absurd ⟨_, rfl⟩ h
      · rfl
    have h2 : Mk.ToReal a = Mk.create .toReal [a] := by
      unfold Mk.ToReal
      rw [ha.ty]
      simp only
      split
      · exact absurd ⟨_, rfl⟩ h
      · rfl
    rw [h1, h2]
    exact ⟨create_ok hty, tok_node hty (wf1 ha.wf) rfl nobw_real⟩

theorem ag_toreal (as : List TT) (u : Term) (τ : Ty) (hargs : ∀ a ∈ as, TOK (mkNorm a.1) a.2)
    (hstd : applyTheory "to_real" as = .ok (u, τ)) : Agrees (.mgr "ToReal") as u τ := by
  simp only [applyTheory] at hstd
  split at hstd
  · rename_i a
    split at hstd
    · rename_i hb
      cases hstd
      have ha := hargs a (by simp)
      have hb' : a.2 = .int := by simpa using hb
      rw [hb'] at ha
      obtain ⟨h1, h2⟩ := mkToReal_eq _ ha
      have hn : mkNorm (Std.node .toReal [a]) = toRealNorm (mkNorm a.1) := by
        simp only [Std.node, List.map_cons, List.map_nil]
        rw [mkNorm_node]; rfl
      unfold Agrees
      rw [hn]
      refine ⟨?_, h2⟩
      rw [applyFn_mgr]
      simp only [nargs_cons, nargs_nil, callMgr_toreal, h1]; rfl
    · cases hstd
  · cases hstd

/-! ## `<= < >= >` (two arguments) -/

theorem tyNode_rel (op : Op) (hop : op = .le ∨ op = .lt) (t : Ty) (ht : t = .int ∨ t = .real) :
    C03.tyNode op .none [t, t] = some .bool := by
  rcases ht with rfl | rfl <;> rcases hop with rfl | rfl <;> simp [C03.tyNode, allAre]

/-- the common part of the four relations -/
theorem rel_step (op : Op) (hop : op = .le ∨ op = .lt) (x y : TT) (t : Ty) (ht : t = .int ∨ t = .real)
    (hx : TOK (mkNorm x.1) x.2) (hy : TOK (mkNorm y.1) y.2) (hxt : x.2 = t) (hyt : y.2 = t) :
    Mk.create op [mkNorm x.1, mkNorm y.1] = .ok (.node op [mkNorm x.1, mkNorm y.1] .none) ∧
    mkNorm (Std.node op [x, y]) = .node op [mkNorm x.1, mkNorm y.1] .none ∧
    TOK (.node op [mkNorm x.1, mkNorm y.1] .none) .bool := by
  have hty : typeOfNode op .none ([mkNorm x.1, mkNorm y.1].map Term.typeOf) = some .bool := by
    rw [tys2 hx hy, hxt, hyt, C03.typeOfNode_eq_tyNode, tyNode_rel op hop t ht]
  refine ⟨create_ok hty, ?_, tok_node hty (wf2 hx.wf hy.wf) (by rcases hop with rfl | rfl <;> rfl) nobw_bool⟩
  simp only [Std.node, List.map_cons, List.map_nil]
  rw [mkNorm_plain _ _ _ (by rcases hop with rfl | rfl <;> decide) (by rcases hop with rfl | rfl <;> decide)
    (by rcases hop with rfl | rfl <;> decide)]; rfl

theorem rel_inv {f : String} {a b : TT} {u : Term} {τ : Ty} (hf : f = "<=" ∨ f = "<" ∨ f = ">=" ∨ f = ">")
    (hstd : applyTheory f [a, b] = .ok (u, τ)) :
    ∃ t, (t = .int ∨ t = .real) ∧ a.2 = t ∧ b.2 = t ∧ τ = .bool ∧
      u = (let op : Op := if f == "<=" || f == ">=" then .le else .lt
           if f == ">=" || f == ">" then Std.node op [b, a] else Std.node op [a, b]) := by
  have key : applyTheory f [a, b] =
      (arithTy [a, b]).map (fun _ =>
        let op : Op := if f == "<=" || f == ">=" then .le else .lt
        let swap := f == ">=" || f == ">"
        (conj ((chainPairs [a, b]).map (fun p => if swap then Std.node op [p.2, p.1] else Std.node op [p.1, p.2])), .bool)) := by
    rcases hf with rfl | rfl | rfl | rfl <;> simp [applyTheory]
  rw [key] at hstd
  cases hat : arithTy [a, b] with
  | error e => simp [hat, Except.map] at hstd
  | ok t =>
    obtain ⟨ht, hall⟩ := arithTy_inv hat
    simp only [hat, Except.map, chainPairs, List.map_cons, List.map_nil, conj, Except.ok.injEq, Prod.mk.injEq] at hstd
    refine ⟨t, ht, hall a (by simp), hall b (by simp), hstd.2.symm, ?_⟩
    rw [← hstd.1]

theorem ag_le (a b : TT) (u : Term) (τ : Ty) (ha : TOK (mkNorm a.1) a.2) (hb : TOK (mkNorm b.1) b.2)
    (hstd : applyTheory "<=" [a, b] = .ok (u, τ)) : Agrees (.fixReal "LE") [a, b] u τ := by
  obtain ⟨t, ht, hat, hbt, rfl, rfl⟩ := rel_inv (Or.inl rfl) hstd
  obtain ⟨h1, h2, h3⟩ := rel_step .le (Or.inl rfl) a b t ht ha hb hat hbt
  unfold Agrees
  simp (config := { decide := true }) only [if_true, if_false]
  rw [h2]
  refine ⟨?_, h3⟩
  rw [applyFn_fixReal]
  simp only [nargs_cons, nargs_nil]
  rw [fixReal_ok (t := .node .le [mkNorm a.1, mkNorm b.1] .none) (by rw [callMgr_le]; simp only [Mk.LE, h1]; rfl)]; rfl

theorem ag_lt (a b : TT) (u : Term) (τ : Ty) (ha : TOK (mkNorm a.1) a.2) (hb : TOK (mkNorm b.1) b.2)
    (hstd : applyTheory "<" [a, b] = .ok (u, τ)) : Agrees (.fixReal "LT") [a, b] u τ := by
  obtain ⟨t, ht, hat, hbt, rfl, rfl⟩ := rel_inv (Or.inr (Or.inl rfl)) hstd
  obtain ⟨h1, h2, h3⟩ := rel_step .lt (Or.inr rfl) a b t ht ha hb hat hbt
  unfold Agrees
  simp (config := { decide := true }) only [if_true, if_false]
  rw [h2]
  refine ⟨?_, h3⟩
  rw [applyFn_fixReal]
  simp only [nargs_cons, nargs_nil]
  rw [fixReal_ok (t := .node .lt [mkNorm a.1, mkNorm b.1] .none) (by rw [callMgr_lt]; simp only [Mk.LT, h1]; rfl)]; rfl

theorem ag_ge (a b : TT) (u : Term) (τ : Ty) (ha : TOK (mkNorm a.1) a.2) (hb : TOK (mkNorm b.1) b.2)
    (hstd : applyTheory ">=" [a, b] = .ok (u, τ)) : Agrees (.fixReal "GE") [a, b] u τ := by
  obtain ⟨t, ht, hat, hbt, rfl, rfl⟩ := rel_inv (Or.inr (Or.inr (Or.inl rfl))) hstd
  obtain ⟨h1, h2, h3⟩ := rel_step .le (Or.inl rfl) b a t ht hb ha hbt hat
  unfold Agrees
  simp (config := { decide := true }) only [if_true, if_false]
  rw [h2]
  refine ⟨?_, h3⟩
  rw [applyFn_fixReal]
  simp only [nargs_cons, nargs_nil]
  rw [fixReal_ok (t := .node .le [mkNorm b.1, mkNorm a.1] .none) (by rw [callMgr_ge]; simp only [Mk.GE, h1]; rfl)]; rfl

theorem ag_gt (a b : TT) (u : Term) (τ : Ty) (ha : TOK (mkNorm a.1) a.2) (hb : TOK (mkNorm b.1) b.2)
    (hstd : applyTheory ">" [a, b] = .ok (u, τ)) : Agrees (.fixReal "GT") [a, b] u τ := by
  obtain ⟨t, ht, hat, hbt, rfl, rfl⟩ := rel_inv (Or.inr (Or.inr (Or.inr rfl))) hstd
  obtain ⟨h1, h2, h3⟩ := rel_step .lt (Or.inr rfl) b a t ht hb ha hbt hat
  unfold Agrees
  simp (config := { decide := true }) only [if_true, if_false]
  rw [h2]
  refine ⟨?_, h3⟩
  rw [applyFn_fixReal]
  simp only [nargs_cons, nargs_nil]
  rw [fixReal_ok (t := .node .lt [mkNorm b.1, mkNorm a.1] .none) (by rw [callMgr_gt]; simp only [Mk.GT, h1]; rfl)]; rfl

end PySMT.Parser.Agree
