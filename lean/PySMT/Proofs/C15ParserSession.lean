import PySMT.Proofs.C15ParserRefine2
/-!
# C15, parser objects — the session theorems (`get_script` after a failure, `get_command` after a failure)

* `getScript_new`: `get_script` reads nothing of the parser object but the environment's formula manager
  (`_reset` replaces every other component of the state) — so after a failing `get_script` the next one behaves as on a
  new parser object of the *same environment* (`parser_fail_reset`).
* `sameCore`/`getCommands_core`: the journal a command finds is irrelevant (`checkpoint` clears it).
* `command_fail_probe_eq`: after a failing command every later sequence of commands on the same parser object returns
  what it returns on the state before the failing command, given the formula manager (and the annotation store) the
  failing command left.
* the witnesses: history dependence through the formula manager (F43 and its symbol-table variant), the leak of
  pending bindings without `rollback` (F42).
-/
namespace PySMT.ParserSession
open PySMT.Parser PySMT.Gen.ParserOps

theorem reset_eq_new (st : St) : st.reset = newParser st.mgr := rfl

theorem new_reset (σ : MgrSt) : (newParser σ).reset = newParser σ := rfl

/-- **`get_script` depends on the parser object only through its environment.** -/
theorem getScript_new (lc : Bool) (st : St) (cs : List Sexp) : getScript lc st cs = getScript lc (newParser st.mgr) cs := by
  unfold getScript
  rw [reset_eq_new, new_reset]

/-- the outcome of `get_script` as a function of the state of the environment's formula manager -/
def scriptOn (lc : Bool) (σ : MgrSt) (cs : List Sexp) : Except Err (List Command × List (Term × String × Option Sexp)) :=
  (getScript lc (newParser σ) cs).1

theorem getScript_scriptOn (lc : Bool) (st : St) (cs : List Sexp) : (getScript lc st cs).1 = scriptOn lc st.mgr cs := by
  rw [getScript_new]; rfl

/-! ## the journal is irrelevant at the start of a command -/

/-- equal up to the journal -/
def sameCore (a b : St) : Prop := a.checkpoint = b.checkpoint

theorem sameCore.refl (a : St) : sameCore a a := rfl

theorem cmdS_core (lc : Bool) (a b : St) (h : sameCore a b) (c : Sexp) :
    (cmdS lc a c).1 = (cmdS lc b c).1 ∧ sameCore (cmdS lc a c).2 (cmdS lc b c).2 := by
  unfold cmdS
  split
  · split
    · rw [show a.checkpoint = b.checkpoint from h]
      exact ⟨rfl, rfl⟩
    · exact ⟨rfl, h⟩
  · exact ⟨rfl, h⟩

theorem getCommands_core (lc : Bool) : ∀ (cs : List Sexp) (a b : St), sameCore a b →
    (getCommands lc a cs).1 = (getCommands lc b cs).1 ∧ sameCore (getCommands lc a cs).2 (getCommands lc b cs).2 := by
  intro cs
  induction cs with
  | nil => intro a b h; exact ⟨rfl, h⟩
  | cons c rest ih =>
    intro a b h
    obtain ⟨h1, h2⟩ := cmdS_core lc a b h c
    simp only [getCommands]
    rcases ha : cmdS lc a c with ⟨ra, sa⟩
    rcases hb : cmdS lc b c with ⟨rb, sb⟩
    rw [ha, hb] at h1 h2
    dsimp only at h1 h2
    subst h1
    cases ra with
    | error e => exact ⟨rfl, h2⟩
    | ok k =>
      obtain ⟨h3, h4⟩ := ih sa sb h2
      dsimp only
      rw [h3]
      exact ⟨rfl, h4⟩

/-- **After a failing command, later commands read the same meanings.** The state the failing command leaves is the
state before it, except for the formula manager and the annotation store (and an empty journal). -/
theorem cmdS_fail_core (lc : Bool) (st : St) (c : Sexp) (e : Err) (st' : St) (h : cmdS lc st c = (.error e, st')) :
    sameCore st' { st with mgr := st'.mgr, annots := st'.annots } := by
  obtain ⟨hk, hia, _⟩ := cmdS_fail_restores lc st c e st' h
  cases st'
  cases st
  simp only [sameCore, St.checkpoint] at *
  simp [hk, hia]

theorem command_fail_probe_eq (lc : Bool) (st : St) (c : Sexp) (e : Err) (st' : St)
    (h : cmdS lc st c = (.error e, st')) (cs : List Sexp) :
    (getCommands lc st' cs).1 = (getCommands lc { st with mgr := st'.mgr, annots := st'.annots } cs).1 :=
  (getCommands_core lc cs _ _ (cmdS_fail_core lc st c e st' h)).1

/-- … in particular, when the failing command created no symbol and stored no annotation, exactly what they return
without the failing command -/
theorem command_fail_probe_eq_pure (lc : Bool) (st : St) (c : Sexp) (e : Err) (st' : St)
    (h : cmdS lc st c = (.error e, st')) (hm : st'.mgr = st.mgr) (ha : st'.annots = st.annots) (cs : List Sexp) :
    (getCommands lc st' cs).1 = (getCommands lc st cs).1 := by
  rw [command_fail_probe_eq lc st c e st' h cs, hm, ha]

/-! ## a failing command after a prefix of successful ones -/

theorem getCommands_append (lc : Bool) : ∀ (pre : List Sexp) (st0 : St) (cs : List Sexp),
    (getCommands lc st0 pre).1.err = none →
    getCommands lc st0 (pre ++ cs) =
      (⟨(getCommands lc st0 pre).1.cmds ++ (getCommands lc (getCommands lc st0 pre).2 cs).1.cmds,
        (getCommands lc (getCommands lc st0 pre).2 cs).1.err⟩, (getCommands lc (getCommands lc st0 pre).2 cs).2) := by
  intro pre
  induction pre with
  | nil => intro st0 cs _; rfl
  | cons c pre ih =>
    intro st0 cs h
    simp only [List.cons_append, getCommands] at h ⊢
    rcases hc : cmdS lc st0 c with ⟨_ | k, st1⟩
    · rw [hc] at h; cases h
    · rw [hc] at h
      dsimp only at h ⊢
      rw [ih st1 cs h]
      rfl

/-- the generator stops at the failing command, in the state `cmdS` leaves -/
theorem getCommands_fail_here (lc : Bool) (st : St) (c : Sexp) (rest : List Sexp) (e : Err) (st' : St)
    (h : cmdS lc st c = (.error e, st')) : getCommands lc st (c :: rest) = (⟨[], some e⟩, st') := by
  simp only [getCommands, h]

/-- **A command that fails after any prefix of successful commands**: the generator stops with the binding stacks and
the logic the prefix left. -/
theorem fail_after_prefix (lc : Bool) (st0 : St) (pre : List Sexp) (c : Sexp) (rest : List Sexp)
    (hpre : (getCommands lc st0 pre).1.err = none) (e : Err) (st' : St)
    (hfail : cmdS lc (getCommands lc st0 pre).2 c = (.error e, st')) :
    (getCommands lc st0 (pre ++ c :: rest)).1.err = some e ∧
    (getCommands lc st0 (pre ++ c :: rest)).2 = st' ∧
    st'.keys = (getCommands lc st0 pre).2.keys ∧ st'.intArith = (getCommands lc st0 pre).2.intArith := by
  rw [getCommands_append lc pre st0 (c :: rest) hpre, getCommands_fail_here lc _ c rest e st' hfail]
  obtain ⟨hk, hia, _⟩ := cmdS_fail_restores lc _ c e st' hfail
  exact ⟨rfl, rfl, hk, hia⟩

/-! ## witnesses -/

namespace Ex
def a (s : String) : Sexp := .atom s
def l (xs : List Sexp) : Sexp := .list xs

/-- `(declare-fun y () Int)` -/
def declY : Sexp := l [a "declare-fun", a "y", l [], a "Int"]
/-- `(assert (let ((y 1)) (let ((y 2)) (let ((x y)) zz))))`: `y` is declared and re-bound twice, the body fails under
three open binders -/
def bad : Sexp :=
  l [a "assert", l [a "let", l [l [a "y", a "1"]], l [a "let", l [l [a "y", a "2"]], l [a "let", l [l [a "x", a "y"]], a "zz"]]]]
/-- `(get-value (y))` -/
def probe : Sexp := l [a "get-value", l [a "y"]]

/-- the term a `get-value` probe returns -/
def probeTerm (r : Outcome × St) : Option Term :=
  match r.1.cmds with
  | [.terms _ [t]] => some t
  | _ => none

/-- the parser object after `(declare-fun y () Int)` -/
def st1 : St := (getCommands true (newParser {}) [declY]).2

/-- `(assert (forall ((w Int)) zz))` -/
def badQ : Sexp := l [a "assert", l [a "forall", l [l [a "w", a "Int"]], a "zz"]]
/-- `(declare-fun w () Real)` -/
def declW : Sexp := l [a "declare-fun", a "w", l [], a "Real"]
/-- `(define-fun g ((z Int)) Int (zz))` -/
def badD : Sexp := l [a "define-fun", a "g", l [l [a "z", a "Int"]], a "Int", l [a "zz"]]

def isOk {α : Type} : Except Err α → Bool
  | .ok _ => true
  | .error _ => false

def errOf {α : Type} : Except Err α → Option Err
  | .ok _ => none
  | .error e => some e
end Ex

open Ex in
/-- the failing command fails, under three open binders, two of which re-bind the declared `y` … -/
theorem ex_bad_fails : (cmdS true st1 bad).1.toBool = false ∧
    (cmdNoRollbackS true st1 bad).2.keys.map (·.1) = ["x", "y", "2", "y", "1", "y", "true", "false"] ∧
    (cmdNoRollbackS true st1 bad).2.bound = ["x", "y", "2", "y", "1"] := by
  decide +kernel

open Ex in
/-- … `rollback` gives back the stacks as they were (this is what `command_fail_rollback` says in general) … -/
theorem ex_bad_restored : (cmdS true st1 bad).2.keys.map (·.1) = st1.keys.map (·.1) ∧
    (cmdS true st1 bad).2.keys.map (·.1) = ["y", "true", "false"] := by
  decide +kernel

open Ex in
/-- … and the probe reads the declared symbol again; without the rollback (the code before 30febd7, F42) it read the
innermost re-binding, the numeral 2 -/
theorem ex_probe : probeTerm (getCommands true (cmdS true st1 bad).2 [probe]) = some (Term.var "y" .int) ∧
    probeTerm (getCommands true st1 [probe]) = some (Term.var "y" .int) ∧
    probeTerm (getCommands true (cmdNoRollbackS true st1 bad).2 [probe]) = some (Term.int 2) := by
  decide +kernel

open Ex in
/-- **The unrestricted version of `parser_fail_reset` is false**: the failing script `(assert (forall ((w Int)) zz))`
leaves the symbol `w : Int` in the environment's formula manager, so the next script `(declare-fun w () Real)` is a type
error, while on a parser of an environment that never saw the failing script it is accepted. -/
theorem ex_history_dependence :
    isOk (getScript true (newParser {}) [badQ]).1 = false ∧
    errOf (getScript true (getScript true (newParser {}) [badQ]).2 [declW]).1 = some .type ∧
    isOk (getScript true (newParser {}) [declW]).1 = true := by
  decide +kernel

open Ex in
/-- F43: a failing `define-fun` has advanced the fresh-name counter and created `__z0` -/
theorem ex_fresh_counter :
    isOk (getScript true (newParser {}) [badD]).1 = false ∧
    (getScript true (newParser {}) [badD]).2.mgr.fresh = 1 ∧
    (getScript true (newParser {}) [badD]).2.mgr.symbols.map (·.1) = ["__z0"] := by
  decide +kernel

end PySMT.ParserSession
