import PySMT.Proofs.C08AgreeMain
import PySMT.Proofs.C08NormSem
import PySMT.Proofs.C08AgreePEnv
/-!
# C08: the agreement theorem for `readTerm` / `readStd`, and its semantic form
-/
namespace PySMT.Parser.Agree
open PySMT PySMT.Parser PySMT.Std PySMT.Sexp

theorem readStd_rd (env : SEnv) (s : Sexp) (u : Term) (h : readStd env [] s = .ok u) : ∃ τ, rd env [] s = .ok (u, τ) := by
  simp only [readStd, readStdTy, List.reverse_nil, List.map_nil] at h
  cases hr : rd env [] s with
  | error e => simp [hr, Except.map] at h
  | ok r =>
    obtain ⟨u', τ⟩ := r
    simp only [hr, Except.map, Except.ok.injEq] at h
    subst h
    exact ⟨τ, rfl⟩

/-- **Agreement on the fragment.** In corresponding environments, whenever the standard reader accepts a text of the
fragment with result `u`, the parser model accepts it and returns `mkNorm u`: the standard's term up to the three
normalisations of `FormulaManager`'s constructors; pySMT's checker gives it a sort. -/
theorem readTerm_agree (env : SEnv) (ρ : List (String × Sym)) (Γ : PEnv) (hc : Corr env [] Γ) (hm : MgrLe Γ.mgr ρ)
    (s : Sexp) (hf : FragS env ρ s = true) (hro : RotOK env [] s = true) (u : Term) (h : readStd env [] s = .ok u) :
    readTerm Γ s = .ok (mkNorm u) ∧ (mkNorm u).wf = true ∧ ∃ τ, (mkNorm u).typeOf = some τ := by
  obtain ⟨τ, hr⟩ := readStd_rd env s u h
  obtain ⟨σ', hv, _, htok⟩ := agree env ρ s hf [] Γ true hc hm hro u τ hr
  refine ⟨?_, htok.wf, τ, htok.ty⟩
  simp only [readTerm, hv]

/-- the same with the state of the formula manager: it stays within `ρ` -/
theorem readTermSt_agree (env : SEnv) (ρ : List (String × Sym)) (Γ : PEnv) (hc : Corr env [] Γ) (hm : MgrLe Γ.mgr ρ)
    (s : Sexp) (hf : FragS env ρ s = true) (hro : RotOK env [] s = true) (u : Term) (h : readStd env [] s = .ok u) :
    ∃ σ', readTermSt Γ s = .ok (mkNorm u, σ') ∧ MgrLe σ' ρ := by
  obtain ⟨τ, hr⟩ := readStd_rd env s u h
  obtain ⟨σ', hv, hm', _⟩ := agree env ρ s hf [] Γ true hc hm hro u τ hr
  exact ⟨σ', by simp only [readTermSt, hv], hm'⟩

/-- **Soundness on the fragment** (semantic form): the term the parser returns has the sort and, under every well-formed
interpretation, the value of the standard's reading — provided the standard's reading is a well-formed pySMT term
(`Proofs/C08StdWF*.lean` proves that it always is, on the fragment). -/
theorem readTerm_sound_of_wf (env : SEnv) (ρ : List (String × Sym)) (Γ : PEnv) (hc : Corr env [] Γ) (hm : MgrLe Γ.mgr ρ)
    (s : Sexp) (hf : FragS env ρ s = true) (hro : RotOK env [] s = true) (u : Term) (h : readStd env [] s = .ok u)
    (hwf : u.wf = true) :
    ∃ t, readTerm Γ s = .ok t ∧ t.wf = true ∧ t.typeOf = u.typeOf ∧ ∀ I : Interp, I.WF → eval I t = eval I u :=
  ⟨mkNorm u, (readTerm_agree env ρ Γ hc hm s hf hro u h).1, (mkNorm_sem u hwf).1, (mkNorm_sem u hwf).2.1,
    (mkNorm_sem u hwf).2.2⟩

/-- "whenever both accept": the form of the property C08 -/
theorem readTerm_both_accept (env : SEnv) (ρ : List (String × Sym)) (Γ : PEnv) (hc : Corr env [] Γ) (hm : MgrLe Γ.mgr ρ)
    (s : Sexp) (hf : FragS env ρ s = true) (hro : RotOK env [] s = true) (t u : Term) (hpy : readTerm Γ s = .ok t)
    (hstd : readStd env [] s = .ok u) : t = mkNorm u := by
  have := (readTerm_agree env ρ Γ hc hm s hf hro u hstd).1
  rw [hpy] at this
  exact Except.ok.inj this

end PySMT.Parser.Agree
