import PySMT.Impl.Simp.Array
import PySMT.Proofs.SimpBuild
import PySMT.Proofs.SimpStr
import PySMT.Proofs.SimpArrayVal
import PySMT.Proofs.SimpFoldDefs
/-!
# `RuleOK` for the array rule family `walk_array_select`, `walk_array_store`, `walk_array_value`
on the instances with a scalar index sort (`ArrayRules.arrayGuard`, `ArrayRules.valueGuard`)

The array operand of every rule is an array-*value* node, whose meaning is a canonical store
chain (`arrayValue_spec`); the results are compared with `Val.CanonV.ext` (canonical values
with the same look-up function are equal). Distinct scalar constants denote distinct indices
(`const_inj`), which makes the look-up by key *term* of the rules the look-up by index *value*.
-/
namespace PySMT.Simp.ArrayRules
open PySMT PySMT.Build PySMT.Simp PySMT.Simp.BoolRules

/-! ## scalar constants -/

theorem scalarIdx_eq (idx : Ty) : scalarIdx idx = idx.scalar := by cases idx <;> rfl

theorem typeOf_arrayValue_inv {args : List Term} {q : Payload} {τ : Ty}
    (h : (Term.node .arrayValue args q).typeOf = some τ) :
    ∃ idx e d rest, q = .ty idx ∧ args = d :: rest ∧ d.typeOf = some e ∧
      typeOfNode.chk idx e (rest.map Term.typeOf) = true ∧ τ = .array idx e := by
  rw [typeOf_node] at h
  obtain ⟨idx, e, rest', rfl, hts, hc, rfl⟩ := typeOfNode_arrayValue h
  match args, hts with
  | d :: rest, hts =>
    simp only [List.map_cons, List.cons.injEq] at hts
    obtain ⟨h1, rfl⟩ := hts
    exact ⟨idx, e, d, rest, rfl, rfl, h1, hc, rfl⟩

theorem isConstant_nonarray' {op : Op} {args : List Term} {p : Payload} (h : op ≠ .arrayValue) :
    isConstant (.node op args p) = op.isConstant := by
  rw [isConstant.eq_def]
  cases op <;> first | rfl | exact absurd rfl h

/-- a constant (`is_constant()`) of a scalar sort is a scalar constant node -/
theorem isConstant_scalar {t : Term} {τ : Ty} (hty : t.typeOf = some τ) (hτ : τ.scalar = true)
    (hc : isConstant t = true) : IsConst t := by
  cases t with
  | node op args q =>
    by_cases hop : op = .arrayValue
    · subst hop
      obtain ⟨idx, e, d, rest, _, _, _, _, rfl⟩ := typeOf_arrayValue_inv hty
      cases hτ
    · rw [isConstant_nonarray' hop] at hc
      exact hc

/-- distinct well-formed scalar constants denote distinct values -/
theorem const_inj {k1 k2 : Term} (w1 : k1.wf = true) (w2 : k2.wf = true) (c1 : IsConst k1) (c2 : IsConst k2)
    (I : Interp) (h : eval I k1 = eval I k2) : k1 = k2 := by
  rcases StrRules.const_shape w1 c1 with ⟨b, rfl⟩ | ⟨n, rfl⟩ | ⟨q, rfl⟩ | ⟨s, rfl⟩ | ⟨v, w, rfl⟩ <;>
  rcases StrRules.const_shape w2 c2 with ⟨b', rfl⟩ | ⟨n', rfl⟩ | ⟨q', rfl⟩ | ⟨s', rfl⟩ | ⟨v', w', rfl⟩ <;>
  simp only [eval_boolc, eval_intc, eval_realc, StrRules.eval_strc, Term.bvc,
    eval_plain I .bvConst [] _ (by simp) (by simp) rfl, evalOp] at h <;>
  first
  | (cases h; rfl)
  | (cases h)

/-! ## key terms -/

/-- what the rules need of a key term: a well-formed scalar constant -/
def KeyT (k : Term) : Prop := k.wf = true ∧ IsConst k

theorem KeyT.inj {k1 k2 : Term} (h1 : KeyT k1) (h2 : KeyT k2) (I : Interp) (h : eval I k1 = eval I k2) : k1 = k2 :=
  const_inj h1.1 h2.1 h1.2 h2.2 I h

/-- value pair of a term pair -/
def E (I : Interp) (kv : Term × Term) : Val × Val := (eval I kv.1, eval I kv.2)

theorem pairsV_map (I : Interp) : ∀ rest : List Term, pairsV (rest.map (eval I)) = (pairs rest).map (E I)
  | [] => rfl
  | [_] => rfl
  | k :: v :: rest => by
    simp only [List.map_cons, pairsV, pairs]
    rw [pairsV_map I rest]; rfl

theorem pairs_flatMap : ∀ ps : List (Term × Term), pairs (ps.flatMap (fun kv => [kv.1, kv.2])) = ps
  | [] => rfl
  | (k, v) :: ps => by
    simp only [List.flatMap_cons, List.cons_append, List.nil_append, pairs]
    rw [pairs_flatMap ps]

theorem chk_pairs (idx e : Ty) : ∀ rest : List Term, typeOfNode.chk idx e (rest.map Term.typeOf) = true →
    (∀ kv ∈ pairs rest, kv.1.typeOf = some idx ∧ kv.2.typeOf = some e) ∧
      rest = (pairs rest).flatMap (fun kv => [kv.1, kv.2])
  | [], _ => ⟨by simp [pairs], rfl⟩
  | [_], h => by simp [typeOfNode.chk] at h
  | k :: v :: rest, h => by
    simp only [List.map_cons, typeOfNode.chk, Bool.and_eq_true, beq_iff_eq] at h
    obtain ⟨h1, h2⟩ := chk_pairs idx e rest h.2
    refine ⟨?_, ?_⟩
    · intro kv hkv
      simp only [pairs, List.mem_cons] at hkv
      rcases hkv with rfl | hkv
      · exact ⟨h.1.1, h.1.2⟩
      · exact h1 kv hkv
    · simp only [pairs, List.flatMap_cons, List.cons_append, List.nil_append]
      rw [← h2]

theorem chk_flatMap (idx e : Ty) : ∀ ps : List (Term × Term),
    (∀ kv ∈ ps, kv.1.typeOf = some idx ∧ kv.2.typeOf = some e) →
    typeOfNode.chk idx e ((ps.flatMap (fun kv => [kv.1, kv.2])).map Term.typeOf) = true
  | [], _ => rfl
  | (k, v) :: ps, h => by
    simp only [List.flatMap_cons, List.cons_append, List.nil_append, List.map_cons, typeOfNode.chk,
      Bool.and_eq_true, beq_iff_eq]
    exact ⟨h (k, v) (by simp), chk_flatMap idx e ps (fun kv hkv => h kv (by simp [hkv]))⟩

theorem noDup_cons {k : Term} {ks : List Term} (h : noDup (k :: ks) = true) : k ∉ ks ∧ noDup ks = true := by
  simp only [noDup, Bool.and_eq_true, Bool.not_eq_true', List.contains_eq_mem, decide_eq_false_iff_not] at h
  exact h

theorem lookupEnt_append (j D : Val) : ∀ (l1 l2 : List (Val × Val)),
    Val.lookupEnt j D (l1 ++ l2) = Val.lookupEnt j (Val.lookupEnt j D l2) l1
  | [], _ => rfl
  | (k, v) :: l1, l2 => by
    rw [List.cons_append, Val.lookupEnt_cons, Val.lookupEnt_cons, lookupEnt_append j D l1 l2]

/-- no key of `ps` denotes `j` -/
theorem lookup_none (I : Interp) (j D : Val) {i : Term} (hi : KeyT i) (hj : j = eval I i) :
    ∀ ps : List (Term × Term), (∀ kv ∈ ps, KeyT kv.1) → (∀ kv ∈ ps, kv.1 ≠ i) →
    Val.lookupEnt j D (ps.map (E I)) = D := by
  intro ps hk hne
  apply Val.lookupEnt_notin
  intro kv hkv e
  obtain ⟨kv', hkv', rfl⟩ := List.mem_map.mp hkv
  subst hj
  exact hne kv' hkv' ((hk kv' hkv').inj hi I e)

/-- `array_value_get` on the pairs of an array value -/
def getT (d i : Term) (ps : List (Term × Term)) : Term :=
  match ps.find? (fun kv => kv.1 == i) with | some kv => kv.2 | none => d

theorem arrayValueGet_getT (d : Term) (rest : List Term) (q : Payload) (i : Term) :
    arrayValueGet (.node .arrayValue (d :: rest) q) i = getT d i (pairs rest) := rfl

theorem getT_cons (d i k v : Term) (ps : List (Term × Term)) :
    getT d i ((k, v) :: ps) = if k = i then v else getT d i ps := by
  unfold getT
  rw [List.find?_cons]
  by_cases h : k = i
  · subst h; simp
  · have : ((k, v).1 == i) = false := by simpa using h
    rw [this, if_neg h]

/-- the look-up by key term of `array_value_get` is the look-up of the denoted index -/
theorem lookup_find (I : Interp) (d i : Term) (hi : KeyT i) : ∀ ps : List (Term × Term),
    (∀ kv ∈ ps, KeyT kv.1) →
    eval I (getT d i ps) = Val.lookupEnt (eval I i) (eval I d) (ps.map (E I))
  | [], _ => rfl
  | (k, v) :: ps, hk => by
    rw [getT_cons, List.map_cons]
    show _ = Val.lookupEnt (eval I i) (eval I d) ((eval I k, eval I v) :: ps.map (E I))
    rw [Val.lookupEnt_cons]
    by_cases h : k = i
    · subst h
      simp
    · have hne : ¬ eval I i = eval I k := fun e => h ((hk (k, v) (by simp)).inj hi I e.symm)
      rw [if_neg hne, if_neg h]
      exact lookup_find I d i hi ps (fun kv hkv => hk kv (by simp [hkv]))

theorem getT_result (d i : Term) : ∀ ps : List (Term × Term), getT d i ps = d ∨ ∃ kv ∈ ps, getT d i ps = kv.2
  | [] => Or.inl rfl
  | (k, v) :: ps => by
    rw [getT_cons]
    split
    · exact Or.inr ⟨(k, v), by simp, rfl⟩
    · rcases getT_result d i ps with h | ⟨kv, hkv, h⟩
      · exact Or.inl h
      · exact Or.inr ⟨kv, by simp [hkv], h⟩

/-- dropping the bindings whose value *term* is the default term does not change the function
(the keys are pairwise distinct) -/
theorem lookup_filter (I : Interp) (d : Term) : ∀ ps : List (Term × Term), (∀ kv ∈ ps, KeyT kv.1) →
    noDup (ps.map (·.1)) = true → ∀ j,
    Val.lookupEnt j (eval I d) ((ps.filter (fun kv => kv.2 != d)).map (E I)) =
      Val.lookupEnt j (eval I d) (ps.map (E I))
  | [], _, _, _ => rfl
  | (k, v) :: ps, hk, hn, j => by
    rw [List.map_cons] at hn
    obtain ⟨hnot, hn'⟩ := noDup_cons hn
    have ih := lookup_filter I d ps (fun kv hkv => hk kv (by simp [hkv])) hn' j
    rw [List.filter_cons, List.map_cons]
    show _ = Val.lookupEnt j (eval I d) ((eval I k, eval I v) :: ps.map (E I))
    rw [Val.lookupEnt_cons]
    by_cases hv : v = d
    · subst hv
      simp only [bne_self_eq_false, Bool.false_eq_true, if_false]
      rw [ih]
      split
      · next hj =>
        apply lookup_none I j _ (hk (k, v) (by simp)) hj ps (fun kv hkv => hk kv (by simp [hkv]))
        intro kv hkv e
        exact hnot (e ▸ List.mem_map_of_mem (f := (·.1)) hkv)
      · rfl
    · have : ((k, v).2 != d) = true := by simpa using hv
      rw [this, if_pos rfl, List.map_cons]
      show Val.lookupEnt j (eval I d) ((eval I k, eval I v) :: _) = _
      rw [Val.lookupEnt_cons, ih]

theorem lookup_repl (I : Interp) (D : Val) (i v : Term) (hi : KeyT i) (j : Val) : ∀ ps : List (Term × Term),
    (∀ kv ∈ ps, KeyT kv.1) →
    Val.lookupEnt j D ((ps.map (fun kv => if kv.1 == i then (i, v) else kv)).map (E I)) =
      if j = eval I i then (if ps.any (fun kv => kv.1 == i) then eval I v else D)
      else Val.lookupEnt j D (ps.map (E I))
  | [], _ => by simp [Val.lookupEnt]
  | (k, w) :: ps, hk => by
    have ih := lookup_repl I D i v hi j ps (fun kv hkv => hk kv (by simp [hkv]))
    rw [List.map_cons, List.map_cons, List.map_cons, List.any_cons]
    by_cases h : k = i
    · subst h
      simp only [beq_self_eq_true, if_true, Bool.true_or]
      show Val.lookupEnt j D ((eval I k, eval I v) :: _) = if j = eval I k then eval I v
        else Val.lookupEnt j D ((eval I k, eval I w) :: _)
      rw [Val.lookupEnt_cons, Val.lookupEnt_cons, ih]
      split
      · rfl
      · rfl
    · have hb : (k == i) = false := by simpa using h
      simp only [hb, Bool.false_eq_true, if_false, Bool.false_or]
      show Val.lookupEnt j D ((eval I k, eval I w) :: _) = if j = eval I i then _
        else Val.lookupEnt j D ((eval I k, eval I w) :: _)
      rw [Val.lookupEnt_cons, Val.lookupEnt_cons, ih]
      by_cases hj : j = eval I i
      · have hne : ¬ j = eval I k := by
          rw [hj]; exact fun e => h ((hk (k, w) (by simp)).inj hi I e.symm)
        rw [if_neg hne, if_pos hj, if_pos hj]
      · rw [if_neg hj, if_neg hj]

/-- `assign[i] = v` -/
theorem lookup_dictSet (I : Interp) (D : Val) (i v : Term) (hi : KeyT i) (ps : List (Term × Term))
    (hk : ∀ kv ∈ ps, KeyT kv.1) (j : Val) :
    Val.lookupEnt j D ((dictSet ps i v).map (E I)) =
      if j = eval I i then eval I v else Val.lookupEnt j D (ps.map (E I)) := by
  unfold dictSet
  split
  · next hany =>
    rw [lookup_repl I D i v hi j ps hk, hany]
    rfl
  · next hany =>
    rw [List.map_append, lookupEnt_append]
    show Val.lookupEnt j (Val.lookupEnt j D [(eval I i, eval I v)]) _ = _
    rw [Val.lookupEnt_cons]
    split
    · next hj =>
      apply lookup_none I j _ hi hj ps hk
      intro kv hkv e
      apply hany
      exact List.any_eq_true.mpr ⟨kv, hkv, by simp [e]⟩
    · rfl

theorem mem_dictSet {ps : List (Term × Term)} {i v : Term} {kv : Term × Term} (h : kv ∈ dictSet ps i v) :
    kv = (i, v) ∨ kv ∈ ps := by
  unfold dictSet at h
  split at h
  · obtain ⟨kv', hkv', rfl⟩ := List.mem_map.mp h
    split
    · exact Or.inl rfl
    · exact Or.inr hkv'
  · rcases List.mem_append.mp h with h | h
    · exact Or.inr h
    · exact Or.inl (by simpa using h)

theorem keys_dictSet (ps : List (Term × Term)) (i v : Term) :
    (dictSet ps i v).map (·.1) =
      if ps.any (fun kv => kv.1 == i) then ps.map (·.1) else ps.map (·.1) ++ [i] := by
  unfold dictSet
  split
  · rw [List.map_map]
    apply List.map_congr_left
    intro kv _
    simp only [Function.comp]
    split
    · next h => simpa using (beq_iff_eq.mp h).symm
    · rfl
  · simp

theorem noDup_append_singleton : ∀ (ks : List Term) (i : Term), noDup ks = true → i ∉ ks → noDup (ks ++ [i]) = true
  | [], i, _, _ => rfl
  | k :: ks, i, h, hi => by
    obtain ⟨h1, h2⟩ := noDup_cons h
    simp only [List.cons_append, noDup, Bool.and_eq_true, Bool.not_eq_true', List.contains_eq_mem,
      decide_eq_false_iff_not, List.mem_append, List.mem_singleton, not_or]
    refine ⟨⟨h1, ?_⟩, noDup_append_singleton ks i h2 (fun hm => hi (by simp [hm]))⟩
    intro e
    exact hi (by simp [e])

theorem noDup_dictSet (ps : List (Term × Term)) (i v : Term) (h : noDup (ps.map (·.1)) = true) :
    noDup ((dictSet ps i v).map (·.1)) = true := by
  rw [keys_dictSet]
  split
  · exact h
  · next hany =>
    apply noDup_append_singleton _ _ h
    intro hm
    obtain ⟨kv, hkv, rfl⟩ := List.mem_map.mp hm
    exact hany (List.any_eq_true.mpr ⟨kv, hkv, by simp⟩)

/-- a dictionary built from pairwise distinct keys is the list of pairs -/
theorem dictOf_nodup : ∀ ps : List (Term × Term), noDup (ps.map (·.1)) = true → dictOf ps = ps
  | [], _ => rfl
  | (k, v) :: ps, h => by
    rw [List.map_cons] at h
    obtain ⟨h1, h2⟩ := noDup_cons h
    rw [dictOf, dictOf_nodup ps h2]
    have : ps.find? (fun kv => kv.1 == k) = none := by
      rw [List.find?_eq_none]
      intro kv hkv e
      exact h1 ((beq_iff_eq.mp e) ▸ List.mem_map_of_mem (f := (·.1)) hkv)
    simp only [this]

/-! ## evaluation of array nodes -/

theorem eval_arrayValue (I : Interp) (idx : Ty) (d : Term) (rest : List Term) :
    eval I (.node .arrayValue (d :: rest) (.ty idx)) = Sem.arrayValue idx (eval I d) (rest.map (eval I)) := by
  rw [eval_plain I .arrayValue _ _ (by simp) (by simp) rfl]; rfl
theorem eval_select (I : Interp) (a i : Term) (p : Payload) :
    eval I (.node .arraySelect [a, i] p) = (eval I a).select (eval I i) := by
  rw [eval_plain I .arraySelect _ p (by simp) (by simp) rfl]; rfl
theorem eval_store (I : Interp) (a i v : Term) (p : Payload) :
    eval I (.node .arrayStore [a, i, v] p) = (eval I a).store (eval I i) (eval I v) := by
  rw [eval_plain I .arrayStore _ p (by simp) (by simp) rfl]; rfl

/-! ## sub-terms reached through non-binding nodes -/

/-- `x` is a well-formed part of `t` below non-binding operators only -/
structure Sub (t x : Term) : Prop where
  wf : x.wf = true
  div0 : ∀ I : Interp, div0 I t = false → div0 I x = false
  fv : ∀ s ∈ x.fv, s ∈ t.fv

theorem Sub.arg {op : Op} {args : List Term} {p : Payload} (hwf : (Term.node op args p).wf = true)
    (h1 : op ≠ .symbol) (h2 : op ≠ .function) (h3 : op.isQuantifier = false) {x : Term} (hx : x ∈ args) :
    Sub (.node op args p) x :=
  ⟨wf_args hwf x hx, fun I hd => div0_args_false I op args p h3 hd x hx,
    fun _ hs => (mem_fv_plain h1 h2 h3).mpr ⟨x, hx, hs⟩⟩

theorem Sub.trans {t x y : Term} (h1 : Sub t x) (h2 : Sub x y) : Sub t y :=
  ⟨h2.wf, fun I hd => h2.div0 I (h1.div0 I hd), fun s hs => h1.fv s (h2.fv s hs)⟩

/-- everything the rules use about a well-formed array-value node with a scalar index sort whose keys
are constants -/
structure AVFacts0 (A : Term) (idx e : Ty) (d : Term) (rest : List Term) : Prop where
  dsub : Sub A d
  dty : d.typeOf = some e
  psub : ∀ kv ∈ pairs rest, Sub A kv.1 ∧ Sub A kv.2
  pty : ∀ kv ∈ pairs rest, kv.1.typeOf = some idx ∧ kv.2.typeOf = some e
  keyT : ∀ kv ∈ pairs rest, KeyT kv.1
  flat : rest = (pairs rest).flatMap (fun kv => [kv.1, kv.2])

/-- … that satisfies the `ARRAY_VALUE` invariant (the keys are also pairwise distinct) -/
structure AVFacts (A : Term) (idx e : Ty) (d : Term) (rest : List Term) : Prop
    extends AVFacts0 A idx e d rest where
  nodup : noDup ((pairs rest).map (·.1)) = true

theorem mem_of_mem_pairs : ∀ {rest : List Term} {kv : Term × Term}, kv ∈ pairs rest → kv.1 ∈ rest ∧ kv.2 ∈ rest
  | k :: v :: rest, kv, h => by
    simp only [pairs, List.mem_cons] at h
    rcases h with rfl | h
    · simp
    · have := mem_of_mem_pairs h
      exact ⟨by simp [this.1], by simp [this.2]⟩

theorem avFacts0 {idx e : Ty} {d : Term} {rest : List Term} {q : Payload}
    (hwf : (Term.node .arrayValue (d :: rest) q).wf = true)
    (hty : (Term.node .arrayValue (d :: rest) q).typeOf = some (.array idx e))
    (hidx : idx.scalar = true) (hk : ∀ kv ∈ pairs rest, isConstant kv.1 = true) :
    q = .ty idx ∧ AVFacts0 (.node .arrayValue (d :: rest) q) idx e d rest := by
  obtain ⟨idx', e', d', rest', rfl, hargs, hd, hc, hτ⟩ := typeOf_arrayValue_inv hty
  cases hargs
  cases hτ
  refine ⟨rfl, ?_⟩
  obtain ⟨hp, hflat⟩ := chk_pairs idx e rest hc
  have hsub : ∀ x ∈ d :: rest, Sub (.node .arrayValue (d :: rest) (.ty idx)) x :=
    fun x hx => Sub.arg hwf (by simp) (by simp) rfl hx
  refine ⟨hsub d (by simp), hd, ?_, hp, ?_, hflat⟩
  · intro kv hkv
    have := mem_of_mem_pairs hkv
    exact ⟨hsub _ (by simp [this.1]), hsub _ (by simp [this.2])⟩
  · intro kv hkv
    have hm := mem_of_mem_pairs hkv
    have hw : kv.1.wf = true := (hsub _ (by simp [hm.1])).wf
    exact ⟨hw, isConstant_scalar (hp kv hkv).1 hidx (hk kv hkv)⟩

theorem avFacts {idx e : Ty} {d : Term} {rest : List Term} {q : Payload}
    (hwf : (Term.node .arrayValue (d :: rest) q).wf = true)
    (hty : (Term.node .arrayValue (d :: rest) q).typeOf = some (.array idx e))
    (hidx : idx.scalar = true) (hk : keysOK rest = true) :
    q = .ty idx ∧ AVFacts (.node .arrayValue (d :: rest) q) idx e d rest := by
  simp only [keysOK, Bool.and_eq_true, List.all_eq_true] at hk
  obtain ⟨hq, F⟩ := avFacts0 hwf hty hidx (fun kv hkv => hk.1 kv.1 (List.mem_map_of_mem (f := (·.1)) hkv))
  exact ⟨hq, ⟨F, hk.2⟩⟩

/-- the meaning of an array-value node that satisfies the invariant -/
theorem AVFacts0.sem {A : Term} {idx e : Ty} {d : Term} {rest : List Term} (h : AVFacts0 A idx e d rest)
    (hidx : idx.scalar = true) (I : Interp) (hI : I.WF) :
    Val.CanonV idx (Sem.arrayValue idx (eval I d) (rest.map (eval I))) ∧
    (∀ j, j.hasSort idx = true → (Sem.arrayValue idx (eval I d) (rest.map (eval I))).select j =
      Val.lookupEnt j (eval I d) ((pairs rest).map (E I))) ∧
    (Val.smallDomain idx = none → (Sem.arrayValue idx (eval I d) (rest.map (eval I))).arrDefault = eval I d) := by
  have := arrayValue_spec (keyOrd idx hidx) (eval I d) (rest.map (eval I)) (by
    rw [pairsV_map]
    intro kv hkv
    obtain ⟨kv', hkv', rfl⟩ := List.mem_map.mp hkv
    exact eval_hasSort kv'.1 (h.psub kv' hkv').1.wf idx (h.pty kv' hkv').1 I hI)
  rw [pairsV_map] at this
  exact this

/-! ## the constructor `Array` -/

theorem mem_array_args {d x : Term} {ps : List (Term × Term)}
    (h : x ∈ d :: ps.flatMap (fun kv => [kv.1, kv.2])) : x = d ∨ ∃ kv ∈ ps, x = kv.1 ∨ x = kv.2 := by
  rcases List.mem_cons.mp h with rfl | h
  · exact Or.inl rfl
  · obtain ⟨kv, hkv, hx⟩ := List.mem_flatMap.mp h
    simp only [List.mem_cons, List.not_mem_nil, or_false] at hx
    exact Or.inr ⟨kv, hkv, hx⟩

/-- type, well-formedness, proviso and free symbols of `Array(idx, d, ps)` built from parts of `t` -/
theorem array_res {t : Term} {idx e : Ty} {d : Term} {ps : List (Term × Term)} (hd : Sub t d)
    (hdt : d.typeOf = some e)
    (hps : ∀ kv ∈ ps, (Sub t kv.1 ∧ Sub t kv.2) ∧ kv.1.typeOf = some idx ∧ kv.2.typeOf = some e) :
    (array_ idx d ps).typeOf = some (.array idx e) ∧ (array_ idx d ps).wf = true ∧
    (∀ I : Interp, div0 I t = false → div0 I (array_ idx d ps) = false) ∧
    (∀ s ∈ (array_ idx d ps).fv, s ∈ t.fv) := by
  unfold array_
  generalize hF : ps.filter (fun kv => kv.2 != d) = F
  have hF' : ∀ kv ∈ F, (Sub t kv.1 ∧ Sub t kv.2) ∧ kv.1.typeOf = some idx ∧ kv.2.typeOf = some e := by
    intro kv hkv
    rw [← hF] at hkv
    exact hps kv (List.mem_filter.mp hkv).1
  have hsub : ∀ x ∈ d :: F.flatMap (fun kv => [kv.1, kv.2]), Sub t x := by
    intro x hx
    rcases mem_array_args hx with rfl | ⟨kv, hkv, rfl | rfl⟩
    · exact hd
    · exact (hF' kv hkv).1.1
    · exact (hF' kv hkv).1.2
  have hty : (Term.node .arrayValue (d :: F.flatMap (fun kv => [kv.1, kv.2])) (.ty idx)).typeOf =
      some (.array idx e) := by
    rw [typeOf_node, List.map_cons, hdt]
    show (if typeOfNode.chk idx e _ = true then some (Ty.array idx e) else none) = _
    rw [chk_flatMap idx e F (fun kv hkv => (hF' kv hkv).2), if_pos rfl]
  refine ⟨hty, wf_mk' (fun x hx => (hsub x hx).wf) rfl hty, ?_, ?_⟩
  · intro I hd0
    rw [div0_plain I .arrayValue _ _ rfl (by simp), List.any_eq_false]
    intro x hx
    rw [(hsub x hx).div0 I hd0]
    simp
  · intro s hs
    obtain ⟨x, hx, hsx⟩ := (mem_fv_plain (by simp) (by simp) rfl).mp hs
    exact (hsub x hx).fv s hsx

/-- the meaning of `Array(idx, d, ps)` for pairwise distinct scalar constant keys -/
theorem array_eval {idx : Ty} (hidx : idx.scalar = true) {d : Term} {ps : List (Term × Term)}
    (hk : ∀ kv ∈ ps, KeyT kv.1 ∧ kv.1.typeOf = some idx) (hn : noDup (ps.map (·.1)) = true)
    (I : Interp) (hI : I.WF) :
    Val.CanonV idx (eval I (array_ idx d ps)) ∧
    (∀ j, j.hasSort idx = true → (eval I (array_ idx d ps)).select j = Val.lookupEnt j (eval I d) (ps.map (E I))) ∧
    (Val.smallDomain idx = none → (eval I (array_ idx d ps)).arrDefault = eval I d) := by
  unfold array_
  rw [eval_arrayValue]
  have hpv : pairsV (List.map (eval I) ((ps.filter (fun kv => kv.2 != d)).flatMap (fun kv => [kv.1, kv.2]))) =
      (ps.filter (fun kv => kv.2 != d)).map (E I) := by
    rw [pairsV_map, pairs_flatMap]
  have := arrayValue_spec (keyOrd idx hidx) (eval I d)
    (List.map (eval I) ((ps.filter (fun kv => kv.2 != d)).flatMap (fun kv => [kv.1, kv.2]))) (by
      rw [hpv]
      intro kv hkv
      obtain ⟨kv', hkv', rfl⟩ := List.mem_map.mp hkv
      have := hk kv' (List.mem_filter.mp hkv').1
      exact eval_hasSort kv'.1 this.1.1 idx this.2 I hI)
  rw [hpv] at this
  refine ⟨this.1, ?_, this.2.2⟩
  intro j hj
  rw [this.2.1 j hj, lookup_filter I d ps (fun kv hkv => (hk kv hkv).1) hn j]

/-! ## `walk_array_select` -/

theorem walkArraySelect_ok : RuleOK .arraySelect { rule := walkArraySelect, guard := arrayGuard } := by
  apply RuleOK.of_res
  intro p args τ hwf hty hg
  have hs := wf_shape hwf
  simp only [Op.shapeOK, beq_iff_eq] at hs
  match args, hs, hwf, hty, hg with
  | [a, i], _, hwf, hty, hg =>
    have hty0 := hty
    rw [typeOf_node] at hty
    obtain ⟨idx, hts⟩ := typeOfNode_arraySelect hty
    simp only [List.map_cons, List.map_nil, List.cons.injEq, and_true] at hts
    obtain ⟨ha, hi⟩ := hts
    have hidx : idx.scalar = true := by
      simp only [List.map_cons, List.map_nil, ha] at hg
      rw [← scalarIdx_eq]; exact hg
    have hself : Res (.node .arraySelect [a, i] p) τ (select_ a i) := by
      refine Res.rebuild (by simp) (by simp) rfl hwf ?_ rfl (fun _ => rfl)
      rw [typeOf_node]
      simp only [List.map_cons, List.map_nil, ha, hi]
      show (if idx = idx then some τ else none) = some τ
      rw [if_pos rfl]
    show Res _ _ (walkArraySelect p [a, i])
    unfold walkArraySelect
    simp only
    split
    · next hc =>
      simp only [Bool.and_eq_true] at hc
      cases a with
      | node op aargs q =>
        have hop : op = .arrayValue := by simpa [isArrayValue, Term.op] using hc.1
        subst hop
        obtain ⟨idx', e', d, rest, hq, hargs, _, _, hτ⟩ := typeOf_arrayValue_inv ha
        subst hq
        subst hargs
        cases hτ
        simp only
        split
        · next hk =>
          have hA : Sub (.node .arraySelect [.node .arrayValue (d :: rest) (.ty idx), i] p)
              (.node .arrayValue (d :: rest) (.ty idx)) := Sub.arg hwf (by simp) (by simp) rfl (by simp)
          obtain ⟨_, F⟩ := avFacts hA.wf ha hidx hk
          have hiK : KeyT i := ⟨wf_args hwf i (by simp), isConstant_scalar hi hidx hc.2⟩
          rw [arrayValueGet_getT]
          have hr := getT_result d i (pairs rest)
          generalize hR : getT d i (pairs rest) = r at hr
          have hsub : Sub (.node .arraySelect [.node .arrayValue (d :: rest) (.ty idx), i] p) r ∧ r.typeOf = some τ := by
            rcases hr with rfl | ⟨kv, hkv, rfl⟩
            · exact ⟨hA.trans F.dsub, F.dty⟩
            · exact ⟨hA.trans (F.psub kv hkv).2, (F.pty kv hkv).2⟩
          refine Res.of_hyp (hsub.2) (hsub.1.wf) (fun I hI _ => ?_) (fun I _ hd => hsub.1.div0 I hd) (hsub.1.fv)
          rw [← hR, lookup_find I d i hiK (pairs rest) F.keyT, eval_select, eval_arrayValue]
          exact ((F.toAVFacts0.sem hidx I hI).2.1 (eval I i) (eval_hasSort i hiK.1 idx hi I hI)).symm
        · exact hself
    · exact hself

/-! ## `walk_array_store` -/

theorem walkArrayStore_ok : RuleOK .arrayStore { rule := walkArrayStore, guard := arrayGuard } := by
  apply RuleOK.of_res
  intro p args τ hwf hty hg
  have hs := wf_shape hwf
  simp only [Op.shapeOK, beq_iff_eq] at hs
  match args, hs, hwf, hty, hg with
  | [a, i, v], _, hwf, hty, hg =>
    have hty0 := hty
    rw [typeOf_node] at hty
    obtain ⟨idx, e, hts, rfl⟩ := typeOfNode_arrayStore hty
    simp only [List.map_cons, List.map_nil, List.cons.injEq, and_true] at hts
    obtain ⟨ha, hi, hv⟩ := hts
    have hidx : idx.scalar = true := by
      simp only [List.map_cons, List.map_nil, ha] at hg
      rw [← scalarIdx_eq]; exact hg
    have hself : Res (.node .arrayStore [a, i, v] p) (.array idx e) (store_ a i v) := by
      refine Res.rebuild (by simp) (by simp) rfl hwf ?_ rfl (fun _ => rfl)
      rw [typeOf_node]
      simp only [List.map_cons, List.map_nil, ha, hi, hv]
      show (if idx = idx ∧ e = e then some (Ty.array idx e) else none) = _
      rw [if_pos ⟨rfl, rfl⟩]
    show Res _ _ (walkArrayStore p [a, i, v])
    unfold walkArrayStore
    simp only
    split
    · next hc =>
      simp only [Bool.and_eq_true] at hc
      cases a with
      | node op aargs q =>
        have hop : op = .arrayValue := by simpa [isArrayValue, Term.op] using hc.1
        subst hop
        obtain ⟨idx', e', d, rest, hq, hargs, _, _, hτ⟩ := typeOf_arrayValue_inv ha
        subst hq
        subst hargs
        cases hτ
        simp only
        split
        · next hk =>
          have hN := Sub.arg hwf (by simp) (by simp) rfl (x := .node .arrayValue (d :: rest) (.ty idx)) (by simp)
          have hNi := Sub.arg hwf (by simp) (by simp) rfl (x := i) (by simp)
          have hNv := Sub.arg hwf (by simp) (by simp) rfl (x := v) (by simp)
          obtain ⟨_, F⟩ := avFacts hN.wf ha hidx hk
          have hiK : KeyT i := ⟨hNi.wf, isConstant_scalar hi hidx hc.2⟩
          rw [dictOf_nodup _ F.nodup]
          have hps : ∀ kv ∈ dictSet (pairs rest) i v,
              (Sub (.node .arrayStore [.node .arrayValue (d :: rest) (.ty idx), i, v] p) kv.1 ∧
               Sub (.node .arrayStore [.node .arrayValue (d :: rest) (.ty idx), i, v] p) kv.2) ∧
              kv.1.typeOf = some idx ∧ kv.2.typeOf = some e := by
            intro kv hkv
            rcases mem_dictSet hkv with rfl | hkv
            · exact ⟨⟨hNi, hNv⟩, hi, hv⟩
            · exact ⟨⟨hN.trans (F.psub kv hkv).1, hN.trans (F.psub kv hkv).2⟩, F.pty kv hkv⟩
          have hkeys : ∀ kv ∈ dictSet (pairs rest) i v, KeyT kv.1 ∧ kv.1.typeOf = some idx := by
            intro kv hkv
            rcases mem_dictSet hkv with rfl | hkv'
            · exact ⟨hiK, hi⟩
            · exact ⟨F.keyT kv hkv', (F.pty kv hkv').1⟩
          obtain ⟨r1, r2, r3, r4⟩ := array_res (hN.trans F.dsub) F.dty hps
          refine Res.of_hyp (r1) (r2) (fun I hI _ => ?_) (fun I _ hd => r3 I hd) (r4)
          obtain ⟨c1, c2, c3⟩ := array_eval hidx (d := d) hkeys (noDup_dictSet _ i v F.nodup) I hI
          obtain ⟨a1, a2, a3⟩ := F.toAVFacts0.sem hidx I hI
          have hik : (eval I i).hasSort idx = true := eval_hasSort i hiK.1 idx hi I hI
          obtain ⟨s1, s2, s3⟩ := Val.CanonV.store (keyOrd idx hidx) (eval I v) a1 hik
          rw [eval_store, eval_arrayValue]
          refine Val.CanonV.ext (keyOrd idx hidx) c1 s1 (fun hn => ?_) (fun j hj => ?_)
          · rw [c3 hn, s3 hn, a3 hn]
          · rw [c2 j hj, s2 j hj, a2 j hj, lookup_dictSet I _ i v hiK (pairs rest) F.keyT j]
        · exact hself
    · exact hself

/-! ## `walk_array_value` -/

theorem walkArrayValue_ok : RuleOK .arrayValue { rule := walkArrayValue, guard := valueGuard } := by
  apply RuleOK.of_res
  intro p args τ hwf hty hg
  obtain ⟨idx, e, d, rest, rfl, rfl, _, _, rfl⟩ := typeOf_arrayValue_inv hty
  have hidx : idx.scalar = true := by
    rw [← scalarIdx_eq]; exact hg
  show Res _ _ (walkArrayValue (.ty idx) (d :: rest))
  unfold walkArrayValue
  simp only
  split
  · next hk =>
    obtain ⟨_, F⟩ := avFacts hwf hty hidx hk
    rw [dictOf_nodup _ F.nodup]
    obtain ⟨r1, r2, r3, r4⟩ := array_res F.dsub F.dty (fun kv hkv => ⟨F.psub kv hkv, F.pty kv hkv⟩)
    refine Res.of_hyp (r1) (r2) (fun I hI _ => ?_) (fun I _ hd => r3 I hd) (r4)
    obtain ⟨c1, c2, c3⟩ := array_eval hidx (d := d) (fun kv hkv => ⟨F.keyT kv hkv, (F.pty kv hkv).1⟩) F.nodup I hI
    obtain ⟨a1, a2, a3⟩ := F.toAVFacts0.sem hidx I hI
    rw [eval_arrayValue]
    refine Val.CanonV.ext (keyOrd idx hidx) c1 a1 (fun hn => ?_) (fun j hj => ?_)
    · rw [c3 hn, a3 hn]
    · rw [c2 j hj, a2 j hj]
  · exact Res.self hwf hty

/-! ## fold completeness (C02)

A scalar constant has no array sort, so `arraySelect` / `arrayStore` never have only scalar-constant
arguments: their `FoldOK` holds vacuously. `arrayValue` with constant arguments stays an array value
(not a scalar constant): it has no `FoldOK` and is excluded from `fold_complete` (`ground`). -/

theorem isConst_not_array {a : Term} {i e : Ty} (hwf : a.wf = true) (hc : IsConst a)
    (hty : a.typeOf = some (.array i e)) : False := by
  rcases StrRules.const_shape hwf hc with ⟨b, rfl⟩ | ⟨n, rfl⟩ | ⟨q, rfl⟩ | ⟨s, rfl⟩ | ⟨v, w, rfl⟩
  · rw [typeOf_bool] at hty; cases hty
  · rw [typeOf_int] at hty; cases hty
  · rw [typeOf_real] at hty; cases hty
  · rw [StrRules.typeOf_strc] at hty; cases hty
  · rw [StrRules.typeOf_bvc'] at hty; cases hty

theorem walkArraySelect_fold : FoldOK .arraySelect { rule := walkArraySelect, guard := arrayGuard } := by
  refine ⟨fun p args τ hwf hty _ hc I _ => ?_⟩
  have hs := wf_shape hwf
  simp only [Op.shapeOK, beq_iff_eq] at hs
  match args, hs, hwf, hty, hc with
  | [a, i], _, hwf, hty, hc =>
    rw [typeOf_node] at hty
    obtain ⟨idx, hts⟩ := typeOfNode_arraySelect hty
    simp only [List.map_cons, List.map_nil, List.cons.injEq, and_true] at hts
    exact (isConst_not_array (wf_args hwf a (by simp)) (hc a (by simp)) hts.1).elim

theorem walkArrayStore_fold : FoldOK .arrayStore { rule := walkArrayStore, guard := arrayGuard } := by
  refine ⟨fun p args τ hwf hty _ hc I _ => ?_⟩
  have hs := wf_shape hwf
  simp only [Op.shapeOK, beq_iff_eq] at hs
  match args, hs, hwf, hty, hc with
  | [a, i, v], _, hwf, hty, hc =>
    rw [typeOf_node] at hty
    obtain ⟨idx, e, hts, _⟩ := typeOfNode_arrayStore hty
    simp only [List.map_cons, List.map_nil, List.cons.injEq, and_true] at hts
    exact (isConst_not_array (wf_args hwf a (by simp)) (hc a (by simp)) hts.1).elim

end PySMT.Simp.ArrayRules
