import PySMT.Proofs.C09Cmds1
/-!
# C09: general command lists — reading a term keeps the type manager's sort declarations; the round-trip theorems
-/
namespace PySMT.Parser.Agree
open PySMT PySMT.Parser PySMT.Std PySMT.Sexp PySMT.Printer

/-! ## the frame property: `rdVal` changes only `mgr.symbols` and `mgr.fresh` -/

theorem map_ok_inv {α β : Type} {x : Except Err α} {f : α → β} {y : β} (h : x.map f = .ok y) :
    ∃ a, x = .ok a ∧ f a = y := by
  cases x with
  | error e => simp [Except.map] at h
  | ok a => exact ⟨a, rfl, by simpa [Except.map] using h⟩

theorem mkSymbol_keep {σ : MgrSt} {s : Sym} {r : Sym × MgrSt} (h : mkSymbol σ s = .ok r) : r.2.sorts = σ.sorts := by
  unfold mkSymbol at h
  split at h
  · cases h
  · split at h
    · split at h
      · cases h; rfl
      · cases h
    · cases h; rfl

theorem mkFresh_keep {σ : MgrSt} {pre : String} {ps : List Ty} {ret : Ty} {r : Sym × MgrSt}
    (h : mkFresh σ pre ps ret = .ok r) : r.2.sorts = σ.sorts := by
  unfold mkFresh at h
  have h' : mkSymbol { σ with fresh := freshFind σ pre (σ.symbols.length + 1) σ.fresh + 1 }
      ⟨pre ++ natToString (freshFind σ pre (σ.symbols.length + 1) σ.fresh), ps, ret⟩ = .ok r := h
  have := mkSymbol_keep h'
  exact this

theorem quantVar_keep {σ : MgrSt} {n : String} {t : Ty} {r : Sym × MgrSt} (h : quantVar σ n t = .ok r) :
    r.2.sorts = σ.sorts := by
  unfold quantVar at h
  split at h
  · next r' hr => cases h; exact mkSymbol_keep hr
  · exact mkFresh_keep h
  · cases h

theorem asForm_keep {Γ : PEnv} {l : List Sexp} {v : Parser.Val} {σ : MgrSt} (h : asForm Γ l = .ok (v, σ)) :
    σ.sorts = Γ.mgr.sorts := by
  unfold asForm at h
  split at h
  · split at h
    · split at h
      · split at h
        · cases h; rfl
        · cases h
      · obtain ⟨a, ha, hf⟩ := map_ok_inv h
        have := mkSymbol_keep ha
        cases hf
        exact this
    · cases h
  · cases h

def PVal (s : Sexp) : Prop := ∀ (Γ : PEnv) (lone : Bool) (v : Parser.Val) (σ : MgrSt),
  rdVal Γ lone s = .ok (v, σ) → σ.sorts = Γ.mgr.sorts

theorem rdArgs_keep : ∀ (l : List Sexp), (∀ s ∈ l, PVal s) → ∀ (Γ : PEnv) (vs : List Parser.Val) (σ : MgrSt),
    rdArgs Γ l = .ok (vs, σ) → σ.sorts = Γ.mgr.sorts
  | [], _, Γ, vs, σ, h => by rw [rdArgs] at h; cases h; rfl
  | s :: rest, ih, Γ, vs, σ, h => by
    rw [rdArgs] at h
    cases hv : rdVal Γ false s with
    | error e => simp [hv] at h
    | ok r =>
      obtain ⟨v, σ1⟩ := r
      simp only [hv] at h
      cases hr : rdArgs { Γ with mgr := σ1 } rest with
      | error e => simp [hr] at h
      | ok r2 =>
        obtain ⟨vs2, σ2⟩ := r2
        simp only [hr, Except.ok.injEq, Prod.mk.injEq] at h
        obtain ⟨_, rfl⟩ := h
        have h1 := ih s (by simp) Γ false v σ1 hv
        have h2 := rdArgs_keep rest (fun s' hs' => ih s' (List.mem_cons_of_mem _ hs')) _ _ _ hr
        rw [h2]; exact h1

/-- the application of a function value to the arguments that follow -/
theorem args_apply_keep {Γ : PEnv} {τ : MgrSt} {rest : List Sexp}
    (hk : ∀ vs σ, rdArgs Γ rest = .ok (vs, σ) → σ.sorts = τ.sorts) {f : Fn} {v : Parser.Val} {σ : MgrSt}
    (h : (match rdArgs Γ rest with
          | .ok (vals, σ) => (applyFn f vals).map (fun v => (v, σ))
          | .error e => .error e) = .ok (v, σ)) : σ.sorts = τ.sorts := by
  cases hr : rdArgs Γ rest with
  | error e => simp [hr] at h
  | ok r =>
    obtain ⟨vals, σ1⟩ := r
    simp only [hr] at h
    obtain ⟨a, _, hf⟩ := map_ok_inv h
    cases hf
    exact hk _ _ hr

theorem rdLetBinds_shape (Γ : PEnv) (seen : List String) (delayed : List (String × Parser.Val)) (b : Sexp)
    (bs : List Sexp) (r : PEnv) (h : rdLetBinds Γ seen delayed (b :: bs) = .ok r) :
    ∃ x e, b = Sexp.list [.atom x, e] := by
  match b, h with
  | .list [.atom x, e], _ => exact ⟨x, e, rfl⟩
  | .atom _, h => rw [rdLetBinds] at h <;> first | cases h | (intros; simp_all)
  | .str _, h => rw [rdLetBinds] at h <;> first | cases h | (intros; simp_all)
  | .list [], h => rw [rdLetBinds] at h <;> first | cases h | (intros; simp_all)
  | .list [_], h => rw [rdLetBinds] at h <;> first | cases h | (intros; simp_all)
  | .list (_ :: _ :: _ :: _), h => rw [rdLetBinds] at h <;> first | cases h | (intros; simp_all)
  | .list [.str _, _], h => rw [rdLetBinds] at h <;> first | cases h | (intros; simp_all)
  | .list [.list _, _], h => rw [rdLetBinds] at h <;> first | cases h | (intros; simp_all)

theorem rdQuantBinds_shape (Γ : PEnv) (vars : List Sym) (b : Sexp)
    (bs : List Sexp) (r : PEnv × List Sym) (h : rdQuantBinds Γ vars (b :: bs) = .ok r) :
    ∃ x e, b = Sexp.list [.atom x, e] := by
  match b, h with
  | .list [.atom x, e], _ => exact ⟨x, e, rfl⟩
  | .atom _, h => rw [rdQuantBinds] at h <;> first | cases h | (intros; simp_all)
  | .str _, h => rw [rdQuantBinds] at h <;> first | cases h | (intros; simp_all)
  | .list [], h => rw [rdQuantBinds] at h <;> first | cases h | (intros; simp_all)
  | .list [_], h => rw [rdQuantBinds] at h <;> first | cases h | (intros; simp_all)
  | .list (_ :: _ :: _ :: _), h => rw [rdQuantBinds] at h <;> first | cases h | (intros; simp_all)
  | .list [.str _, _], h => rw [rdQuantBinds] at h <;> first | cases h | (intros; simp_all)
  | .list [.list _, _], h => rw [rdQuantBinds] at h <;> first | cases h | (intros; simp_all)

theorem rdLetBinds_keep : ∀ (l : List Sexp), (∀ x e, Sexp.list [.atom x, e] ∈ l → PVal e) →
    ∀ (Γ : PEnv) (seen : List String) (delayed : List (String × Parser.Val)) (Γ' : PEnv),
      rdLetBinds Γ seen delayed l = .ok Γ' → Γ'.mgr.sorts = Γ.mgr.sorts
  | [], _, Γ, seen, delayed, Γ', h => by rw [rdLetBinds] at h; cases h; rfl
  | b :: bs, ih, Γ, seen, delayed, Γ', h => by
    obtain ⟨x, e, rfl⟩ := rdLetBinds_shape Γ seen delayed b bs Γ' h
    have ihbs : ∀ x' e', Sexp.list [.atom x', e'] ∈ bs → PVal e' :=
      fun x' e' hm => ih x' e' (List.mem_cons_of_mem _ hm)
    rw [rdLetBinds] at h
    split at h
    · cases h
    · cases hv : rdVal Γ false e with
      | error err => simp [hv] at h
      | ok r =>
        obtain ⟨v, σ1⟩ := r
        have h1 := ih x e (by simp) Γ false v σ1 hv
        simp only [hv] at h
        split at h
        · have := rdLetBinds_keep bs ihbs _ _ _ _ h
          rw [this]; exact h1
        · have := rdLetBinds_keep bs ihbs _ _ _ _ h
          rw [this]; exact h1

theorem rdQuantBinds_keep : ∀ (l : List Sexp) (Γ : PEnv) (vars : List Sym) (Γ' : PEnv) (vs : List Sym),
    rdQuantBinds Γ vars l = .ok (Γ', vs) → Γ'.mgr.sorts = Γ.mgr.sorts
  | [], Γ, vars, Γ', vs, h => by rw [rdQuantBinds] at h; cases h; rfl
  | b :: bs, Γ, vars, Γ', vs, h => by
    obtain ⟨x, e, rfl⟩ := rdQuantBinds_shape Γ vars b bs _ h
    rw [rdQuantBinds] at h
    split at h
    · split at h
      · next s σ1 hq =>
        have := rdQuantBinds_keep bs _ _ _ _ h
        rw [this]
        exact quantVar_keep hq
      · cases h
    · cases h

theorem rdLetForm_shape (Γ : PEnv) (l : List Sexp) (r : Parser.Val × MgrSt) (h : rdLetForm Γ l = .ok r) :
    ∃ b bs body, l = [Sexp.list (b :: bs), body] := by
  match l, h with
  | [.list (b :: bs), body], _ => exact ⟨b, bs, body, rfl⟩
  | [], h => rw [rdLetForm_nil] at h; cases h
  | [.atom _], h => rw [rdLetForm] at h <;> first | cases h | (intros; simp_all)
  | [.str _], h => rw [rdLetForm] at h <;> first | cases h | (intros; simp_all)
  | [.list []], h => rw [rdLetForm] at h <;> first | cases h | (intros; simp_all)
  | [.list (_ :: _)], h => rw [rdLetForm] at h <;> first | cases h | (intros; simp_all)
  | .atom _ :: _ :: _, h => rw [rdLetForm] at h <;> first | cases h | (intros; simp_all)
  | .str _ :: _ :: _, h => rw [rdLetForm] at h <;> first | cases h | (intros; simp_all)
  | .list [] :: _ :: _, h => rw [rdLetForm] at h <;> first | cases h | (intros; simp_all)
  | .list (_ :: _) :: _ :: _ :: _, h => rw [rdLetForm] at h <;> first | cases h | (intros; simp_all)

theorem rdQuantForm_shape (Γ : PEnv) (q : Bool) (l : List Sexp) (r : Parser.Val × MgrSt)
    (h : rdQuantForm Γ q l = .ok r) : ∃ b bs body, l = [Sexp.list (b :: bs), body] := by
  match l, h with
  | [.list (b :: bs), body], _ => exact ⟨b, bs, body, rfl⟩
  | [], h => rw [rdQuantForm_nil] at h; cases h
  | [.atom _], h => rw [rdQuantForm] at h <;> first | cases h | (intros; simp_all)
  | [.str _], h => rw [rdQuantForm] at h <;> first | cases h | (intros; simp_all)
  | [.list []], h => rw [rdQuantForm] at h <;> first | cases h | (intros; simp_all)
  | [.list (_ :: _)], h => rw [rdQuantForm] at h <;> first | cases h | (intros; simp_all)
  | .atom _ :: _ :: _, h => rw [rdQuantForm] at h <;> first | cases h | (intros; simp_all)
  | .str _ :: _ :: _, h => rw [rdQuantForm] at h <;> first | cases h | (intros; simp_all)
  | .list [] :: _ :: _, h => rw [rdQuantForm] at h <;> first | cases h | (intros; simp_all)
  | .list (_ :: _) :: _ :: _ :: _, h => rw [rdQuantForm] at h <;> first | cases h | (intros; simp_all)

theorem sizeOf_mem {l : List Sexp} {s : Sexp} (h : s ∈ l) : sizeOf s < sizeOf l := List.sizeOf_lt_of_mem h

theorem rdLetForm_keep (l : List Sexp) (ih : ∀ s', sizeOf s' < sizeOf l → PVal s') (Γ : PEnv) (v : Parser.Val)
    (σ : MgrSt) (h : rdLetForm Γ l = .ok (v, σ)) : σ.sorts = Γ.mgr.sorts := by
  obtain ⟨b, bs, body, rfl⟩ := rdLetForm_shape Γ l _ h
  rw [rdLetForm] at h
  cases hb : rdLetBinds Γ [] [] (b :: bs) with
  | error e => simp [hb] at h
  | ok Γ' =>
    simp only [hb] at h
    have h1 := rdLetBinds_keep (b :: bs) (fun x e hm => ih e (by
      have := sizeOf_mem hm
      simp only [List.cons.sizeOf_spec, Sexp.list.sizeOf_spec, List.nil.sizeOf_spec] at this ⊢
      omega)) Γ [] [] Γ' hb
    have h2 := ih body (by simp only [List.cons.sizeOf_spec]; omega) Γ' false v σ h
    rw [h2, h1]

theorem rdQuantForm_keep (l : List Sexp) (ih : ∀ s', sizeOf s' < sizeOf l → PVal s') (Γ : PEnv) (q : Bool)
    (v : Parser.Val) (σ : MgrSt) (h : rdQuantForm Γ q l = .ok (v, σ)) : σ.sorts = Γ.mgr.sorts := by
  obtain ⟨b, bs, body, rfl⟩ := rdQuantForm_shape Γ q l _ h
  rw [rdQuantForm] at h
  cases hb : rdQuantBinds Γ [] (b :: bs) with
  | error e => simp [hb] at h
  | ok r =>
    obtain ⟨Γ', vars⟩ := r
    simp only [hb] at h
    have h1 := rdQuantBinds_keep (b :: bs) Γ [] Γ' vars hb
    split at h
    · next t σ1 hv =>
      obtain ⟨a, _, hf⟩ := map_ok_inv h
      cases hf
      have h2 := ih body (by simp only [List.cons.sizeOf_spec]; omega) Γ' false _ _ hv
      rw [h2, h1]
    · cases h
    · cases h

theorem rdAnnotForm_keep (l : List Sexp) (ih : ∀ s', sizeOf s' < sizeOf l → PVal s') (Γ : PEnv)
    (v : Parser.Val) (σ : MgrSt) (h : rdAnnotForm Γ l = .ok (v, σ)) : σ.sorts = Γ.mgr.sorts := by
  cases l with
  | nil => rw [rdAnnotForm_nil] at h; cases h
  | cons t attrs =>
    rw [rdAnnotForm] at h
    split at h
    · next t' σ1 hv =>
      split at h
      · cases h
        exact ih t (by simp only [List.cons.sizeOf_spec]; omega) Γ false _ _ hv
      · cases h
    · cases h
    · cases h

theorem pval_aux : ∀ (n : Nat) (s : Sexp), sizeOf s < n → PVal s
  | 0, s, h => by omega
  | n + 1, s, hs => by
    have IH : ∀ s', sizeOf s' < sizeOf s → PVal s' := fun s' h' => pval_aux n s' (by omega)
    intro Γ lone v σ h
    cases s with
    | atom tok =>
      rw [rdVal] at h
      obtain ⟨a, _, hf⟩ := map_ok_inv h
      cases hf; rfl
    | str lit => rw [rdVal] at h; cases h; rfl
    | list l =>
      have IHl : ∀ s', sizeOf s' < sizeOf l → PVal s' := fun s' h' =>
        IH s' (by simp only [Sexp.list.sizeOf_spec]; omega)
      cases l with
      | nil => rw [rdVal] at h; cases h
      | cons hd rest =>
        have IHr : ∀ s', sizeOf s' < sizeOf rest → PVal s' := fun s' h' =>
          IHl s' (by simp only [List.cons.sizeOf_spec]; omega)
        have hargs : ∀ (Γ1 : PEnv) vs σ', rdArgs Γ1 rest = .ok (vs, σ') → σ'.sorts = Γ1.mgr.sorts :=
          rdArgs_keep rest (fun s' hs' => IHr s' (sizeOf_mem hs'))
        cases hd with
        | atom a =>
          rw [rdVal] at h
          simp only at h
          split at h
          · split at h
            · exact rdLetForm_keep rest IHr Γ v σ h
            · split at h
              · exact rdQuantForm_keep rest IHr Γ _ v σ h
              · split at h
                · exact rdAnnotForm_keep rest IHr Γ v σ h
                · split at h
                  · obtain ⟨a, _, hf⟩ := map_ok_inv h
                    cases hf; rfl
                  · split at h
                    · exact asForm_keep h
                    · cases h
          · split at h
            · exact args_apply_keep (τ := Γ.mgr) (hargs Γ) h
            · cases h
          · split at h
            · exact args_apply_keep (τ := Γ.mgr) (hargs Γ) h
            · split at h <;> cases h
            · cases h
        | str s' => rw [rdVal] at h; cases h
        | list hl =>
          rw [rdVal] at h
          · split at h
            · split at h
              · next n =>
                split at h
                · split at h
                  · cases h
                  · obtain ⟨a, _, hf⟩ := map_ok_inv h
                    cases hf
                    exact IHr n (by simp only [List.cons.sizeOf_spec]; omega) Γ false _ _ (by assumption)
                · cases h
                · cases h
                · cases h
              · cases h
            · split at h
              · next f σ1 hv =>
                have h1 := IHl (Sexp.list hl) (by simp only [List.cons.sizeOf_spec]; omega) Γ false _ _ hv
                have := args_apply_keep (τ := σ1) (hargs { Γ with mgr := σ1 }) h
                rw [this, h1]
              · cases h
              · cases h
          · intro _ h; cases h
          · intro _ h; cases h

/-- **Reading a term keeps the type manager's sort declarations.** -/
theorem rdKeepsSorts : RdKeepsSorts := fun Γ lone s v σ h => pval_aux (sizeOf s + 1) s (by omega) Γ lone v σ h

/-! ## the round trip of a command list -/

/-- the initial state with a formula manager that already holds symbols of `ρ` and sort declarations of `κ` -/
theorem inv_init_mgr (ρ : List (String × Sym)) (κ : List (String × Nat)) (σ₀ : MgrSt) (hσ : MgrLe σ₀ ρ)
    (hκ : ∀ e ∈ σ₀.sorts, κ.lookup e.1 = some e.2) :
    Inv ρ κ StdState.init { PEnv.init with mgr := σ₀ } [] [] :=
  ⟨(inv_init ρ κ).tt, (inv_init ρ κ).ff, (inv_init ρ κ).envs, (inv_init ρ κ).names, hσ, hκ, rfl, fun _ => rfl⟩

/-- **General form**: from any pair of a standard state `st` and a parser state `Γ` related by `Inv` (with `NF`, `NS` the
function and sort names declared so far), the parser reads the printed commands as the commands themselves; the standard reader accepts the same
text (C07) and the two final states are again related — in particular the parser's final environment corresponds
(`Corr`) to the standard's final environment, whatever was pushed and popped in between. -/
theorem script_cmds_roundtrip_gen (dag : Bool) (ρ : List (String × Sym)) (κ : List (String × Nat))
    (cmds : List Printer.Cmd) (st : StdState) (Γ : PEnv) (NF NS : List String) (hI : Inv ρ κ st Γ NF NS)
    (h : cmdsOK dag st cmds = true) (h2 : pcmdsFrom dag ρ κ st NF NS cmds = true) :
    script Γ (scriptOfCmds dag cmds) = .ok (cmds.map (toCommand dag)) ∧
    (∀ k, runStdFrom st k (scriptOfCmds dag cmds) = .ok (cmdsRun dag st cmds)) ∧
    ∃ Γ' NF' NS', envAfter Γ (scriptOfCmds dag cmds) = .ok Γ' ∧ Inv ρ κ (cmdsRun dag st cmds) Γ' NF' NS' ∧
      Corr (cmdsRun dag st cmds).env [] Γ' := by
  obtain ⟨a, Γ', NF', NS', b, c⟩ := script_cmds_from rdKeepsSorts dag ρ κ cmds st Γ NF NS hI h h2
  exact ⟨a, fun k => runStdFrom_cmds dag cmds st k h, Γ', NF', NS', b, c, corr_of_inv c⟩

/-- **Print → parse round trip for command lists.** A list of set-logic / declare-sort / declare-fun / declare-const /
assert / push / pop / check-sat commands, serialised by `SmtLibScript.serialize(daggify)` (model `scriptOfCmds dag`), is
read by pySMT's parser from its initial state (model `Parser.script PEnv.init`) as the same command list (`toCommand`:
an asserted formula comes back with array values as store chains). Hypotheses: C07's `cmdsOK` (every command is legal
where it stands for the strict standard interpreter) and `pcmdsOK` (decidable; see `pcmdOK`). -/
theorem script_cmds_roundtrip (dag : Bool) (cmds : List Printer.Cmd) (ρ : List (String × Sym))
    (h : cmdsOK dag StdState.init cmds = true) (h2 : pcmdsOK dag ρ cmds = true) :
    script PEnv.init (scriptOfCmds dag cmds) = .ok (cmds.map (toCommand dag)) :=
  (script_cmds_roundtrip_gen dag ρ (sortsOf cmds) cmds StdState.init PEnv.init [] [] (inv_init ρ _) h h2).1

/-- **… in the same environment**: the parser's formula manager already holds symbols (all of them `ρ`-symbols, e.g. the
symbols of the script that was serialised) and sort declarations (with the `κ`-arities): `mgr.Symbol` / `Type` return the
existing objects and the result is the same command list. -/
theorem script_cmds_roundtrip_mgr (dag : Bool) (cmds : List Printer.Cmd) (ρ : List (String × Sym))
    (κ : List (String × Nat)) (σ₀ : MgrSt) (hσ : MgrLe σ₀ ρ) (hκ : ∀ e ∈ σ₀.sorts, κ.lookup e.1 = some e.2)
    (h : cmdsOK dag StdState.init cmds = true) (h2 : pcmdsFrom dag ρ κ StdState.init [] [] cmds = true) :
    script { PEnv.init with mgr := σ₀ } (scriptOfCmds dag cmds) = .ok (cmds.map (toCommand dag)) :=
  (script_cmds_roundtrip_gen dag ρ κ cmds StdState.init _ [] [] (inv_init_mgr ρ κ σ₀ hσ hκ) h h2).1

/-- after the whole script the parser's environment corresponds to the standard's final environment -/
theorem script_cmds_final_corr (dag : Bool) (cmds : List Printer.Cmd) (ρ : List (String × Sym))
    (h : cmdsOK dag StdState.init cmds = true) (h2 : pcmdsOK dag ρ cmds = true) :
    runStd (scriptOfCmds dag cmds) = .ok (cmdsRun dag StdState.init cmds) ∧
    ∃ Γ', envAfter PEnv.init (scriptOfCmds dag cmds) = .ok Γ' ∧ Corr (cmdsRun dag StdState.init cmds).env [] Γ' := by
  obtain ⟨_, _, Γ', _, _, b, _, c⟩ :=
    script_cmds_roundtrip_gen dag ρ (sortsOf cmds) cmds StdState.init PEnv.init [] [] (inv_init ρ _) h h2
  exact ⟨cmds_accepted dag cmds h, Γ', b, c⟩

/-! ## the hypotheses are satisfiable: a script with a declaration, an assertion, and — inside a `push`/`pop` frame, after
that assertion — a sort declaration, a constant declaration and a second assertion; after the `pop` the popped sort and
constant are declared and used again -/

namespace CmdsEx

def y : Sym := ⟨"y", [], .int⟩
/-- `(<= y |x y|)` -/
def t2 : Term := .node .le [Term.sym y, Term.sym C07.x] .none

def cmds : List Printer.Cmd :=
  [.setLogic "QF_LIA", .declareFun C07.x, .assert C07.t1, .push 1, .declareSort "U" 0, .declareConst y, .assert t2,
   .checkSat, .pop 1, .declareSort "U" 0, .declareConst y, .assert t2, .checkSat]

def ρ : List (String × Sym) := [("x y", C07.x), ("y", y)]

theorem ty_y : (Term.sym y).typeOf = some .int := by rw [Term.sym, typeOf_node]; decide
theorem ty_t2 : t2.typeOf = some .bool := by rw [t2, typeOf_node]; simp only [List.map, ty_y, C07.ty_x]; decide
theorem noQuant_t2 : noQuant t2 = true := by simp [noQuant, t2, Term.sym, Op.isQuantifier]

theorem pr_t2 (env : SEnv) (hx : env.lookupFun "x y" = some C07.x) (hy : env.lookupFun "y" = some y) :
    Printable env [] t2 = true := by
  have hpy : Printable env [] (Term.sym y) = true := by
    have h3 : stdTy .symbol (.sym y) [] = some .int := by decide
    have h4 : typeOfNode .symbol (.sym y) [] = some .int := by decide
    have h7 : nameFine "y" = true := by decide +kernel
    have h8 : y.params.isEmpty = true := rfl
    have h9 : y.name = "y" := rfl
    rw [Term.sym, Printable.eq_def]
    simp only [List.map_nil, h3, h4, beq_self_eq_true, nodeOK, List.length_nil, h7, h8, findVar,
      List.find?_nil, h9, hy, List.all_nil, Bool.and_true]
  exact C07.pr_node env [] .le _ _ .bool (by decide) (by decide)
    (by simp only [List.map, tyD, ty_y, C07.ty_x, Option.getD_some]; decide)
    (by simp only [List.map, ty_y, C07.ty_x]; decide) (by simp [nodeOK])
    (fun a h => by
      simp only [List.mem_cons, List.not_mem_nil, or_false] at h
      rcases h with rfl | rfl
      · exact hpy
      · exact C07.pr_x env hx)

theorem cmdsOK_ex (dag : Bool) : cmdsOK dag StdState.init cmds = true := by
  cases dag
  all_goals (
    simp only [cmds, cmdsOK, Bool.and_eq_true, and_true]
    refine ⟨by decide +kernel, by decide +kernel, ?_, by decide +kernel, by decide +kernel, by decide +kernel, ?_,
      by decide +kernel, by decide +kernel, by decide +kernel, by decide +kernel, ?_, by decide +kernel⟩
    · simp only [cmdOK, C07.ty_t1, beq_self_eq_true, Bool.true_and, C07.noQuant_t1, Bool.or_true, Bool.and_true]
      exact C07.pr_t1 _ (by decide +kernel) (by decide +kernel)
    · simp only [cmdOK, ty_t2, beq_self_eq_true, Bool.true_and, noQuant_t2, Bool.or_true, Bool.and_true]
      exact pr_t2 _ (by decide +kernel) (by decide +kernel)
    · simp only [cmdOK, ty_t2, beq_self_eq_true, Bool.true_and, noQuant_t2, Bool.or_true, Bool.and_true]
      exact pr_t2 _ (by decide +kernel) (by decide +kernel))

theorem pcmdsOK_ex (dag : Bool) : pcmdsOK dag ρ cmds = true := by
  have h1 : ∀ env, parseOK env ρ C07.t1 = true := fun env => by
    simp [C07.t1, Term.sym, Term.int, parseOK, parseNodeOK]
  have h2 : mgrNormal C07.t1 = true := by simp [C07.t1, Term.sym, Term.int, mgrNormal, rootNorm]
  have h3 : ∀ env, parseOK env ρ t2 = true := fun env => by
    simp [t2, Term.sym, parseOK, parseNodeOK]
  have h4 : mgrNormal t2 = true := by simp [t2, Term.sym, mgrNormal, rootNorm]
  cases dag
  all_goals (
    simp only [pcmdsOK, cmds, pcmdsFrom, Bool.and_eq_true, and_true]
    refine ⟨by decide +kernel, by decide +kernel, ?_, by decide +kernel, by decide +kernel, by decide +kernel, ?_,
      by decide +kernel, by decide +kernel, by decide +kernel, by decide +kernel, ?_, by decide +kernel⟩
    · simp only [pcmdOK, h1, h2, Bool.true_and, Bool.or_eq_true, Bool.not_eq_true']
      first | exact Or.inl rfl | exact Or.inr (by decide +kernel)
    · simp only [pcmdOK, h3, h4, Bool.true_and, Bool.or_eq_true, Bool.not_eq_true']
      first | exact Or.inl rfl | exact Or.inr (by decide +kernel)
    · simp only [pcmdOK, h3, h4, Bool.true_and, Bool.or_eq_true, Bool.not_eq_true']
      first | exact Or.inl rfl | exact Or.inr (by decide +kernel))

/-- the instance of the theorem: both printers -/
example (dag : Bool) : script PEnv.init (scriptOfCmds dag cmds) = .ok (cmds.map (toCommand dag)) :=
  script_cmds_roundtrip dag cmds ρ (cmdsOK_ex dag) (pcmdsOK_ex dag)

/-- … and after the script the parser's environment corresponds to the standard's (the popped `U`, `y` are still known
to the parser: P01; `Corr` is one-directional) -/
example (dag : Bool) : runStd (scriptOfCmds dag cmds) = .ok (cmdsRun dag StdState.init cmds) ∧
    ∃ Γ', envAfter PEnv.init (scriptOfCmds dag cmds) = .ok Γ' ∧ Corr (cmdsRun dag StdState.init cmds).env [] Γ' :=
  script_cmds_final_corr dag cmds ρ (cmdsOK_ex dag) (pcmdsOK_ex dag)

/-- a formula manager that already holds the symbols and the sort of the script ("the same environment") -/
def σ₀ : MgrSt := { symbols := [("y", y), ("x y", C07.x)], fresh := 3, sorts := [("U", 0)] }

theorem mgrLe_σ₀ : MgrLe σ₀ ρ := by
  intro e he
  have he' : e = ("y", y) ∨ e = ("x y", C07.x) := by simpa [σ₀] using he
  rcases he' with rfl | rfl <;> rfl

example (dag : Bool) :
    script { PEnv.init with mgr := σ₀ } (scriptOfCmds dag cmds) = .ok (cmds.map (toCommand dag)) :=
  script_cmds_roundtrip_mgr dag cmds ρ (sortsOf cmds) σ₀ mgrLe_σ₀
    (fun e he => by
      have he' : e = ("U", 0) := by simpa [σ₀] using he
      subst he'; rfl)
    (cmdsOK_ex dag) (pcmdsOK_ex dag)

/-- the invariant holds of a non-initial pair of states: after the first six commands (inside the `push` frame) -/
example : ∃ Γ' NF' NS', envAfter PEnv.init (scriptOfCmds false (cmds.take 6)) = .ok Γ' ∧
    Inv ρ (sortsOf cmds) (cmdsRun false StdState.init (cmds.take 6)) Γ' NF' NS' := by
  have h1 : cmdsOK false StdState.init (cmds.take 6) = true := by
    simp only [cmds, List.take, cmdsOK, Bool.and_eq_true, and_true]
    refine ⟨by decide +kernel, by decide +kernel, ?_, by decide +kernel, by decide +kernel, by decide +kernel⟩
    simp only [cmdOK, C07.ty_t1, beq_self_eq_true, Bool.true_and, C07.noQuant_t1, Bool.or_true, Bool.and_true]
    exact C07.pr_t1 _ (by decide +kernel) (by decide +kernel)
  have h2 : pcmdsFrom false ρ (sortsOf cmds) StdState.init [] [] (cmds.take 6) = true := by
    have g1 : ∀ env, parseOK env ρ C07.t1 = true := fun env => by
      simp [C07.t1, Term.sym, Term.int, parseOK, parseNodeOK]
    have g2 : mgrNormal C07.t1 = true := by simp [C07.t1, Term.sym, Term.int, mgrNormal, rootNorm]
    simp only [cmds, List.take, pcmdsFrom, Bool.and_eq_true, and_true]
    refine ⟨by decide +kernel, by decide +kernel, ?_, by decide +kernel, by decide +kernel, by decide +kernel⟩
    simp [pcmdOK, g1, g2]
  obtain ⟨_, _, Γ', NF', NS', a, b, _⟩ :=
    script_cmds_roundtrip_gen false ρ (sortsOf cmds) (cmds.take 6) StdState.init PEnv.init [] [] (inv_init ρ _) h1 h2
  exact ⟨Γ', NF', NS', a, b⟩

/-! ### the side conditions on declarations are needed

The strict standard interpreter accepts both scripts below. pySMT's parser, which keeps popped declarations (P01), rejects
the first: `y` is declared again after the `pop`, with another sort, and `mgr.Symbol` raises. It also rejects the second:
the constant `U` hides the sort `U` in the parser's single cache, so the sort of `c` cannot be read. `pcmdsOK` excludes
both, whatever `ρ`. -/

def yR : Sym := ⟨"y", [], .real⟩
def bad1 : List Printer.Cmd := [.push 1, .declareConst y, .pop 1, .declareConst yR]

example : cmdsOK false StdState.init bad1 = true ∧
    (match script PEnv.init (scriptOfCmds false bad1) with | .error .type => true | _ => false) = true ∧
    ∀ ρ', pcmdsOK false ρ' bad1 = false := by
  refine ⟨by decide +kernel, by decide +kernel, fun ρ' => ?_⟩
  cases h : pcmdsOK false ρ' bad1 with
  | false => rfl
  | true =>
    exfalso
    simp only [pcmdsOK, bad1, pcmdsFrom, pcmdOK, Bool.and_eq_true, decide_eq_true_eq] at h
    obtain ⟨_, ⟨_, h1⟩, _, ⟨_, h2⟩, _⟩ := h
    have : y = yR := Option.some.inj (h1.symm.trans h2)
    revert this; decide

def uC : Sym := ⟨"U", [], .int⟩
def cU : Sym := ⟨"c", [], .custom "U"⟩
def bad2 : List Printer.Cmd := [.declareSort "U" 0, .declareConst uC, .declareConst cU]

example : cmdsOK false StdState.init bad2 = true ∧
    (match script PEnv.init (scriptOfCmds false bad2) with | .error _ => true | _ => false) = true ∧
    ∀ ρ', pcmdsOK false ρ' bad2 = false := by
  refine ⟨by decide +kernel, by decide +kernel, fun ρ' => ?_⟩
  cases h : pcmdsOK false ρ' bad2 with
  | false => rfl
  | true =>
    exfalso
    simp only [pcmdsOK, bad2, pcmdsFrom, pcmdOK, Bool.and_eq_true, decide_eq_true_eq] at h
    obtain ⟨_, ⟨⟨_, h1⟩, _⟩, _⟩ := h
    revert h1; decide

end CmdsEx

end PySMT.Parser.Agree
