import PySMT.Proofs.C19Main
/-!
# C19 — the closed form `allowed` is exactly the set of outcomes of a `solve()` call
-/
set_option linter.unusedVariables false
namespace PySMT.Portfolio
variable (cfg : Cfg)

theorem mem_answersIn (c : Nat) (v : Bool) :
    v ∈ answersIn cfg c ↔ ∃ i, i < cfg.n ∧ cfg.beh c i = .answer v := by
  unfold answersIn
  simp only [List.mem_filterMap, List.mem_range]
  constructor
  · rintro ⟨i, hi, h⟩
    cases hb : cfg.beh c i <;> simp [hb] at h
    subst h; exact ⟨i, hi, hb⟩
  · rintro ⟨i, hi, hb⟩
    exact ⟨i, hi, by simp [hb]⟩

theorem mem_raisesIn (c i : Nat) (e : Exn) :
    (i, e) ∈ raisesIn cfg c ↔ i < cfg.n ∧ cfg.beh c i = .raise e := by
  unfold raisesIn
  simp only [List.mem_filterMap, List.mem_range]
  constructor
  · rintro ⟨j, hj, h⟩
    cases hb : cfg.beh c j <;> simp [hb] at h
    obtain ⟨rfl, rfl⟩ := h; exact ⟨hj, hb⟩
  · rintro ⟨hi, hb⟩
    exact ⟨i, hi, by simp [hb]⟩

theorem mem_allowed_verdict (c : Nat) (v : Bool) (i : Nat) (hi : i < cfg.n) (hb : cfg.beh c i = .answer v) :
    Outcome.verdict v ∈ allowed cfg c := by
  have hv : v ∈ answersIn cfg c := (mem_answersIn cfg c v).mpr ⟨i, hi, hb⟩
  have hne : answersIn cfg c ≠ [] := List.ne_nil_of_mem hv
  unfold allowed
  simp only [List.isEmpty_map, List.isEmpty_iff, hne, Bool.false_and, decide_false]
  split <;> simp [hv]

theorem mem_allowed_member (c i : Nat) (e : Exn) (he : cfg.eoe = true) (hi : i < cfg.n)
    (hb : cfg.beh c i = .raise e) : Outcome.error (.member i e) ∈ allowed cfg c := by
  have hm : (i, e) ∈ raisesIn cfg c := (mem_raisesIn cfg c i e).mpr ⟨hi, hb⟩
  have hne : raisesIn cfg c ≠ [] := List.ne_nil_of_mem hm
  unfold allowed
  simp only [he, List.isEmpty_map, List.isEmpty_iff, hne, Bool.and_false, decide_false, if_true]
  simp
  exact Or.inr ⟨i, e, hm, rfl, rfl⟩

theorem mem_allowed_allFailed (c : Nat) (h : errOK cfg c .allFailed) : Outcome.error .allFailed ∈ allowed cfg c := by
  obtain ⟨h1, h2⟩ := h
  have hv : answersIn cfg c = [] := by
    apply List.eq_nil_iff_forall_not_mem.mpr
    intro v hv
    obtain ⟨i, hi, hb⟩ := (mem_answersIn cfg c v).mp hv
    exact h1 i hi v hb
  unfold allowed
  cases he : cfg.eoe with
  | false => simp [hv]
  | true =>
    have hr : raisesIn cfg c = [] := by
      apply List.eq_nil_iff_forall_not_mem.mpr
      intro ⟨i, e⟩ hm
      obtain ⟨hi, hb⟩ := (mem_raisesIn cfg c i e).mp hm
      exact h2 he i hi e hb
    simp [hv, hr]

/-- **Soundness of the closed form**: whatever the schedule, the outcome of `solve()` number `c` is in `allowed c`. -/
theorem outcome_allowed (s : State) (h : Reach cfg s) :
    (∀ v w, s.p = .returned v w → Outcome.verdict v ∈ allowed cfg s.cycle) ∧
    (∀ e, s.p = .raised e → Outcome.error e ∈ allowed cfg s.cycle) := by
  have hi := inv_reach cfg s h
  constructor
  · intro v w hp
    obtain ⟨hw, hb⟩ := hi.ret v w hp
    exact mem_allowed_verdict cfg _ v w hw hb
  · intro e hp
    have := (hi.raised e hp).1
    cases e with
    | member i e' => exact mem_allowed_member cfg _ i e' this.1 this.2.1 this.2.2
    | allFailed => exact mem_allowed_allFailed cfg _ this

end PySMT.Portfolio
