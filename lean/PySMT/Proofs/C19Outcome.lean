import PySMT.Proofs.C19Main
/-!
# C19 — the closed form `allowed` is exactly the set of outcomes of a `solve()` call
-/
set_option linter.unusedVariables false
namespace PySMT.Portfolio
variable (cfg : Cfg)

theorem mem_answersIn (c : Nat) (v : Bool) :
    v ∈ answersIn cfg c ↔ ∃ i, i < cfg.n ∧ cfg.beh c i = .answer v := by
  unfold answersIn
  simp only [List.mem_filterMap, List.mem_range]
  constructor
  · rintro ⟨i, hi, h⟩
    cases hb : cfg.beh c i <;> simp [hb] at h
    subst h; exact ⟨i, hi, hb⟩
  · rintro ⟨i, hi, hb⟩
    exact ⟨i, hi, by simp [hb]⟩

theorem mem_raisesIn (c i : Nat) (e : Exn) :
    (i, e) ∈ raisesIn cfg c ↔ i < cfg.n ∧ cfg.beh c i = .raise e := by
  unfold raisesIn
  simp only [List.mem_filterMap, List.mem_range]
  constructor
  · rintro ⟨j, hj, h⟩
    cases hb : cfg.beh c j <;> simp [hb] at h
    obtain ⟨rfl, rfl⟩ := h; exact ⟨hj, hb⟩
  · rintro ⟨hi, hb⟩
    exact ⟨i, hi, by simp [hb]⟩

theorem mem_allowed_verdict (c : Nat) (v : Bool) (i : Nat) (hi : i < cfg.n) (hb : cfg.beh c i = .answer v) :
    Outcome.verdict v ∈ allowed cfg c := by
  have hv : v ∈ answersIn cfg c := (mem_answersIn cfg c v).mpr ⟨i, hi, hb⟩
  have hne : answersIn cfg c ≠ [] := List.ne_nil_of_mem hv
  unfold allowed
  cases he : cfg.eoe <;> simp [hne, hv]

theorem mem_allowed_member (c i : Nat) (e : Exn) (he : cfg.eoe = true) (hi : i < cfg.n)
    (hb : cfg.beh c i = .raise e) : Outcome.error (.member i e) ∈ allowed cfg c := by
  have hm : (i, e) ∈ raisesIn cfg c := (mem_raisesIn cfg c i e).mpr ⟨hi, hb⟩
  have hne : raisesIn cfg c ≠ [] := List.ne_nil_of_mem hm
  unfold allowed
  simp [he, hne, hm]

theorem mem_allowed_allFailed (c : Nat) (h : errOK cfg c .allFailed) : Outcome.error .allFailed ∈ allowed cfg c := by
  obtain ⟨h1, h2⟩ := h
  have hv : answersIn cfg c = [] := by
    apply List.eq_nil_iff_forall_not_mem.mpr
    intro v hv
    obtain ⟨i, hi, hb⟩ := (mem_answersIn cfg c v).mp hv
    exact h1 i hi v hb
  unfold allowed
  cases he : cfg.eoe with
  | false => simp [hv]
  | true =>
    have hr : raisesIn cfg c = [] := by
      apply List.eq_nil_iff_forall_not_mem.mpr
      intro ⟨i, e⟩ hm
      obtain ⟨hi, hb⟩ := (mem_raisesIn cfg c i e).mp hm
      exact h2 he i hi e hb
    simp [hv, hr]

/-- **Soundness of the closed form**: whatever the schedule, the outcome of `solve()` number `c` is in `allowed c`. -/
theorem outcome_allowed (s : State) (h : Reach cfg s) :
    (∀ v w, s.p = .returned v w → Outcome.verdict v ∈ allowed cfg s.cycle) ∧
    (∀ e, s.p = .raised e → Outcome.error e ∈ allowed cfg s.cycle) := by
  have hi := inv_reach cfg s h
  constructor
  · intro v w hp
    obtain ⟨hw, hb⟩ := hi.ret v w hp
    exact mem_allowed_verdict cfg _ v w hw hb
  · intro e hp
    have := (hi.raised e hp).1
    cases e with
    | member i e' => exact mem_allowed_member cfg _ i e' this.1 this.2.1 this.2.2
    | allFailed => exact mem_allowed_allFailed cfg _ this

/-! ### completeness: every element of `allowed` is the outcome of some schedule -/

inductive IStar : State → State → Prop
  | refl (s : State) : IStar s s
  | tail (s t u : State) : IStar s t → IStep cfg t u → IStar s u

theorem IStar.head (s t u : State) (h : IStep cfg s t) (h2 : IStar cfg t u) : IStar cfg s u := by
  induction h2 with
  | refl => exact IStar.tail s s t (IStar.refl s) h
  | tail t' u' _ hst ih => exact IStar.tail s t' u' ih hst

theorem reach_istar (s t : State) (hr : Reach cfg s) (h : IStar cfg s t) : Reach cfg t := by
  induction h with
  | refl => exact hr
  | tail t u _ hst ih => exact Reach.step t u ih (Step.internal t u hst)

theorem inev_exists (P : State → Prop) (s : State) (h : Inev cfg P s) : ∃ t, IStar cfg s t ∧ P t := by
  induction h with
  | now s hp => exact ⟨s, IStar.refl s, hp⟩
  | later s hex _ ih =>
    obtain ⟨t, hst⟩ := hex
    obtain ⟨u, hu, hp⟩ := ih t hst
    exact ⟨u, IStar.head cfg s t u hst hu, hp⟩

theorem quiescent_of_done (p : PSt) (h1 : solvePhase p) (h2 : inSolve p = false) : quiescent p = true := by
  rcases h1 with h | ⟨v, w, h⟩ | ⟨e, h⟩
  · rw [h] at h2; simp at h2
  · rw [h]; rfl
  · rw [h]; rfl

/-- every number of `solve()` calls is reachable (each call ends, so the next one can start) -/
theorem reach_cycle (c : Nat) : ∃ s, Reach cfg s ∧ quiescent s.p = true ∧ s.cycle = c := by
  induction c with
  | zero => exact ⟨init, Reach.init, rfl, rfl⟩
  | succ c ih =>
    obtain ⟨s, hr, hq, hc⟩ := ih
    have hr1 : Reach cfg (fresh cfg s) := Reach.step s _ hr (Step.user s _ (UStep.solveStart s hq))
    obtain ⟨t, hst, ⟨_, hcy, hph⟩, hns⟩ := inev_exists cfg _ _ (solve_ends cfg (fresh cfg s) (inv_reach cfg _ hr1) rfl)
    exact ⟨t, reach_istar cfg _ t hr1 hst, quiescent_of_done _ hph hns, by rw [hcy]; simp [fresh, hc]⟩

theorem istep_killLosers (s t : State) (h : IStep cfg s t) (v : Bool) (w : Nat) (hs : ∃ k, s.p = .killLosers v w k) :
    (∃ k, t.p = .killLosers v w k) ∨ t.p = .returned v w := by
  obtain ⟨k, hk⟩ := hs
  cases h <;> simp_all

theorem istep_killAll (s t : State) (h : IStep cfg s t) (e : Err) (hs : ∃ k, s.p = .killAll e k) :
    (∃ k, t.p = .killAll e k) ∨ t.p = .raised e := by
  obtain ⟨k, hk⟩ := hs
  cases h <;> simp_all

/-- once the winner is chosen, every schedule ends with `solve()` returning its answer -/
theorem killLosers_returns (s : State) (hi : Inv cfg s) (v : Bool) (w k : Nat) (hp : s.p = .killLosers v w k) :
    ∃ t, IStar cfg s t ∧ t.p = .returned v w ∧ t.cycle = s.cycle := by
  have := inev_of_progress cfg
    (fun t => Inv cfg t ∧ t.cycle = s.cycle ∧ ((∃ k, t.p = .killLosers v w k) ∨ t.p = .returned v w))
    (fun t => t.p = .returned v w) ?_ ?_ s ⟨hi, rfl, Or.inl ⟨k, hp⟩⟩
  · obtain ⟨t, hst, ⟨_, hc, _⟩, hp'⟩ := inev_exists cfg _ _ this
    exact ⟨t, hst, hp', hc⟩
  · intro a b ⟨h1, h2, h3⟩ hP hst
    have ha : ∃ k, a.p = .killLosers v w k := by rcases h3 with h3 | h3; exact h3; exact absurd h3 hP
    exact ⟨inv_istep cfg a b h1 hst, by rw [istep_cycle cfg a b hst, h2], istep_killLosers cfg a b hst v w ha⟩
  · intro a ⟨h1, _, h3⟩ hP
    have ha : ∃ k, a.p = .killLosers v w k := by rcases h3 with h3 | h3; exact h3; exact absurd h3 hP
    obtain ⟨k', hk'⟩ := ha
    exact progress_solve cfg a h1 (by rw [hk']; rfl)

theorem killAll_raises (s : State) (hi : Inv cfg s) (e : Err) (k : Nat) (hp : s.p = .killAll e k) :
    ∃ t, IStar cfg s t ∧ t.p = .raised e ∧ t.cycle = s.cycle := by
  have := inev_of_progress cfg
    (fun t => Inv cfg t ∧ t.cycle = s.cycle ∧ ((∃ k, t.p = .killAll e k) ∨ t.p = .raised e))
    (fun t => t.p = .raised e) ?_ ?_ s ⟨hi, rfl, Or.inl ⟨k, hp⟩⟩
  · obtain ⟨t, hst, ⟨_, hc, _⟩, hp'⟩ := inev_exists cfg _ _ this
    exact ⟨t, hst, hp', hc⟩
  · intro a b ⟨h1, h2, h3⟩ hP hst
    have ha : ∃ k, a.p = .killAll e k := by rcases h3 with h3 | h3; exact h3; exact absurd h3 hP
    exact ⟨inv_istep cfg a b h1 hst, by rw [istep_cycle cfg a b hst, h2], istep_killAll cfg a b hst e ha⟩
  · intro a ⟨h1, _, h3⟩ hP
    have ha : ∃ k, a.p = .killAll e k := by rcases h3 with h3 | h3; exact h3; exact absurd h3 hP
    obtain ⟨k', hk'⟩ := ha
    exact progress_solve cfg a h1 (by rw [hk']; rfl)

/-- the schedule "member `i` finishes first and the parent reads its message at once" -/
theorem first_message (s0 : State) (hr : Reach cfg s0) (hq : quiescent s0.p = true) (i : Nat) (hi : i < cfg.n) (m : Msg)
    (hm : afterSolve i (cfg.beh (s0.cycle + 1) i) = .putting m) :
    ∃ s, Reach cfg s ∧ s.cycle = s0.cycle + 1 ∧ s.p = .waiting ∧ s.queue = [m] := by
  let s1 := fresh cfg s0
  have hr1 : Reach cfg s1 := Reach.step s0 _ hr (Step.user s0 _ (UStep.solveStart s0 hq))
  have h1 : s1.ms[i]? = some .solving := by simp [s1, fresh, hi]
  let s2 : State := { s1 with ms := s1.ms.set i (afterSolve i (cfg.beh s1.cycle i)) }
  have hr2 : Reach cfg s2 := Reach.step s1 _ hr1 (Step.internal s1 _ (IStep.finish s1 i h1))
  have h2 : s2.ms[i]? = some (.putting m) := by
    have : s1.cycle = s0.cycle + 1 := rfl
    simp only [s2, this, hm]
    exact get_set_eq h1
  let s3 : State := { s2 with ms := s2.ms.set i (afterFlush m), queue := s2.queue ++ [m] }
  have hr3 : Reach cfg s3 := Reach.step s2 _ hr2 (Step.internal s2 _ (IStep.flush s2 i m h2))
  exact ⟨s3, hr3, rfl, rfl, rfl⟩

theorem allowed_eq (c : Nat) : allowed cfg c =
    if cfg.eoe = true then
      (if answersIn cfg c = [] ∧ raisesIn cfg c = [] then [Outcome.error .allFailed]
       else (answersIn cfg c).map Outcome.verdict ++
            (raisesIn cfg c).map (fun ie => Outcome.error (.member ie.1 ie.2)))
    else (if answersIn cfg c = [] then [Outcome.error .allFailed] else (answersIn cfg c).map Outcome.verdict) := by
  unfold allowed
  cases cfg.eoe <;> cases answersIn cfg c <;> cases raisesIn cfg c <;> simp

theorem mem_allowed_cases (c : Nat) (o : Outcome) (ho : o ∈ allowed cfg c) :
    (∃ v, o = .verdict v ∧ v ∈ answersIn cfg c) ∨
    (cfg.eoe = true ∧ ∃ i e, o = .error (.member i e) ∧ (i, e) ∈ raisesIn cfg c) ∨
    (o = .error .allFailed ∧ answersIn cfg c = [] ∧ (cfg.eoe = true → raisesIn cfg c = [])) := by
  rw [allowed_eq] at ho
  split at ho
  · rename_i he
    split at ho
    · rename_i h
      exact Or.inr (Or.inr ⟨List.mem_singleton.mp ho, h.1, fun _ => h.2⟩)
    · rcases List.mem_append.mp ho with h | h
      · obtain ⟨v, hv, rfl⟩ := List.mem_map.mp h
        exact Or.inl ⟨v, rfl, hv⟩
      · obtain ⟨⟨i, e⟩, hm, rfl⟩ := List.mem_map.mp h
        exact Or.inr (Or.inl ⟨he, i, e, rfl, hm⟩)
  · rename_i he
    split at ho
    · rename_i h
      exact Or.inr (Or.inr ⟨List.mem_singleton.mp ho, h, fun h' => absurd h' he⟩)
    · obtain ⟨v, hv, rfl⟩ := List.mem_map.mp ho
      exact Or.inl ⟨v, rfl, hv⟩

/-- **Completeness of the closed form**: every outcome in `allowed (c+1)` is the outcome of `solve()` number `c+1` on
    some schedule.  Together with `outcome_allowed`: `allowed` is exactly the set of possible outcomes, and
    `blocked` is never one of them. -/
theorem allowed_reachable (c : Nat) (o : Outcome) (ho : o ∈ allowed cfg (c + 1)) :
    ∃ s, Reach cfg s ∧ s.cycle = c + 1 ∧ quiescent s.p = true ∧ outcomeOf s = o := by
  obtain ⟨s0, hr0, hq0, hc0⟩ := reach_cycle cfg c
  -- which kind of outcome is it?
  have hcases : (∃ v i, o = .verdict v ∧ i < cfg.n ∧ cfg.beh (c + 1) i = .answer v) ∨
      (∃ i e, o = .error (.member i e) ∧ cfg.eoe = true ∧ i < cfg.n ∧ cfg.beh (c + 1) i = .raise e) ∨
      (o = .error .allFailed ∧ answersIn cfg (c + 1) = [] ∧ (cfg.eoe = true → raisesIn cfg (c + 1) = [])) := by
    have hmem := mem_allowed_cases cfg (c + 1) o ho
    rcases hmem with ⟨v, rfl, hv'⟩ | ⟨he, i, e, rfl, hm⟩ | h3
    · obtain ⟨i, hi, hb⟩ := (mem_answersIn cfg _ v).mp hv'
      exact Or.inl ⟨v, i, rfl, hi, hb⟩
    · obtain ⟨hi, hb⟩ := (mem_raisesIn cfg _ i e).mp hm
      exact Or.inr (Or.inl ⟨i, e, rfl, he, hi, hb⟩)
    · exact Or.inr (Or.inr h3)
  rcases hcases with ⟨v, i, rfl, hi, hb⟩ | ⟨i, e, rfl, he, hi, hb⟩ | ⟨rfl, hv, hr⟩
  · obtain ⟨s, hrs, hcs, hps, hqs⟩ := first_message cfg s0 hr0 hq0 i hi (.ans i v) (by rw [hc0, hb]; rfl)
    let s' : State := { s with queue := [], p := .killLosers v i 0 }
    have hr' : Reach cfg s' := Reach.step s _ hrs (Step.internal s _ (IStep.getAns s i v [] hps hqs))
    obtain ⟨t, hst, hpt, hct⟩ := killLosers_returns cfg s' (inv_reach cfg _ hr') v i 0 rfl
    exact ⟨t, reach_istar cfg _ t hr' hst, by rw [hct]; simp [s', hcs, hc0], by rw [hpt]; rfl, by simp [outcomeOf, hpt]⟩
  · obtain ⟨s, hrs, hcs, hps, hqs⟩ := first_message cfg s0 hr0 hq0 i hi (.exn i e) (by rw [hc0, hb]; rfl)
    let s' : State := { s with queue := [], p := .killAll (.member i e) 0 }
    have hr' : Reach cfg s' := Reach.step s _ hrs (Step.internal s _ (IStep.getExnExit s i e [] hps he hqs))
    obtain ⟨t, hst, hpt, hct⟩ := killAll_raises cfg s' (inv_reach cfg _ hr') (.member i e) 0 rfl
    exact ⟨t, reach_istar cfg _ t hr' hst, by rw [hct]; simp [s', hcs, hc0], by rw [hpt]; rfl, by simp [outcomeOf, hpt]⟩
  · have hr1 : Reach cfg (fresh cfg s0) := Reach.step s0 _ hr0 (Step.user s0 _ (UStep.solveStart s0 hq0))
    have hcy : (fresh cfg s0).cycle = c + 1 := by simp [fresh, hc0]
    have hfail : ∀ i, i < cfg.n → ∀ v, cfg.beh (fresh cfg s0).cycle i ≠ .answer v := by
      intro i hi v hb
      have : v ∈ answersIn cfg (c + 1) := (mem_answersIn cfg _ v).mpr ⟨i, hi, hcy ▸ hb⟩
      rw [hv] at this; simp at this
    obtain ⟨t, hst, e, hpt, hok, hall⟩ := inev_exists cfg _ _ (all_fail_error cfg _ hr1 rfl hfail)
    have hrt := reach_istar cfg _ t hr1 hst
    have hct : t.cycle = c + 1 := by
      have : ∀ a b, IStar cfg a b → b.cycle = a.cycle := by
        intro a b hab
        induction hab with
        | refl => rfl
        | tail t u _ hst ih => rw [istep_cycle cfg t u hst, ih]
      rw [this _ _ hst, hcy]
    have he : e = .allFailed := by
      cases hee : cfg.eoe with
      | false => exact hall hee
      | true =>
        cases e with
        | allFailed => rfl
        | member i e' =>
          obtain ⟨_, hi, hb⟩ := hok
          have : (i, e') ∈ raisesIn cfg (c + 1) := (mem_raisesIn cfg _ i e').mpr ⟨hi, hcy ▸ hb⟩
          rw [hr hee] at this; simp at this
    subst he
    exact ⟨t, hrt, hct, by rw [hpt]; rfl, by simp [outcomeOf, hpt]⟩

end PySMT.Portfolio
