import PySMT.Proofs.C08Script1
/-!
# C08: the declaration commands of the parser model refine the standard's

`step_decl`: for a command `c` among `set-logic`, `declare-sort` (arity 0), `declare-fun`, `declare-const`, parameterless
`define-sort`, `set-info`, `set-option` that satisfies the decidable side condition `declCmdOK ρ st c`: whenever the standard accepts it
(`Std.stepStd st c = .ok st'`) in a state that the parser's environment refines (`Refines ρ st Γ`), the parser model
accepts it (`Parser.cmd Γ c = .ok (Γ', declCommand st c)`) and the new environment refines the new state.
-/
namespace PySMT.Parser.Agree
open PySMT PySMT.Parser PySMT.Std PySMT.Sexp

/-- the parser's environment `Γ` refines the standard's state `st`: the environments correspond (`Corr`), the formula
manager holds only symbols of the assignment `ρ`, and only sort symbols of arity 0 -/
structure Refines (ρ : List (String × Sym)) (st : StdState) (Γ : PEnv) : Prop where
  corr : Corr st.env [] Γ
  mgr : MgrLe Γ.mgr ρ
  sorts0 : Sorts0 Γ.mgr

theorem refines_init (ρ : List (String × Sym)) : Refines ρ StdState.init PEnv.init :=
  ⟨corr_init, mgrLe_init ρ, sorts0_init⟩

/-! ## the side conditions (decidable) -/

/-- the symbol `(declare-fun n ps r)` declares, by the standard's reading of the sorts -/
def declSym (env : SEnv) (n : String) (ps : List Sexp) (r : Sexp) : Sym :=
  ⟨n, (sortStdList env ps).toOption.getD [], (sortStd env r).toOption.getD .bool⟩

/-- a function symbol / constant may be declared: the name is not spelled like a literal, `true`, `false` (F16b), is not a
sort's (one cache for sorts and terms), the sorts are plain (`FragSort`), a function is not spelled like a token of the
parser's table (`pow`, `<->`, …), and the formula manager's symbol of that name is this one (`ρ`) -/
def declSymOK (ρ : List (String × Sym)) (env : SEnv) (n : String) (ps : List Sexp) (r : Sexp) : Bool :=
  nameOK1 n && (env.lookupSort n).isNone && (env.lookupAlias n).isNone && FragSortL ps && FragSort r &&
  ((declSym env n ps r).params.isEmpty || (tableLookup n).isNone) &&
  decide (ρ.lookup n = some (declSym env n ps r))

/-- a sort name may be declared / defined: not spelled like a literal, `true`, `false`, not a function's -/
def sortNameOK (env : SEnv) (n : String) : Bool := nameOK1 n && (env.lookupFun n).isNone

/-- the side condition of one command, in the standard's state before it. `set-logic L`: the parser's and the standard's
reading of numerals agree under `L` (`logicOK`), and the logic before was not a Reals-only one (an unknown `L` leaves the
parser's flag as it was). `declare-sort`: two atoms, arity 0. `define-sort`: no parameters. `set-info`, `set-option`
(which the standard's interpreter ignores): two tokens. No other command. -/
def declCmdOK (ρ : List (String × Sym)) (st : StdState) : Sexp → Bool
  | .list (.atom c :: args) =>
    if c == "set-logic" then
      (match args with
       | [.atom l] => (match symName? l with | some n => logicOK n && !st.env.realsOnly | none => false)
       | _ => false)
    else if c == "declare-sort" then
      (match args with
       | [.atom s, .atom k] =>
         (match symName? s with | some n => sortNameOK st.env n && numeral? k == some 0 | none => false)
       | _ => false)
    else if c == "declare-fun" then
      (match args with
       | [.atom f, .list ps, r] => (match symName? f with | some n => declSymOK ρ st.env n ps r | none => false)
       | _ => false)
    else if c == "declare-const" then
      (match args with
       | [.atom f, r] => (match symName? f with | some n => declSymOK ρ st.env n [] r | none => false)
       | _ => false)
    else if c == "define-sort" then
      (match args with
       | [.atom s, .list [], body] =>
         (match symName? s with | some n => sortNameOK st.env n && FragSort body | none => false)
       | _ => false)
    else if c == "set-info" || c == "set-option" then (toksOf args).map List.length == some 2
    else false
  | _ => false

/-- the `Command` the parser is expected to build, computed on the standard's side -/
def declCommand (st : StdState) : Sexp → Command
  | .list (.atom c :: args) =>
    if c == "set-logic" then
      (match args with
       | [.atom l] => .setLogic ((logicEntry (pyTok l)).map (·.1))
       | _ => default)
    else if c == "declare-sort" then
      (match args with
       | [.atom s, .atom _] => .declareSort (pyTok s) 0
       | _ => default)
    else if c == "declare-fun" then
      (match args with
       | [.atom f, .list ps, r] => .declare "declare-fun" (declSym st.env (pyTok f) ps r)
       | _ => default)
    else if c == "declare-const" then
      (match args with
       | [.atom f, r] => .declare "declare-const" (declSym st.env (pyTok f) [] r)
       | _ => default)
    else if c == "define-sort" then
      (match args with
       | [.atom s, .list [], body] => .defineSort (pyTok s) ((sortStd st.env body).toOption.getD .bool)
       | _ => default)
    else if c == "set-info" || c == "set-option" then .plain c ((toksOf args).getD [])
    else default
  | _ => default

/-! ## dispatch on a literal command name -/

theorem pyTok_declCmds : pyTok "declare-const" = "declare-const" ∧ pyTok "define-sort" = "define-sort" ∧
    pyTok "get-value" = "get-value" ∧ pyTok "check-sat-assuming" = "check-sat-assuming" := by
  decide +kernel

theorem cmdDeclareConst_eq (Γ : PEnv) (args : List Sexp) :
    cmd Γ (.list (.atom "declare-const" :: args)) = cmdDeclareConst Γ args := by
  simp only [cmd, pyTok_declCmds.1]
  simp (config := { decide := true }) only [cmdNamed, if_true, if_false]

theorem cmdDefineSort_eq (Γ : PEnv) (args : List Sexp) :
    cmd Γ (.list (.atom "define-sort" :: args)) = cmdDefineSort Γ args := by
  simp only [cmd, pyTok_declCmds.2.1]
  simp (config := { decide := true }) only [cmdNamed, if_true, if_false]

theorem cmdNamed_getValue (Γ : PEnv) (args : List Sexp) :
    cmdNamed Γ "get-value" args = cmdTerms Γ "get-value" args := by
  unfold cmdNamed
  have h1 : ("get-value" == "assert") = false := by decide
  have h2 : ("get-value" == "set-logic") = false := by decide
  have h3 : ("get-value" == "set-info" || "get-value" == "set-option") = false := by decide
  have h4 : ("get-value" == "get-info" || "get-value" == "get-option" || "get-value" == "echo") = false := by decide
  have h5 : noArgCommands.contains "get-value" = false := by decide +kernel
  have h6 : ("get-value" == "push") = false := by decide
  have h7 : ("get-value" == "pop") = false := by decide
  have h8 : ("get-value" == "declare-sort") = false := by decide
  have h9 : ("get-value" == "define-sort") = false := by decide
  have h10 : ("get-value" == "declare-fun") = false := by decide
  have h11 : ("get-value" == "declare-const") = false := by decide
  have h12 : ("get-value" == "define-fun") = false := by decide
  have h13 : ("get-value" == "get-value" || "get-value" == "check-sat-assuming" || "get-value" == "check-allsat") = true := by decide
  simp only [h1, h2, h3, h4, h5, h6, h7, h8, h9, h10, h11, h12, h13, Bool.false_eq_true, if_false, if_true]

theorem cmdGetValue_eq (Γ : PEnv) (args : List Sexp) :
    cmd Γ (.list (.atom "get-value" :: args)) = cmdTerms Γ "get-value" args := by
  have hc : Gen.ParserOps.commands.any (fun e => e.1 == "get-value") = true := by decide +kernel
  simp only [cmd, pyTok_declCmds.2.2.1, hc, if_true]
  exact cmdNamed_getValue Γ args

theorem cmdNamed_checkSatAssuming (Γ : PEnv) (args : List Sexp) :
    cmdNamed Γ "check-sat-assuming" args = cmdTerms Γ "check-sat-assuming" args := by
  unfold cmdNamed
  have h1 : ("check-sat-assuming" == "assert") = false := by decide
  have h2 : ("check-sat-assuming" == "set-logic") = false := by decide
  have h3 : ("check-sat-assuming" == "set-info" || "check-sat-assuming" == "set-option") = false := by decide
  have h4 : ("check-sat-assuming" == "get-info" || "check-sat-assuming" == "get-option" || "check-sat-assuming" == "echo") = false := by decide
  have h5 : noArgCommands.contains "check-sat-assuming" = false := by decide +kernel
  have h6 : ("check-sat-assuming" == "push") = false := by decide
  have h7 : ("check-sat-assuming" == "pop") = false := by decide
  have h8 : ("check-sat-assuming" == "declare-sort") = false := by decide
  have h9 : ("check-sat-assuming" == "define-sort") = false := by decide
  have h10 : ("check-sat-assuming" == "declare-fun") = false := by decide
  have h11 : ("check-sat-assuming" == "declare-const") = false := by decide
  have h12 : ("check-sat-assuming" == "define-fun") = false := by decide
  have h13 : ("check-sat-assuming" == "get-value" || "check-sat-assuming" == "check-sat-assuming" || "check-sat-assuming" == "check-allsat") = true := by decide
  simp only [h1, h2, h3, h4, h5, h6, h7, h8, h9, h10, h11, h12, h13, Bool.false_eq_true, if_false, if_true]

theorem cmdCheckSatAssuming_eq (Γ : PEnv) (args : List Sexp) :
    cmd Γ (.list (.atom "check-sat-assuming" :: args)) = cmdTerms Γ "check-sat-assuming" args := by
  have hc : Gen.ParserOps.commands.any (fun e => e.1 == "check-sat-assuming") = true := by decide +kernel
  simp only [cmd, pyTok_declCmds.2.2.2, hc, if_true]
  exact cmdNamed_checkSatAssuming Γ args

theorem stepStd_setLogic (st : StdState) (args : List Sexp) :
    stepStd st (.list (.atom "set-logic" :: args)) = stepSetLogic st args := by
  simp (config := { decide := true }) only [stepStd, if_true, if_false]

theorem stepStd_declareSort (st : StdState) (args : List Sexp) :
    stepStd st (.list (.atom "declare-sort" :: args)) = stepDeclareSort st args := by
  simp (config := { decide := true }) only [stepStd, if_true, if_false]

theorem stepStd_declareFun (st : StdState) (args : List Sexp) :
    stepStd st (.list (.atom "declare-fun" :: args)) = stepDeclareFun st args := by
  simp (config := { decide := true }) only [stepStd, if_true, if_false]

theorem stepStd_declareConst (st : StdState) (args : List Sexp) :
    stepStd st (.list (.atom "declare-const" :: args)) = stepDeclareConst st args := by
  simp (config := { decide := true }) only [stepStd, if_true, if_false]

theorem stepStd_defineSort (st : StdState) (args : List Sexp) :
    stepStd st (.list (.atom "define-sort" :: args)) = stepDefineSort st args := by
  simp (config := { decide := true }) only [stepStd, if_true, if_false]

theorem stepStd_assert (st : StdState) (args : List Sexp) :
    stepStd st (.list (.atom "assert" :: args)) = stepAssert st args := by
  simp (config := { decide := true }) only [stepStd, if_true, if_false]

theorem stepStd_getValue (st : StdState) (args : List Sexp) :
    stepStd st (.list (.atom "get-value" :: args)) = stepTerms st false "get-value" args := by
  simp (config := { decide := true }) only [stepStd, if_true, if_false]

theorem stepStd_checkSatAssuming (st : StdState) (args : List Sexp) :
    stepStd st (.list (.atom "check-sat-assuming" :: args)) = stepTerms st true "check-sat-assuming" args := by
  simp (config := { decide := true }) only [stepStd, if_true, if_false]

/-! ## `mgr.Symbol(name, type)` -/

/-- `get_or_create_symbol` succeeds when the manager's symbol of that name (if any) is this very one -/
theorem mkSymbol_inRho (σ : MgrSt) (ρ : List (String × Sym)) (s : Sym) (hm : MgrLe σ ρ)
    (hρ : ρ.lookup s.name = some s) (hn : pnameOK s.name = true) :
    ∃ σ', mkSymbol σ s = .ok (s, σ') ∧ MgrLe σ' ρ ∧ σ'.sorts = σ.sorts := by
  have hne : s.name.isEmpty = false := name_nonempty hn
  unfold mkSymbol
  simp only [hne, Bool.false_eq_true, if_false]
  cases hfind : σ.symbols.find? (fun e => e.1 == s.name) with
  | none =>
    refine ⟨_, rfl, ?_, rfl⟩
    intro e he
    simp only [List.mem_cons] at he
    rcases he with rfl | he
    · exact hρ
    · exact hm e he
  | some e =>
    obtain ⟨k, s'⟩ := e
    have hmem := List.mem_of_find?_eq_some hfind
    have hk : k = s.name := by
      have := List.find?_some hfind
      simpa using this
    have := hm _ hmem
    simp only [hk, hρ, Option.some.injEq] at this
    subst this
    simp only [if_true]
    exact ⟨σ, rfl, hm, rfl⟩

example : ∃ σ', mkSymbol {} ⟨"x", [], .int⟩ = .ok (⟨"x", [], .int⟩, σ') ∧ MgrLe σ' [("x", ⟨"x", [], .int⟩)] ∧
    σ'.sorts = [] :=
  mkSymbol_inRho {} [("x", ⟨"x", [], .int⟩)] ⟨"x", [], .int⟩ (mgrLe_init _) (by decide) (by decide)

/-! ## `declare-fun`, `declare-const`

(examples for the step lemmas and for `decls_refine`: end of `Proofs/C08Script3.lean`) -/

theorem declSym_refine (ρ : List (String × Sym)) (st st' : StdState) (Γ : PEnv) (n : String) (ps : List Sexp) (r : Sexp)
    (hok : declSymOK ρ st.env n ps r = true) (hstd : declareSymIn st n ps r = .ok st') (hr : Refines ρ st Γ) :
    ∃ σ', readTyList Γ.binds [] ps = .ok (declSym st.env n ps r).params ∧
      readTy Γ.binds [] r = .ok (declSym st.env n ps r).ret ∧
      (declSym st.env n ps r).params.isEmpty = ps.isEmpty ∧
      mkSymbol Γ.mgr (declSym st.env n ps r) = .ok (declSym st.env n ps r, σ') ∧
      Refines ρ st' { Γ with binds := (n, declVal (declSym st.env n ps r)) :: Γ.binds, mgr := σ' } := by
  simp only [declSymOK, Bool.and_eq_true, Option.isNone_iff_eq_none, decide_eq_true_eq, Bool.or_eq_true] at hok
  obtain ⟨⟨⟨⟨⟨⟨hn, hs⟩, ha⟩, hfl⟩, hfr⟩, htok⟩, hρ⟩ := hok
  unfold declareSymIn at hstd
  split at hstd
  · cases hstd
  · cases h1 : sortStdList st.env ps with
    | error e => simp [h1] at hstd
    | ok ptys =>
      cases h2 : sortStd st.env r with
      | error e => simp [h1, h2] at hstd
      | ok rty =>
        simp only [h1, h2, Except.ok.injEq] at hstd
        subst hstd
        have hsym : declSym st.env n ps r = ⟨n, ptys, rty⟩ := by simp [declSym, h1, h2, Except.toOption]
        rw [hsym] at htok hρ ⊢
        obtain ⟨σ', hmk, hm', hso⟩ := mkSymbol_inRho Γ.mgr ρ ⟨n, ptys, rty⟩ hr.mgr hρ (nameOK1_inv hn).1
        have hlen := sortStdList_length st.env ps ptys h1
        refine ⟨σ', readTyList_agree _ _ hr.corr ps ptys hfl h1,
          readTy_agree _ [] _ hr.corr Lit.pyInt_numeral r rty hfr h2, ?_, hmk, ?_, hm', ?_⟩
        · cases ps <;> cases ptys <;> simp_all
        · exact corr_declFun hr.corr ⟨n, ptys, rty⟩ hn hs ha (fun hp => by
            rcases htok with h | h
            · rw [hp] at h; cases h
            · simpa using h) σ'
        · intro e he
          exact hr.sorts0 e (by rw [← hso]; exact he)

theorem step_declareFun (ρ : List (String × Sym)) (st st' : StdState) (Γ : PEnv) (args : List Sexp)
    (hok : declCmdOK ρ st (.list (.atom "declare-fun" :: args)) = true)
    (hstd : stepStd st (.list (.atom "declare-fun" :: args)) = .ok st') (hr : Refines ρ st Γ) :
    ∃ Γ', cmd Γ (.list (.atom "declare-fun" :: args)) = .ok (Γ', declCommand st (.list (.atom "declare-fun" :: args)))
      ∧ Refines ρ st' Γ' := by
  rw [stepStd_declareFun] at hstd
  rw [cmd_declareFun_eq]
  simp (config := { decide := true }) only [declCmdOK, if_true, if_false] at hok
  simp (config := { decide := true }) only [declCommand, if_true, if_false]
  split at hok
  · rename_i f ps r
    cases hsn : symName? f with
    | none => simp [hsn] at hok
    | some n =>
      simp only [hsn] at hok
      simp only [stepDeclareFun, hsn] at hstd
      obtain ⟨σ', h1, h2, h3, h4, h5⟩ := declSym_refine ρ st st' Γ n ps r hok hstd hr
      refine ⟨_, ?_, h5⟩
      have he : (⟨n, (declSym st.env n ps r).params, (declSym st.env n ps r).ret⟩ : Sym) = declSym st.env n ps r := rfl
      simp only [cmdDeclareFun, pyTok_of_symName hsn, h1, h2, he, h4]
      rfl
  · cases hok

theorem step_declareConst (ρ : List (String × Sym)) (st st' : StdState) (Γ : PEnv) (args : List Sexp)
    (hok : declCmdOK ρ st (.list (.atom "declare-const" :: args)) = true)
    (hstd : stepStd st (.list (.atom "declare-const" :: args)) = .ok st') (hr : Refines ρ st Γ) :
    ∃ Γ', cmd Γ (.list (.atom "declare-const" :: args))
        = .ok (Γ', declCommand st (.list (.atom "declare-const" :: args))) ∧ Refines ρ st' Γ' := by
  rw [stepStd_declareConst] at hstd
  rw [cmdDeclareConst_eq]
  simp (config := { decide := true }) only [declCmdOK, if_true, if_false] at hok
  simp (config := { decide := true }) only [declCommand, if_true, if_false]
  split at hok
  · rename_i f r
    cases hsn : symName? f with
    | none => simp [hsn] at hok
    | some n =>
      simp only [hsn] at hok
      simp only [stepDeclareConst, hsn] at hstd
      obtain ⟨σ', h1, h2, h3, h4, h5⟩ := declSym_refine ρ st st' Γ n [] r hok hstd hr
      have hp : (declSym st.env n [] r).params = [] := by simpa using h3
      have he : Sym.var n (declSym st.env n [] r).ret = declSym st.env n [] r := by
        rw [Sym.var, ← hp]; rfl
      have hv : declVal (declSym st.env n [] r) = .term (Term.sym (declSym st.env n [] r)) := by
        simp [declVal, hp]
      rw [hv] at h5
      refine ⟨_, ?_, h5⟩
      simp only [cmdDeclareConst, pyTok_of_symName hsn, h2, he, h4]
  · cases hok

/-! ## `declare-sort`, `define-sort`, `set-logic` -/

theorem step_declareSort (ρ : List (String × Sym)) (st st' : StdState) (Γ : PEnv) (args : List Sexp)
    (hok : declCmdOK ρ st (.list (.atom "declare-sort" :: args)) = true)
    (hstd : stepStd st (.list (.atom "declare-sort" :: args)) = .ok st') (hr : Refines ρ st Γ) :
    ∃ Γ', cmd Γ (.list (.atom "declare-sort" :: args))
        = .ok (Γ', declCommand st (.list (.atom "declare-sort" :: args))) ∧ Refines ρ st' Γ' := by
  rw [stepStd_declareSort] at hstd
  rw [cmd_declareSort_eq]
  simp (config := { decide := true }) only [declCmdOK, if_true, if_false] at hok
  simp (config := { decide := true }) only [declCommand, if_true, if_false]
  split at hok
  · rename_i s k
    cases hsn : symName? s with
    | none => simp [hsn] at hok
    | some n =>
      simp only [hsn, Bool.and_eq_true, beq_iff_eq, sortNameOK, Option.isNone_iff_eq_none] at hok
      obtain ⟨⟨hn, hf⟩, hk⟩ := hok
      simp only [stepDeclareSort, hsn, hk, declareSortIn] at hstd
      split at hstd
      · cases hstd
      · simp only [Except.ok.injEq] at hstd
        subst hstd
        have hnum := Lit.pyInt_numeral k 0 hk
        simp only [cmdDeclareSort, toksOf, tokOf, pyTok_of_symName hsn, hnum]
        simp only [Int.natCast_zero, Int.lt_irrefl, if_false, if_true, Int.toNat_zero]
        cases hfind : Γ.mgr.sorts.find? (fun e => e.1 == n) with
        | none =>
          refine ⟨_, rfl, corr_declSort hr.corr n hn hf _, hr.mgr, ?_⟩
          intro e he
          simp only [List.mem_cons] at he
          rcases he with rfl | he
          · rfl
          · exact hr.sorts0 e he
        | some e =>
          obtain ⟨k', a'⟩ := e
          have ha' : a' = 0 := hr.sorts0 _ (List.mem_of_find?_eq_some hfind)
          subst ha'
          simp only [ne_eq, not_true_eq_false, if_false]
          exact ⟨_, rfl, corr_declSort hr.corr n hn hf _, hr.mgr, hr.sorts0⟩
  · cases hok

theorem step_defineSort (ρ : List (String × Sym)) (st st' : StdState) (Γ : PEnv) (args : List Sexp)
    (hok : declCmdOK ρ st (.list (.atom "define-sort" :: args)) = true)
    (hstd : stepStd st (.list (.atom "define-sort" :: args)) = .ok st') (hr : Refines ρ st Γ) :
    ∃ Γ', cmd Γ (.list (.atom "define-sort" :: args))
        = .ok (Γ', declCommand st (.list (.atom "define-sort" :: args))) ∧ Refines ρ st' Γ' := by
  rw [stepStd_defineSort] at hstd
  rw [cmdDefineSort_eq]
  simp (config := { decide := true }) only [declCmdOK, if_true, if_false] at hok
  simp (config := { decide := true }) only [declCommand, if_true, if_false]
  split at hok
  · rename_i s body
    cases hsn : symName? s with
    | none => simp [hsn] at hok
    | some n =>
      simp only [hsn, Bool.and_eq_true, sortNameOK, Option.isNone_iff_eq_none] at hok
      obtain ⟨⟨hn, hf⟩, hfr⟩ := hok
      simp only [stepDefineSort, hsn] at hstd
      split at hstd
      · cases hstd
      · rename_i hfree
        simp only [Bool.or_eq_true, not_or, Bool.not_eq_true, Option.isSome_eq_false_iff, Option.isNone_iff_eq_none] at hfree
        cases h2 : sortStd st.env body with
        | error e => simp [h2] at hstd
        | ok ty =>
          simp only [h2, Except.ok.injEq] at hstd
          subst hstd
          have hrd := readTy_agree _ [] _ hr.corr Lit.pyInt_numeral body ty hfr h2
          simp only [cmdDefineSort, toksOf, pyTok_of_symName hsn, hrd, Except.toOption, Option.getD]
          exact ⟨_, rfl, corr_defSort hr.corr n ty hn hf hfree.1.2, hr.mgr, hr.sorts0⟩
  · cases hok

theorem step_setLogic (ρ : List (String × Sym)) (st st' : StdState) (Γ : PEnv) (args : List Sexp)
    (hok : declCmdOK ρ st (.list (.atom "set-logic" :: args)) = true)
    (hstd : stepStd st (.list (.atom "set-logic" :: args)) = .ok st') (hr : Refines ρ st Γ) :
    ∃ Γ', cmd Γ (.list (.atom "set-logic" :: args))
        = .ok (Γ', declCommand st (.list (.atom "set-logic" :: args))) ∧ Refines ρ st' Γ' := by
  rw [stepStd_setLogic] at hstd
  rw [cmd_setLogic_eq]
  simp (config := { decide := true }) only [declCmdOK, if_true, if_false] at hok
  simp (config := { decide := true }) only [declCommand, if_true, if_false]
  split at hok
  · rename_i l
    cases hsn : symName? l with
    | none => simp [hsn] at hok
    | some n =>
      simp only [hsn, Bool.and_eq_true, Bool.not_eq_true'] at hok
      obtain ⟨hl, hro⟩ := hok
      simp only [stepSetLogic, hsn] at hstd
      split at hstd
      · cases hstd
      · simp only [Except.ok.injEq] at hstd
        subst hstd
        have hia := logicOK_ia n hl
        simp only [cmdSetLogic, toksOf, tokOf, pyTok_of_symName hsn]
        unfold logicEntry at hia ⊢
        cases hfind : Gen.ParserOps.logics.find? (fun e => lower e.1 == lower n) with
        | none =>
          rw [hfind] at hia
          have hkeep : Γ.intArith.getD true = !(realsOnlyLogics.contains n) := by
            rw [hr.corr.logic, hro]
            simpa using hia
          exact ⟨_, rfl, corr_setLogic hr.corr n Γ.intArith hkeep, hr.mgr, hr.sorts0⟩
        | some e =>
          obtain ⟨nm, ia⟩ := e
          rw [hfind] at hia
          exact ⟨_, rfl, corr_setLogic hr.corr n (some ia) hia, hr.mgr, hr.sorts0⟩
  · cases hok

/-! ## `set-info`, `set-option`: ignored by the standard's interpreter, read as tokens by the parser -/

theorem cmdNamed_setInfo (Γ : PEnv) (args : List Sexp) :
    cmdNamed Γ "set-info" args = cmdAtoms Γ "set-info" 2 args := by
  unfold cmdNamed
  have h1 : ("set-info" == "assert") = false := by decide
  have h2 : ("set-info" == "set-logic") = false := by decide
  have h3 : ("set-info" == "set-info" || "set-info" == "set-option") = true := by decide
  simp only [h1, h2, h3, Bool.false_eq_true, if_false, if_true]

theorem cmdSetInfo_eq (Γ : PEnv) (args : List Sexp) :
    cmd Γ (.list (.atom "set-info" :: args)) = cmdAtoms Γ "set-info" 2 args := by
  have hc : Gen.ParserOps.commands.any (fun e => e.1 == "set-info") = true := by decide +kernel
  have hp : pyTok "set-info" = "set-info" := by decide +kernel
  simp only [cmd, hp, hc, if_true]
  exact cmdNamed_setInfo Γ args

theorem stepStd_setInfo (st : StdState) (args : List Sexp) :
    stepStd st (.list (.atom "set-info" :: args)) = .ok st := by
  simp (config := { decide := true }) only [stepStd, if_true, if_false]

theorem step_setInfo (ρ : List (String × Sym)) (st st' : StdState) (Γ : PEnv) (args : List Sexp)
    (hok : declCmdOK ρ st (.list (.atom "set-info" :: args)) = true)
    (hstd : stepStd st (.list (.atom "set-info" :: args)) = .ok st') (hr : Refines ρ st Γ) :
    ∃ Γ', cmd Γ (.list (.atom "set-info" :: args))
        = .ok (Γ', declCommand st (.list (.atom "set-info" :: args))) ∧ Refines ρ st' Γ' := by
  rw [stepStd_setInfo] at hstd
  cases hstd
  rw [cmdSetInfo_eq]
  simp (config := { decide := true }) only [declCmdOK, if_true, if_false] at hok
  simp (config := { decide := true }) only [declCommand, if_true, if_false]
  cases ht : toksOf args with
  | none => simp [ht] at hok
  | some l =>
    have hl : l.length = 2 := by simpa [ht] using hok
    refine ⟨Γ, ?_, hr⟩
    simp only [cmdAtoms, ht, hl, if_true]
    rfl

theorem cmdNamed_setOption (Γ : PEnv) (args : List Sexp) :
    cmdNamed Γ "set-option" args = cmdAtoms Γ "set-option" 2 args := by
  unfold cmdNamed
  have h1 : ("set-option" == "assert") = false := by decide
  have h2 : ("set-option" == "set-logic") = false := by decide
  have h3 : ("set-option" == "set-info" || "set-option" == "set-option") = true := by decide
  simp only [h1, h2, h3, Bool.false_eq_true, if_false, if_true]

theorem cmdSetOption_eq (Γ : PEnv) (args : List Sexp) :
    cmd Γ (.list (.atom "set-option" :: args)) = cmdAtoms Γ "set-option" 2 args := by
  have hc : Gen.ParserOps.commands.any (fun e => e.1 == "set-option") = true := by decide +kernel
  have hp : pyTok "set-option" = "set-option" := by decide +kernel
  simp only [cmd, hp, hc, if_true]
  exact cmdNamed_setOption Γ args

theorem stepStd_setOption (st : StdState) (args : List Sexp) :
    stepStd st (.list (.atom "set-option" :: args)) = .ok st := by
  simp (config := { decide := true }) only [stepStd, if_true, if_false]

theorem step_setOption (ρ : List (String × Sym)) (st st' : StdState) (Γ : PEnv) (args : List Sexp)
    (hok : declCmdOK ρ st (.list (.atom "set-option" :: args)) = true)
    (hstd : stepStd st (.list (.atom "set-option" :: args)) = .ok st') (hr : Refines ρ st Γ) :
    ∃ Γ', cmd Γ (.list (.atom "set-option" :: args))
        = .ok (Γ', declCommand st (.list (.atom "set-option" :: args))) ∧ Refines ρ st' Γ' := by
  rw [stepStd_setOption] at hstd
  cases hstd
  rw [cmdSetOption_eq]
  simp (config := { decide := true }) only [declCmdOK, if_true, if_false] at hok
  simp (config := { decide := true }) only [declCommand, if_true, if_false]
  cases ht : toksOf args with
  | none => simp [ht] at hok
  | some l =>
    have hl : l.length = 2 := by simpa [ht] using hok
    refine ⟨Γ, ?_, hr⟩
    simp only [cmdAtoms, ht, hl, if_true]
    rfl

/-! ## one command of the fragment -/

/-- **One declaration command.** Whenever the standard accepts a command of the fragment in a state the parser's
environment refines, the parser model accepts it with the expected `Command`, and refines the new state. -/
theorem step_decl (ρ : List (String × Sym)) (st st' : StdState) (Γ : PEnv) (c : Sexp)
    (hok : declCmdOK ρ st c = true) (hstd : stepStd st c = .ok st') (hr : Refines ρ st Γ) :
    ∃ Γ', cmd Γ c = .ok (Γ', declCommand st c) ∧ Refines ρ st' Γ' := by
  match c, hok, hstd with
  | .atom _, hok, _ => simp [declCmdOK] at hok
  | .str _, hok, _ => simp [declCmdOK] at hok
  | .list [], hok, _ => simp [declCmdOK] at hok
  | .list (.str _ :: _), hok, _ => simp [declCmdOK] at hok
  | .list (.list _ :: _), hok, _ => simp [declCmdOK] at hok
  | .list (.atom h :: args), hok, hstd =>
    by_cases h1 : h = "set-logic"
    · subst h1; exact step_setLogic ρ st st' Γ args hok hstd hr
    by_cases h2 : h = "declare-sort"
    · subst h2; exact step_declareSort ρ st st' Γ args hok hstd hr
    by_cases h3 : h = "declare-fun"
    · subst h3; exact step_declareFun ρ st st' Γ args hok hstd hr
    by_cases h4 : h = "declare-const"
    · subst h4; exact step_declareConst ρ st st' Γ args hok hstd hr
    by_cases h5 : h = "define-sort"
    · subst h5; exact step_defineSort ρ st st' Γ args hok hstd hr
    by_cases h6 : h = "set-info"
    · subst h6; exact step_setInfo ρ st st' Γ args hok hstd hr
    by_cases h7 : h = "set-option"
    · subst h7; exact step_setOption ρ st st' Γ args hok hstd hr
    simp [declCmdOK, h1, h2, h3, h4, h5, h6, h7] at hok

/-! ## command lists -/

/-- the side condition of a list of declaration commands: `declCmdOK` of each, in the standard's state before it -/
def declCmdsOK (ρ : List (String × Sym)) : StdState → List Sexp → Bool
  | _, [] => true
  | st, c :: rest =>
    declCmdOK ρ st c && (match stepStd st c with | .ok st' => declCmdsOK ρ st' rest | .error _ => true)

/-- the `Command`s the parser is expected to build -/
def declCommands : StdState → List Sexp → List Command
  | _, [] => []
  | st, c :: rest => declCommand st c :: (match stepStd st c with | .ok st' => declCommands st' rest | .error _ => [])

/-- **Declaration prefixes.** Whenever the standard accepts a list of commands of the fragment (`set-logic`,
`declare-sort` of arity 0, `declare-fun`, `declare-const`, parameterless `define-sort`, `set-info`, `set-option`; side
condition `declCmdsOK`),
started in a state the parser's environment refines, the parser model accepts it too, builds the expected `Command`s, and
its final environment refines the standard's final state: the environments correspond (`Corr`), so that
`readTerm_agree` / `readTerm_sound` apply to the terms that follow. -/
theorem decls_refine (ρ : List (String × Sym)) : ∀ (cs : List Sexp) (st st' : StdState) (k : Nat) (Γ : PEnv),
    declCmdsOK ρ st cs = true → runStdFrom st k cs = .ok st' → Refines ρ st Γ →
    ∃ Γ', envAfter Γ cs = .ok Γ' ∧ script Γ cs = .ok (declCommands st cs) ∧ Refines ρ st' Γ'
  | [], st, st', k, Γ, _, hrun, hr => by
    simp only [runStdFrom, Except.ok.injEq] at hrun
    subst hrun
    exact ⟨Γ, rfl, rfl, hr⟩
  | c :: rest, st, st', k, Γ, hok, hrun, hr => by
    rw [declCmdsOK] at hok
    rw [runStdFrom] at hrun
    cases hstep : stepStd st c with
    | error e => simp [hstep] at hrun
    | ok st1 =>
      simp only [hstep, Bool.and_eq_true] at hok hrun
      obtain ⟨Γ1, hcmd, hr1⟩ := step_decl ρ st st1 Γ c hok.1 hstep hr
      obtain ⟨Γ', h1, h2, h3⟩ := decls_refine ρ rest st1 st' (k + 1) Γ1 hok.2 hrun hr1
      refine ⟨Γ', ?_, ?_, h3⟩
      · rw [envAfter_cons_ok hcmd, h1]
      · rw [script_cons_ok hcmd, h2, declCommands, hstep]
        rfl

theorem runStdFrom_append : ∀ (l1 l2 : List Sexp) (st st'' : StdState) (k : Nat),
    runStdFrom st k (l1 ++ l2) = .ok st'' →
    ∃ st', runStdFrom st k l1 = .ok st' ∧ runStdFrom st' (k + l1.length) l2 = .ok st''
  | [], l2, st, st'', k, h => ⟨st, rfl, by simpa using h⟩
  | c :: l1, l2, st, st'', k, h => by
    rw [List.cons_append, runStdFrom] at h
    cases hstep : stepStd st c with
    | error e => simp [hstep] at h
    | ok st1 =>
      simp only [hstep] at h
      obtain ⟨st', h1, h2⟩ := runStdFrom_append l1 l2 st1 st'' (k + 1) h
      refine ⟨st', ?_, ?_⟩
      · rw [runStdFrom, hstep]; exact h1
      · rw [List.length_cons]
        have : k + (l1.length + 1) = k + 1 + l1.length := by omega
        rw [this]; exact h2

theorem runStdFrom_single {st st' : StdState} {k : Nat} {c : Sexp} (h : runStdFrom st k [c] = .ok st') :
    stepStd st c = .ok st' := by
  rw [runStdFrom] at h
  cases hstep : stepStd st c with
  | error e => simp [hstep] at h
  | ok st1 =>
    simp only [hstep, runStdFrom, Except.ok.injEq] at h
    rw [h]

end PySMT.Parser.Agree
