import PySMT.Proofs.C05Type
import PySMT.Proofs.C05Spec
import PySMT.Proofs.SimpSorts
import PySMT.Proofs.C05Array
/-!
# C05 — the substitution lemma (`subst_lemma`) and the interpretation lemma (`interp_lemma`)
-/
namespace PySMT.Subst
open PySMT.Build PySMT.SubstSpec

/-! ## value of a rebuilt node -/

theorem eval_realConst (I : Interp) (q : Rat) : eval I (Term.real q) = .r q := by
  rw [Term.real, eval_plain I _ _ _ (by decide) (by decide) rfl]; rfl

theorem eval_intConst (I : Interp) (v : Int) : eval I (.node .intConst [] (.i v)) = .i v := by
  rw [eval_plain I _ _ _ (by decide) (by decide) rfl]; rfl

theorem rat_div_eq (x c : Rat) : x / c = x * (1 / c) := by
  rw [Rat.div_def, Rat.div_def, Rat.one_mul]

theorem eval_shape {I : Interp} {op : Op} {p : Payload} {as' : List Term} {r : Term}
    (h1 : op ≠ .symbol) (h2 : op ≠ .function) (h3 : op.isQuantifier = false)
    (hs : Shape op p as' r)
    (hnot : ∀ b pl, as' = [.node .not [b] pl] → ∃ bb, eval I b = .b bb)
    (harr : op = .arrayValue → eval I (mkArray p as') = evalOp I .arrayValue p (as'.map (eval I))) :
    eval I r = evalOp I op p (as'.map (eval I)) := by
  cases hs with
  | node => exact eval_plain I op as' p h1 h2 h3
  | notNot b pl ho ha =>
    subst ho; subst ha
    obtain ⟨bb, hb⟩ := hnot r pl rfl
    simp only [List.map_cons, List.map_nil]
    rw [eval_plain I .not [r] pl (by decide) (by decide) rfl]
    simp only [List.map_cons, List.map_nil, hb]
    cases bb <;> rfl
  | toRealConst v ho ha =>
    subst ho; subst ha
    simp only [List.map_cons, List.map_nil, eval_realConst, eval_intConst]
    rfl
  | divConst a' c ho hc ha =>
    subst ho; subst ha
    rw [eval_plain I .times _ _ (by decide) (by decide) rfl]
    simp only [List.map_cons, List.map_nil, eval_realConst]
    have hrc : eval I (.node .realConst [] (.q c)) = .r c := eval_realConst I c
    rw [hrc]
    cases hv : eval I a' with
    | r x =>
      simp only [evalOp, Sem.prod, List.foldl, Sem.mul, Sem.div, hc, if_false]
      rw [rat_div_eq x c]
    | _ => simp [evalOp, Sem.prod, Sem.mul, Sem.div]
  | array ho => subst ho; exact harr rfl

/-! ## symbol-keyed maps -/

theorem lookup_toTMap_sym : ∀ (σ : SMap) (x : Sym), lookup σ.toTMap (Term.sym x) = σ.get x
  | [], _ => rfl
  | (k, v) :: rest, x => by
    simp only [SMap.toTMap, List.map_cons, lookup, SMap.get]
    by_cases h : k = x
    · subst h; simp
    · have : Term.sym k ≠ Term.sym x := by
        intro e; apply h; simp only [Term.sym, Term.node.injEq, Payload.sym.injEq, true_and] at e; exact e
      simp only [this, h, if_false]
      exact lookup_toTMap_sym rest x

theorem lookup_toTMap_ne : ∀ (σ : SMap) (t : Term), (∀ x, t ≠ Term.sym x) → lookup σ.toTMap t = none
  | [], _, _ => rfl
  | (k, v) :: rest, t, h => by
    simp only [SMap.toTMap, List.map_cons, lookup]
    have : Term.sym k ≠ t := fun e => h k e.symm
    simp only [this, if_false]
    exact lookup_toTMap_ne rest t h

theorem fv_sym (x : Sym) : (Term.sym x).fv = [x] := by
  rw [Term.sym, fv_symbol]

theorem restrict_toTMap (σ : SMap) (vs : List Sym) : restrict σ.toTMap vs = (σ.drop vs).toTMap := by
  simp only [restrict, SMap.toTMap, SMap.drop, List.filter_map]
  congr 1
  apply List.filter_congr
  intro kv _
  simp [keyFree, fv_sym]

theorem get_drop : ∀ (σ : SMap) (vs : List Sym) (y : Sym),
    (σ.drop vs).get y = if vs.contains y then none else σ.get y
  | [], vs, y => by simp [SMap.drop, SMap.get]
  | (k, v) :: rest, vs, y => by
    have ih := get_drop rest vs y
    simp only [SMap.drop] at ih ⊢
    by_cases hk : vs.contains k = true
    · simp only [List.filter_cons, hk, Bool.not_true, Bool.false_eq_true, if_false, ih, SMap.get]
      by_cases hy : k = y
      · subst hy; simp only [hk, if_true]
      · simp only [hy, if_false]
    · simp only [Bool.not_eq_true] at hk
      simp only [List.filter_cons, hk, Bool.not_false, if_true, SMap.get, ih]
      by_cases hy : k = y
      · subst hy; simp only [hk, if_true, Bool.false_eq_true, if_false]
      · simp only [hy, if_false]

/-! ## the updated interpretation under binders -/

theorem bindMany_fn : ∀ (l : List (Sym × Val)) (I : Interp), (I.bindMany l).fn = I.fn
  | [], _ => rfl
  | (s, v) :: rest, I => by rw [Interp.bindMany, bindMany_fn rest]; rfl
theorem bindMany_dom : ∀ (l : List (Sym × Val)) (I : Interp), (I.bindMany l).dom = I.dom
  | [], _ => rfl
  | (s, v) :: rest, I => by rw [Interp.bindMany, bindMany_dom rest]; rfl
theorem bindMany_div0r : ∀ (l : List (Sym × Val)) (I : Interp), (I.bindMany l).div0r = I.div0r
  | [], _ => rfl
  | (s, v) :: rest, I => by rw [Interp.bindMany, bindMany_div0r rest]; rfl
theorem bindMany_div0i : ∀ (l : List (Sym × Val)) (I : Interp), (I.bindMany l).div0i = I.div0i
  | [], _ => rfl
  | (s, v) :: rest, I => by rw [Interp.bindMany, bindMany_div0i rest]; rfl

/-- the value of a symbol bound by the list does not depend on the base interpretation -/
theorem bindMany_sym_mem : ∀ (l : List (Sym × Val)) (I J : Interp) (y : Sym), y ∈ l.map Prod.fst →
    (I.bindMany l).sym y = (J.bindMany l).sym y
  | (s, v) :: rest, I, J, y, hy => by
    simp only [Interp.bindMany]
    by_cases hr : y ∈ rest.map Prod.fst
    · exact bindMany_sym_mem rest _ _ y hr
    · have hys : y = s := by
        simp only [List.map_cons, List.mem_cons] at hy
        rcases hy with h | h
        · exact h
        · exact absurd h hr
      subst hys
      have aux : ∀ (l : List (Sym × Val)) (K : Interp), y ∉ l.map Prod.fst → (K.bindMany l).sym y = K.sym y := by
        intro l
        induction l with
        | nil => intro K _; rfl
        | cons q l ih =>
          intro K hq
          obtain ⟨s', v'⟩ := q
          simp only [List.map_cons, List.mem_cons, not_or] at hq
          simp only [Interp.bindMany]
          rw [ih _ hq.2]
          simp only [Interp.bind, hq.1, if_false]
      rw [aux rest _ hr, aux rest _ hr]
      simp [Interp.bind]

theorem bindMany_sym_not_mem : ∀ (l : List (Sym × Val)) (K : Interp) (y : Sym), y ∉ l.map Prod.fst →
    (K.bindMany l).sym y = K.sym y
  | [], _, _, _ => rfl
  | (s', v') :: l, K, y, hq => by
    simp only [List.map_cons, List.mem_cons, not_or] at hq
    simp only [Interp.bindMany]
    rw [bindMany_sym_not_mem l _ y hq.2]
    simp only [Interp.bind, hq.1, if_false]

/-- the body of every definition mentions only its formal parameters -/
def DefsClosed (defs : List (Sym × Def)) : Prop :=
  ∀ fd ∈ defs, (∀ y ∈ fd.2.body.fv, y ∈ fd.2.formals) ∧ fd.2.body.fnames = []

theorem updFns_bind {defs : List (Sym × Def)} (hcl : DefsClosed defs) (I : Interp) (x : Sym) (v : Val) :
    (updFns (I.bind x v) defs).fn = (updFns I defs).fn := by
  funext f vs
  simp only [updFns]
  cases hf : (defs.find? (fun fd => fd.1 == f)).map (·.2) with
  | none => rfl
  | some d =>
    simp only
    have hmem : ∃ fd ∈ defs, fd.2 = d := by
      simp only [Option.map_eq_some_iff] at hf
      obtain ⟨fd, h1, h2⟩ := hf
      exact ⟨fd, List.mem_of_find?_eq_some h1, h2⟩
    obtain ⟨fd, hfd, rfl⟩ := hmem
    have hc := hcl fd hfd
    split
    · next hlen =>
      apply coincidence_gen
      refine ⟨?_, ?_, ?_, ?_, ?_⟩
      · intro y hy
        apply bindMany_sym_mem
        rw [List.map_fst_zip (by omega)]
        exact hc.1 y hy
      · rw [hc.2]; intro s hs; cases hs
      · rw [bindMany_dom, bindMany_dom]; rfl
      · rw [bindMany_div0r, bindMany_div0r]; rfl
      · rw [bindMany_div0i, bindMany_div0i]; rfl
    · rfl

theorem upd_sym (I : Interp) (σ : SMap) (defs : List (Sym × Def)) (y : Sym) :
    (upd I σ defs).sym y = match σ.get y with | some u => eval I u | none => I.sym y := rfl

/-- The quantifier step of the substitution lemma: evaluating the body under the interpretation
updated *inside* the binder (with the reduced map `σr`) is evaluating it under the binder applied to
the interpretation updated *outside*, provided no replacement used in the body mentions a bound
variable. -/
theorem quant_upd (all : Bool) {defs : List (Sym × Def)} (hcl : DefsClosed defs) (b : Term) (σr : SMap)
    (vs0 : List Sym) (hσr : ∀ y ∈ vs0, σr.get y = none)
    (hcap : ∀ y u, σr.get y = some u → y ∈ b.fv → ∀ z ∈ u.fv, z ∉ vs0)
    (k : Interp → Bool) (hk : ∀ J J' : Interp, J.Agree J' b.fv b.fnames → k J = k J') :
    ∀ (vs : List Sym), (∀ x ∈ vs, x ∈ vs0) → ∀ (I I' : Interp),
      I'.dom = I.dom → I'.div0r = I.div0r → I'.div0i = I.div0i →
      (∀ f, I'.fn f = (upd I σr defs).fn f) →
      (∀ y ∈ b.fv, y ∉ vs → I'.sym y = (upd I σr defs).sym y) →
      I.quant all vs (fun J => k (upd J σr defs)) = I'.quant all vs k
  | [], _, I, I', hd, hr, hi, hf, hsym => by
    simp only [Interp.quant]
    apply hk
    exact ⟨fun y hy => (hsym y hy (by simp)).symm, fun f _ => (hf f).symm, hd.symm, hr.symm, hi.symm⟩
  | x :: xs, hsub, I, I', hd, hr, hi, hf, hsym => by
    have hx0 : x ∈ vs0 := hsub x (by simp)
    have step : ∀ v, (I.bind x v).quant all xs (fun J => k (upd J σr defs)) = (I'.bind x v).quant all xs k := by
      intro v
      apply quant_upd all hcl b σr vs0 hσr hcap k hk xs (fun y hy => hsub y (List.mem_cons_of_mem _ hy))
      · exact hd
      · exact hr
      · exact hi
      · intro f
        show I'.fn f = (updFns (I.bind x v) defs).fn f
        rw [updFns_bind hcl]; exact hf f
      · intro y hy hyxs
        by_cases hyx : y = x
        · subst hyx
          rw [upd_sym, hσr y hx0]
          simp [Interp.bind]
        · have h1 := hsym y hy (by simp [hyx, hyxs])
          rw [upd_sym] at h1 ⊢
          simp only [Interp.bind, hyx, if_false]
          rw [h1]
          cases hg : σr.get y with
          | none => rfl
          | some u =>
            simp only
            apply coincidence_gen
            refine ⟨?_, fun _ _ => rfl, rfl, rfl, rfl⟩
            intro z hz
            have : z ≠ x := fun e => hcap y u hg hy z hz (e ▸ hx0)
            simp [this]
    simp only [Interp.quant, hd, step]

theorem list_all_congr {α} {l : List α} {f g : α → Bool} (h : ∀ a ∈ l, f a = g a) : l.all f = l.all g := by
  induction l with
  | nil => rfl
  | cons a l ih =>
    simp only [List.all_cons, h a (by simp), ih (fun x hx => h x (List.mem_cons_of_mem _ hx))]

theorem list_any_congr {α} {l : List α} {f g : α → Bool} (h : ∀ a ∈ l, f a = g a) : l.any f = l.any g := by
  induction l with
  | nil => rfl
  | cons a l ih =>
    simp only [List.any_cons, h a (by simp), ih (fun x hx => h x (List.mem_cons_of_mem _ hx))]

/-- pointwise equal bodies on the well-formed interpretations -/
theorem quant_congr_wf (all : Bool) (k k' : Interp → Bool) (hk : ∀ J : Interp, J.WF → k J = k' J) :
    ∀ (vs : List Sym) (I : Interp), I.WF → I.quant all vs k = I.quant all vs k'
  | [], I, hI => hk I hI
  | x :: xs, I, hI => by
    have step : ∀ v ∈ I.dom x.ret, (I.bind x v).quant all xs k = (I.bind x v).quant all xs k' :=
      fun v hv => quant_congr_wf all k k' hk xs _ (hI.bind x v (hI.dom_sort _ v hv))
    simp only [Interp.quant]
    rw [list_all_congr step, list_any_congr step]

/-! ## the substitution lemma -/

/-- a symbol-keyed, well-formed, type-correct map -/
def SMapOK (σ : SMap) : Prop :=
  ∀ kv ∈ σ, kv.1.params = [] ∧ kv.2.wf = true ∧ kv.2.typeOf = some kv.1.ret

/-- no replacement is the negation of a key: the one situation in which the most-specific strategy
replaces a symbol that was just substituted in (`Not(a)[a ↦ Not(x), x ↦ y]`, finding F50) -/
def MSSafe (σ : SMap) : Prop :=
  ∀ kv ∈ σ, ∀ b pl, kv.2 = .node .not [b] pl → lookup σ.toTMap b = none

/-- what the interpretation handler must satisfy semantically -/
structure HSem (h : FnHandler) (defs : List (Sym × Def)) : Prop where
  none_ : ∀ f as, h f as = none → (defs.find? (fun fd => fd.1 == f)).map (·.2) = none
  some_ : ∀ f as r (J : Interp), J.WF → h f as = some r → (∀ a ∈ as, a.wf = true) →
    as.map Term.typeOf = f.params.map some → eval J r = (updFns J defs).fn f (as.map (eval J))

theorem typeOf_sym_of_ok {x : Sym} (h : x.params = []) : (Term.sym x).typeOf = some x.ret := by
  rw [Term.sym, typeOf_node, typeOfNode_symbol_eq]; simp [h]

theorem SMapOK.wfMap {σ : SMap} (h : SMapOK σ) : WfMap σ.toTMap := by
  intro kv hkv
  simp only [SMap.toTMap, List.mem_map] at hkv
  obtain ⟨q, hq, rfl⟩ := hkv
  have := h q hq
  exact ⟨this.2.1, by rw [this.2.2]; exact (typeOf_sym_of_ok this.1).symm⟩

theorem SMapOK.drop {σ : SMap} (h : SMapOK σ) (vs : List Sym) : SMapOK (σ.drop vs) :=
  fun kv hkv => h kv (List.mem_filter.mp hkv).1

theorem get_mem : ∀ {σ : SMap} {y : Sym} {u : Term}, σ.get y = some u → (y, u) ∈ σ
  | (k, v) :: rest, y, u, h => by
    unfold SMap.get at h
    by_cases hk : k = y
    · subst hk; simp only [if_true, Option.some.injEq] at h; subst h; simp
    · simp only [hk, if_false] at h
      exact List.mem_cons_of_mem _ (get_mem h)

theorem lookup_toTMap_drop {σ : SMap} {b : Term} (vs : List Sym) (h : lookup σ.toTMap b = none) :
    lookup (σ.drop vs).toTMap b = none := by
  by_cases hb : ∃ x, b = Term.sym x
  · obtain ⟨x, rfl⟩ := hb
    rw [lookup_toTMap_sym] at h ⊢
    rw [get_drop, h]; split <;> rfl
  · exact lookup_toTMap_ne _ _ (fun x e => hb ⟨x, e⟩)

theorem MSSafe.drop {σ : SMap} (h : MSSafe σ) (vs : List Sym) : MSSafe (σ.drop vs) :=
  fun kv hkv b pl e => lookup_toTMap_drop vs (h kv (List.mem_filter.mp hkv).1 b pl e)

theorem shapeOK_quant {op : Op} {p : Payload} {n : Nat} (hq : op.isQuantifier = true)
    (h : op.shapeOK p n = true) : ∃ vs, p = .qvars vs := by
  cases op <;> simp [Op.isQuantifier] at hq <;> cases p <;> simp [Op.shapeOK] at h ⊢

theorem typeOfNode_function_payload {p : Payload} {ts : List (Option Ty)}
    (h : (typeOfNode .function p ts).isSome = true) : ∃ f, p = .sym f := by
  rw [typeOfNode_function_eq] at h
  cases p <;> simp at h ⊢

theorem NoCapture_q (σ : SMap) {op : Op} (args : List Term) (vs : List Sym) (hq : op.isQuantifier = true) :
    NoCapture σ (.node op args (.qvars vs)) =
      ((σ.drop vs).all (fun kv => !((args.map Term.fv).flatten).contains kv.1 || kv.2.fv.all (fun z => !vs.contains z))
          && (args.map (NoCapture (σ.drop vs))).all id) := by
  rw [NoCapture.eq_def]; simp only [hq]

theorem NoCapture_nq (σ : SMap) {op : Op} (args : List Term) (p : Payload) (hq : op.isQuantifier = false) :
    NoCapture σ (.node op args p) = (args.map (NoCapture σ)).all id := by
  rw [NoCapture.eq_def]; simp only [hq]

theorem bodyMap_q (τ : TMap) {op : Op} (vs : List Sym) (hq : op.isQuantifier = true) :
    bodyMap τ op (.qvars vs) = restrict τ vs := by
  simp only [bodyMap, hq]

theorem bodyMap_nq (τ : TMap) {op : Op} (p : Payload) (hq : op.isQuantifier = false) :
    bodyMap τ op p = τ := by
  simp only [bodyMap, hq]


/-- the map used below a node, for a symbol-keyed map -/
def childMap (σ : SMap) (op : Op) (p : Payload) : SMap :=
  match op.isQuantifier, p with
  | true, .qvars vs => σ.drop vs
  | _, _ => σ

theorem childMap_q (σ : SMap) {op : Op} (vs : List Sym) (hq : op.isQuantifier = true) :
    childMap σ op (.qvars vs) = σ.drop vs := by simp only [childMap, hq]
theorem childMap_nq (σ : SMap) {op : Op} (p : Payload) (hq : op.isQuantifier = false) :
    childMap σ op p = σ := by simp only [childMap, hq]

theorem not_sym_of_op {op : Op} {args : List Term} {p : Payload} (h : op ≠ .symbol) :
    ∀ x, Term.node op args p ≠ Term.sym x := by
  intro x e; apply h; simp only [Term.sym, Term.node.injEq] at e; exact e.1

/-! ## array values

`ConstKeys t` : the keys of every array value in `t` are constant nodes (Bool / Int / Real / BV /
String constants) — what `Array(idx, default, {k: v …})` guarantees for every index sort that is not
itself an array sort. Together with `normal` (keys pairwise distinct, no default-valued pair) this is
the guard under which rebuilding an array value (`Build.mkArray`) keeps its meaning. -/

def ConstKeys : Term → Bool
  | .node op args _ =>
    (args.map ConstKeys).all id &&
      (op != .arrayValue || (pairsOf args.tail).all (fun kv => kv.1.op.isConstant))

theorem ConstKeys_node (op : Op) (args : List Term) (p : Payload) :
    ConstKeys (.node op args p) = ((args.map ConstKeys).all id &&
      (op != .arrayValue || (pairsOf args.tail).all (fun kv => kv.1.op.isConstant))) := by
  rw [ConstKeys]

theorem ConstKeys_child {op args p} (h : ConstKeys (.node op args p) = true) : ∀ a ∈ args, ConstKeys a = true := by
  intro a ha
  rw [ConstKeys_node] at h
  simp only [Bool.and_eq_true, List.all_eq_true, List.mem_map] at h
  exact h.1 _ ⟨a, ha, rfl⟩

theorem ConstKeys_here {args p} (h : ConstKeys (.node .arrayValue args p) = true) :
    ∀ kv ∈ pairsOf args.tail, kv.1.op.isConstant = true := by
  rw [ConstKeys_node] at h
  simp only [Bool.and_eq_true, bne_self_eq_false, Bool.false_or, List.all_eq_true] at h
  exact h.2

/-- a constant node has a scalar type -/
theorem const_scalar : (k : Term) → k.op.isConstant = true → ∀ idx, k.typeOf = some idx → idx.scalar = true
  | .node op args p, hc, idx, hty => by
    rw [typeOf_node] at hty
    cases op <;> simp [Term.op, Op.isConstant] at hc <;> cases args <;> (try cases p) <;>
      first
      | (cases hty; rfl)
      | (cases hty)

theorem not_sym_of_op' {op : Op} {args : List Term} {p : Payload} (h : op ≠ .symbol) :
    ∀ x, Term.node op args p ≠ Term.sym x := by
  intro x e; apply h; simp only [Term.sym, Term.node.injEq] at e; exact e.1

/-- constants are left alone by a symbol-keyed substitution -/
theorem substG_const (ms : Bool) (h : FnHandler) (σ : SMap) : (k : Term) → k.op.isConstant = true → k.wf = true →
    substG ms h σ.toTMap k = k
  | .node op args p, hc, hwf => by
    obtain ⟨_, hshape, _⟩ := Term.wf_node.mp hwf
    have hargs : args = [] := by
      cases op <;> simp [Term.op, Op.isConstant] at hc <;> cases args <;>
        first | rfl | (cases p <;> simp [Op.shapeOK] at hshape)
    subst hargs
    have hsym : op ≠ .symbol := by intro e; subst e; simp [Term.op, Op.isConstant] at hc
    have hfun : op ≠ .function := by intro e; subst e; simp [Term.op, Op.isConstant] at hc
    have hsp : special op = false := by
      cases op <;> simp [Term.op, Op.isConstant] at hc <;> rfl
    have hb : build h op p [] = .node op [] p := by
      unfold build; split
      · next heq _ => exact absurd rfl hfun
      · exact rebuild_generic op p [] hsp
    rw [substG]
    simp only [List.map_nil, hb, lookup_toTMap_ne σ _ (not_sym_of_op' hsym)]
    cases ms <;> rfl

theorem normal_array_nodup {p : Payload} {d : Term} {rest : List Term}
    (hn : normalNode .arrayValue p (d :: rest) = true) : ((pairsOf rest).map Prod.fst).Nodup := by
  simp only [normalNode, decide_eq_true_eq] at hn
  have h2 : pairsOf rest = (pyDict (pairsOf rest)).filter (fun kv => kv.2 ≠ d) := by
    conv => lhs; rw [hn]
    exact pairsOf_unpairs _
  rw [h2]
  exact List.Nodup.sublist (List.Sublist.map _ (List.filter_sublist)) (pyDict_keys_nodup _)

/-- rebuilding an array value whose keys are pairwise distinct constants from symbol-substituted
children keeps its meaning (the keys are unchanged; the pairs that became default-valued are dropped) -/
theorem mkArray_sem (ms : Bool) (h : FnHandler) (σ : SMap) (I : Interp) (hI : I.WF) {args : List Term} {p : Payload}
    (hwf : (Term.node .arrayValue args p).wf = true) (hn : normalNode .arrayValue p args = true)
    (hck : ConstKeys (.node .arrayValue args p) = true)
    (hSw : ∀ a ∈ args, (substG ms h σ.toTMap a).wf = true) :
    eval I (mkArray p (args.map (substG ms h σ.toTMap))) =
      evalOp I .arrayValue p ((args.map (substG ms h σ.toTMap)).map (eval I)) := by
  have hwt := Term.wf_wt _ hwf
  obtain ⟨hchwf, _, _⟩ := Term.wf_node.mp hwf
  obtain ⟨idx, e, d, rest, rfl, rfl, hd, hc, _⟩ := Simp.ArrayRules.typeOf_arrayValue_inv (wt_typeOf_some _ hwt)
  obtain ⟨hp, hflat⟩ := Simp.ArrayRules.chk_pairs idx e rest hc
  have hconst := ConstKeys_here hck
  simp only [List.tail_cons] at hconst
  cases hps : pairsOf rest with
  | nil =>
    have hr : rest = [] := by rw [hflat, ← pairsOf_eq_pairs, hps]; rfl
    subst hr
    have e1 : mkArray (.ty idx) ([d].map (substG ms h σ.toTMap)) =
        .node .arrayValue [substG ms h σ.toTMap d] (.ty idx) := by
      simp [mkArray, pairsOf, pyDict, unpairs]
    rw [e1, eval_plain I .arrayValue _ _ (by decide) (by decide) rfl]
    rfl
  | cons kv0 tl =>
    have hkv0 : kv0 ∈ pairsOf rest := by rw [hps]; simp
    have hidx : idx.scalar = true :=
      const_scalar kv0.1 (hconst kv0 hkv0) idx (hp kv0 (by rw [← pairsOf_eq_pairs]; exact hkv0)).1
    have hkeep : ∀ kv ∈ pairsOf rest, substG ms h σ.toTMap kv.1 = kv.1 := fun kv hkv =>
      substG_const ms h σ kv.1 (hconst kv hkv) (hchwf _ (List.mem_cons_of_mem _ (mem_pairsOf hkv).1))
    have hkeys : ((pairsOf (rest.map (substG ms h σ.toTMap))).map Prod.fst) = (pairsOf rest).map Prod.fst := by
      rw [pairsOf_map, List.map_map]
      exact List.map_congr_left (fun kv hkv => hkeep kv hkv)
    rw [List.map_cons]
    apply eval_mkArray I hI hidx
    · intro kv' hkv'
      rw [pairsOf_map] at hkv'
      obtain ⟨kv, hkv, rfl⟩ := List.mem_map.mp hkv'
      simp only [hkeep kv hkv]
      have hm := mem_pairsOf hkv
      exact ⟨⟨hchwf _ (List.mem_cons_of_mem _ hm.1), hconst kv hkv⟩,
        (hp kv (by rw [← pairsOf_eq_pairs]; exact hkv)).1⟩
    · rw [hkeys]; exact normal_array_nodup hn

/-- where a negation in the result of a most-specific substitution (without interpretations) comes
from when the term itself is not a negation: it is a replacement value -/
theorem ms_not_origin {h : FnHandler} (hh : HandlerTyped h) (hnone : ∀ f as, h f as = none)
    {op : Op} {args : List Term} {p : Payload} {σ : SMap} (hσ : SMapOK σ)
    (hwf : (Term.node op args p).wf = true) (hn : normal (.node op args p) = true)
    (hop : op ≠ .not) {b : Term} {pl : Payload}
    (he : substG true h σ.toTMap (.node op args p) = .node .not [b] pl) :
    ∃ x, (x, Term.node .not [b] pl) ∈ σ := by
  have hwt := Term.wf_wt _ hwf
  have iht : ∀ a ∈ args, (substG true h (bodyMap σ.toTMap op p) a).wt = true ∧
      (substG true h (bodyMap σ.toTMap op p) a).typeOf = a.typeOf :=
    fun a hm => substG_type true hh a _ (hσ.wfMap.bodyMap op p).tyMap (Term.wt_child hwt a hm)
      (normal_child hn a hm)
  have hs : SameTypes args (args.map (substG true h (bodyMap σ.toTMap op p))) := by
    constructor
    · intro a' ha'
      obtain ⟨a, hm, rfl⟩ := List.mem_map.mp ha'
      exact (iht a hm).1
    · rw [List.map_map]
      exact List.map_congr_left (fun a hm => (iht a hm).2)
  rw [substG] at he
  simp only [if_true] at he
  have hbuild : build h op p (args.map (substG true h (bodyMap σ.toTMap op p))) =
      rebuild op p (args.map (substG true h (bodyMap σ.toTMap op p))) := by
    unfold build; split
    · rw [hnone]
    · rfl
  rw [hbuild] at he
  cases hl : lookup σ.toTMap (rebuild op p (args.map (substG true h (bodyMap σ.toTMap op p)))) with
  | some v =>
    rw [hl] at he
    simp only at he
    subst he
    have := lookup_mem hl
    simp only [SMap.toTMap, List.mem_map] at this
    obtain ⟨q, hq, he2⟩ := this
    exact ⟨q.1, by
      have : q.2 = Term.node .not [b] pl := (Prod.mk.inj he2).2
      rw [← this]; exact hq⟩
  | none =>
    rw [hl] at he
    simp only at he
    have hsh := rebuild_shape hwt (normal_here hn) hs
    generalize rebuild op p (args.map (substG true h (bodyMap σ.toTMap op p))) = r at he hsh
    cases hsh with
    | node => simp only [Term.node.injEq] at he; exact absurd he.1 hop
    | notNot b' pl' ho _ => exact absurd ho hop
    | toRealConst v _ _ => simp [Term.real] at he
    | divConst a' c _ _ _ => simp at he
    | array _ =>
      cases hl' : args.map (substG true h (bodyMap σ.toTMap op p)) with
      | nil => rw [hl'] at he; simp [mkArray] at he
      | cons d' rest' => rw [hl', mkArray_cons] at he; simp at he


/-- **Substitution lemma**, general form (both strategies, with an interpretation handler). -/
theorem substG_sem (ms : Bool) {h : FnHandler} {defs : List (Sym × Def)} (hcl : DefsClosed defs)
    (hh : HandlerTyped h) (hw : HandlerWf h) (hsem : HSem h defs)
    (hms : ms = true → ∀ f as, h f as = none) :
    (t : Term) → ∀ (σ : SMap) (I : Interp), I.WF → t.wf = true → normal t = true → ConstKeys t = true →
      SMapOK σ → NoCapture σ t = true → (ms = true → MSSafe σ) →
      eval I (substG ms h σ.toTMap t) = eval (upd I σ defs) t
  | .node op args p, σ, I, hI, hwf, hn, ha, hσ, hnc, hsafe => by
    have hwt := Term.wf_wt _ hwf
    obtain ⟨hchwf, hshape, htyS⟩ := Term.wf_node.mp hwf
    -- the map below this node
    obtain ⟨hσc, hbm, hncc, hσcsafe⟩ : SMapOK (childMap σ op p) ∧
        bodyMap σ.toTMap op p = (childMap σ op p).toTMap ∧
        (∀ a ∈ args, NoCapture (childMap σ op p) a = true) ∧ (ms = true → MSSafe (childMap σ op p)) := by
      by_cases hq : op.isQuantifier = true
      · obtain ⟨vs, rfl⟩ := shapeOK_quant hq hshape
        rw [childMap_q σ vs hq]
        refine ⟨hσ.drop vs, by rw [bodyMap_q _ vs hq, restrict_toTMap], ?_, fun e => (hsafe e).drop vs⟩
        intro a hm
        rw [NoCapture_q σ args vs hq] at hnc
        simp only [Bool.and_eq_true, List.all_eq_true, List.mem_map] at hnc
        exact hnc.2 _ ⟨a, hm, rfl⟩
      · have hq' : op.isQuantifier = false := by simpa using hq
        rw [childMap_nq σ p hq']
        refine ⟨hσ, bodyMap_nq _ p hq', ?_, hsafe⟩
        intro a hm
        rw [NoCapture_nq σ args p hq'] at hnc
        simp only [List.all_eq_true, List.mem_map] at hnc
        exact hnc _ ⟨a, hm, rfl⟩
    generalize hσcdef : childMap σ op p = σc at hσc hbm hncc hσcsafe
    have ih : ∀ a ∈ args, ∀ J : Interp, J.WF →
        eval J (substG ms h σc.toTMap a) = eval (upd J σc defs) a :=
      fun a hm J hJ => substG_sem ms hcl hh hw hsem hms a σc J hJ (hchwf a hm) (normal_child hn a hm)
        (ConstKeys_child ha a hm) hσc (hncc a hm) hσcsafe
    have iht : ∀ a ∈ args, (substG ms h σc.toTMap a).wt = true ∧ (substG ms h σc.toTMap a).typeOf = a.typeOf :=
      fun a hm => substG_type ms hh a _ hσc.wfMap.tyMap (Term.wt_child hwt a hm) (normal_child hn a hm)
    have ihw : ∀ a ∈ args, (substG ms h σc.toTMap a).wf = true :=
      fun a hm => substG_wf ms hh hw a _ hσc.wfMap (hchwf a hm) (normal_child hn a hm)
    have hs : SameTypes args (args.map (substG ms h σc.toTMap)) := by
      constructor
      · intro a' ha'
        obtain ⟨a, hm, rfl⟩ := List.mem_map.mp ha'
        exact (iht a hm).1
      · rw [List.map_map]
        exact List.map_congr_left (fun a hm => (iht a hm).2)
    have hwf' : ∀ a' ∈ args.map (substG ms h σc.toTMap), a'.wf = true := by
      intro a' ha'
      obtain ⟨a, hm, rfl⟩ := List.mem_map.mp ha'
      exact ihw a hm
    have hmapI : ∀ J : Interp, J.WF → (args.map (substG ms h σc.toTMap)).map (eval J) =
        args.map (eval (upd J σc defs)) := by
      intro J hJ
      rw [List.map_map]
      exact List.map_congr_left (fun a hm => ih a hm J hJ)
    rw [substG, hbm]
    by_cases hsym : op = .symbol
    · -- a symbol: replaced by its value, or kept
      subst hsym
      obtain ⟨hts, s, rfl, _⟩ := typeOfNode_symbol htyS
      have hargs : args = [] := Term.wt_symbol_args hwt
      subst hargs
      have hb : build h .symbol (.sym s) [] = Term.sym s := by
        simp only [build]; exact rebuild_generic _ _ _ rfl
      simp only [List.map_nil, hb]
      have hnode : Term.node .symbol [] (.sym s) = Term.sym s := rfl
      rw [hnode, lookup_toTMap_sym]
      rw [Term.sym, eval_symbol, upd_sym]
      cases hg : σ.get s with
      | none => cases ms <;> simp only [Bool.false_eq_true, if_false, if_true] <;> exact eval_symbol I s []
      | some v => cases ms <;> simp only [Bool.false_eq_true, if_false, if_true]
    · have hlk : lookup σ.toTMap (.node op args p) = none := lookup_toTMap_ne _ _ (not_sym_of_op hsym)
      have hkey : eval I (build h op p (args.map (substG ms h σc.toTMap))) = eval (upd I σ defs) (.node op args p) ∧
          (ms = true → lookup σ.toTMap (build h op p (args.map (substG ms h σc.toTMap))) = none) := by
        by_cases hfun : op = .function
        · -- an application
          subst hfun
          obtain ⟨f, rfl⟩ := typeOfNode_function_payload htyS
          have hσceq : σc = σ := by rw [← hσcdef]; exact childMap_nq σ _ rfl
          subst hσceq
          have hft := typeOfNode_function_some htyS
          simp only [build]
          rw [eval_function]
          show _ = (updFns I defs).fn f _ ∧ _
          rw [← hmapI I hI]
          cases hhf : h f (args.map (substG ms h σc.toTMap)) with
          | none =>
            simp only
            rw [rebuild_generic _ _ _ rfl, eval_function]
            refine ⟨?_, fun _ => lookup_toTMap_ne _ _ (not_sym_of_op (by decide))⟩
            simp only [updFns, hsem.none_ _ _ hhf]
          | some r =>
            simp only
            refine ⟨hsem.some_ f _ r I hI hhf hwf' (by rw [hs.ty]; exact hft.1), ?_⟩
            intro hm
            rw [hms hm] at hhf; cases hhf
        · have hbuild : build h op p (args.map (substG ms h σc.toTMap)) =
              rebuild op p (args.map (substG ms h σc.toTMap)) := by
            unfold build; split
            · next heq _ => exact absurd rfl hfun
            · rfl
          rw [hbuild]
          have hsh := rebuild_shape hwt (normal_here hn) hs
          by_cases hq : op.isQuantifier = true
          · -- a quantifier
            obtain ⟨vs, rfl⟩ := shapeOK_quant hq hshape
            obtain ⟨b, rfl⟩ := Term.wt_quant_args hwt hq
            have hσceq : σc = σ.drop vs := by rw [← hσcdef]; exact childMap_q σ vs hq
            have hnode : rebuild op (.qvars vs) ([b].map (substG ms h σc.toTMap)) =
                .node op [substG ms h σc.toTMap b] (.qvars vs) := by
              generalize rebuild op (.qvars vs) ([b].map (substG ms h σc.toTMap)) = r at hsh
              cases hsh with
              | node => rfl
              | notNot _ _ ho _ => subst ho; cases hq
              | toRealConst _ ho _ => subst ho; cases hq
              | divConst _ _ ho _ _ => subst ho; cases hq
              | array ho => subst ho; cases hq
            rw [hnode]
            refine ⟨?_, fun _ => lookup_toTMap_ne _ _ (not_sym_of_op hsym)⟩
            have hcapt : ∀ y u, σc.get y = some u → y ∈ b.fv → ∀ z ∈ u.fv, z ∉ vs := by
              intro y u hg hy z hz
              rw [NoCapture_q σ [b] vs hq] at hnc
              simp only [Bool.and_eq_true, List.all_eq_true] at hnc
              have h1 := hnc.1 (y, u) (by rw [← hσceq]; exact get_mem hg)
              simp only [List.map_cons, List.map_nil, List.flatten_cons, List.flatten_nil, List.append_nil,
                Bool.or_eq_true, Bool.not_eq_true', List.all_eq_true] at h1
              rcases h1 with h1 | h1
              · have : b.fv.contains y = true := by simpa using hy
                rw [this] at h1; cases h1
              · have := h1 z hz
                simpa using this
            have hdropnone : ∀ y ∈ vs, σc.get y = none := by
              intro y hy
              rw [hσceq, get_drop]
              have : vs.contains y = true := by simpa using hy
              rw [this]; rfl
            have hquant : ∀ all : Bool,
                I.quant all vs (fun J => (eval J (substG ms h σc.toTMap b)).isTrue) =
                (upd I σ defs).quant all vs (fun J' => (eval J' b).isTrue) := by
              intro all
              rw [quant_congr_wf all _ (fun J => (eval (upd J σc defs) b).isTrue)
                (fun J hJ => by rw [ih b (by simp) J hJ]) vs I hI]
              apply quant_upd all hcl b σc vs hdropnone hcapt (fun J' => (eval J' b).isTrue)
                (fun J J' hag => by rw [coincidence_gen b J J' hag]) vs (fun _ hx => hx) I (upd I σ defs) rfl rfl rfl
                (fun _ => rfl)
              intro y hy hyvs
              rw [upd_sym, upd_sym, hσceq, get_drop]
              have : vs.contains y = false := by simpa using hyvs
              rw [this]; rfl
            cases op <;> simp [Op.isQuantifier] at hq
            · rw [eval_forall, eval_forall, hquant true]
            · rw [eval_exists, eval_exists, hquant false]
          · -- any other operator
            have hq' : op.isQuantifier = false := by simpa using hq
            have hσceq : σc = σ := by rw [← hσcdef]; exact childMap_nq σ p hq'
            subst hσceq
            have hnot : ∀ b pl, args.map (substG ms h σc.toTMap) = [.node .not [b] pl] →
                ∃ bb, eval I b = .b bb := by
              intro b pl he
              have hm : Term.node .not [b] pl ∈ args.map (substG ms h σc.toTMap) := by rw [he]; simp
              have hwfn := hwf' _ hm
              have hbwf : b.wf = true := (Term.wf_node.mp hwfn).1 b (by simp)
              have hbwt := Term.wf_wt _ hbwf
              have h2 := wt_tyNode (Term.wf_wt _ hwfn)
              simp only [C05T.tyNode, List.map_cons, List.map_nil] at h2
              have hbty : b.typeOf = some .bool := by
                apply typeOf_of_tyOf hbwt
                exact allAre_cons_some (x := tyOf b) (rest := []) (t := .bool) (by split at h2 <;> simp_all)
              exact eval_bool_of_wf hbwf hbty hI
            constructor
            · have harr : op = .arrayValue → eval I (mkArray p (args.map (substG ms h σc.toTMap))) =
                  evalOp I .arrayValue p ((args.map (substG ms h σc.toTMap)).map (eval I)) := by
                intro ho; subst ho
                exact mkArray_sem ms h σc I hI hwf (normal_here hn) ha ihw
              rw [eval_shape hsym hfun hq' hsh hnot harr, hmapI I hI, eval_plain _ op args p hsym hfun hq']
              exact evalOp_congr I (upd I σc defs) rfl rfl op p _
            · intro hm
              subst hm
              generalize hr : rebuild op p (args.map (substG true h σc.toTMap)) = r at hsh
              cases hsh with
              | node => exact lookup_toTMap_ne _ _ (not_sym_of_op hsym)
              | notNot b pl ho hargs =>
                subst ho
                have hnn := normal_here hn
                match args, hargs, hnn, hchwf, hn, ha with
                | [a], hargs, hnn, hchwf, hn, ha =>
                  simp only [List.map_cons, List.map_nil, List.cons.injEq, and_true] at hargs
                  obtain ⟨oa, aa, pa⟩ := a
                  have hop : oa ≠ .not := by
                    simp only [normalNode, Term.op, bne_iff_ne, ne_eq] at hnn; exact hnn
                  obtain ⟨x, hx⟩ := ms_not_origin hh (hms rfl) hσ (hchwf _ (by simp))
                    (normal_child hn _ (by simp)) hop hargs
                  exact hsafe rfl (x, _) hx r pl rfl
              | toRealConst v _ _ =>
                apply lookup_toTMap_ne
                intro x e; simp [Term.real, Term.sym] at e
              | divConst a' c _ _ _ => exact lookup_toTMap_ne _ _ (not_sym_of_op (by decide))
              | array _ =>
                apply lookup_toTMap_ne
                intro x e
                cases hl' : args.map (substG true h σc.toTMap) with
                | nil => rw [hl'] at e; simp [mkArray, Term.sym] at e
                | cons d' rest' => rw [hl', mkArray_cons] at e; simp [Term.sym] at e
      obtain ⟨hev, hlk2⟩ := hkey
      cases ms
      · simp only [Bool.false_eq_true, if_false, hlk]; exact hev
      · simp only [if_true, hlk2 rfl]; exact hev


/-! ## instances -/

theorem upd_nil (I : Interp) (σ : SMap) : upd I σ [] = updSyms I σ := rfl

theorem hsem_noInterp : HSem noInterp [] :=
  ⟨fun _ _ _ => rfl, fun _ _ _ _ _ h => by cases h⟩

theorem defsClosed_nil : DefsClosed [] := fun _ h => by cases h

/-- **Substitution lemma** for symbol-keyed maps, without function interpretations. -/
theorem subst_sem (ms : Bool) (t : Term) (σ : SMap) (I : Interp) (hI : I.WF) (hwf : t.wf = true)
    (hn : normal t = true) (ha : ConstKeys t = true) (hσ : SMapOK σ) (hnc : NoCapture σ t = true)
    (hsafe : ms = true → MSSafe σ) :
    eval I (substG ms noInterp σ.toTMap t) = eval (updSyms I σ) t := by
  rw [← upd_nil]
  exact substG_sem ms defsClosed_nil noInterp_typed noInterp_wf hsem_noInterp (fun _ _ _ => rfl)
    t σ I hI hwf hn ha hσ hnc hsafe

end PySMT.Subst
