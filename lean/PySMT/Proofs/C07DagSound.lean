import PySMT.Proofs.C07DagRun
/-!
# C07: `printDag_sound` for quantifier-free formulas
-/
namespace PySMT.Printer
open PySMT.Std PySMT.Sexp

/-- **The standard's reading of the DAG printer's output is the formula** (array values as the store chains they are
printed as, in argument order), for quantifier-free `t` that satisfies `DagOK` — `Printable` without binders, every symbol
being one of the free symbols whose quoted names the printer protects. Every `let` right-hand side is read, in the scope
of the earlier bindings, as the sub-formula it was printed for (the memoization invariant `InvL` of the work-stack
machine, `Proofs/C07DagRun.lean`), the stack is empty when the fuel `dagFuel t` is used up, and the key is the root. -/
theorem readStd_toSexpDag (env : SEnv) (t : Term) (hok : DagOK (dagNames t) env t = true) :
    readStdTy env [] (toSexpDag t) = .ok (unfoldAVw false t, tyD t) := by
  unfold toSexpDag dagFuel
  obtain ⟨n, hn, hle⟩ : ∃ n, 8 * t.size + 16 = n + 1 ∧ 2 * t.size ≤ n := ⟨8 * t.size + 15, by omega, by omega⟩
  rw [hn, dagPrint]
  generalize hsub : dagPrint dagSpell n = sub
  have hinit : InvL dagSpell env (dagNames t) t [] { stack := [(false, t)], memo := [], seed := 0, binds := [] } := by
    refine ⟨rfl, fun _ h => by simp at h, fun _ h => by simp at h, fun _ h => by simp at h, ?_, ?_, ?_⟩
    · intro e he
      have : e = (false, t) := by simpa using he
      subst this; exact hok
    · exact ⟨fun h => by simp at h, trivial⟩
    · exact Or.inr ⟨(false, t), by simp, rfl⟩
  obtain ⟨L, inv⟩ := dagLoop_inv dagSpell dagSpell_std env (dagNames t) t sub n hinit
  have hdone := dagLoop_done dagSpell (dagNames t) sub n
    { stack := [(false, t)], memo := [], seed := 0, binds := [] }
    (by simp [stackWeight, entryWeight]; omega)
  show readStdTy env [] (letWrap (dagLoop dagSpell (dagNames t) sub n
      { stack := [(false, t)], memo := [], seed := 0, binds := [] }).binds
    (memoGet (dagLoop dagSpell (dagNames t) sub n { stack := [(false, t)], memo := [], seed := 0, binds := [] }).memo t)) = _
  generalize dagLoop dagSpell (dagNames t) sub n { stack := [(false, t)], memo := [], seed := 0, binds := [] } = st
    at inv hdone ⊢
  -- the root is memoized and its result is read as the root in the final scope
  have hroot : (st.memo.lookup t).isSome = true := by
    rcases inv.root with h | ⟨e, he, _⟩
    · exact h
    · rw [hdone] at he; simp at he
  cases hl : st.memo.lookup t with
  | none => rw [hl] at hroot; simp at hroot
  | some m =>
    have hmem := mem_of_lookup t m st.memo hl
    have hvalid := (inv.memo (t, m) hmem).2 L (Ext.refl _ _ _)
    have hkey : memoGet st.memo t = m := by simp [memoGet, hl]
    rw [hkey]
    have hchain := rd_letWrap env [] (bindNames st.binds) m
    rw [bindNames_map inv.bok, inv.binds] at hchain
    simp only [readStdTy, List.reverse_nil, List.map_nil]
    rw [hchain]
    exact hvalid

/-- **DAG printing is sound** (quantifier-free formulas): the text of `to_smtlib(f, daggify=True)`, read with the
standard's semantics, has the sort of `f` and, under every interpretation, the value of `f`. -/
theorem printDag_sound_qf (env : SEnv) (t : Term) (hok : DagOK (dagNames t) env t = true) (hg : avGuard t = true) :
    ∃ t' τ, readStdTy env [] (toSexpDag t) = .ok (t', τ) ∧ t.typeOf = some τ ∧ ∀ I, eval I t' = eval I t :=
  ⟨unfoldAVw false t, tyD t, readStd_toSexpDag env t hok, dagOK_typed hok, fun I => eval_unfoldAVw false t hg I⟩

end PySMT.Printer

namespace PySMT.Printer
open PySMT.Std PySMT.Sexp

theorem fv_node (op : Op) (args : List Term) (p : Payload) :
    (Term.node op args p).fv =
      (match op, p with
       | .symbol, .sym s => [s]
       | .function, .sym s => s :: (args.map Term.fv).flatten
       | .forall_, .qvars vs => (args.map Term.fv).flatten.filter (fun x => !vs.contains x)
       | .exists_, .qvars vs => (args.map Term.fv).flatten.filter (fun x => !vs.contains x)
       | _, _ => (args.map Term.fv).flatten) := by
  rw [Term.fv.eq_def]
  rfl

/-- for a quantifier-free node that is not a symbol, the free symbols of an argument are free symbols of the node -/
theorem fv_child {op : Op} {args : List Term} {p : Payload} (hq : op.isQuantifier = false) (hs : op ≠ .symbol)
    {a : Term} (ha : a ∈ args) {x : Sym} (hx : x ∈ a.fv) : x ∈ (Term.node op args p).fv := by
  have hsub : x ∈ (args.map Term.fv).flatten := by
    simp only [List.mem_flatten, List.mem_map]
    exact ⟨a.fv, ⟨a, ha, rfl⟩, hx⟩
  rw [fv_node]
  split
  · exact absurd rfl hs
  · exact List.mem_cons_of_mem _ hsub
  · simp [Op.isQuantifier] at hq
  · simp [Op.isQuantifier] at hq
  · exact hsub

/-- a quantifier-free `Printable` term satisfies `DagOK` for any protected set that contains its free symbols -/
theorem dagOK_of_printable (env : SEnv) (N : List String) : ∀ (t : Term), Printable env [] t = true → noQuant t = true →
    (∀ s ∈ t.fv, N.contains (pyQuote s.name) = true) → DagOK N env t = true
  | .node op args p, hP, hnq, hN => by
    obtain ⟨τ, hS, hty, hcase⟩ := printable_node env [] op args p hP
    rw [noQuant.eq_def] at hnq
    simp only [Bool.and_eq_true, Bool.not_eq_true', List.all_map, List.all_eq_true, Function.comp, id] at hnq
    obtain ⟨hq, hargsq⟩ := hnq
    rcases hcase with ⟨vs, hqq, _, _, _⟩ | ⟨h1, h2, hok, hargsP⟩
    · rcases hqq with rfl | rfl <;> simp [Op.isQuantifier] at hq
    · rw [DagOK.eq_def]
      simp only [Bool.and_eq_true, Bool.not_eq_true', List.all_map, List.all_eq_true, Function.comp, id]
      refine ⟨⟨⟨⟨hq, ?_⟩, hok⟩, ?_⟩, ?_⟩
      · rw [hS]
        rw [typeOf_node] at hty
        simpa using hty
      · unfold dagNameOK
        split
        · next s => exact hN s (by rw [fv_node]; simp)
        · next s => exact hN s (by rw [fv_node]; simp)
        · rfl
      · intro a ha
        have hsym : op ≠ .symbol := by
          intro e; subst e
          simp only [stdTy] at hS
          split at hS
          · next hts => simp at hts; subst hts; simp at ha
          · simp at hS
        exact dagOK_of_printable env N a (hargsP a ha) (hargsq a ha)
          (fun s hs => hN s (fv_child hq hsym ha hs))
termination_by t => sizeOf t
decreasing_by
  simp_wf
  have := List.sizeOf_lt_of_mem ha
  omega

theorem dagOK_of_printable' (env : SEnv) (t : Term) (hP : Printable env [] t = true) (hnq : noQuant t = true) :
    DagOK (dagNames t) env t = true :=
  dagOK_of_printable env (dagNames t) t hP hnq (fun s hs => by
    simp only [dagNames, List.contains_iff_mem, List.mem_map]
    exact ⟨s, by simpa using hs, rfl⟩)

/-- **DAG printing is sound** for quantifier-free formulas, under the same hypotheses as tree printing. -/
theorem printDag_sound (env : SEnv) (t : Term) (h : Printable env [] t = true) (hq : noQuant t = true)
    (hg : avGuard t = true) :
    ∃ t' τ, readStdTy env [] (toSexpDag t) = .ok (t', τ) ∧ t.typeOf = some τ ∧ ∀ I, eval I t' = eval I t :=
  printDag_sound_qf env t (dagOK_of_printable' env t h hq) hg

end PySMT.Printer
