import PySMT.Proofs.C09HREx
import PySMT.Proofs.C09HR7
import PySMT.Proofs.C09Normal
import PySMT.Proofs.C07Example
/-!
# C09 (human-readable format): the fragment contains the printable, manager-normal, spellable formulas (operator slice)

`spellable_frag`: `Printable env scope t → mgrNormal t → hrSpellable t → inHRFragN t`, for the slice `HR.sliceOp` (Boolean
connectives, linear arithmetic and comparisons, equality, if-then-else, array select/store, symbols, applications,
quantifiers, constants). This removes, on the slice, the fragment's condition "the constructor returns this very node".
-/
namespace PySMT.HR.Spell
open PySMT PySMT.HR PySMT.HR.RT PySMT.HR.Ex PySMT.Printer PySMT.Parser.Agree PySMT.Gen.HROps PySMT.Std

theorem create_ok' {op : Op} {args : List Term} {p : Payload} {τ : Ty}
    (h : typeOfNode op p (args.map Term.typeOf) = some τ) : Mk.create op args p = .ok (.node op args p) := by
  simp [Mk.create, h]

theorem sh_or : shapeOf .or = some (.naryInfix "|") := by decide
theorem sh_implies : shapeOf .implies = some (.naryInfix "->") := by decide
theorem sh_iff : shapeOf .iff = some (.naryInfix "<->") := by decide
theorem sh_lt : shapeOf .lt = some (.naryInfix "<") := by decide
theorem sh_minus : shapeOf .minus = some (.naryInfix "-") := by decide
theorem sh_times : shapeOf .times = some (.naryInfix "*") := by decide
theorem sh_exists : shapeOf .exists_ = some (.quant "exists") := by decide
theorem sh_bool : shapeOf .boolConst = some .const := by decide
theorem sh_real : shapeOf .realConst = some .const := by decide
theorem io_or : ∃ l, infixOf "|" = some ("self.OrOrBVOr", l) := of_map (by decide)
theorem io_implies : ∃ l, infixOf "->" = some ("mgr.Implies", l) := of_map (by decide)
theorem io_iff : ∃ l, infixOf "<->" = some ("mgr.Iff", l) := of_map (by decide)
theorem io_lt : ∃ l, infixOf "<" = some ("mgr.LT", l) := of_map (by decide)
theorem io_minus : ∃ l, infixOf "-" = some ("self.MinusOrBVSub", l) := of_map (by decide)
theorem io_times : ∃ l, infixOf "*" = some ("self.TimesOrBVMul", l) := of_map (by decide)
theorem qo_exists : ∃ l, quantOf "exists" = some ("mgr.Exists", l) := of_map (by decide)

/-- a binary infix node whose constructor call returns it -/
theorem frag_bin {op : Op} {p : Payload} {a b : Term} {s c : String} (hs : shapeOf op = some (.naryInfix s))
    (hi : ∃ l, infixOf s = some (c, l)) (hok : applyInfix c a b = .ok (.node op [a, b] p)) :
    fragNodeN op [a, b] p = true := by
  obtain ⟨l, hi⟩ := hi
  simp [fragNodeN, fragNode, hs, hi, isOk, hok]

/-- an infix node of three or more arguments whose constructor chain returns the left-nested nodes -/
theorem frag_chain {op : Op} {p : Payload} {a b d : Term} {more : List Term} {s c : String}
    (hs : shapeOf op = some (.naryInfix s)) (hg : groupable op = true) (hi : ∃ l, infixOf s = some (c, l))
    (hok : applyChain c a (b :: d :: more) = .ok (leftNest op p a (b :: d :: more))) :
    fragNodeN op (a :: b :: d :: more) p = true := by
  obtain ⟨l, hi⟩ := hi
  simp [fragNodeN, hs, hg, hi, isOk, hok]

/-- the chain of an operator whose binary constructor call succeeds on operands of the sort `τ` and returns sort `τ` -/
theorem chain_ok {c : String} {op : Op} {p : Payload} {τ : Ty}
    (step : ∀ x y : Term, x.typeOf = some τ → y.typeOf = some τ →
      applyInfix c x y = .ok (.node op [x, y] p) ∧ (Term.node op [x, y] p).typeOf = some τ) :
    ∀ (more : List Term) (acc : Term), acc.typeOf = some τ → (∀ y ∈ more, y.typeOf = some τ) →
      applyChain c acc more = .ok (leftNest op p acc more)
  | [], _, _, _ => rfl
  | y :: more, acc, ha, hm => by
    obtain ⟨h1, h2⟩ := step acc y ha (hm y (by simp))
    simp only [applyChain, h1, leftNest]
    exact chain_ok step more _ h2 (fun z hz => hm z (List.mem_cons_of_mem _ hz))

theorem allAre_iff {ts : List (Option Ty)} {τ : Ty} : allAre ts τ = true ↔ ∀ t ∈ ts, t = some τ := by
  simp [allAre, List.all_eq_true]

/-! ### the binary steps -/

theorem step_bool (c : String) (op : Op) (hc : ∀ x y : Term, x.typeOf = some .bool → applyInfix c x y = liftMk (Mk.create op [x, y]))
    (hT : ∀ ts, typeOfNode op .none ts = if allAre ts .bool then some .bool else none) (x y : Term)
    (hx : x.typeOf = some .bool) (hy : y.typeOf = some .bool) :
    applyInfix c x y = .ok (.node op [x, y] .none) ∧ (Term.node op [x, y] .none).typeOf = some .bool := by
  have ht : typeOfNode op .none ([x, y].map Term.typeOf) = some .bool := by
    simp [hT, allAre, hx, hy]
  exact ⟨by rw [hc x y hx, create_ok' ht]; rfl, by rw [typeOf_node', ht]⟩

theorem and_call (x y : Term) (hx : x.typeOf = some .bool) :
    applyInfix "self.AndOrBVAnd" x y = liftMk (Mk.create .and [x, y]) := by
  simp [applyInfix, hx, Mk.And]
theorem or_call (x y : Term) (hx : x.typeOf = some .bool) :
    applyInfix "self.OrOrBVOr" x y = liftMk (Mk.create .or [x, y]) := by
  simp [applyInfix, hx, Mk.Or]

theorem step_num (c : String) (op : Op) (τ : Ty) (hτ : τ = .int ∨ τ = .real)
    (hc : ∀ x y : Term, x.typeOf = some τ → applyInfix c x y = liftMk (Mk.create op [x, y]))
    (hT : ∀ ts, typeOfNode op .none ts
      = if allAre ts .real then some .real else if allAre ts .int then some .int else none) (x y : Term)
    (hx : x.typeOf = some τ) (hy : y.typeOf = some τ) :
    applyInfix c x y = .ok (.node op [x, y] .none) ∧ (Term.node op [x, y] .none).typeOf = some τ := by
  have ht : typeOfNode op .none ([x, y].map Term.typeOf) = some τ := by
    rcases hτ with rfl | rfl <;> simp [hT, allAre, hx, hy]
  exact ⟨by rw [hc x y hx, create_ok' ht]; rfl, by rw [typeOf_node', ht]⟩

theorem plus_call (τ : Ty) (hτ : τ = .int ∨ τ = .real) (x y : Term) (hx : x.typeOf = some τ) :
    applyInfix "self.PlusOrBVAdd" x y = liftMk (Mk.create .plus [x, y]) := by
  rcases hτ with rfl | rfl <;> simp [applyInfix, hx, Mk.Plus]
theorem times_call (τ : Ty) (hτ : τ = .int ∨ τ = .real) (x y : Term) (hx : x.typeOf = some τ) :
    applyInfix "self.TimesOrBVMul" x y = liftMk (Mk.create .times [x, y]) := by
  rcases hτ with rfl | rfl <;> simp [applyInfix, hx, Mk.Times]
theorem minus_call (τ : Ty) (hτ : τ = .int ∨ τ = .real) (x y : Term) (hx : x.typeOf = some τ) :
    applyInfix "self.MinusOrBVSub" x y = liftMk (Mk.create .minus [x, y]) := by
  rcases hτ with rfl | rfl <;> simp [applyInfix, hx, Mk.Minus]

theorem symsOf_syms : ∀ (vs : List Sym), symsOf (vs.map Term.sym) = some vs
  | [] => rfl
  | v :: vs => by simp [List.map_cons, Term.sym, symsOf, symsOf_syms vs]

theorem mkNot_plain {a : Term} (h : a.op ≠ .not) : Mk.Not a = Mk.create .not [a] := by
  cases a with
  | node o as q =>
    have ho : o ≠ .not := h
    unfold Mk.Not
    split
    · next heq => cases heq; exact absurd rfl ho
    · next heq => cases heq; exact absurd rfl ho
    · rfl

/-- lists of terms with given sorts -/
theorem tys0 {as : List Term} (h : as.map Term.typeOf = ([] : List Ty).map some) : as = [] := by
  cases as <;> simp_all
theorem tysCons {as : List Term} {t : Ty} {ts : List Ty} (h : as.map Term.typeOf = (t :: ts).map some) :
    ∃ a rest, as = a :: rest ∧ a.typeOf = some t ∧ rest.map Term.typeOf = ts.map some := by
  cases as with
  | nil => simp at h
  | cons a rest => simp only [List.map_cons, List.cons.injEq] at h; exact ⟨a, rest, rfl, h.1, h.2⟩
theorem tys1 {as : List Term} {t : Ty} (h : as.map Term.typeOf = [t].map some) : ∃ a, as = [a] ∧ a.typeOf = some t := by
  obtain ⟨a, rest, rfl, h1, h2⟩ := tysCons h
  cases tys0 h2; exact ⟨a, rfl, h1⟩
theorem tys2 {as : List Term} {t u : Ty} (h : as.map Term.typeOf = [t, u].map some) :
    ∃ a b, as = [a, b] ∧ a.typeOf = some t ∧ b.typeOf = some u := by
  obtain ⟨a, rest, rfl, h1, h2⟩ := tysCons h
  obtain ⟨b, rfl, h3⟩ := tys1 h2
  exact ⟨a, b, rfl, h1, h3⟩
theorem tys3 {as : List Term} {t u v : Ty} (h : as.map Term.typeOf = [t, u, v].map some) :
    ∃ a b c, as = [a, b, c] ∧ a.typeOf = some t ∧ b.typeOf = some u ∧ c.typeOf = some v := by
  obtain ⟨a, rest, rfl, h1, h2⟩ := tysCons h
  obtain ⟨b, c, rfl, h3, h4⟩ := tys2 h2
  exact ⟨a, b, c, rfl, h1, h3, h4⟩
theorem tysAll {as : List Term} {ts : List Ty} {t : Ty} (h : as.map Term.typeOf = ts.map some)
    (hall : ts.all (· == t) = true) : ∀ a ∈ as, a.typeOf = some t := by
  intro a ha
  have : a.typeOf ∈ ts.map some := h ▸ List.mem_map_of_mem ha
  obtain ⟨u, hu, hua⟩ := List.mem_map.mp this
  have := List.all_eq_true.mp hall u hu
  simp at this
  rw [← hua, this]

/-- an n-ary (≥ 2) node of a groupable operator -/
theorem frag_nary {op : Op} {τ : Ty} {as : List Term} {s c : String} (hs : shapeOf op = some (.naryInfix s))
    (hg : groupable op = true) (hi : ∃ l, infixOf s = some (c, l)) (hlen : 2 ≤ as.length)
    (hty : ∀ a ∈ as, a.typeOf = some τ)
    (step : ∀ x y : Term, x.typeOf = some τ → y.typeOf = some τ →
      applyInfix c x y = .ok (.node op [x, y] .none) ∧ (Term.node op [x, y] .none).typeOf = some τ) :
    fragNodeN op as .none = true := by
  match as, hlen with
  | [a, b], _ => exact frag_bin hs hi (step a b (hty a (by simp)) (hty b (by simp))).1
  | a :: b :: d :: more, _ =>
    exact frag_chain hs hg hi (chain_ok step _ a (hty a (by simp)) (fun y hy => hty y (List.mem_cons_of_mem _ hy)))

/-- one node of the slice, over arguments `as` of the sorts `ts` -/
theorem node_spell (op : Op) (as : List Term) (p : Payload) (ts : List Ty) (τ : Ty)
    (hT : as.map Term.typeOf = ts.map some) (hstd : stdTy op p ts = some τ)
    (htn : typeOfNode op p (as.map Term.typeOf) = some τ)
    (harity : (op = .and ∨ op = .or ∨ op = .plus ∨ op = .times) → 2 ≤ as.length)
    (hnot : op = .not → ∀ a ∈ as, a.op ≠ .not)
    (hvs : ∀ vs, p = .qvars vs → vs ≠ [])
    (htight : ∀ a ∈ as, tight a = true) (hsp : spellNode op p = true) : fragNodeN op as p = true := by
  cases op <;> first | (simp [spellNode, sliceOp] at hsp; done) | skip
  · -- forall
    simp only [stdTy] at hstd
    split at hstd <;> try (cases hstd; done)
    next vs =>
    obtain ⟨b, rfl, hb⟩ := tys1 hT
    obtain ⟨l, qo⟩ := qo_forall
    have hne := hvs vs rfl
    simp only [spellNode, sliceOp, Bool.true_and] at hsp
    simp only [fragNodeN, fragNode, sh_forall, qo, applyQuant, symsOf_syms, hsp, Bool.and_true, ↓reduceIte]
    simp [Mk.ForAll, hne, create_ok' htn, liftMk, isOk]
  · -- exists
    simp only [stdTy] at hstd
    split at hstd <;> try (cases hstd; done)
    next vs =>
    obtain ⟨b, rfl, hb⟩ := tys1 hT
    obtain ⟨l, qo⟩ := qo_exists
    have hne := hvs vs rfl
    simp only [spellNode, sliceOp, Bool.true_and] at hsp
    simp only [fragNodeN, fragNode, sh_exists, qo, applyQuant, symsOf_syms, hsp, Bool.and_true]
    simp [Mk.Exists, hne, create_ok' htn, liftMk, isOk]
  · -- and
    simp only [stdTy, Bool.and_eq_true, beq_iff_eq] at hstd
    split at hstd <;> try (cases hstd; done)
    next h =>
    obtain ⟨rfl, hall⟩ := h
    exact frag_nary sh_and rfl io_and (harity (Or.inl rfl)) (tysAll hT hall)
      (step_bool _ _ and_call (fun _ => rfl))
  · -- or
    simp only [stdTy, Bool.and_eq_true, beq_iff_eq] at hstd
    split at hstd <;> try (cases hstd; done)
    next h =>
    obtain ⟨rfl, hall⟩ := h
    exact frag_nary sh_or rfl io_or (harity (Or.inr (Or.inl rfl))) (tysAll hT hall)
      (step_bool _ _ or_call (fun _ => rfl))
  · -- not
    simp only [stdTy, Bool.and_eq_true, beq_iff_eq] at hstd
    split at hstd <;> try (cases hstd; done)
    next h =>
    obtain ⟨rfl, rfl⟩ := h
    obtain ⟨a, rfl, ha⟩ := tys1 hT
    obtain ⟨l, uo⟩ := uo_not
    have hn := hnot rfl a (by simp)
    simp only [fragNodeN, fragNode, sh_not, uo, applyUnary, ha, mkNot_plain hn, create_ok' htn]
    simp [liftMk, isOk]
  · -- implies
    simp only [stdTy, Bool.and_eq_true, beq_iff_eq] at hstd
    split at hstd <;> try (cases hstd; done)
    next h =>
    obtain ⟨rfl, rfl⟩ := h
    obtain ⟨a, b, rfl, ha, hb⟩ := tys2 hT
    refine frag_bin sh_implies io_implies ?_
    have : applyInfix "mgr.Implies" a b = liftMk (Mk.Implies a b) := by simp [applyInfix]
    rw [this, Mk.Implies, create_ok' htn]; rfl
  · -- iff
    simp only [stdTy, Bool.and_eq_true, beq_iff_eq] at hstd
    split at hstd <;> try (cases hstd; done)
    next h =>
    obtain ⟨rfl, rfl⟩ := h
    obtain ⟨a, b, rfl, ha, hb⟩ := tys2 hT
    refine frag_bin sh_iff io_iff ?_
    have : applyInfix "mgr.Iff" a b = liftMk (Mk.Iff a b) := by simp [applyInfix]
    rw [this, Mk.Iff, create_ok' htn]; rfl
  · -- symbol
    simp only [stdTy] at hstd
    split at hstd <;> try (cases hstd; done)
    next s =>
    cases tys0 hT
    simp only [spellNode, sliceOp, Bool.true_and] at hsp
    simp [fragNodeN, fragNode, shapeOf_symbol, hsp]
  · -- function
    simp only [stdTy] at hstd
    split at hstd <;> try (cases hstd; done)
    next f =>
    simp only [Bool.and_eq_true, Bool.not_eq_true', beq_iff_eq] at hstd
    split at hstd <;> try (cases hstd; done)
    next h =>
    obtain ⟨hpe, rfl⟩ := h
    simp only [spellNode, sliceOp, Bool.true_and] at hsp
    have hlen : as.length = f.params.length := by
      have := congrArg List.length hT; simpa using this
    cases as with
    | nil =>
      have : f.params = [] := by cases hf : f.params with | nil => rfl | cons _ _ => rw [hf] at hlen; simp at hlen
      rw [this] at hpe; simp at hpe
    | cons a rest =>
      simp only [fragNodeN, fragNode, sh_function, hsp, Bool.true_and]
      simp [Mk.Function, hpe, hlen, create_ok' htn, liftMk, isOk]
  · -- realConst
    simp only [stdTy] at hstd
    split at hstd <;> try (cases hstd; done)
    cases tys0 hT
    simp [fragNodeN, fragNode, sh_real]
  · -- boolConst
    simp only [stdTy] at hstd
    split at hstd <;> try (cases hstd; done)
    cases tys0 hT
    simp [fragNodeN, fragNode, sh_bool]
  · -- intConst
    simp only [stdTy] at hstd
    split at hstd <;> try (cases hstd; done)
    cases tys0 hT
    simp [fragNodeN, fragNode, sh_int]
  · -- plus
    simp only [stdTy, Bool.and_eq_true, beq_iff_eq] at hstd
    split at hstd
    · next h =>
      obtain ⟨rfl, hall⟩ := h
      exact frag_nary sh_plus rfl io_plus (harity (Or.inr (Or.inr (Or.inl rfl)))) (tysAll hT hall)
        (step_num _ _ .int (Or.inl rfl) (plus_call .int (Or.inl rfl)) (fun _ => rfl))
    · split at hstd <;> try (cases hstd; done)
      next h =>
      obtain ⟨rfl, hall⟩ := h
      exact frag_nary sh_plus rfl io_plus (harity (Or.inr (Or.inr (Or.inl rfl)))) (tysAll hT hall)
        (step_num _ _ .real (Or.inr rfl) (plus_call .real (Or.inr rfl)) (fun _ => rfl))
  · -- minus
    simp only [stdTy, Bool.and_eq_true, beq_iff_eq] at hstd
    obtain ⟨l, io⟩ := io_minus
    split at hstd
    · next h =>
      obtain ⟨rfl, rfl⟩ := h
      obtain ⟨a, b, rfl, ha, hb⟩ := tys2 hT
      refine frag_bin sh_minus ⟨l, io⟩ ?_
      rw [minus_call .int (Or.inl rfl) a b ha, create_ok' htn]; rfl
    · split at hstd <;> try (cases hstd; done)
      next h =>
      obtain ⟨rfl, rfl⟩ := h
      obtain ⟨a, b, rfl, ha, hb⟩ := tys2 hT
      refine frag_bin sh_minus ⟨l, io⟩ ?_
      rw [minus_call .real (Or.inr rfl) a b ha, create_ok' htn]; rfl
  · -- times
    simp only [stdTy, Bool.and_eq_true, beq_iff_eq] at hstd
    split at hstd
    · next h =>
      obtain ⟨rfl, hall⟩ := h
      exact frag_nary sh_times rfl io_times (harity (Or.inr (Or.inr (Or.inr rfl)))) (tysAll hT hall)
        (step_num _ _ .int (Or.inl rfl) (times_call .int (Or.inl rfl)) (fun _ => rfl))
    · split at hstd <;> try (cases hstd; done)
      next h =>
      obtain ⟨rfl, hall⟩ := h
      exact frag_nary sh_times rfl io_times (harity (Or.inr (Or.inr (Or.inr rfl)))) (tysAll hT hall)
        (step_num _ _ .real (Or.inr rfl) (times_call .real (Or.inr rfl)) (fun _ => rfl))
  · -- le
    simp only [stdTy, Bool.and_eq_true, Bool.or_eq_true, beq_iff_eq] at hstd
    split at hstd <;> try (cases hstd; done)
    next h =>
    obtain ⟨rfl, hts⟩ := h
    have : ∃ a b, as = [a, b] := by
      rcases hts with rfl | rfl <;> (obtain ⟨a, b, rfl, _, _⟩ := tys2 hT; exact ⟨a, b, rfl⟩)
    obtain ⟨a, b, rfl⟩ := this
    refine frag_bin sh_le io_le ?_
    have : applyInfix "mgr.LE" a b = liftMk (Mk.LE a b) := by simp [applyInfix]
    rw [this, Mk.LE, create_ok' htn]; rfl
  · -- lt
    simp only [stdTy, Bool.and_eq_true, Bool.or_eq_true, beq_iff_eq] at hstd
    split at hstd <;> try (cases hstd; done)
    next h =>
    obtain ⟨rfl, hts⟩ := h
    have : ∃ a b, as = [a, b] := by
      rcases hts with rfl | rfl <;> (obtain ⟨a, b, rfl, _, _⟩ := tys2 hT; exact ⟨a, b, rfl⟩)
    obtain ⟨a, b, rfl⟩ := this
    refine frag_bin sh_lt io_lt ?_
    have : applyInfix "mgr.LT" a b = liftMk (Mk.LT a b) := by simp [applyInfix]
    rw [this, Mk.LT, create_ok' htn]; rfl
  · -- equals
    simp only [stdTy] at hstd
    split at hstd <;> try (cases hstd; done)
    next x y =>
    obtain ⟨a, b, rfl, ha, hb⟩ := tys2 hT
    refine frag_bin sh_equals io_equals ?_
    have : applyInfix "mgr.Equals" a b = liftMk (Mk.Equals a b) := by simp [applyInfix]
    rw [this, Mk.Equals, create_ok' htn]; rfl
  · -- ite
    simp only [stdTy] at hstd
    split at hstd <;> try (cases hstd; done)
    next x y =>
    obtain ⟨c, a, b, rfl, hc, ha, hb⟩ := tys3 hT
    simp only [fragNodeN, fragNode, sh_ite]
    simp [Mk.Ite, create_ok' htn, liftMk, isOk]
  · -- arraySelect
    simp only [stdTy] at hstd
    split at hstd <;> try (cases hstd; done)
    next i e j =>
    obtain ⟨a, b, rfl, ha, hb⟩ := tys2 hT
    simp only [fragNodeN, fragNode, sh_select, htight a (by simp), Bool.true_and]
    simp [Mk.Select, create_ok' htn, liftMk, isOk]
  · -- arrayStore
    simp only [stdTy] at hstd
    split at hstd <;> try (cases hstd; done)
    next i e j v =>
    obtain ⟨a, b, c, rfl, ha, hb, hc⟩ := tys3 hT
    simp only [fragNodeN, fragNode, sh_store, htight a (by simp), Bool.true_and]
    simp [Mk.Store, create_ok' htn, liftMk, isOk]

/-! ### from `Printable`, `mgrNormal`, `hrSpellable` to the fragment -/

theorem regroup_op : (t : Term) → (regroup t).op = t.op
  | .node op args p => by
    rw [regroup_node]
    rcases regroupNode_cases op (args.map regroup) p with ⟨s, a, b, c, more, _, _, _, h⟩ | h
    · obtain ⟨x, y, hxy⟩ := leftNest_root op p (b :: c :: more) a (by simp)
      rw [h, hxy]; rfl
    · rw [h]; rfl

theorem hrSpellable_node (op : Op) (args : List Term) (p : Payload) :
    hrSpellable (.node op args p) = ((args.map hrSpellable).all id && spellNode op p) := by
  rw [hrSpellable]

theorem tight_of_slice : (t : Term) → hrSpellable t = true → tight t = true
  | .node op args p, h => by
    rw [hrSpellable_node] at h
    simp only [Bool.and_eq_true, spellNode] at h
    have hs := h.2.1
    cases op <;> first | (simp [sliceOp] at hs; done) | (simp [tight]; decide)

/-- a negation in the manager's normal form does not negate a negation -/
theorem not_normal {env : SEnv} {scope : List Sym} {a : Term} (hP : Printable env scope a = true)
    (hN : rootNorm .not [a] .none = .node .not [a] .none) : a.op ≠ .not := by
  cases a with
  | node o as q =>
    intro ho
    have ho' : o = .not := ho
    subst ho'
    obtain ⟨τ, hstd, _, _⟩ := printable_node env scope .not as q hP
    simp only [stdTy, Bool.and_eq_true, beq_iff_eq] at hstd
    split at hstd <;> try (cases hstd; done)
    next h =>
    obtain ⟨rfl, hts⟩ := h
    have hone : ∃ x, as = [x] := by
      rcases as with _ | ⟨x, _ | ⟨y, rest⟩⟩
      · simp at hts
      · exact ⟨x, rfl⟩
      · simp at hts
    obtain ⟨x, rfl⟩ := hone
    simp [rootNorm, notNorm] at hN
    have := congrArg Term.size hN
    rw [size_node] at this
    simp only [List.map_cons, List.map_nil, List.sum_cons, List.sum_nil] at this
    rw [size_node] at this
    simp only [List.map_cons, List.map_nil, List.sum_cons, List.sum_nil] at this
    omega

theorem spellable_frag (env : SEnv) : (t : Term) → (scope : List Sym) → Printable env scope t = true →
    mgrNormal t = true → hrSpellable t = true → inHRFragN t = true
  | .node op args p, scope, hP, hN, hS => by
    obtain ⟨τ, hstd, hty, hrest⟩ := printable_node env scope op args p hP
    rw [mgrNormal_node] at hN
    simp only [Bool.and_eq_true, List.all_map, List.all_eq_true, Function.comp, id, decide_eq_true_eq] at hN
    rw [hrSpellable_node] at hS
    simp only [Bool.and_eq_true, List.all_map, List.all_eq_true, Function.comp, id] at hS
    have hchP : ∀ a ∈ args, ∃ sc, Printable env sc a = true := by
      rcases hrest with ⟨vs, _, _, _, hc⟩ | ⟨_, _, _, hc⟩
      · exact fun a ha => ⟨_, hc a ha⟩
      · exact fun a ha => ⟨_, hc a ha⟩
    have hch : ∀ a ∈ args, inHRFragN a = true := fun a ha =>
      let ⟨sc, h⟩ := hchP a ha
      spellable_frag env a sc h (hN.1 a ha) (hS.1 a ha)
    rw [inHRFragN_node]
    simp only [Bool.and_eq_true, List.all_map, List.all_eq_true, Function.comp, id]
    refine ⟨hch, ?_⟩
    have hT : (args.map regroup).map Term.typeOf = (args.map tyD).map some := by
      rw [List.map_map, List.map_map]
      apply List.map_congr_left
      intro a ha
      obtain ⟨sc, h⟩ := hchP a ha
      simp [Function.comp, typeOf_regroup, printable_typeOf h]
    have htn : typeOfNode op p ((args.map regroup).map Term.typeOf) = some τ := by
      have : (args.map regroup).map Term.typeOf = args.map Term.typeOf := by
        rw [List.map_map]; exact List.map_congr_left (fun a _ => typeOf_regroup a)
      rw [this, ← typeOf_node', hty]
    apply node_spell op (args.map regroup) p (args.map tyD) τ hT hstd htn
    · -- arity
      intro hop
      rcases hrest with ⟨vs, hq, _⟩ | ⟨_, _, hok, _⟩
      · rcases hq with rfl | rfl <;> simp at hop
      · rcases hop with rfl | rfl | rfl | rfl <;> simpa [nodeOK] using hok
    · -- not
      rintro rfl a' ha'
      obtain ⟨a, ha, rfl⟩ := List.mem_map.mp ha'
      rw [regroup_op]
      have : p = .none ∧ args = [a] := by
        simp only [stdTy, Bool.and_eq_true, beq_iff_eq] at hstd
        split at hstd <;> try (cases hstd; done)
        next h =>
        have h2 := h.2
        have hp := h.1
        rcases args with _ | ⟨x, _ | ⟨y, rest⟩⟩
        · simp at ha
        · simp at ha; rw [ha]; exact ⟨hp, rfl⟩
        · simp at h2
      obtain ⟨hp, this⟩ := this
      subst this
      subst hp
      obtain ⟨sc, h⟩ := hchP a (by simp)
      exact not_normal h hN.2
    · -- binders
      rintro vs rfl
      rcases hrest with ⟨vs', _, hp, hb, _⟩ | ⟨h1, h2, _, _⟩
      · cases hp
        simp only [binderOK, Bool.and_eq_true, Bool.not_eq_true', List.isEmpty_eq_false_iff] at hb
        exact hb.1.1
      · cases op <;> simp [stdTy] at hstd <;> simp_all
    · -- tight
      intro a' ha'
      obtain ⟨a, ha, rfl⟩ := List.mem_map.mp ha'
      rw [tight_regroup]
      exact tight_of_slice a (hS.1 a ha)
    · exact hS.2

/-! ### non-vacuity: `(<= 'x y' -5)` (C07's example) satisfies the three hypotheses -/

theorem ex_spellable : hrSpellable C07.t1 = true := by
  have : hrName "x y" = true := by decide
  simp [C07.t1, C07.x, Term.sym, Term.int, hrSpellable_node, spellNode, sliceOp, this]

theorem ex_normal : mgrNormal C07.t1 = true := by
  simp [C07.t1, Term.sym, Term.int, mgrNormal_node, rootNorm]

theorem ex_printable : Printable (scriptEnv "QF_LIA" C07.t1) [] C07.t1 = true :=
  C07.pr_t1 _ (by simp [scriptEnv, C07.fv_t1, SEnv.lookupFun, C07.x]) (by decide)

end PySMT.HR.Spell
