import PySMT.Impl.Simplifier
import PySMT.Proofs.SimpAssemble
/-!
# Soundness without the proviso

`simpWith_total`: for every table whose entries are `RuleOK`, under every well-formed
interpretation whose division-by-zero functions map 0 to 0 (`Interp.Tot`) the simplified term has
the value of the original — **no hypothesis on divisions by zero in the term**. Divisions by zero,
guarded or not, taken or not, are allowed: the only rule that is not sound under the total reading
`x / 0 = f(x)` with arbitrary `f` is `0 / x ↦ 0`, which needs exactly `f(0) = 0` (`RuleOK.total`).
-/
namespace PySMT
open PySMT.Simp

/-- congruence of quantifier evaluation along an invariant of the interpretations reached -/
theorem quant_congr_inv (P : Interp → Prop)
    (hP : ∀ (J : Interp) (s : Sym) (v : Val), P J → v ∈ J.dom s.ret → P (J.bind s v))
    (all : Bool) (k k' : Interp → Bool) (h : ∀ J : Interp, P J → k J = k' J) :
    ∀ (vs : List Sym) (I : Interp), P I → I.quant all vs k = I.quant all vs k'
  | [], I, hI => by simp only [Interp.quant]; exact h I hI
  | x :: xs, I, hI => by
    have step : ∀ v ∈ I.dom x.ret, (I.bind x v).quant all xs k = (I.bind x v).quant all xs k' :=
      fun v hv => quant_congr_inv P hP all k k' h xs (I.bind x v) (hP I x v hI hv)
    simp only [Interp.quant]
    split
    · exact all_congr_mem step
    · exact any_congr_mem step

theorem wfTot_bind (J : Interp) (s : Sym) (v : Val) (h : J.WF ∧ J.Tot) (hv : v ∈ J.dom s.ret) :
    (J.bind s v).WF ∧ (J.bind s v).Tot :=
  ⟨h.1.bind s v (h.1.dom_sort _ v hv), h.2⟩

/-- replacing the arguments by terms of the same value (under every well-formed `Tot`
interpretation) keeps the value of a well-formed node -/
theorem node_congr_tot (op : Op) (args : List Term) (p : Payload) (f : Term → Term)
    (hwf : (Term.node op args p).wf = true)
    (h : ∀ a ∈ args, ∀ J : Interp, J.WF → J.Tot → eval J (f a) = eval J a)
    (I : Interp) (hI : I.WF) (hT : I.Tot) :
    eval I (.node op (args.map f) p) = eval I (.node op args p) := by
  by_cases hq : op.isQuantifier = true
  · have hs := wf_shape hwf
    have hshape : ∃ vs b, p = .qvars vs ∧ args = [b] := by
      cases op <;> simp [Op.isQuantifier] at hq <;>
        (cases p <;> simp [Op.shapeOK] at hs
         match args, hs with
         | [b], _ => exact ⟨_, b, rfl, rfl⟩)
    obtain ⟨vs, b, rfl, rfl⟩ := hshape
    have hb := h b (by simp)
    cases op <;> simp [Op.isQuantifier] at hq
    · simp only [List.map_cons, List.map_nil, eval_forall]
      congr 1
      exact quant_congr_inv (fun J => J.WF ∧ J.Tot) wfTot_bind true _ _
        (fun J hJ => by rw [hb J hJ.1 hJ.2]) vs I ⟨hI, hT⟩
    · simp only [List.map_cons, List.map_nil, eval_exists]
      congr 1
      exact quant_congr_inv (fun J => J.WF ∧ J.Tot) wfTot_bind false _ _
        (fun J hJ => by rw [hb J hJ.1 hJ.2]) vs I ⟨hI, hT⟩
  · have hq : op.isQuantifier = false := by simpa using hq
    have hev : (args.map f).map (eval I) = args.map (eval I) := by
      rw [List.map_map]
      exact List.map_congr_left (fun a ha => h a ha I hI hT)
    by_cases hsym : op = .symbol
    · subst hsym
      rw [eval_node, eval_node, evalNode_symbol, evalNode_symbol]
    · by_cases hfn : op = .function
      · subst hfn
        rw [eval_node, eval_node, evalNode_function, evalNode_function]
        cases p <;> try rfl
        simp only [List.map_map]
        congr 1
        simpa [List.map_map] using hev
      · rw [eval_plain I op _ p hsym hfn hq, eval_plain I op _ p hsym hfn hq, hev]

end PySMT

namespace PySMT.Simplifier
open PySMT PySMT.Simp

/-- **soundness without the proviso**, generic in the rule table -/
theorem simpWith_total (tbl : Op → Option Entry) (hok : ∀ op e, tbl op = some e → RuleOK op e) :
    (t : Term) → t.wf = true → inFragWith tbl t = true → ∀ τ, t.typeOf = some τ →
      ∀ I : Interp, I.WF → I.Tot → eval I (simpWith tbl t) = eval I t
  | .node op args p => fun hwf hfrag τ hty I hI hT => by
    obtain ⟨⟨e, he, hg⟩, hfa⟩ := inFragWith_node hfrag
    have hR := hok op e he
    have sp : ∀ a ∈ args, (simpWith tbl a).typeOf = a.typeOf ∧ (simpWith tbl a).wf = true := by
      intro a ha
      obtain ⟨σ, hσ⟩ := wf_typeOf a (wf_args hwf a ha)
      have := (simpWith_spec tbl hok a (wf_args hwf a ha) (hfa a ha) σ hσ).1
      rw [hσ]; exact this
    have ih : ∀ a ∈ args, ∀ J : Interp, J.WF → J.Tot → eval J (simpWith tbl a) = eval J a := by
      intro a ha J hJ hJT
      obtain ⟨σ, hσ⟩ := wf_typeOf a (wf_args hwf a ha)
      exact simpWith_total tbl hok a (wf_args hwf a ha) (hfa a ha) σ hσ J hJ hJT
    have htys : (args.map (simpWith tbl)).map Term.typeOf = args.map Term.typeOf := by
      rw [List.map_map]
      exact List.map_congr_left (fun a ha => (sp a ha).1)
    have hty' : (Term.node op (args.map (simpWith tbl)) p).typeOf = some τ := by
      rw [typeOf_node, htys, ← typeOf_node]; exact hty
    have hwf' : (Term.node op (args.map (simpWith tbl)) p).wf = true := by
      refine wf_mk' ?_ ?_ hty'
      · intro a' ha'
        obtain ⟨a, ha, rfl⟩ := List.mem_map.mp ha'
        exact (sp a ha).2
      · rw [List.length_map]; exact wf_shape hwf
    have hg' : e.guard p ((args.map (simpWith tbl)).map Term.typeOf) = true := by rw [htys]; exact hg
    have hsimp : simpWith tbl (.node op args p) = e.rule p (args.map (simpWith tbl)) := by
      rw [simpWith, he]
    rw [hsimp, hR.total p _ τ hwf' hty' hg' I hI hT]
    exact node_congr_tot op args p (simpWith tbl) hwf ih I hI hT

end PySMT.Simplifier
