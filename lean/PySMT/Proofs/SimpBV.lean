import PySMT.Proofs.SimpBV1
import PySMT.Proofs.SimpBV2
import PySMT.Proofs.SimpBV3
import PySMT.Proofs.SimpBV4
import PySMT.Proofs.SimpBV5
import PySMT.Proofs.SimpBVFold
/-!
# Bit-vector rule family (`Impl/Simp/BV.lean`): `walkBvX_ok : RuleOK` and `walkBvX_fold : FoldOK`
for the 27 `walk_bv_*` rules, for every width

| file | content |
|------|---------|
| `SimpBVBase.lean` | constants, `bvVal`, the contexts `Bin` / `Un` with `const` / `left` / `right` / `rebuild` |
| `SimpBVArith.lean` | the arithmetic: core `BitVec` operations as functions on numbers `< 2^w`, Python-`int` identities |
| `SimpBV1.lean` | and, or, xor, not, neg, add, sub, mul |
| `SimpBV2.lean` | ult, ule, slt, sle, comp |
| `SimpBV3.lean` | concat, extract, zext, sext (guard `extGuard`), rol, ror, tonatural |
| `SimpBV4.lean` | udiv, urem, lshl, lshr |
| `SimpBV5.lean` | sdiv, srem, ashr |
| `SimpBVFold.lean` | `FoldOK` for all of them |
-/
