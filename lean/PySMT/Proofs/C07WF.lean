import PySMT.Proofs.C07Cmds
/-!
# C07: joining the character level and the term level

`wf_toSexp`: the S-expression the tree printer writes for a `Printable` term consists of tokens that have a spelling in the
SMT-LIB lexicon (`Sexp.WF`), hence (`render_read`) its rendering is read back by the standard lexer as that S-expression
and (`read_toSexp`) elaborated to the term.
-/
namespace PySMT.Printer
open PySMT.Std PySMT.Sexp

/-! ## tokens -/

theorem wf_atom_iff (tok : String) : WF (.atom tok) = atomOK tok.toList := by simp [WF]

theorem atomOK_symTok (n : List Char) (hch : n.all nameChar = true) : atomOK (symTokChars n) = true := by
  have hq := all_quoted hch
  unfold symTokChars
  split
  · next hns => simp [atomOK, stripBars_bars, hns, hq]
  · next hns =>
    have hns' : isNonSymbolChars n = false := by simpa using hns
    have hb := no_bar hch
    have hh : (n.head? != some '|') = true := by
      cases n with
      | nil => rfl
      | cons c cs =>
        simp only [List.mem_cons, not_or] at hb
        simp only [List.head?_cons, bne_iff_ne, ne_eq, Option.some.injEq]
        exact fun e => hb.1 e.symm
    simp [atomOK, stripBars_none hb, hh, hns', hq]

theorem wf_quoteAtom (n : String) (hch : n.toList.all nameChar = true) (hr : isReserved n = false) :
    WF (quoteAtom n) = true := by
  rw [quoteAtom_eq n hch hr, Sexp.sym, wf_atom_iff, String.toList_ofList]
  exact atomOK_symTok _ hch

/-- a literal token (first character a digit or `#`) is not a reserved word -/
theorem literal_not_reserved (cs : List Char) (c : Char) (rest : List Char) (hcs : cs = c :: rest)
    (hc : (isDigit c || c == '#') = true) : isReserved (String.ofList cs) = false := by
  have hall : ∀ r ∈ reservedWords, (match r.toList with | c :: _ => !(isDigit c || c == '#') | [] => true) = true := by
    decide +kernel
  cases hres : isReserved (String.ofList cs) with
  | false => rfl
  | true =>
    have hm : String.ofList cs ∈ reservedWords := by simpa [isReserved] using hres
    have := hall _ hm
    rw [String.toList_ofList, hcs] at this
    simp [hc] at this

theorem atomOK_literal (cs : List Char) (c : Char) (rest : List Char) (hcs : cs = c :: rest)
    (hc : (isDigit c || c == '#') = true) (hlit : isNonSymbolChars cs = true) : atomOK cs = true := by
  have hr := literal_not_reserved cs c rest hcs hc
  have hsb : stripBars cs = none := by
    subst hcs
    unfold stripBars
    split
    · next heq =>
      simp only [List.cons.injEq] at heq
      rw [heq.1] at hc
      exact absurd hc (by decide)
    · rfl
  have hh : (cs.head? != some '|') = true := by
    subst hcs
    simp only [List.head?_cons, bne_iff_ne, ne_eq, Option.some.injEq]
    intro e; subst e; revert hc; decide
  simp [atomOK, hsb, hh, hlit, hr]

theorem natChars_head (n : Nat) : ∃ c rest, natChars n = c :: rest ∧ isDigit c = true := by
  have h := natChars_proper n
  have hne := (numeral_digits (isNumeralChars_of_proper h)).1
  cases hl : natChars n with
  | nil => exact absurd hl hne
  | cons c rest =>
    have := h.1
    rw [hl] at this
    simp only [List.all_cons, Bool.and_eq_true] at this
    exact ⟨c, rest, rfl, this.1⟩

theorem wf_natAtom (n : Nat) : WF (natAtom n) = true := by
  obtain ⟨c, rest, hl, hd⟩ := natChars_head n
  rw [natAtom, natStr, wf_atom_iff, String.toList_ofList]
  exact atomOK_literal _ c rest hl (by simp [hd])
    (by simp [isNonSymbolChars, isNumeralChars_of_proper (natChars_proper n)])

theorem wf_decAtom (n : Nat) : WF (decAtom n) = true := by
  obtain ⟨c, rest, hl, hd⟩ := natChars_head n
  have h := natChars_proper n
  have hsd := no_dot_of_digits _ h.1 ['0']
  have hdec : isDecimalChars (natChars n ++ ['.', '0']) = true := by
    simp [isDecimalChars, hsd, isNumeralChars_of_proper h]
    decide
  rw [decAtom, wf_atom_iff, String.toList_ofList]
  exact atomOK_literal _ c (rest ++ ['.', '0']) (by rw [hl]; rfl) (by simp [hd]) (by simp [isNonSymbolChars, hdec])

theorem wf_bvSexp (v w : Nat) (hw : 0 < w) (hv : v < 2 ^ w) : WF (bvSexp v w) = true := by
  obtain ⟨hl, ha, _⟩ := binDigits_props w v
  have hne : (binDigits w v).isEmpty = false := by
    cases hb : binDigits w v with
    | nil => rw [hb] at hl; simp at hl; omega
    | cons _ _ => rfl
  have hbin : isBinaryChars ('#' :: 'b' :: binDigits w v) = true := by simp [isBinaryChars, hne, ha]
  simp only [bvSexp, hv, if_true, List.nil_append]
  rw [wf_atom_iff, String.toList_ofList]
  exact atomOK_literal _ '#' _ rfl (by decide) (by simp [isNonSymbolChars, hbin])

/-- every standard spelling is a token -/
theorem stdSpellings_tokens : ∀ kv ∈ stdSpellings, atomOK kv.2.toList = true := by decide +kernel

theorem wf_spell (sp : Spell) (hsp : SpellStd sp) (k v : String) (h : (k, v) ∈ stdSpellings) : WF (.atom (sp k)) = true := by
  rw [spell sp hsp k v h, wf_atom_iff]
  exact stdSpellings_tokens (k, v) h

theorem wf_fixed : WF (.atom "true") = true ∧ WF (.atom "false") = true ∧ WF (.atom "_") = true
    ∧ WF (.atom "Bool") = true ∧ WF (.atom "Int") = true ∧ WF (.atom "Real") = true ∧ WF (.atom "String") = true
    ∧ WF (.atom "BitVec") = true ∧ WF (.atom "Array") = true := by decide +kernel

theorem wfList_cons (x : Sexp) (xs : List Sexp) : WFList (x :: xs) = (WF x && WFList xs) := by simp [WFList]

theorem wfList_iff : ∀ (xs : List Sexp), WFList xs = true ↔ ∀ x ∈ xs, WF x = true
  | [] => by simp [WFList]
  | x :: xs => by simp [WFList, wfList_iff xs]

theorem wf_list (xs : List Sexp) : WF (.list xs) = WFList xs := by simp [WF]

/-! ## sorts -/

theorem wf_tySexp (env : SEnv) : ∀ (ty : Ty), SortOK env ty = true → WF (tySexp ty) = true
  | .bool, _ => wf_fixed.2.2.2.1
  | .int, _ => wf_fixed.2.2.2.2.1
  | .real, _ => wf_fixed.2.2.2.2.2.1
  | .str, _ => wf_fixed.2.2.2.2.2.2.1
  | .bv w, _ => by
    simp only [tySexp, wf_list, WFList, wf_fixed.2.2.1, wf_fixed.2.2.2.2.2.2.2.1, wf_natAtom, Bool.and_self]
  | .array i e, h => by
    simp only [SortOK, Bool.and_eq_true] at h
    simp only [tySexp, wf_list, WFList, wf_fixed.2.2.2.2.2.2.2.2, wf_tySexp env i h.1, wf_tySexp env e h.2, Bool.and_self]
  | .custom n, h => by
    simp only [SortOK, Bool.and_eq_true, Bool.not_eq_true', beq_iff_eq] at h
    obtain ⟨⟨⟨⟨hbr, hch⟩, hr⟩, hbuiltin⟩, _⟩ := h
    have hbr' : '{' ∉ n.toList := by simpa using hbr
    simp only [List.contains_cons, List.contains_nil, Bool.or_false, Bool.or_eq_false_iff, beq_eq_false_iff_ne,
      ne_eq] at hbuiltin
    obtain ⟨hB, hI, hR, hS⟩ := hbuiltin
    have hts : tySexp (.custom n) = quoteAtom n := by
      simp only [tySexp]
      cases hl : n.length with
      | zero => simp [nameToSexp, sortAtom, String.ofList_toList]
      | succ k =>
        have hb : ["Int", "Real", "Bool", "String"].contains n = false := by
          simp only [List.contains_cons, List.contains_nil, Bool.or_false, Bool.or_eq_false_iff, beq_eq_false_iff_ne,
            ne_eq]
          exact ⟨hI, hR, hB, hS⟩
        simp only [nameToSexp, breakBrace_none _ hbr', String.ofList_toList, hb, Bool.false_eq_true, if_false, sortAtom]
    rw [hts]
    exact wf_quoteAtom n hch hr

/-! ## nodes -/

def stdNameOf (op : Op) : Option String := stdSpellings.lookup (walkKey op)

def leafOps : List Op :=
  [.symbol, .function, .realConst, .boolConst, .intConst, .strConst, .bvConst, .arrayValue, .strToInt, .intToStr, .pow,
   .algebraicConst]

theorem stdNameOf_cases : ∀ op ∈ Op.all, (stdNameOf op).isSome = true ∨ op ∈ leafOps := by decide +kernel

theorem mem_opAll (op : Op) : op ∈ Op.all := by cases op <;> simp [Op.all]

theorem mem_of_lookup_str : ∀ (l : List (String × String)) (k v : String), l.lookup k = some v → (k, v) ∈ l
  | [], _, _, h => by simp [List.lookup] at h
  | (a, b) :: l, k, v, h => by
    simp only [List.lookup] at h
    split at h
    · next heq =>
      have : k = a := by simpa using heq
      simp only [Option.some.injEq] at h
      subst this; subst h; simp
    · exact List.mem_cons_of_mem _ (mem_of_lookup_str l k v h)

theorem wf_opAtom (sp : Spell) (hsp : SpellStd sp) (op : Op) (h : (stdNameOf op).isSome = true) :
    WF (.atom (sp (walkKey op))) = true := by
  cases hn : stdNameOf op with
  | none => rw [hn] at h; simp at h
  | some nm => exact wf_spell sp hsp _ nm (mem_of_lookup_str _ _ _ hn)

theorem wf_indexed (name : String) (hname : WF (.atom name) = true) (idx : List Nat) (as : List Sexp)
    (has : WFList as = true) : WF (indexed name idx as) = true := by
  have hidx : WFList (idx.map natAtom) = true := by
    rw [wfList_iff]; intro x hx
    simp only [List.mem_map] at hx
    obtain ⟨n, _, rfl⟩ := hx
    exact wf_natAtom n
  simp only [indexed, wf_list, wfList_cons, wf_fixed.2.2.1, hname, hidx, has, Bool.and_self]

section
variable (sp : Spell) (hsp : SpellStd sp) (env : SEnv) (scope0 : List Sym)
include hsp

theorem wf_node (op : Op) (p : Payload) (args : List Term) (as : List Sexp) (τ : Ty)
    (h1 : op ≠ .forall_) (h2 : op ≠ .exists_)
    (hS : stdTy op p (args.map tyD) = some τ) (hok : nodeOK env scope0 op p args = true)
    (has : WFList as = true) (hlen : as.length = args.length) : WF (nodeSexp sp true op p args as) = true := by
  unfold nodeSexp
  split
  · next s =>
    simp only [nodeOK, Bool.and_eq_true, nameFine, Bool.not_eq_true'] at hok
    exact wf_quoteAtom s.name hok.1.1.2.1.1 hok.1.1.2.1.2
  · next f =>
    simp only [nodeOK, Bool.and_eq_true, nameFine, Bool.not_eq_true'] at hok
    simp only [wf_list, wfList_cons, has, wf_quoteAtom f.name hok.1.1.1.2.1.1 hok.1.1.1.2.1.2, Bool.and_self]
  · next n =>
    simp only [intSexp]
    split
    · simp only [wf_list, WFList, wf_spell sp hsp "walk_int_constant" "-" (by decide), wf_natAtom, Bool.and_self]
    · exact wf_natAtom _
  · next r =>
    simp only [realSexp]
    have hbody : WF (if (r.den != 1) = true then
        Sexp.list [.atom (sp "walk_real_constant:1"), decAtom r.num.natAbs, decAtom r.den] else decAtom r.num.natAbs) = true := by
      split
      · simp only [wf_list, WFList, wf_spell sp hsp "walk_real_constant:1" "/" (by decide), wf_decAtom, Bool.and_self]
      · exact wf_decAtom _
    split
    · simp only [wf_list, WFList, wf_spell sp hsp "walk_real_constant:0" "-" (by decide), hbody, Bool.and_self]
    · exact hbody
  · next v => cases v <;> simp [wf_fixed.1, wf_fixed.2.1]
  · next v w =>
    simp only [stdTy] at hS
    split at hS
    · split at hS <;> simp at hS
      rename_i hc
      simp only [Bool.and_eq_true, decide_eq_true_eq] at hc
      rename_i heq _
      cases heq
      exact wf_bvSexp _ _ hc.1 hc.2
    · simp at hS
  · next v =>
    simp only [nodeOK, strFine, List.all_eq_true, Bool.and_eq_true, decide_eq_true_eq] at hok
    simp only [WF, List.all_eq_true]
    intro c hc
    have := hok c hc
    simp only [isPrintable, Bool.or_eq_true, Bool.and_eq_true, decide_eq_true_eq]
    left
    exact ⟨by omega, by omega⟩
  · exact absurd rfl h1
  · exact absurd rfl h2
  · exact wf_indexed _ (wf_spell sp hsp "walk_bv_extract" "extract" (by decide)) _ _ has
  · exact wf_indexed _ (wf_spell sp hsp "walk_bv_rotate:is_bv_rol" "rotate_left" (by decide)) _ _ has
  · exact wf_indexed _ (wf_spell sp hsp "walk_bv_rotate:is_bv_ror" "rotate_right" (by decide)) _ _ has
  · exact wf_indexed _ (wf_spell sp hsp "walk_bv_extend:is_bv_zext" "zero_extend" (by decide)) _ _ has
  · exact wf_indexed _ (wf_spell sp hsp "walk_bv_extend:is_bv_sext" "sign_extend" (by decide)) _ _ has
  · next idx =>
    split
    · next d rest ds restS =>
      simp only [nodeOK, Bool.and_eq_true] at hok
      obtain ⟨hsidx, hse, _⟩ := hok
      have hds : WF ds = true ∧ WFList restS = true := by simpa [wfList_cons] using has
      have harr : WF (arrTySexp idx d) = true := by
        cases hd : d.typeOf with
        | none => rw [hd] at hse; simp at hse
        | some e =>
          rw [hd] at hse
          simp only [arrTySexp, hd, wf_list, WFList, wf_fixed.2.2.2.2.2.2.2.2, wf_tySexp env idx hsidx,
            wf_tySexp env e hse, Bool.and_self]
      have hrest := (wfList_iff restS).1 hds.2
      simp only [if_true, storeChain]
      have : ∀ (l : List (Sexp × Sexp)) (acc : Sexp), WF acc = true → (∀ kv ∈ l, WF kv.1 = true ∧ WF kv.2 = true) →
          WF (l.foldl (fun acc kv => Sexp.list [.atom (sp "walk_array_value:0"), acc, kv.1, kv.2]) acc) = true := by
        intro l
        induction l with
        | nil => intro acc h _; exact h
        | cons kv l ih =>
          intro acc hacc hl
          simp only [List.foldl_cons]
          apply ih
          · simp only [wf_list, WFList, wf_spell sp hsp "walk_array_value:0" "store" (by decide), hacc,
              (hl kv (by simp)).1, (hl kv (by simp)).2, Bool.and_self]
          · exact fun x hx => hl x (List.mem_cons_of_mem _ hx)
      apply this
      · simp only [wf_list, WFList, wf_spell sp hsp "walk_array_value:1" "as" (by decide),
          wf_spell sp hsp "walk_array_value:2" "const" (by decide), harr, hds.1, Bool.and_self]
      · intro kv hkv
        simp only [List.mem_map] at hkv
        obtain ⟨e, he, rfl⟩ := hkv
        have hmem := mem_dictPairs _ e (mem_sortBy _ _ _ he)
        obtain ⟨⟨x, hx, hx1⟩, ⟨y, hy, hy2⟩⟩ := hmem
        have hxm := mem_pairsOf_zip rest restS x hx
        have hym := mem_pairsOf_zip rest restS y hy
        exact ⟨hx1 ▸ hrest _ hxm.1, hy2 ▸ hrest _ hym.2⟩
    · next hneg =>
      exfalso
      simp only [stdTy] at hS
      split at hS
      · next ts idx' dT restT hts =>
        cases args with
        | nil => simp at hts
        | cons d rest =>
          cases as with
          | nil => simp at hlen
          | cons ds restS => exact hneg d rest ds restS rfl rfl
      · simp at hS
  · -- the default spelling `(op args…)`
    rename_i hn1 hn2 hn3 hn4 hn5 hn6 hn7 hn8 hn9 hn10 hn11 hn12 hn13 hn14 hn15
    have hatom : WF (.atom (sp (walkKey op))) = true := by
      rcases stdNameOf_cases op (mem_opAll op) with h | h
      · exact wf_opAtom sp hsp op h
      · exfalso
        simp only [leafOps, List.mem_cons, List.not_mem_nil, or_false] at h
        rcases h with rfl | rfl | rfl | rfl | rfl | rfl | rfl | rfl | rfl | rfl | rfl | rfl <;>
          simp only [stdTy] at hS <;> (try (split at hS <;> simp_all)) <;> simp_all
    simp only [wf_list, wfList_cons, hatom, has, Bool.and_self]

theorem wf_quant (op : Op) (hop : op = .forall_ ∨ op = .exists_) (vs : List Sym) (args : List Term) (as : List Sexp)
    (hb : binderOK env vs = true) (has : WFList as = true) :
    WF (nodeSexp sp true op (.qvars vs) args as) = true := by
  have hvs : WFList (vs.map sortedVar) = true := by
    rw [wfList_iff]
    intro x hx
    simp only [List.mem_map] at hx
    obtain ⟨v, hv, rfl⟩ := hx
    simp only [binderOK, Bool.and_eq_true] at hb
    have := (List.all_eq_true.1 hb.2) v hv
    simp only [Bool.and_eq_true, nameFine, Bool.not_eq_true'] at this
    simp only [sortedVar, wf_list, WFList, wf_quoteAtom v.name this.1.1.1.1 this.1.1.1.2, wf_tySexp env v.ret this.2,
      Bool.and_self]
  rcases hop with rfl | rfl
  · simp only [nodeSexp, walkKey, wf_list, wfList_cons, wf_spell sp hsp "walk_forall" "forall" (by decide), hvs, has,
      Bool.and_self]
  · simp only [nodeSexp, walkKey, wf_list, wfList_cons, wf_spell sp hsp "walk_exists" "exists" (by decide), hvs, has,
      Bool.and_self]

/-- every token the tree printer writes for a `Printable` term has a spelling in the SMT-LIB lexicon -/
theorem wf_toSexpWith : ∀ (t : Term) (scope : List Sym), Printable env scope t = true → WF (toSexpWith sp t) = true
  | .node op args p, scope, hP => by
    obtain ⟨τ, hS, _, hcase⟩ := printable_node env scope op args p hP
    rw [toSexpWith_node]
    rcases hcase with ⟨vs, hq, rfl, hb, hargsP⟩ | ⟨h1, h2, hok, hargsP⟩
    · apply wf_quant sp hsp env op hq vs args _ hb
      rw [wfList_iff]
      intro x hx
      simp only [List.mem_map] at hx
      obtain ⟨a, ha, rfl⟩ := hx
      exact wf_toSexpWith a _ (hargsP a ha)
    · apply wf_node sp hsp env scope op p args _ τ h1 h2 hS hok _ (by simp)
      rw [wfList_iff]
      intro x hx
      simp only [List.mem_map] at hx
      obtain ⟨a, ha, rfl⟩ := hx
      exact wf_toSexpWith a _ (hargsP a ha)
termination_by t => sizeOf t
decreasing_by
  all_goals
    simp_wf
    have := List.sizeOf_lt_of_mem ha
    omega

end

theorem wf_toSexp (env : SEnv) (t : Term) (h : Printable env [] t = true) : Sexp.WF (toSexp t) = true :=
  wf_toSexpWith treeSpell treeSpell_std env t [] h

/-- **From characters to the term**: the rendering of what the tree printer writes for a `Printable` term, read by the
standard *lexer and reader* and then elaborated by the standard's reading, is the term (array values unfolded). -/
theorem text_read_toSexp (env : SEnv) (t : Term) (h : Printable env [] t = true) :
    (Sexp.readOne (Sexp.render (toSexp t))).bind (readStd env []) = .ok (unfoldAV t) := by
  simp only [Sexp.readOne, Sexp.render_read (toSexp t) (wf_toSexp env t h), Except.bind, read_toSexp env t h]

end PySMT.Printer
