import PySMT.Impl.WF
import PySMT.Proofs.SimpVals
import PySMT.Proofs.Coincidence
/-!
# Type soundness of the reference semantics on well-formed terms (`eval_hasSort`)

`Proofs/Coincidence.lean` proves the operator step `evalOp_hasSort` for every operator except
`arrayStore` / `arrayValue` under the shape condition `nodeFrag`. Here:

* the canonical array values: `Val.store_hasSort`, `Val.normArr_hasSort`, `Val.mkArr_hasSort`,
  `Sem.arrayValue_hasSort` (and `Val.hasSort_array_parts`, the decomposition of a well-sorted array
  value into index sort / default / entries);
* `Op.shapeOK_nodeFrag` : the shape condition of `Term.wf` implies `nodeFrag`;
* `eval_hasSort` : type soundness of `eval` on well-formed terms, all operators;
* corollaries `eval_bool_of_wf`, `eval_int_of_wf`, `eval_real_of_wf`, `eval_str_of_wf`, `eval_bv_of_wf`.
-/
namespace PySMT

/-! ## canonical array values -/

/-- every entry has a key of sort `i` and a value of sort `e` -/
def EntsOK (i e : Ty) (ents : List (Val × Val)) : Prop :=
  ∀ kv ∈ ents, kv.1.hasSort i = true ∧ kv.2.hasSort e = true

theorem EntsOK.nil {i e : Ty} : EntsOK i e [] := by
  intro kv hkv; simp at hkv

theorem EntsOK.filter {i e : Ty} {ents : List (Val × Val)} (h : EntsOK i e ents) (f : Val × Val → Bool) :
    EntsOK i e (ents.filter f) :=
  fun kv hkv => h kv (List.mem_filter.mp hkv).1

/-- a well-sorted array value decomposes into its index sort, a well-sorted default and
well-sorted entries -/
theorem Val.hasSort_array_parts {i e : Ty} : ∀ (a : Val), a.hasSort (.array i e) = true →
    a.arrIdx = i ∧ a.arrDefault.hasSort e = true ∧ EntsOK i e a.arrEntries
  | .aconst ix d, h => by
    simp only [Val.hasSort, Bool.and_eq_true, beq_iff_eq] at h
    exact ⟨h.1, h.2, EntsOK.nil⟩
  | .astore a k v, h => by
    simp only [Val.hasSort, Bool.and_eq_true] at h
    obtain ⟨h1, h2, h3⟩ := Val.hasSort_array_parts a h.1.1
    refine ⟨h1, h2, ?_⟩
    intro kv hkv
    simp only [Val.arrEntries, List.mem_append, List.mem_singleton] at hkv
    rcases hkv with hkv | rfl
    · exact h3 kv hkv
    · exact ⟨h.1.2, h.2⟩
  | .b _, h | .i _, h | .r _, h | .s _, h | .bv _ _, h | .u _ _, h => by simp [Val.hasSort] at h

theorem Val.foldl_astore_hasSort {i e : Ty} : ∀ (ents : List (Val × Val)) (acc : Val),
    acc.hasSort (.array i e) = true → EntsOK i e ents →
    (ents.foldl (fun a kv => Val.astore a kv.1 kv.2) acc).hasSort (.array i e) = true
  | [], _, h, _ => h
  | kv :: ents, acc, h, he => by
    simp only [List.foldl_cons]
    refine Val.foldl_astore_hasSort ents _ ?_ (fun x hx => he x (by simp [hx]))
    have := he kv (by simp)
    simp [Val.hasSort, h, this.1, this.2]

theorem Val.mkArr_hasSort {i e : Ty} {d : Val} {ents : List (Val × Val)} (hd : d.hasSort e = true)
    (he : EntsOK i e ents) : (Val.mkArr i d ents).hasSort (.array i e) = true :=
  Val.foldl_astore_hasSort ents _ (by simp [Val.hasSort, hd]) he

theorem Val.insertEnt_ok {i e : Ty} {k v : Val} (hk : k.hasSort i = true) (hv : v.hasSort e = true) :
    ∀ (ents : List (Val × Val)), EntsOK i e ents → EntsOK i e (Val.insertEnt k v ents)
  | [], _ => by
    intro kv hkv
    simp only [Val.insertEnt, List.mem_singleton] at hkv
    subst hkv; exact ⟨hk, hv⟩
  | (k', v') :: rest, h => by
    intro kv hkv
    simp only [Val.insertEnt] at hkv
    split at hkv
    · rcases List.mem_cons.mp hkv with rfl | hkv
      · exact ⟨hk, hv⟩
      · exact h kv (by simp [hkv])
    · split at hkv
      · rcases List.mem_cons.mp hkv with rfl | hkv
        · exact ⟨hk, hv⟩
        · exact h kv hkv
      · rcases List.mem_cons.mp hkv with rfl | hkv
        · exact h _ (by simp)
        · exact Val.insertEnt_ok hk hv rest (fun x hx => h x (by simp [hx])) kv hkv

theorem Val.lookupEnt_hasSort {i e : Ty} {d : Val} (k : Val) (hd : d.hasSort e = true) :
    ∀ (ents : List (Val × Val)), EntsOK i e ents → (Val.lookupEnt k d ents).hasSort e = true
  | [], _ => hd
  | (k', v') :: rest, h => by
    simp only [Val.lookupEnt]
    split
    · exact (h (k', v') (by simp)).2
    · exact Val.lookupEnt_hasSort k hd rest (fun x hx => h x (by simp [hx]))

theorem Val.smallDomain_sort {i : Ty} {dom : List Val} (h : Val.smallDomain i = some dom) :
    ∀ k ∈ dom, k.hasSort i = true := by
  cases i <;> simp only [Val.smallDomain] at h <;> try (cases h; done)
  · cases h
    intro k hk
    simp only [List.mem_cons, List.mem_nil_iff, or_false] at hk
    rcases hk with rfl | rfl <;> rfl
  · next w =>
    split at h
    · cases h
      intro k hk
      simp only [List.mem_map, List.mem_range] at hk
      obtain ⟨n, hn, rfl⟩ := hk
      exact Val.hasSort_bv_mk hn
    · cases h

theorem Val.normArr_hasSort {i e : Ty} {d : Val} {ents : List (Val × Val)} (hd : d.hasSort e = true)
    (he : EntsOK i e ents) : (Val.normArr i d ents).hasSort (.array i e) = true := by
  unfold Val.normArr
  split
  · next dom hdom =>
    split
    · next m hm =>
      simp only
      split
      · exact Val.mkArr_hasSort hd he
      · refine Val.mkArr_hasSort (Val.lookupEnt_hasSort m hd ents he) (EntsOK.filter ?_ _)
        intro kv hkv
        simp only [List.mem_map] at hkv
        obtain ⟨k, hk, rfl⟩ := hkv
        exact ⟨Val.smallDomain_sort hdom k (List.dropLast_subset dom hk), Val.lookupEnt_hasSort k hd ents he⟩
    · exact Val.mkArr_hasSort hd he
  · exact Val.mkArr_hasSort hd he

/-- `store` on well-sorted arguments is a well-sorted array value -/
theorem Val.store_hasSort {i e : Ty} {a k v : Val} (ha : a.hasSort (.array i e) = true)
    (hk : k.hasSort i = true) (hv : v.hasSort e = true) : (a.store k v).hasSort (.array i e) = true := by
  obtain ⟨h1, h2, h3⟩ := Val.hasSort_array_parts a ha
  unfold Val.store
  simp only [h1]
  split
  · exact Val.normArr_hasSort h2 (h3.filter _)
  · exact Val.normArr_hasSort h2 (Val.insertEnt_ok hk hv _ h3)

/-- `select` on a well-sorted array value gives a value of the element sort -/
theorem Val.select_hasSort {i e : Ty} (j : Val) : ∀ (a : Val), a.hasSort (.array i e) = true →
    (a.select j).hasSort e = true
  | .astore a k v, h => by
    simp only [Val.hasSort, Bool.and_eq_true] at h
    simp only [Val.select]
    split
    · exact h.2
    · exact Val.select_hasSort j a h.1.1
  | .aconst ix d, h => by
    simp only [Val.hasSort, Bool.and_eq_true] at h
    exact h.2
  | .b _, h | .i _, h | .r _, h | .s _, h | .bv _ _, h | .u _ _, h => by simp [Val.hasSort] at h

/-! ## `arrayStore`, `arrayValue` -/

/-- close a goal whose typing hypothesis computes to `none = some _` -/
local macro "tnone " h:ident : tactic => `(tactic| try (cases $h:ident; done))

theorem typeOfNode_arrayStore {p ts τ} (h : typeOfNode .arrayStore p ts = some τ) :
    ∃ i e, ts = [some (.array i e), some i, some e] ∧ τ = .array i e := by
  rcases ts with _ | ⟨_ | ⟨t1⟩, r1⟩ <;> tnone h
  cases t1 <;> tnone h
  rcases r1 with _ | ⟨_ | ⟨t2⟩, r2⟩ <;> tnone h
  rcases r2 with _ | ⟨_ | ⟨t3⟩, r3⟩ <;> tnone h
  rcases r3 with _ | ⟨t4, r4⟩ <;> tnone h
  obtain ⟨⟨rfl, rfl⟩, rfl⟩ := of_ite_some h
  exact ⟨_, _, rfl, rfl⟩

theorem typeOfNode_arrayValue {p ts τ} (h : typeOfNode .arrayValue p ts = some τ) :
    ∃ idx d rest, p = .ty idx ∧ ts = some d :: rest ∧ typeOfNode.chk idx d rest = true ∧ τ = .array idx d := by
  cases p <;> tnone h
  rcases ts with _ | ⟨_ | ⟨t1⟩, r1⟩ <;> tnone h
  obtain ⟨hc, rfl⟩ := of_ite_some h
  exact ⟨_, _, _, rfl, rfl, hc, rfl⟩

theorem Sem.arrayValue_hasSort {idx e : Ty} {d0 : Val} (hd : d0.hasSort e = true) :
    ∀ {vs : List Val} {ts : List (Option Ty)}, SortedAll vs ts → typeOfNode.chk idx e ts = true →
      (Sem.arrayValue idx d0 vs).hasSort (.array idx e) = true
  | _, _, .nil, _ => by simp [Sem.arrayValue, Val.hasSort, hd]
  | _, _, .cons _ .nil, h => by simp [typeOfNode.chk] at h
  | _, _, .cons (v := k) (t := tk) hk (.cons (v := v) (t := tv) hv hs), h => by
    simp only [typeOfNode.chk, Bool.and_eq_true, beq_iff_eq] at h
    obtain ⟨⟨rfl, rfl⟩, hrest⟩ := h
    simp only [Sem.arrayValue]
    exact Val.store_hasSort (Sem.arrayValue_hasSort hd hs hrest) (hk _ rfl) (hv _ rfl)

/-! ## `Op.shapeOK` implies the shape condition of `evalOp_hasSort` -/

theorem Op.shapeOK_nodeFrag {op : Op} {p : Payload} {n : Nat} (h : op.shapeOK p n = true)
    (h1 : op ≠ .arrayStore) (h2 : op ≠ .arrayValue) : nodeFrag op p n = true := by
  cases op <;> first
    | exact absurd rfl h1
    | exact absurd rfl h2
    | exact h
    | rfl
    | exact absurd h Bool.false_ne_true
    | exact decide_eq_true (by have := of_decide_eq_true h; omega)
    | (cases p <;> first
        | exact h
        | rfl
        | exact absurd h Bool.false_ne_true
        | exact (Bool.and_eq_true_iff.mp h).2
        | (rename_i l
           rcases l with _ | ⟨a, _ | ⟨b, _ | ⟨c, _ | ⟨d, r⟩⟩⟩⟩ <;> first
            | exact h
            | rfl
            | exact absurd h Bool.false_ne_true
            | exact (Bool.and_eq_true_iff.mp h).2
            | exact Bool.and_eq_true_iff.mpr ⟨h, rfl⟩))

/-! ## the operator step, all operators -/

/-- sort preservation of `evalOp` for every operator with an admissible shape -/
theorem evalOp_hasSort_wf (I : Interp) (op : Op) (p : Payload) (vs : List Val) (ts : List (Option Ty))
    (τ : Ty) (hshape : op.shapeOK p vs.length = true) (hs : SortedAll vs ts)
    (ht : typeOfNode op p ts = some τ)
    (h1 : op ≠ .symbol) (h2 : op ≠ .function) (h3 : op.isQuantifier = false) :
    (evalOp I op p vs).hasSort τ = true := by
  by_cases hst : op = .arrayStore
  · subst hst
    obtain ⟨i, e, rfl, rfl⟩ := typeOfNode_arrayStore ht
    obtain ⟨a, k, v, rfl, ha, hk, hv⟩ := sortedAll_3 hs
    exact Val.store_hasSort (ha _ rfl) (hk _ rfl) (hv _ rfl)
  by_cases hav : op = .arrayValue
  · subst hav
    obtain ⟨idx, d, rest, rfl, rfl, hc, rfl⟩ := typeOfNode_arrayValue ht
    obtain ⟨d0, vs', rfl, hd, hs'⟩ := sortedAll_cons hs
    exact Sem.arrayValue_hasSort (hd _ rfl) hs' hc
  exact evalOp_hasSort I op p vs ts τ (Op.shapeOK_nodeFrag hshape hst hav) hs ht h1 h2 h3

/-! ## type soundness -/

/-- type soundness of `eval` on well-formed terms -/
theorem eval_hasSort : (t : Term) → t.wf = true → ∀ τ : Ty, t.typeOf = some τ →
    ∀ I : Interp, I.WF → (eval I t).hasSort τ = true
  | .node op args p => fun hwf τ hty I hI => by
    obtain ⟨hch, hshape, -⟩ := Term.wf_node.mp hwf
    have ih : ∀ a ∈ args, SortedAs (eval I a) a.typeOf := fun a ha τ' h' =>
      eval_hasSort a (hch a ha) τ' h' I hI
    rw [typeOf_node] at hty
    by_cases hsym : op = .symbol
    · subst hsym
      obtain ⟨hts, s, rfl, hpar⟩ := typeOfNode_symbol (by rw [hty]; rfl)
      rw [typeOfNode_symbol_eq, hts] at hty
      obtain ⟨_, rfl⟩ := of_ite_some hty
      rw [eval_symbol]; exact hI.sym s
    by_cases hfun : op = .function
    · subst hfun
      rw [typeOfNode_function_eq] at hty
      cases p <;> try (cases hty; done)
      obtain ⟨_, rfl⟩ := of_ite_some hty
      rw [eval_function]; exact hI.fn _ _
    by_cases hq : op.isQuantifier = true
    · cases op <;> simp [Op.isQuantifier] at hq
      · rw [typeOfNode_forall_eq] at hty
        have : τ = .bool := by split at hty <;> simp_all
        subst this
        rw [eval_node, evalNode_forall]
        split <;> rfl
      · rw [typeOfNode_exists_eq] at hty
        have : τ = .bool := by split at hty <;> simp_all
        subst this
        rw [eval_node, evalNode_exists]
        split <;> rfl
    · have hq' : op.isQuantifier = false := by simpa using hq
      rw [eval_plain I op args p hsym hfun hq']
      exact evalOp_hasSort_wf I op p _ _ τ (by simpa using hshape) (sortedAll_map _ _ args ih) hty hsym hfun hq'

theorem eval_bool_of_wf {t : Term} {I : Interp} (hwf : t.wf = true) (hty : t.typeOf = some .bool)
    (hI : I.WF) : ∃ b, eval I t = .b b :=
  Val.hasSort_bool (eval_hasSort t hwf .bool hty I hI)

theorem eval_int_of_wf {t : Term} {I : Interp} (hwf : t.wf = true) (hty : t.typeOf = some .int)
    (hI : I.WF) : ∃ n, eval I t = .i n :=
  Val.hasSort_int (eval_hasSort t hwf .int hty I hI)

theorem eval_real_of_wf {t : Term} {I : Interp} (hwf : t.wf = true) (hty : t.typeOf = some .real)
    (hI : I.WF) : ∃ q, eval I t = .r q :=
  Val.hasSort_real (eval_hasSort t hwf .real hty I hI)

theorem eval_str_of_wf {t : Term} {I : Interp} (hwf : t.wf = true) (hty : t.typeOf = some .str)
    (hI : I.WF) : ∃ s, eval I t = .s s :=
  Val.hasSort_str (eval_hasSort t hwf .str hty I hI)

theorem eval_bv_of_wf {t : Term} {I : Interp} {w : Nat} (hwf : t.wf = true) (hty : t.typeOf = some (.bv w))
    (hI : I.WF) : ∃ n, eval I t = .bv w n ∧ n < 2 ^ w :=
  Val.hasSort_bv (eval_hasSort t hwf (.bv w) hty I hI)

theorem eval_array_of_wf {t : Term} {I : Interp} {i e : Ty} (hwf : t.wf = true)
    (hty : t.typeOf = some (.array i e)) (hI : I.WF) :
    (eval I t).arrIdx = i ∧ (eval I t).arrDefault.hasSort e = true ∧ EntsOK i e (eval I t).arrEntries :=
  Val.hasSort_array_parts _ (eval_hasSort t hwf (.array i e) hty I hI)

end PySMT
