import PySMT.Impl.WF
import PySMT.Proofs.SimpVals
import PySMT.Proofs.Coincidence
/-!
# Type soundness of the reference semantics on well-formed terms (`eval_hasSort`)
-/
namespace PySMT

/-! ## argument values versus argument types -/

/-- the argument values inhabit the argument types -/
def ArgsOK : List Val → List (Option Ty) → Prop
  | [], [] => True
  | v :: vs, t :: ts => (∃ σ, t = some σ ∧ v.hasSort σ = true) ∧ ArgsOK vs ts
  | _, _ => False

theorem ArgsOK.length_eq : ∀ {vs : List Val} {ts : List (Option Ty)}, ArgsOK vs ts → vs.length = ts.length
  | [], [], _ => rfl
  | _ :: _, _ :: _, h => by simp [ArgsOK.length_eq h.2]
  | [], _ :: _, h => by simp [ArgsOK] at h
  | _ :: _, [], h => by simp [ArgsOK] at h

theorem ArgsOK.allAre : ∀ {vs : List Val} {ts : List (Option Ty)} {σ : Ty}, ArgsOK vs ts →
    allAre ts σ = true → ∀ v ∈ vs, v.hasSort σ = true
  | [], [], _, _, _ => by simp
  | v :: vs, t :: ts, σ, h, ha => by
    simp only [PySMT.allAre, List.all_cons, Bool.and_eq_true, beq_iff_eq] at ha
    obtain ⟨⟨σ', rfl, hv⟩, hr⟩ := h
    have : σ' = σ := by simpa using ha.1
    subst this
    intro x hx
    rcases List.mem_cons.mp hx with rfl | hx
    · exact hv
    · exact ArgsOK.allAre hr (by simpa [PySMT.allAre] using ha.2) x hx
  | [], _ :: _, _, h, _ => by simp [ArgsOK] at h
  | _ :: _, [], _, h, _ => by simp [ArgsOK] at h

theorem ArgsOK.one {vs ts} (h : ArgsOK vs ts) (hl : vs.length = 1) :
    ∃ a σa, vs = [a] ∧ ts = [some σa] ∧ a.hasSort σa = true := by
  match vs, ts, h, hl with
  | [a], [_], h, _ =>
    obtain ⟨⟨σa, rfl, ha⟩, _⟩ := h
    exact ⟨a, σa, rfl, rfl, ha⟩
  | [_], [], h, _ => simp [ArgsOK] at h
  | [_], _ :: _ :: _, h, _ => simp [ArgsOK] at h

theorem ArgsOK.two {vs ts} (h : ArgsOK vs ts) (hl : vs.length = 2) :
    ∃ a b σa σb, vs = [a, b] ∧ ts = [some σa, some σb] ∧ a.hasSort σa = true ∧ b.hasSort σb = true := by
  match vs, ts, h, hl with
  | [a, b], [_, _], h, _ =>
    obtain ⟨⟨σa, rfl, ha⟩, ⟨σb, rfl, hb⟩, _⟩ := h
    exact ⟨a, b, σa, σb, rfl, rfl, ha, hb⟩
  | [_, _], [], h, _ => simp [ArgsOK] at h
  | [_, _], [_], h, _ => simp [ArgsOK] at h
  | [_, _], _ :: _ :: _ :: _, h, _ => simp [ArgsOK] at h

theorem ArgsOK.three {vs ts} (h : ArgsOK vs ts) (hl : vs.length = 3) :
    ∃ a b c σa σb σc, vs = [a, b, c] ∧ ts = [some σa, some σb, some σc] ∧
      a.hasSort σa = true ∧ b.hasSort σb = true ∧ c.hasSort σc = true := by
  match vs, ts, h, hl with
  | [a, b, c], [_, _, _], h, _ =>
    obtain ⟨⟨σa, rfl, ha⟩, ⟨σb, rfl, hb⟩, ⟨σc, rfl, hc⟩, _⟩ := h
    exact ⟨a, b, c, σa, σb, σc, rfl, rfl, ha, hb, hc⟩
  | [_, _, _], [], h, _ => simp [ArgsOK] at h
  | [_, _, _], [_], h, _ => simp [ArgsOK] at h
  | [_, _, _], [_, _], h, _ => simp [ArgsOK] at h
  | [_, _, _], _ :: _ :: _ :: _ :: _, h, _ => simp [ArgsOK] at h

/-! ## bit-vectors -/

theorem Sem.bv1_hasSort (f : (w : Nat) → BitVec w → BitVec w) {a : Val} {w : Nat}
    (ha : a.hasSort (.bv w) = true) : (Sem.bv1 f a).hasSort (.bv w) = true := by
  obtain ⟨n, rfl, _⟩ := Val.hasSort_bv ha
  exact Val.hasSort_bv_mk (BitVec.isLt _)

theorem Sem.bv2_hasSort (f : (w : Nat) → BitVec w → BitVec w → BitVec w) {a b : Val} {w : Nat}
    (ha : a.hasSort (.bv w) = true) (hb : b.hasSort (.bv w) = true) :
    (Sem.bv2 f a b).hasSort (.bv w) = true := by
  obtain ⟨n, rfl, _⟩ := Val.hasSort_bv ha
  obtain ⟨m, rfl, _⟩ := Val.hasSort_bv hb
  exact Val.hasSort_bv_mk (BitVec.isLt _)


/-! ## payload conditions that `Op.shapeOK` must imply -/

/-- payload shapes that `evalOp` needs and that the type checker does not enforce -/
def Op.payloadOK (op : Op) (p : Payload) : Bool :=
  match op, p with
  | .intConst, .i _ | .realConst, .q _ | .strConst, .s _ => true
  | .intConst, _ | .realConst, _ | .strConst, _ => false
  | .bvZext, .ints [_, _] | .bvSext, .ints [_, _] => true
  | .bvZext, _ | .bvSext, _ => false
  | .bvExtract, .ints [_, lo, hi] => decide (lo ≤ hi)
  | _, _ => true

/-! ## inversion of `typeOfNode` (always through `rfl`: `simp [typeOfNode]` is too expensive) -/

theorem inv_allAre {op p ts ts' τ σ ρ} (e : typeOfNode op p ts = if allAre ts' σ then some ρ else none)
    (hty : typeOfNode op p ts = some τ) : τ = ρ ∧ allAre ts' σ = true := by
  rw [e] at hty
  split at hty
  · next h => exact ⟨by simpa using hty.symm, h⟩
  · simp at hty

theorem inv_arith {op p ts τ}
    (e : typeOfNode op p ts =
      if allAre ts .real then some .real else if allAre ts .int then some .int else none)
    (hty : typeOfNode op p ts = some τ) : (τ = .int ∨ τ = .real) ∧ allAre ts τ = true := by
  rw [e] at hty
  split at hty
  · next h => have : τ = .real := by simpa using hty.symm
              subst this; exact ⟨.inr rfl, h⟩
  · split at hty
    · next h => have : τ = .int := by simpa using hty.symm
                subst this; exact ⟨.inl rfl, h⟩
    · simp at hty

theorem allAre_one {a σ : Ty} : allAre [some a] σ = true ↔ a = σ := by simp [allAre]
theorem allAre_two {a b σ : Ty} : allAre [some a, some b] σ = true ↔ a = σ ∧ b = σ := by simp [allAre]
theorem allAre_three {a b c σ : Ty} : allAre [some a, some b, some c] σ = true ↔ a = σ ∧ b = σ ∧ c = σ := by
  simp [allAre]


/-! ## semantic helpers -/

theorem Sem.add_hasSort {a b : Val} {σ : Ty} (hσ : σ = .int ∨ σ = .real) (ha : a.hasSort σ = true)
    (hb : b.hasSort σ = true) : (Sem.add a b).hasSort σ = true := by
  rcases hσ with rfl | rfl
  · obtain ⟨x, rfl⟩ := Val.hasSort_int ha; obtain ⟨y, rfl⟩ := Val.hasSort_int hb; rfl
  · obtain ⟨x, rfl⟩ := Val.hasSort_real ha; obtain ⟨y, rfl⟩ := Val.hasSort_real hb; rfl

theorem Sem.sub_hasSort {a b : Val} {σ : Ty} (hσ : σ = .int ∨ σ = .real) (ha : a.hasSort σ = true)
    (hb : b.hasSort σ = true) : (Sem.sub a b).hasSort σ = true := by
  rcases hσ with rfl | rfl
  · obtain ⟨x, rfl⟩ := Val.hasSort_int ha; obtain ⟨y, rfl⟩ := Val.hasSort_int hb; rfl
  · obtain ⟨x, rfl⟩ := Val.hasSort_real ha; obtain ⟨y, rfl⟩ := Val.hasSort_real hb; rfl

theorem Sem.mul_hasSort {a b : Val} {σ : Ty} (hσ : σ = .int ∨ σ = .real) (ha : a.hasSort σ = true)
    (hb : b.hasSort σ = true) : (Sem.mul a b).hasSort σ = true := by
  rcases hσ with rfl | rfl
  · obtain ⟨x, rfl⟩ := Val.hasSort_int ha; obtain ⟨y, rfl⟩ := Val.hasSort_int hb; rfl
  · obtain ⟨x, rfl⟩ := Val.hasSort_real ha; obtain ⟨y, rfl⟩ := Val.hasSort_real hb; rfl

theorem Sem.div_hasSort (I : Interp) {a b : Val} {σ : Ty} (hσ : σ = .int ∨ σ = .real)
    (ha : a.hasSort σ = true) (hb : b.hasSort σ = true) : (Sem.div I a b).hasSort σ = true := by
  rcases hσ with rfl | rfl
  · obtain ⟨x, rfl⟩ := Val.hasSort_int ha; obtain ⟨y, rfl⟩ := Val.hasSort_int hb
    simp only [Sem.div]; split <;> rfl
  · obtain ⟨x, rfl⟩ := Val.hasSort_real ha; obtain ⟨y, rfl⟩ := Val.hasSort_real hb
    simp only [Sem.div]; split <;> rfl

theorem foldl_hasSort (f : Val → Val → Val) (σ : Ty)
    (hf : ∀ a b, a.hasSort σ = true → b.hasSort σ = true → (f a b).hasSort σ = true) :
    ∀ (vs : List Val) (acc : Val), acc.hasSort σ = true → (∀ v ∈ vs, v.hasSort σ = true) →
      (vs.foldl f acc).hasSort σ = true
  | [], _, hacc, _ => hacc
  | v :: vs, acc, hacc, h => by
    simp only [List.foldl_cons]
    exact foldl_hasSort f σ hf vs _ (hf _ _ hacc (h v (by simp))) (fun x hx => h x (by simp [hx]))

theorem Sem.sum_hasSort {vs : List Val} {σ : Ty} (hσ : σ = .int ∨ σ = .real) (hne : vs ≠ [])
    (h : ∀ v ∈ vs, v.hasSort σ = true) : (Sem.sum vs).hasSort σ = true := by
  cases vs with
  | nil => exact absurd rfl hne
  | cons v vs =>
    exact foldl_hasSort _ σ (fun _ _ => Sem.add_hasSort hσ) vs v (h v (by simp)) (fun x hx => h x (by simp [hx]))

theorem Sem.prod_hasSort {vs : List Val} {σ : Ty} (hσ : σ = .int ∨ σ = .real) (hne : vs ≠ [])
    (h : ∀ v ∈ vs, v.hasSort σ = true) : (Sem.prod vs).hasSort σ = true := by
  cases vs with
  | nil => exact absurd rfl hne
  | cons v vs =>
    exact foldl_hasSort _ σ (fun _ _ => Sem.mul_hasSort hσ) vs v (h v (by simp)) (fun x hx => h x (by simp [hx]))

theorem Sem.mkS_hasSort (l : List Char) : (Sem.mkS l).hasSort .str = true := rfl

section ops
variable {I : Interp} {p : Payload} {vs : List Val} {ts : List (Option Ty)} {τ : Ty}

theorem sort_and (hty : typeOfNode .and p ts = some τ) : (evalOp I .and p vs).hasSort τ = true := by
  obtain ⟨rfl, _⟩ := inv_allAre (σ := .bool) (ρ := .bool) rfl hty
  exact Val.hasSort_b _

theorem sort_or (hty : typeOfNode .or p ts = some τ) : (evalOp I .or p vs).hasSort τ = true := by
  obtain ⟨rfl, _⟩ := inv_allAre (σ := .bool) (ρ := .bool) rfl hty
  exact Val.hasSort_b _

theorem sort_not (hs : Op.shapeOK .not p vs.length = true) (hty : typeOfNode .not p ts = some τ)
    (ha : ArgsOK vs ts) : (evalOp I .not p vs).hasSort τ = true := by
  obtain ⟨rfl, _⟩ := inv_allAre (σ := .bool) (ρ := .bool) rfl hty
  have hl : vs.length = 1 := by simpa using (show (vs.length == 1) = true from hs)
  obtain ⟨a, σa, rfl, rfl, ha⟩ := ha.one hl
  exact Val.hasSort_b _

end ops

end PySMT
