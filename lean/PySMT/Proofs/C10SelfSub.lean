import PySMT.Proofs.C10Shannon
import PySMT.Impl.Rewritings.SelfSub
/-!
# C10 — self-substitution: `selfSub_equiv`, `selfSub_qf`
-/
namespace PySMT.Rewritings

theorem updT_single (I : Interp) (v : Sym) (g : Term) : updT I [(Term.sym v, g)] = I.bind v (eval I g) := by
  simp only [updT, Interp.bind]
  congr 1
  funext s
  have : lookupT [(Term.sym v, g)] (Term.sym s) = if v == s then some g else none := by
    unfold lookupT
    simp only [List.find?_cons, sym_beq, List.find?_nil]
    by_cases h : (v == s) = true <;> simp [h]
  rw [this]
  by_cases h : v = s
  · subst h; simp
  · have h2 : ¬ s = v := fun e => h e.symm
    simp [h, h2]

theorem dom_bool_all {I : Interp} (hI : I.WF) (hx : BoolExact I) (g : Val → Bool) :
    (I.dom .bool).all g = (g (.b true) && g (.b false)) := by
  rw [Bool.eq_iff_iff, List.all_eq_true, dom_bool_forall hI hx (fun x => g x = true)]
  simp only [Bool.and_eq_true]
  exact ⟨fun h => ⟨h true, h false⟩, fun h bb => by cases bb; exact h.2; exact h.1⟩

theorem dom_bool_any {I : Interp} (hI : I.WF) (hx : BoolExact I) (g : Val → Bool) :
    (I.dom .bool).any g = (g (.b true) || g (.b false)) := by
  rw [Bool.eq_iff_iff, List.any_eq_true, dom_bool_exists hI hx (fun x => g x = true)]
  simp only [Bool.or_eq_true]
  constructor
  · rintro ⟨bb, h⟩; cases bb; exact .inr h; exact .inl h
  · rintro (h | h); exact ⟨true, h⟩; exact ⟨false, h⟩

/-- one step of `self_substitute` eliminates one Boolean binder -/
theorem step_spec {v : Sym} (hv : v.ret = .bool ∧ v.params = []) (tok : Bool) {f : Term} (hf : WB f)
    (hqf : f.isQF = true) :
    WB (selfSubStep (Term.bool tok) v f) ∧ (selfSubStep (Term.bool tok) v f).isQF = true ∧
    ∀ I : Interp, I.WF → BoolExact I →
      truth I (selfSubStep (Term.bool tok) v f) = (I.quant (!tok) [v] (fun J => truth J f)) := by
  have ok1 : SubOK [(Term.sym v, Term.bool tok)] := by
    intro kv hkv
    simp only [List.mem_cons, List.not_mem_nil, or_false] at hkv
    subst hkv
    exact ⟨v, rfl, hv.2, (wb_bool tok).1, by rw [(wb_bool tok).2, hv.1]⟩
  have s1 := substT_spec ok1 f hf.1 hqf
  have hin : WB (substT [(Term.sym v, Term.bool tok)] f) := ⟨s1.1.1, by rw [s1.1.2]; exact hf.2⟩
  have hinq : (substT [(Term.sym v, Term.bool tok)] f).isQF = true :=
    s1.2.1 (fun kv hkv => by
      simp only [List.mem_cons, List.not_mem_nil, or_false] at hkv
      subst hkv; exact isQF_bool tok)
  have ok2 : SubOK [(Term.sym v, substT [(Term.sym v, Term.bool tok)] f)] := by
    intro kv hkv
    simp only [List.mem_cons, List.not_mem_nil, or_false] at hkv
    subst hkv
    exact ⟨v, rfl, hv.2, hin.1, by rw [hin.2, hv.1]⟩
  have s2 := substT_spec ok2 f hf.1 hqf
  refine ⟨⟨s2.1.1, by rw [selfSubStep, s2.1.2]; exact hf.2⟩, s2.2.1 (fun kv hkv => by
      simp only [List.mem_cons, List.not_mem_nil, or_false] at hkv
      subst hkv; exact hinq), fun I hI hx => ?_⟩
  have hT := (show WB f from hf).isB (bind_bool_wf hI hv.1 true)
  have hF := (show WB f from hf).isB (bind_bool_wf hI hv.1 false)
  have hq : ∀ all : Bool, I.quant all [v] (fun J => truth J f) =
      if all then (truth (I.bind v (.b true)) f && truth (I.bind v (.b false)) f)
      else (truth (I.bind v (.b true)) f || truth (I.bind v (.b false)) f) := by
    intro all
    cases all
    · simp only [Interp.quant, hv.1, Bool.false_eq_true, if_false]
      exact dom_bool_any hI hx (fun x => truth (I.bind v x) f)
    · simp only [Interp.quant, hv.1, if_true]
      exact dom_bool_all hI hx (fun x => truth (I.bind v x) f)
  rw [hq]
  have hstep : truth I (selfSubStep (Term.bool tok) v f) =
      truth (I.bind v (eval (I.bind v (.b tok)) f)) f := by
    simp only [truth, selfSubStep]
    rw [s2.2.2 I hI, updT_single, s1.2.2 I hI, updT_single, eval_bool]
  rw [hstep]
  cases tok
  · rw [hF]
    cases h0 : truth (I.bind v (.b false)) f
    · simp [h0]
    · simp
  · rw [hT]
    cases h1 : truth (I.bind v (.b true)) f
    · simp
    · simp [h1]

/-- pointwise equal bodies on the well-formed interpretations with an exact Boolean domain -/
theorem quant_congr_ex (all : Bool) (k k' : Interp → Bool)
    (hk : ∀ J : Interp, J.WF → BoolExact J → k J = k' J) :
    ∀ (vs : List Sym) (I : Interp), I.WF → BoolExact I → I.quant all vs k = I.quant all vs k'
  | [], I, hI, hx => hk I hI hx
  | x :: xs, I, hI, hx => by
    have step : ∀ v ∈ I.dom x.ret, (I.bind x v).quant all xs k = (I.bind x v).quant all xs k' :=
      fun v hv => quant_congr_ex all k k' hk xs _ (hI.bind x v (hI.dom_sort _ v hv)) hx
    simp only [Interp.quant]
    rw [list_all_congr step, list_any_congr step]

theorem quant_cons_single (all : Bool) (v : Sym) (vs : List Sym) (k : Interp → Bool) (I : Interp) :
    I.quant all (v :: vs) k = I.quant all [v] (fun J => J.quant all vs k) := by
  simp only [Interp.quant]

/-- `self_substitute` eliminates a block of Boolean binders -/
theorem vars_spec (tok : Bool) {f : Term} (hf : WB f) (hqf : f.isQF = true) :
    ∀ vs : List Sym, (∀ v ∈ vs, v.ret = .bool ∧ v.params = []) →
      WB (selfSubVars (Term.bool tok) vs f) ∧ (selfSubVars (Term.bool tok) vs f).isQF = true ∧
      ∀ I : Interp, I.WF → BoolExact I →
        truth I (selfSubVars (Term.bool tok) vs f) = I.quant (!tok) vs (fun J => truth J f)
  | [], _ => ⟨hf, hqf, fun _ _ _ => rfl⟩
  | v :: vs, hvs => by
    have ih := vars_spec tok hf hqf vs (fun w hw => hvs w (by simp [hw]))
    have hv := hvs v (by simp)
    have st := step_spec hv tok ih.1 ih.2.1
    have : selfSubVars (Term.bool tok) (v :: vs) f =
        selfSubStep (Term.bool tok) v (selfSubVars (Term.bool tok) vs f) := rfl
    rw [this]
    refine ⟨st.1, st.2.1, fun I hI hx => ?_⟩
    rw [st.2.2 I hI hx, quant_cons_single]
    have hbw : ∀ x ∈ I.dom v.ret, (I.bind v x).WF ∧ BoolExact (I.bind v x) :=
      fun x hxd => ⟨hI.bind v x (hI.dom_sort _ x hxd), hx⟩
    simp only [Interp.quant]
    rw [list_all_congr (fun x hxd => ih.2.2 _ (hbw x hxd).1 (hbw x hxd).2),
      list_any_congr (fun x hxd => ih.2.2 _ (hbw x hxd).1 (hbw x hxd).2)]

theorem selfSub_spec : (t : Term) → t.wf = true → boolQuants t = true →
    ((selfSub t).wf = true ∧ (selfSub t).typeOf = t.typeOf) ∧ (selfSub t).isQF = true ∧
    ∀ I : Interp, I.WF → BoolExact I → eval I (selfSub t) = eval I t
  | .node op args p => fun hwf hbq => by
    have hchwf := (Term.wf_node.mp hwf).1
    have ih : ∀ a ∈ args, ((selfSub a).wf = true ∧ (selfSub a).typeOf = a.typeOf) ∧ (selfSub a).isQF = true ∧
        ∀ I : Interp, I.WF → BoolExact I → eval I (selfSub a) = eval I a :=
      fun a ha => selfSub_spec a (hchwf a ha) (boolQuants_child hbq a ha)
    by_cases hq : op.isQuantifier = true
    · cases op <;> simp [Op.isQuantifier] at hq
      case forall_ =>
        obtain ⟨b, vs, rfl, rfl⟩ := wf_quant_args (.inl rfl) hwf
        have hvs := boolQuants_vars (.inl rfl) hbq
        have hty : (Term.node .forall_ [b] (.qvars vs)).typeOf = some .bool := by
          rw [typeOf_node]
          have := typeOfNode_forall (Term.wt_typeOf (Term.wf_wt _ hwf))
          rw [this]; rfl
        have hb : WB b := (wb_forall b vs).mp ⟨hwf, hty⟩
        have hb1 := ih b (by simp)
        have hb' : WB (selfSub b) := ⟨hb1.1.1, by rw [hb1.1.2]; exact hb.2⟩
        have vs1 := vars_spec false hb' hb1.2.1 vs hvs
        have hss : selfSub (.node .forall_ [b] (.qvars vs)) = selfSubVars (Term.bool false) vs (selfSub b) := by
          simp only [selfSub]; rfl
        rw [hss]
        refine ⟨⟨vs1.1.1, by rw [vs1.1.2, hty]⟩, vs1.2.1, fun I hI hx => ?_⟩
        rw [vs1.1.isB hI, vs1.2.2 I hI hx, eval_forall']
        congr 1
        exact quant_congr_ex _ _ _ (fun J hJ hxJ => by simp only [truth]; rw [hb1.2.2 J hJ hxJ]) vs I hI hx
      case exists_ =>
        obtain ⟨b, vs, rfl, rfl⟩ := wf_quant_args (.inr rfl) hwf
        have hvs := boolQuants_vars (.inr rfl) hbq
        have hty : (Term.node .exists_ [b] (.qvars vs)).typeOf = some .bool := by
          rw [typeOf_node]
          have := typeOfNode_exists (Term.wt_typeOf (Term.wf_wt _ hwf))
          rw [this]; rfl
        have hb : WB b := (wb_exists b vs).mp ⟨hwf, hty⟩
        have hb1 := ih b (by simp)
        have hb' : WB (selfSub b) := ⟨hb1.1.1, by rw [hb1.1.2]; exact hb.2⟩
        have vs1 := vars_spec true hb' hb1.2.1 vs hvs
        have hss : selfSub (.node .exists_ [b] (.qvars vs)) = selfSubVars (Term.bool true) vs (selfSub b) := by
          simp only [selfSub]; rfl
        rw [hss]
        refine ⟨⟨vs1.1.1, by rw [vs1.1.2, hty]⟩, vs1.2.1, fun I hI hx => ?_⟩
        rw [vs1.1.isB hI, vs1.2.2 I hI hx, eval_exists']
        congr 1
        exact quant_congr_ex _ _ _ (fun J hJ hxJ => by simp only [truth]; rw [hb1.2.2 J hJ hxJ]) vs I hI hx
    · have hq' : op.isQuantifier = false := by simpa using hq
      have hsh : selfSub (.node op args p) = rebuild op (args.map selfSub) p := by
        unfold selfSub
        split <;> simp_all [Op.isQuantifier]
      rw [hsh]
      have hs : SameSorts selfSub args := fun a ha => (ih a ha).1
      refine ⟨rebuild_wf hq' hwf hs, rebuild_qf hq' hwf (fun a ha => (ih a ha).2.1), fun I hI hx => ?_⟩
      by_cases hsym : op = .symbol
      · subst hsym
        have hargs := Term.wt_symbol_args (Term.wf_wt _ hwf)
        subst hargs
        rw [List.map_nil, rebuild_plain rfl]
      · exact rebuild_eval hq' hsym hwf hs hI hI rfl rfl rfl (fun a ha => (ih a ha).2.2 I hI hx)

end PySMT.Rewritings
