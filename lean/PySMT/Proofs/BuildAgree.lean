import PySMT.Impl.Mk
import PySMT.Impl.Simp.Build
import PySMT.Impl.SubstBuild
import PySMT.Proofs.C05Build
import PySMT.Proofs.C06BV
/-!
# The three models of the `FormulaManager` constructors agree where they overlap

* `Impl/Mk.lean`            (C06)  : every constructor, `Except Err Term` (with the type check)
* `Impl/Simp/Build.lean`    (C01)  : the normalising constructors the simplifier rebuilds with
* `Impl/SubstBuild.lean`    (C05)  : `rebuild` = `IdentityDagWalker` through the constructors

`build_agrees_mk`   : whenever the `Mk` constructor returns `t`, the `Build` constructor is `t`.
`rebuild_agrees_mk` : whenever the `Mk` constructor that `IdentityDagWalker.walk_<op>` calls
                      (`identityWalk`) returns `t` on well-typed children, `rebuild` is `t`.

The three models read the width of a bit-vector operand differently: `Mk.bvWidth` and
`Build.fnodeWidth` are the syntactic `FNode.bv_width()`, `Build.bvWidth` asks the type checker.
They coincide on well-typed terms whose `bvComp` nodes carry the payload `(1,)` the
constructor always stores (`compOK`; `Mk.bvWidth` reads the payload like the Python code,
`fnodeWidth` answers 1) — `mkWidth_of_typeOf`.
-/
namespace PySMT.BuildAgree
open PySMT PySMT.Build PySMT.C05T

/-- every `bvComp` node carries the payload `(1,)` (the only one `BVComp` builds) -/
def compOK : Term → Bool
  | .node op args p => (args.map compOK).all id && (op != .bvComp || p == .ints [1])

theorem compOK_child {op args p} (h : compOK (.node op args p) = true) : ∀ a ∈ args, compOK a = true := by
  intro a ha
  rw [compOK] at h
  simp only [Bool.and_eq_true, List.all_eq_true, List.mem_map, id] at h
  exact h.1 _ ⟨a, ha, rfl⟩

theorem compOK_here {op args p} (h : compOK (.node op args p) = true) : op = .bvComp → p = .ints [1] := by
  intro hop
  rw [compOK] at h
  simp only [Bool.and_eq_true, hop, bne_self_eq_false, Bool.false_or, beq_iff_eq] at h
  exact h.2

/-- c05's normal terms (what the constructors produce) have well-formed `bvComp` payloads -/
theorem compOK_of_normal : (t : Term) → normal t = true → compOK t = true
  | .node op args p, h => by
    have hch := normal_child h
    have hh := normal_here h
    rw [compOK]
    simp only [Bool.and_eq_true, List.all_eq_true, List.mem_map, id]
    refine ⟨?_, ?_⟩
    · rintro _ ⟨a, ha, rfl⟩
      exact compOK_of_normal a (hch a ha)
    · by_cases hop : op = .bvComp
      · subst hop; simpa [normalNode] using hh
      · simp [hop]

theorem size_node (op : Op) (args : List Term) (p : Payload) :
    (Term.node op args p).size = 1 + (args.map Term.size).sum := by
  simp only [Term.size]

theorem iteLeaf_nonite (n : Nat) (op : Op) (args : List Term) (p : Payload) (h : op ≠ .ite) :
    Mk.iteLeaf n (.node op args p) = .node op args p := by
  cases n with
  | zero => rfl
  | succ n => cases op <;> first | rfl | exact absurd rfl h

theorem iteLeaf_ite (n : Nat) (c a b : Term) (p : Payload) :
    Mk.iteLeaf (n + 1) (.node .ite [c, a, b] p) = Mk.iteLeaf n a := rfl

/-- on well-typed terms (with well-formed `bvComp` payloads) the syntactic width `Mk.bvWidth`
reads is the width the type checker computes -/
theorem leafWidth_of_typeOf : (t : Term) → t.wt = true → compOK t = true → ∀ (n : Nat), t.size ≤ n →
    ∀ w, t.typeOf = some (.bv w) → Mk.leafWidth (Mk.iteLeaf n t) = .ok w
  | .node op args p, hwt, hc, n, hn, w, hty => by
    have hch := Term.wt_child hwt
    have hty0 := hty
    rw [typeOf_node_ty hwt] at hty
    cases op <;> simp only [tyNode] at hty
    case symbol =>
      rw [iteLeaf_nonite _ _ _ _ (by decide)]
      split at hty
      · next s _ => unfold Mk.leafWidth; split at hty <;> simp_all
      · cases hty
    case function =>
      rw [iteLeaf_nonite _ _ _ _ (by decide)]
      split at hty
      · next f => unfold Mk.leafWidth; split at hty <;> simp_all
      · cases hty
    case bvConst =>
      rw [iteLeaf_nonite _ _ _ _ (by decide)]
      split at hty
      · unfold Mk.leafWidth; simp_all
      · cases hty
    case ite =>
      split at hty
      · next a b heq =>
        obtain ⟨c, x, y, rfl, _, hx, _⟩ := list_map_eq_three heq
        split at hty
        · cases hty
          have hxw : x.wt = true := hch x (by simp)
          have hxc : compOK x = true := compOK_child hc x (by simp)
          have hsz : x.size < (Term.node .ite [c, x, y] p).size := by
            rw [size_node]; simp only [List.map_cons, List.map_nil, List.sum_cons, List.sum_nil]; omega
          cases n with
          | zero => omega
          | succ n =>
            rw [iteLeaf_ite]
            exact leafWidth_of_typeOf x hxw hxc n (by omega) w (by rw [wt_typeOf_some x hxw, hx])
        · cases hty
      · cases hty
    case arraySelect =>
      rw [iteLeaf_nonite _ _ _ _ (by decide)]
      split at hty
      · next i e j heq =>
        obtain ⟨a, b, rfl, ha, _⟩ := list_map_eq_two heq
        split at hty
        · cases hty
          have haw : a.wt = true := hch a (by simp)
          unfold Mk.leafWidth; simp [wt_typeOf_some a haw, ha]
        · cases hty
      · cases hty
    case bvComp =>
      rw [iteLeaf_nonite _ _ _ _ (by decide)]
      have hp := compOK_here hc rfl
      subst hp
      split at hty
      · split at hty
        · cases hty; rfl
        · cases hty
      · cases hty
    case bvNot | bvAnd | bvOr | bvXor | bvNeg | bvAdd | bvSub | bvMul | bvUdiv | bvUrem | bvLshl | bvLshr
       | bvSdiv | bvSrem | bvAshr | bvConcat | bvExtract | bvRol | bvRor | bvZext | bvSext =>
      rw [iteLeaf_nonite _ _ _ _ (by decide)]
      unfold Mk.leafWidth
      split at hty
      · split at hty <;> simp_all [Mk.isBvOp]
      · cases hty
    all_goals
      first
      | (cases hty; done)
      | (split at hty <;> first | (cases hty; done) | (split at hty <;> cases hty; done))

theorem mkWidth_of_typeOf {t : Term} (hwt : t.wt = true) (hc : compOK t = true) {w : Nat}
    (hty : t.typeOf = some (.bv w)) : Mk.bvWidth t = .ok w :=
  leafWidth_of_typeOf t hwt hc t.size (Nat.le_refl _) w hty

/-- `Build.bvWidth` (Simp) asks the type checker -/
theorem simpWidth_of_typeOf {t : Term} {w : Nat} (hty : t.typeOf = some (.bv w)) : Build.bvWidth t = w := by
  simp [Build.bvWidth, hty]

/-! ## `create` -/

theorem create_inv {op : Op} {args : List Term} {p : Payload} {t : Term} (h : Mk.create op args p = .ok t) :
    t = .node op args p ∧ (typeOfNode op p (args.map Term.typeOf)).isSome = true := by
  unfold Mk.create at h
  split at h
  · next hs => exact ⟨(Except.ok.inj h).symm, hs⟩
  · cases h

theorem typeOfNode_sameWidth (op : Op) (hop : isBvSameWidthOp op = true) (w : Nat) (rest : List Nat)
    (ts : List (Option Ty)) :
    typeOfNode op (.ints (w :: rest)) ts = if allAre ts (.bv w) then some (.bv w) else none := by
  cases op <;> first | rfl | cases hop

theorem sameWidth_head {op : Op} (hop : isBvSameWidthOp op = true) {w : Nat} {a : Term} {rest : List Term}
    (h : (typeOfNode op (.ints [w]) ((a :: rest).map Term.typeOf)).isSome = true) :
    a.typeOf = some (.bv w) := by
  rw [typeOfNode_sameWidth op hop] at h
  split at h
  · next hall =>
    simp only [allAre, List.map_cons, List.all_cons, Bool.and_eq_true, beq_iff_eq] at hall
    exact hall.1
  · cases h

open PySMT.C06 (bind_ok)

/-! ## `Mk` ↔ `Simp/Build` -/

theorem not_agree {a t : Term} (h : Mk.Not a = .ok t) : Build.not_ a = t := by
  unfold Mk.Not at h
  split at h
  · cases h; rfl
  · cases h
  · next h1 h2 =>
    obtain ⟨rfl, _⟩ := create_inv h
    unfold Build.not_
    split
    · next x rest p => exact absurd rfl (h2 _ _)
    · rfl

theorem and_agree {as : List Term} {t : Term} (h : Mk.And as = .ok t) : Build.and_ as = t := by
  unfold Mk.And at h
  unfold Build.and_
  split at h
  · cases h; rfl
  · cases h; rfl
  · next h1 h2 =>
    obtain ⟨rfl, _⟩ := create_inv h
    split
    · exact absurd rfl h1
    · exact absurd rfl (h2 _)
    · rfl

theorem or_agree {as : List Term} {t : Term} (h : Mk.Or as = .ok t) : Build.or_ as = t := by
  unfold Mk.Or at h
  unfold Build.or_
  split at h
  · cases h; rfl
  · cases h; rfl
  · next h1 h2 =>
    obtain ⟨rfl, _⟩ := create_inv h
    split
    · exact absurd rfl h1
    · exact absurd rfl (h2 _)
    · rfl

theorem plus_agree {as : List Term} {t : Term} (h : Mk.Plus as = .ok t) : Build.plus_ as = t := by
  unfold Mk.Plus at h
  unfold Build.plus_
  split at h
  · cases h
  · cases h; rfl
  · next h1 h2 =>
    obtain ⟨rfl, _⟩ := create_inv h
    split
    · exact absurd rfl (h2 _)
    · rfl

theorem times_agree {as : List Term} {t : Term} (h : Mk.Times as = .ok t) : Build.times_ as = t := by
  unfold Mk.Times at h
  unfold Build.times_
  split at h
  · cases h
  · cases h; rfl
  · next h1 h2 =>
    obtain ⟨rfl, _⟩ := create_inv h
    split
    · exact absurd rfl (h2 _)
    · rfl

theorem div_agree {l r t : Term} (h : Mk.Div l r = .ok t) : Build.div_ l r = t := by
  unfold Mk.Div at h
  unfold Build.div_
  split at h
  · next c =>
    simp only [Build.isRealConst]
    split at h
    · next hc => obtain ⟨rfl, _⟩ := create_inv h; simp [hc]
    · next hc => simp only [hc, if_false]; exact times_agree h
  · next hn =>
    obtain ⟨rfl, _⟩ := create_inv h
    have : Build.isRealConst r = none := by
      unfold Build.isRealConst
      split
      · exact absurd rfl (hn _)
      · rfl
    simp [this]

theorem toReal_agree {a t : Term} (h : Mk.ToReal a = .ok t) : Build.toReal_ a = t := by
  unfold Mk.ToReal at h
  unfold Build.toReal_
  split at h
  · next hty => cases h; simp [hty]
  · next hty =>
    rw [if_neg (by rw [hty]; simp)]
    split at h
    · next n => cases h; rfl
    · next hn =>
      obtain ⟨rfl, _⟩ := create_inv h
      have : Build.isIntConst a = none := by
        unfold Build.isIntConst
        split
        · exact absurd rfl (hn _)
        · rfl
      simp [this]
  · cases h

theorem quant_agree (vs : List Sym) {b t : Term} :
    (Mk.ForAll vs b = .ok t → Build.forall_ vs b = t) ∧ (Mk.Exists vs b = .ok t → Build.exists_ vs b = t) := by
  constructor <;> intro h
  · unfold Mk.ForAll at h; unfold Build.forall_
    split at h
    · next he => cases h; simp [he]
    · next he => obtain ⟨rfl, _⟩ := create_inv h; simp [he]
  · unfold Mk.Exists at h; unfold Build.exists_
    split at h
    · next he => cases h; simp [he]
    · next he => obtain ⟨rfl, _⟩ := create_inv h; simp [he]

theorem function_agree (f : Sym) {as : List Term} {t : Term} (h : Mk.Function f as = .ok t) :
    Build.function_ f as = t := by
  unfold Mk.Function at h; unfold Build.function_
  split at h
  · next he => cases h; simp [he]
  · next he =>
    split at h
    · cases h
    · split at h
      · cases h
      · obtain ⟨rfl, _⟩ := create_inv h; simp [he]

/-! ### bit-vectors -/

theorem bvUn_agree {op : Op} (hop : isBvSameWidthOp op = true) {a t : Term} (h : Mk.bvUn op a = .ok t) :
    Build.bvUn op a = t := by
  obtain ⟨w, hw, h⟩ := bind_ok h
  obtain ⟨rfl, hs⟩ := create_inv h
  simp [Build.bvUn, simpWidth_of_typeOf (sameWidth_head hop hs)]

theorem bvBin_agree {op : Op} (hop : isBvSameWidthOp op = true) {a b t : Term} (h : Mk.bvBin op a b = .ok t) :
    Build.bvBin op a b = t := by
  obtain ⟨w, hw, h⟩ := bind_ok h
  obtain ⟨rfl, hs⟩ := create_inv h
  simp [Build.bvBin, simpWidth_of_typeOf (sameWidth_head hop hs)]

/-- the 2-ary use of the n-ary constructors (`BVAnd(a, b)` …) is the binary node -/
theorem bvNary2 (op : Op) (a b : Term) : Mk.bvNary op [a, b] = Mk.bvBin op a b := by
  simp only [Mk.bvNary, Mk.bvChain, bind, Except.bind]
  cases Mk.bvBin op a b <;> rfl

theorem shift_term (op : Op) (a b : Term) (strict : Bool) :
    (do Mk.bvBin op a (← Mk.shiftAmount a (.t b) strict)) = Mk.bvBin op a b := rfl

/-- a list of types whose first element must be a bit-vector for the node to type-check -/
theorem typeOf_bv_of {a : Term} {f : Option Ty → Option Ty} (hf : ∀ τ, (∀ w, τ ≠ some (.bv w)) → f τ = none)
    (h : (f a.typeOf).isSome = true) : ∃ w, a.typeOf = some (.bv w) := by
  cases hty : a.typeOf with
  | none => rw [hty, hf none (by simp)] at h; cases h
  | some τ =>
    cases τ with
    | bv w => exact ⟨w, rfl⟩
    | _ => rw [hty, hf _ (by simp)] at h; cases h

theorem nonbv_cases {P : Option Ty → Prop} (τ : Option Ty) (hτ : ∀ w, τ ≠ some (.bv w))
    (h0 : P none) (h1 : P (some .bool)) (h2 : P (some .int)) (h3 : P (some .real)) (h4 : P (some .str))
    (h5 : ∀ i e, P (some (.array i e))) (h6 : ∀ n, P (some (.custom n))) : P τ := by
  cases τ with
  | none => exact h0
  | some t =>
    cases t with
    | bool => exact h1 | int => exact h2 | real => exact h3 | str => exact h4
    | bv w => exact absurd rfl (hτ w)
    | array i e => exact h5 i e | custom n => exact h6 n

theorem concat_agree {a b t : Term} (h : Mk.BVConcat [a, b] = .ok t) : Build.bvConcat_ a b = t := by
  unfold Mk.BVConcat at h
  obtain ⟨base, hb, h⟩ := bind_ok h
  cases h
  obtain ⟨wl, _, hb⟩ := bind_ok hb
  obtain ⟨wr, _, hb⟩ := bind_ok hb
  obtain ⟨rfl, hs⟩ := create_inv hb
  simp only [List.map_cons, List.map_nil] at hs
  obtain ⟨l, hl⟩ := typeOf_bv_of (a := a) (f := fun τ => typeOfNode .bvConcat (.ints [wl + wr]) [τ, b.typeOf])
    (fun τ hτ => nonbv_cases (P := fun τ => typeOfNode .bvConcat (.ints [wl + wr]) [τ, b.typeOf] = none) τ hτ
      rfl rfl rfl rfl rfl (fun _ _ => rfl) (fun _ => rfl)) hs
  rw [hl] at hs
  obtain ⟨r, hr⟩ := typeOf_bv_of (a := b) (f := fun τ => typeOfNode .bvConcat (.ints [wl + wr]) [some (.bv l), τ])
    (fun τ hτ => nonbv_cases (P := fun τ => typeOfNode .bvConcat (.ints [wl + wr]) [some (.bv l), τ] = none) τ hτ
      rfl rfl rfl rfl rfl (fun _ _ => rfl) (fun _ => rfl)) hs
  rw [hr] at hs
  have hsum : l + r = wl + wr := by
    have : typeOfNode .bvConcat (.ints [wl + wr]) [some (.bv l), some (.bv r)] =
        if l + r = wl + wr then some (.bv (wl + wr)) else none := rfl
    rw [this] at hs
    split at hs
    · assumption
    · cases hs
  simp [Build.bvConcat_, simpWidth_of_typeOf hl, simpWidth_of_typeOf hr, hsum]

theorem extract_agree {a t : Term} {lo hi : Int} (h : Mk.BVExtract a lo (some hi) = .ok t) :
    0 ≤ lo ∧ lo ≤ hi ∧ Build.bvExtract_ a lo.toNat hi.toNat = t := by
  obtain ⟨w, _, h⟩ := bind_ok h
  simp only at h
  by_cases h1 : hi ≥ lo ∧ lo ≥ 0
  · rw [if_neg (by simpa using h1)] at h
    by_cases h2 : hi - lo + 1 ≤ (w : Int)
    · rw [if_neg (by simpa using h2)] at h
      obtain ⟨rfl, _⟩ := create_inv h
      refine ⟨h1.2, h1.1, ?_⟩
      have : (hi - lo + 1).toNat = hi.toNat - lo.toNat + 1 := by omega
      simp [Build.bvExtract_, this]
    · rw [if_pos (by simpa using h2)] at h; cases h
  · rw [if_pos (by simpa using h1)] at h; cases h

theorem rot_type (op : Op) (hop : op = .bvRol ∨ op = .bvRor) (w k : Nat) (a : Term)
    (hs : (typeOfNode op (.ints [w, k]) [a.typeOf]).isSome = true) : a.typeOf = some (.bv w) := by
  rcases hop with rfl | rfl
  · obtain ⟨x, hx⟩ := typeOf_bv_of (a := a) (f := fun τ => typeOfNode .bvRol (.ints [w, k]) [τ])
      (fun τ hτ => nonbv_cases (P := fun τ => typeOfNode .bvRol (.ints [w, k]) [τ] = none) τ hτ
        rfl rfl rfl rfl rfl (fun _ _ => rfl) (fun _ => rfl)) hs
    rw [hx] at hs
    have : typeOfNode .bvRol (.ints [w, k]) [some (.bv x)] =
        if w < k then none else if w ≠ x then none else some (.bv w) := rfl
    rw [this] at hs
    split at hs
    · cases hs
    · split at hs
      · cases hs
      · next hne => rw [hx, Classical.not_not.mp hne]
  · obtain ⟨x, hx⟩ := typeOf_bv_of (a := a) (f := fun τ => typeOfNode .bvRor (.ints [w, k]) [τ])
      (fun τ hτ => nonbv_cases (P := fun τ => typeOfNode .bvRor (.ints [w, k]) [τ] = none) τ hτ
        rfl rfl rfl rfl rfl (fun _ _ => rfl) (fun _ => rfl)) hs
    rw [hx] at hs
    have : typeOfNode .bvRor (.ints [w, k]) [some (.bv x)] =
        if w < k then none else if w ≠ x then none else some (.bv w) := rfl
    rw [this] at hs
    split at hs
    · cases hs
    · split at hs
      · cases hs
      · next hne => rw [hx, Classical.not_not.mp hne]

theorem rot_agree {op : Op} (hop : op = .bvRol ∨ op = .bvRor) {a t : Term} {k : Int}
    (h : Mk.rotate op a k = .ok t) :
    0 ≤ k ∧ t = .node op [a] (.ints [Build.bvWidth a, k.toNat]) := by
  obtain ⟨w, _, h⟩ := bind_ok h
  by_cases hk : k < 0
  · simp [hk] at h
  · simp only [hk, if_false] at h
    obtain ⟨rfl, hs⟩ := create_inv h
    simp only [List.map_cons, List.map_nil] at hs
    refine ⟨by omega, ?_⟩
    rw [simpWidth_of_typeOf (rot_type op hop w k.toNat a hs)]

theorem ext_type (op : Op) (hop : op = .bvZext ∨ op = .bvSext) (w k : Nat) (a : Term)
    (hs : (typeOfNode op (.ints [w, k]) [a.typeOf]).isSome = true) : ∃ x, a.typeOf = some (.bv x) := by
  rcases hop with rfl | rfl
  · exact typeOf_bv_of (a := a) (f := fun τ => typeOfNode .bvZext (.ints [w, k]) [τ])
      (fun τ hτ => nonbv_cases (P := fun τ => typeOfNode .bvZext (.ints [w, k]) [τ] = none) τ hτ
        rfl rfl rfl rfl rfl (fun _ _ => rfl) (fun _ => rfl)) hs
  · exact typeOf_bv_of (a := a) (f := fun τ => typeOfNode .bvSext (.ints [w, k]) [τ])
      (fun τ hτ => nonbv_cases (P := fun τ => typeOfNode .bvSext (.ints [w, k]) [τ] = none) τ hτ
        rfl rfl rfl rfl rfl (fun _ _ => rfl) (fun _ => rfl)) hs

theorem ext_agree {op : Op} (hop : op = .bvZext ∨ op = .bvSext) {a t : Term} {k : Int}
    (hwt : a.wt = true) (hc : compOK a = true) (h : Mk.extend op a k = .ok t) :
    0 ≤ k ∧ t = .node op [a] (.ints [Build.bvWidth a + k.toNat, k.toNat]) := by
  obtain ⟨w, hw, h⟩ := bind_ok h
  by_cases hk : k < 0
  · simp [hk] at h
  · simp only [hk, if_false] at h
    obtain ⟨rfl, hs⟩ := create_inv h
    simp only [List.map_cons, List.map_nil] at hs
    refine ⟨by omega, ?_⟩
    obtain ⟨x, hx⟩ := ext_type op hop _ _ a hs
    have := mkWidth_of_typeOf hwt hc hx
    rw [hw] at this
    cases this
    rw [simpWidth_of_typeOf hx]

theorem array_args {idx : Ty} {d : Term} : ∀ (assign : List (Term × Term)) (more : List Term),
    Mk.arrayArgs idx d assign = .ok more →
    more = (assign.filter (fun kv => kv.2 != d)).flatMap (fun kv => [kv.1, kv.2])
  | [], more, h => by cases h; rfl
  | (k, v) :: rest, more, h => by
    unfold Mk.arrayArgs at h
    split at h
    · cases h
    · split at h
      · next hv =>
        subst hv
        split at h
        · have ih := array_args rest more h
          simp [List.filter_cons, ih]
        · cases h
      · next hv =>
        obtain ⟨m, hm, h⟩ := bind_ok h
        have ih := array_args rest m hm
        cases h
        simp [List.filter_cons, hv, ih]

theorem array_agree {idx : Ty} {d t : Term} {assign : List (Term × Term)} (h : Mk.Array idx d assign = .ok t) :
    Build.array_ idx d assign = t := by
  obtain ⟨more, hm, h⟩ := bind_ok h
  obtain ⟨rfl, _⟩ := create_inv h
  rw [array_args assign more hm]; rfl

/-- **`Simp/Build` agrees with `Mk`**: whenever the `Mk` constructor returns `t` (its argument
checks and the type check of `create_node` pass), the total `Build` constructor is `t`. -/
structure BuildAgreesMk : Prop where
  consts : ∀ (b : Bool) (n : Int) (q : Rat) (s : String),
    Build.bool_ b = Mk.BoolC b ∧ Build.int_ n = Mk.IntC n ∧ Build.real_ q = Mk.RealC q ∧ Build.str_ s = Mk.StringC s
  not : ∀ {a t}, Mk.Not a = .ok t → Build.not_ a = t
  and : ∀ {as t}, Mk.And as = .ok t → Build.and_ as = t
  or : ∀ {as t}, Mk.Or as = .ok t → Build.or_ as = t
  implies : ∀ {a b t}, Mk.Implies a b = .ok t → Build.implies_ a b = t
  iff : ∀ {a b t}, Mk.Iff a b = .ok t → Build.iff_ a b = t
  equals : ∀ {a b t}, Mk.Equals a b = .ok t → Build.equals_ a b = t
  le : ∀ {a b t}, Mk.LE a b = .ok t → Build.le_ a b = t
  lt : ∀ {a b t}, Mk.LT a b = .ok t → Build.lt_ a b = t
  ite : ∀ {c a b t}, Mk.Ite c a b = .ok t → Build.ite_ c a b = t
  forall_ : ∀ vs {b t}, Mk.ForAll vs b = .ok t → Build.forall_ vs b = t
  exists_ : ∀ vs {b t}, Mk.Exists vs b = .ok t → Build.exists_ vs b = t
  function : ∀ f {as t}, Mk.Function f as = .ok t → Build.function_ f as = t
  plus : ∀ {as t}, Mk.Plus as = .ok t → Build.plus_ as = t
  times : ∀ {as t}, Mk.Times as = .ok t → Build.times_ as = t
  minus : ∀ {a b t}, Mk.Minus a b = .ok t → Build.minus_ a b = t
  div : ∀ {l r t}, Mk.Div l r = .ok t → Build.div_ l r = t
  toReal : ∀ {a t}, Mk.ToReal a = .ok t → Build.toReal_ a = t
  bv : ∀ {n : Int} {w t}, Mk.BV n w = .ok t → 0 ≤ n ∧ Build.bv_ n.toNat w = t
  /-- `BVNot`, `BVNeg` (`Mk.BVNot = Mk.bvUn .bvNot`, `Build.bvNot_ = Build.bvUn .bvNot`, …) -/
  bvUn : ∀ {op}, isBvSameWidthOp op = true → ∀ {a t}, Mk.bvUn op a = .ok t → Build.bvUn op a = t
  /-- `BVXor`, `BVSub`, `BVUDiv`, `BVURem`, `BVSDiv`, `BVSRem` directly; `BVAnd/BVOr/BVAdd/BVMul` on two
  arguments and the shifts by a formula through `nary2` / `shift` below -/
  bvBin : ∀ {op}, isBvSameWidthOp op = true → ∀ {a b t}, Mk.bvBin op a b = .ok t → Build.bvBin op a b = t
  nary2 : ∀ op a b, Mk.bvNary op [a, b] = Mk.bvBin op a b
  shift : ∀ a b, Mk.BVLShl a (.t b) = Mk.bvBin .bvLshl a b ∧ Mk.BVLShr a (.t b) = Mk.bvBin .bvLshr a b ∧
    Mk.BVAShr a (.t b) = Mk.bvBin .bvAshr a b
  concat : ∀ {a b t}, Mk.BVConcat [a, b] = .ok t → Build.bvConcat_ a b = t
  extract : ∀ {a t} {lo hi : Int}, Mk.BVExtract a lo (some hi) = .ok t →
    0 ≤ lo ∧ lo ≤ hi ∧ Build.bvExtract_ a lo.toNat hi.toNat = t
  rol : ∀ {a t} {k : Int}, Mk.BVRol a k = .ok t → 0 ≤ k ∧ Build.bvRol_ a k.toNat = t
  ror : ∀ {a t} {k : Int}, Mk.BVRor a k = .ok t → 0 ≤ k ∧ Build.bvRor_ a k.toNat = t
  /-- the extensions do not force the operand's width through the type check: here the
  syntactic width `Mk` reads and the type-checker width `Build` reads must be known to coincide -/
  zext : ∀ {a t} {k : Int}, a.wt = true → compOK a = true → Mk.BVZExt a k = .ok t →
    0 ≤ k ∧ Build.bvZext_ a k.toNat = t
  sext : ∀ {a t} {k : Int}, a.wt = true → compOK a = true → Mk.BVSExt a k = .ok t →
    0 ≤ k ∧ Build.bvSext_ a k.toNat = t
  rels : ∀ {a b t}, (Mk.BVULT a b = .ok t → Build.bvUlt_ a b = t) ∧ (Mk.BVULE a b = .ok t → Build.bvUle_ a b = t) ∧
    (Mk.BVSLT a b = .ok t → Build.bvSlt_ a b = t) ∧ (Mk.BVSLE a b = .ok t → Build.bvSle_ a b = t)
  comp : ∀ {a b t}, Mk.BVComp a b = .ok t → Build.bvComp_ a b = t
  toNatural : ∀ {a t}, Mk.BVToNatural a = .ok t → Build.bvToNatural_ a = t
  strings : ∀ {a b c t} {as : List Term},
    (Mk.StrLength a = .ok t → Build.strOp .strLength [a] = t) ∧
    (Mk.StrConcat as = .ok t → Build.strOp .strConcat as = t) ∧
    (Mk.StrContains a b = .ok t → Build.strOp .strContains [a, b] = t) ∧
    (Mk.StrIndexOf a b c = .ok t → Build.strOp .strIndexOf [a, b, c] = t) ∧
    (Mk.StrReplace a b c = .ok t → Build.strOp .strReplace [a, b, c] = t) ∧
    (Mk.StrSubstr a b c = .ok t → Build.strOp .strSubstr [a, b, c] = t) ∧
    (Mk.StrPrefixOf a b = .ok t → Build.strOp .strPrefixOf [a, b] = t) ∧
    (Mk.StrSuffixOf a b = .ok t → Build.strOp .strSuffixOf [a, b] = t) ∧
    (Mk.StrToInt a = .ok t → Build.strOp .strToInt [a] = t) ∧
    (Mk.IntToStr a = .ok t → Build.strOp .intToStr [a] = t) ∧
    (Mk.StrCharAt a b = .ok t → Build.strOp .strCharAt [a, b] = t)
  select : ∀ {a i t}, Mk.Select a i = .ok t → Build.select_ a i = t
  store : ∀ {a i v t}, Mk.Store a i v = .ok t → Build.store_ a i v = t
  /-- `assign` = the dictionary in the order the code visits it -/
  array : ∀ {idx d t assign}, Mk.Array idx d assign = .ok t → Build.array_ idx d assign = t

theorem build_agrees_mk : BuildAgreesMk where
  consts := fun _ _ _ _ => ⟨rfl, rfl, rfl, rfl⟩
  not := not_agree
  and := and_agree
  or := or_agree
  implies := fun h => (create_inv h).1.symm
  iff := fun h => (create_inv h).1.symm
  equals := fun h => (create_inv h).1.symm
  le := fun h => (create_inv h).1.symm
  lt := fun h => (create_inv h).1.symm
  ite := fun h => (create_inv h).1.symm
  forall_ := fun vs _ _ => (quant_agree vs).1
  exists_ := fun vs _ _ => (quant_agree vs).2
  function := fun f _ _ h => function_agree f h
  plus := plus_agree
  times := times_agree
  minus := fun h => (create_inv h).1.symm
  div := div_agree
  toReal := toReal_agree
  bv := fun h => by
    obtain ⟨_, h0, _, rfl⟩ := PySMT.C06.bv_ok_inv h
    exact ⟨h0, rfl⟩
  bvUn := fun hop _ _ h => bvUn_agree hop h
  bvBin := fun hop _ _ _ h => bvBin_agree hop h
  nary2 := bvNary2
  shift := fun _ _ => ⟨rfl, rfl, rfl⟩
  concat := concat_agree
  extract := extract_agree
  rol := fun h => by
    obtain ⟨hk, rfl⟩ := rot_agree (Or.inl rfl) h
    exact ⟨hk, rfl⟩
  ror := fun h => by
    obtain ⟨hk, rfl⟩ := rot_agree (Or.inr rfl) h
    exact ⟨hk, rfl⟩
  zext := fun hwt hc h => by
    obtain ⟨hk, rfl⟩ := ext_agree (Or.inl rfl) hwt hc h
    exact ⟨hk, rfl⟩
  sext := fun hwt hc h => by
    obtain ⟨hk, rfl⟩ := ext_agree (Or.inr rfl) hwt hc h
    exact ⟨hk, rfl⟩
  rels := ⟨fun h => (create_inv h).1.symm, fun h => (create_inv h).1.symm, fun h => (create_inv h).1.symm,
    fun h => (create_inv h).1.symm⟩
  comp := fun h => (create_inv h).1.symm
  toNatural := fun h => (create_inv h).1.symm
  strings := by
    intro a b c t as
    refine ⟨fun h => (create_inv h).1.symm, fun h => ?_, fun h => (create_inv h).1.symm,
      fun h => (create_inv h).1.symm, fun h => (create_inv h).1.symm, fun h => (create_inv h).1.symm,
      fun h => (create_inv h).1.symm, fun h => (create_inv h).1.symm, fun h => (create_inv h).1.symm,
      fun h => (create_inv h).1.symm, fun h => (create_inv h).1.symm⟩
    unfold Mk.StrConcat at h
    split at h
    · cases h
    · exact (create_inv h).1.symm
  select := fun h => (create_inv h).1.symm
  store := fun h => (create_inv h).1.symm
  array := array_agree

/-! ## `Mk` ↔ `SubstBuild.rebuild` -/

def np1 (p : Payload) (as : List Term) (f : Term → Mk.R) : Mk.R :=
  match p, as with | .none, [a] => f a | _, _ => .error .unmodelled
def np2 (p : Payload) (as : List Term) (f : Term → Term → Mk.R) : Mk.R :=
  match p, as with | .none, [a, b] => f a b | _, _ => .error .unmodelled
def np3 (p : Payload) (as : List Term) (f : Term → Term → Term → Mk.R) : Mk.R :=
  match p, as with | .none, [a, b, c] => f a b c | _, _ => .error .unmodelled
def npN (p : Payload) (as : List Term) (f : List Term → Mk.R) : Mk.R :=
  match p with | .none => f as | _ => .error .unmodelled
/-- bit-vector operator node: payload `(width,)` -/
def bw1 (p : Payload) (as : List Term) (f : Term → Mk.R) : Mk.R :=
  match p, as with | .ints [_], [a] => f a | _, _ => .error .unmodelled
def bw2 (p : Payload) (as : List Term) (f : Term → Term → Mk.R) : Mk.R :=
  match p, as with | .ints [_], [a, b] => f a b | _, _ => .error .unmodelled
/-- payload `(width, k)` -/
def bwk (p : Payload) (as : List Term) (f : Term → Int → Mk.R) : Mk.R :=
  match p, as with | .ints [_, k], [a] => f a k | _, _ => .error .unmodelled

/-- the `FormulaManager` call `IdentityDagWalker.walk_<op>` makes for a node of type `op` with
payload `p` on the new children `as` (`pysmt/walkers/identitydag.py`), in terms of `Mk` -/
def identityWalk (op : Op) (p : Payload) (as : List Term) : Mk.R :=
  match op with
  | .symbol => (match p, as with | .sym s, [] => .ok (Term.sym s) | _, _ => .error .unmodelled)
  | .boolConst => (match p, as with | .b v, [] => .ok (Mk.BoolC v) | _, _ => .error .unmodelled)
  | .intConst => (match p, as with | .i v, [] => .ok (Mk.IntC v) | _, _ => .error .unmodelled)
  | .realConst => (match p, as with | .q v, [] => .ok (Mk.RealC v) | _, _ => .error .unmodelled)
  | .strConst => (match p, as with | .s v, [] => .ok (Mk.StringC v) | _, _ => .error .unmodelled)
  | .bvConst => (match p, as with | .bv v w, [] => Mk.BV v w | _, _ => .error .unmodelled)
  | .and => npN p as Mk.And
  | .or => npN p as Mk.Or
  | .plus => npN p as Mk.Plus
  | .times => npN p as Mk.Times
  | .strConcat => npN p as Mk.StrConcat
  | .not => np1 p as Mk.Not
  | .toReal => np1 p as Mk.ToReal
  | .iff => np2 p as Mk.Iff
  | .implies => np2 p as Mk.Implies
  | .equals => np2 p as Mk.Equals
  | .le => np2 p as Mk.LE
  | .lt => np2 p as Mk.LT
  | .minus => np2 p as Mk.Minus
  | .div => np2 p as Mk.Div
  | .ite => np3 p as Mk.Ite
  | .forall_ => (match p, as with | .qvars vs, [b] => Mk.ForAll vs b | _, _ => .error .unmodelled)
  | .exists_ => (match p, as with | .qvars vs, [b] => Mk.Exists vs b | _, _ => .error .unmodelled)
  | .function => (match p, as with | .sym f, a :: rest => Mk.Function f (a :: rest) | _, _ => .error .unmodelled)
  | .bvNot => bw1 p as Mk.BVNot
  | .bvNeg => bw1 p as Mk.BVNeg
  | .bvAnd => bw2 p as (fun a b => Mk.BVAnd [a, b])
  | .bvOr => bw2 p as (fun a b => Mk.BVOr [a, b])
  | .bvAdd => bw2 p as (fun a b => Mk.BVAdd [a, b])
  | .bvMul => bw2 p as (fun a b => Mk.BVMul [a, b])
  | .bvXor => bw2 p as Mk.BVXor
  | .bvSub => bw2 p as Mk.BVSub
  | .bvUdiv => bw2 p as Mk.BVUDiv
  | .bvUrem => bw2 p as Mk.BVURem
  | .bvSdiv => bw2 p as Mk.BVSDiv
  | .bvSrem => bw2 p as Mk.BVSRem
  | .bvLshl => bw2 p as (fun a b => Mk.BVLShl a (.t b))
  | .bvLshr => bw2 p as (fun a b => Mk.BVLShr a (.t b))
  | .bvAshr => bw2 p as (fun a b => Mk.BVAShr a (.t b))
  | .bvConcat => bw2 p as (fun a b => Mk.BVConcat [a, b])
  | .bvComp => bw2 p as Mk.BVComp
  | .bvExtract =>
    (match p, as with
     | .ints [_, lo, hi], [a] => Mk.BVExtract a lo (some hi)
     | _, _ => .error .unmodelled)
  | .bvRol => bwk p as Mk.BVRol
  | .bvRor => bwk p as Mk.BVRor
  | .bvZext => bwk p as Mk.BVZExt
  | .bvSext => bwk p as Mk.BVSExt
  | .bvUlt => np2 p as Mk.BVULT
  | .bvUle => np2 p as Mk.BVULE
  | .bvSlt => np2 p as Mk.BVSLT
  | .bvSle => np2 p as Mk.BVSLE
  | .bvToNatural => np1 p as Mk.BVToNatural
  | .strLength => np1 p as Mk.StrLength
  | .strContains => np2 p as Mk.StrContains
  | .strIndexOf => np3 p as Mk.StrIndexOf
  | .strReplace => np3 p as Mk.StrReplace
  | .strSubstr => np3 p as Mk.StrSubstr
  | .strPrefixOf => np2 p as Mk.StrPrefixOf
  | .strSuffixOf => np2 p as Mk.StrSuffixOf
  | .strToInt => np1 p as Mk.StrToInt
  | .intToStr => np1 p as Mk.IntToStr
  | .strCharAt => np2 p as Mk.StrCharAt
  | .arraySelect => np2 p as Mk.Select
  | .arrayStore => np3 p as Mk.Store
  | .arrayValue =>
    (match p, as with
     | .ty idx, d :: rest => Mk.Array idx d (pyDict (pairsOf rest))
     | _, _ => .error .unmodelled)
  | .pow | .algebraicConst => .error .unmodelled

theorem np1_inv {p as f t} (h : np1 p as f = .ok t) : ∃ a, p = .none ∧ as = [a] ∧ f a = .ok t := by
  unfold np1 at h; split at h
  · exact ⟨_, rfl, rfl, h⟩
  · cases h
theorem np2_inv {p as f t} (h : np2 p as f = .ok t) : ∃ a b, p = .none ∧ as = [a, b] ∧ f a b = .ok t := by
  unfold np2 at h; split at h
  · exact ⟨_, _, rfl, rfl, h⟩
  · cases h
theorem np3_inv {p as f t} (h : np3 p as f = .ok t) : ∃ a b c, p = .none ∧ as = [a, b, c] ∧ f a b c = .ok t := by
  unfold np3 at h; split at h
  · exact ⟨_, _, _, rfl, rfl, h⟩
  · cases h
theorem npN_inv {p as f t} (h : npN p as f = .ok t) : p = .none ∧ f as = .ok t := by
  unfold npN at h; split at h
  · exact ⟨rfl, h⟩
  · cases h
theorem bw1_inv {p as f t} (h : bw1 p as f = .ok t) : ∃ w a, p = .ints [w] ∧ as = [a] ∧ f a = .ok t := by
  unfold bw1 at h; split at h
  · exact ⟨_, _, rfl, rfl, h⟩
  · cases h
theorem bw2_inv {p as f t} (h : bw2 p as f = .ok t) : ∃ w a b, p = .ints [w] ∧ as = [a, b] ∧ f a b = .ok t := by
  unfold bw2 at h; split at h
  · exact ⟨_, _, _, rfl, rfl, h⟩
  · cases h
theorem bwk_inv {p as f t} (h : bwk p as f = .ok t) :
    ∃ (w : Nat) (k : Nat) (a : Term), p = .ints [w, k] ∧ as = [a] ∧ f a k = .ok t := by
  unfold bwk at h; split at h
  · exact ⟨_, _, _, rfl, rfl, h⟩
  · cases h

theorem mkAndN_eq (as : List Term) : mkAndN .none as = Build.and_ as := by
  rcases as with _ | ⟨a, _ | ⟨b, r⟩⟩ <;> rfl
theorem mkOrN_eq (as : List Term) : mkOrN .none as = Build.or_ as := by
  rcases as with _ | ⟨a, _ | ⟨b, r⟩⟩ <;> rfl
theorem mkPlusN_eq (as : List Term) : mkArithN .plus .none as = Build.plus_ as := by
  rcases as with _ | ⟨a, _ | ⟨b, r⟩⟩ <;> rfl
theorem mkTimesN_eq (as : List Term) : mkArithN .times .none as = Build.times_ as := by
  rcases as with _ | ⟨a, _ | ⟨b, r⟩⟩ <;> rfl

theorem rebuild_sw (op : Op) (hop : isBvSameWidthOp op = true) (p : Payload) (as : List Term) :
    rebuild op p as = mkBvOp op p as := by
  cases op <;> first | rfl | cases hop

theorem sw_un {op : Op} (hop : isBvSameWidthOp op = true) {a t : Term} (p : Payload) (hwt : a.wt = true)
    (h : Mk.bvUn op a = .ok t) : rebuild op p [a] = t := by
  obtain ⟨w, _, h⟩ := bind_ok h
  obtain ⟨rfl, hs⟩ := create_inv h
  have := fnodeWidth_of_typeOf a hwt w (sameWidth_head hop hs)
  rw [rebuild_sw op hop]; simp [mkBvOp, bvPayload, this]

theorem sw_bin {op : Op} (hop : isBvSameWidthOp op = true) {a b t : Term} (p : Payload) (hwt : a.wt = true)
    (h : Mk.bvBin op a b = .ok t) : rebuild op p [a, b] = t := by
  obtain ⟨w, _, h⟩ := bind_ok h
  obtain ⟨rfl, hs⟩ := create_inv h
  have := fnodeWidth_of_typeOf a hwt w (sameWidth_head hop hs)
  rw [rebuild_sw op hop]; simp [mkBvOp, bvPayload, this]

theorem unpairs_flatMap (l : List (Term × Term)) : unpairs l = l.flatMap (fun kv => [kv.1, kv.2]) := by
  induction l with
  | nil => rfl
  | cons kv rest ih => obtain ⟨k, v⟩ := kv; simp [unpairs, ih]

/-- **`SubstBuild.rebuild` agrees with `Mk`**: on well-typed new children (whose `bvComp` nodes
carry the constructor's payload), whenever the `Mk` constructor that `IdentityDagWalker` calls
for the node type returns `t`, `rebuild` is `t`. -/
theorem rebuild_agrees_mk {op : Op} {p : Payload} {as : List Term} {t : Term}
    (hwt : ∀ a ∈ as, a.wt = true) (hc : ∀ a ∈ as, compOK a = true)
    (h : identityWalk op p as = .ok t) : rebuild op p as = t := by
  cases op <;> simp only [identityWalk] at h
  case symbol | boolConst | intConst | realConst | strConst =>
    split at h
    · cases h; rfl
    · cases h
  case bvConst =>
    split at h
    · next v w =>
      obtain ⟨_, _, _, rfl⟩ := PySMT.C06.bv_ok_inv h
      simp [rebuild, isBvSameWidthOp, Term.bvc]
    · cases h
  case and => obtain ⟨rfl, h⟩ := npN_inv h; rw [← and_agree h]; exact mkAndN_eq as
  case or => obtain ⟨rfl, h⟩ := npN_inv h; rw [← or_agree h]; exact mkOrN_eq as
  case plus => obtain ⟨rfl, h⟩ := npN_inv h; rw [← plus_agree h]; exact mkPlusN_eq as
  case times => obtain ⟨rfl, h⟩ := npN_inv h; rw [← times_agree h]; exact mkTimesN_eq as
  case strConcat =>
    obtain ⟨rfl, hm⟩ := npN_inv h
    unfold Mk.StrConcat at hm
    split at hm
    · cases hm
    · exact (create_inv hm).1.symm
  case not =>
    obtain ⟨a, rfl, rfl, hm⟩ := np1_inv h
    unfold Mk.Not at hm
    split at hm
    · cases hm; rfl
    · cases hm
    · next h1 h2 =>
      obtain ⟨rfl, _⟩ := create_inv hm
      simp only [rebuild, mkNotN]
      split
      · next b q heq => simp only [List.cons.injEq, and_true] at heq; exact absurd heq (h1 _ _)
      · rfl
  case toReal =>
    obtain ⟨a, rfl, rfl, hm⟩ := np1_inv h
    unfold Mk.ToReal at hm
    simp only [rebuild, mkToReal]
    split at hm
    · next hty => cases hm; simp [hty]
    · next hty =>
      split at hm
      · next n => cases hm; simp [hty]; rfl
      · next hn =>
        obtain ⟨rfl, _⟩ := create_inv hm
        split
        · next hr => rw [hty] at hr; cases hr
        · exact absurd rfl (hn _)
        · rfl
    · cases hm
  case div =>
    obtain ⟨a, b, rfl, rfl, hm⟩ := np2_inv h
    unfold Mk.Div at hm
    simp only [rebuild]
    split at hm
    · next c =>
      simp only [mkDiv]
      split at hm
      · next hc0 => obtain ⟨rfl, _⟩ := create_inv hm; simp [hc0]
      · next hc0 =>
        simp only [hc0, if_false]
        have := times_agree hm
        rw [← this]; rfl
    · next hn =>
      obtain ⟨rfl, _⟩ := create_inv hm
      unfold mkDiv
      split
      · next c heq => simp only [List.cons.injEq, and_true] at heq; exact absurd heq.2 (hn c)
      · rfl
  case iff | implies | equals | le | lt | minus | bvUlt | bvUle | bvSlt | bvSle | strContains | strPrefixOf
     | strSuffixOf | strCharAt | arraySelect =>
    obtain ⟨a, b, rfl, rfl, h⟩ := np2_inv h
    exact (create_inv h).1.symm
  case ite | strIndexOf | strReplace | strSubstr | arrayStore =>
    obtain ⟨a, b, c, rfl, rfl, h⟩ := np3_inv h
    exact (create_inv h).1.symm
  case bvToNatural | strLength | strToInt | intToStr =>
    obtain ⟨a, rfl, rfl, h⟩ := np1_inv h
    exact (create_inv h).1.symm
  case forall_ =>
    split at h
    · next vs b =>
      have := (quant_agree vs).1 h
      rw [← this]; simp only [rebuild, mkQuant, Build.forall_]
      cases vs <;> rfl
    · cases h
  case exists_ =>
    split at h
    · next vs b =>
      have := (quant_agree vs).2 h
      rw [← this]; simp only [rebuild, mkQuant, Build.exists_]
      cases vs <;> rfl
    · cases h
  case function =>
    split at h
    · next f a rest =>
      have := function_agree f h
      rw [← this]; rfl
    · cases h
  case bvNot | bvNeg =>
    obtain ⟨w, a, rfl, rfl, h⟩ := bw1_inv h
    exact sw_un rfl _ (hwt a (by simp)) h
  case bvAnd | bvOr | bvAdd | bvMul =>
    obtain ⟨w, a, b, rfl, rfl, h⟩ := bw2_inv h
    simp only [Mk.BVAnd, Mk.BVOr, Mk.BVAdd, Mk.BVMul, bvNary2] at h
    exact sw_bin rfl _ (hwt a (by simp)) h
  case bvXor | bvSub | bvUdiv | bvUrem | bvSdiv | bvSrem | bvLshl | bvLshr | bvAshr =>
    obtain ⟨w, a, b, rfl, rfl, h⟩ := bw2_inv h
    exact sw_bin rfl _ (hwt a (by simp)) h
  case bvComp =>
    obtain ⟨w, a, b, rfl, rfl, h⟩ := bw2_inv h
    exact (create_inv h).1.symm
  case bvConcat =>
    obtain ⟨w, a, b, rfl, rfl, h⟩ := bw2_inv h
    have hb := concat_agree h
    rw [← hb]
    -- the widths `rebuild` reads are the type-checker widths `Build.bvConcat_` reads
    unfold Mk.BVConcat at h
    obtain ⟨base, hbase, _⟩ := bind_ok h
    obtain ⟨wl, _, hbase⟩ := bind_ok hbase
    obtain ⟨wr, _, hbase⟩ := bind_ok hbase
    obtain ⟨_, hs⟩ := create_inv hbase
    simp only [List.map_cons, List.map_nil] at hs
    obtain ⟨l, hl⟩ := typeOf_bv_of (a := a) (f := fun τ => typeOfNode .bvConcat (.ints [wl + wr]) [τ, b.typeOf])
      (fun τ hτ => nonbv_cases (P := fun τ => typeOfNode .bvConcat (.ints [wl + wr]) [τ, b.typeOf] = none) τ hτ
        rfl rfl rfl rfl rfl (fun _ _ => rfl) (fun _ => rfl)) hs
    rw [hl] at hs
    obtain ⟨r, hr⟩ := typeOf_bv_of (a := b) (f := fun τ => typeOfNode .bvConcat (.ints [wl + wr]) [some (.bv l), τ])
      (fun τ hτ => nonbv_cases (P := fun τ => typeOfNode .bvConcat (.ints [wl + wr]) [some (.bv l), τ] = none) τ hτ
        rfl rfl rfl rfl rfl (fun _ _ => rfl) (fun _ => rfl)) hs
    simp [rebuild, mkConcat, fnodeWidth_of_typeOf a (hwt a (by simp)) l hl,
      fnodeWidth_of_typeOf b (hwt b (by simp)) r hr, Build.bvConcat_, simpWidth_of_typeOf hl,
      simpWidth_of_typeOf hr]
  case bvExtract =>
    split at h
    · next x lo hi a =>
      obtain ⟨_, _, hb⟩ := extract_agree h
      rw [← hb]; simp [rebuild, mkExtract, Build.bvExtract_]
    · cases h
  case bvRol =>
    obtain ⟨w, k, a, rfl, rfl, h⟩ := bwk_inv h
    obtain ⟨w', _, h'⟩ := bind_ok h
    simp only [show ¬ ((k : Int) < 0) by omega, if_false] at h'
    obtain ⟨rfl, hs⟩ := create_inv h'
    simp only [List.map_cons, List.map_nil] at hs
    have hty := rot_type .bvRol (Or.inl rfl) w' _ a hs
    simp [rebuild, mkRot, fnodeWidth_of_typeOf a (hwt a (by simp)) w' hty]
  case bvRor =>
    obtain ⟨w, k, a, rfl, rfl, h⟩ := bwk_inv h
    obtain ⟨w', _, h'⟩ := bind_ok h
    simp only [show ¬ ((k : Int) < 0) by omega, if_false] at h'
    obtain ⟨rfl, hs⟩ := create_inv h'
    simp only [List.map_cons, List.map_nil] at hs
    have hty := rot_type .bvRor (Or.inr rfl) w' _ a hs
    simp [rebuild, mkRot, fnodeWidth_of_typeOf a (hwt a (by simp)) w' hty]
  case bvZext =>
    obtain ⟨w, k, a, rfl, rfl, h⟩ := bwk_inv h
    obtain ⟨w', hw', h'⟩ := bind_ok h
    simp only [show ¬ ((k : Int) < 0) by omega, if_false] at h'
    obtain ⟨rfl, hs⟩ := create_inv h'
    simp only [List.map_cons, List.map_nil] at hs
    obtain ⟨x, hx⟩ := ext_type .bvZext (Or.inl rfl) _ _ a hs
    have := mkWidth_of_typeOf (hwt a (by simp)) (hc a (by simp)) hx
    rw [hw'] at this; cases this
    simp [rebuild, mkExt, fnodeWidth_of_typeOf a (hwt a (by simp)) _ hx]
  case bvSext =>
    obtain ⟨w, k, a, rfl, rfl, h⟩ := bwk_inv h
    obtain ⟨w', hw', h'⟩ := bind_ok h
    simp only [show ¬ ((k : Int) < 0) by omega, if_false] at h'
    obtain ⟨rfl, hs⟩ := create_inv h'
    simp only [List.map_cons, List.map_nil] at hs
    obtain ⟨x, hx⟩ := ext_type .bvSext (Or.inr rfl) _ _ a hs
    have := mkWidth_of_typeOf (hwt a (by simp)) (hc a (by simp)) hx
    rw [hw'] at this; cases this
    simp [rebuild, mkExt, fnodeWidth_of_typeOf a (hwt a (by simp)) _ hx]
  case arrayValue =>
    split at h
    · next idx d rest =>
      have := array_agree h
      rw [← this]
      simp only [rebuild, mkArray, Build.array_, unpairs_flatMap]
      congr 2
      apply congrArg
      apply List.filter_congr
      intro kv _
      simp only [bne, ne_eq, decide_not]
      congr 1
    · cases h
  case pow | algebraicConst => cases h

end PySMT.BuildAgree
