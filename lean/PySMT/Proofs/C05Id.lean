import PySMT.Proofs.C05Sem
/-!
# C05 — what substitution leaves alone (`bound_untouched`, `subst_empty`)

`occursFree k t` : the term `k` occurs in `t` at a position where none of its free symbols is bound.
A map none of whose keys occurs free leaves a normal term unchanged — in particular a map whose
keys are symbols that occur only bound (or not at all), and the empty map.
-/
namespace PySMT.Subst
open PySMT.Build PySMT.SubstSpec

/-- may the key `k` be replaced below a node `op`/`p`? -/
def guardOK (op : Op) (p : Payload) (k : Term) : Bool :=
  match op.isQuantifier, p with
  | true, .qvars vs => keyFree vs k
  | _, _ => true

def occursFree (k : Term) : Term → Bool
  | .node op args p =>
    decide (Term.node op args p = k) || (guardOK op p k && (args.map (occursFree k)).any id)

theorem occursFree_node (k : Term) (op : Op) (args : List Term) (p : Payload) :
    occursFree k (.node op args p) =
      (decide (Term.node op args p = k) || (guardOK op p k && (args.map (occursFree k)).any id)) := by
  rw [occursFree.eq_def]

theorem bodyMap_cases (τ : TMap) (op : Op) (p : Payload) :
    (∃ vs, op.isQuantifier = true ∧ p = .qvars vs ∧ bodyMap τ op p = restrict τ vs ∧
        ∀ k, guardOK op p k = keyFree vs k) ∨
    (bodyMap τ op p = τ ∧ ∀ k, guardOK op p k = true) := by
  by_cases hq : op.isQuantifier = true
  · cases p
    case qvars vs => exact .inl ⟨vs, hq, rfl, by simp only [bodyMap, hq], fun k => by simp only [guardOK, hq]⟩
    all_goals exact .inr ⟨by simp only [bodyMap, hq], fun k => by simp only [guardOK, hq]⟩
  · have hq' : op.isQuantifier = false := by simpa using hq
    exact .inr ⟨by simp only [bodyMap, hq'], fun k => by simp only [guardOK, hq']⟩

theorem lookup_none_of_ne : ∀ (σ : TMap) (t : Term), (∀ kv ∈ σ, kv.1 ≠ t) → lookup σ t = none
  | [], _, _ => rfl
  | (k, v) :: rest, t, h => by
    have hk : k ≠ t := h (k, v) (by simp)
    simp only [lookup, hk, if_false]
    exact lookup_none_of_ne rest t (fun kv hkv => h kv (List.mem_cons_of_mem _ hkv))

theorem substG_unchanged (ms : Bool) : (t : Term) → ∀ σ : TMap, normal t = true →
    (∀ kv ∈ σ, occursFree kv.1 t = false) → substG ms noInterp σ t = t
  | .node op args p, σ, hn, hocc => by
    have hocc' : ∀ kv ∈ σ, Term.node op args p ≠ kv.1 ∧
        (guardOK op p kv.1 = true → ∀ a ∈ args, occursFree kv.1 a = false) := by
      intro kv hkv
      have := hocc kv hkv
      rw [occursFree_node] at this
      simp only [Bool.or_eq_false_iff, decide_eq_false_iff_not, Bool.and_eq_false_iff, List.any_eq_false,
        List.mem_map, id] at this
      refine ⟨this.1, fun hg a hm => ?_⟩
      rcases this.2 with h3 | h3
      · rw [hg] at h3; cases h3
      · have h4 := h3 (occursFree kv.1 a) ⟨a, hm, rfl⟩
        simpa using h4
    have hne : ∀ kv ∈ σ, kv.1 ≠ Term.node op args p := fun kv hkv e => (hocc' kv hkv).1 e.symm
    have hch : ∀ a ∈ args, ∀ kv ∈ bodyMap σ op p, occursFree kv.1 a = false := by
      intro a hm kv hkv
      rcases bodyMap_cases σ op p with ⟨vs, _, _, hb, hg⟩ | ⟨hb, hg⟩
      · rw [hb] at hkv
        obtain ⟨h1, h2⟩ := List.mem_filter.mp hkv
        exact (hocc' kv h1).2 (by rw [hg]; exact h2) a hm
      · rw [hb] at hkv
        exact (hocc' kv hkv).2 (hg _) a hm
    have ih : args.map (substG ms noInterp (bodyMap σ op p)) = args := by
      conv => rhs; rw [← List.map_id args]
      exact List.map_congr_left (fun a hm => substG_unchanged ms a _ (normal_child hn a hm) (hch a hm))
    have hb : build noInterp op p args = .node op args p := by
      have : build noInterp op p args = rebuild op p args := by
        unfold build noInterp; split <;> rfl
      rw [this, rebuild_self op p args (normal_here hn)]
    rw [substG, ih, hb, lookup_none_of_ne σ _ hne]
    cases ms <;> rfl

/-- the empty map is the identity on normal terms -/
theorem subst_empty (ms : Bool) (t : Term) (hn : normal t = true) : substG ms noInterp [] t = t :=
  substG_unchanged ms t [] hn (fun _ h => by cases h)

/-- a symbol that is not free does not occur free -/
theorem occursFree_sym_of_not_fv (x : Sym) : (t : Term) → t.wt = true → x ∉ t.fv →
    occursFree (Term.sym x) t = false
  | .node op args p, hwt, hx => by
    rw [occursFree_node]
    simp only [Bool.or_eq_false_iff, decide_eq_false_iff_not, Bool.and_eq_false_iff, List.any_eq_false,
      List.mem_map, id]
    constructor
    · intro e
      apply hx
      rw [e, fv_sym]; simp
    · by_cases hsym : op = .symbol
      · subst hsym
        right
        rw [Term.wt_symbol_args hwt]
        simp
      · by_cases hg : guardOK op p (Term.sym x) = true
        · right
          rintro _ ⟨a, hm, rfl⟩
          have : x ∉ a.fv := by
            intro hxa
            apply hx
            apply mem_fv_child op args p a hm x hxa hsym
            intro vs e hq hxv
            subst e
            simp only [guardOK, hq, keyFree, fv_sym, List.all_cons, List.all_nil, Bool.and_true,
              Bool.not_eq_true'] at hg
            have : vs.contains x = true := by simpa using hxv
            rw [this] at hg; cases hg
          simp [occursFree_sym_of_not_fv x a (Term.wt_child hwt a hm) this]
        · left; simpa using hg

/-- **Bound occurrences are never replaced**: a map whose keys are symbols that do not occur free in
`t` (they occur only bound, or not at all) leaves `t` unchanged, for both strategies. -/
theorem bound_untouched (ms : Bool) (t : Term) (σ : SMap) (hwt : t.wt = true) (hn : normal t = true)
    (hσ : ∀ kv ∈ σ, kv.1 ∉ t.fv) : substG ms noInterp σ.toTMap t = t := by
  apply substG_unchanged ms t _ hn
  intro kv hkv
  simp only [SMap.toTMap, List.mem_map] at hkv
  obtain ⟨q, hq, rfl⟩ := hkv
  exact occursFree_sym_of_not_fv q.1 t hwt (hσ q hq)

end PySMT.Subst
