import PySMT.Proofs.C08Agree1
/-!
# C08/C09 agreement, operator families: strings (`str.++`, `str.len`, …), arrays (`select`, `store`, `(as const …)`)

Same shape as `C08Agree1`: if the standard's `applyTheory`/`applyHead` accepts the elaborated arguments `as` with result
`(u, τ)` and the parser holds `nargs as` (each satisfying `TOK`), the function the parser applies returns `mkNorm u`,
which satisfies `TOK` again. None of the result operators is `not`/`to_real`/`/`, so `mkNorm` only descends.
-/
namespace PySMT.Parser.Agree
open PySMT PySMT.Parser PySMT.Std PySMT.Sexp

/-! ## `str.++` -/

theorem call_strconcat (ts : List Term) : Mk.call "StrConcat" (ts.map .t) = Mk.StrConcat ts := by
  simp [Mk.call, Sound.termArgs_map, bind, Except.bind]

theorem callMgr_strconcat (ts : List Term) : callMgr "StrConcat" ts = liftMk (Mk.StrConcat ts) := by
  simp [callMgr, mgrArity, call_strconcat]

theorem ag_strconcat (as : List TT) (u : Term) (τ : Ty) (hargs : ∀ a ∈ as, TOK (mkNorm a.1) a.2)
    (hstd : applyTheory "str.++" as = .ok (u, τ)) : Agrees (.mgr "StrConcat") as u τ := by
  simp only [applyTheory] at hstd
  split at hstd
  · rename_i hc
    simp only [Bool.and_eq_true, decide_eq_true_eq, ge_iff_le] at hc
    cases hstd
    have hall : ∀ a ∈ as, a.2 = .str := allTy_iff.mp hc.2
    have hty : typeOfNode .strConcat .none ((nargs as).map Term.typeOf) = some .str := by
      rw [tyNode_of (nargs_typeOf hargs)]
      simp only [C03.tyNode, allAre_snd hall, if_true]
    have hn : mkNorm (Std.node .strConcat as) = .node .strConcat (nargs as) .none := by
      simp only [Std.node]
      rw [mkNorm_plain _ _ _ (by decide) (by decide) (by decide), map_fst_norm]
    unfold Agrees
    rw [hn]
    refine ⟨?_, tok_node hty (nargs_wf hargs) rfl nobw_str⟩
    rw [applyFn_mgr, callMgr_strconcat]
    have h2 : ¬ (nargs as).length ≤ 1 := by rw [nargs_length]; omega
    simp only [Mk.StrConcat, h2, if_false, create_ok hty]; rfl
  · cases hstd

/-! ## the string operators of fixed rank -/

def strMethods : List (String × String) :=
  [("str.len","StrLength"),("str.at","StrCharAt"),("str.substr","StrSubstr"),("str.indexof","StrIndexOf"),
   ("str.replace","StrReplace"),("str.prefixof","StrPrefixOf"),("str.suffixof","StrSuffixOf"),("str.contains","StrContains")]

/-- an operator of fixed rank `ptys → rty` whose manager method just creates the node -/
theorem ag_fixedRank (m : String) (op : Op) (ptys : List Ty) (rty : Ty) (as : List TT)
    (hargs : ∀ a ∈ as, TOK (mkNorm a.1) a.2) (hty : as.map (·.2) = ptys)
    (htn : C03.tyNode op .none ptys = some rty) (hshape : op.shapeOK .none ptys.length = true)
    (h1 : op ≠ .not) (h2 : op ≠ .toReal) (h3 : op ≠ .div) (hbw : ∀ w, rty ≠ .bv w)
    (hcall : ∀ ts : List Term, ts.length = ptys.length → callMgr m ts = liftMk (Mk.create op ts .none)) :
    Agrees (.mgr m) as (Std.node op as) rty := by
  have hlen : (nargs as).length = ptys.length := by rw [nargs_length, ← hty, List.length_map]
  have hty' : typeOfNode op .none ((nargs as).map Term.typeOf) = some rty := by
    rw [tyNode_of (nargs_typeOf hargs), hty, htn]
  have hn : mkNorm (Std.node op as) = .node op (nargs as) .none := by
    simp only [Std.node]
    rw [mkNorm_plain _ _ _ h1 h2 h3, map_fst_norm]
  unfold Agrees
  rw [hn]
  refine ⟨?_, tok_node hty' (nargs_wf hargs) (by rw [hlen]; exact hshape) (fun w hw => absurd hw (hbw w))⟩
  rw [applyFn_mgr, hcall _ hlen, create_ok hty']; rfl

theorem callMgr_un (m : String) (op : Op) (hm : mgrArity m = some 1)
    (hc : ∀ a, Mk.call m [.t a] = Mk.create op [a] .none) :
    ∀ ts : List Term, ts.length = 1 → callMgr m ts = liftMk (Mk.create op ts .none)
  | [a], _ => by simp [callMgr, hm, hc]

theorem callMgr_bin (m : String) (op : Op) (hm : mgrArity m = some 2)
    (hc : ∀ a b, Mk.call m [.t a, .t b] = Mk.create op [a, b] .none) :
    ∀ ts : List Term, ts.length = 2 → callMgr m ts = liftMk (Mk.create op ts .none)
  | [a, b], _ => by simp [callMgr, hm, hc]

theorem callMgr_tern (m : String) (op : Op) (hm : mgrArity m = some 3)
    (hc : ∀ a b c, Mk.call m [.t a, .t b, .t c] = Mk.create op [a, b, c] .none) :
    ∀ ts : List Term, ts.length = 3 → callMgr m ts = liftMk (Mk.create op ts .none)
  | [a, b, c], _ => by simp [callMgr, hm, hc]

/-! the `str.*` tokens fall through to `strSig` -/
theorem strTok_bin0 : List.lookup "str.len" bvBinOps = none := by decide
theorem strTok_rel0 : List.lookup "str.len" bvRels = none := by decide
theorem strTok_sig0 : strSig "str.len" = some (.strLength, [.str], .int) := by decide
theorem strTok_bin1 : List.lookup "str.at" bvBinOps = none := by decide
theorem strTok_rel1 : List.lookup "str.at" bvRels = none := by decide
theorem strTok_sig1 : strSig "str.at" = some (.strCharAt, [.str, .int], .str) := by decide
theorem strTok_bin2 : List.lookup "str.substr" bvBinOps = none := by decide
theorem strTok_rel2 : List.lookup "str.substr" bvRels = none := by decide
theorem strTok_sig2 : strSig "str.substr" = some (.strSubstr, [.str, .int, .int], .str) := by decide
theorem strTok_bin3 : List.lookup "str.indexof" bvBinOps = none := by decide
theorem strTok_rel3 : List.lookup "str.indexof" bvRels = none := by decide
theorem strTok_sig3 : strSig "str.indexof" = some (.strIndexOf, [.str, .str, .int], .int) := by decide
theorem strTok_bin4 : List.lookup "str.replace" bvBinOps = none := by decide
theorem strTok_rel4 : List.lookup "str.replace" bvRels = none := by decide
theorem strTok_sig4 : strSig "str.replace" = some (.strReplace, [.str, .str, .str], .str) := by decide
theorem strTok_bin5 : List.lookup "str.prefixof" bvBinOps = none := by decide
theorem strTok_rel5 : List.lookup "str.prefixof" bvRels = none := by decide
theorem strTok_sig5 : strSig "str.prefixof" = some (.strPrefixOf, [.str, .str], .bool) := by decide
theorem strTok_bin6 : List.lookup "str.suffixof" bvBinOps = none := by decide
theorem strTok_rel6 : List.lookup "str.suffixof" bvRels = none := by decide
theorem strTok_sig6 : strSig "str.suffixof" = some (.strSuffixOf, [.str, .str], .bool) := by decide
theorem strTok_bin7 : List.lookup "str.contains" bvBinOps = none := by decide
theorem strTok_rel7 : List.lookup "str.contains" bvRels = none := by decide
theorem strTok_sig7 : strSig "str.contains" = some (.strContains, [.str, .str], .bool) := by decide

theorem ag_str (f m : String) (hf : (f, m) ∈ strMethods) (as : List TT) (u : Term) (τ : Ty)
    (hargs : ∀ a ∈ as, TOK (mkNorm a.1) a.2) (hstd : applyTheory f as = .ok (u, τ)) : Agrees (.mgr m) as u τ := by
  simp only [strMethods, List.mem_cons, Prod.mk.injEq, List.not_mem_nil, or_false] at hf
  rcases hf with ⟨rfl, rfl⟩ | ⟨rfl, rfl⟩ | ⟨rfl, rfl⟩ | ⟨rfl, rfl⟩ | ⟨rfl, rfl⟩ | ⟨rfl, rfl⟩ | ⟨rfl, rfl⟩ | ⟨rfl, rfl⟩
  all_goals
    simp (config := { decide := true }) only [applyTheory] at hstd
    simp only [strTok_bin0, strTok_rel0, strTok_sig0, strTok_bin1, strTok_rel1, strTok_sig1, strTok_bin2, strTok_rel2, strTok_sig2, strTok_bin3, strTok_rel3, strTok_sig3, strTok_bin4, strTok_rel4, strTok_sig4, strTok_bin5, strTok_rel5, strTok_sig5, strTok_bin6, strTok_rel6, strTok_sig6, strTok_bin7, strTok_rel7, strTok_sig7] at hstd
    split at hstd
    · rename_i hc
      cases hstd
      refine ag_fixedRank _ _ _ _ as hargs (eq_of_beq hc) rfl rfl (by decide) (by decide) (by decide)
        (fun w h => nomatch h) ?_
      first
        | exact callMgr_un _ _ (by decide) (fun a => by simp [Mk.call, Mk.asTerm]; rfl)
        | exact callMgr_bin _ _ (by decide) (fun a b => by simp [Mk.call, Mk.asTerm]; rfl)
        | exact callMgr_tern _ _ (by decide) (fun a b c => by simp [Mk.call, Mk.asTerm]; rfl)
    · cases hstd

/-! ## arrays: `select`, `store` -/

theorem callMgr_select (a i : Term) : callMgr "Select" [a, i] = liftMk (Mk.Select a i) := by
  simp [callMgr, mgrArity, Mk.call, Mk.asTerm]

theorem callMgr_store (a i v : Term) : callMgr "Store" [a, i, v] = liftMk (Mk.Store a i v) := by
  simp [callMgr, mgrArity, Mk.call, Mk.asTerm]

theorem ag_select (as : List TT) (u : Term) (τ : Ty) (hargs : ∀ a ∈ as, TOK (mkNorm a.1) a.2)
    (hstd : applyTheory "select" as = .ok (u, τ)) : Agrees (.mgr "Select") as u τ := by
  simp only [applyTheory] at hstd
  split at hstd
  · rename_i a i
    split at hstd
    · rename_i it et hat
      split at hstd
      · rename_i hc
        cases hstd
        have hi : i.2 = it := by simpa using hc
        have hA := hargs a (by simp)
        have hI := hargs i (by simp)
        have hty : typeOfNode .arraySelect .none ([mkNorm a.1, mkNorm i.1].map Term.typeOf) = some τ := by
          rw [tys2 hA hI, hat, hi, C03.typeOfNode_eq_tyNode]
          simp [C03.tyNode]
        have hn : mkNorm (Std.node .arraySelect [a, i]) = .node .arraySelect [mkNorm a.1, mkNorm i.1] .none := by
          simp only [Std.node, List.map_cons, List.map_nil]
          rw [mkNorm_plain _ _ _ (by decide) (by decide) (by decide)]; rfl
        unfold Agrees
        rw [hn]
        refine ⟨?_, tok_node hty (wf2 hA.wf hI.wf) rfl
          (fun w hw => by subst hw; exact bvWidth_select _ _ _ it w (by rw [hA.ty, hat]))⟩
        rw [applyFn_mgr]
        simp only [nargs_cons, nargs_nil, callMgr_select, Mk.Select, create_ok hty]; rfl
      · cases hstd
    · cases hstd
  · cases hstd

theorem ag_store (as : List TT) (u : Term) (τ : Ty) (hargs : ∀ a ∈ as, TOK (mkNorm a.1) a.2)
    (hstd : applyTheory "store" as = .ok (u, τ)) : Agrees (.mgr "Store") as u τ := by
  simp only [applyTheory] at hstd
  split at hstd
  · rename_i a i v
    split at hstd
    · rename_i it et hat
      split at hstd
      · rename_i hc
        cases hstd
        simp only [Bool.and_eq_true, beq_iff_eq] at hc
        have hA := hargs a (by simp)
        have hI := hargs i (by simp)
        have hV := hargs v (by simp)
        have hty : typeOfNode .arrayStore .none ([mkNorm a.1, mkNorm i.1, mkNorm v.1].map Term.typeOf) = some a.2 := by
          rw [tys3 hA hI hV, hat, hc.1, hc.2, C03.typeOfNode_eq_tyNode]
          simp [C03.tyNode]
        have hn : mkNorm (Std.node .arrayStore [a, i, v]) =
            .node .arrayStore [mkNorm a.1, mkNorm i.1, mkNorm v.1] .none := by
          simp only [Std.node, List.map_cons, List.map_nil]
          rw [mkNorm_plain _ _ _ (by decide) (by decide) (by decide)]; rfl
        unfold Agrees
        rw [hn]
        refine ⟨?_, tok_node hty (wf3 hA.wf hI.wf hV.wf) rfl (fun w hw => by rw [hat] at hw; cases hw)⟩
        rw [applyFn_mgr]
        simp only [nargs_cons, nargs_nil, callMgr_store, Mk.Store, create_ok hty]; rfl
      · cases hstd
    · cases hstd
  · cases hstd

/-! ## `((as const (Array σ τ)) v)` -/

theorem applyFn_asConst (it : Ty) (x : Term) :
    applyFn (.asConst it) ([x].map .term) = (liftMk (Mk.create .arrayValue [x] (.ty it))).map Parser.Val.term := by
  simp [applyFn, termsOf, Mk.Array, Mk.arrayArgs, bind, Except.bind]

/-- `((as const (Array σ τ)) v)`: the parser's `asForm` yields `Fn.asConst it` for the index sort `it` -/
theorem ag_asconst (env : SEnv) (c : String) (sort : Sexp) (it et : Ty) (hc : symName? c = some "const")
    (hs : sortStd env sort = .ok (.array it et)) (as : List TT) (u : Term) (τ : Ty)
    (hargs : ∀ a ∈ as, TOK (mkNorm a.1) a.2)
    (hstd : applyHead env [.atom "as", .atom c, sort] as = .ok (u, τ)) : Agrees (.asConst it) as u τ := by
  unfold applyHead at hstd
  split at hstd
  · rename_i heq
    simp at heq
  · rename_i heq
    simp only [List.cons.injEq, Sexp.atom.injEq, and_true, true_and] at heq
    obtain ⟨rfl, rfl⟩ := heq
    simp only [hc, beq_self_eq_true, if_true, hs] at hstd
    split at hstd
    · rename_i it' et' v heq1
      cases heq1
      split at hstd
      · rename_i hv
        cases hstd
        have hv' : v.2 = et := by simpa using hv
        have hV := hargs v (by simp)
        have hty : typeOfNode .arrayValue (.ty it) ([mkNorm v.1].map Term.typeOf) = some (.array it et) := by
          rw [tys1 hV, hv', C03.typeOfNode_eq_tyNode]
          simp [C03.tyNode, typeOfNode.chk]
        have hn : mkNorm (.node .arrayValue [v.1] (.ty it)) = .node .arrayValue [mkNorm v.1] (.ty it) := by
          rw [mkNorm_plain _ _ _ (by decide) (by decide) (by decide)]; rfl
        unfold Agrees
        rw [hn]
        refine ⟨?_, tok_node hty (wf1 hV.wf) rfl (fun w hw => by cases hw)⟩
        simp only [nargs_cons, nargs_nil]
        rw [applyFn_asConst, create_ok hty]; rfl
      · cases hstd
    · cases hstd
    · cases hstd
  · rename_i h1 h2
    exact absurd rfl (h2 _ _)

end PySMT.Parser.Agree
