import PySMT.Core.Eval
import PySMT.Proofs.SimpVals
import PySMT.Proofs.SimpSorts
/-!
# Algebra of the canonical array values (`Core/Val.lean`) over a scalar index sort

* `KeyOrd` : `Val.lt` is a strict total order on the values of a scalar sort (`keyOrd`);
* `Canon idx d ents` : the canonical form (keys of sort `idx`, strictly increasing, no entry equal to
  the default, over a small finite index sort the greatest index is not assigned);
* `select_mkArr` : look-up in a chain with distinct keys is `lookupEnt`;
* `CanonV.store` / `select_store` : `store` keeps canonical values canonical and
  `select (store a k v) j = if k = j then v else select a j`;
* `CanonV.ext` : canonical values with the same look-up function (and, over an index sort that is
  not small, the same default) are equal;
* `arrayValue_*` : the value of an array-value node.
-/
namespace PySMT

/-- not an array sort -/
def Ty.scalar : Ty → Bool
  | .array _ _ => false
  | _ => true

/-! ## the key order -/

/-- `Val.lt` is a strict total order on the set `S` -/
structure KeyOrd (S : Val → Prop) : Prop where
  irrefl : ∀ a, S a → Val.lt a a = false
  trans : ∀ a b c, S a → S b → S c → Val.lt a b = true → Val.lt b c = true → Val.lt a c = true
  tri : ∀ a b, S a → S b → a ≠ b → Val.lt a b = true ∨ Val.lt b a = true

/-- a lawful comparison function gives a strict total order -/
theorem keyOrd_of_cmp {α : Type} (cmp : α → α → Ordering) [Std.TransCmp cmp] [Std.LawfulEqCmp cmp]
    (f : α → Val) (hf : ∀ x y, Val.cmp (f x) (f y) = cmp x y) :
    KeyOrd (fun v => ∃ x, v = f x) := by
  refine ⟨?_, ?_, ?_⟩
  · rintro _ ⟨x, rfl⟩
    simp only [Val.lt, hf, Std.ReflCmp.compare_self]
    rfl
  · rintro _ _ _ ⟨x, rfl⟩ ⟨y, rfl⟩ ⟨z, rfl⟩ h1 h2
    simp only [Val.lt, hf, beq_iff_eq] at h1 h2 ⊢
    exact Std.TransCmp.lt_trans h1 h2
  · rintro _ _ ⟨x, rfl⟩ ⟨y, rfl⟩ hne
    simp only [Val.lt, hf, beq_iff_eq]
    cases h : cmp x y with
    | lt => exact Or.inl rfl
    | eq => exact absurd (congrArg f (Std.LawfulEqCmp.eq_of_compare h)) hne
    | gt => exact Or.inr (Std.OrientedCmp.gt_iff_lt.mp h)

theorem Rat.lt_trans' {a b c : Rat} (h1 : a < b) (h2 : b < c) : a < c := by
  rw [Rat.lt_iff_le_and_ne] at h1 h2 ⊢
  refine ⟨Rat.le_trans h1.1 h2.1, ?_⟩
  intro e
  subst e
  exact h1.2 (Rat.le_antisymm h1.1 h2.1)

theorem keyOrd_real : KeyOrd (fun v => ∃ x : Rat, v = .r x) := by
  have hlt : ∀ x y : Rat, Val.lt (.r x) (.r y) = decide (x < y) := by
    intro x y
    simp only [Val.lt, Val.cmp]
    by_cases h : x < y
    · simp [h]
    · by_cases h' : x = y <;> simp [h, h']
  refine ⟨?_, ?_, ?_⟩
  · rintro _ ⟨x, rfl⟩
    rw [hlt]; simp [Rat.lt_irrefl]
  · rintro _ _ _ ⟨x, rfl⟩ ⟨y, rfl⟩ ⟨z, rfl⟩ h1 h2
    rw [hlt, decide_eq_true_eq] at h1 h2 ⊢
    exact Rat.lt_trans' h1 h2
  · rintro _ _ ⟨x, rfl⟩ ⟨y, rfl⟩ hne
    rw [hlt, hlt, decide_eq_true_eq, decide_eq_true_eq]
    have hxy : x ≠ y := fun e => hne (by rw [e])
    rcases Rat.le_total (a := x) (b := y) with h | h
    · exact Or.inl (Rat.lt_of_le_of_ne h hxy)
    · exact Or.inr (Rat.lt_of_le_of_ne h (Ne.symm hxy))

theorem KeyOrd.mono {S T : Val → Prop} (h : KeyOrd T) (hst : ∀ v, S v → T v) : KeyOrd S :=
  ⟨fun a ha => h.irrefl a (hst a ha),
   fun a b c ha hb hc => h.trans a b c (hst a ha) (hst b hb) (hst c hc),
   fun a b ha hb => h.tri a b (hst a ha) (hst b hb)⟩

/-- the values of a scalar sort are strictly totally ordered by `Val.lt` -/
theorem keyOrd (idx : Ty) (h : idx.scalar = true) : KeyOrd (fun v => v.hasSort idx = true) := by
  cases idx with
  | bool =>
    exact (keyOrd_of_cmp (compare : Bool → Bool → Ordering) Val.b (fun _ _ => rfl)).mono (fun v hv => Val.hasSort_bool hv)
  | int =>
    exact (keyOrd_of_cmp (compare : Int → Int → Ordering) Val.i (fun _ _ => rfl)).mono (fun v hv => Val.hasSort_int hv)
  | real => exact keyOrd_real.mono (fun v hv => Val.hasSort_real hv)
  | str =>
    exact (keyOrd_of_cmp (compare : String → String → Ordering) Val.s (fun _ _ => rfl)).mono (fun v hv => Val.hasSort_str hv)
  | bv w =>
    refine (keyOrd_of_cmp (compare : Nat → Nat → Ordering) (Val.bv w) (fun x y => ?_)).mono (fun v hv => ?_)
    · simp only [Val.cmp, Std.ReflCmp.compare_self, Ordering.then]
    · obtain ⟨n, rfl, _⟩ := Val.hasSort_bv hv
      exact ⟨n, rfl⟩
  | custom n =>
    refine (keyOrd_of_cmp (compare : Nat → Nat → Ordering) (Val.u n) (fun x y => ?_)).mono (fun v hv => Val.hasSort_custom hv)
    simp only [Val.cmp, Std.ReflCmp.compare_self, Ordering.then]
  | array i e => cases h

namespace Val

/-! ## store chains -/

theorem arrEntries_foldl : ∀ (ents : List (Val × Val)) (acc : Val),
    arrEntries (ents.foldl (fun a kv => astore a kv.1 kv.2) acc) = arrEntries acc ++ ents
  | [], acc => by simp
  | kv :: ents, acc => by
    rw [List.foldl_cons, arrEntries_foldl ents, arrEntries, List.append_assoc]; rfl

theorem arrDefault_foldl : ∀ (ents : List (Val × Val)) (acc : Val),
    arrDefault (ents.foldl (fun a kv => astore a kv.1 kv.2) acc) = arrDefault acc
  | [], acc => rfl
  | kv :: ents, acc => by rw [List.foldl_cons, arrDefault_foldl ents]; rfl

theorem arrIdx_foldl : ∀ (ents : List (Val × Val)) (acc : Val),
    arrIdx (ents.foldl (fun a kv => astore a kv.1 kv.2) acc) = arrIdx acc
  | [], acc => rfl
  | kv :: ents, acc => by rw [List.foldl_cons, arrIdx_foldl ents]; rfl

@[simp] theorem arrEntries_mkArr (idx : Ty) (d : Val) (ents : List (Val × Val)) :
    arrEntries (mkArr idx d ents) = ents := by
  rw [mkArr, arrEntries_foldl]; rfl
@[simp] theorem arrDefault_mkArr (idx : Ty) (d : Val) (ents : List (Val × Val)) :
    arrDefault (mkArr idx d ents) = d := by
  rw [mkArr, arrDefault_foldl]; rfl
@[simp] theorem arrIdx_mkArr (idx : Ty) (d : Val) (ents : List (Val × Val)) :
    arrIdx (mkArr idx d ents) = idx := by
  rw [mkArr, arrIdx_foldl]; rfl

theorem lookupEnt_cons (j d k v : Val) (rest : List (Val × Val)) :
    lookupEnt j d ((k, v) :: rest) = if j = k then v else lookupEnt j d rest := rfl

theorem lookupEnt_notin (j d : Val) : ∀ (ents : List (Val × Val)), (∀ kv ∈ ents, kv.1 ≠ j) →
    lookupEnt j d ents = d
  | [], _ => rfl
  | (k, v) :: rest, h => by
    rw [lookupEnt_cons, if_neg (fun e => h (k, v) (by simp) e.symm)]
    exact lookupEnt_notin j d rest (fun kv hkv => h kv (by simp [hkv]))

/-- the keys are pairwise distinct -/
def KeysNodup (ents : List (Val × Val)) : Prop := ents.Pairwise (fun x y => x.1 ≠ y.1)

theorem lookupEnt_mem (d : Val) : ∀ (ents : List (Val × Val)), KeysNodup ents → ∀ kv ∈ ents,
    lookupEnt kv.1 d ents = kv.2
  | (k, v) :: rest, hn, kv, hkv => by
    rw [lookupEnt_cons]
    rcases List.mem_cons.mp hkv with rfl | hkv
    · simp
    · have hne : k ≠ kv.1 := (List.pairwise_cons.mp hn).1 kv hkv
      rw [if_neg (fun e => hne e.symm)]
      exact lookupEnt_mem d rest (List.pairwise_cons.mp hn).2 kv hkv

/-- look-up in a store chain with distinct keys -/
theorem select_foldl (j : Val) : ∀ (ents : List (Val × Val)) (acc : Val), KeysNodup ents →
    select (ents.foldl (fun a kv => astore a kv.1 kv.2) acc) j = lookupEnt j (select acc j) ents
  | [], acc, _ => rfl
  | (k, v) :: rest, acc, hn => by
    rw [List.foldl_cons, select_foldl j rest _ (List.pairwise_cons.mp hn).2, lookupEnt_cons]
    by_cases h : j = k
    · subst h
      rw [if_pos rfl, lookupEnt_notin]
      · simp [select]
      · intro kv hkv e
        exact (List.pairwise_cons.mp hn).1 kv hkv e.symm
    · rw [if_neg h]
      congr 1
      simp only [select]
      rw [if_neg (fun e => h e.symm)]

theorem select_mkArr (idx : Ty) (d j : Val) (ents : List (Val × Val)) (hn : KeysNodup ents) :
    select (mkArr idx d ents) j = lookupEnt j d ents := by
  rw [mkArr, select_foldl j ents _ hn]; rfl

/-! ## sorted entry lists -/

/-- strictly increasing keys -/
def Sorted (ents : List (Val × Val)) : Prop := ents.Pairwise (fun x y => Val.lt x.1 y.1 = true)

theorem Sorted.nodup {S : Val → Prop} (ord : KeyOrd S) {ents : List (Val × Val)} (hk : ∀ kv ∈ ents, S kv.1)
    (h : Sorted ents) : KeysNodup ents := by
  induction ents with
  | nil => exact List.Pairwise.nil
  | cons x xs ih =>
    have h' := List.pairwise_cons.mp h
    refine List.pairwise_cons.mpr ⟨?_, ih (fun kv hkv => hk kv (by simp [hkv])) h'.2⟩
    intro y hy e
    have := h'.1 y hy
    rw [← e, ord.irrefl _ (hk x (by simp))] at this
    cases this

theorem mem_insertEnt {k v : Val} {x : Val × Val} : ∀ (ents : List (Val × Val)),
    x ∈ insertEnt k v ents → x = (k, v) ∨ x ∈ ents
  | [], h => by simp only [insertEnt, List.mem_singleton] at h; exact Or.inl h
  | (k', v') :: rest, h => by
    simp only [insertEnt] at h
    split at h
    · rcases List.mem_cons.mp h with rfl | h
      · exact Or.inl rfl
      · exact Or.inr (by simp [h])
    · split at h
      · rcases List.mem_cons.mp h with rfl | h
        · exact Or.inl rfl
        · exact Or.inr h
      · rcases List.mem_cons.mp h with rfl | h
        · exact Or.inr (by simp)
        · rcases mem_insertEnt rest h with rfl | h
          · exact Or.inl rfl
          · exact Or.inr (by simp [h])

theorem lookupEnt_insertEnt (j k v d : Val) : ∀ (ents : List (Val × Val)),
    lookupEnt j d (insertEnt k v ents) = if j = k then v else lookupEnt j d ents
  | [] => rfl
  | (k', v') :: rest => by
    simp only [insertEnt]
    split
    · next h =>
      subst h
      rw [lookupEnt_cons, lookupEnt_cons]
      split <;> rfl
    · next hne =>
      split
      · rw [lookupEnt_cons]
      · rw [lookupEnt_cons, lookupEnt_cons, lookupEnt_insertEnt j k v d rest]
        by_cases h1 : j = k'
        · subst h1
          rw [if_pos rfl, if_neg (fun e => hne e.symm), if_pos rfl]
        · rw [if_neg h1, if_neg h1]

theorem sorted_insertEnt {S : Val → Prop} (ord : KeyOrd S) {k : Val} (v : Val) (hk : S k) :
    ∀ (ents : List (Val × Val)), (∀ kv ∈ ents, S kv.1) → Sorted ents → Sorted (insertEnt k v ents)
  | [], _, _ => by simp [insertEnt, Sorted]
  | (k', v') :: rest, hS, hs => by
    have hs' := List.pairwise_cons.mp hs
    have hk' : S k' := hS (k', v') (by simp)
    simp only [insertEnt]
    split
    · next h =>
      subst h
      exact List.pairwise_cons.mpr ⟨hs'.1, hs'.2⟩
    · next hne =>
      split
      · next hlt =>
        refine List.pairwise_cons.mpr ⟨?_, hs⟩
        intro y hy
        rcases List.mem_cons.mp hy with rfl | hy
        · exact hlt
        · exact ord.trans _ _ _ hk hk' (hS y (by simp [hy])) hlt (hs'.1 y hy)
      · next hnlt =>
        have hgt : Val.lt k' k = true := by
          rcases ord.tri k k' hk hk' hne with h | h
          · exact absurd h hnlt
          · exact h
        refine List.pairwise_cons.mpr ⟨?_, sorted_insertEnt ord v hk rest (fun kv hkv => hS kv (by simp [hkv])) hs'.2⟩
        intro y hy
        rcases mem_insertEnt rest hy with rfl | hy
        · exact hgt
        · exact hs'.1 y hy

theorem lookupEnt_filter_ne (j k d : Val) : ∀ (ents : List (Val × Val)),
    lookupEnt j d (ents.filter (fun kv => kv.1 ≠ k)) = if j = k then d else lookupEnt j d ents
  | [] => by simp [lookupEnt]
  | (k', v') :: rest => by
    rw [List.filter_cons]
    by_cases h : k' = k
    · subst h
      simp only [ne_eq, not_true_eq_false, decide_false, Bool.false_eq_true, if_false]
      rw [lookupEnt_filter_ne j k' d rest, lookupEnt_cons]
      split <;> rfl
    · simp only [ne_eq, h, not_false_eq_true, decide_true, if_true]
      rw [lookupEnt_cons, lookupEnt_cons, lookupEnt_filter_ne j k d rest]
      by_cases h1 : j = k'
      · subst h1
        rw [if_pos rfl, if_neg h, if_pos rfl]
      · rw [if_neg h1, if_neg h1]

/-! ## the canonical form -/

/-- canonical form without the condition on the greatest index -/
structure PreCanon (idx : Ty) (d : Val) (ents : List (Val × Val)) : Prop where
  keys : ∀ kv ∈ ents, kv.1.hasSort idx = true
  sorted : Sorted ents
  nodef : ∀ kv ∈ ents, kv.2 ≠ d

/-- the canonical form of `Core/Val.lean` -/
structure Canon (idx : Ty) (d : Val) (ents : List (Val × Val)) : Prop extends PreCanon idx d ents where
  top : ∀ dom m, smallDomain idx = some dom → dom.getLast? = some m → ∀ kv ∈ ents, kv.1 ≠ m

/-! ## small index domains -/

theorem eq_dropLast_append {α : Type} : ∀ (l : List α) (m : α), l.getLast? = some m → l = l.dropLast ++ [m]
  | [], m, h => by simp at h
  | [x], m, h => by simp at h; subst h; rfl
  | x :: y :: t, m, h => by
    have h' : (y :: t).getLast? = some m := by simpa [List.getLast?_cons_cons] using h
    have ih := eq_dropLast_append (y :: t) m h'
    rw [List.dropLast_cons_cons, List.cons_append, ← ih]

theorem lt_bv (w x y : Nat) : Val.lt (.bv w x) (.bv w y) = decide (x < y) := by
  simp only [Val.lt, Val.cmp, Std.ReflCmp.compare_self, Ordering.then]
  by_cases h : x < y
  · rw [Nat.compare_eq_lt.mpr h]; simp [h]
  · rw [decide_eq_false h]
    rw [beq_eq_false_iff_ne]
    intro e
    exact h (Nat.compare_eq_lt.mp e)

theorem smallDomain_sorted {idx : Ty} {dom : List Val} (h : smallDomain idx = some dom) :
    dom.Pairwise (fun x y => Val.lt x y = true) := by
  cases idx <;> simp only [smallDomain] at h <;> try (cases h; done)
  · cases h
    refine List.pairwise_cons.mpr ⟨?_, List.pairwise_cons.mpr ⟨by simp, List.Pairwise.nil⟩⟩
    intro y hy
    simp only [List.mem_cons, List.not_mem_nil, or_false] at hy
    subst hy
    rfl
  · next w =>
    split at h
    · cases h
      rw [List.pairwise_map]
      refine List.Pairwise.imp ?_ List.pairwise_lt_range
      intro a b hab
      rw [lt_bv]
      exact decide_eq_true hab
    · cases h

theorem smallDomain_complete {idx : Ty} {dom : List Val} (h : smallDomain idx = some dom) {v : Val}
    (hv : v.hasSort idx = true) : v ∈ dom := by
  cases idx <;> simp only [smallDomain] at h <;> try (cases h; done)
  · cases h
    obtain ⟨b, rfl⟩ := Val.hasSort_bool hv
    cases b <;> simp
  · next w =>
    split at h
    · cases h
      obtain ⟨n, rfl, hn⟩ := Val.hasSort_bv hv
      exact List.mem_map.mpr ⟨n, List.mem_range.mpr hn, rfl⟩
    · cases h

theorem smallDomain_ne_nil {idx : Ty} {dom : List Val} (h : smallDomain idx = some dom) : dom ≠ [] := by
  cases idx <;> simp only [smallDomain] at h <;> try (cases h; done)
  · cases h; simp
  · next w =>
    split at h
    · cases h
      intro e
      have : (0 : Nat) ∈ List.range (2 ^ w) := List.mem_range.mpr (Nat.two_pow_pos w)
      have := List.mem_map_of_mem (f := Val.bv w) this
      rw [e] at this
      cases this
    · cases h

/-- a tabulated entry list: look-up -/
theorem lookupEnt_tabulate (f : Val → Val) (j d' : Val) : ∀ (ks : List Val),
    lookupEnt j d' ((ks.map (fun k => (k, f k))).filter (fun kv => kv.2 ≠ d')) =
      if j ∈ ks then f j else d'
  | [] => by simp [lookupEnt]
  | k :: ks => by
    rw [List.map_cons, List.filter_cons]
    have ih := lookupEnt_tabulate f j d' ks
    by_cases hk : f k = d'
    · simp only [ne_eq, hk, not_true_eq_false, decide_false, Bool.false_eq_true, if_false]
      rw [ih]
      by_cases hj : j = k
      · subst hj
        simp only [List.mem_cons, true_or, if_true]
        split
        · rfl
        · exact hk.symm
      · simp only [List.mem_cons, hj, false_or]
    · simp only [ne_eq, hk, not_false_eq_true, decide_true, if_true]
      rw [lookupEnt_cons, ih]
      by_cases hj : j = k
      · subst hj; simp
      · simp only [hj, if_false, List.mem_cons, false_or]

/-- `normArr` puts a pre-canonical entry list into canonical form without changing the function -/
theorem normArr_spec {idx : Ty} (ord : KeyOrd (fun v => v.hasSort idx = true)) {d : Val}
    {ents : List (Val × Val)} (h : PreCanon idx d ents) :
    ∃ d' ents', normArr idx d ents = mkArr idx d' ents' ∧ Canon idx d' ents' ∧
      (∀ j, j.hasSort idx = true → lookupEnt j d' ents' = lookupEnt j d ents) ∧
      (smallDomain idx = none → d' = d) := by
  have hnd : KeysNodup ents := Sorted.nodup ord h.keys h.sorted
  unfold normArr
  cases hdom : smallDomain idx with
  | none =>
    exact ⟨d, ents, rfl, ⟨h, fun dom m hd => by rw [hdom] at hd; cases hd⟩, fun _ _ => rfl, fun _ => rfl⟩
  | some dom =>
    simp only
    cases hlast : dom.getLast? with
    | none => exact absurd (List.getLast?_eq_none_iff.mp hlast) (smallDomain_ne_nil hdom)
    | some m =>
      simp only
      have hdomS : ∀ k ∈ dom, k.hasSort idx = true := Val.smallDomain_sort hdom
      have hsplit := eq_dropLast_append dom m hlast
      have hsorted := smallDomain_sorted hdom
      have hm : m ∈ dom := by rw [hsplit]; simp
      have hmnot : m ∉ dom.dropLast := by
        intro hin
        rw [hsplit] at hsorted
        have := (List.pairwise_append.mp hsorted).2.2 m hin m (by simp)
        rw [ord.irrefl m (hdomS m hm)] at this
        cases this
      split
      · next heq =>
        refine ⟨d, ents, rfl, ⟨h, ?_⟩, fun _ _ => rfl, fun hn => by cases hn⟩
        intro dom' m' hd' hl' kv hkv e
        rw [hdom] at hd'
        cases hd'
        rw [hlast] at hl'
        cases hl'
        have := lookupEnt_mem d ents hnd kv hkv
        rw [e, heq] at this
        exact h.nodef kv hkv this.symm
      · next hne =>
        refine ⟨_, _, rfl, ⟨⟨?_, ?_, ?_⟩, ?_⟩, ?_, fun hn => by cases hn⟩
        · intro kv hkv
          obtain ⟨k, hk, rfl⟩ := List.mem_map.mp (List.mem_filter.mp hkv).1
          exact hdomS k (List.dropLast_subset dom hk)
        · apply List.Pairwise.filter
          rw [List.pairwise_map]
          exact List.Pairwise.sublist (List.dropLast_sublist dom) hsorted
        · intro kv hkv
          simpa using (List.mem_filter.mp hkv).2
        · intro dom' m' hd' hl' kv hkv e
          rw [hdom] at hd'
          cases hd'
          rw [hlast] at hl'
          cases hl'
          obtain ⟨k, hk, rfl⟩ := List.mem_map.mp (List.mem_filter.mp hkv).1
          exact hmnot (e ▸ hk)
        · intro j hj
          rw [lookupEnt_tabulate (fun k => lookupEnt k d ents)]
          have hjd : j ∈ dom := smallDomain_complete hdom hj
          rw [hsplit] at hjd
          rcases List.mem_append.mp hjd with hjd | hjd
          · rw [if_pos hjd]
          · simp only [List.mem_singleton] at hjd
            subst hjd
            rw [if_neg hmnot]

/-- a value in canonical form -/
def CanonV (idx : Ty) (a : Val) : Prop := ∃ d ents, a = mkArr idx d ents ∧ Canon idx d ents

theorem CanonV.aconst (idx : Ty) (d : Val) : CanonV idx (.aconst idx d) :=
  ⟨d, [], rfl, ⟨⟨by simp, List.Pairwise.nil, by simp⟩, by simp⟩⟩

theorem CanonV.select {idx : Ty} (ord : KeyOrd (fun v => v.hasSort idx = true)) {a : Val} (h : CanonV idx a)
    (j : Val) : ∃ d ents, a = mkArr idx d ents ∧ Canon idx d ents ∧ a.select j = lookupEnt j d ents := by
  obtain ⟨d, ents, rfl, hc⟩ := h
  exact ⟨d, ents, rfl, hc, select_mkArr idx d j ents (Sorted.nodup ord hc.keys hc.sorted)⟩

/-- `store` on a canonical value: canonical again, with the expected look-up function -/
theorem CanonV.store {idx : Ty} (ord : KeyOrd (fun v => v.hasSort idx = true)) {a k : Val} (v : Val)
    (ha : CanonV idx a) (hk : k.hasSort idx = true) :
    CanonV idx (a.store k v) ∧
      (∀ j, j.hasSort idx = true → (a.store k v).select j = if j = k then v else a.select j) ∧
      (smallDomain idx = none → (a.store k v).arrDefault = a.arrDefault) := by
  obtain ⟨d, ents, rfl, hc⟩ := ha
  have hnd : KeysNodup ents := Sorted.nodup ord hc.keys hc.sorted
  have key : ∀ ents', PreCanon idx d ents' →
      (∀ j, lookupEnt j d ents' = if j = k then v else lookupEnt j d ents) →
      CanonV idx (normArr idx d ents') ∧
      (∀ j, j.hasSort idx = true → (normArr idx d ents').select j = if j = k then v else (mkArr idx d ents).select j) ∧
      (smallDomain idx = none → (normArr idx d ents').arrDefault = d) := by
    intro ents' hp hl
    obtain ⟨d', e', h1, h2, h3, h4⟩ := normArr_spec ord hp
    refine ⟨⟨d', e', h1, h2⟩, ?_, ?_⟩
    · intro j hj
      rw [h1, select_mkArr idx d' j e' (Sorted.nodup ord h2.keys h2.sorted), h3 j hj, hl j,
        select_mkArr idx d j ents hnd]
    · intro hn
      rw [h1, arrDefault_mkArr, h4 hn]
  unfold Val.store
  simp only [arrDefault_mkArr, arrEntries_mkArr, arrIdx_mkArr]
  split
  · next hv =>
    apply key
    · exact ⟨fun kv hkv => hc.keys kv (List.mem_filter.mp hkv).1, List.Pairwise.filter _ hc.sorted,
        fun kv hkv => hc.nodef kv (List.mem_filter.mp hkv).1⟩
    · intro j
      rw [lookupEnt_filter_ne, hv]
  · next hv =>
    apply key
    · refine ⟨?_, sorted_insertEnt ord v hk ents hc.keys hc.sorted, ?_⟩
      · intro kv hkv
        rcases mem_insertEnt ents hkv with rfl | hkv
        · exact hk
        · exact hc.keys kv hkv
      · intro kv hkv
        rcases mem_insertEnt ents hkv with rfl | hkv
        · exact hv
        · exact hc.nodef kv hkv
    · intro j
      rw [lookupEnt_insertEnt]

/-! ## extensionality -/

theorem sorted_ext {S : Val → Prop} (ord : KeyOrd S) (d : Val) : ∀ (e1 e2 : List (Val × Val)),
    (∀ kv ∈ e1, S kv.1) → (∀ kv ∈ e2, S kv.1) → Sorted e1 → Sorted e2 →
    (∀ kv ∈ e1, kv.2 ≠ d) → (∀ kv ∈ e2, kv.2 ≠ d) →
    (∀ j, S j → lookupEnt j d e1 = lookupEnt j d e2) → e1 = e2
  | [], [], _, _, _, _, _, _, _ => rfl
  | [], (k, v) :: rs, _, hS, _, _, _, hn, hl => by
    have := hl k (hS (k, v) (by simp))
    rw [lookupEnt_cons, if_pos rfl] at this
    exact absurd this.symm (hn (k, v) (by simp))
  | (k, v) :: rs, [], hS, _, _, _, hn, _, hl => by
    have := hl k (hS (k, v) (by simp))
    rw [lookupEnt_cons, if_pos rfl] at this
    exact absurd this (hn (k, v) (by simp))
  | (k1, v1) :: r1, (k2, v2) :: r2, hS1, hS2, hs1, hs2, hn1, hn2, hl => by
    have hk1 : S k1 := hS1 (k1, v1) (by simp)
    have hk2 : S k2 := hS2 (k2, v2) (by simp)
    have hs1' := List.pairwise_cons.mp hs1
    have hs2' := List.pairwise_cons.mp hs2
    -- keys of a tail are above the head, hence different from anything not above the head
    have above : ∀ (k : Val) (r : List (Val × Val)), S k → (∀ kv ∈ r, S kv.1) →
        (∀ y ∈ r, Val.lt k y.1 = true) → ∀ j, S j → (j = k ∨ Val.lt j k = true) → ∀ kv ∈ r, kv.1 ≠ j := by
      intro k r hk hr hlt j hj hjk kv hkv e
      have h1 := hlt kv hkv
      rw [e] at h1
      rcases hjk with rfl | hjk
      · rw [ord.irrefl _ hj] at h1; cases h1
      · have := ord.trans _ _ _ hj hk hj hjk h1
        rw [ord.irrefl _ hj] at this; cases this
    by_cases hk : k1 = k2
    · subst hk
      have hv : v1 = v2 := by
        have := hl k1 hk1
        simpa [lookupEnt_cons] using this
      subst hv
      have : r1 = r2 := by
        apply sorted_ext ord d r1 r2 (fun kv h => hS1 kv (by simp [h])) (fun kv h => hS2 kv (by simp [h]))
          hs1'.2 hs2'.2 (fun kv h => hn1 kv (by simp [h])) (fun kv h => hn2 kv (by simp [h]))
        intro j hj
        by_cases hjk : j = k1
        · rw [lookupEnt_notin j d r1 (above k1 r1 hk1 (fun kv h => hS1 kv (by simp [h])) hs1'.1 j hj (Or.inl hjk)),
            lookupEnt_notin j d r2 (above k1 r2 hk1 (fun kv h => hS2 kv (by simp [h])) hs2'.1 j hj (Or.inl hjk))]
        · have := hl j hj
          rwa [lookupEnt_cons, lookupEnt_cons, if_neg hjk, if_neg hjk] at this
      rw [this]
    · exfalso
      rcases ord.tri k1 k2 hk1 hk2 hk with hlt | hlt
      · have := hl k1 hk1
        rw [lookupEnt_cons, if_pos rfl, lookupEnt_cons, if_neg hk,
          lookupEnt_notin k1 d r2 (above k2 r2 hk2 (fun kv h => hS2 kv (by simp [h])) hs2'.1 k1 hk1 (Or.inr hlt))] at this
        exact hn1 (k1, v1) (by simp) this
      · have := hl k2 hk2
        rw [lookupEnt_cons (k := k2), if_pos rfl, lookupEnt_cons, if_neg (fun e => hk e.symm),
          lookupEnt_notin k2 d r1 (above k1 r1 hk1 (fun kv h => hS1 kv (by simp [h])) hs1'.1 k2 hk2 (Or.inr hlt))] at this
        exact hn2 (k2, v2) (by simp) this.symm

/-- canonical values with the same look-up function (over an index sort that is not small: and the
same default) are equal -/
theorem CanonV.ext {idx : Ty} (ord : KeyOrd (fun v => v.hasSort idx = true)) {a b : Val}
    (ha : CanonV idx a) (hb : CanonV idx b) (hd : smallDomain idx = none → a.arrDefault = b.arrDefault)
    (hl : ∀ j, j.hasSort idx = true → a.select j = b.select j) : a = b := by
  obtain ⟨d1, e1, rfl, h1⟩ := ha
  obtain ⟨d2, e2, rfl, h2⟩ := hb
  have hl' : ∀ j, j.hasSort idx = true → lookupEnt j d1 e1 = lookupEnt j d2 e2 := by
    intro j hj
    have := hl j hj
    rwa [select_mkArr idx d1 j e1 (Sorted.nodup ord h1.keys h1.sorted),
      select_mkArr idx d2 j e2 (Sorted.nodup ord h2.keys h2.sorted)] at this
  have hdd : d1 = d2 := by
    cases hdom : smallDomain idx with
    | none => simpa using hd hdom
    | some dom =>
      cases hlast : dom.getLast? with
      | none => exact absurd (List.getLast?_eq_none_iff.mp hlast) (smallDomain_ne_nil hdom)
      | some m =>
        have hm : m ∈ dom := by rw [eq_dropLast_append dom m hlast]; simp
        have := hl' m (Val.smallDomain_sort hdom m hm)
        rwa [lookupEnt_notin m d1 e1 (h1.top dom m hdom hlast), lookupEnt_notin m d2 e2 (h2.top dom m hdom hlast)] at this
  subst hdd
  have : e1 = e2 := sorted_ext ord d1 e1 e2 h1.keys h2.keys h1.sorted h2.sorted h1.nodef h2.nodef hl'
  rw [this]

end Val

/-! ## the value of an array-value node -/

/-- the (key, value) pairs of an argument-value list -/
def pairsV : List Val → List (Val × Val)
  | k :: v :: rest => (k, v) :: pairsV rest
  | _ => []

/-- `Sem.arrayValue idx d [k₁, v₁, …]` is canonical, its look-up function is "first binding of the
index, else `d`", and over an index sort that is not small its default is `d` -/
theorem arrayValue_spec {idx : Ty} (ord : KeyOrd (fun v => v.hasSort idx = true)) (d : Val) :
    ∀ (vs : List Val), (∀ kv ∈ pairsV vs, kv.1.hasSort idx = true) →
      Val.CanonV idx (Sem.arrayValue idx d vs) ∧
      (∀ j, j.hasSort idx = true → (Sem.arrayValue idx d vs).select j = Val.lookupEnt j d (pairsV vs)) ∧
      (Val.smallDomain idx = none → (Sem.arrayValue idx d vs).arrDefault = d)
  | [], _ => ⟨Val.CanonV.aconst idx d, fun _ _ => rfl, fun _ => rfl⟩
  | [_], _ => ⟨Val.CanonV.aconst idx d, fun _ _ => rfl, fun _ => rfl⟩
  | k :: v :: rest, h => by
    obtain ⟨h1, h2, h3⟩ := arrayValue_spec ord d rest (fun kv hkv => h kv (by simp [pairsV, hkv]))
    obtain ⟨s1, s2, s3⟩ := Val.CanonV.store ord v h1 (h (k, v) (by simp [pairsV]))
    refine ⟨s1, ?_, fun hn => ?_⟩
    · intro j hj
      show (Val.store (Sem.arrayValue idx d rest) k v).select j = _
      rw [s2 j hj, h2 j hj]
      rfl
    · show (Val.store (Sem.arrayValue idx d rest) k v).arrDefault = _
      rw [s3 hn, h3 hn]

end PySMT
