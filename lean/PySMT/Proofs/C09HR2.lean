import PySMT.Proofs.C09HR1
/-!
# C09 (human-readable format): the invariant of the round trip and the parenthesised forms

`Good t`: parsing the tokens of `t` followed by any `rest`, at any right binding power below the postfix tokens, is the
same as having read `t` and going on with the `while rbp < token.lbp` loop on `rest` — provided `t` is not one of the two
forms (`ToReal(x)`, `bv2nat(x)`) after which a tighter-binding token would be swallowed (`okAfter`).
Fuel: if the continuation returns `r` from fuel `n0` on, the whole returns `r` from fuel `n0 + cost t` on.
-/
namespace PySMT.HR.RT
open PySMT PySMT.HR PySMT.Gen.HROps

def cost (t : Term) : Nat := 3 * (hrTokens t).length

def okAfter (t : Term) (rest : List Tok) : Prop := tight t = true ∨ headLbp rest ≤ 100

/-- the tokens of `t` read as the term `u` -/
def Reads (t u : Term) : Prop :=
  ∀ (rbp : Nat) (rest : List Tok) (r : Term × List Tok) (n0 : Nat), rbp ≤ 100 → okAfter t rest →
    EvLoop rbp u rest n0 r → EvExpr rbp (hrTokens t ++ rest) (n0 + cost t) r

/-- the tokens of `t` read as `t` itself -/
abbrev Good (t : Term) : Prop := Reads t t

theorem okAfter_of_lbp {t : Term} {rest : List Tok} (h : headLbp rest ≤ 100) : okAfter t rest := Or.inr h

/-- a term followed by a token at which the loop stops -/
theorem Reads.stop {t u : Term} (g : Reads t u) (rbp : Nat) (rest : List Tok) (hr : rbp ≤ 100) (hl : headLbp rest ≤ rbp) :
    EvExpr rbp (hrTokens t ++ rest) (1 + cost t) (u, rest) :=
  g rbp rest (u, rest) 1 hr (Or.inr (by omega)) (ev_loop_stop rbp u rest hl)

/-! ## atoms -/

/-- a term printed as one token whose `nud` returns `u` -/
theorem reads_atom {t u : Term} {tok : Tok} (htoks : hrTokens t = [tok])
    (hnud : ∀ (ex : Ex) (ps : Ps) (pt : Pt) rest, nud ex ps pt tok rest = .ok (u, rest)) : Reads t u := by
  intro rbp rest r n0 _ _ hloop n hn
  obtain ⟨m, rfl⟩ : ∃ m, n = m + 1 := ⟨n - 1, by simp [cost, htoks] at hn; omega⟩
  simp only [htoks, List.cons_append, List.nil_append]
  rw [expr_succ, hnud]
  exact hloop m (by simp [cost, htoks] at hn; omega)

/-! ## parenthesised forms -/

/-- a term printed `( inner )` where `expression(0)` reads `inner` up to the closing parenthesis as the term itself -/
theorem reads_paren {t u : Term} {inner : List Tok} (htoks : hrTokens t = lpar :: (inner ++ [rpar])) (k : Nat)
    (hin : ∀ rest, EvExpr 0 (inner ++ rpar :: rest) k (u, rpar :: rest)) (hk : k + 1 ≤ cost t) : Reads t u := by
  intro rbp rest r n0 _ _ hloop n hn
  obtain ⟨m, rfl⟩ : ∃ m, n = m + 1 := ⟨n - 1, by omega⟩
  rw [htoks]
  simp only [List.cons_append, List.append_assoc, List.nil_append]
  rw [expr_succ, nud_lpar]
  unfold nudPar
  rw [hin rest m (by omega)]
  simp only [expect_hit]
  exact hloop m (by omega)

theorem expr_int_stop (i rbp : Nat) (n : Int) (rest : List Tok) (h : headLbp rest ≤ rbp) :
    expr (i + 2) rbp (.int n :: rest) = .ok (Term.int n, rest) := by
  rw [expr_succ, nud_int]
  exact loop_stop i rbp _ _ h

theorem headLbp_rpar (rest : List Tok) : headLbp (rpar :: rest) = 0 := by simp [headLbp, lbp_rpar]

/-- `( s a )` -/
theorem reads_prefixPar {op : Op} {p : Payload} {a a' u : Term} {s c : String} {l : Nat}
    (hs : shapeOf op = some (.prefixPar s)) (hu : unaryOf s = some (c, l))
    (hok : applyUnary c a' = .ok u) (ga : Reads a a') : Reads (.node op [a] p) u := by
  have hl := unary_lbp hu
  have htoks : hrTokens (.node op [a] p) = lpar :: ((.op s :: hrTokens a) ++ [rpar]) := by
    simp [hrTokens_node, nodeToks, hs]
  refine reads_paren htoks (cost a + 3) ?_ ?_
  · intro rest k hk
    obtain ⟨j, rfl⟩ : ∃ j, k = j + 1 := ⟨k - 1, by omega⟩
    simp only [List.cons_append]
    rw [expr_succ, nud_unary _ _ _ hu]
    unfold nudUnary
    rw [ga.stop l (rpar :: rest) hl (by simp [headLbp_rpar]) j (by omega)]
    simp only [hok]
    obtain ⟨i, rfl⟩ : ∃ i, j = i + 1 := ⟨j - 1, by omega⟩
    exact loop_stop i 0 _ _ (by simp [headLbp_rpar])
  · simp only [cost, htoks, List.length_cons, List.length_append, List.length_nil]; omega

/-- `( a s k )` -/
theorem reads_hack {op : Op} {w k : Nat} {a a' u : Term} {s c : String} {l : Nat}
    (hs : shapeOf op = some (.hack s)) (hi : infixOf s = some (c, l))
    (hok : applyInfix c a' (Term.int k) = .ok u) (ga : Reads a a') :
    Reads (.node op [a] (.ints [w, k])) u := by
  obtain ⟨hl0, hl100, hlbp⟩ := infix_lbp hi
  have htoks : hrTokens (.node op [a] (.ints [w, k])) = lpar :: ((hrTokens a ++ [.op s, .int k]) ++ [rpar]) := by
    simp [hrTokens_node, nodeToks, hs, hackStep]
  refine reads_paren htoks (4 + cost a) ?_ ?_
  · intro rest
    simp only [List.append_assoc, List.cons_append, List.nil_append]
    apply ga 0 _ _ _ (by omega) (okAfter_of_lbp (by simp only [headLbp]; omega))
    intro n hn
    obtain ⟨j, rfl⟩ : ∃ j, n = j + 3 := ⟨n - 3, by omega⟩
    rw [loop_step _ _ _ _ _ (by omega), led_infix _ _ hi]
    unfold ledInfix
    rw [expr_int_stop j l _ _ (by simp [headLbp_rpar])]
    simp only [hok]
    exact loop_stop (j + 1) 0 _ _ (by simp [headLbp_rpar])
  · simp only [cost, htoks, List.length_cons, List.length_append, List.length_nil]; omega

/-- `( c ? a : b )` -/
theorem reads_ite {op : Op} {p : Payload} {c a b c' a' b' u : Term} (hs : shapeOf op = some .ite)
    (hok : liftMk (Mk.Ite c' a' b') = .ok u) (gc : Reads c c') (ga : Reads a a') (gb : Reads b b') :
    Reads (.node op [c, a, b] p) u := by
  have htoks : hrTokens (.node op [c, a, b] p)
      = lpar :: ((hrTokens c ++ (.op "?" :: (hrTokens a ++ (.op ":" :: hrTokens b)))) ++ [rpar]) := by
    simp [hrTokens_node, nodeToks, hs]
  refine reads_paren htoks (cost a + cost b + 3 + cost c) ?_ ?_
  · intro rest
    simp only [List.append_assoc, List.cons_append]
    apply gc 0 _ _ _ (by omega) (okAfter_of_lbp (by simp [headLbp, lbp_question]))
    intro k hk
    obtain ⟨j, rfl⟩ : ∃ j, k = j + 1 := ⟨k - 1, by omega⟩
    rw [loop_step _ _ _ _ _ (by simp [lbp_question]), led_question]
    unfold ledIte
    rw [ga.stop 5 (.op ":" :: (hrTokens b ++ rpar :: rest)) (by omega) (by simp [headLbp, lbp_colon]) j (by omega)]
    simp only [expect_hit]
    rw [gb.stop 5 (rpar :: rest) (by omega) (by simp [headLbp_rpar]) j (by omega)]
    simp only [hok]
    obtain ⟨i, rfl⟩ : ∃ i, j = i + 1 := ⟨j - 1, by omega⟩
    exact loop_stop i 0 _ _ (by simp [headLbp_rpar])
  · simp only [cost, htoks, List.length_cons, List.length_append, List.length_nil]; omega

/-! ## `s ( a )`, `s` a prefix operator -/

theorem reads_unaryCall {op : Op} {p : Payload} {a a' u : Term} {s c : String} {l : Nat}
    (hs : shapeOf op = some (.unaryCall s)) (hu : unaryOf s = some (c, l))
    (hok : applyUnary c a' = .ok u) (ga : Reads a a') : Reads (.node op [a] p) u := by
  have hl : l = 100 := unaryCall_lbp hs hu
  subst hl
  have htoks : hrTokens (.node op [a] p) = .op s :: lpar :: (hrTokens a ++ [rpar]) := by
    simp [hrTokens_node, nodeToks, hs]
  have hnt : tight (.node op [a] p) = false := by simp [tight, hs]
  intro rbp rest r n0 _ hafter hloop n hn
  have hrest : headLbp rest ≤ 100 := by
    rcases hafter with h | h
    · rw [hnt] at h; cases h
    · exact h
  have hc : cost (.node op [a] p) = cost a + 9 := by
    simp only [cost, htoks, List.length_cons, List.length_append, List.length_nil]; omega
  obtain ⟨j, rfl⟩ : ∃ j, n = j + 3 := ⟨n - 3, by omega⟩
  rw [htoks]
  simp only [List.cons_append, List.append_assoc, List.nil_append]
  rw [expr_succ, nud_unary _ _ _ hu]
  unfold nudUnary
  rw [expr_succ, nud_lpar]
  unfold nudPar
  rw [ga.stop 0 (rpar :: rest) (by omega) (by simp [headLbp_rpar]) (j + 1) (by omega)]
  simp only [expect_hit]
  rw [loop_stop j 100 _ _ hrest]
  simp only [hok]
  exact hloop (j + 2) (by omega)

/-! ## `( a s b s c … )` -/

theorem sepBy_cons_flatMap (sep : List Tok) : ∀ (xs : List (List Tok)) (x : List Tok),
    sepBy sep (x :: xs) = x ++ xs.flatMap (fun y => sep ++ y)
  | [], x => by simp [sepBy]
  | y :: ys, x => by
    have ih := sepBy_cons_flatMap sep ys y
    show x ++ sep ++ sepBy sep (y :: ys) = _
    rw [ih]
    simp [List.flatMap_cons]

def chainCost : List Term → Nat
  | [] => 1
  | x :: xs => cost x + 2 + chainCost xs

theorem chainCost_pos (as : List Term) : 1 ≤ chainCost as := by
  cases as <;> simp [chainCost]; omega

theorem chainCost_le (s : String) : ∀ (as : List Term),
    chainCost as ≤ 3 * ((as.map hrTokens).flatMap (fun y => Tok.op s :: y)).length + 1
  | [] => by simp [chainCost]
  | x :: xs => by
    have ih := chainCost_le s xs
    simp only [chainCost, cost, List.map_cons, List.flatMap_cons, List.length_append, List.length_cons] at ih ⊢
    omega

/-- the loop over `s a2 s a3 … )`, entered with the left operand `acc` -/
theorem chain_loop {s c : String} {l : Nat} (hi : infixOf s = some (c, l)) (f : Term → Term) (rest : List Tok) :
    ∀ (as : List Term) (acc u : Term), (∀ x ∈ as, Reads x (f x)) → applyChain c acc (as.map f) = .ok u →
      EvLoop 0 acc ((as.map hrTokens).flatMap (fun y => Tok.op s :: y) ++ rpar :: rest) (chainCost as) (u, rpar :: rest)
  | [], acc, u, _, hok => by
    simp only [List.map_nil, applyChain, Except.ok.injEq] at hok
    subst hok
    simpa [chainCost] using ev_loop_stop 0 acc (rpar :: rest) (by simp [headLbp_rpar])
  | x :: xs, acc, u, hf, hok => by
    obtain ⟨hl0, hl100, hlbp⟩ := infix_lbp hi
    simp only [List.map_cons, applyChain] at hok
    split at hok
    · cases hok
    · next t ht =>
      have ih := chain_loop hi f rest xs t u (fun y hy => hf y (List.mem_cons_of_mem _ hy)) hok
      intro n hn
      simp only [chainCost] at hn
      have := chainCost_pos xs
      obtain ⟨j, rfl⟩ : ∃ j, n = j + 1 := ⟨n - 1, by omega⟩
      simp only [List.map_cons, List.flatMap_cons, List.cons_append, List.append_assoc]
      rw [loop_step _ _ _ _ _ (by omega), led_infix _ _ hi]
      unfold ledInfix
      have hstop : headLbp ((xs.map hrTokens).flatMap (fun y => Tok.op s :: y) ++ rpar :: rest) ≤ l := by
        cases xs with
        | nil => simp [headLbp_rpar]
        | cons y ys => simp [headLbp, hlbp]
      rw [(hf x (by simp)).stop l _ hl100 hstop j (by omega)]
      simp only [ht]
      exact ih j (by omega)

/-- an infix application of one or more arguments: the constructor applied from the left to the readings -/
theorem reads_nary {op : Op} {p : Payload} {a : Term} {as : List Term} {u : Term} {s c : String} {l : Nat}
    (f : Term → Term) (hs : shapeOf op = some (.naryInfix s)) (hi : infixOf s = some (c, l))
    (hf : ∀ x ∈ a :: as, Reads x (f x)) (hok : applyChain c (f a) (as.map f) = .ok u) :
    Reads (.node op (a :: as) p) u := by
  obtain ⟨hl0, hl100, hlbp⟩ := infix_lbp hi
  have htoks : hrTokens (.node op (a :: as) p)
      = lpar :: ((hrTokens a ++ (as.map hrTokens).flatMap (fun y => Tok.op s :: y)) ++ [rpar]) := by
    simp [hrTokens_node, nodeToks, hs, sepBy_cons_flatMap]
  have hcl := chainCost_le s as
  refine reads_paren htoks (chainCost as + cost a) ?_ ?_
  · intro rest
    simp only [List.append_assoc]
    apply hf a (by simp) 0 _ _ _ (by omega) (okAfter_of_lbp ?_) (chain_loop hi f rest as (f a) u
      (fun y hy => hf y (List.mem_cons_of_mem _ hy)) hok)
    cases as with
    | nil => simp [headLbp_rpar]
    | cons y ys => simp [headLbp, hlbp]; omega
  · simp only [cost, htoks, List.length_cons, List.length_append, List.length_nil] at hcl ⊢; omega

end PySMT.HR.RT
