import PySMT.Proofs.C09Frag4
import PySMT.Proofs.C07DagSound
/-!
# C09: what the DAG printer writes lies in the fragment `FragS` of the agreement theorem (C08)

`fragS_toSexpDag`: for a quantifier-free `Printable`, `parseOK` term, `toSexpDag t` — a chain of single-binding `let`s of
generated names `.def_k` around the memoized key — lies in `FragS`, provided no declared sort or sort abbreviation is
spelled like a generated name (`defFree`; the parser keeps sorts and bound names in one cache).

The proof is an invariant of the work-stack machine (`FragInv`): every memoized result and every right-hand side written
so far lies in the fragment, every binding binds a generated name, and every formula on the stack is `DagOK` and `parseOK`.
-/
namespace PySMT.Parser.Agree
open PySMT PySMT.Parser PySMT.Std PySMT.Sexp PySMT.Printer

/-- no declared sort or sort abbreviation is spelled like a name the DAG printer generates -/
def defFree (env : SEnv) : Prop :=
  ∀ k, env.lookupSort (Printer.defName k) = none ∧ env.lookupAlias (Printer.defName k) = none

/-! ## the generated names can be bound -/

theorem pnameOK_defName (k : Nat) : pnameOK (defName k) = true := by
  have hlen : ∀ s : String, s.toList.length = 1 → defName k ≠ s := by
    intro s hs he
    have := congrArg (fun x => x.toList.length) he
    simp only [defName_toList, hs] at this
    simp at this
  refine pnameOK_of_base ?_ (hlen "(" (by decide)) (hlen ")" (by decide))
  unfold pnameOK0
  rw [defName_toList]
  show (!isDigit '.' && '.' != '#') = true
  decide

theorem letNameOK_defName {env : SEnv} (hdf : defFree env) (k : Nat) : letNameOK env (defName k) = true := by
  unfold letNameOK
  rw [defName_symName]
  show bindNameOK env (defName k) = true
  unfold bindNameOK
  rw [pnameOK_defName, (hdf k).1, (hdf k).2]
  rfl

/-! ## one `let` with one binding; the chain -/

theorem FragS_let1 (env : SEnv) (ρ : List (String × Sym)) (x : String) (e body : Sexp)
    (hx : letNameOK env x = true) (he : FragS env ρ e = true) (hb : FragS env ρ body = true) :
    FragS env ρ (.list [.atom "let", .list [.list [.atom x, e]], body]) = true := by
  rw [FragS]
  simp only [beq_self_eq_true, if_true]
  rw [fragLet, fragLetB, fragBody, fragBinds, fragBinds, fragBind, hx, he, hb]
  rfl

theorem FragS_letWrap (env : SEnv) (ρ : List (String × Sym)) (hdf : defFree env) :
    ∀ (binds : List (Sexp × Sexp)) (key : Sexp),
      (∀ b ∈ binds, (∃ k, b.1 = .atom (defName k)) ∧ FragS env ρ b.2 = true) → FragS env ρ key = true →
      FragS env ρ (letWrap binds key) = true
  | [], key, _, hk => hk
  | b :: binds, key, hb, hk => by
    unfold letWrap
    rw [List.foldl_cons]
    obtain ⟨⟨k, hbk⟩, hbe⟩ := hb b (by simp)
    apply FragS_letWrap env ρ hdf binds _ (fun b' hb' => hb b' (List.mem_cons_of_mem _ hb'))
    rw [hbk]
    exact FragS_let1 env ρ _ _ _ (letNameOK_defName hdf k) hbe hk

/-! ## the invariant of the work-stack machine -/

theorem FragS_memoGet (env : SEnv) (ρ : List (String × Sym)) (memo : List (Term × Sexp))
    (h : ∀ e ∈ memo, FragS env ρ e.2 = true) (a : Term) : FragS env ρ (memoGet memo a) = true := by
  unfold memoGet
  cases hl : memo.lookup a with
  | none => exact FragS_atom env ρ _
  | some s =>
    have hm : (a, s) ∈ memo := by
      clear h
      induction memo with
      | nil => simp at hl
      | cons x memo ih =>
        obtain ⟨xa, xs⟩ := x
        rw [List.lookup_cons] at hl
        by_cases hax : (a == xa) = true
        · rw [hax] at hl
          have : a = xa := by simpa using hax
          simp only [Option.some.injEq] at hl
          subst hl; subst this
          exact List.mem_cons_self
        · have hax' : (a == xa) = false := by simpa using hax
          rw [hax'] at hl
          exact List.mem_cons_of_mem _ (ih hl)
    exact h _ hm

/-- every memoized result and every right-hand side lies in the fragment; every binding binds a generated name; every
formula on the stack satisfies the hypotheses -/
def FragInv (env : SEnv) (ρ : List (String × Sym)) (names : List String) (st : DSt) : Prop :=
  (∀ e ∈ st.memo, FragS env ρ e.2 = true) ∧
  (∀ b ∈ st.binds, (∃ k, b.1 = .atom (defName k)) ∧ FragS env ρ b.2 = true) ∧
  (∀ e ∈ st.stack, DagOK names env e.2 = true ∧ parseOK env ρ e.2 = true)

section
variable (sp : Spell) (hsp : SpellStd sp) (env : SEnv) (ρ : List (String × Sym)) (names : List String)

theorem bindNew_frag (st : DSt) (rest : List (Bool × Term)) (t : Term) (e : Sexp)
    (hm : ∀ x ∈ st.memo, FragS env ρ x.2 = true)
    (hb : ∀ b ∈ st.binds, (∃ k, b.1 = .atom (defName k)) ∧ FragS env ρ b.2 = true)
    (hs : ∀ x ∈ rest, DagOK names env x.2 = true ∧ parseOK env ρ x.2 = true)
    (he : FragS env ρ e = true) : FragInv env ρ names (bindNew names st rest t e) := by
  refine ⟨?_, ?_, ?_⟩
  · intro x hx
    simp only [bindNew, List.mem_cons] at hx
    rcases hx with rfl | hx
    · exact FragS_atom env ρ _
    · exact hm x hx
  · intro b hb'
    simp only [bindNew, List.mem_cons] at hb'
    rcases hb' with rfl | hb'
    · exact ⟨⟨_, rfl⟩, he⟩
    · exact hb b hb'
  · intro x hx
    exact hs x hx

include hsp in
theorem dagStep_frag (sub : Term → Sexp) (st : DSt) (h : FragInv env ρ names st) :
    FragInv env ρ names (dagStep sp names sub st) := by
  obtain ⟨hm, hb, hs⟩ := h
  unfold dagStep
  split
  · exact ⟨hm, hb, hs⟩
  · next expanded op args p rest hst =>
    have hrest : ∀ x ∈ rest, DagOK names env x.2 = true ∧ parseOK env ρ x.2 = true := by
      intro x hx; exact hs x (by rw [hst]; exact List.mem_cons_of_mem _ hx)
    obtain ⟨hD, hQ⟩ := hs (expanded, .node op args p) (by rw [hst]; exact List.mem_cons_self)
    obtain ⟨hq, ⟨τ, hS, _⟩, hok, _, hDargs⟩ := dagOK_node hD
    obtain ⟨hQargs, hpo⟩ := parseOK_inv env ρ op args p hQ
    have h1 : op ≠ .forall_ := by intro e; rw [e] at hq; cases hq
    have h2 : op ≠ .exists_ := by intro e; rw [e] at hq; cases hq
    have hnode : FragS env ρ (nodeSexp sp false op p args (args.map (memoGet st.memo))) = true :=
      fragS_node sp hsp env ρ false (memoGet st.memo) [] op args p τ h1 h2
        (fun a _ => FragS_memoGet env ρ st.memo hm a) hS hok hpo
    dsimp only
    split
    · split
      · exact ⟨hm, hb, hrest⟩
      · split
        · exact bindNew_frag env ρ names st rest _ _ hm hb hrest hnode
        · refine ⟨?_, hb, hrest⟩
          intro x hx
          simp only [List.mem_cons] at hx
          rcases hx with rfl | hx
          · exact hnode
          · exact hm x hx
    · split
      · next hq' => rw [hq] at hq'; cases hq'
      · refine ⟨hm, hb, ?_⟩
        intro x hx
        simp only [List.mem_append, List.mem_map, List.mem_reverse, List.mem_filter, List.mem_cons] at hx
        rcases hx with ⟨a, ⟨ha, _⟩, rfl⟩ | rfl | hx
        · exact ⟨hDargs a ha, hQargs a ha⟩
        · exact ⟨hD, hQ⟩
        · exact hrest x hx

include hsp in
theorem dagLoop_frag (sub : Term → Sexp) : ∀ (fuel : Nat) (st : DSt),
    FragInv env ρ names st → FragInv env ρ names (dagLoop sp names sub fuel st)
  | 0, _, h => h
  | fuel + 1, st, h => by
    unfold dagLoop
    split
    · exact h
    · exact dagLoop_frag sub fuel _ (dagStep_frag sp hsp env ρ names sub st h)

include hsp in
theorem fragS_dagPrint (hdf : defFree env) (fuel : Nat) (t : Term) (hD : DagOK (dagNames t) env t = true)
    (hQ : parseOK env ρ t = true) : FragS env ρ (dagPrint sp fuel t) = true := by
  cases fuel with
  | zero => exact FragS_atom env ρ _
  | succ fuel =>
    simp only [dagPrint]
    have h0 : FragInv env ρ (dagNames t) { stack := [(false, t)], memo := [], seed := 0, binds := [] } := by
      refine ⟨fun _ h => (by cases h), fun _ h => (by cases h), ?_⟩
      intro e he
      simp only [List.mem_singleton] at he
      subst he
      exact ⟨hD, hQ⟩
    obtain ⟨hm, hb, _⟩ := dagLoop_frag sp hsp env ρ (dagNames t) (dagPrint sp fuel) fuel _ h0
    exact FragS_letWrap env ρ hdf _ _ hb (FragS_memoGet env ρ _ hm t)

end

/-- **What the DAG printer writes lies in the fragment**: `to_smtlib(f, daggify=True)` of a quantifier-free `Printable`,
`parseOK` formula is a text on which the two readers agree (C08), provided no declared sort or sort abbreviation is spelled
like a generated name `.def_k`. -/
theorem fragS_toSexpDag (env : SEnv) (ρ : List (String × Sym)) (hdf : defFree env) (t : Term)
    (hP : Printer.Printable env [] t = true) (hq : Printer.noQuant t = true) (hQ : parseOK env ρ t = true) :
    FragS env ρ (Printer.toSexpDag t) = true :=
  fragS_dagPrint dagSpell dagSpell_std env ρ hdf (dagFuel t) t (dagOK_of_printable' env t hP hq) hQ

end PySMT.Parser.Agree
