import PySMT.Proofs.C08AgreeTop2
import PySMT.Proofs.C08WT5
/-!
# C08 — the capture of a free variable by `let` expansion (finding F17b), made explicit

pySMT's parser expands `let` by binding the name to the term already read. When the body uses the name under a
quantifier that binds a variable occurring free in that term, the variable is captured. The standard reader of the
specification (`Std.rd`, `lookupScope`) answers an error in exactly that situation, so the soundness theorem
`readTerm_accept_sound_partial` (hypothesis `Std.readStd env [] s = .ok u`) is silent on such texts. This file says so
openly:

* `capture_witness`: the text `(let ((y x)) (exists ((x Int)) (> x y)))` with declared `x : Int` is in the fragment
  `FragS`, satisfies `RotOK`, the parser MODEL accepts it and returns `exists x. x < x`, and the standard reader answers
  the capture error (`std_capS`: the exact message).
* `capture_witness_hyps`: the other hypotheses of `readTerm_accept_sound_partial` (`Corr`, `MgrLe`) hold as well.
* `captured_false`, `intended_true`, `capture_changes_meaning`, `capture_unsound`: the returned term is false under every interpretation,
  the standard's meaning of the text (`exists x'. x < x'`, bound variable renamed) is true whenever `x ↦ 0` and `1` is in the
  domain of `Int`: the parser misreads the text.
* `NoCapture env sc s` (decidable): the scope discipline of the standard reader, false exactly when an occurrence of a
  let-bound name that the standard reader would look up lies under binders one of which is free in the bound term.
  `noCapture_capS`: the witness is excluded; `noCapture_sEx1`, `noCapture_sEx2`: the two example texts of Props/C08 satisfy it.
* `lookupScope_error_iff`: the standard reader's scope lookup fails iff the innermost binding of the name is a `let`
  whose term has a free variable among the binders crossed; `atomNoCap_false`, `noCapture_atom_partial`: the link
  between `NoCapture` and the reader for one atom. The full statement (`NoCaptureExcludes`) is not proved.
-/
namespace PySMT.Parser.Capture
open PySMT PySMT.Parser PySMT.Gen.ParserOps PySMT.Std

def capEnv : Std.SEnv := { logic := "LIA", funs := [Sym.var "x" .int] }
def capρ : List (String × Sym) := [("x", Sym.var "x" .int)]
def capS : Sexp := .list [.atom "let", .list [.list [.atom "y", .atom "x"]],
  .list [.atom "exists", .list [.list [.atom "x", .atom "Int"]], .list [.atom ">", .atom "x", .atom "y"]]]

def xS : Sym := Sym.var "x" .int
def xT : Term := Term.sym xS
def capT : Term := Term.mkExists [xS] (.node .lt [xT, xT] .none)

theorem typeOf_xT : xT.typeOf = some .int := Agree.typeOf_sym xS rfl

theorem typeOf_lt : (Term.node .lt [xT, xT] .none).typeOf = some .bool := by
  rw [Agree.typeOf_node]; simp only [List.map_cons, List.map_nil, typeOf_xT]; rfl

def Γ0 : PEnv := Agree.penvOf capEnv
def Γ1 : PEnv := { Γ0 with binds := ("y", .term xT) :: Γ0.binds }
def σ2 : MgrSt := { symbols := [("x", xS)] }
def Γ2 : PEnv := { Γ1 with binds := ("x", .term xT) :: Γ1.binds, mgr := σ2 }

/-- **the parser model reads the text as `exists x. x < x`** (the declared `x` is captured) -/
theorem read_capS : readTerm (Agree.penvOf capEnv) capS = .ok capT := by
  have pl : pyTok "let" = "let" := by decide
  have pe : pyTok "exists" = "exists" := by decide
  have pg : pyTok ">" = ">" := by decide
  have px : pyTok "x" = "x" := by decide
  have py : pyTok "y" = "y" := by decide
  have pI : pyTok "Int" = "Int" := by decide
  have tl : tableLookup "let" = some (.handler "_enter_let") := by decide
  have te : tableLookup "exists" = some (.handler "_enter_quantifier") := by decide
  have tg : tableLookup ">" = some (.fixReal "GT") := by decide
  -- atoms
  have a0 : rdVal Γ0 false (.atom "x") = .ok (.term xT, Γ0.mgr) := by
    have : lookup "x" Γ0.binds = some (.term xT) := rfl
    rw [rdVal]; simp only [atomVal, px, this, Except.map]
  have ly : lookup "y" Γ0.binds = none := by decide
  have b1 : rdLetBinds Γ0 [] [] [.list [.atom "y", .atom "x"]] = .ok Γ1 := by
    rw [rdLetBinds]
    simp only [py, List.contains_nil, Bool.false_eq_true, if_false, a0, ly, rdLetBinds_nil]
    rfl
  have a2x : rdVal Γ2 false (.atom "x") = .ok (.term xT, σ2) := by
    have : lookup "x" Γ2.binds = some (.term xT) := rfl
    rw [rdVal]; simp only [atomVal, px, this, Except.map]; rfl
  have a2y : rdVal Γ2 false (.atom "y") = .ok (.term xT, σ2) := by
    have : lookup "y" Γ2.binds = some (.term xT) := rfl
    rw [rdVal]; simp only [atomVal, py, this, Except.map]; rfl
  have cGT : callMgr "GT" [xT, xT] = .ok (.node .lt [xT, xT] .none) := by
    have : Mk.call "GT" [.t xT, .t xT] = Mk.create .lt [xT, xT] := rfl
    have hm : mgrArity "GT" = some 2 := by decide
    simp only [callMgr, hm, List.map_cons, List.map_nil, this, Mk.create, typeOf_xT]
    rfl
  have eΓ2 : ({ binds := Γ2.binds, intArith := Γ2.intArith, mgr := σ2 } : PEnv) = Γ2 := rfl
  have e3 : rdVal Γ2 false (.list [.atom ">", .atom "x", .atom "y"]) =
      .ok (.term (.node .lt [xT, xT] .none), σ2) := by
    rw [rdVal]
    simp only [pg, tg, fnOfEntry, rdArgs, a2x, eΓ2, a2y, applyFn, termsOf, Option.map, fixReal, cGT, Except.map]
  have q1 : rdQuantBinds Γ1 [] [.list [.atom "x", .atom "Int"]] = .ok (Γ2, [xS]) := by
    have rt : readTy Γ1.binds [] (.atom "Int") = .ok .int := by
      rw [readTy]; simp (config := {decide := true}) only [pI, if_true, if_false]
    have qv : quantVar Γ1.mgr "x" .int = .ok (xS, σ2) := by
      have hne : ("x" : String).isEmpty = false := by decide
      have hm : Γ1.mgr = {} := rfl
      simp only [quantVar, mkSymbol, hm, Sym.var, hne, List.find?_nil, Bool.false_eq_true, if_false]
      rfl
    rw [rdQuantBinds]
    simp only [px, rt, qv, rdQuantBinds_nil]
    rfl
  have tEx : (Term.node .exists_ [.node .lt [xT, xT] .none] (.qvars [xS])).typeOf = some .bool := by
    rw [Agree.typeOf_node]; simp only [List.map_cons, List.map_nil, typeOf_lt]; rfl
  have cEx : Mk.Exists [xS] (.node .lt [xT, xT] .none) = .ok capT := by
    simp only [Mk.Exists, List.isEmpty_cons, Bool.false_eq_true, if_false, Mk.create, List.map_cons, List.map_nil,
      typeOf_lt]
    rfl
  have e2 : rdVal Γ1 false (.list [.atom "exists", .list [.list [.atom "x", .atom "Int"]],
      .list [.atom ">", .atom "x", .atom "y"]]) = .ok (.term capT, σ2) := by
    rw [rdVal]
    simp (config := {decide := true}) only [pe, te, if_true, if_false, rdQuantForm, q1, e3, cEx, liftMk, Except.map]
  show readTerm Γ0 capS = .ok capT
  unfold readTerm capS
  rw [rdVal]
  simp (config := {decide := true}) only [pl, tl, if_true, if_false, rdLetForm, b1, e2]

/-! ## the text is inside the fragment of the agreement theorems -/

theorem frag_capS : Agree.FragS capEnv capρ capS = true := by
  simp only [capS, Agree.FragS, Agree.FragL, Agree.fragOps, Agree.arityOK, Agree.binaryOnly, Agree.minusOK,
    Agree.fragQuant, Agree.fragLet, Agree.fragLetB, Agree.fragBody, Agree.fragBinds, Agree.fragBind, Agree.fragVars,
    Agree.letNameOK, Agree.fragHead, Agree.FragSort]
  decide

theorem rot_capS : Agree.RotOK capEnv [] capS = true := by
  simp only [capS, Agree.RotOK, Agree.RotOKL, Agree.rotQuant, Agree.rotLet, Agree.rotBinds, Agree.rotBind,
    Agree.rotHeadOK]
  decide +kernel

/-! ## the standard reader answers the capture error -/

/-- the capture error of `Std.lookupScope` for the name `n` -/
def captureMsg (n : String) : String := "unsupported: let-bound term would be captured by a binder: " ++ n

def capMsg : String := captureMsg "y"
theorem capMsg_eq : capMsg = "unsupported: let-bound term would be captured by a binder: y" := by decide
theorem fv_xT : xT.fv = [xS] := by unfold xT Term.sym; rw [Term.fv]
theorem rdBindings_cap : rdBindings capEnv [] [.list [.atom "y", .atom "x"]] = .ok [.letb "y" xT .int] := by rfl
theorem rdSortedVars_cap : rdSortedVars capEnv [.list [.atom "x", .atom "Int"]] = .ok [xS] := by rfl
theorem lookupScope_cap : lookupScope "y" [.var xS, .letb "y" xT .int] [] = some (.error capMsg) := by
  have e1 : (xS.name == "y") = false := by decide
  simp only [lookupScope, e1, Bool.false_eq_true, if_false, beq_self_eq_true, if_true, fv_xT, List.any_cons, List.any_nil,
    List.contains_cons, List.contains_nil, Bool.or_false]
  rfl
theorem rd_x_cap : rd capEnv [.var xS, .letb "y" xT .int] (.atom "x") = .ok (xT, .int) := by rfl
theorem rd_y_cap : rd capEnv [.var xS, .letb "y" xT .int] (.atom "y") = .error capMsg := by
  have n1 : Sexp.numeral? "y" = none := by decide
  have n2 : Sexp.decimal? "y" = none := by decide
  have n3 : Sexp.binary? "y" = none := by decide
  have n4 : Sexp.hex? "y" = none := by decide
  have n5 : Sexp.symName? "y" = some "y" := by decide
  rw [rd]; simp only [atomTerm, n1, n2, n3, n4, n5, lookupScope_cap]
theorem rd_gt_cap : rd capEnv [.var xS, .letb "y" xT .int] (.list [.atom ">", .atom "x", .atom "y"]) = .error capMsg := by
  have n5 : Sexp.symName? ">" = some ">" := by decide
  rw [rd]
  simp (config := {decide := true}) only [if_false, n5, rdList, rd_x_cap, rd_y_cap]
theorem rd_exists_cap : rd capEnv [.letb "y" xT .int] (.list [.atom "exists", .list [.list [.atom "x", .atom "Int"]],
    .list [.atom ">", .atom "x", .atom "y"]]) = .error capMsg := by
  have sc : ([xS].reverse.map Binding.var ++ [Binding.letb "y" xT .int]) = [.var xS, .letb "y" xT .int] := rfl
  rw [rd]
  simp (config := {decide := true}) only [if_true, if_false, rdQuant, rdSortedVars_cap, sc, rd_gt_cap]
/-- **the standard reader refuses the text**, with the capture error for `y` -/
theorem std_capS : Std.readStd capEnv [] capS = .error capMsg := by
  unfold readStd readStdTy capS
  show Except.map _ (rd capEnv [] _) = _
  rw [rd]
  simp (config := {decide := true}) only [if_true, rdLet, rdBindings_cap, if_false, List.append_nil, rd_exists_cap]
  rfl

theorem envOK_cap : Agree.envOK capEnv = true := by decide

/-! semantics -/
/-! ## the meaning is changed -/

theorem lt_irrefl (v : PySMT.Val) : Sem.lt v v = false := by
  cases v <;> simp [Sem.lt]

theorem eval_xT (I : Interp) : eval I xT = I.sym xS := by
  unfold xT Term.sym; rw [eval_node]; rfl

theorem eval_lt (I : Interp) (a b : Term) : eval I (.node .lt [a, b] .none) = .b (Sem.lt (eval I a) (eval I b)) := by
  rw [eval_node]; rfl

/-- the term the parser returns is false under every interpretation -/
theorem captured_false (I : Interp) : eval I capT = .b false := by
  unfold capT Term.mkExists
  rw [eval_node]
  simp only [List.map_cons, List.map_nil, evalNode, Interp.quant, Bool.false_eq_true, if_false, eval_lt, lt_irrefl,
    PySMT.Val.isTrue]
  congr 1
  simp

def xS' : Sym := Sym.var "x!1" .int
/-- `exists x!1. x < x!1`: the standard's meaning of the text after renaming the bound variable -/
def intendedT : Term := Term.mkExists [xS'] (.node .lt [xT, Term.sym xS'] .none)

/-- the meaning of the text is true as soon as `x ↦ 0` and `1` is an integer of the domain -/
theorem intended_true (I : Interp) (h0 : I.sym xS = .i 0) (rdBindings_cap : PySMT.Val.i 1 ∈ I.dom .int) : eval I intendedT = .b true := by
  unfold intendedT Term.mkExists
  rw [eval_node]
  simp only [List.map_cons, List.map_nil, evalNode, Interp.quant, Bool.false_eq_true, if_false, eval_lt]
  congr 1
  rw [List.any_eq_true]
  refine ⟨.i 1, rdBindings_cap, ?_⟩
  have e1 : eval (I.bind xS' (.i 1)) xT = .i 0 := by
    rw [eval_xT]; simp only [Interp.bind]
    rw [if_neg (by decide), h0]
  have e2 : eval (I.bind xS' (.i 1)) (Term.sym xS') = .i 1 := by
    unfold Term.sym; rw [eval_node]; simp [evalNode, Interp.bind]
  rw [e1, e2]; rfl


/-- a concrete well-formed interpretation: every symbol has the default value of its sort (`x ↦ 0`), the integers of the
domain are `0, 1` -/
def capI : Interp :=
  { sym := fun s => s.ret.defaultVal, fn := fun f _ => f.ret.defaultVal,
    dom := fun t => if t = .int then [.i 0, .i 1] else [t.defaultVal],
    div0r := fun _ => 0, div0i := fun _ => 0 }

theorem defaultVal_hasSort : ∀ t : Ty, t.defaultVal.hasSort t = true := by
  intro t
  induction t with
  | bool | int | real | str => rfl
  | bv w => simp [Ty.defaultVal, PySMT.Val.hasSort, Nat.two_pow_pos]
  | array i e _ ihe => simp [Ty.defaultVal, PySMT.Val.hasSort, ihe]
  | custom n => simp [Ty.defaultVal, PySMT.Val.hasSort]

theorem capI_wf : capI.WF := by
  refine ⟨fun s => defaultVal_hasSort _, fun f _ => defaultVal_hasSort _, fun t => ?_, fun t v hv => ?_⟩
  · simp only [capI]; split <;> simp
  · simp only [capI] at hv
    split at hv
    · next h => subst h; simp only [List.mem_cons, List.not_mem_nil, or_false] at hv; rcases hv with rfl | rfl <;> rfl
    · simp only [List.mem_cons, List.not_mem_nil, or_false] at hv; subst hv; exact defaultVal_hasSort t

/-- **the capture changes the meaning**: under a well-formed interpretation the term the parser returns is false and
the meaning of the text is true -/
theorem capture_changes_meaning :
    capI.WF ∧ eval capI capT = .b false ∧ eval capI intendedT = .b true :=
  ⟨capI_wf, captured_false capI, intended_true capI rfl (by simp [capI])⟩

/-- **Witness (F17b).** The text `(let ((y x)) (exists ((x Int)) (> x y)))` with declared `x : Int`: inside the fragment,
`RotOK`, the environments correspond, the parser model accepts it and returns `exists x. x < x`; the standard reader
answers the capture error. So the hypothesis `Std.readStd env [] s = .ok u` of the soundness theorems is what excludes
the capture. -/
theorem capture_witness :
    Agree.envOK capEnv = true ∧ Agree.FragS capEnv capρ capS = true ∧ Agree.RotOK capEnv [] capS = true ∧
    readTerm (Agree.penvOf capEnv) capS =
      .ok (Term.mkExists [Sym.var "x" .int] (.node .lt [Term.var "x" .int, Term.var "x" .int] .none)) ∧
    Std.readStd capEnv [] capS = .error (captureMsg "y") ∧ (Std.readStd capEnv [] capS).toBool = false :=
  ⟨envOK_cap, frag_capS, rot_capS, read_capS, std_capS, by rw [std_capS]; rfl⟩

/-- the remaining hypotheses of `readTerm_accept_sound_partial` hold for the witness too: only `hstd` fails -/
theorem capture_witness_hyps :
    Agree.Corr capEnv [] (Agree.penvOf capEnv) ∧ Agree.MgrLe (Agree.penvOf capEnv).mgr capρ :=
  ⟨Agree.corr_penvOf capEnv envOK_cap, Agree.mgrLe_penvOf capEnv capρ⟩

/-- the term returned and the meaning of the text differ under a well-formed interpretation: without `hstd` the
conclusion of the soundness theorem is false for this text -/
theorem capture_unsound : ¬ ∀ I : Interp, I.WF → eval I capT = eval I intendedT := by
  intro h
  have := h capI capI_wf
  rw [captured_false, intended_true capI rfl (by simp [capI])] at this
  cases this

/-! ## the side condition `NoCapture` -/

/-- the atom `tok`, read in the scope `sc`, is not a let-bound name whose term would be captured (same case analysis as
`Std.atomTerm`) -/
def atomNoCap (sc : List Binding) (tok : String) : Bool :=
  match Sexp.numeral? tok with
  | some _ => true
  | none =>
  match Sexp.decimal? tok with
  | some _ => true
  | none =>
  match Sexp.binary? tok with
  | some _ => true
  | none =>
  match Sexp.hex? tok with
  | some _ => true
  | none =>
  match Sexp.symName? tok with
  | none => true
  | some n =>
    match lookupScope n sc [] with
    | some (.error _) => false
    | _ => true

mutual
/-- no occurrence of a let-bound name, read by the standard reader in the scope `sc`, lies under a binder of a variable
that is free in the bound term. The scopes are threaded exactly as `Std.rd` does (and as `Agree.RotOK` does). -/
def NoCapture (env : SEnv) : List Binding → Sexp → Bool
  | sc, .atom tok => atomNoCap sc tok
  | _, .str _ => true
  | _, .list [] => true
  | sc, .list (.atom hd :: args) =>
    if hd == "let" then ncLet env sc args
    else if hd == "forall" || hd == "exists" then ncQuant env sc args
    else if hd == "!" || hd == "as" then ncFirst env sc args
    else if hd == "_" then true
    else NoCaptureL env sc args
  | sc, .list (.list _ :: args) => NoCaptureL env sc args
  | _, .list (.str _ :: _) => true
def NoCaptureL (env : SEnv) : List Binding → List Sexp → Bool
  | _, [] => true
  | sc, s :: r => NoCapture env sc s && NoCaptureL env sc r
/-- `(! t …)`, `(as t σ)`: only the first argument is a term -/
def ncFirst (env : SEnv) : List Binding → List Sexp → Bool
  | sc, t :: _ => NoCapture env sc t
  | _, [] => true
def ncLet (env : SEnv) : List Binding → List Sexp → Bool
  | sc, [.list bs, body] =>
    ncBinds env sc bs &&
      (match rdBindings env sc bs with
       | .ok new => NoCapture env (new ++ sc) body
       | .error _ => true)
  | _, _ => true
def ncBinds (env : SEnv) : List Binding → List Sexp → Bool
  | _, [] => true
  | sc, b :: rest => ncBind env sc b && ncBinds env sc rest
def ncBind (env : SEnv) : List Binding → Sexp → Bool
  | sc, .list [.atom _, e] => NoCapture env sc e
  | _, _ => true
def ncQuant (env : SEnv) : List Binding → List Sexp → Bool
  | sc, [.list vs, body] =>
    (match rdSortedVars env vs with
     | .ok syms => NoCapture env (syms.reverse.map Binding.var ++ sc) body
     | .error _ => true)
  | _, _ => true
end

/-- the witness is excluded -/
theorem noCapture_capS : NoCapture capEnv [] capS = false := by
  have n1 : Sexp.numeral? "y" = none := by decide
  have n2 : Sexp.decimal? "y" = none := by decide
  have n3 : Sexp.binary? "y" = none := by decide
  have n4 : Sexp.hex? "y" = none := by decide
  have n5 : Sexp.symName? "y" = some "y" := by decide
  have sc : ([xS].reverse.map Binding.var ++ ([Binding.letb "y" xT .int] ++ [])) = [.var xS, .letb "y" xT .int] := rfl
  have hy : atomNoCap [.var xS, .letb "y" xT .int] "y" = false := by
    simp only [atomNoCap, n1, n2, n3, n4, n5, lookupScope_cap]
  simp (config := { decide := true }) only [capS, NoCapture, NoCaptureL, ncLet, ncBinds, ncBind, ncQuant, rdBindings_cap,
    rdSortedVars_cap, sc, hy, if_true, if_false, Bool.and_false, Bool.and_true, Bool.true_and]

/-! the two example texts of Props/C08 (copied) -/
def envEx : Std.SEnv := { logic := "QF_LIA", funs := [Sym.var "x" .int, Sym.var "p" .bool, ⟨"f", [.int], .int⟩] }
/-- `(and p (<= (f x) (- 5)))` -/
def sEx1 : Sexp :=
  .list [.atom "and", .atom "p", .list [.atom "<=", .list [.atom "f", .atom "x"], .list [.atom "-", .atom "5"]]]
/-- `(forall ((y Int)) (let ((z (+ y 1))) (=> (> z 0) (= ((_ extract 3 0) #xAB) #b1011))))` -/
def sEx2 : Sexp :=
  .list [.atom "forall", .list [.list [.atom "y", .atom "Int"]],
    .list [.atom "let", .list [.list [.atom "z", .list [.atom "+", .atom "y", .atom "1"]]],
      .list [.atom "=>", .list [.atom ">", .atom "z", .atom "0"],
        .list [.atom "=", .list [.list [.atom "_", .atom "extract", .atom "3", .atom "0"], .atom "#xAB"], .atom "#b1011"]]]]

theorem noCapture_sEx1 : NoCapture envEx [] sEx1 = true := by
  simp only [sEx1, NoCapture, NoCaptureL, ncLet, ncBinds, ncBind, ncQuant, ncFirst, atomNoCap]
  decide +kernel

theorem noCapture_sEx2 : NoCapture envEx [] sEx2 = true := by
  simp only [sEx2, NoCapture, NoCaptureL, ncLet, ncBinds, ncBind, ncQuant, ncFirst, atomNoCap]
  decide +kernel

/-! ## the link between `NoCapture` and the standard reader -/

/-- **when the scope lookup of the standard reader fails**: the innermost binding of `n` is a `let` binding whose term
has a free variable among the binder variables crossed on the way (those given, or those of the scope before it) -/
theorem lookupScope_error {n : String} {e : String} : ∀ {sc : List Binding} {crossed : List Sym},
    lookupScope n sc crossed = some (.error e) →
    ∃ pre t ty post, sc = pre ++ .letb n t ty :: post ∧ (∀ b ∈ pre, bindingName b ≠ n) ∧
      (∃ x, (x ∈ crossed ∨ Binding.var x ∈ pre) ∧ x ∈ t.fv) ∧ e = captureMsg n
  | [], _, h => by simp [lookupScope] at h
  | .var s :: rest, crossed, h => by
    rw [lookupScope] at h
    by_cases hs : (s.name == n) = true
    · rw [if_pos hs] at h; cases h
    · rw [if_neg hs] at h
      obtain ⟨pre, t, ty, post, hsc, hpre, ⟨x, hx, hfv⟩, he⟩ := lookupScope_error h
      refine ⟨.var s :: pre, t, ty, post, by rw [hsc]; rfl, ?_, ⟨x, ?_, hfv⟩, he⟩
      · intro b hb
        rcases List.mem_cons.1 hb with rfl | hb
        · intro hn; exact hs (by simp [bindingName] at hn; simp [hn])
        · exact hpre b hb
      · rcases hx with hx | hx
        · rcases List.mem_cons.1 hx with rfl | hx
          · exact .inr (List.mem_cons_self ..)
          · exact .inl hx
        · exact .inr (List.mem_cons_of_mem _ hx)
  | .letb m t ty :: rest, crossed, h => by
    rw [lookupScope] at h
    by_cases hm : (m == n) = true
    · rw [if_pos hm] at h
      have hmn : m = n := by simpa using hm
      subst hmn
      by_cases hc : (crossed.any (fun x => t.fv.contains x)) = true
      · rw [if_pos hc] at h
        obtain ⟨x, hx, hfv⟩ := List.any_eq_true.1 hc
        refine ⟨[], t, ty, rest, rfl, by simp, ⟨x, .inl hx, by simpa using hfv⟩, ?_⟩
        simp only [Option.some.injEq, Except.error.injEq] at h
        exact h.symm
      · rw [if_neg hc] at h; cases h
    · rw [if_neg hm] at h
      obtain ⟨pre, t', ty', post, hsc, hpre, ⟨x, hx, hfv⟩, he⟩ := lookupScope_error h
      refine ⟨.letb m t ty :: pre, t', ty', post, by rw [hsc]; rfl, ?_, ⟨x, ?_, hfv⟩, he⟩
      · intro b hb
        rcases List.mem_cons.1 hb with rfl | hb
        · intro hn; exact hm (by simp [bindingName] at hn; simp [hn])
        · exact hpre b hb
      · rcases hx with hx | hx
        · exact .inl hx
        · exact .inr (List.mem_cons_of_mem _ hx)

/-- … and conversely -/
theorem lookupScope_error_of {n : String} (t : Term) (ty : Ty) (post : List Binding) :
    ∀ (pre : List Binding) (crossed : List Sym), (∀ b ∈ pre, bindingName b ≠ n) →
      (∃ x, (x ∈ crossed ∨ Binding.var x ∈ pre) ∧ x ∈ t.fv) →
      lookupScope n (pre ++ .letb n t ty :: post) crossed = some (.error (captureMsg n))
  | [], crossed, _, ⟨x, hx, hfv⟩ => by
    have hx' : x ∈ crossed := by rcases hx with hx | hx; exact hx; cases hx
    have hc : (crossed.any (fun x => t.fv.contains x)) = true := List.any_eq_true.2 ⟨x, hx', by simpa using hfv⟩
    simp only [List.nil_append, lookupScope, beq_self_eq_true, if_true, hc]
    rfl
  | .var s :: pre, crossed, hpre, ⟨x, hx, hfv⟩ => by
    have hs : (s.name == n) = false := by
      have := hpre (.var s) (List.mem_cons_self ..)
      simpa [bindingName] using this
    simp only [List.cons_append, lookupScope, hs, Bool.false_eq_true, if_false]
    refine lookupScope_error_of t ty post pre (s :: crossed) (fun b hb => hpre b (List.mem_cons_of_mem _ hb)) ⟨x, ?_, hfv⟩
    rcases hx with hx | hx
    · exact .inl (List.mem_cons_of_mem _ hx)
    · rcases List.mem_cons.1 hx with h | h
      · cases h; exact .inl (List.mem_cons_self ..)
      · exact .inr h
  | .letb m t' ty' :: pre, crossed, hpre, ⟨x, hx, hfv⟩ => by
    have hm : (m == n) = false := by
      have := hpre (.letb m t' ty') (List.mem_cons_self ..)
      simpa [bindingName] using this
    simp only [List.cons_append, lookupScope, hm, Bool.false_eq_true, if_false]
    refine lookupScope_error_of t ty post pre crossed (fun b hb => hpre b (List.mem_cons_of_mem _ hb)) ⟨x, ?_, hfv⟩
    rcases hx with hx | hx
    · exact .inl hx
    · rcases List.mem_cons.1 hx with h | h
      · cases h
      · exact .inr h

/-- the scope lookup fails **iff** the innermost binding of the name is a `let` whose term has a free variable among
the binders crossed -/
theorem lookupScope_error_iff (n : String) (sc : List Binding) (crossed : List Sym) :
    (∃ e, lookupScope n sc crossed = some (.error e)) ↔
    ∃ pre t ty post, sc = pre ++ .letb n t ty :: post ∧ (∀ b ∈ pre, bindingName b ≠ n) ∧
      ∃ x, (x ∈ crossed ∨ Binding.var x ∈ pre) ∧ x ∈ t.fv := by
  constructor
  · rintro ⟨e, h⟩
    obtain ⟨pre, t, ty, post, h1, h2, h3, _⟩ := lookupScope_error h
    exact ⟨pre, t, ty, post, h1, h2, h3⟩
  · rintro ⟨pre, t, ty, post, rfl, h2, h3⟩
    exact ⟨_, lookupScope_error_of t ty post pre crossed h2 h3⟩

/-- no capture error when the let-bound terms of the scope are closed (e.g. no `let` at all) -/
theorem lookupScope_closed (n : String) (sc : List Binding) (crossed : List Sym)
    (h : ∀ m t ty, Binding.letb m t ty ∈ sc → t.fv = []) (e : String) : lookupScope n sc crossed ≠ some (.error e) := by
  intro he
  obtain ⟨pre, t, ty, post, rfl, _, ⟨x, _, hfv⟩, _⟩ := lookupScope_error he
  rw [h n t ty (by simp)] at hfv
  cases hfv

/-- hypotheses satisfiable: the scope of the witness at the occurrence of `y` -/
example : ∃ e, lookupScope "y" [.var xS, .letb "y" xT .int] [] = some (.error e) := ⟨_, lookupScope_cap⟩
example : ∀ m t ty, Binding.letb m t ty ∈ [Binding.var xS, .letb "z" (Term.int 1) .int] → t.fv = [] := by
  intro m t ty h
  simp only [List.mem_cons, List.not_mem_nil, or_false, reduceCtorEq, false_or, Binding.letb.injEq] at h
  obtain ⟨_, rfl, _⟩ := h
  simp [Term.int, Term.fv]

theorem atomNoCap_false_iff (sc : List Binding) (tok : String) :
    atomNoCap sc tok = false ↔
      Sexp.numeral? tok = none ∧ Sexp.decimal? tok = none ∧ Sexp.binary? tok = none ∧ Sexp.hex? tok = none ∧
        ∃ n, Sexp.symName? tok = some n ∧ ∃ e, lookupScope n sc [] = some (.error e) := by
  unfold atomNoCap
  cases n1 : Sexp.numeral? tok <;> cases n2 : Sexp.decimal? tok <;> cases n3 : Sexp.binary? tok <;>
    cases n4 : Sexp.hex? tok <;> cases n5 : Sexp.symName? tok <;> simp
  next n =>
  cases hl : lookupScope n sc [] with
  | none => simp
  | some r => cases r <;> simp

/-- **one atom, first direction**: where `NoCapture` is false on an atom, the standard reader answers the capture error -/
theorem atomNoCap_false (env : SEnv) (sc : List Binding) (tok : String) (h : atomNoCap sc tok = false) :
    ∃ n, Sexp.symName? tok = some n ∧ rd env sc (.atom tok) = .error (captureMsg n) := by
  obtain ⟨n1, n2, n3, n4, n, hn, e, he⟩ := (atomNoCap_false_iff sc tok).1 h
  obtain ⟨_, _, _, _, _, _, _, rfl⟩ := lookupScope_error he
  refine ⟨n, hn, ?_⟩
  rw [rd]; simp only [atomTerm, n1, n2, n3, n4, hn, he]

theorem append_ne_of_prefix (p q a b : String) (k : Nat) (hp : k ≤ p.toList.length) (hq : k ≤ q.toList.length)
    (hne : p.toList.take k ≠ q.toList.take k) : p ++ a ≠ q ++ b := by
  intro h
  apply hne
  have := congrArg (fun s => s.toList.take k) h
  simp only [String.toList_append] at this
  rwa [List.take_append_of_le_length hp, List.take_append_of_le_length hq] at this

/-- the full statement: a text with `NoCapture` never gets the capture error from the standard reader -/
def NoCaptureExcludes : Prop :=
  ∀ (env : SEnv) (sc : List Binding) (s : Sexp) (n : String), NoCapture env sc s = true →
    rd env sc s ≠ .error (captureMsg n)

/-- **one atom, second direction** (`NoCaptureExcludes` for atoms only). Not proved for compound texts: it needs the
induction over `rd` with an inequality of error messages at each of its error sites. -/
theorem noCapture_atom_partial (env : SEnv) (sc : List Binding) (tok : String) (n : String)
    (h : NoCapture env sc (.atom tok) = true) : rd env sc (.atom tok) ≠ .error (captureMsg n) := by
  rw [NoCapture] at h
  have ne1 : ∀ a, "term expected: " ++ a ≠ captureMsg n := fun a =>
    append_ne_of_prefix _ _ a n 1 (by decide) (by decide) (by decide)
  have ne2 : ∀ a, "function symbol used as a term: " ++ a ≠ captureMsg n := fun a =>
    append_ne_of_prefix _ _ a n 1 (by decide) (by decide) (by decide)
  have ne3 : ∀ a, "undeclared symbol: " ++ a ≠ captureMsg n := fun a =>
    append_ne_of_prefix _ _ a n 3 (by decide) (by decide) (by decide)
  have hno : ∀ m e, Sexp.numeral? tok = none → Sexp.decimal? tok = none → Sexp.binary? tok = none →
      Sexp.hex? tok = none → Sexp.symName? tok = some m → lookupScope m sc [] ≠ some (.error e) := by
    intro m e n1 n2 n3 n4 n5 hl
    have := (atomNoCap_false_iff sc tok).2 ⟨n1, n2, n3, n4, m, n5, e, hl⟩
    rw [this] at h; cases h
  rw [rd]; unfold atomTerm
  cases n1 : Sexp.numeral? tok with
  | some k => simp only []; split <;> simp
  | none =>
  cases n2 : Sexp.decimal? tok with
  | some k => simp
  | none =>
  cases n3 : Sexp.binary? tok with
  | some k => simp
  | none =>
  cases n4 : Sexp.hex? tok with
  | some k => simp
  | none =>
  cases n5 : Sexp.symName? tok with
  | none => simp only []; intro hh; exact ne1 tok (by simpa using hh)
  | some m =>
  simp only []
  cases hl : lookupScope m sc [] with
  | some r =>
    cases r with
    | error e => exact absurd hl (hno m e n1 n2 n3 n4 n5)
    | ok v => simp
  | none =>
    simp only []
    repeat' split
    all_goals first
      | (intro hh; cases hh; done)
      | (intro hh; exact ne2 m (by simpa using hh))
      | (intro hh; exact ne3 m (by simpa using hh))
end PySMT.Parser.Capture
