import PySMT.Proofs.C09Frag3
/-!
# C09: array values, binders; `fragS_node`, `fragS_quantNode`, `fragS_toSexp`
-/
namespace PySMT.Parser.Agree
open PySMT PySMT.Parser PySMT.Std PySMT.Sexp PySMT.Printer

section
variable (sp : Spell) (hsp : SpellStd sp) (env : SEnv) (ρ : List (String × Sym)) (srt : Bool) (toS : Term → Sexp)
include hsp

/-! ## array values -/

theorem fragS_storeChain (arrTy d : Sexp) (hty : FragSort arrTy = true) (hd : FragS env ρ d = true) :
    ∀ (ents : List (Sexp × Sexp)), (∀ kv ∈ ents, FragS env ρ kv.1 = true ∧ FragS env ρ kv.2 = true) →
      FragS env ρ (storeChain sp arrTy d ents) = true := by
  have hbase : FragS env ρ (.list [.list [.atom (sp "walk_array_value:1"), .atom (sp "walk_array_value:2"), arrTy], d])
      = true := by
    rw [spell sp hsp "walk_array_value:1" "as" (by decide), spell sp hsp "walk_array_value:2" "const" (by decide)]
    apply FragS_head
    · simp [fragHead, symName_lits.2.2.2.2.2.2.1, hty]
    · rw [FragL_cons_eq, hd, FragL_nil]; rfl
  have step : ∀ (ents : List (Sexp × Sexp)) (acc : Sexp),
      (∀ kv ∈ ents, FragS env ρ kv.1 = true ∧ FragS env ρ kv.2 = true) → FragS env ρ acc = true →
      FragS env ρ (ents.foldl (fun acc kv => .list [.atom (sp "walk_array_value:0"), acc, kv.1, kv.2]) acc) = true := by
    intro ents
    induction ents with
    | nil => intro acc _ h; exact h
    | cons kv l ih =>
      intro acc hl hacc
      simp only [List.foldl_cons]
      apply ih _ (fun x hx => hl x (List.mem_cons_of_mem _ hx))
      rw [spell sp hsp "walk_array_value:0" "store" (by decide)]
      obtain ⟨hk, hv⟩ := hl kv (by simp)
      apply FragS_op env ρ "store" (by decide)
      · rfl
      · rfl
      · rw [FragL_cons_eq, FragL_cons_eq, FragL_cons_eq, hacc, hk, hv, FragL_nil]; rfl
  intro ents hents
  exact step ents _ hents hbase

theorem fragS_arrayValue (scope : List Sym) (args : List Term) (p : Payload) (τ : Ty)
    (hargs : ∀ a ∈ args, FragS env ρ (toS a) = true)
    (hS : stdTy .arrayValue p (args.map tyD) = some τ) (hok : nodeOK env scope .arrayValue p args = true) :
    FragS env ρ (nodeSexp sp srt .arrayValue p args (args.map toS)) = true := by
  simp only [stdTy] at hS
  split at hS
  · next ts idx dT restT hts =>
    cases args with
    | nil => simp at hts
    | cons d rest =>
      simp only [nodeOK, Bool.and_eq_true] at hok
      obtain ⟨hsidx, hse, _⟩ := hok
      simp only [nodeSexp, List.map_cons]
      apply fragS_storeChain sp hsp env ρ
      · -- the sort
        cases hdt : d.typeOf with
        | none => rw [hdt] at hse; cases hse
        | some e =>
          rw [hdt] at hse
          have : arrTySexp idx d = tySexp (.array idx e) := by simp [arrTySexp, hdt, tySexp]
          rw [this]
          exact FragSort_tySexp env _ (by simp [SortOK, hsidx, hse])
      · exact hargs d (by simp)
      · intro kv hkv
        obtain ⟨e, he, rfl⟩ := List.mem_map.1 hkv
        obtain ⟨m1, m2⟩ := mem_avEnts srt rest toS e he
        obtain ⟨a1, ha1, e1⟩ := List.mem_map.1 m1
        obtain ⟨a2, ha2, e2⟩ := List.mem_map.1 m2
        rw [← e1, ← e2]
        exact ⟨hargs a1 (List.mem_cons_of_mem _ ha1), hargs a2 (List.mem_cons_of_mem _ ha2)⟩
  · simp at hS

/-! ## binders -/

omit hsp in
theorem fragVars_sortedVar : ∀ (vs : List Sym),
    (∀ v ∈ vs, (nameFine v.name && v.params.isEmpty && SortOK env v.ret) = true) →
    (∀ v ∈ vs, (bindNameOK env v.name && ρ.lookup v.name == some v) = true) →
    fragVars env ρ (vs.map sortedVar) = true
  | [], _, _ => by simp [fragVars]
  | v :: vs, h, hp => by
    have hv := h v (by simp)
    simp only [Bool.and_eq_true, nameFine, Bool.not_eq_true', List.isEmpty_iff] at hv
    obtain ⟨⟨⟨⟨hch, hr⟩, _⟩, hpar⟩, hso⟩ := hv
    obtain ⟨tok, htok, hsn⟩ := symTok v.name hch hr
    have hpv := hp v (by simp)
    simp only [Bool.and_eq_true, beq_iff_eq] at hpv
    have ih := fragVars_sortedVar vs (fun v' hv' => h v' (List.mem_cons_of_mem _ hv'))
      (fun v' hv' => hp v' (List.mem_cons_of_mem _ hv'))
    have hvar : Sym.var v.name v.ret = v := by
      cases v with
      | mk n ps r => simp only at hpar; subst hpar; rfl
    simp only [List.map_cons, sortedVar, htok]
    rw [fragVars]
    simp only [hsn, hpv.1, FragSort_tySexp env v.ret hso, sortStd_tySexp env v.ret hso, hvar, hpv.2, beq_self_eq_true,
      ih, Bool.and_self]

/-- a quantifier node, given that the printed body lies in the fragment -/
theorem fragS_quantNode (op : Op) (hop : op = .forall_ ∨ op = .exists_) (vs : List Sym) (args : List Term) (τ : Ty)
    (hb : binderOK env vs = true) (hargs : ∀ a ∈ args, FragS env ρ (toS a) = true)
    (hS : stdTy op (.qvars vs) (args.map tyD) = some τ) (hpo : parseNodeOK env ρ op (.qvars vs) = true) :
    FragS env ρ (nodeSexp sp srt op (.qvars vs) args (args.map toS)) = true := by
  have key : ∃ b, args = [b] := by
    rcases hop with rfl | rfl <;>
    · simp only [stdTy] at hS
      split at hS <;> simp at hS
      rename_i hts
      obtain ⟨b, rfl, _⟩ := map_eq_one hts
      exact ⟨b, rfl⟩
  obtain ⟨b, rfl⟩ := key
  simp only [binderOK, Bool.and_eq_true, Bool.not_eq_true', List.all_eq_true] at hb
  have hall : ∀ v ∈ vs, (bindNameOK env v.name && ρ.lookup v.name == some v) = true := by
    rcases hop with rfl | rfl <;> simpa [parseNodeOK] using hpo
  have hvars := fragVars_sortedVar env ρ vs (fun v hv => by simpa using hb.2 v hv) hall
  have hbody := hargs b (by simp)
  rcases hop with rfl | rfl
  · simp only [nodeSexp, walkKey, spell sp hsp "walk_forall" "forall" (by decide), List.map_cons, List.map_nil]
    exact FragS_quant env ρ "forall" (Or.inl rfl) _ _ hvars hbody
  · simp only [nodeSexp, walkKey, spell sp hsp "walk_exists" "exists" (by decide), List.map_cons, List.map_nil]
    exact FragS_quant env ρ "exists" (Or.inr rfl) _ _ hvars hbody

/-! ## every other node -/

/-- what either printer writes for a node that `Printable` and `parseOK` admit lies in the fragment, given that what was
written for the arguments does (`toS`: `toSexpWith sp` for the tree printer, the memoized result for the DAG printer) -/
theorem fragS_node (scope : List Sym) (op : Op) (args : List Term) (p : Payload) (τ : Ty)
    (h1 : op ≠ .forall_) (h2 : op ≠ .exists_)
    (hargs : ∀ a ∈ args, FragS env ρ (toS a) = true)
    (hS : stdTy op p (args.map tyD) = some τ) (hok : nodeOK env scope op p args = true)
    (hpo : parseNodeOK env ρ op p = true) :
    FragS env ρ (nodeSexp sp srt op p args (args.map toS)) = true := by
  cases hpn : plainName op with
  | some f => exact fragS_plain sp hsp env ρ srt toS op f hpn args p τ hargs hS
  | none =>
    cases op <;> simp only [plainName, reduceCtorEq] at hpn
    case forall_ => exact absurd rfl h1
    case exists_ => exact absurd rfl h2
    case symbol =>
      simp only [stdTy] at hS
      split at hS
      · next ts s hts => simp only [nodeSexp]; exact FragS_quoteAtom env ρ _
      · simp at hS
    case function =>
      cases p with
      | sym f =>
        simp only [nodeOK, Bool.and_eq_true] at hok
        simp only [nodeSexp]
        exact fragS_function env ρ f hok.1.1.1.2 _ (FragL_map env ρ toS args hargs)
      | _ => simp [stdTy] at hS
    case realConst =>
      simp only [stdTy] at hS
      split at hS
      · next ts r hts => simp only [nodeSexp]; exact fragS_realSexp sp hsp env ρ r
      · simp at hS
    case boolConst =>
      simp only [stdTy] at hS
      split at hS
      · next ts r hts => simp only [nodeSexp]; exact FragS_atom env ρ _
      · simp at hS
    case intConst =>
      simp only [stdTy] at hS
      split at hS
      · next ts r hts => simp only [nodeSexp]; exact fragS_intSexp sp hsp env ρ r
      · simp at hS
    case strConst =>
      simp only [stdTy] at hS
      split at hS
      · next ts r hts =>
        simp only [nodeSexp]
        rw [FragS_str]
        simpa [nodeOK] using hok
      · simp at hS
    case bvConst =>
      simp only [stdTy] at hS
      split at hS
      · next ts v w hts => simp only [nodeSexp, bvSexp]; exact FragS_atom env ρ _
      · simp at hS
    case bvExtract =>
      simp only [stdTy] at hS
      split at hS
      · next ts w lo hi m hts =>
        simp only [nodeSexp, walkKey, spell sp hsp "walk_bv_extract" "extract" (by decide)]
        exact fragS_indexed2 env ρ hi lo _ (FragL_map env ρ toS args hargs)
      · simp at hS
    case bvRol =>
      simp only [stdTy] at hS
      split at hS
      · next ts w k m hts =>
        simp only [nodeSexp, walkKey, spell sp hsp "walk_bv_rotate:is_bv_rol" "rotate_left" (by decide)]
        exact fragS_indexedRot env ρ _ (Or.inl rfl) k _ (FragL_map env ρ toS args hargs)
      · simp at hS
    case bvRor =>
      simp only [stdTy] at hS
      split at hS
      · next ts w k m hts =>
        simp only [nodeSexp, walkKey, spell sp hsp "walk_bv_rotate:is_bv_ror" "rotate_right" (by decide)]
        exact fragS_indexedRot env ρ _ (Or.inr rfl) k _ (FragL_map env ρ toS args hargs)
      · simp at hS
    case bvZext =>
      simp only [stdTy] at hS
      split at hS
      · next ts w k a hts =>
        simp only [nodeSexp, walkKey, spell sp hsp "walk_bv_extend:is_bv_zext" "zero_extend" (by decide)]
        exact fragS_indexed1 env ρ _ (Or.inl rfl) k _ (FragL_map env ρ toS args hargs)
      · simp at hS
    case bvSext =>
      simp only [stdTy] at hS
      split at hS
      · next ts w k a hts =>
        simp only [nodeSexp, walkKey, spell sp hsp "walk_bv_extend:is_bv_sext" "sign_extend" (by decide)]
        exact fragS_indexed1 env ρ _ (Or.inr rfl) k _ (FragL_map env ρ toS args hargs)
      · simp at hS
    case arrayValue => exact fragS_arrayValue sp hsp env ρ srt toS scope args p τ hargs hS hok
    all_goals simp [stdTy] at hS

/-! ## the tree printer -/

omit hsp in
theorem parseOK_inv (op : Op) (args : List Term) (p : Payload) (h : parseOK env ρ (.node op args p) = true) :
    (∀ a ∈ args, parseOK env ρ a = true) ∧ parseNodeOK env ρ op p = true := by
  rw [parseOK_node] at h
  simp only [Bool.and_eq_true, List.all_map, List.all_eq_true, Function.comp, id] at h
  exact h

/-- what the tree printer writes for a `Printable`, `parseOK` term lies in the fragment of the agreement theorem -/
theorem fragS_toSexp : ∀ (t : Term) (scope : List Sym), Printable env scope t = true → parseOK env ρ t = true →
    FragS env ρ (toSexpWith sp t) = true
  | .node op args p, scope, hP, hQ => by
    obtain ⟨τ, hS, _, hcase⟩ := printable_node env scope op args p hP
    obtain ⟨hQargs, hpo⟩ := parseOK_inv env ρ op args p hQ
    rw [toSexpWith_node]
    rcases hcase with ⟨vs, hq, rfl, hb, hargsP⟩ | ⟨h1, h2, hok, hargsP⟩
    · exact fragS_quantNode sp hsp env ρ true (toSexpWith sp) op hq vs args τ hb
        (fun a ha => fragS_toSexp a (vs.reverse ++ scope) (hargsP a ha) (hQargs a ha)) hS hpo
    · exact fragS_node sp hsp env ρ true (toSexpWith sp) scope op args p τ h1 h2
        (fun a ha => fragS_toSexp a scope (hargsP a ha) (hQargs a ha)) hS hok hpo
termination_by t => sizeOf t
decreasing_by
  all_goals
    simp_wf
    have := List.sizeOf_lt_of_mem ha
    omega

end

/-- … in particular `to_smtlib(f, daggify=False)` -/
theorem fragS_toSexp_tree (env : SEnv) (ρ : List (String × Sym)) (t : Term) (scope : List Sym)
    (hP : Printable env scope t = true) (hQ : parseOK env ρ t = true) : FragS env ρ (toSexp t) = true :=
  fragS_toSexp treeSpell treeSpell_std env ρ t scope hP hQ

end PySMT.Parser.Agree
