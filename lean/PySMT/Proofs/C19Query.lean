import PySMT.Proofs.C19
/-!
# C19 — invariants of the `get_model / get_value` phase (need assumption A1, `killAtomic`)
-/
set_option linter.unusedVariables false
namespace PySMT.Portfolio
variable (cfg : Cfg)

structure QInv (s : State) : Prop where
  noDying : ∀ (j : Nat), s.ms[j]? ≠ some .dying
  served0 : inSolve s.p = true → s.served = []
  kLosers : ∀ v w k, s.p = .killLosers v w k → ∀ j, j < k → j ≠ w → ∀ m, s.ms[j]? = some m → dead m = true
  ret : ∀ v w, s.p = .returned v w → (s.ms[w]? = some .serving ∨ s.ms[w]? = some .crashed) ∧ s.ctrl = [] ∧ s.reply = [] ∧
          (∀ j, j ≠ w → ∀ m, s.ms[j]? = some m → dead m = true) ∧ ∀ x ∈ s.served, x.1 = w
  await : ∀ v w q, s.p = .awaiting v w q → (s.ms[w]? = some .serving ∨ s.ms[w]? = some .crashed) ∧
          (∀ j, j ≠ w → ∀ m, s.ms[j]? = some m → dead m = true) ∧ (∀ x ∈ s.served, x.1 = w) ∧
          ((s.ctrl = [.query q] ∧ s.reply = []) ∨ (s.ctrl = [] ∧ s.reply = [(w, q)]))

theorem qinv_init : QInv init := by
  constructor <;> simp [init]

theorem dead_kill (os : OS) (hA : os.killAtomic = true) (m : MSt) (hm : m ≠ .dying) : dead (kill os m) = true := by
  cases m <;> simp_all [dead, kill]

theorem kill_ne_dying (os : OS) (hA : os.killAtomic = true) (m : MSt) (hm : m ≠ .dying) : kill os m ≠ .dying := by
  cases m <;> simp_all [kill]

theorem afterSolve_ne_dying (i : Nat) (b : Beh) : afterSolve i b ≠ .dying := by
  cases b <;> simp [afterSolve]

theorem afterFlush_ne_dying (m : Msg) : afterFlush m ≠ .dying := by
  cases m <;> simp [afterFlush]

/-- in the query phase every member except the winner is dead, so a live member is the winner -/
theorem only_winner {s : State} {w i : Nat} {m : MSt}
    (hd : ∀ j, j ≠ w → ∀ m, s.ms[j]? = some m → dead m = true) (hm : s.ms[i]? = some m) (hnd : dead m = false) :
    i = w := by
  by_cases h : i = w
  · exact h
  · have := hd i h m hm; rw [hnd] at this; simp at this

/-- the shape shared by `finish`, `flush`: member `i` moves from a live state `a ≠ serving` to `b ≠ dying` -/
theorem qinv_member_move (s : State) (hi : Inv cfg s) (hq : QInv s) (i : Nat) (a b : MSt) (q : List Msg)
    (hm : s.ms[i]? = some a) (hlive : dead a = false) (hns : a ≠ .serving) (hb : b ≠ .dying) :
    QInv { s with ms := s.ms.set i b, queue := q } := by
  obtain ⟨noDying, served0, kLosers, ret, await⟩ := hq
  have hcontra : ∀ (w : Nat), (s.ms[w]? = some MSt.serving ∨ s.ms[w]? = some MSt.crashed) →
      (∀ j, j ≠ w → ∀ m, s.ms[j]? = some m → dead m = true) → False := by
    intro w hw hd
    have := only_winner hd hm hlive
    subst this
    rw [hm] at hw; simp at hw
    rcases hw with hw | hw
    · exact hns hw
    · subst hw; simp [dead] at hlive
  constructor <;> simp only [] <;> try (first | assumption | grind [inSolve])

theorem qinv_istep (hA : cfg.os.killAtomic = true) (s t : State) (hi : Inv cfg s) (hq : QInv s)
    (h : IStep cfg s t) : QInv t := by
  cases h with
  | finish i hm =>
    have := qinv_member_move cfg s hi hq i .solving (afterSolve i (cfg.beh s.cycle i)) s.queue hm rfl (by simp)
      (afterSolve_ne_dying _ _)
    exact this
  | flush i m hm =>
    exact qinv_member_move cfg s hi hq i (.putting m) (afterFlush m) (s.queue ++ [m]) hm rfl (by simp)
      (afterFlush_ne_dying _)
  | recvExit i cs hm hc =>
    obtain ⟨noDying, served0, kLosers, ret, await⟩ := hq
    have := hi.chan
    constructor <;> simp only [] <;> try (first | assumption | grind [inSolve])
  | recvQuery i q cs hm hc =>
    obtain ⟨noDying, served0, kLosers, ret, await⟩ := hq
    have := hi.chan
    constructor <;> simp only [] <;> try (first | assumption | grind [inSolve])
    case await =>
      intro v w q' hp
      obtain ⟨h1, h2, h3, h4⟩ := await v w q' hp
      have hiw : i = w := only_winner h2 hm rfl
      subst hiw
      refine ⟨h1, h2, h3, ?_⟩
      rcases h4 with ⟨h5, h6⟩ | ⟨h5, _⟩
      · rw [hc] at h5; simp at h5
        right; simp [h5.1, h5.2, h6]
      · rw [hc] at h5; simp at h5
  | lateRecv i c cs hna hm hc => rw [hA] at hna; simp at hna
  | serveCrash i _ hm =>
    obtain ⟨noDying, served0, kLosers, ret, await⟩ := hq
    have hw : ∀ (w : Nat), (∀ j, j ≠ w → ∀ m, s.ms[j]? = some m → dead m = true) → i = w :=
      fun w hd => only_winner hd hm rfl
    constructor <;> simp only [] <;> try (first | assumption | grind [inSolve])
    case kLosers =>
      intro v w k hp j hj hjw m h
      rcases get_set_cases hm h with ⟨_, h2⟩ | ⟨_, h2⟩
      · subst h2; rfl
      · exact kLosers v w k hp j hj hjw m h2
    case ret =>
      intro v w hp
      obtain ⟨h1, h2, h3, h4, h5⟩ := ret v w hp
      have := hw w h4; subst this
      refine ⟨Or.inr (get_set_eq hm), h2, h3, ?_, h5⟩
      intro j hj m h
      rw [get_set_ne (fun h' => hj h'.symm)] at h; exact h4 j hj m h
    case await =>
      intro v w q hp
      obtain ⟨h1, h4, h5, h6⟩ := await v w q hp
      have := hw w h4; subst this
      refine ⟨Or.inr (get_set_eq hm), ?_, h5, h6⟩
      intro j hj m h
      rw [get_set_ne (fun h' => hj h'.symm)] at h; exact h4 j hj m h
  | recvEOF v w q hp hr hd =>
    obtain ⟨noDying, served0, kLosers, ret, await⟩ := hq
    constructor <;> simp only [] <;> try (first | assumption | grind [inSolve])
  | getAns i v q hp hq' =>
    obtain ⟨noDying, served0, kLosers, ret, await⟩ := hq
    constructor <;> simp only [] <;> try (first | assumption | grind [inSolve])
  | getExnSkip i e q hp he hq' =>
    obtain ⟨noDying, served0, kLosers, ret, await⟩ := hq
    constructor <;> simp only [] <;> try (first | assumption | grind [inSolve])
  | getExnExit i e q hp he hq' =>
    obtain ⟨noDying, served0, kLosers, ret, await⟩ := hq
    constructor <;> simp only [] <;> try (first | assumption | grind [inSolve])
  | allDead hp hq' hd =>
    obtain ⟨noDying, served0, kLosers, ret, await⟩ := hq
    constructor <;> simp only [] <;> try (first | assumption | grind [inSolve])
  | killLoser v w k hp hk =>
    obtain ⟨noDying, served0, kLosers, ret, await⟩ := hq
    constructor <;> simp only [] <;> try (first | assumption | grind [inSolve])
    case noDying =>
      intro j h
      split at h
      · exact noDying j h
      · rcases get_modify_cases _ h with ⟨_, a, ha, h2⟩ | ⟨_, h2⟩
        · exact kill_ne_dying _ hA a (fun h' => noDying k (h' ▸ ha)) h2.symm
        · exact noDying j h2
    case kLosers =>
      intro v' w' k' hp' j hj hjw m h
      simp at hp'; obtain ⟨h1, h2, h3⟩ := hp'; subst h1 h2 h3
      split at h
      · rename_i hkw
        exact kLosers v w k hp j (by omega) hjw m h
      · rcases get_modify_cases _ h with ⟨_, a, ha, h2⟩ | ⟨hne, h2⟩
        · subst h2; exact dead_kill _ hA a (fun h' => noDying k (h' ▸ ha))
        · exact kLosers v w k hp j (by omega) hjw m h2
  | killLosersDone v w k hp hk =>
    obtain ⟨noDying, served0, kLosers, ret, await⟩ := hq
    have hc := hi.chan (by rw [hp]; rfl)
    have hk' := hi.kLosers v w k hp
    constructor <;> simp only [] <;> try (first | assumption | grind [inSolve])
    case ret =>
      intro v' w' hp'
      simp at hp'; obtain ⟨h1, h2⟩ := hp'; subst h1 h2
      refine ⟨hk'.2.2, hc.1, hc.2, ?_, ?_⟩
      · intro j hj m h
        exact kLosers v w k hp j (by have := get_lt h; omega) hj m h
      · rw [served0 (by rw [hp]; rfl)]; simp
  | killAllStep e k hp hk =>
    obtain ⟨noDying, served0, kLosers, ret, await⟩ := hq
    constructor <;> simp only [] <;> try (first | assumption | grind [inSolve])
    case noDying =>
      intro j h
      rcases get_modify_cases _ h with ⟨_, a, ha, h2⟩ | ⟨_, h2⟩
      · exact kill_ne_dying _ hA a (fun h' => noDying k (h' ▸ ha)) h2.symm
      · exact noDying j h2
  | killAllDone e k hp hk =>
    obtain ⟨noDying, served0, kLosers, ret, await⟩ := hq
    constructor <;> simp only [] <;> try (first | assumption | grind [inSolve])
  | recvReply v w q j q' r hp hr =>
    obtain ⟨noDying, served0, kLosers, ret, await⟩ := hq
    constructor <;> simp only [] <;> try (first | assumption | grind [inSolve])

theorem qinv_ustep (s t : State) (hq : QInv s) (h : UStep cfg s t) : QInv t := by
  obtain ⟨noDying, served0, kLosers, ret, await⟩ := hq
  cases h with
  | solveStart _ =>
    constructor <;> simp only [fresh] <;> try (first | assumption | grind [inSolve])
  | ask v w q hp =>
    constructor <;> simp only [] <;> try (first | assumption | grind [inSolve])
  | edit _ => exact ⟨noDying, served0, kLosers, ret, await⟩
  | askNoSolver _ => exact ⟨noDying, served0, kLosers, ret, await⟩
  | close _ => constructor <;> simp [inSolve]

/-- both invariants together, in every reachable state (A1 assumed) -/
theorem qinv_reach (hA : cfg.os.killAtomic = true) (s : State) (h : Reach cfg s) : QInv s := by
  induction h with
  | init => exact qinv_init
  | step s t hr hst ih =>
    cases hst with
    | internal h => exact qinv_istep cfg hA s t (inv_reach cfg s hr) ih h
    | user h => exact qinv_ustep cfg s t ih h

end PySMT.Portfolio
