import PySMT.Proofs.C08WT4
/-!
# C08 — "accepted ⇒ well-typed", part 5: the hypotheses are satisfiable, and `NoNullary` cannot be dropped

* `EnvOK_init`, `envOK_uf`: the initial environment, and an environment with a declared function, satisfy `EnvOK`.
* `read_example`: a concrete text the parser model accepts; `readTerm_wt` applies to it (`example_wt`).
* `counterexample`: in the environment after `(declare-fun f (Int) Int)` the text `(f)` is accepted and the term
  returned (the bare function symbol) is **not** `wt`; `NoNullary` is false for it. Real pySMT returns the symbol `f` of
  type `Int -> Int` for this text (`mgr.Function(f, [])`, formula.py:189-201).
-/
namespace PySMT.Parser.WT
open PySMT PySMT.Parser PySMT.Gen.ParserOps

/-- `(and true (not false))` -/
def exS : Sexp := .list [.atom "and", .atom "true", .list [.atom "not", .atom "false"]]

theorem typeOf_tt : Term.tt.typeOf = some .bool := by
  unfold Term.tt; rw [Term.typeOf.eq_def]; rfl
theorem typeOf_ff : Term.ff.typeOf = some .bool := by
  unfold Term.ff; rw [Term.typeOf.eq_def]; rfl

theorem exS_noNullary : NoNullary exS = true := by decide

theorem read_example :
    readTerm PEnv.init exS = .ok (.node .and [Term.tt, .node .not [Term.ff] .none] .none) := by
  have h1 : tableLookup (pyTok "and") = some (.mgr "And") := by decide
  have h2 : tableLookup (pyTok "not") = some (.mgr "Not") := by decide
  have p3 : pyTok "true" = "true" := by decide
  have p4 : pyTok "false" = "false" := by decide
  have h3 : lookup (pyTok "true") PEnv.init.binds = some (.term Term.tt) := by rw [p3]; rfl
  have h4 : lookup (pyTok "false") PEnv.init.binds = some (.term Term.ff) := by rw [p4]; rfl
  have e1 : rdVal PEnv.init false (.atom "false") = .ok (.term Term.ff, PEnv.init.mgr) := by
    rw [rdVal]; simp only [atomVal, h4, Except.map]
  have e2 : rdVal PEnv.init false (.atom "true") = .ok (.term Term.tt, PEnv.init.mgr) := by
    rw [rdVal]; simp only [atomVal, h3, Except.map]
  have t1 : (Term.node .not [Term.ff] .none).typeOf = some .bool := by
    rw [Term.typeOf.eq_def]; simp only [List.map_cons, List.map_nil, typeOf_ff]; rfl
  have c1 : callMgr "Not" [Term.ff] = .ok (.node .not [Term.ff] .none) := by
    have : Mk.call "Not" [.t Term.ff] = Mk.create .not [Term.ff] := rfl
    have hm : mgrArity "Not" = some 1 := by decide
    simp only [callMgr, hm, List.map_cons, List.map_nil, this, Mk.create, typeOf_ff]
    rfl
  have c2 : callMgr "And" [Term.tt, .node .not [Term.ff] .none] =
      .ok (.node .and [Term.tt, .node .not [Term.ff] .none] .none) := by
    have : Mk.call "And" [.t Term.tt, .t (.node .not [Term.ff] .none)] =
        Mk.create .and [Term.tt, .node .not [Term.ff] .none] := rfl
    have hm : mgrArity "And" = none := by decide
    simp only [callMgr, hm, List.map_cons, List.map_nil, this, Mk.create, typeOf_tt, t1]
    rfl
  have e3 : rdVal PEnv.init false (.list [.atom "not", .atom "false"]) =
      .ok (.term (.node .not [Term.ff] .none), PEnv.init.mgr) := by
    rw [rdVal]
    simp only [h2, fnOfEntry, rdArgs, e1, applyFn, termsOf, Option.map, c1, Except.map]
  unfold readTerm exS
  rw [rdVal]
  simp only [h1, fnOfEntry, rdArgs, e2, e3, applyFn, termsOf, Option.map, c2, Except.map]

/-- the theorem applies: hypotheses satisfiable, conclusion about a term that is really returned -/
theorem example_wt : (Term.node .and [Term.tt, .node .not [Term.ff] .none] .none).wt = true :=
  readTerm_wt PEnv.init EnvOK_init exS exS_noNullary _ read_example

/-! ## the counterexample that makes `NoNullary` necessary -/

def fSym : Sym := ⟨"f", [.int], .int⟩

/-- the environment after `(declare-fun f (Int) Int)` (`cmdDeclareFun` binds `f ↦ .fn (.uf f)`) -/
def ufEnv : PEnv := { PEnv.init with binds := ("f", .fn (.uf fSym)) :: PEnv.init.binds }

theorem envOK_uf : EnvOK ufEnv.binds := EnvOK_cons (v := .fn (.uf fSym)) trivial EnvOK_init

/-- `(f)` -/
def cexS : Sexp := .list [.atom "f"]

theorem cexS_nullary : NoNullary cexS = false := by decide

theorem read_counterexample : readTerm ufEnv cexS = .ok (Term.sym fSym) := by
  have h1 : tableLookup (pyTok "f") = none := by decide
  have p : pyTok "f" = "f" := by decide
  have h2 : lookup (pyTok "f") ufEnv.binds = some (.fn (.uf fSym)) := by rw [p]; rfl
  unfold readTerm cexS
  rw [rdVal]
  simp only [h1, atomVal, h2, rdArgs_nil, applyFn, termsOf]
  rfl

/-- **`readTerm_wt` is false without `NoNullary`**: an `EnvOK` environment and an accepted text whose term is not `wt` -/
theorem counterexample : EnvOK ufEnv.binds ∧ ∃ t, readTerm ufEnv cexS = .ok t ∧ t.wt = false := by
  refine ⟨envOK_uf, Term.sym fSym, read_counterexample, ?_⟩
  cases h : (Term.sym fSym).wt with
  | false => rfl
  | true => exact absurd ((wt_sym fSym).1 h) (by decide)

end PySMT.Parser.WT
