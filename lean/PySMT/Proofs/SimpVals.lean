import PySMT.Core.Val
/-! Inversion lemmas for `Val.hasSort` (shape of a value of a given sort). -/
namespace PySMT

theorem Val.hasSort_bool {v : Val} (h : v.hasSort .bool = true) : ∃ b, v = .b b := by
  cases v <;> simp [Val.hasSort] at h ⊢
theorem Val.hasSort_int {v : Val} (h : v.hasSort .int = true) : ∃ n, v = .i n := by
  cases v <;> simp [Val.hasSort] at h ⊢
theorem Val.hasSort_real {v : Val} (h : v.hasSort .real = true) : ∃ q, v = .r q := by
  cases v <;> simp [Val.hasSort] at h ⊢
theorem Val.hasSort_str {v : Val} (h : v.hasSort .str = true) : ∃ s, v = .s s := by
  cases v <;> simp [Val.hasSort] at h ⊢
theorem Val.hasSort_bv {v : Val} {w : Nat} (h : v.hasSort (.bv w) = true) : ∃ n, v = .bv w n ∧ n < 2 ^ w := by
  cases v <;> simp [Val.hasSort] at h ⊢
  obtain ⟨rfl, h2⟩ := h
  exact ⟨_, ⟨rfl, rfl⟩, h2⟩
theorem Val.hasSort_custom {v : Val} {n : String} (h : v.hasSort (.custom n) = true) : ∃ k, v = .u n k := by
  cases v <;> simp [Val.hasSort] at h ⊢
  exact h

@[simp] theorem Val.hasSort_b (b : Bool) : (Val.b b).hasSort .bool = true := rfl
@[simp] theorem Val.hasSort_i (n : Int) : (Val.i n).hasSort .int = true := rfl
@[simp] theorem Val.hasSort_r (q : Rat) : (Val.r q).hasSort .real = true := rfl
@[simp] theorem Val.hasSort_s (s : String) : (Val.s s).hasSort .str = true := rfl
theorem Val.hasSort_bv_mk {w n : Nat} (h : n < 2 ^ w) : (Val.bv w n).hasSort (.bv w) = true := by
  simp [Val.hasSort, h]

end PySMT
