import PySMT.Proofs.C09HR5
/-!
# C09 (human-readable format): `regroup` changes nothing but the grouping of n-ary operators

`flatNary (regroup t) = flatNary t` for every term: flattening every nest of applications of one groupable operator gives
the same term before and after the parser's left-grouping.
-/
namespace PySMT.HR.RT
open PySMT PySMT.HR

theorem flatNary_node (op : Op) (args : List Term) (p : Payload) :
    flatNary (.node op args p)
      = if groupable op then .node op (flatArgs op p (args.map flatNary)) p else .node op (args.map flatNary) p := by
  rw [flatNary]

theorem flatArgs_append (op : Op) (p : Payload) : ∀ (l1 l2 : List Term),
    flatArgs op p (l1 ++ l2) = flatArgs op p l1 ++ flatArgs op p l2
  | [], _ => rfl
  | .node op' as' p' :: rest, l2 => by
    simp only [List.cons_append, flatArgs, flatArgs_append op p rest l2]
    split <;> simp

/-- the flat form of a left-nested chain is the flat application of all its operands -/
theorem flatNary_leftNest (op : Op) (p : Payload) (hg : groupable op = true) : ∀ (more : List Term) (acc : Term),
    more ≠ [] → flatNary (leftNest op p acc more) = .node op (flatArgs op p ((acc :: more).map flatNary)) p
  | [], _, h => absurd rfl h
  | [y], acc, _ => by simp [leftNest, flatNary_node, hg]
  | y :: z :: more, acc, _ => by
    rw [leftNest, flatNary_leftNest op p hg (z :: more) _ (by simp)]
    have h1 : flatNary (.node op [acc, y] p) = .node op (flatArgs op p [flatNary acc, flatNary y]) p := by
      simp [flatNary_node, hg]
    have h2 : (acc :: y :: z :: more).map flatNary = [flatNary acc, flatNary y] ++ (z :: more).map flatNary := by simp
    rw [List.map_cons, h1, h2, flatArgs_append]
    simp [flatArgs]

theorem flatNary_regroup : (t : Term) → flatNary (regroup t) = flatNary t
  | .node op args p => by
    have hargs : (args.map regroup).map flatNary = args.map flatNary := by
      rw [List.map_map]
      exact List.map_congr_left (fun a _ => flatNary_regroup a)
    rw [regroup_node]
    rcases regroupNode_cases op (args.map regroup) p with ⟨s, a, b, c, more, _, hg, has, h⟩ | h
    · rw [h, flatNary_leftNest op p hg _ _ (by simp), ← has, hargs, flatNary_node, if_pos hg]
    · rw [h, flatNary_node, flatNary_node, hargs]

end PySMT.HR.RT
