import PySMT.Impl.Simp.Str
import PySMT.Proofs.SimpBuild
import PySMT.Proofs.SimpStrPrims
import PySMT.Proofs.SimpFoldDefs
/-!
# `RuleOK` (and `FoldOK`) for the string rule family `walk_str_length … walk_int_to_str`

Every rule either folds constant arguments — soundness is then the agreement of the Python
`str` primitive with the SMT-LIB function (`Proofs/SimpStrPrims.lean`) — or rebuilds the node with
the constructor's payload `None` (`str_rebuild`).
-/
namespace PySMT.Simp.StrRules
open PySMT PySMT.Build PySMT.Simp

/-! ## string constants -/

@[simp] theorem typeOf_strc (v : String) : (Term.str v).typeOf = some .str := by
  rw [Term.str, typeOf_node]; rfl
@[simp] theorem wf_strc (v : String) : (Term.str v).wf = true := by
  rw [Term.str, Term.wf_node]; exact ⟨by simp, rfl, rfl⟩
@[simp] theorem eval_strc (I : Interp) (v : String) : eval I (Term.str v) = .s v := by
  simp [Term.str, eval_node, evalNode, evalOp]
@[simp] theorem div0_strc (I : Interp) (v : String) : div0 I (Term.str v) = false := by
  simp [Term.str, div0_node, div0Node]
@[simp] theorem fv_strc (v : String) : (Term.str v).fv = [] := by
  simp [Term.str, fv_node]

/-- a string constant as result -/
theorem Res.str {t : Term} (v : String) (h : ∀ I : Interp, I.WF → Hyp I t → eval I t = .s v) :
    Res t .str (Term.str v) :=
  Res.of_hyp (typeOf_strc v) (wf_strc v) (fun I hI hh => by rw [eval_strc, h I hI hh])
    (fun I _ _ => div0_strc I v) (by simp)

theorem isStrConst_some {t : Term} {v : String} (h : isStrConst t = some v) : t = Term.str v := by
  unfold isStrConst at h
  split at h
  · simp at h; subst h; rfl
  · simp at h

theorem mkS_toList (v : String) : Sem.mkS v.toList = .s v := by
  rw [Sem.mkS, String.ofList_toList]

/-! ## rebuilding a string node with the payload `None` -/

local macro "tinv " h:ident : tactic => `(tactic| try (cases $h:ident; done))

theorem typeOfNode_strCharAt_inv {p ts τ} (h : typeOfNode .strCharAt p ts = some τ) :
    ts = [some .str, some .int] ∧ τ = .str := by
  rcases ts with _ | ⟨_ | ⟨t1⟩, r1⟩ <;> tinv h
  cases t1 <;> tinv h
  rcases r1 with _ | ⟨_ | ⟨t2⟩, r2⟩ <;> tinv h
  cases t2 <;> tinv h
  rcases r2 with _ | ⟨t3, r3⟩ <;> tinv h
  exact ⟨rfl, (Option.some.inj h).symm⟩

theorem typeOfNode_strIndexOf_inv {p ts τ} (h : typeOfNode .strIndexOf p ts = some τ) :
    ts = [some .str, some .str, some .int] ∧ τ = .int := by
  rcases ts with _ | ⟨_ | ⟨t1⟩, r1⟩ <;> tinv h
  cases t1 <;> tinv h
  rcases r1 with _ | ⟨_ | ⟨t2⟩, r2⟩ <;> tinv h
  cases t2 <;> tinv h
  rcases r2 with _ | ⟨_ | ⟨t3⟩, r3⟩ <;> tinv h
  cases t3 <;> tinv h
  rcases r3 with _ | ⟨t4, r4⟩ <;> tinv h
  exact ⟨rfl, (Option.some.inj h).symm⟩

theorem typeOfNode_strSubstr_inv {p ts τ} (h : typeOfNode .strSubstr p ts = some τ) :
    ts = [some .str, some .int, some .int] ∧ τ = .str := by
  rcases ts with _ | ⟨_ | ⟨t1⟩, r1⟩ <;> tinv h
  cases t1 <;> tinv h
  rcases r1 with _ | ⟨_ | ⟨t2⟩, r2⟩ <;> tinv h
  cases t2 <;> tinv h
  rcases r2 with _ | ⟨_ | ⟨t3⟩, r3⟩ <;> tinv h
  cases t3 <;> tinv h
  rcases r3 with _ | ⟨t4, r4⟩ <;> tinv h
  exact ⟨rfl, (Option.some.inj h).symm⟩

theorem str_rebuild1 {op : Op} (hop : op = .strLength ∨ op = .strToInt ∨ op = .intToStr) {a : Term}
    {p : Payload} {τ : Ty} (hwf : (Term.node op [a] p).wf = true) (hty : (Term.node op [a] p).typeOf = some τ) :
    Res (.node op [a] p) τ (strOp op [a]) := by
  rw [typeOf_node] at hty
  rcases hop with rfl | rfl | rfl <;>
    exact Res.rebuild (by simp) (by simp) rfl hwf (by rw [typeOf_node]; exact hty) rfl (fun _ => rfl)

theorem str_rebuild2 {op : Op} (hop : op = .strContains ∨ op = .strPrefixOf ∨ op = .strSuffixOf) {a b : Term}
    {p : Payload} {τ : Ty} (hwf : (Term.node op [a, b] p).wf = true)
    (hty : (Term.node op [a, b] p).typeOf = some τ) : Res (.node op [a, b] p) τ (strOp op [a, b]) := by
  rw [typeOf_node] at hty
  rcases hop with rfl | rfl | rfl <;>
    exact Res.rebuild (by simp) (by simp) rfl hwf (by rw [typeOf_node]; exact hty) rfl (fun _ => rfl)

theorem str_rebuildN {args : List Term} {p : Payload} {τ : Ty} (hwf : (Term.node .strConcat args p).wf = true)
    (hty : (Term.node .strConcat args p).typeOf = some τ) :
    Res (.node .strConcat args p) τ (strOp .strConcat args) := by
  rw [typeOf_node] at hty
  exact Res.rebuild (by simp) (by simp) rfl hwf (by rw [typeOf_node]; exact hty) rfl (fun _ => rfl)

theorem str_rebuild_replace {a b c : Term} {p : Payload} {τ : Ty}
    (hwf : (Term.node .strReplace [a, b, c] p).wf = true)
    (hty : (Term.node .strReplace [a, b, c] p).typeOf = some τ) :
    Res (.node .strReplace [a, b, c] p) τ (strOp .strReplace [a, b, c]) := by
  rw [typeOf_node] at hty
  exact Res.rebuild (by simp) (by simp) rfl hwf (by rw [typeOf_node]; exact hty) rfl (fun _ => rfl)

theorem str_rebuild_charAt {a b : Term} {p : Payload} {τ : Ty}
    (hwf : (Term.node .strCharAt [a, b] p).wf = true)
    (hty : (Term.node .strCharAt [a, b] p).typeOf = some τ) :
    Res (.node .strCharAt [a, b] p) τ (strOp .strCharAt [a, b]) := by
  rw [typeOf_node] at hty
  obtain ⟨hts, rfl⟩ := typeOfNode_strCharAt_inv hty
  exact Res.rebuild (by simp) (by simp) rfl hwf (by rw [typeOf_node, hts]; rfl) rfl (fun _ => rfl)

theorem str_rebuild_indexOf {a b c : Term} {p : Payload} {τ : Ty}
    (hwf : (Term.node .strIndexOf [a, b, c] p).wf = true)
    (hty : (Term.node .strIndexOf [a, b, c] p).typeOf = some τ) :
    Res (.node .strIndexOf [a, b, c] p) τ (strOp .strIndexOf [a, b, c]) := by
  rw [typeOf_node] at hty
  obtain ⟨hts, rfl⟩ := typeOfNode_strIndexOf_inv hty
  exact Res.rebuild (by simp) (by simp) rfl hwf (by rw [typeOf_node, hts]; rfl) rfl (fun _ => rfl)

theorem str_rebuild_substr {a b c : Term} {p : Payload} {τ : Ty}
    (hwf : (Term.node .strSubstr [a, b, c] p).wf = true)
    (hty : (Term.node .strSubstr [a, b, c] p).typeOf = some τ) :
    Res (.node .strSubstr [a, b, c] p) τ (strOp .strSubstr [a, b, c]) := by
  rw [typeOf_node] at hty
  obtain ⟨hts, rfl⟩ := typeOfNode_strSubstr_inv hty
  exact Res.rebuild (by simp) (by simp) rfl hwf (by rw [typeOf_node, hts]; rfl) rfl (fun _ => rfl)

/-! ## evaluation of string nodes -/

theorem eval_strLength (I : Interp) (a : Term) (p : Payload) :
    eval I (.node .strLength [a] p) = .i (Sem.sOf (eval I a)).length := by
  rw [eval_plain I .strLength _ p (by simp) (by simp) rfl]; rfl
theorem eval_strConcat (I : Interp) (args : List Term) (p : Payload) :
    eval I (.node .strConcat args p) = Sem.mkS ((args.map (eval I)).flatMap Sem.sOf) := by
  rw [eval_plain I .strConcat _ p (by simp) (by simp) rfl]; rfl
theorem eval_strCharAt (I : Interp) (a b : Term) (p : Payload) :
    eval I (.node .strCharAt [a, b] p) = Sem.mkS (Sem.strAt (Sem.sOf (eval I a)) (Sem.iOf (eval I b))) := by
  rw [eval_plain I .strCharAt _ p (by simp) (by simp) rfl]; rfl
theorem eval_strContains (I : Interp) (a b : Term) (p : Payload) :
    eval I (.node .strContains [a, b] p) = .b (Sem.strContains (Sem.sOf (eval I a)) (Sem.sOf (eval I b))) := by
  rw [eval_plain I .strContains _ p (by simp) (by simp) rfl]; rfl
theorem eval_strIndexOf (I : Interp) (a b c : Term) (p : Payload) :
    eval I (.node .strIndexOf [a, b, c] p) =
      .i (Sem.strIndexOf (Sem.sOf (eval I a)) (Sem.sOf (eval I b)) (Sem.iOf (eval I c))) := by
  rw [eval_plain I .strIndexOf _ p (by simp) (by simp) rfl]; rfl
theorem eval_strReplace (I : Interp) (a b c : Term) (p : Payload) :
    eval I (.node .strReplace [a, b, c] p) =
      Sem.mkS (Sem.strReplace (Sem.sOf (eval I a)) (Sem.sOf (eval I b)) (Sem.sOf (eval I c))) := by
  rw [eval_plain I .strReplace _ p (by simp) (by simp) rfl]; rfl
theorem eval_strSubstr (I : Interp) (a b c : Term) (p : Payload) :
    eval I (.node .strSubstr [a, b, c] p) =
      Sem.mkS (Sem.strSubstr (Sem.sOf (eval I a)) (Sem.iOf (eval I b)) (Sem.iOf (eval I c))) := by
  rw [eval_plain I .strSubstr _ p (by simp) (by simp) rfl]; rfl
theorem eval_strPrefixOf (I : Interp) (a b : Term) (p : Payload) :
    eval I (.node .strPrefixOf [a, b] p) = .b (Sem.isPrefix (Sem.sOf (eval I a)) (Sem.sOf (eval I b))) := by
  rw [eval_plain I .strPrefixOf _ p (by simp) (by simp) rfl]; rfl
theorem eval_strSuffixOf (I : Interp) (a b : Term) (p : Payload) :
    eval I (.node .strSuffixOf [a, b] p) =
      .b (Sem.isPrefix (Sem.sOf (eval I a)).reverse (Sem.sOf (eval I b)).reverse) := by
  rw [eval_plain I .strSuffixOf _ p (by simp) (by simp) rfl]; rfl
theorem eval_strToInt (I : Interp) (a : Term) (p : Payload) :
    eval I (.node .strToInt [a] p) = .i (Sem.strToInt (Sem.sOf (eval I a))) := by
  rw [eval_plain I .strToInt _ p (by simp) (by simp) rfl]; rfl
theorem eval_intToStr (I : Interp) (a : Term) (p : Payload) :
    eval I (.node .intToStr [a] p) = Sem.mkS (Sem.intToStr (Sem.iOf (eval I a))) := by
  rw [eval_plain I .intToStr _ p (by simp) (by simp) rfl]; rfl

/-! ## result types -/

/-- operators typed by `allAre ts t ⇒ r` -/
theorem typeOf_allAre {op : Op} {args : List Term} {p : Payload} {τ t r : Ty}
    (h : (Term.node op args p).typeOf = some τ)
    (hdef : typeOfNode op p (args.map Term.typeOf) =
      if allAre (args.map Term.typeOf) t then some r else none) : τ = r := by
  rw [typeOf_node, hdef] at h
  exact (ite_allAre_iff.mp h).1

theorem typeOfNode_strCharAt {p ts τ} (h : typeOfNode .strCharAt p ts = some τ) : τ = .str :=
  typeOfNode_strRes .strCharAt rfl h
theorem typeOfNode_strSubstr {p ts τ} (h : typeOfNode .strSubstr p ts = some τ) : τ = .str :=
  typeOfNode_strRes .strSubstr rfl h
theorem typeOfNode_strIndexOf {p ts τ} (h : typeOfNode .strIndexOf p ts = some τ) : τ = .int :=
  typeOfNode_strIntRes .strIndexOf rfl h

/-! ## the rules -/

theorem walkStrLength_ok : RuleOK .strLength walkStrLength := by
  apply RuleOK.of_res
  intro p args τ hwf hty _
  have hs := wf_shape hwf
  simp only [Op.shapeOK, beq_iff_eq] at hs
  match args, hs, hwf, hty with
  | [s], _, hwf, hty =>
    obtain rfl : τ = .int := typeOf_allAre (t := .str) hty rfl
    show Res _ _ (walkStrLength p [s])
    unfold walkStrLength
    simp only
    cases hc : isStrConst s with
    | none => exact str_rebuild1 (Or.inl rfl) hwf hty
    | some v =>
      obtain rfl := isStrConst_some hc
      refine Res.int _ (fun I _ _ => ?_)
      rw [eval_strLength, eval_strc, Sem.sOf, String.length_toList]

theorem strConsts_some : ∀ {args : List Term} {vs : List String}, strConsts args = some vs →
    args = vs.map Term.str
  | [], vs, h => by
    simp only [strConsts, Option.some.injEq] at h
    subst h; rfl
  | a :: as, vs, h => by
    rw [strConsts] at h
    cases ha : isStrConst a with
    | none => rw [ha] at h; simp at h
    | some v =>
      cases has : strConsts as with
      | none => rw [ha, has] at h; simp at h
      | some vs' =>
        rw [ha, has] at h
        simp only [Option.some.injEq] at h
        subst h
        rw [isStrConst_some ha, strConsts_some has]
        rfl

theorem walkStrConcat_ok : RuleOK .strConcat walkStrConcat := by
  apply RuleOK.of_res
  intro p args τ hwf hty _
  obtain rfl : τ = .str := typeOf_allAre (t := .str) hty rfl
  show Res _ _ (walkStrConcat p args)
  unfold walkStrConcat
  cases hc : strConsts args with
  | none => exact str_rebuildN hwf hty
  | some vs =>
    obtain rfl := strConsts_some hc
    refine Res.str _ (fun I _ _ => ?_)
    rw [eval_strConcat, Sem.mkS, List.map_map]
    congr 1
    rw [← String.ofList_toList (s := pyJoin vs), pyJoin_toList]
    congr 1
    rw [List.flatMap_map]
    congr 1
    funext v
    simp [Sem.sOf]

theorem walkStrCharAt_ok : RuleOK .strCharAt walkStrCharAt := by
  apply RuleOK.of_res
  intro p args τ hwf hty _
  have hs := wf_shape hwf
  simp only [Op.shapeOK, beq_iff_eq] at hs
  match args, hs, hwf, hty with
  | [s, i], _, hwf, hty =>
    obtain rfl : τ = .str := by rw [typeOf_node] at hty; exact typeOfNode_strCharAt hty
    show Res _ _ (walkStrCharAt p [s, i])
    unfold walkStrCharAt
    simp only
    cases hc : isStrConst s with
    | none => exact str_rebuild_charAt hwf hty
    | some sv =>
      cases hi : isIntConst i with
      | none => exact str_rebuild_charAt hwf hty
      | some iv =>
        obtain rfl := isStrConst_some hc
        obtain rfl := isIntConst_some hi
        simp only
        split
        · next h =>
          refine Res.str _ (fun I _ _ => ?_)
          rw [eval_strCharAt, eval_strc, eval_intc, Sem.sOf, Sem.iOf, strAt_neg _ _ h]
          rfl
        · next h =>
          refine Res.str _ (fun I _ _ => ?_)
          rw [eval_strCharAt, eval_strc, eval_intc, Sem.sOf, Sem.iOf, pySlice_at _ _ h]
          rfl

theorem walkStrContains_ok : RuleOK .strContains walkStrContains := by
  apply RuleOK.of_res
  intro p args τ hwf hty _
  have hs := wf_shape hwf
  simp only [Op.shapeOK, beq_iff_eq] at hs
  match args, hs, hwf, hty with
  | [s, t], _, hwf, hty =>
    obtain rfl : τ = .bool := typeOf_allAre (t := .str) hty rfl
    show Res _ _ (walkStrContains p [s, t])
    unfold walkStrContains
    simp only
    cases hc : isStrConst s with
    | none => exact str_rebuild2 (Or.inl rfl) hwf hty
    | some sv =>
      cases ht : isStrConst t with
      | none => exact str_rebuild2 (Or.inl rfl) hwf hty
      | some tv =>
        obtain rfl := isStrConst_some hc
        obtain rfl := isStrConst_some ht
        refine Res.bool _ (fun I _ _ => ?_)
        rw [eval_strContains, eval_strc, eval_strc, Sem.sOf, Sem.sOf, pyContains_eq]

theorem walkStrIndexOf_ok : RuleOK .strIndexOf walkStrIndexOf := by
  apply RuleOK.of_res
  intro p args τ hwf hty _
  have hs := wf_shape hwf
  simp only [Op.shapeOK, beq_iff_eq] at hs
  match args, hs, hwf, hty with
  | [s, t, i], _, hwf, hty =>
    obtain rfl : τ = .int := by rw [typeOf_node] at hty; exact typeOfNode_strIndexOf hty
    show Res _ _ (walkStrIndexOf p [s, t, i])
    unfold walkStrIndexOf
    simp only
    cases hc : isStrConst s with
    | none => exact str_rebuild_indexOf hwf hty
    | some sv =>
      cases ht : isStrConst t with
      | none => exact str_rebuild_indexOf hwf hty
      | some tv =>
        cases hi : isIntConst i with
        | none => exact str_rebuild_indexOf hwf hty
        | some iv =>
          obtain rfl := isStrConst_some hc
          obtain rfl := isStrConst_some ht
          obtain rfl := isIntConst_some hi
          simp only
          split
          · next h =>
            refine Res.int _ (fun I _ _ => ?_)
            rw [eval_strIndexOf, eval_strc, eval_strc, eval_intc, Sem.sOf, Sem.sOf, Sem.iOf, Sem.strIndexOf, if_pos h]
          · next h =>
            refine Res.int _ (fun I _ _ => ?_)
            rw [eval_strIndexOf, eval_strc, eval_strc, eval_intc, Sem.sOf, Sem.sOf, Sem.iOf, pyFind_eq _ _ _ h]

theorem walkStrReplace_ok : RuleOK .strReplace walkStrReplace := by
  apply RuleOK.of_res
  intro p args τ hwf hty _
  have hs := wf_shape hwf
  simp only [Op.shapeOK, beq_iff_eq] at hs
  match args, hs, hwf, hty with
  | [s, t1, t2], _, hwf, hty =>
    obtain rfl : τ = .str := typeOf_allAre (t := .str) hty rfl
    show Res _ _ (walkStrReplace p [s, t1, t2])
    unfold walkStrReplace
    simp only
    cases hc : isStrConst s with
    | none => exact str_rebuild_replace hwf hty
    | some sv =>
      cases h1 : isStrConst t1 with
      | none => exact str_rebuild_replace hwf hty
      | some v1 =>
        cases h2 : isStrConst t2 with
        | none => exact str_rebuild_replace hwf hty
        | some v2 =>
          obtain rfl := isStrConst_some hc
          obtain rfl := isStrConst_some h1
          obtain rfl := isStrConst_some h2
          refine Res.str _ (fun I _ _ => ?_)
          rw [eval_strReplace, eval_strc, eval_strc, eval_strc, Sem.sOf, Sem.sOf, Sem.sOf, pyReplaceFirst_eq]
          rfl

theorem walkStrSubstr_ok : RuleOK .strSubstr walkStrSubstr := by
  apply RuleOK.of_res
  intro p args τ hwf hty _
  have hs := wf_shape hwf
  simp only [Op.shapeOK, beq_iff_eq] at hs
  match args, hs, hwf, hty with
  | [s, i, j], _, hwf, hty =>
    obtain rfl : τ = .str := by rw [typeOf_node] at hty; exact typeOfNode_strSubstr hty
    show Res _ _ (walkStrSubstr p [s, i, j])
    unfold walkStrSubstr
    simp only
    cases hc : isStrConst s with
    | none => exact str_rebuild_substr hwf hty
    | some sv =>
      cases hi : isIntConst i with
      | none => exact str_rebuild_substr hwf hty
      | some iv =>
        cases hj : isIntConst j with
        | none => exact str_rebuild_substr hwf hty
        | some jv =>
          obtain rfl := isStrConst_some hc
          obtain rfl := isIntConst_some hi
          obtain rfl := isIntConst_some hj
          simp only
          split
          · next h =>
            refine Res.str _ (fun I _ _ => ?_)
            rw [eval_strSubstr, eval_strc, eval_intc, eval_intc, Sem.sOf, Sem.iOf, Sem.iOf, strSubstr_empty _ _ _ h]
            rfl
          · next h =>
            refine Res.str _ (fun I _ _ => ?_)
            rw [eval_strSubstr, eval_strc, eval_intc, eval_intc, Sem.sOf, Sem.iOf, Sem.iOf, pySlice_substr _ _ _ h]
            rfl

theorem walkStrPrefixOf_ok : RuleOK .strPrefixOf walkStrPrefixOf := by
  apply RuleOK.of_res
  intro p args τ hwf hty _
  have hs := wf_shape hwf
  simp only [Op.shapeOK, beq_iff_eq] at hs
  match args, hs, hwf, hty with
  | [s, t], _, hwf, hty =>
    obtain rfl : τ = .bool := typeOf_allAre (t := .str) hty rfl
    show Res _ _ (walkStrPrefixOf p [s, t])
    unfold walkStrPrefixOf
    simp only
    cases hc : isStrConst s with
    | none => exact str_rebuild2 (Or.inr (Or.inl rfl)) hwf hty
    | some sv =>
      cases ht : isStrConst t with
      | none => exact str_rebuild2 (Or.inr (Or.inl rfl)) hwf hty
      | some tv =>
        obtain rfl := isStrConst_some hc
        obtain rfl := isStrConst_some ht
        refine Res.bool _ (fun I _ _ => ?_)
        rw [eval_strPrefixOf, eval_strc, eval_strc, Sem.sOf, Sem.sOf, pyStartsWith_eq]

theorem walkStrSuffixOf_ok : RuleOK .strSuffixOf walkStrSuffixOf := by
  apply RuleOK.of_res
  intro p args τ hwf hty _
  have hs := wf_shape hwf
  simp only [Op.shapeOK, beq_iff_eq] at hs
  match args, hs, hwf, hty with
  | [s, t], _, hwf, hty =>
    obtain rfl : τ = .bool := typeOf_allAre (t := .str) hty rfl
    show Res _ _ (walkStrSuffixOf p [s, t])
    unfold walkStrSuffixOf
    simp only
    cases hc : isStrConst s with
    | none => exact str_rebuild2 (Or.inr (Or.inr rfl)) hwf hty
    | some sv =>
      cases ht : isStrConst t with
      | none => exact str_rebuild2 (Or.inr (Or.inr rfl)) hwf hty
      | some tv =>
        obtain rfl := isStrConst_some hc
        obtain rfl := isStrConst_some ht
        refine Res.bool _ (fun I _ _ => ?_)
        rw [eval_strSuffixOf, eval_strc, eval_strc, Sem.sOf, Sem.sOf, pyEndsWith_eq]

theorem walkStrToInt_ok : RuleOK .strToInt walkStrToInt := by
  apply RuleOK.of_res
  intro p args τ hwf hty _
  have hs := wf_shape hwf
  simp only [Op.shapeOK, beq_iff_eq] at hs
  match args, hs, hwf, hty with
  | [s], _, hwf, hty =>
    obtain rfl : τ = .int := typeOf_allAre (t := .str) hty rfl
    show Res _ _ (walkStrToInt p [s])
    unfold walkStrToInt
    simp only
    cases hc : isStrConst s with
    | none => exact str_rebuild1 (Or.inr (Or.inl rfl)) hwf hty
    | some v =>
      obtain rfl := isStrConst_some hc
      simp only
      have key : ∀ I : Interp, eval I (.node .strToInt [Term.str v] p) =
          .i (if pyIsAsciiDigits v.toList then pyInt v.toList else -1) := by
        intro I
        rw [eval_strToInt, eval_strc, Sem.sOf, pyToInt_eq]
      split
      · next h =>
        refine Res.int _ (fun I _ _ => ?_)
        rw [key, if_pos h]
      · next h =>
        refine Res.int _ (fun I _ _ => ?_)
        rw [key, if_neg h]

theorem walkIntToStr_ok : RuleOK .intToStr walkIntToStr := by
  apply RuleOK.of_res
  intro p args τ hwf hty _
  have hs := wf_shape hwf
  simp only [Op.shapeOK, beq_iff_eq] at hs
  match args, hs, hwf, hty with
  | [i], _, hwf, hty =>
    obtain rfl : τ = .str := typeOf_allAre (t := .int) hty rfl
    show Res _ _ (walkIntToStr p [i])
    unfold walkIntToStr
    simp only
    cases hc : isIntConst i with
    | none => exact str_rebuild1 (Or.inr (Or.inr rfl)) hwf hty
    | some v =>
      obtain rfl := isIntConst_some hc
      simp only
      split
      · next h =>
        refine Res.str _ (fun I _ _ => ?_)
        rw [eval_intToStr, eval_intc, Sem.iOf, intToStr_neg _ h]
        rfl
      · next h =>
        refine Res.str _ (fun I _ _ => ?_)
        rw [eval_intToStr, eval_intc, Sem.iOf, ← pyStr_eq _ h, mkS_toList]

/-! ## fold completeness (C02): constant arguments ⇒ constant result -/

theorem isConst_strc (v : String) : IsConst (Term.str v) := rfl
theorem isConst_intc (n : Int) : IsConst (Term.int n) := rfl
theorem isConst_boolc (b : Bool) : IsConst (Term.bool b) := rfl

/-- a well-formed scalar constant node has no argument and the payload of its sort -/
theorem const_shape {t : Term} (hwf : t.wf = true) (hc : IsConst t) :
    (∃ b, t = Term.bool b) ∨ (∃ n, t = Term.int n) ∨ (∃ q, t = Term.real q) ∨ (∃ s, t = Term.str s) ∨
      (∃ v w, t = Term.bvc v w) := by
  cases t with
  | node op args p =>
    have hs := wf_shape hwf
    have hnil : ∀ {l : List Term}, (l.length == 0) = true → l = [] := by
      intro l h; simpa using h
    simp only [IsConst, Term.op] at hc
    cases op <;> simp only [Op.isConstant, Bool.false_eq_true] at hc <;> cases p <;>
      first
      | cases hs
      | (have := hnil hs; subst this
         first
         | exact Or.inl ⟨_, rfl⟩
         | exact Or.inr (Or.inl ⟨_, rfl⟩)
         | exact Or.inr (Or.inr (Or.inl ⟨_, rfl⟩))
         | exact Or.inr (Or.inr (Or.inr (Or.inl ⟨_, rfl⟩))))
      | (simp only [Op.shapeOK, Bool.and_eq_true] at hs
         have := hnil hs.1; subst this
         exact Or.inr (Or.inr (Or.inr (Or.inr ⟨_, _, rfl⟩))))

theorem typeOf_bvc' (v w : Nat) : (Term.bvc v w).typeOf = some (.bv w) := by
  rw [Term.bvc, typeOf_node]; rfl

theorem const_str {t : Term} (hwf : t.wf = true) (hc : IsConst t) (hty : t.typeOf = some .str) :
    ∃ v, t = Term.str v := by
  rcases const_shape hwf hc with ⟨b, rfl⟩ | ⟨n, rfl⟩ | ⟨q, rfl⟩ | ⟨s, rfl⟩ | ⟨v, w, rfl⟩
  · rw [typeOf_bool] at hty; cases hty
  · rw [typeOf_int] at hty; cases hty
  · rw [typeOf_real] at hty; cases hty
  · exact ⟨s, rfl⟩
  · rw [typeOf_bvc'] at hty; cases hty

theorem const_int {t : Term} (hwf : t.wf = true) (hc : IsConst t) (hty : t.typeOf = some .int) :
    ∃ n, t = Term.int n := by
  rcases const_shape hwf hc with ⟨b, rfl⟩ | ⟨n, rfl⟩ | ⟨q, rfl⟩ | ⟨s, rfl⟩ | ⟨v, w, rfl⟩
  · rw [typeOf_bool] at hty; cases hty
  · exact ⟨n, rfl⟩
  · rw [typeOf_real] at hty; cases hty
  · rw [typeOf_strc] at hty; cases hty
  · rw [typeOf_bvc'] at hty; cases hty

theorem isStrConst_str (v : String) : isStrConst (Term.str v) = some v := rfl
theorem isIntConst_int (n : Int) : isIntConst (Term.int n) = some n := rfl

/-- the argument types of a node typed by `allAre ts t ⇒ r` -/
theorem typeOf_allAre_args {op : Op} {args : List Term} {p : Payload} {τ t r : Ty}
    (h : (Term.node op args p).typeOf = some τ)
    (hdef : typeOfNode op p (args.map Term.typeOf) =
      if allAre (args.map Term.typeOf) t then some r else none) : ∀ a ∈ args, a.typeOf = some t := by
  rw [typeOf_node, hdef] at h
  exact (ite_allAre_iff.mp h).2

theorem walkStrLength_fold : FoldOK .strLength walkStrLength := by
  refine ⟨fun p args τ hwf hty _ hc I _ => ?_⟩
  have hs := wf_shape hwf
  simp only [Op.shapeOK, beq_iff_eq] at hs
  match args, hs, hwf, hty, hc with
  | [s], _, hwf, hty, hc =>
    obtain ⟨v, rfl⟩ := const_str (wf_args hwf s (by simp)) (hc s (by simp))
      (typeOf_allAre_args (t := .str) hty rfl s (by simp))
    exact isConst_intc _

theorem strConsts_map (vs : List String) : strConsts (vs.map Term.str) = some vs := by
  induction vs with
  | nil => rfl
  | cons v vs ih => rw [List.map_cons, strConsts, isStrConst_str, ih]

theorem all_str_consts : ∀ (args : List Term), (∀ a ∈ args, a.wf = true) → (∀ a ∈ args, IsConst a) →
    (∀ a ∈ args, a.typeOf = some .str) → ∃ vs : List String, args = vs.map Term.str
  | [], _, _, _ => ⟨[], rfl⟩
  | a :: as, h1, h2, h3 => by
    obtain ⟨v, rfl⟩ := const_str (h1 a (by simp)) (h2 a (by simp)) (h3 a (by simp))
    obtain ⟨vs, rfl⟩ := all_str_consts as (fun x hx => h1 x (by simp [hx])) (fun x hx => h2 x (by simp [hx]))
      (fun x hx => h3 x (by simp [hx]))
    exact ⟨v :: vs, rfl⟩

theorem walkStrConcat_fold : FoldOK .strConcat walkStrConcat := by
  refine ⟨fun p args τ hwf hty _ hc I _ => ?_⟩
  have htys := typeOf_allAre_args (t := .str) hty rfl
  obtain ⟨vs, rfl⟩ := all_str_consts args (wf_args hwf) hc htys
  show IsConst (walkStrConcat p (vs.map Term.str))
  unfold walkStrConcat
  rw [strConsts_map]
  exact isConst_strc _

theorem walkStrCharAt_fold : FoldOK .strCharAt walkStrCharAt := by
  refine ⟨fun p args τ hwf hty _ hc I _ => ?_⟩
  have hs := wf_shape hwf
  simp only [Op.shapeOK, beq_iff_eq] at hs
  match args, hs, hwf, hty, hc with
  | [s, i], _, hwf, hty, hc =>
    rw [typeOf_node] at hty
    obtain ⟨hts, _⟩ := typeOfNode_strCharAt_inv hty
    simp only [List.map_cons, List.map_nil, List.cons.injEq, and_true] at hts
    obtain ⟨sv, rfl⟩ := const_str (wf_args hwf s (by simp)) (hc s (by simp)) hts.1
    obtain ⟨iv, rfl⟩ := const_int (wf_args hwf i (by simp)) (hc i (by simp)) hts.2
    show IsConst (walkStrCharAt p [Term.str sv, Term.int iv])
    unfold walkStrCharAt
    simp only [isStrConst_str, isIntConst_int]
    split <;> exact isConst_strc _

theorem fold2 {op : Op} {s t : Term} {p : Payload} {τ : Ty} (hwf : (Term.node op [s, t] p).wf = true)
    (hty : (Term.node op [s, t] p).typeOf = some τ) {r : Ty}
    (hdef : typeOfNode op p ([s, t].map Term.typeOf) =
      if allAre ([s, t].map Term.typeOf) .str then some r else none)
    (hc : ∀ a ∈ [s, t], IsConst a) : ∃ sv tv, s = Term.str sv ∧ t = Term.str tv := by
  have htys := typeOf_allAre_args hty hdef
  obtain ⟨sv, rfl⟩ := const_str (wf_args hwf s (by simp)) (hc s (by simp)) (htys s (by simp))
  obtain ⟨tv, rfl⟩ := const_str (wf_args hwf t (by simp)) (hc t (by simp)) (htys t (by simp))
  exact ⟨sv, tv, rfl, rfl⟩

theorem walkStrContains_fold : FoldOK .strContains walkStrContains := by
  refine ⟨fun p args τ hwf hty _ hc I _ => ?_⟩
  have hs := wf_shape hwf
  simp only [Op.shapeOK, beq_iff_eq] at hs
  match args, hs, hwf, hty, hc with
  | [s, t], _, hwf, hty, hc =>
    obtain ⟨sv, tv, rfl, rfl⟩ := fold2 hwf hty rfl hc
    exact isConst_boolc _

theorem walkStrPrefixOf_fold : FoldOK .strPrefixOf walkStrPrefixOf := by
  refine ⟨fun p args τ hwf hty _ hc I _ => ?_⟩
  have hs := wf_shape hwf
  simp only [Op.shapeOK, beq_iff_eq] at hs
  match args, hs, hwf, hty, hc with
  | [s, t], _, hwf, hty, hc =>
    obtain ⟨sv, tv, rfl, rfl⟩ := fold2 hwf hty rfl hc
    exact isConst_boolc _

theorem walkStrSuffixOf_fold : FoldOK .strSuffixOf walkStrSuffixOf := by
  refine ⟨fun p args τ hwf hty _ hc I _ => ?_⟩
  have hs := wf_shape hwf
  simp only [Op.shapeOK, beq_iff_eq] at hs
  match args, hs, hwf, hty, hc with
  | [s, t], _, hwf, hty, hc =>
    obtain ⟨sv, tv, rfl, rfl⟩ := fold2 hwf hty rfl hc
    exact isConst_boolc _

theorem walkStrIndexOf_fold : FoldOK .strIndexOf walkStrIndexOf := by
  refine ⟨fun p args τ hwf hty _ hc I _ => ?_⟩
  have hs := wf_shape hwf
  simp only [Op.shapeOK, beq_iff_eq] at hs
  match args, hs, hwf, hty, hc with
  | [s, t, i], _, hwf, hty, hc =>
    rw [typeOf_node] at hty
    obtain ⟨hts, _⟩ := typeOfNode_strIndexOf_inv hty
    simp only [List.map_cons, List.map_nil, List.cons.injEq, and_true] at hts
    obtain ⟨sv, rfl⟩ := const_str (wf_args hwf s (by simp)) (hc s (by simp)) hts.1
    obtain ⟨tv, rfl⟩ := const_str (wf_args hwf t (by simp)) (hc t (by simp)) hts.2.1
    obtain ⟨iv, rfl⟩ := const_int (wf_args hwf i (by simp)) (hc i (by simp)) hts.2.2
    show IsConst (walkStrIndexOf p [Term.str sv, Term.str tv, Term.int iv])
    unfold walkStrIndexOf
    simp only [isStrConst_str, isIntConst_int]
    split <;> exact isConst_intc _

theorem walkStrReplace_fold : FoldOK .strReplace walkStrReplace := by
  refine ⟨fun p args τ hwf hty _ hc I _ => ?_⟩
  have hs := wf_shape hwf
  simp only [Op.shapeOK, beq_iff_eq] at hs
  match args, hs, hwf, hty, hc with
  | [s, t1, t2], _, hwf, hty, hc =>
    have htys := typeOf_allAre_args (t := .str) hty rfl
    obtain ⟨sv, rfl⟩ := const_str (wf_args hwf s (by simp)) (hc s (by simp)) (htys s (by simp))
    obtain ⟨v1, rfl⟩ := const_str (wf_args hwf t1 (by simp)) (hc t1 (by simp)) (htys t1 (by simp))
    obtain ⟨v2, rfl⟩ := const_str (wf_args hwf t2 (by simp)) (hc t2 (by simp)) (htys t2 (by simp))
    exact isConst_strc _

theorem walkStrSubstr_fold : FoldOK .strSubstr walkStrSubstr := by
  refine ⟨fun p args τ hwf hty _ hc I _ => ?_⟩
  have hs := wf_shape hwf
  simp only [Op.shapeOK, beq_iff_eq] at hs
  match args, hs, hwf, hty, hc with
  | [s, i, j], _, hwf, hty, hc =>
    rw [typeOf_node] at hty
    obtain ⟨hts, _⟩ := typeOfNode_strSubstr_inv hty
    simp only [List.map_cons, List.map_nil, List.cons.injEq, and_true] at hts
    obtain ⟨sv, rfl⟩ := const_str (wf_args hwf s (by simp)) (hc s (by simp)) hts.1
    obtain ⟨iv, rfl⟩ := const_int (wf_args hwf i (by simp)) (hc i (by simp)) hts.2.1
    obtain ⟨jv, rfl⟩ := const_int (wf_args hwf j (by simp)) (hc j (by simp)) hts.2.2
    show IsConst (walkStrSubstr p [Term.str sv, Term.int iv, Term.int jv])
    unfold walkStrSubstr
    simp only [isStrConst_str, isIntConst_int]
    split <;> exact isConst_strc _

theorem walkStrToInt_fold : FoldOK .strToInt walkStrToInt := by
  refine ⟨fun p args τ hwf hty _ hc I _ => ?_⟩
  have hs := wf_shape hwf
  simp only [Op.shapeOK, beq_iff_eq] at hs
  match args, hs, hwf, hty, hc with
  | [s], _, hwf, hty, hc =>
    obtain ⟨v, rfl⟩ := const_str (wf_args hwf s (by simp)) (hc s (by simp))
      (typeOf_allAre_args (t := .str) hty rfl s (by simp))
    show IsConst (walkStrToInt p [Term.str v])
    unfold walkStrToInt
    simp only [isStrConst_str]
    split <;> exact isConst_intc _

theorem walkIntToStr_fold : FoldOK .intToStr walkIntToStr := by
  refine ⟨fun p args τ hwf hty _ hc I _ => ?_⟩
  have hs := wf_shape hwf
  simp only [Op.shapeOK, beq_iff_eq] at hs
  match args, hs, hwf, hty, hc with
  | [i], _, hwf, hty, hc =>
    obtain ⟨v, rfl⟩ := const_int (wf_args hwf i (by simp)) (hc i (by simp))
      (typeOf_allAre_args (t := .int) hty rfl i (by simp))
    show IsConst (walkIntToStr p [Term.int v])
    unfold walkIntToStr
    simp only [isIntConst_int]
    split <;> exact isConst_strc _

end PySMT.Simp.StrRules
