import PySMT.Proofs.C09HR5
/-!
# C09 (human-readable format): the serialisation of the parsed term differs at most in parentheses

`sameUpToGrouping (hrTokens (regroup t)) (hrTokens t)` on the fragment `InHRFragN`: erasing the parentheses from the tokens
of the re-grouped term gives the tokens of the term with its parentheses erased.
-/
namespace PySMT.HR.RT
open PySMT PySMT.HR PySMT.Gen.HROps

def keep (t : Tok) : Bool := t != lpar && t != rpar

theorem stripPar_nil : stripPar [] = [] := rfl
theorem stripPar_cons (t : Tok) (l : List Tok) : stripPar (t :: l) = if keep t then t :: stripPar l else stripPar l := by
  rw [stripPar, List.filter_cons]; rfl
theorem stripPar_append (a b : List Tok) : stripPar (a ++ b) = stripPar a ++ stripPar b := by
  simp only [stripPar, List.filter_append]
theorem keep_lpar : keep lpar = false := by decide
theorem keep_rpar : keep rpar = false := by decide

/-- the tokens of the arguments of a list, each preceded by a separator -/
theorem strip_flat_congr (f : Term → Term) (sep : Tok) : ∀ (as : List Term),
    (∀ x ∈ as, stripPar (hrTokens (f x)) = stripPar (hrTokens x)) →
      stripPar (((as.map f).map hrTokens).flatMap (fun y => sep :: y))
        = stripPar ((as.map hrTokens).flatMap (fun y => sep :: y))
  | [], _ => rfl
  | x :: xs, h => by
    have ih := strip_flat_congr f sep xs (fun y hy => h y (List.mem_cons_of_mem _ hy))
    simp only [List.map_cons, List.flatMap_cons, List.cons_append, stripPar_cons, stripPar_append, ih, h x (by simp)]

theorem strip_sepBy_congr (f : Term → Term) (sep : Tok) (a : Term) (as : List Term)
    (h : ∀ x ∈ a :: as, stripPar (hrTokens (f x)) = stripPar (hrTokens x)) :
    stripPar (sepBy [sep] (((a :: as).map f).map hrTokens)) = stripPar (sepBy [sep] ((a :: as).map hrTokens)) := by
  simp only [List.map_cons, sepBy_cons_flatMap, List.cons_append, List.nil_append, stripPar_append,
    strip_flat_congr f sep as (fun y hy => h y (List.mem_cons_of_mem _ hy)), h a (by simp)]

/-- the tokens of an infix application, parentheses erased -/
theorem strip_nary {op : Op} {s : String} (hs : shapeOf op = some (.naryInfix s)) (p : Payload) (a : Term) (as : List Term) :
    stripPar (hrTokens (.node op (a :: as) p))
      = stripPar (hrTokens a) ++ stripPar ((as.map hrTokens).flatMap (fun y => Tok.op s :: y)) := by
  have htoks : hrTokens (.node op (a :: as) p)
      = lpar :: ((hrTokens a ++ (as.map hrTokens).flatMap (fun y => Tok.op s :: y)) ++ [rpar]) := by
    simp [hrTokens_node, nodeToks, hs, sepBy_cons_flatMap]
  rw [htoks]
  simp only [stripPar_cons, stripPar_append, keep_lpar, keep_rpar, stripPar_nil, List.append_nil, Bool.false_eq_true,
    ↓reduceIte]

theorem strip_leftNest {op : Op} {s : String} (hs : shapeOf op = some (.naryInfix s)) (p : Payload) :
    ∀ (more : List Term) (acc : Term),
      stripPar (hrTokens (leftNest op p acc more))
        = stripPar (hrTokens acc) ++ stripPar ((more.map hrTokens).flatMap (fun y => Tok.op s :: y))
  | [], acc => by simp [leftNest, stripPar_nil]
  | y :: more, acc => by
    rw [leftNest, strip_leftNest hs p more, strip_nary hs p acc [y]]
    simp only [List.map_cons, List.map_nil, List.flatMap_cons, List.flatMap_nil, List.append_nil, stripPar_append,
      List.append_assoc]

/-- one node of the fragment: replacing the arguments by arguments with the same parenthesis-free tokens (and the same
types) keeps the parenthesis-free tokens of the node -/
theorem node_strip (f : Term → Term) (op : Op) (args args' : List Term) (p : Payload) (hmap : args' = args.map f)
    (ih : ∀ a ∈ args, stripPar (hrTokens (f a)) = stripPar (hrTokens a)) (ihty : ∀ a ∈ args, (f a).typeOf = a.typeOf)
    (h : fragNode op args' p = true) :
    stripPar (hrTokens (.node op args' p)) = stripPar (hrTokens (.node op args p)) := by
  unfold fragNode at h
  split at h
  · next s a' b' hs =>
    obtain ⟨a, b, rfl, rfl, rfl⟩ := map_eq2 hmap
    rw [strip_nary hs, strip_nary hs]
    simp only [List.map_cons, List.map_nil, List.flatMap_cons, List.flatMap_nil, List.append_nil, stripPar_cons,
      ih a (by simp), ih b (by simp)]
  · next s a' hs =>
    obtain ⟨a, rfl, rfl⟩ := map_eq1 hmap
    simp only [hrTokens_node, nodeToks, hs, List.map_cons, List.map_nil, stripPar_cons, stripPar_append,
      ih a (by simp)]
  · next s w k a' hs =>
    obtain ⟨a, rfl, rfl⟩ := map_eq1 hmap
    simp only [hrTokens_node, nodeToks, hs, hackStep, List.map_cons, List.map_nil, stripPar_cons, stripPar_append,
      ih a (by simp)]
  · next s a' hs =>
    obtain ⟨a, rfl, rfl⟩ := map_eq1 hmap
    simp only [hrTokens_node, nodeToks, hs, List.map_cons, List.map_nil, stripPar_cons, stripPar_append,
      ih a (by simp)]
  · next s a' as' hs =>
    obtain ⟨a, as, rfl, rfl, rfl⟩ := map_eq_cons hmap
    have := strip_sepBy_congr f comma a as ih
    simp only [List.map_cons] at this
    simp only [hrTokens_node, nodeToks, hs, List.map_cons, stripPar_cons, stripPar_append, this]
  · next c' a' b' hs =>
    obtain ⟨c, a, b, rfl, rfl, rfl, rfl⟩ := map_eq3 hmap
    simp only [hrTokens_node, nodeToks, hs, List.map_cons, List.map_nil, stripPar_cons, stripPar_append,
      ih a (by simp), ih b (by simp), ih c (by simp)]
  · next s vs b' hs =>
    obtain ⟨b, rfl, rfl⟩ := map_eq1 hmap
    simp only [hrTokens_node, nodeToks, hs, List.map_cons, List.map_nil]
    split
    · exact ih b (by simp)
    · simp only [stripPar_cons, stripPar_append, ih b (by simp)]
  · next w lo hi a' hs =>
    obtain ⟨a, rfl, rfl⟩ := map_eq1 hmap
    simp only [hrTokens_node, nodeToks, hs, List.map_cons, List.map_nil, stripPar_cons, stripPar_append,
      ih a (by simp)]
  · next a' i' hs =>
    obtain ⟨a, i, rfl, rfl, rfl⟩ := map_eq2 hmap
    simp only [hrTokens_node, nodeToks, hs, List.map_cons, List.map_nil, stripPar_cons, stripPar_append,
      ih a (by simp), ih i (by simp)]
  · next a' i' v' hs =>
    obtain ⟨a, i, v, rfl, rfl, rfl, rfl⟩ := map_eq3 hmap
    simp only [hrTokens_node, nodeToks, hs, List.map_cons, List.map_nil, stripPar_cons, stripPar_append,
      ih a (by simp), ih i (by simp), ih v (by simp)]
  · next idx d' hs =>
    obtain ⟨d, rfl, rfl⟩ := map_eq1 hmap
    simp only [hrTokens_node, nodeToks, hs, List.map_cons, List.map_nil, stripPar_cons, stripPar_append,
      ih d (by simp), ihty d (by simp), List.tail_cons]
  · next g a' as' hs =>
    obtain ⟨a, as, rfl, rfl, rfl⟩ := map_eq_cons hmap
    have := strip_sepBy_congr f comma a as ih
    simp only [List.map_cons] at this
    simp only [hrTokens_node, nodeToks, hs, List.map_cons, stripPar_cons, stripPar_append, this]
  · next s hs =>
    cases map_eq0 hmap; rfl
  · next p hs =>
    cases map_eq0 hmap; rfl
  · cases h

theorem strip_regroup : (t : Term) → inHRFragN t = true → stripPar (hrTokens (regroup t)) = stripPar (hrTokens t)
  | .node op args p, h => by
    rw [inHRFragN_node] at h
    simp only [Bool.and_eq_true, List.all_eq_true, List.mem_map, id, forall_exists_index, and_imp,
      forall_apply_eq_imp_iff₂] at h
    have ih : ∀ a ∈ args, stripPar (hrTokens (regroup a)) = stripPar (hrTokens a) := fun a ha =>
      strip_regroup a (h.1 a ha)
    have hn := h.2
    rw [regroup_node]
    unfold fragNodeN at hn
    split at hn
    · next s a' b' c' more' hs hmap =>
      obtain ⟨a, as, rfl, rfl, hmap2⟩ := map_eq_cons hmap.symm
      simp only [Bool.and_eq_true] at hn
      have hrn : regroupNode op (regroup a :: b' :: c' :: more') p = leftNest op p (regroup a) (b' :: c' :: more') := by
        simp [regroupNode, hs, hn.1]
      rw [List.map_cons, ← hmap2, hrn, hmap2, strip_leftNest hs, strip_nary hs,
        strip_flat_congr regroup (.op s) as (fun y hy => ih y (List.mem_cons_of_mem _ hy)), ih a (by simp)]
    · next hneg =>
      have hrn : regroupNode op (args.map regroup) p = .node op (args.map regroup) p := by
        rcases regroupNode_cases op (args.map regroup) p with ⟨s, a, b, c, more, hs, _, has, _⟩ | h'
        · exact absurd has (hneg s a b c more hs)
        · exact h'
      rw [hrn]
      exact node_strip regroup op args _ p rfl ih (fun a _ => typeOf_regroup a) hn

/-! ## the fragment with binary applications is part of the larger one, and `regroup` is the identity on it -/

theorem fragNode_nary3 {op : Op} {s : String} (hs : shapeOf op = some (.naryInfix s)) (a b c : Term) (more : List Term)
    (p : Payload) : fragNode op (a :: b :: c :: more) p = false := by
  simp [fragNode, hs]

theorem frag_subset : (t : Term) → inHRFrag t = true → regroup t = t ∧ inHRFragN t = true
  | .node op args p, h => by
    rw [inHRFrag_node] at h
    simp only [Bool.and_eq_true, List.all_eq_true, List.mem_map, id, forall_exists_index, and_imp,
      forall_apply_eq_imp_iff₂] at h
    have ih : ∀ a ∈ args, regroup a = a ∧ inHRFragN a = true := fun a ha => frag_subset a (h.1 a ha)
    have hmap : args.map regroup = args := by
      conv => rhs; rw [← List.map_id args]
      exact List.map_congr_left (fun a ha => (ih a ha).1)
    have hrn : regroupNode op args p = .node op args p := by
      rcases regroupNode_cases op args p with ⟨s, a, b, c, more, hs, _, has, _⟩ | h'
      · rw [has, fragNode_nary3 hs] at h; cases h.2
      · exact h'
    refine ⟨by rw [regroup_node, hmap, hrn], ?_⟩
    rw [inHRFragN_node, hmap]
    simp only [Bool.and_eq_true, List.all_eq_true, List.mem_map, id, forall_exists_index, and_imp,
      forall_apply_eq_imp_iff₂]
    refine ⟨fun a ha => (ih a ha).2, ?_⟩
    unfold fragNodeN
    split
    · next s a b c more hs => rw [fragNode_nary3 hs] at h; cases h.2
    · exact h.2

end PySMT.HR.RT
