import PySMT.Proofs.C08AgreeHead
/-!
# C08/C09 agreement: heads that are lists (`(_ extract i j)`, `(_ zero_extend k)`, `(_ sign_extend k)`, `(_ repeat k)`,
`(as const σ)`), and the sorted variables of a binder
-/
namespace PySMT.Parser.Agree
open PySMT PySMT.Parser PySMT.Std PySMT.Sexp

theorem rdVal_underscore (Γ : PEnv) (lone : Bool) (rest : List Sexp) :
    rdVal Γ lone (.list (.atom "_" :: rest)) = (underscore rest).map (fun v => (v, Γ.mgr)) := by
  have hp : pyTok "_" = "_" := by decide
  have ht : tableLookup "_" = some (.handler "_smtlib_underscore") := by decide
  rw [rdVal]
  simp only [hp, ht]
  simp (config := { decide := true }) only [if_false, if_true]

theorem rdVal_as (Γ : PEnv) (lone : Bool) (rest : List Sexp) :
    rdVal Γ lone (.list (.atom "as" :: rest)) = asForm Γ rest := by
  have hp : pyTok "as" = "as" := by decide
  have ht : tableLookup "as" = some (.handler "_enter_smtlib_as") := by decide
  rw [rdVal]
  simp only [hp, ht]
  simp (config := { decide := true }) only [if_false, if_true]

theorem int1_num {t : String} {k : Nat} (h : numeral? t = some k) :
    (match pyInt? (pyTok t) with | some n => (Except.ok n : Except Err Int) | none => .error .syntax) = .ok (k : Int) := by
  rw [Lit.pyInt_numeral t k h]

theorem pyTok_idx : pyTok "extract" = "extract" ∧ pyTok "zero_extend" = "zero_extend" ∧
    pyTok "sign_extend" = "sign_extend" ∧ pyTok "repeat" = "repeat" ∧
    symName? "extract" = some "extract" ∧ symName? "zero_extend" = some "zero_extend" ∧
    symName? "sign_extend" = some "sign_extend" ∧ symName? "repeat" = some "repeat" := by decide +kernel

theorem pyTok_rot : pyTok "rotate_left" = "rotate_left" ∧ pyTok "rotate_right" = "rotate_right" ∧
    symName? "rotate_left" = some "rotate_left" ∧ symName? "rotate_right" = some "rotate_right" := by decide +kernel

theorem rotEqs :
    ("rotate_left" == "extract") = false ∧ ("rotate_left" == "zero_extend") = false ∧
    ("rotate_left" == "sign_extend") = false ∧ ("rotate_left" == "repeat") = false ∧
    ("rotate_left" == "rotate_left") = true ∧
    ("rotate_right" == "extract") = false ∧ ("rotate_right" == "zero_extend") = false ∧
    ("rotate_right" == "sign_extend") = false ∧ ("rotate_right" == "repeat") = false ∧
    ("rotate_right" == "rotate_left") = false ∧ ("rotate_right" == "rotate_right") = true := by decide

theorem tokEqs :
    ("extract" == "extract") = true ∧ ("zero_extend" == "extract") = false ∧ ("zero_extend" == "zero_extend") = true ∧
    ("sign_extend" == "extract") = false ∧ ("sign_extend" == "zero_extend") = false ∧
    ("sign_extend" == "sign_extend") = true ∧ ("repeat" == "extract") = false ∧ ("repeat" == "zero_extend") = false ∧
    ("repeat" == "sign_extend") = false ∧ ("repeat" == "repeat") = true := by decide

theorem ne_true {b : Bool} (h : b = false) : ¬ b = true := by simp [h]

theorem underscore_extract (i j : String) (ni nj : Nat) (hi : numeral? i = some ni) (hj : numeral? j = some nj) :
    underscore [.atom "extract", .atom i, .atom j] = .ok (.fn (.extract (ni : Int) (nj : Int))) := by
  unfold underscore
  simp only [pyTok_idx.1]
  rw [if_pos tokEqs.1]
  simp only [Lit.pyInt_numeral i ni hi, Lit.pyInt_numeral j nj hj, bind, Except.bind]

theorem underscore_zext (k : String) (nk : Nat) (hk : numeral? k = some nk) :
    underscore [.atom "zero_extend", .atom k] = .ok (.fn (.zext (nk : Int))) := by
  unfold underscore
  simp only [pyTok_idx.2.1]
  rw [if_neg (ne_true tokEqs.2.1), if_pos tokEqs.2.2.1]
  simp only [Lit.pyInt_numeral k nk hk, Except.map]

theorem underscore_sext (k : String) (nk : Nat) (hk : numeral? k = some nk) :
    underscore [.atom "sign_extend", .atom k] = .ok (.fn (.sext (nk : Int))) := by
  unfold underscore
  simp only [pyTok_idx.2.2.1]
  rw [if_neg (ne_true tokEqs.2.2.2.1), if_neg (ne_true tokEqs.2.2.2.2.1), if_pos tokEqs.2.2.2.2.2.1]
  simp only [Lit.pyInt_numeral k nk hk, Except.map]

theorem underscore_repeat (k : String) (nk : Nat) (hk : numeral? k = some nk) :
    underscore [.atom "repeat", .atom k] = .ok (.fn (.rep (nk : Int))) := by
  unfold underscore
  simp only [pyTok_idx.2.2.2.1]
  rw [if_neg (ne_true tokEqs.2.2.2.2.2.2.1), if_neg (ne_true tokEqs.2.2.2.2.2.2.2.1),
    if_neg (ne_true tokEqs.2.2.2.2.2.2.2.2.1), if_pos tokEqs.2.2.2.2.2.2.2.2.2]
  simp only [Lit.pyInt_numeral k nk hk, Except.map]

theorem underscore_rol (k : String) (nk : Nat) (hk : numeral? k = some nk) :
    underscore [.atom "rotate_left", .atom k] = .ok (.fn (.rol (nk : Int))) := by
  unfold underscore
  simp only [pyTok_rot.1]
  rw [if_neg (ne_true rotEqs.1), if_neg (ne_true rotEqs.2.1), if_neg (ne_true rotEqs.2.2.1),
    if_neg (ne_true rotEqs.2.2.2.1), if_pos rotEqs.2.2.2.2.1]
  simp only [Lit.pyInt_numeral k nk hk, Except.map]

theorem underscore_ror (k : String) (nk : Nat) (hk : numeral? k = some nk) :
    underscore [.atom "rotate_right", .atom k] = .ok (.fn (.ror (nk : Int))) := by
  unfold underscore
  simp only [pyTok_rot.2.1]
  rw [if_neg (ne_true rotEqs.2.2.2.2.2.1), if_neg (ne_true rotEqs.2.2.2.2.2.2.1),
    if_neg (ne_true rotEqs.2.2.2.2.2.2.2.1), if_neg (ne_true rotEqs.2.2.2.2.2.2.2.2.1),
    if_neg (ne_true rotEqs.2.2.2.2.2.2.2.2.2.1), if_pos rotEqs.2.2.2.2.2.2.2.2.2.2]
  simp only [Lit.pyInt_numeral k nk hk, Except.map]

theorem isToBv_ne (u f : String) (x : Sexp) (h : (pyTok u == "_" && pyTok f == "to_bv") = false) :
    isToBvS (.list [.atom u, .atom f, x]) = none := by
  simp only [isToBvS]
  cases x <;> simp [isToBv, h]

theorem indices_one {k : String} {ns : List Nat} (h : indices [.atom k] = some ns) :
    ∃ nk, numeral? k = some nk ∧ ns = [nk] := by
  simp only [indices] at h
  cases hk : numeral? k with
  | none => simp [hk] at h
  | some nk => simp only [hk, Option.some.injEq] at h; exact ⟨nk, rfl, h.symm⟩

theorem indices_two {i j : String} {ns : List Nat} (h : indices [.atom i, .atom j] = some ns) :
    ∃ ni nj, numeral? i = some ni ∧ numeral? j = some nj ∧ ns = [ni, nj] := by
  simp only [indices] at h
  cases hi : numeral? i with
  | none => simp [hi] at h
  | some ni =>
    cases hj : numeral? j with
    | none => simp [hi, hj] at h
    | some nj => simp only [hi, hj, Option.some.injEq] at h; exact ⟨ni, nj, rfl, rfl, h.symm⟩

/-- a head that is a list: the parser evaluates it to the function the standard applies -/
theorem head_agree (env : SEnv) (sc : List Binding) (Γ : PEnv) (hc : Corr env sc Γ) (hd : List Sexp)
    (hf : fragHead hd = true) (as : List TT) (u : Term) (τ : Ty) (hargs : ∀ a ∈ as, TOK (mkNorm a.1) a.2)
    (hrot : ∀ f k kk, hd = [.atom "_", .atom f, .atom k] → (f = "rotate_left" ∨ f = "rotate_right") →
      numeral? k = some kk → ∀ a ∈ as, ∀ m, a.2 = .bv m → kk ≤ m)
    (hstd : applyHead env hd as = .ok (u, τ)) :
    ∃ fn, isToBvS (.list hd) = none ∧ rdVal Γ false (.list hd) = .ok (.fn fn, Γ.mgr) ∧ Agrees fn as u τ := by
  match hd, hf with
  | [.atom u', .atom f, .atom i, .atom j], hf =>
    simp only [fragHead, Bool.and_eq_true, beq_iff_eq] at hf
    obtain ⟨rfl, rfl⟩ := hf
    simp only [applyHead, pyTok_idx.2.2.2.2.1] at hstd
    cases hidx : indices [.atom i, .atom j] with
    | none => simp [hidx] at hstd
    | some ns =>
      obtain ⟨ni, nj, hi, hj, rfl⟩ := indices_two hidx
      simp only [hidx, List.isEmpty_cons, Bool.false_eq_true, if_false] at hstd
      refine ⟨.extract ni nj, rfl, ?_, ag_extract ni nj as u τ hargs hstd⟩
      rw [rdVal_underscore, underscore_extract i j ni nj hi hj]; rfl
  | [.atom u', .atom f, x], hf =>
    simp only [fragHead, Bool.or_eq_true, Bool.and_eq_true, beq_iff_eq] at hf
    rcases hf with ⟨⟨rfl, hf⟩, hx⟩ | ⟨⟨rfl, hcst⟩, hsort⟩
    · match x, hx with
      | .atom k, _ =>
        have hund : pyTok "_" = "_" := by decide
        rcases hf with (((rfl | rfl) | rfl) | rfl) | rfl
        · simp only [applyHead, pyTok_idx.2.2.2.2.2.1] at hstd
          cases hidx : indices [.atom k] with
          | none => simp [hidx] at hstd
          | some ns =>
            obtain ⟨nk, hk, rfl⟩ := indices_one hidx
            simp only [hidx, List.isEmpty_cons, Bool.false_eq_true, if_false] at hstd
            refine ⟨.zext nk, isToBv_ne _ _ _ (by rw [hund]; decide), ?_, ag_zext nk as u τ hargs hstd⟩
            rw [rdVal_underscore, underscore_zext k nk hk]; rfl
        · simp only [applyHead, pyTok_idx.2.2.2.2.2.2.1] at hstd
          cases hidx : indices [.atom k] with
          | none => simp [hidx] at hstd
          | some ns =>
            obtain ⟨nk, hk, rfl⟩ := indices_one hidx
            simp only [hidx, List.isEmpty_cons, Bool.false_eq_true, if_false] at hstd
            refine ⟨.sext nk, isToBv_ne _ _ _ (by rw [hund]; decide), ?_, ag_sext nk as u τ hargs hstd⟩
            rw [rdVal_underscore, underscore_sext k nk hk]; rfl
        · simp only [applyHead, pyTok_idx.2.2.2.2.2.2.2] at hstd
          cases hidx : indices [.atom k] with
          | none => simp [hidx] at hstd
          | some ns =>
            obtain ⟨nk, hk, rfl⟩ := indices_one hidx
            simp only [hidx, List.isEmpty_cons, Bool.false_eq_true, if_false] at hstd
            refine ⟨.rep nk, isToBv_ne _ _ _ (by rw [hund]; decide), ?_, ag_repeat nk as u τ hargs hstd⟩
            rw [rdVal_underscore, underscore_repeat k nk hk]; rfl
        · simp only [applyHead, pyTok_rot.2.2.1] at hstd
          cases hidx : indices [.atom k] with
          | none => simp [hidx] at hstd
          | some ns =>
            obtain ⟨nk, hk, rfl⟩ := indices_one hidx
            simp only [hidx, List.isEmpty_cons, Bool.false_eq_true, if_false] at hstd
            refine ⟨.rol nk, isToBv_ne _ _ _ (by rw [hund]; decide), ?_,
              ag_rol nk as u τ hargs (hrot _ _ nk rfl (Or.inl rfl) hk) hstd⟩
            rw [rdVal_underscore, underscore_rol k nk hk]; rfl
        · simp only [applyHead, pyTok_rot.2.2.2] at hstd
          cases hidx : indices [.atom k] with
          | none => simp [hidx] at hstd
          | some ns =>
            obtain ⟨nk, hk, rfl⟩ := indices_one hidx
            simp only [hidx, List.isEmpty_cons, Bool.false_eq_true, if_false] at hstd
            refine ⟨.ror nk, isToBv_ne _ _ _ (by rw [hund]; decide), ?_,
              ag_ror nk as u τ hargs (hrot _ _ nk rfl (Or.inr rfl) hk) hstd⟩
            rw [rdVal_underscore, underscore_ror k nk hk]; rfl
    · -- (as const σ)
      have has : pyTok "as" = "as" := by decide
      have hnb : isToBvS (.list [.atom "as", .atom f, x]) = none :=
        isToBv_ne _ _ _ (by rw [has, show ("as" == "_") = false from by decide]; rfl)
      have hstd' := hstd
      unfold applyHead at hstd'
      split at hstd'
      · rename_i heq; simp at heq
      · rename_i heq
        simp only [List.cons.injEq, Sexp.atom.injEq, and_true, true_and] at heq
        obtain ⟨rfl, rfl⟩ := heq
        simp only [hcst, beq_self_eq_true, if_true] at hstd'
        cases hs : sortStd env x with
        | error e => simp [hs] at hstd'
        | ok ty =>
          cases ty with
          | array it et =>
            have hrt := readTy_agree env sc Γ hc Lit.pyInt_numeral x _ hsort hs
            refine ⟨.asConst it, hnb, ?_, ag_asconst env f x it et hcst hs as u τ hargs hstd⟩
            rw [rdVal_as]
            simp only [asForm, hrt, pyTok_sym hcst, beq_self_eq_true, if_true]
          | _ => simp [hs] at hstd' <;> (split at hstd' <;> simp_all)
      · rename_i h1 h2
        exact absurd rfl (h2 _ _)

/-- the parser on an application whose head is a list that evaluates to a function -/
theorem rdVal_head (Γ : PEnv) (lone : Bool) (hd rest : List Sexp) (fn : Fn) (σ : MgrSt)
    (hnb : isToBvS (.list hd) = none) (hh : rdVal Γ false (.list hd) = .ok (.fn fn, σ)) :
    rdVal Γ lone (.list (.list hd :: rest)) =
      (match rdArgs { Γ with mgr := σ } rest with
       | .ok (vals, σ') => (applyFn fn vals).map (fun v => (v, σ'))
       | .error e => .error e) := by
  rw [rdVal]
  · simp only [hnb, hh]
    cases rdArgs { Γ with mgr := σ } rest <;> rfl
  · intro _ h; cases h
  · intro _ h; cases h

end PySMT.Parser.Agree
