import PySMT.Proofs.C08Agree0
/-!
# C08/C09 agreement: the two sort readers (`Std.sortStd` and the parser's `readTy`) on plain sorts

`FragSort`: `Bool Int Real String`, a sort symbol (declared with arity 0, or a sort abbreviation), `(_ BitVec n)`,
`(Array σ τ)`. Applications of declared sort symbols of positive arity (`(Pair Int Int)`) are excluded.
On this fragment, in corresponding environments, whatever the standard reads, the parser reads the same.

`hnum` (Python's `int()` reads a numeral token as its value) is `PySMT.Parser.Lit.pyInt_numeral` of `Proofs/C08Lit.lean`;
it is a hypothesis here so that this file does not depend on that one.
-/
namespace PySMT.Parser.Agree
open PySMT PySMT.Parser PySMT.Std PySMT.Sexp

/-- the two index positions of `(_ BitVec n)` are atoms -/
def isIdx2 : List Sexp → Bool
  | [.atom _, .atom _] => true
  | _ => false

mutual
/-- sorts both readers understand the same way: `Bool Int Real String`, a declared sort symbol of arity 0 or a sort
abbreviation, `(_ BitVec n)`, `(Array σ τ)` -/
def FragSort : Sexp → Bool
  | .atom _ => true
  | .str _ => false
  | .list [] => false
  | .list (.atom h :: rest) =>
    if h == "_" then isIdx2 rest
    else symName? h == some "Array" && rest.length == 2 && FragSortL rest
  | .list (_ :: _) => false
def FragSortL : List Sexp → Bool
  | [] => true
  | s :: r => FragSort s && FragSortL r
end

theorem pyTok_of_symName {tok n : String} (h : symName? tok = some n) : pyTok tok = n := by
  simp [pyTok, h]

theorem pyTok_underscore : pyTok "_" = "_" := by decide

/-- a sort symbol: the four built-in names, then the declared sorts, then the abbreviations -/
theorem readTy_atom (env : SEnv) (sc : List Binding) (Γ : PEnv) (hc : Corr env sc Γ) (tok : String) (ty : Ty)
    (hstd : sortStd env (.atom tok) = .ok ty) : readTy Γ.binds [] (.atom tok) = .ok ty := by
  rw [sortStd] at hstd
  rw [readTy]
  cases hn : symName? tok with
  | none => simp [hn] at hstd
  | some n =>
    simp only [hn] at hstd
    simp only [pyTok_of_symName hn, List.contains_nil, Bool.false_eq_true, if_false]
    cases h1 : (n == "Bool") with
    | true => simp only [h1, if_true, Except.ok.injEq] at hstd ⊢; exact hstd
    | false =>
    cases h2 : (n == "Int") with
    | true => simp only [h1, h2, Bool.false_eq_true, if_true, if_false, Except.ok.injEq] at hstd ⊢; exact hstd
    | false =>
    cases h3 : (n == "Real") with
    | true => simp only [h1, h2, h3, Bool.false_eq_true, if_true, if_false, Except.ok.injEq] at hstd ⊢; exact hstd
    | false =>
    cases h4 : (n == "String") with
    | true => simp only [h1, h2, h3, h4, Bool.false_eq_true, if_true, if_false, Except.ok.injEq] at hstd ⊢; exact hstd
    | false =>
    simp only [h1, h2, h3, h4, Bool.false_eq_true, if_false] at hstd ⊢
    cases hl : env.lookupSort n with
    | some k =>
      simp only [hl] at hstd
      cases k with
      | zero =>
        simp only [Except.ok.injEq] at hstd
        subst hstd
        simp only [hc.sorts n hl]
      | succ k => simp at hstd
    | none =>
      simp only [hl] at hstd
      cases ha : env.lookupAlias n with
      | some ty' =>
        simp only [ha, Except.ok.injEq] at hstd
        subst hstd
        simp only [hc.aliases n ty' hl ha]
      | none => simp [ha] at hstd

theorem readTy_agree (env : SEnv) (sc : List Binding) (Γ : PEnv) (hc : Corr env sc Γ)
    (hnum : ∀ w k, numeral? w = some k → pyInt? (pyTok w) = some (k : Int)) :
    ∀ (s : Sexp) (ty : Ty), FragSort s = true → sortStd env s = .ok ty → readTy Γ.binds [] s = .ok ty
  | .atom tok, ty, _, hstd => readTy_atom env sc Γ hc tok ty hstd
  | .str _, _, hf, _ => by simp [FragSort] at hf
  | .list [], _, hf, _ => by simp [FragSort] at hf
  | .list (.str _ :: _), _, hf, _ => by simp [FragSort] at hf
  | .list (.list _ :: _), _, hf, _ => by simp [FragSort] at hf
  | .list (.atom h :: rest), ty, hf, hstd => by
    rw [FragSort] at hf
    by_cases hu : (h == "_") = true
    · have hu' : h = "_" := by simpa using hu
      subst hu'
      simp only [beq_self_eq_true, if_true] at hf
      match rest, hf with
      | [.atom b, .atom w], _ =>
        rw [sortStd] at hstd
        rw [readTy]
        simp only [pyTok_underscore]
        simp (config := { decide := true }) only [if_false, if_true]
        split at hstd
        · rename_i hb
          have hb' : symName? b = some "BitVec" := by simpa using hb
          simp only [pyTok_of_symName hb', beq_self_eq_true, if_true]
          cases hk : numeral? w with
          | none => simp [hk] at hstd
          | some k =>
            simp only [hk] at hstd
            split at hstd
            · cases hstd
              simp only [hnum w k hk]
              have : ¬ ((k : Int) < 0) := by omega
              simp only [this, if_false, Int.toNat_natCast]
            · cases hstd
        · cases hstd
    · simp only [hu, Bool.false_eq_true, if_false, Bool.and_eq_true, beq_iff_eq] at hf
      obtain ⟨⟨hA, hlen⟩, hfl⟩ := hf
      match rest, hlen, hfl with
      | [i, e], _, hfl =>
        rw [FragSortL, FragSortL, FragSortL] at hfl
        simp only [Bool.and_eq_true, Bool.and_true] at hfl
        have ihi := readTy_agree env sc Γ hc hnum i
        have ihe := readTy_agree env sc Γ hc hnum e
        have hne : h ≠ "_" := by simpa using hu
        rw [sortStd] at hstd
        · simp only [hA, sortStdList] at hstd
          cases hi : sortStd env i with
          | error err => simp [hi] at hstd
          | ok ti =>
            cases he : sortStd env e with
            | error err => simp [hi, he] at hstd
            | ok te =>
              simp only [hi, he, beq_self_eq_true, if_true, Except.ok.injEq] at hstd
              subst hstd
              rw [readTy]
              simp only [pyTok_of_symName hA, beq_self_eq_true, if_true, ihi ti hfl.1 hi, ihe te hfl.2 he,
                bind, Except.bind]
        · intro b w _ hh
          exact hne hh

end PySMT.Parser.Agree
