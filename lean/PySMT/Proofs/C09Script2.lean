import PySMT.Proofs.C09Script1
/-!
# C09: print → parse for the SCRIPT of a formula (tree form of the assertion)

`script_print_parse_exact`: pySMT's parser (model `Parser.script`) reads the text of `smtlibscript_from_formula(f).serialize`
(model `scriptOfFormula logic false f`) as exactly the commands the script was made of: `set-logic`, one `declare-sort`
per declared sort, one `declare-fun` per free symbol, `assert f` (array values as store chains), `check-sat`.
`envAfter_decls`: after the declarations the parser's cache is the one of `penvOf (scriptEnv logic f)`, and its formula
manager holds exactly the declared symbols.
-/
namespace PySMT.Parser.Agree
open PySMT PySMT.Parser PySMT.Std PySMT.Sexp PySMT.Printer

/-! ## `script` and `envAfter` over an append -/

theorem script_cons_ok {Γ Γ' : PEnv} {c : Sexp} {k : Command} (h : cmd Γ c = .ok (Γ', k)) (rest : List Sexp) :
    script Γ (c :: rest) = (script Γ' rest).map (k :: ·) := by
  simp only [script, h]

theorem envAfter_cons_ok {Γ Γ' : PEnv} {c : Sexp} {k : Command} (h : cmd Γ c = .ok (Γ', k)) (rest : List Sexp) :
    envAfter Γ (c :: rest) = envAfter Γ' rest := by
  simp only [envAfter, h]

theorem script_append : ∀ (l1 l2 : List Sexp) (Γ Γ' : PEnv) (k1 : List Command),
    envAfter Γ l1 = .ok Γ' → script Γ l1 = .ok k1 →
    script Γ (l1 ++ l2) = (script Γ' l2).map (k1 ++ ·) ∧ envAfter Γ (l1 ++ l2) = envAfter Γ' l2
  | [], l2, Γ, Γ', k1, he, hs => by
    simp only [envAfter, Except.ok.injEq] at he
    simp only [script, Except.ok.injEq] at hs
    subst he; subst hs
    refine ⟨?_, rfl⟩
    show script Γ l2 = _
    cases script Γ l2 <;> rfl
  | c :: l1, l2, Γ, Γ', k1, he, hs => by
    cases hc : cmd Γ c with
    | error e => simp [envAfter, hc] at he
    | ok r =>
      obtain ⟨Γ1, k⟩ := r
      rw [envAfter_cons_ok hc] at he
      rw [script_cons_ok hc] at hs
      cases hs1 : script Γ1 l1 with
      | error e => simp [hs1, Except.map] at hs
      | ok k1' =>
        simp only [hs1, Except.map, Except.ok.injEq] at hs
        subst hs
        obtain ⟨ih1, ih2⟩ := script_append l1 l2 Γ1 Γ' k1' he hs1
        rw [List.cons_append, script_cons_ok hc, envAfter_cons_ok hc, ih1, ih2]
        refine ⟨?_, rfl⟩
        cases script Γ' l2 <;> rfl

/-! ## the declarations -/

theorem run_declareSorts (ia : Option Bool) : ∀ (ds : List (String × Nat)) (sorts : List (String × Nat)),
    (∀ d ∈ ds, d.1.toList.all nameChar = true ∧ isReserved d.1 = false ∧ d.1 ∉ sorts.map (·.1)) →
    allDistinct (ds.map (·.1)) = true →
    envAfter (pSt ia sorts []) (ds.map declareSort) = .ok (pSt ia (ds.reverse ++ sorts) []) ∧
      script (pSt ia sorts []) (ds.map declareSort) = .ok (ds.map (fun d => Command.declareSort d.1 d.2))
  | [], sorts, _, _ => ⟨rfl, rfl⟩
  | d :: ds, sorts, h, hd => by
    obtain ⟨h1, h2, h3⟩ := h d (by simp)
    simp only [allDistinct, List.map_cons, Bool.and_eq_true, Bool.not_eq_true'] at hd
    have hstep := cmd_declareSort ia sorts d h1 h2 h3
    obtain ⟨ih1, ih2⟩ := run_declareSorts ia ds (d :: sorts) (by
      intro d' hd'
      obtain ⟨g1, g2, g3⟩ := h d' (List.mem_cons_of_mem _ hd')
      refine ⟨g1, g2, ?_⟩
      simp only [List.map_cons, List.mem_cons, not_or]
      refine ⟨?_, g3⟩
      intro e
      have : d'.1 ∈ ds.map (·.1) := List.mem_map.2 ⟨d', hd', rfl⟩
      rw [e] at this
      have hc : d.1 ∉ ds.map (·.1) := by simpa using hd.1
      exact hc this) hd.2
    simp only [List.map_cons]
    rw [envAfter_cons_ok hstep, script_cons_ok hstep, ih1, ih2]
    refine ⟨?_, rfl⟩
    simp only [List.reverse_cons, List.append_assoc, List.singleton_append]

theorem envOK_pname {env : SEnv} (h : envOK env = true) {s : Sym} (hs : s ∈ env.funs) : pnameOK s.name = true := by
  simp only [envOK, Bool.and_eq_true, List.all_eq_true] at h
  have := (h.1.1.2 s hs).1
  simp only [nameOK1, Bool.and_eq_true] at this
  exact this.1.1

theorem run_declareFuns (logic : String) (ia : Option Bool) (sorts : List (String × Nat))
    (hia : ia.getD true = !(realsOnlyLogics.contains logic)) : ∀ (fs : List Sym) (funs : List Sym),
    envOK { logic := logic, sorts := sorts, funs := fs.reverse ++ funs } = true →
    (∀ s ∈ fs, nameFine s.name = true ∧ s.name ∉ funs.map (·.name)
      ∧ SortOK { logic := logic, sorts := sorts, funs := [] } s.ret = true
      ∧ ∀ t ∈ s.params, SortOK { logic := logic, sorts := sorts, funs := [] } t = true) →
    allDistinct (fs.map (·.name)) = true →
    envAfter (pSt ia sorts funs) (fs.map declareFun) = .ok (pSt ia sorts (fs.reverse ++ funs)) ∧
      script (pSt ia sorts funs) (fs.map declareFun) = .ok (fs.map (Command.declare "declare-fun"))
  | [], funs, _, _, _ => ⟨rfl, rfl⟩
  | s :: fs, funs, henv, h, hd => by
    obtain ⟨h1, h2, h3, h4⟩ := h s (by simp)
    simp only [allDistinct, List.map_cons, Bool.and_eq_true, Bool.not_eq_true'] at hd
    have hc : ∀ ty, SortOK ({ logic := logic, sorts := sorts, funs := funs } : SEnv) ty
        = SortOK { logic := logic, sorts := sorts, funs := [] } ty := fun ty =>
      SortOK_congr (env1 := { logic := logic, sorts := sorts, funs := funs })
        (env2 := { logic := logic, sorts := sorts, funs := [] }) rfl ty
    have henv' : envOK { logic := logic, sorts := sorts, funs := fs.reverse ++ (s :: funs) } = true := by
      simpa only [List.reverse_cons, List.append_assoc, List.singleton_append] using henv
    have henv0 : envOK { logic := logic, sorts := sorts, funs := funs } = true :=
      envOK_suffix logic sorts (fs.reverse ++ [s]) funs (by
        simpa only [List.reverse_cons, List.append_assoc, List.singleton_append] using henv)
    have hpn : pnameOK s.name = true := envOK_pname henv' (s := s) (by simp)
    have hstep := cmd_declareFun logic ia sorts funs s (corr_pSt logic ia sorts funs henv0 hia) h1 hpn h2
      (by rw [hc]; exact h3) (fun t ht => by rw [hc]; exact h4 t ht)
    obtain ⟨ih1, ih2⟩ := run_declareFuns logic ia sorts hia fs (s :: funs) henv' (by
      intro s' hs'
      obtain ⟨g1, g2, g3, g4⟩ := h s' (List.mem_cons_of_mem _ hs')
      refine ⟨g1, ?_, g3, g4⟩
      simp only [List.map_cons, List.mem_cons, not_or]
      refine ⟨?_, g2⟩
      intro e
      have : s'.name ∈ fs.map (·.name) := List.mem_map.2 ⟨s', hs', rfl⟩
      rw [e] at this
      have hc' : s.name ∉ fs.map (·.name) := by simpa using hd.1
      exact hc' this) hd.2
    simp only [List.map_cons]
    rw [envAfter_cons_ok hstep, script_cons_ok hstep, ih1, ih2]
    refine ⟨?_, rfl⟩
    simp only [List.reverse_cons, List.append_assoc, List.singleton_append]

/-! ## the assertion -/

/-- `parse_print_id_st` with the sort pySMT's checker gives the result -/
theorem parse_print_id_ty (env : SEnv) (ρ : List (String × Sym)) (Γ : PEnv) (hc : Corr env [] Γ) (hm : MgrLe Γ.mgr ρ)
    (t : Term) (hP : Printable env [] t = true) (hQ : parseOK env ρ t = true) (hN : mgrNormal t = true) :
    ∃ σ', readTermSt Γ (toSexp t) = .ok (unfoldAV t, σ') ∧ MgrLe σ' ρ ∧ (unfoldAV t).typeOf = t.typeOf := by
  obtain ⟨τ, hty, hrd⟩ := read_toSexp_sort env t hP
  simp only [readStdTy, List.reverse_nil, List.map_nil] at hrd
  have hfrag := fragS_toSexp_tree env ρ t [] hP hQ
  obtain ⟨σ', hv, hm', htok⟩ := agree env ρ (toSexp t) hfrag [] Γ true hc hm (rotOK_toSexp_tree env t hP) (unfoldAV t) τ hrd
  rw [mkNorm_unfoldAV env t hP hN] at hv htok
  exact ⟨σ', by simp only [readTermSt, hv], hm', by rw [htok.ty, hty]⟩

theorem cmd_assert (env : SEnv) (ρ : List (String × Sym)) (Γ : PEnv) (hc : Corr env [] Γ) (hm : MgrLe Γ.mgr ρ)
    (t : Term) (hb : t.typeOf = some .bool) (hP : Printable env [] t = true) (hQ : parseOK env ρ t = true)
    (hN : mgrNormal t = true) :
    ∃ σ', cmd Γ (.list [.atom "assert", toSexp t]) = .ok ({ Γ with mgr := σ' }, .assert (unfoldAV t)) ∧ MgrLe σ' ρ := by
  obtain ⟨σ', hr, hm', hty⟩ := parse_print_id_ty env ρ Γ hc hm t hP hQ hN
  refine ⟨σ', ?_, hm'⟩
  rw [cmd_assert_eq]
  simp only [cmdAssert, hr, hty, hb, beq_self_eq_true, if_true]

theorem cmd_checkSat (Γ : PEnv) : cmd Γ (.list [.atom "check-sat"]) = .ok (Γ, .plain "check-sat" []) := by
  rw [cmd_checkSat_eq]
  rfl

/-! ## the script -/

/-- the commands `smtlibscript_from_formula(f, logic)` consists of, as the parser's `Command`s -/
def scriptCommands (logic : String) (t : Term) : List Command :=
  [Command.setLogic ((logicEntry logic).map (·.1))]
    ++ (sortDecls t).map (fun d => Command.declareSort d.1 d.2)
    ++ t.fv.eraseDups.map (Command.declare "declare-fun")
    ++ [Command.assert (unfoldAV t), Command.plain "check-sat" []]

theorem logicOK_ia (logic : String) (hl : logicOK logic = true) :
    ((logicEntry logic).map (·.2)).getD true = !(realsOnlyLogics.contains logic) := by
  unfold logicOK at hl
  unfold logicEntry
  cases h : Gen.ParserOps.logics.find? (fun e => lower e.1 == lower logic) with
  | none => simp only [h] at hl; simpa using hl
  | some e =>
    obtain ⟨n, ia⟩ := e
    simp only [h, beq_iff_eq] at hl
    simp [hl]

/-- the declarations of `scriptOfFormula`: what `ScriptOK` says about them -/
theorem scriptOK_decls {logic : String} {t : Term} (h : ScriptOK logic t = true) :
    isSimpleSymbolChars logic.toList = true ∧ isReserved logic = false ∧
    allDistinct ((sortDecls t).map (·.1)) = true ∧
    (∀ d ∈ sortDecls t, d.1.toList.all nameChar = true ∧ isReserved d.1 = false) ∧
    allDistinct (t.fv.eraseDups.map (·.name)) = true ∧
    (∀ s ∈ t.fv.eraseDups, nameFine s.name = true ∧ SortOK (scriptEnv logic t) s.ret = true ∧
      ∀ ty ∈ s.params, SortOK (scriptEnv logic t) ty = true) := by
  simp only [ScriptOK, Bool.and_eq_true, Bool.not_eq_true', beq_iff_eq] at h
  obtain ⟨⟨⟨⟨⟨⟨⟨hls, hlr⟩, hsd⟩, hsf⟩, hfd⟩, hff⟩, _⟩, _⟩ := h
  rw [List.all_eq_true] at hsf hff
  refine ⟨hls, hlr, hsd, ?_, hfd, ?_⟩
  · intro d hd
    have := hsf d hd
    simp only [Bool.and_eq_true, Bool.not_eq_true'] at this
    exact ⟨this.1.1, this.1.2⟩
  · intro s hs
    have := hff s hs
    simp only [Bool.and_eq_true, List.all_eq_true] at this
    exact ⟨this.1.1, this.1.2, this.2⟩

/-- **After the declarations** of the script of a formula, the parser's environment is `pSt` of the declared sorts and
symbols: its cache is the cache of `penvOf (scriptEnv logic t)` (`pSt_binds`), its formula manager holds exactly the
declared symbols — and it corresponds to the standard environment `scriptEnv logic t` that `runStd` builds from the same
commands (`decls_before_use_partial`). -/
theorem envAfter_decls (logic : String) (t : Term) (hs : ScriptOK logic t = true) (hl : logicOK logic = true)
    (henv : envOK (scriptEnv logic t) = true) :
    envAfter PEnv.init ([Sexp.list [.atom "set-logic", atomOfText logic]] ++ (sortDecls t).map declareSort
        ++ t.fv.eraseDups.map declareFun)
      = .ok (pSt ((logicEntry logic).map (·.2)) (sortDecls t).reverse t.fv.eraseDups.reverse) ∧
    script PEnv.init ([Sexp.list [.atom "set-logic", atomOfText logic]] ++ (sortDecls t).map declareSort
        ++ t.fv.eraseDups.map declareFun)
      = .ok ([Command.setLogic ((logicEntry logic).map (·.1))]
          ++ (sortDecls t).map (fun d => Command.declareSort d.1 d.2)
          ++ t.fv.eraseDups.map (Command.declare "declare-fun")) ∧
    Corr (scriptEnv logic t) [] (pSt ((logicEntry logic).map (·.2)) (sortDecls t).reverse t.fv.eraseDups.reverse) := by
  obtain ⟨hls, hlr, hsd, hsf, hfd, hff⟩ := scriptOK_decls hs
  have hia := logicOK_ia logic hl
  have h0 := cmd_setLogic logic hls hlr
  obtain ⟨a1, a2⟩ := run_declareSorts ((logicEntry logic).map (·.2)) (sortDecls t) []
    (fun d hd => ⟨(hsf d hd).1, (hsf d hd).2, by simp⟩) hsd
  rw [List.append_nil] at a1
  obtain ⟨b1, b2⟩ := run_declareFuns logic ((logicEntry logic).map (·.2)) (sortDecls t).reverse hia t.fv.eraseDups []
    (by rw [List.append_nil]; exact henv)
    (fun s hs' => by
      obtain ⟨g1, g2, g3⟩ := hff s hs'
      refine ⟨g1, by simp, ?_, ?_⟩
      · rw [← g2]
        exact SortOK_congr (env1 := { logic := logic, sorts := (sortDecls t).reverse, funs := [] })
          (env2 := scriptEnv logic t) rfl _
      · intro ty hty
        rw [← g3 ty hty]
        exact SortOK_congr (env1 := { logic := logic, sorts := (sortDecls t).reverse, funs := [] })
          (env2 := scriptEnv logic t) rfl _) hfd
  rw [List.append_nil] at b1
  obtain ⟨c1, c2⟩ := script_append _ (t.fv.eraseDups.map declareFun) _ _ _ a1 a2
  rw [b2] at c1
  rw [b1] at c2
  refine ⟨?_, ?_, corr_pSt logic _ _ _ henv hia⟩
  · rw [List.append_assoc, List.singleton_append, envAfter_cons_ok h0, c2]
  · rw [List.append_assoc, List.singleton_append, script_cons_ok h0, c1]
    simp [Except.map]

/-- **Print → parse round trip for the script of a formula** (tree form of the assertion). pySMT's parser reads the text
`smtlibscript_from_formula(f, logic).serialize(daggify=False)` as exactly the command list the script was made of:
`set-logic`, a `declare-sort` per declared sort, a `declare-fun` per free symbol, `assert f`, `check-sat`
(`f` with array values as store chains: `unfoldAV`).

Hypotheses (all decidable): `ScriptOK` (C07: the hypotheses of `decls_before_use_partial`), `logicOK` (the parser's and the
standard's reading of numerals agree under this logic name), `envOK` (C08: no declared name is spelled like a literal,
like `true`/`false`, or — for a function — like a non-standard token of the parser's table; sorts and functions do not
share a name), `hρ` + `parseOK` (one name, one symbol: the bound variables and the free symbols are those of the formula
manager `ρ`; bound variables are not named like a literal or a declared sort), `mgrNormal` (the formula is one the
`FormulaManager` builds). -/
theorem script_print_parse_exact (logic : String) (ρ : List (String × Sym)) (t : Term) (hs : ScriptOK logic t = true)
    (hl : logicOK logic = true) (henv : envOK (scriptEnv logic t) = true)
    (hρ : ∀ s ∈ t.fv.eraseDups, ρ.lookup s.name = some s)
    (hQ : parseOK (scriptEnv logic t) ρ t = true) (hN : mgrNormal t = true) :
    script PEnv.init (scriptOfFormula logic false t) = .ok (scriptCommands logic t) := by
  obtain ⟨e1, e2, hcorr⟩ := envAfter_decls logic t hs hl henv
  obtain ⟨hbool, hP⟩ := scriptOK_parts hs
  have hm : MgrLe (pSt ((logicEntry logic).map (·.2)) (sortDecls t).reverse t.fv.eraseDups.reverse).mgr ρ :=
    mgrLe_pSt ρ _ _ _ (fun s hs' => hρ s (by simpa using hs'))
  obtain ⟨σ', hassert, _⟩ := cmd_assert (scriptEnv logic t) ρ _ hcorr hm t hbool hP hQ hN
  obtain ⟨c1, _⟩ := script_append _ [.list [.atom "assert", toSexp t], .list [.atom "check-sat"]] _ _ _ e1 e2
  simp only [scriptOfFormula, Bool.false_eq_true, if_false]
  rw [c1, script_cons_ok hassert, script_cons_ok (cmd_checkSat _)]
  simp [script, Except.map, scriptCommands]

/-- the form asked for: the last command is `check-sat`, the assertion is the formula, every free symbol is declared -/
theorem script_print_parse (logic : String) (ρ : List (String × Sym)) (t : Term) (hs : ScriptOK logic t = true)
    (hl : logicOK logic = true) (henv : envOK (scriptEnv logic t) = true)
    (hρ : ∀ s ∈ t.fv.eraseDups, ρ.lookup s.name = some s)
    (hQ : parseOK (scriptEnv logic t) ρ t = true) (hN : mgrNormal t = true) :
    ∃ cmds, script PEnv.init (scriptOfFormula logic false t) = .ok cmds ∧
      cmds.getLast? = some (.plain "check-sat" []) ∧ (.assert (unfoldAV t)) ∈ cmds ∧
      (∀ s ∈ t.fv.eraseDups, Command.declare "declare-fun" s ∈ cmds) ∧
      (∀ d ∈ sortDecls t, Command.declareSort d.1 d.2 ∈ cmds) := by
  refine ⟨_, script_print_parse_exact logic ρ t hs hl henv hρ hQ hN, ?_, ?_, ?_, ?_⟩
  · unfold scriptCommands
    rw [List.getLast?_append]
    rfl
  · simp [scriptCommands]
  · intro s hs'
    simp only [scriptCommands, List.mem_append, List.mem_map]
    exact Or.inl (Or.inr ⟨s, hs', rfl⟩)
  · intro d hd
    simp only [scriptCommands, List.mem_append, List.mem_map]
    exact Or.inl (Or.inl (Or.inr ⟨d, hd, rfl⟩))

end PySMT.Parser.Agree
