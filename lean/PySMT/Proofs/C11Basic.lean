import PySMT.Proofs.Coincidence
import PySMT.Impl.Rewritings.CNF
/-!
# C11 — basic semantic lemmas: truth value of the Boolean connectives, clauses, literal negation,
the set normalisation and `formulaOf`.
-/
namespace PySMT.CNF

/-- truth value of a term (`eval` is total; a non-Boolean value counts as false, exactly as the
reference semantics of the connectives reads its arguments) -/
def tv (I : Interp) (t : Term) : Bool := (eval I t).isTrue

theorem isTrue_iff (v : Val) : v.isTrue = true ↔ v = .b true := by
  cases v <;> simp [Val.isTrue]
  next b => cases b <;> simp

theorem tv_iff (I : Interp) (t : Term) : tv I t = true ↔ eval I t = .b true := isTrue_iff _

@[simp] theorem isTrue_b (b : Bool) : (Val.b b).isTrue = b := by cases b <;> rfl

theorem tv_and (I : Interp) (as : List Term) (p : Payload) :
    tv I (.node .and as p) = as.all (tv I) := by
  simp only [tv, eval_and, isTrue_b]
  rfl

theorem tv_or (I : Interp) (as : List Term) (p : Payload) :
    tv I (.node .or as p) = as.any (tv I) := by
  simp only [tv, eval_or, isTrue_b]
  rfl

theorem tv_not (I : Interp) (a : Term) (p : Payload) : tv I (.node .not [a] p) = !tv I a := by
  simp only [tv, eval_plain I .not [a] p (by simp) (by simp) rfl, List.map_cons, List.map_nil, evalOp,
    isTrue_b]

theorem tv_implies (I : Interp) (a b : Term) (p : Payload) :
    tv I (.node .implies [a, b] p) = (!tv I a || tv I b) := by
  simp only [tv, eval_plain I .implies [a, b] p (by simp) (by simp) rfl, List.map_cons, List.map_nil,
    evalOp, isTrue_b]

theorem tv_iff_node (I : Interp) (a b : Term) (p : Payload) :
    tv I (.node .iff [a, b] p) = (tv I a == tv I b) := by
  simp only [tv, eval_plain I .iff [a, b] p (by simp) (by simp) rfl, List.map_cons, List.map_nil,
    evalOp, isTrue_b]

theorem tv_ite (I : Interp) (c a b : Term) (p : Payload) :
    tv I (.node .ite [c, a, b] p) = (if tv I c then tv I a else tv I b) := by
  simp only [tv, eval_plain I .ite [c, a, b] p (by simp) (by simp) rfl, List.map_cons, List.map_nil,
    evalOp]
  split <;> simp_all

theorem tv_boolConst (I : Interp) (as : List Term) (v : Bool) : tv I (.node .boolConst as (.b v)) = v := by
  simp only [tv, eval_plain I .boolConst as (.b v) (by simp) (by simp) rfl, evalOp, isTrue_b]

@[simp] theorem tv_tt (I : Interp) : tv I Term.tt = true := tv_boolConst I [] true
@[simp] theorem tv_ff (I : Interp) : tv I Term.ff = false := tv_boolConst I [] false
@[simp] theorem tv_bool (I : Interp) (b : Bool) : tv I (Term.bool b) = b := tv_boolConst I [] b

theorem tv_mkNot (I : Interp) (a : Term) : tv I (Term.mkNot a) = !tv I a := tv_not I a .none

theorem tv_sym (I : Interp) (s : Sym) : tv I (Term.sym s) = (I.sym s).isTrue := by
  simp only [tv, Term.sym, eval_symbol]

theorem tv_of_isTrueC {I : Interp} {l : Term} (h : isTrueC l = true) : tv I l = true := by
  unfold isTrueC at h
  split at h
  · exact tv_boolConst I _ true
  · simp at h

theorem tv_of_isFalseC {I : Interp} {l : Term} (h : isFalseC l = true) : tv I l = false := by
  unfold isFalseC at h
  split at h
  · exact tv_boolConst I _ false
  · simp at h

/-! ## the simplifier as a parameter -/

/-- what C01 proves about `simplify`, at one interpretation: the truth value is preserved -/
def SimpSoundAt (σ : Term → Term) (I : Interp) : Prop := ∀ x, tv I (σ x) = tv I x

/-- `I'` differs from `I` at most in the values of symbols that are not free in `t` -/
structure SameOn (t : Term) (I I' : Interp) : Prop where
  sym   : ∀ s ∈ t.fv, I.sym s = I'.sym s
  fn    : I.fn = I'.fn
  dom   : I.dom = I'.dom
  div0r : I.div0r = I'.div0r
  div0i : I.div0i = I'.div0i

/-- The hypothesis of the C11 theorems about the simplifier used for literal negation: it preserves
truth values under every interpretation that agrees with `I` on the symbols of the input
(C01; interpretations that agree on the input's symbols evaluate the same divisions by zero). -/
def SimpSound (σ : Term → Term) (t : Term) (I : Interp) : Prop := ∀ I', SameOn t I I' → SimpSoundAt σ I'

/-- symbols are their own simplification -/
def SimpSym (σ : Term → Term) : Prop := ∀ s : Sym, σ (Term.sym s) = Term.sym s

theorem SameOn.refl (t : Term) (I : Interp) : SameOn t I I := ⟨fun _ _ => rfl, rfl, rfl, rfl, rfl⟩

theorem SameOn.trans {t : Term} {I J K : Interp} (h1 : SameOn t I J) (h2 : SameOn t J K) : SameOn t I K :=
  ⟨fun s hs => (h1.sym s hs).trans (h2.sym s hs), h1.fn.trans h2.fn, h1.dom.trans h2.dom,
   h1.div0r.trans h2.div0r, h1.div0i.trans h2.div0i⟩

theorem SameOn.bind (t : Term) (I : Interp) (k : Sym) (v : Val) (hk : k ∉ t.fv) : SameOn t I (I.bind k v) := by
  refine ⟨?_, rfl, rfl, rfl, rfl⟩
  intro s hs
  simp only [Interp.bind]
  split
  · next h => subst h; exact absurd hs hk
  · rfl

theorem SameOn.eval {t : Term} {I I' : Interp} (h : SameOn t I I') : eval I t = eval I' t :=
  coincidence_gen t I I' ⟨h.sym, fun s _ => by rw [h.fn], h.dom, h.div0r, h.div0i⟩

theorem SameOn.tv {t : Term} {I I' : Interp} (h : SameOn t I I') : tv I t = tv I' t := by
  simp only [CNF.tv, h.eval]

theorem SimpSound.self {σ t I} (h : SimpSound σ t I) : SimpSoundAt σ I := h I (SameOn.refl t I)

theorem SimpSound.mono {σ t I I'} (h : SimpSound σ t I) (h' : SameOn t I I') : SimpSound σ t I' :=
  fun K hK => h K (h'.trans hK)

theorem simpSound_id (t : Term) (I : Interp) : SimpSound id t I := fun _ _ _ => rfl
theorem simpSym_id : SimpSym id := fun _ => rfl

/-! ## literal negation -/

theorem tv_simpNot (I : Interp) (s : Term) : tv I (simpNot s) = !tv I s := by
  unfold simpNot
  split
  · next v => simp [tv_boolConst]
  · next y p => simp [tv_not]
  · exact tv_mkNot I s

theorem tv_negLit {E : Env} {I : Interp} (hσ : SimpSoundAt E.simp I) (a : Term) :
    tv I (negLit E a) = !tv I a := by
  unfold negLit
  split
  · next x p => rw [hσ x, tv_not]; simp
  · rw [tv_simpNot, hσ a]

theorem negLit_sym {E : Env} (hs : SimpSym E.simp) (k : Sym) : negLit E (Term.sym k) = Term.mkNot (Term.sym k) := by
  have h : E.simp (Term.node .symbol [] (.sym k)) = Term.node .symbol [] (.sym k) := hs k
  simp only [negLit, Term.sym, h, simpNot]

theorem negLit_notSym {E : Env} (hs : SimpSym E.simp) (k : Sym) :
    negLit E (Term.mkNot (Term.sym k)) = Term.sym k := by
  simp only [negLit, Term.mkNot]
  exact hs k

/-! ## clauses -/

def holds (I : Interp) (c : Clause) : Bool := c.any (tv I)
def holdsAll (I : Interp) (cs : List Clause) : Prop := ∀ c ∈ cs, holds I c = true

theorem holdsAll_nil {I : Interp} : holdsAll I [] := by simp [holdsAll]

theorem holdsAll_append {I : Interp} {a b : List Clause} :
    holdsAll I (a ++ b) ↔ holdsAll I a ∧ holdsAll I b := by
  simp [holdsAll, List.mem_append, or_imp, forall_and]

theorem holdsAll_cons {I : Interp} {c : Clause} {cs : List Clause} :
    holdsAll I (c :: cs) ↔ holds I c = true ∧ holdsAll I cs := by
  simp [holdsAll]

theorem holdsAll_flatten {I : Interp} {css : List (List Clause)} :
    holdsAll I css.flatten ↔ ∀ cs ∈ css, holdsAll I cs := by
  simp only [holdsAll, List.mem_flatten]
  constructor
  · intro h cs hcs c hc; exact h c ⟨cs, hcs, hc⟩
  · rintro h c ⟨cs, hcs, hc⟩; exact h cs hcs c hc

theorem holdsAll_mono {I : Interp} {a b : List Clause} (h : ∀ c ∈ a, c ∈ b) (hb : holdsAll I b) : holdsAll I a :=
  fun c hc => hb c (h c hc)

/-! ## set normalisation -/

theorem mem_dedup {α} [BEq α] [LawfulBEq α] (x : α) : ∀ l : List α, x ∈ dedup l ↔ x ∈ l
  | [] => by simp [dedup]
  | y :: ys => by
    simp only [dedup]
    split
    · next h =>
      rw [mem_dedup x ys]
      constructor
      · exact List.mem_cons_of_mem _
      · intro hx
        rcases List.mem_cons.mp hx with rfl | hx
        · exact List.contains_iff_mem.mp h
        · exact hx
    · simp only [List.mem_cons, mem_dedup x ys]

theorem holds_dedup (I : Interp) (c : Clause) : holds I (dedup c) = holds I c := by
  rw [Bool.eq_iff_iff]
  simp only [holds, List.any_eq_true, mem_dedup]

theorem sameSet_mem {a b : Clause} (h : sameSet a b = true) (x : Term) : x ∈ a ↔ x ∈ b := by
  simp only [sameSet, Bool.and_eq_true, List.all_eq_true, List.contains_iff_mem] at h
  exact ⟨h.1 x, h.2 x⟩

theorem holds_sameSet (I : Interp) {a b : Clause} (h : sameSet a b = true) : holds I a = holds I b := by
  rw [Bool.eq_iff_iff]
  simp only [holds, List.any_eq_true, sameSet_mem h]

theorem sameSet_refl (a : Clause) : sameSet a a = true := by
  simp [sameSet]

theorem holdsAll_dedupClauses (I : Interp) : ∀ cs : List Clause, holdsAll I (dedupClauses cs) ↔ holdsAll I cs
  | [] => by simp [dedupClauses]
  | c :: cs => by
    simp only [dedupClauses]
    split
    · next h =>
      rw [holdsAll_dedupClauses I cs, holdsAll_cons]
      constructor
      · intro hcs
        refine ⟨?_, hcs⟩
        obtain ⟨d, hd, hsame⟩ := List.any_eq_true.mp h
        rw [holds_sameSet I hsame]; exact hcs d hd
      · exact fun h => h.2
    · rw [holdsAll_cons, holdsAll_cons, holdsAll_dedupClauses I cs]

/-- every clause of the normalised set is (as a set) one of the given clauses, and vice versa -/
theorem mem_dedupClauses_of : ∀ (cs : List Clause) (c : Clause), c ∈ dedupClauses cs → c ∈ cs
  | [], c, h => by simp [dedupClauses] at h
  | d :: ds, c, h => by
    simp only [dedupClauses] at h
    split at h
    · exact List.mem_cons_of_mem _ (mem_dedupClauses_of ds c h)
    · rcases List.mem_cons.mp h with rfl | h
      · exact List.mem_cons_self
      · exact List.mem_cons_of_mem _ (mem_dedupClauses_of ds c h)

theorem holdsAll_norm (I : Interp) (cs : List Clause) : holdsAll I (norm cs) ↔ holdsAll I cs := by
  rw [norm, holdsAll_dedupClauses]
  simp only [holdsAll, List.mem_map, forall_exists_index, and_imp, forall_apply_eq_imp_iff₂, holds_dedup]

theorem mem_norm {cs : List Clause} {c : Clause} (h : c ∈ norm cs) : ∃ d ∈ cs, c = dedup d := by
  have := mem_dedupClauses_of _ _ h
  simp only [List.mem_map] at this
  obtain ⟨d, hd, rfl⟩ := this
  exact ⟨d, hd, rfl⟩

/-! ## `formulaOf` -/

theorem tv_mkOrN (I : Interp) (c : Clause) : tv I (mkOrN c) = holds I c := by
  unfold mkOrN holds
  split
  · simp
  · simp
  · exact tv_or I _ _

theorem tv_mkAndN (I : Interp) (l : List Term) : tv I (mkAndN l) = l.all (tv I) := by
  unfold mkAndN
  split
  · simp
  · simp
  · exact tv_and I _ _

theorem tv_formulaOf (I : Interp) (cs : List Clause) : tv I (formulaOf cs) = true ↔ holdsAll I cs := by
  simp only [formulaOf, tv_mkAndN, List.all_eq_true, List.mem_map, forall_exists_index, and_imp,
    forall_apply_eq_imp_iff₂, tv_mkOrN, holdsAll]

theorem eval_formulaOf (I : Interp) (cs : List Clause) : eval I (formulaOf cs) = .b true ↔ holdsAll I cs := by
  rw [← tv_iff, tv_formulaOf]

end PySMT.CNF
