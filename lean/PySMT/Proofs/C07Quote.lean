import PySMT.Proofs.C07Sexp
import PySMT.Impl.PrinterHyp
/-!
# C07: `utils.quote` spells the symbol it is given

`quoteAtom_eq`: for a name of printable characters without `|` and `\` that is not a reserved word, the text
`quote(name)` is read by the standard lexer as the one token that denotes the symbol `name` (`Sexp.sym name`);
`symName?_sym`: and that token names `name`.
-/
namespace PySMT.Printer
open PySMT.Sexp

theorem nameChar_quoted {c : Char} (h : nameChar c = true) : isQuotedChar c = true := by
  simp only [nameChar, Bool.and_eq_true, decide_eq_true_eq, bne_iff_ne, ne_eq] at h
  simp only [isQuotedChar, isPrintable, Bool.and_eq_true, Bool.or_eq_true, decide_eq_true_eq, bne_iff_ne, ne_eq]
  exact ⟨⟨Or.inl ⟨h.1.1.1, by simpa using h.1.1.2⟩, h.1.2⟩, h.2⟩

theorem all_quoted {cs : List Char} (h : cs.all nameChar = true) : cs.all isQuotedChar = true := by
  rw [List.all_eq_true] at *
  exact fun c hc => nameChar_quoted (h c hc)

theorem pyEscape_id : ∀ (cs : List Char), cs.all nameChar = true → pyEscape cs = cs
  | [], _ => rfl
  | c :: cs, h => by
    simp only [List.all_cons, Bool.and_eq_true] at h
    have hc := h.1
    simp only [nameChar, Bool.and_eq_true, bne_iff_ne, ne_eq] at hc
    have h1 : (c == '\\') = false := by simpa using hc.2
    have h2 : (c == '|') = false := by simpa using hc.1.2
    simp [pyEscape, h1, h2, pyEscape_id cs h.2]

theorem no_newline_last {cs r : List Char} (h : cs.all nameChar = true) (hr : cs.reverse = '\n' :: r) : False := by
  have hm : '\n' ∈ cs := by
    have : '\n' ∈ cs.reverse := by rw [hr]; simp
    simpa using this
  rw [List.all_eq_true] at h
  have := h _ hm
  revert this
  decide

theorem pyIsSimple_eq {cs : List Char} (h : cs.all nameChar = true) : pyIsSimple cs = isSimpleSymbolChars cs := by
  unfold pyIsSimple
  split
  · next r hr => exact absurd hr (fun hr => no_newline_last h hr)
  · simp

/-- a simple symbol is not the spelling of a literal or keyword -/
theorem simple_not_literal {cs : List Char} (h : isSimpleSymbolChars cs = true) :
    isNumeralChars cs = false ∧ isDecimalChars cs = false ∧ isBinaryChars cs = false ∧ isHexChars cs = false
      ∧ isKeywordChars cs = false := by
  cases cs with
  | nil => simp [isNumeralChars, isDecimalChars, isBinaryChars, isHexChars, isKeywordChars, splitDot]
  | cons c cs =>
    simp only [isSimpleSymbolChars, Bool.and_eq_true, Bool.not_eq_true'] at h
    obtain ⟨⟨hsym, hnd⟩, _⟩ := h
    refine ⟨?_, ?_, ?_, ?_, ?_⟩
    · cases hn : isNumeralChars (c :: cs) with
      | false => rfl
      | true =>
        have := (numeral_digits hn).2
        simp only [List.all_cons, Bool.and_eq_true] at this
        rw [this.1] at hnd; simp at hnd
    · cases hn : isDecimalChars (c :: cs) with
      | false => rfl
      | true =>
        exfalso
        unfold isDecimalChars at hn
        split at hn
        · next a b hsd =>
          simp only [Bool.and_eq_true] at hn
          have hcs := splitDot_spec _ a b hsd
          have ⟨hne, hd⟩ := numeral_digits hn.1.1
          cases a with
          | nil => exact hne rfl
          | cons a0 a =>
            simp only [List.cons_append, List.cons.injEq] at hcs
            simp only [List.all_cons, Bool.and_eq_true] at hd
            rw [← hcs.1] at hd
            rw [hd.1] at hnd; simp at hnd
        · simp at hn
    · cases hn : isBinaryChars (c :: cs) with
      | false => rfl
      | true =>
        exfalso
        unfold isBinaryChars at hn
        split at hn
        · next ds heq =>
          simp only [List.cons.injEq] at heq
          rw [heq.1] at hsym
          revert hsym; decide
        · simp at hn
    · cases hn : isHexChars (c :: cs) with
      | false => rfl
      | true =>
        exfalso
        unfold isHexChars at hn
        split at hn
        · next ds heq =>
          simp only [List.cons.injEq] at heq
          rw [heq.1] at hsym
          revert hsym; decide
        · simp at hn
    · cases hn : isKeywordChars (c :: cs) with
      | false => rfl
      | true =>
        exfalso
        unfold isKeywordChars at hn
        split at hn
        · next ds heq =>
          simp only [List.cons.injEq] at heq
          rw [heq.1] at hsym
          revert hsym; decide
        · simp at hn

theorem simple_not_nonSymbol {cs : List Char} (h : isSimpleSymbolChars cs = true)
    (hr : isReserved (String.ofList cs) = false) : isNonSymbolChars cs = false := by
  obtain ⟨h1, h2, h3, h4, h5⟩ := simple_not_literal h
  simp [isNonSymbolChars, h1, h2, h3, h4, h5, hr]

theorem lexChars_bars (n : List Char) (hq : n.all isQuotedChar = true) :
    lexChars ('|' :: (n ++ ['|'])) = .ok [.atom (String.ofList (symTokChars n))] := by
  have := lexGo_bars n hq [] []
  simp only [List.append_nil] at this
  unfold lexChars
  rw [this]
  simp [lexGo, finish]

theorem lexChars_simple (n : List Char) (hs : isSimpleSymbolChars n = true) :
    lexChars n = .ok [.atom (String.ofList n)] := by
  have := lexGo_classified n [] [] (by simp [hs]) trivial
  simp only [List.append_nil] at this
  unfold lexChars
  rw [this]
  simp [lexGo, finish]

/-- `quote(name)` is read as the token of the symbol `name` -/
theorem quoteAtom_eq (n : String) (hc : n.toList.all nameChar = true) (hr : isReserved n = false) :
    quoteAtom n = Sexp.sym n := by
  simp only [quoteAtom, atomOfText, pyQuote, String.toList_ofList, Sexp.sym]
  unfold pyQuoteChars
  rw [pyIsSimple_eq hc, String.ofList_toList]
  by_cases hcond : (["Int", "Real", "Bool"].contains n || !isSimpleSymbolChars n.toList) = true
  · rw [if_pos hcond, pyEscape_id _ hc, lexChars_bars _ (all_quoted hc)]
  · rw [if_neg hcond]
    simp only [Bool.or_eq_true, Bool.not_eq_true', not_or, Bool.not_eq_false] at hcond
    have hs := hcond.2
    rw [lexChars_simple _ hs]
    have : isNonSymbolChars n.toList = false := simple_not_nonSymbol hs (by rw [String.ofList_toList]; exact hr)
    simp [symTokChars, this]

theorem no_bar {cs : List Char} (h : cs.all nameChar = true) : '|' ∉ cs := by
  intro hm
  rw [List.all_eq_true] at h
  have := h _ hm
  revert this; decide

theorem stripBars_bars (n : List Char) : stripBars ('|' :: (n ++ ['|'])) = some n := by
  simp [stripBars]

theorem stripBars_none {cs : List Char} (h : '|' ∉ cs) : stripBars cs = none := by
  unfold stripBars
  split
  · next cs' => simp at h
  · rfl

/-- the token of the symbol `n` names `n` -/
theorem symName?_sym (n : String) (hc : n.toList.all nameChar = true) :
    ∃ tok, Sexp.sym n = .atom tok ∧ symName? tok = some n := by
  refine ⟨String.ofList (symTokChars n.toList), rfl, ?_⟩
  by_cases hns : isNonSymbolChars n.toList = true
  · simp only [symName?, symTokChars, hns, if_true, String.toList_ofList, stripBars_bars, String.ofList_toList]
  · have hns' : isNonSymbolChars n.toList = false := by simpa using hns
    have hb := no_bar hc
    have hh : (n.toList.head? == some '|') = false := by
      cases hl : n.toList with
      | nil => simp
      | cons c cs =>
        rw [hl] at hb
        simp only [List.mem_cons, not_or] at hb
        simp only [List.head?_cons, beq_eq_false_iff_ne, ne_eq, Option.some.injEq]
        exact fun h => hb.1 h.symm
    simp [symName?, symTokChars, hns', String.toList_ofList, stripBars_none hb, hh, String.ofList_toList]

end PySMT.Printer
