import PySMT.Impl.PrinterHyp
/-!
# C07: what `applyTheory` / `applyIndexed` (the standard's reading of an application) return on well-sorted arguments,
one lemma per operator family
-/
namespace PySMT.Std

theorem allTy_iff {as : List TT} {t : Ty} : allTy as t = true ↔ ∀ a ∈ as, a.2 = t := by
  simp [allTy, List.all_eq_true]

theorem ap_not (u : Term) : applyTheory "not" [(u, .bool)] = .ok (.node .not [u] .none, .bool) := by
  simp [applyTheory, node]

theorem ap_and (as : List TT) (h2 : 2 ≤ as.length) (hb : allTy as .bool = true) :
    applyTheory "and" as = .ok (.node .and (as.map (·.1)) .none, .bool) := by
  simp [applyTheory, node, hb, h2]

theorem ap_or (as : List TT) (h2 : 2 ≤ as.length) (hb : allTy as .bool = true) :
    applyTheory "or" as = .ok (.node .or (as.map (·.1)) .none, .bool) := by
  simp [applyTheory, node, hb, h2]

theorem ap_implies (u v : Term) :
    applyTheory "=>" [(u, .bool), (v, .bool)] = .ok (.node .implies [u, v] .none, .bool) := by
  simp [applyTheory, node, allTy]

theorem ap_iff (u v : Term) :
    applyTheory "=" [(u, .bool), (v, .bool)] = .ok (.node .iff [u, v] .none, .bool) := by
  simp [applyTheory, allTy, chainPairs, conj, mkEqTerm]

theorem ap_equals (u v : Term) (t : Ty) (ht : t ≠ .bool) :
    applyTheory "=" [(u, t), (v, t)] = .ok (.node .equals [u, v] .none, .bool) := by
  have : (t == Ty.bool) = false := by simpa using ht
  simp [applyTheory, allTy, chainPairs, conj, mkEqTerm, this, ht]

theorem ap_ite (c u v : Term) (t : Ty) :
    applyTheory "ite" [(c, .bool), (u, t), (v, t)] = .ok (.node .ite [c, u, v] .none, t) := by
  simp [applyTheory, node]

theorem arithTy_int (as : List TT) (a : TT) (h : allTy (a :: as) .int = true) : arithTy (a :: as) = .ok .int := by
  obtain ⟨a1, a2⟩ := a
  have := (allTy_iff.1 h) (a1, a2) (by simp)
  simp only at this
  subst this
  simp [arithTy, h]

theorem arithTy_real (as : List TT) (a : TT) (h : allTy (a :: as) .real = true) : arithTy (a :: as) = .ok .real := by
  obtain ⟨a1, a2⟩ := a
  have := (allTy_iff.1 h) (a1, a2) (by simp)
  simp only at this
  subst this
  simp [arithTy, h]

theorem arithTy_of (as : List TT) (t : Ty) (ht : t = .int ∨ t = .real) (hne : as ≠ []) (h : allTy as t = true) :
    arithTy as = .ok t := by
  cases as with
  | nil => exact absurd rfl hne
  | cons a as =>
    rcases ht with rfl | rfl
    · exact arithTy_int as a h
    · exact arithTy_real as a h

theorem ap_plus (as : List TT) (t : Ty) (ht : t = .int ∨ t = .real) (h2 : 2 ≤ as.length) (h : allTy as t = true) :
    applyTheory "+" as = .ok (.node .plus (as.map (·.1)) .none, t) := by
  have hne : as ≠ [] := by intro h0; subst h0; simp at h2
  simp [applyTheory, node, h2, arithTy_of as t ht hne h, Except.map]

theorem ap_times (as : List TT) (t : Ty) (ht : t = .int ∨ t = .real) (h2 : 2 ≤ as.length) (h : allTy as t = true) :
    applyTheory "*" as = .ok (.node .times (as.map (·.1)) .none, t) := by
  have hne : as ≠ [] := by intro h0; subst h0; simp at h2
  simp [applyTheory, node, h2, arithTy_of as t ht hne h, Except.map]

theorem ap_minus (u v : Term) (t : Ty) (ht : t = .int ∨ t = .real) :
    applyTheory "-" [(u, t), (v, t)] = .ok (.node .minus [u, v] .none, t) := by
  rcases ht with rfl | rfl <;> simp [applyTheory, leftFold, arithSub, node]

theorem ap_le (u v : Term) (t : Ty) (ht : t = .int ∨ t = .real) :
    applyTheory "<=" [(u, t), (v, t)] = .ok (.node .le [u, v] .none, .bool) := by
  rcases ht with rfl | rfl <;> simp [applyTheory, arithTy, allTy, chainPairs, conj, node, Except.map]

theorem ap_lt (u v : Term) (t : Ty) (ht : t = .int ∨ t = .real) :
    applyTheory "<" [(u, t), (v, t)] = .ok (.node .lt [u, v] .none, .bool) := by
  rcases ht with rfl | rfl <;> simp [applyTheory, arithTy, allTy, chainPairs, conj, node, Except.map]

theorem ap_toReal (u : Term) : applyTheory "to_real" [(u, .int)] = .ok (.node .toReal [u] .none, .real) := by
  simp [applyTheory, node]

theorem realDiv_plain (u v : Term)
    (h : ¬ ((Printer.isRealConst u).isSome = true ∧ ∃ y, Printer.isRealConst v = some y ∧ y ≠ 0)) :
    realDiv (u, .real) (v, .real) = .ok (.node .div [u, v] .none, .real) := by
  have hu : ∀ x, isNumConst u = some (.inr x) → Printer.isRealConst u = some x := by
    intro x hx
    unfold isNumConst at hx
    split at hx <;> simp_all [Printer.isRealConst]
  have hv : ∀ x, isNumConst v = some (.inr x) → Printer.isRealConst v = some x := by
    intro x hx
    unfold isNumConst at hx
    split at hx <;> simp_all [Printer.isRealConst]
  simp only [realDiv, node, beq_self_eq_true, Bool.and_self, if_true, List.map_cons, List.map_nil]
  split
  · next x y hx hy =>
    by_cases hy0 : y = 0
    · simp [hy0]
    · exact absurd ⟨by simp [hu x hx], y, hv y hy, hy0⟩ h
  · rfl

/-- real division: not folded unless both arguments are constants with a non-zero divisor -/
theorem ap_div (u v : Term)
    (h : ¬ ((Printer.isRealConst u).isSome = true ∧ ∃ y, Printer.isRealConst v = some y ∧ y ≠ 0)) :
    applyTheory "/" [(u, .real), (v, .real)] = .ok (.node .div [u, v] .none, .real) := by
  simp [applyTheory, leftFold, realDiv_plain u v h]

theorem ap_select (a i : Term) (it et : Ty) :
    applyTheory "select" [(a, .array it et), (i, it)] = .ok (.node .arraySelect [a, i] .none, et) := by
  simp [applyTheory, node]

theorem ap_store (a i v : Term) (it et : Ty) :
    applyTheory "store" [(a, .array it et), (i, it), (v, et)] =
      .ok (.node .arrayStore [a, i, v] .none, .array it et) := by
  simp [applyTheory, node]

theorem ap_strConcat (as : List TT) (h2 : 2 ≤ as.length) (h : allTy as .str = true) :
    applyTheory "str.++" as = .ok (.node .strConcat (as.map (·.1)) .none, .str) := by
  simp [applyTheory, node, h2, h]

theorem ap_bv2nat (u : Term) (w : Nat) : applyTheory "bv2nat" [(u, .bv w)] = .ok (.node .bvToNatural [u] .none, .int) := by
  simp [applyTheory, node]

theorem ap_bvnot (u : Term) (w : Nat) : applyTheory "bvnot" [(u, .bv w)] = .ok (.node .bvNot [u] (.ints [w]), .bv w) := by
  simp [applyTheory, node]

theorem ap_bvneg (u : Term) (w : Nat) : applyTheory "bvneg" [(u, .bv w)] = .ok (.node .bvNeg [u] (.ints [w]), .bv w) := by
  simp [applyTheory, node]

theorem ap_concat (u v : Term) (w w' : Nat) :
    applyTheory "concat" [(u, .bv w), (v, .bv w')] = .ok (.node .bvConcat [u, v] (.ints [w + w']), .bv (w + w')) := by
  simp [applyTheory, leftFold, bvConcat2, node]

theorem ap_bvcomp (u v : Term) (w : Nat) :
    applyTheory "bvcomp" [(u, .bv w), (v, .bv w)] = .ok (.node .bvComp [u, v] (.ints [1]), .bv 1) := by
  simp [applyTheory, node]

theorem ap_bvbin (name : String) (op : Op) (h : (name, op) ∈ bvBinOps) (u v : Term) (w : Nat) :
    applyTheory name [(u, .bv w), (v, .bv w)] = .ok (.node op [u, v] (.ints [w]), .bv w) := by
  simp only [bvBinOps, List.mem_cons, Prod.mk.injEq, List.not_mem_nil, or_false] at h
  rcases h with ⟨rfl, rfl⟩ | ⟨rfl, rfl⟩ | ⟨rfl, rfl⟩ | ⟨rfl, rfl⟩ | ⟨rfl, rfl⟩ | ⟨rfl, rfl⟩ | ⟨rfl, rfl⟩ | ⟨rfl, rfl⟩
    | ⟨rfl, rfl⟩ | ⟨rfl, rfl⟩ | ⟨rfl, rfl⟩ | ⟨rfl, rfl⟩ | ⟨rfl, rfl⟩ <;>
  simp [applyTheory, bvBinOps, bvLeftAssoc, List.lookup, leftFold, bvBin, node]

theorem ap_bvrel (name : String) (op : Op) (h : (name, op, false) ∈ bvRels) (u v : Term) (w : Nat) :
    applyTheory name [(u, .bv w), (v, .bv w)] = .ok (.node op [u, v] .none, .bool) := by
  simp only [bvRels, List.mem_cons, Prod.mk.injEq, List.not_mem_nil, or_false] at h
  rcases h with ⟨rfl, rfl, _⟩ | ⟨rfl, rfl, _⟩ | ⟨_, _, h⟩ | ⟨_, _, h⟩ | ⟨rfl, rfl, _⟩ | ⟨rfl, rfl, _⟩ | ⟨_, _, h⟩ | ⟨_, _, h⟩
  all_goals first
    | (simp at h; done)
    | simp [applyTheory, bvBinOps, bvRels, List.lookup, node]

theorem ap_strSig (name : String) (op : Op) (ptys : List Ty) (rty : Ty) (h : strSig name = some (op, ptys, rty))
    (as : List TT) (hty : as.map (·.2) = ptys) :
    applyTheory name as = .ok (.node op (as.map (·.1)) .none, rty) := by
  unfold strSig at h
  split at h <;> simp only [Option.some.injEq, Prod.mk.injEq, reduceCtorEq] at h
  all_goals
    obtain ⟨rfl, rfl, rfl⟩ := h
    simp [applyTheory, bvBinOps, bvRels, List.lookup, strSig, node, hty]

theorem ai_extract (u : Term) (m i j : Nat) (hji : j ≤ i) (him : i < m) :
    applyIndexed "extract" [i, j] [(u, .bv m)] = .ok (.node .bvExtract [u] (.ints [i - j + 1, j, i]), .bv (i - j + 1)) := by
  simp [applyIndexed, node, hji, him]

theorem ai_zext (u : Term) (m k : Nat) :
    applyIndexed "zero_extend" [k] [(u, .bv m)] = .ok (.node .bvZext [u] (.ints [m + k, k]), .bv (m + k)) := by
  simp [applyIndexed, node]

theorem ai_sext (u : Term) (m k : Nat) :
    applyIndexed "sign_extend" [k] [(u, .bv m)] = .ok (.node .bvSext [u] (.ints [m + k, k]), .bv (m + k)) := by
  simp [applyIndexed, node]

theorem ai_rol (u : Term) (m k : Nat) :
    applyIndexed "rotate_left" [k] [(u, .bv m)] = .ok (.node .bvRol [u] (.ints [m, k]), .bv m) := by
  simp [applyIndexed, node]

theorem ai_ror (u : Term) (m k : Nat) :
    applyIndexed "rotate_right" [k] [(u, .bv m)] = .ok (.node .bvRor [u] (.ints [m, k]), .bv m) := by
  simp [applyIndexed, node]

end PySMT.Std
