import PySMT.Proofs.C09HR2
/-!
# C09 (human-readable format): argument lists, function calls, quantifiers, the postfix forms, array values
-/
namespace PySMT.HR.RT
open PySMT PySMT.HR PySMT.Gen.HROps

/-! ## comma-separated lists -/

/-- the first token of a printed term is not a closing token (`argList` looks at it) -/
def startOK : List Tok → Prop
  | [] => False
  | .op s :: _ => s ≠ ")" ∧ s ≠ "."
  | _ :: _ => True

theorem startOK_append {a : List Tok} (b : List Tok) (h : startOK a) : startOK (a ++ b) := by
  cases a with
  | nil => cases h
  | cons t a => cases t <;> simp_all [startOK]

theorem argList_start (ps : Ps) (close : String) (hc : close = ")" ∨ close = ".") {toks : List Tok} (h : startOK toks) :
    argList ps close toks = ps toks := by
  cases toks with
  | nil => cases h
  | cons t toks =>
    cases t <;> try rfl
    next s =>
      simp only [startOK] at h
      have : s ≠ close := by rcases hc with rfl | rfl <;> simp [h.1, h.2]
      simp [argList, this]

def listCost : List Term → Nat
  | [] => 0
  | a :: as => cost a + 2 + listCost as

theorem sepBy_cons2 (sep : List Tok) (x y : List Tok) (more : List (List Tok)) :
    sepBy sep (x :: y :: more) = x ++ sep ++ sepBy sep (y :: more) := rfl

theorem listCost_le : ∀ (as : List Term), as ≠ [] → listCost as ≤ 3 * (sepBy [comma] (as.map hrTokens)).length + 2
  | [], h => absurd rfl h
  | [a], _ => by simp [listCost, sepBy, cost]
  | a :: b :: more, _ => by
    have ih := listCost_le (b :: more) (by simp)
    simp only [List.map_cons] at ih ⊢
    rw [sepBy_cons2]
    simp only [listCost, cost, List.length_append, List.length_cons, List.length_nil] at ih ⊢
    omega

/-- a non-empty list of terms, printed with commas and followed by a closing token that is not a comma -/
theorem params_list (f : Term → Term) (cs : String) (hcs : cs ≠ ",") (hl : lbp (.op cs) = 0) (rest : List Tok) :
    ∀ (as : List Term), as ≠ [] → (∀ a ∈ as, Reads a (f a)) →
      EvParams (sepBy [comma] (as.map hrTokens) ++ .op cs :: rest) (listCost as) (as.map f, .op cs :: rest)
  | [], h, _ => absurd rfl h
  | [a], _, hg => by
    intro n hn
    obtain ⟨m, rfl⟩ : ∃ m, n = m + 1 := ⟨n - 1, by simp [listCost] at hn; omega⟩
    simp only [List.map_cons, List.map_nil, sepBy]
    rw [params_succ, (hg a (by simp)).stop 0 (.op cs :: rest) (by omega) (by simp [headLbp, hl]) m
      (by simp [listCost] at hn; omega)]
    simp [hcs]
  | a :: b :: more, _, hg => by
    have ih := params_list f cs hcs hl rest (b :: more) (by simp) (fun x hx => hg x (List.mem_cons_of_mem _ hx))
    intro n hn
    obtain ⟨m, rfl⟩ : ∃ m, n = m + 1 := ⟨n - 1, by simp [listCost] at hn; omega⟩
    simp only [List.map_cons] at ih ⊢
    rw [sepBy_cons2]
    simp only [List.append_assoc, List.cons_append, List.nil_append]
    rw [params_succ, (hg a (by simp)).stop 0 (comma :: _) (by omega) (by simp [headLbp, lbp_comma]) m
      (by simp [listCost] at hn; omega)]
    simp only [↓reduceIte]
    rw [ih m (by simp [listCost] at hn ⊢; omega)]

theorem startOK_sepBy {a : Term} {as : List Term} (h : startOK (hrTokens a)) (rest : List Tok) :
    startOK (sepBy [comma] ((a :: as).map hrTokens) ++ rest) := by
  cases as with
  | nil => simpa [sepBy] using startOK_append rest h
  | cons b more =>
    simp only [List.map_cons]
    rw [sepBy_cons2]
    simp only [List.append_assoc]
    exact startOK_append _ h

/-! ## `s ( a , b )`, `s` a function-call token -/

theorem reads_call {op : Op} {p : Payload} {a u : Term} {as : List Term} {s c : String} (f : Term → Term)
    (hs : shapeOf op = some (.call s)) (hf : fnOf s = some c)
    (hok : applyFn c ((a :: as).map f) = .ok u) (hst : startOK (hrTokens a))
    (hg : ∀ x ∈ a :: as, Reads x (f x)) : Reads (.node op (a :: as) p) u := by
  have htoks : hrTokens (.node op (a :: as) p)
      = .op s :: lpar :: (sepBy [comma] ((a :: as).map hrTokens) ++ [rpar]) := by
    simp [hrTokens_node, nodeToks, hs]
  have hlc := listCost_le (a :: as) (by simp)
  intro rbp rest r n0 _ _ hloop n hn
  have hc : cost (.node op (a :: as) p) = 3 * (sepBy [comma] ((a :: as).map hrTokens)).length + 9 := by
    simp only [cost, htoks, List.length_cons, List.length_append, List.length_nil]; omega
  obtain ⟨m, rfl⟩ : ∃ m, n = m + 1 := ⟨n - 1, by omega⟩
  rw [htoks]
  simp only [List.cons_append, List.append_assoc, List.nil_append]
  rw [expr_succ, nud_fn _ _ _ hf]
  unfold nudFn
  simp only []
  rw [argList_start _ ")" (Or.inl rfl) (startOK_sepBy hst _),
    params_list f ")" (by decide) lbp_rpar rest (a :: as) (by simp) hg m (by omega)]
  simp only [expect_hit, hok]
  exact hloop m (by omega)

/-! ## `f ( a , b )` -/

theorem reads_app {op : Op} {f : Sym} {a u : Term} {as : List Term} (g : Term → Term) (hs : shapeOf op = some .app)
    (hr : reservedName f.name = false)
    (hok : liftMk (Mk.Function f ((a :: as).map g)) = .ok u) (hst : startOK (hrTokens a))
    (hg : ∀ x ∈ a :: as, Reads x (g x)) : Reads (.node op (a :: as) (.sym f)) u := by
  have htoks : hrTokens (.node op (a :: as) (.sym f))
      = .ident f :: lpar :: (sepBy [comma] ((a :: as).map hrTokens) ++ [rpar]) := by
    simp [hrTokens_node, nodeToks, hs, lexIdent, hr]
  have hlc := listCost_le (a :: as) (by simp)
  intro rbp rest r n0 _ _ hloop n hn
  have hc : cost (.node op (a :: as) (.sym f)) = 3 * (sepBy [comma] ((a :: as).map hrTokens)).length + 9 := by
    simp only [cost, htoks, List.length_cons, List.length_append, List.length_nil]; omega
  obtain ⟨m, rfl⟩ : ∃ m, n = m + 2 := ⟨n - 2, by omega⟩
  rw [htoks]
  simp only [List.cons_append, List.append_assoc, List.nil_append]
  rw [expr_succ, nud_ident]
  simp only []
  rw [loop_step _ _ _ _ _ (by rw [lbp_lpar]; omega), led_lpar]
  unfold ledCall
  rw [argList_start _ ")" (Or.inl rfl) (startOK_sepBy hst _),
    params_list g ")" (by decide) lbp_rpar rest (a :: as) (by simp) hg m (by omega)]
  simp only [List.map_cons] at hok
  simp only [expect_hit, List.map_cons, List.isEmpty_cons, Bool.false_eq_true, ↓reduceIte, Term.sym, hok]
  exact hloop m (by omega)

/-! ## atoms -/

theorem good_sym {s : Sym} (hr : reservedName s.name = false) : Good (Term.sym s) := by
  apply reads_atom (tok := .ident s)
  · simp [Term.sym, hrTokens_node, nodeToks, shapeOf_symbol, lexIdent, hr]
  · intro ex ps pt rest; rfl

theorem hrTokens_sym {s : Sym} (hr : reservedName s.name = false) : hrTokens (Term.sym s) = [.ident s] := by
  simp [Term.sym, hrTokens_node, nodeToks, shapeOf_symbol, lexIdent, hr]

/-! ## `( s x , y . body )` -/

theorem map_hrTokens_syms : ∀ (vs : List Sym), (∀ v ∈ vs, reservedName v.name = false) →
    (vs.map Term.sym).map hrTokens = vs.map (fun v => [lexIdent v])
  | [], _ => rfl
  | v :: vs, h => by
    simp only [List.map_cons]
    rw [hrTokens_sym (h v (by simp)), map_hrTokens_syms vs (fun x hx => h x (List.mem_cons_of_mem _ hx))]
    simp [lexIdent, h v (by simp)]

theorem reads_quant {op : Op} {v : Sym} {vs : List Sym} {b b' u : Term} {s c : String} {l : Nat}
    (hs : shapeOf op = some (.quant s)) (hq : quantOf s = some (c, l))
    (hr : ∀ x ∈ v :: vs, reservedName x.name = false)
    (hok : applyQuant c ((v :: vs).map Term.sym) b' = .ok u) (gb : Reads b b') :
    Reads (.node op [b] (.qvars (v :: vs))) u := by
  have hl := quant_lbp hq
  have hmap := map_hrTokens_syms (v :: vs) hr
  have htoks : hrTokens (.node op [b] (.qvars (v :: vs)))
      = lpar :: ((.op s :: (sepBy [comma] (((v :: vs).map Term.sym).map hrTokens) ++ (.op "." :: hrTokens b))) ++ [rpar]) := by
    rw [hmap]
    simp [hrTokens_node, nodeToks, hs]
  have hlc := listCost_le ((v :: vs).map Term.sym) (by simp)
  have hgs : ∀ x ∈ (v :: vs).map Term.sym, Reads x (id x) := by
    intro x hx
    obtain ⟨y, hy, rfl⟩ := List.mem_map.mp hx
    exact good_sym (hr y hy)
  refine reads_paren htoks (listCost ((v :: vs).map Term.sym) + cost b + 3) ?_ ?_
  · intro rest k hk
    obtain ⟨j, rfl⟩ : ∃ j, k = j + 1 := ⟨k - 1, by omega⟩
    simp only [List.cons_append, List.append_assoc]
    rw [expr_succ, nud_quant _ _ _ hq]
    unfold nudQuant
    have hstart : startOK (sepBy [comma] (((v :: vs).map Term.sym).map hrTokens) ++ (.op "." :: (hrTokens b ++ rpar :: rest))) := by
      simp only [List.map_cons]
      exact startOK_sepBy (by rw [hrTokens_sym (hr v (by simp))]; trivial) _
    rw [argList_start _ "." (Or.inr rfl) hstart,
      params_list id "." (by decide) lbp_dot _ _ (by simp) hgs j (by omega)]
    simp only [expect_hit, List.map_id]
    rw [gb.stop l (rpar :: rest) hl (by simp [headLbp_rpar]) j (by omega)]
    simp only [hok]
    obtain ⟨i, rfl⟩ : ∃ i, j = i + 1 := ⟨j - 1, by omega⟩
    exact loop_stop i 0 _ _ (by simp [headLbp_rpar])
  · simp only [cost, htoks, List.length_cons, List.length_append, List.length_nil]; omega

/-! ## the postfix forms -/

theorem headLbp_lbrak (rest : List Tok) : headLbp (lbrak :: rest) = 300 := by simp [headLbp, lbp_lbrak]

/-- `a [ lo : hi ]` -/
theorem reads_extract {op : Op} {w lo hi : Nat} {a a' u : Term} (hs : shapeOf op = some .extract) (ht : tight a = true)
    (hok : applyExtract a' (Term.int lo) (Term.int hi) = .ok u) (ga : Reads a a') :
    Reads (.node op [a] (.ints [w, lo, hi])) u := by
  have htoks : hrTokens (.node op [a] (.ints [w, lo, hi]))
      = hrTokens a ++ [lbrak, .int lo, .op ":", .int hi, rbrak] := by
    simp [hrTokens_node, nodeToks, hs]
  intro rbp rest r n0 hrbp _ hloop
  have hc : cost (.node op [a] (.ints [w, lo, hi])) = cost a + 15 := by
    simp only [cost, htoks, List.length_cons, List.length_append, List.length_nil]; omega
  rw [htoks, hc]
  simp only [List.append_assoc, List.cons_append, List.nil_append]
  have := ga rbp (lbrak :: .int lo :: .op ":" :: .int hi :: rbrak :: rest) r (n0 + 4) hrbp (Or.inl ht) (by
    intro n hn
    obtain ⟨j, rfl⟩ : ∃ j, n = j + 3 := ⟨n - 3, by omega⟩
    rw [loop_step _ _ _ _ _ (by rw [lbp_lbrak]; omega), led_lbrak]
    unfold ledBrak
    rw [expr_int_stop j 0 _ _ (by simp [headLbp, lbp_colon])]
    simp only [↓reduceIte]
    rw [expr_int_stop j 0 _ _ (by simp [headLbp, lbp_rbrak])]
    simp only [expect_hit, hok]
    exact hloop (j + 2) (by omega))
  exact fun n hn => this n (by omega)

/-- `a [ i ]` -/
theorem reads_select {op : Op} {p : Payload} {a i a' i' u : Term} (hs : shapeOf op = some .select) (ht : tight a = true)
    (hok : liftMk (Mk.Select a' i') = .ok u) (ga : Reads a a') (gi : Reads i i') :
    Reads (.node op [a, i] p) u := by
  have htoks : hrTokens (.node op [a, i] p) = hrTokens a ++ (lbrak :: (hrTokens i ++ [rbrak])) := by
    simp [hrTokens_node, nodeToks, hs]
  intro rbp rest r n0 hrbp _ hloop
  have hc : cost (.node op [a, i] p) = cost a + cost i + 6 := by
    simp only [cost, htoks, List.length_cons, List.length_append, List.length_nil]; omega
  rw [htoks, hc]
  simp only [List.append_assoc, List.cons_append, List.nil_append]
  have := ga rbp (lbrak :: (hrTokens i ++ rbrak :: rest)) r (n0 + cost i + 3) hrbp (Or.inl ht) (by
    intro n hn
    obtain ⟨j, rfl⟩ : ∃ j, n = j + 1 := ⟨n - 1, by omega⟩
    rw [loop_step _ _ _ _ _ (by rw [lbp_lbrak]; omega), led_lbrak]
    unfold ledBrak
    rw [gi.stop 0 (rbrak :: rest) (by omega) (by simp [headLbp, lbp_rbrak]) j (by omega)]
    simp only [String.reduceEq, ↓reduceIte, hok]
    exact hloop j (by omega))
  exact fun n hn => this n (by omega)

/-- `a [ i := v ]` -/
theorem reads_store {op : Op} {p : Payload} {a i v a' i' v' u : Term} (hs : shapeOf op = some .store) (ht : tight a = true)
    (hok : liftMk (Mk.Store a' i' v') = .ok u) (ga : Reads a a') (gi : Reads i i') (gv : Reads v v') :
    Reads (.node op [a, i, v] p) u := by
  have htoks : hrTokens (.node op [a, i, v] p)
      = hrTokens a ++ (lbrak :: (hrTokens i ++ (.op ":=" :: (hrTokens v ++ [rbrak])))) := by
    simp [hrTokens_node, nodeToks, hs]
  intro rbp rest r n0 hrbp _ hloop
  have hc : cost (.node op [a, i, v] p) = cost a + cost i + cost v + 9 := by
    simp only [cost, htoks, List.length_cons, List.length_append, List.length_nil]; omega
  rw [htoks, hc]
  simp only [List.append_assoc, List.cons_append, List.nil_append]
  have := ga rbp (lbrak :: (hrTokens i ++ .op ":=" :: (hrTokens v ++ rbrak :: rest))) r (n0 + cost i + cost v + 3)
    hrbp (Or.inl ht) (by
    intro n hn
    obtain ⟨j, rfl⟩ : ∃ j, n = j + 1 := ⟨n - 1, by omega⟩
    rw [loop_step _ _ _ _ _ (by rw [lbp_lbrak]; omega), led_lbrak]
    unfold ledBrak
    rw [gi.stop 0 (.op ":=" :: _) (by omega) (by simp [headLbp, lbp_assign]) j (by omega)]
    simp only [String.reduceEq, ↓reduceIte]
    rw [gv.stop 0 (rbrak :: rest) (by omega) (by simp [headLbp, lbp_rbrak]) j (by omega)]
    simp only [expect_hit, hok]
    exact hloop j (by omega))
  exact fun n hn => this n (by omega)

/-! ## sorts and constant arrays -/

theorem pType_tyToks : ∀ (τ : Ty), readableTy τ = true → ∀ (rest : List Tok) (n : Nat), (tyToks τ).length + 1 ≤ n →
    pType n (tyToks τ ++ rest) = .ok (τ, rest)
  | .bool, _, rest, n, hn => by
    obtain ⟨m, rfl⟩ : ∃ m, n = m + 1 := ⟨n - 1, by simp [tyToks] at hn; omega⟩
    simp [tyToks, pType, kindOf_bool]
  | .int, _, rest, n, hn => by
    obtain ⟨m, rfl⟩ : ∃ m, n = m + 1 := ⟨n - 1, by simp [tyToks] at hn; omega⟩
    simp [tyToks, pType, kindOf_int]
  | .real, _, rest, n, hn => by
    obtain ⟨m, rfl⟩ : ∃ m, n = m + 1 := ⟨n - 1, by simp [tyToks] at hn; omega⟩
    simp [tyToks, pType, kindOf_real]
  | .bv w, _, rest, n, hn => by
    obtain ⟨m, rfl⟩ : ∃ m, n = m + 1 := ⟨n - 1, by simp [tyToks] at hn; omega⟩
    simp [tyToks, pType]
  | .str, h, _, _, _ => by simp [readableTy] at h
  | .custom _, h, _, _, _ => by simp [readableTy] at h
  | .array i e, h, rest, n, hn => by
    simp only [readableTy, Bool.and_eq_true] at h
    simp only [tyToks, List.length_cons, List.length_append, List.length_nil] at hn
    obtain ⟨m, rfl⟩ : ∃ m, n = m + 1 := ⟨n - 1, by omega⟩
    simp only [tyToks, List.cons_append, List.append_assoc, List.nil_append]
    rw [pType]
    simp only [kindOf_array, ↓reduceIte]
    rw [pType_tyToks i h.1 _ m (by omega)]
    simp only [expect_hit]
    rw [pType_tyToks e h.2 _ m (by omega)]
    simp only [expect_hit]

/-- `Array{ I , E } ( d )` -/
theorem reads_arrayValue {op : Op} {idx τ : Ty} {d d' u : Term} (hs : shapeOf op = some .arrayValue)
    (hi : readableTy idx = true) (hτ : d.typeOf = some τ) (he : readableTy τ = true)
    (hok : liftMk (Mk.Array idx d' []) = .ok u) (gd : Reads d d') :
    Reads (.node op [d] (.ty idx)) u := by
  have htoks : hrTokens (.node op [d] (.ty idx))
      = .op "Array{" :: (tyToks idx ++ (comma :: (tyToks τ ++ (.op "}" :: lpar :: (hrTokens d ++ [rpar]))))) := by
    simp [hrTokens_node, nodeToks, hs, hτ, avPairs, sortKV]
  intro rbp rest r n0 _ _ hloop n hn
  have hc : cost (.node op [d] (.ty idx)) = 3 * (tyToks idx).length + 3 * (tyToks τ).length + cost d + 15 := by
    simp only [cost, htoks, List.length_cons, List.length_append, List.length_nil]; omega
  obtain ⟨m, rfl⟩ : ∃ m, n = m + 1 := ⟨n - 1, by omega⟩
  rw [htoks]
  simp only [List.cons_append, List.append_assoc, List.nil_append]
  rw [expr_succ, nud_array]
  unfold nudArray
  rw [pType_tyToks idx hi _ m (by omega)]
  simp only [expect_hit]
  rw [pType_tyToks τ he _ m (by omega)]
  simp only [expect_hit]
  rw [gd.stop 0 (rpar :: rest) (by omega) (by simp [headLbp_rpar]) m (by omega)]
  simp only [expect_hit, hok]
  exact hloop m (by omega)

end PySMT.HR.RT
