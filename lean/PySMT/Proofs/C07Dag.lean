import PySMT.Proofs.C07Sound
/-!
# C07: the let chain of the DAG printer

* `rd_let1` — the standard's reading of `(let ((d e)) body)`: `e` is read in the outer scope, `body` in the scope
  extended by `d ↦ ⟦e⟧`;
* `rd_letWrap` — hence the reading of the DAG printer's output `letWrap binds key` is the reading of `key` in the scope
  obtained by reading the bindings one after the other, oldest first (`readBinds`);
* `nextFree_fresh` — the let-freshness lemma: the name `_new_symbol` returns is not the (quoted) name of a free symbol
  of the formula, so no binding of the chain captures a user symbol.
-/
namespace PySMT.Printer
open PySMT.Std PySMT.Sexp

/-- read the bindings `(name, right-hand side)` one after the other, each in the scope of the previous ones -/
def readBinds (env : SEnv) : List Binding → List (String × Sexp) → Except String (List Binding)
  | scope, [] => .ok scope
  | scope, (dn, e) :: rest =>
    match symName? dn with
    | none => .error "let: variable name expected"
    | some n =>
      if theorySymbols.contains n then .error ("let binds a theory symbol: " ++ n)
      else match rd env scope e with
        | .ok (t, ty) => readBinds env (.letb n t ty :: scope) rest
        | .error err => .error err

theorem rd_let1 (env : SEnv) (scope : List Binding) (dn : String) (e body : Sexp) :
    rd env scope (.list [.atom "let", .list [.list [.atom dn, e]], body]) =
      match readBinds env scope [(dn, e)] with
      | .ok sc => rd env sc body
      | .error err => .error err := by
  rw [rd]
  simp only [beq_self_eq_true, if_true, rdLet, rdBindings, readBinds]
  cases symName? dn with
  | none => rfl
  | some n =>
    simp only []
    by_cases hth : theorySymbols.contains n = true
    · simp only [hth, if_true]
    · simp only [hth, Bool.false_eq_true, if_false]
      cases rd env scope e with
      | error err => rfl
      | ok r =>
        obtain ⟨t, ty⟩ := r
        simp [distinctNames, bindingName, List.eraseDups, List.eraseDupsBy, List.eraseDupsBy.loop]

/-- nested single-binding lets, outermost binding first -/
def letChain : List (String × Sexp) → Sexp → Sexp
  | [], key => key
  | (dn, e) :: rest, key => .list [.atom "let", .list [.list [.atom dn, e]], letChain rest key]

theorem rd_letChain (env : SEnv) : ∀ (binds : List (String × Sexp)) (scope : List Binding) (key : Sexp),
    rd env scope (letChain binds key) =
      match readBinds env scope binds with
      | .ok sc => rd env sc key
      | .error err => .error err
  | [], scope, key => rfl
  | (dn, e) :: rest, scope, key => by
    rw [letChain, rd_let1]
    simp only [readBinds]
    cases symName? dn with
    | none => rfl
    | some n =>
      simp only []
      by_cases hth : theorySymbols.contains n = true
      · simp only [hth, if_true]
      · simp only [hth, Bool.false_eq_true, if_false]
        cases rd env scope e with
        | error err => rfl
        | ok r =>
          obtain ⟨t, ty⟩ := r
          simp only []
          exact rd_letChain env rest _ key

/-- the DAG printer's output is a let chain -/
theorem letWrap_eq_chain (binds : List (String × Sexp)) (key : Sexp) :
    letWrap (binds.map (fun b => (Sexp.atom b.1, b.2))) key = letChain binds.reverse key := by
  unfold letWrap
  induction binds generalizing key with
  | nil => rfl
  | cons b binds ih =>
    simp only [List.map_cons, List.foldl_cons, List.reverse_cons]
    rw [ih]
    have : ∀ (l : List (String × Sexp)) (k : Sexp),
        letChain (l ++ [b]) k = letChain l (.list [.atom "let", .list [.list [.atom b.1, b.2]], k]) := by
      intro l
      induction l with
      | nil => intro k; rfl
      | cons x l ihl => intro k; simp only [List.cons_append, letChain, ihl]
    rw [this]

/-- **The let chain is read binding by binding**: the standard's reading of what `SmtDagPrinter` writes — `letWrap binds key`,
`binds` most recent first — is the reading of `key` in the scope built by `readBinds` from the bindings, oldest first. -/
theorem rd_letWrap (env : SEnv) (scope : List Binding) (binds : List (String × Sexp)) (key : Sexp) :
    rd env scope (letWrap (binds.map (fun b => (Sexp.atom b.1, b.2))) key) =
      match readBinds env scope binds.reverse with
      | .ok sc => rd env sc key
      | .error err => .error err := by
  rw [letWrap_eq_chain, rd_letChain]

/-! ## freshness of the generated names -/

theorem natChars_inj {a b : Nat} (h : natChars a = natChars b) : a = b := by
  have ha := (natChars_proper a).2.1
  have hb := (natChars_proper b).2.1
  rw [h] at ha
  omega

theorem defName_inj {a b : Nat} (h : defName a = defName b) : a = b := by
  unfold defName at h
  have := congrArg String.toList h
  simp only [String.toList_ofList] at this
  exact natChars_inj (List.append_cancel_left this)

/-- if all of `defName k … defName (k + n - 1)` are in `names`, then `names` has at least `n` elements -/
theorem many_names : ∀ (n : Nat) (names : List String) (k : Nat),
    (∀ j, k ≤ j → j < k + n → defName j ∈ names) → n ≤ names.length
  | 0, _, _, _ => Nat.zero_le _
  | n + 1, names, k, h => by
    have hk : defName k ∈ names := h k (Nat.le_refl _) (by omega)
    have ih := many_names n (names.erase (defName k)) (k + 1) (fun j hj1 hj2 => by
      have hne : defName j ≠ defName k := fun e => by have := defName_inj e; omega
      exact (List.mem_erase_of_ne hne).2 (h j (by omega) (by omega)))
    rw [List.length_erase_of_mem hk] at ih
    have : 0 < names.length := List.length_pos_of_mem hk
    omega

theorem nextFree_spec (names : List String) : ∀ (fuel k : Nat),
    (∀ j, k ≤ j → j < nextFree names fuel k → defName j ∈ names) ∧ k ≤ nextFree names fuel k ∧
    (defName (nextFree names fuel k) ∈ names → nextFree names fuel k = k + fuel)
  | 0, k => ⟨fun j h1 h2 => by simp only [nextFree] at h2; omega, by simp [nextFree], fun _ => by simp [nextFree]⟩
  | fuel + 1, k => by
    unfold nextFree
    by_cases hk : names.contains (defName k) = true
    · simp only [hk, if_true]
      obtain ⟨h1, h2, h3⟩ := nextFree_spec names fuel (k + 1)
      refine ⟨?_, by omega, ?_⟩
      · intro j hj1 hj2
        by_cases hjk : j = k
        · subst hjk; simpa using hk
        · exact h1 j (by omega) hj2
      · intro hm; have := h3 hm; omega
    · simp only [hk, Bool.false_eq_true, if_false]
      refine ⟨fun j h1 h2 => by omega, Nat.le_refl _, ?_⟩
      intro hm
      exact absurd (by simpa using hm) hk

/-- **let-freshness**: the name chosen by `_new_symbol` is not among `names` (the quoted names of the free symbols) -/
theorem nextFree_fresh (names : List String) (k : Nat) :
    defName (nextFree names (names.length + 1) k) ∉ names := by
  intro hm
  obtain ⟨h1, _, h3⟩ := nextFree_spec names (names.length + 1) k
  have heq := h3 hm
  have := many_names (names.length + 1) names k (fun j hj1 hj2 => by
    by_cases hj : j < nextFree names (names.length + 1) k
    · exact h1 j hj1 hj
    · have : j = nextFree names (names.length + 1) k := by omega
      rw [this]; exact hm)
  omega

/-! ## the DAG printer's bindings -/

/-- every binding written so far binds a generated name that is not the quoted name of a free symbol -/
def BindsOK (names : List String) (binds : List (Sexp × Sexp)) : Prop :=
  ∀ de ∈ binds, ∃ k, de.1 = .atom (defName k) ∧ defName k ∉ names

theorem bindNew_ok (names : List String) (st : DSt) (rest : List (Bool × Term)) (t : Term) (e : Sexp)
    (h : BindsOK names st.binds) : BindsOK names (bindNew names st rest t e).binds := by
  intro de hde
  simp only [bindNew, List.mem_cons] at hde
  rcases hde with rfl | hde
  · exact ⟨_, rfl, nextFree_fresh names st.seed⟩
  · exact h de hde

theorem dagStep_ok (sp : Spell) (names : List String) (sub : Term → Sexp) (st : DSt) (h : BindsOK names st.binds) :
    BindsOK names (dagStep sp names sub st).binds := by
  unfold dagStep
  split
  · exact h
  · next expanded op args p rest _ =>
    dsimp only
    split
    · split
      · exact h
      · split
        · exact bindNew_ok names st rest _ _ h
        · exact h
    · split
      · split
        · exact h
        · exact bindNew_ok names st rest _ _ h
      · exact h

theorem dagLoop_ok (sp : Spell) (names : List String) (sub : Term → Sexp) : ∀ (fuel : Nat) (st : DSt),
    BindsOK names st.binds → BindsOK names (dagLoop sp names sub fuel st).binds
  | 0, _, h => h
  | fuel + 1, st, h => by
    unfold dagLoop
    split
    · exact h
    · exact dagLoop_ok sp names sub fuel _ (dagStep_ok sp names sub st h)

/-- the bindings as `(name, right-hand side)` pairs -/
def bindNames (binds : List (Sexp × Sexp)) : List (String × Sexp) :=
  binds.map (fun de => (match de.1 with | .atom n => n | _ => "", de.2))

theorem bindNames_map {names : List String} {binds : List (Sexp × Sexp)} (h : BindsOK names binds) :
    (bindNames binds).map (fun b => (Sexp.atom b.1, b.2)) = binds := by
  unfold bindNames
  rw [List.map_map]
  conv => rhs; rw [← List.map_id binds]
  apply List.map_congr_left
  intro de hde
  obtain ⟨k, hk, _⟩ := h de hde
  cases de with
  | mk d e => simp only at hk; subst hk; rfl

/-- **Structure of the DAG printer's output** (`printDag_sound`, partial): `toSexpDag t` is a chain of single-binding
`let`s whose names are generated names `.def_k`, none of which is the quoted name of a free symbol of `t` (let-freshness:
no binding captures a user symbol), and the standard reads it binding by binding: the right-hand side of each binding in the
scope of the earlier ones, the final key in the scope of all.

`_partial`: that every right-hand side is read as the sub-formula it was printed for (the memoization invariant of the
work-stack machine) is not proved; it is checked on every run by K (`cmp_print dag`) and S (`chk_print` on the DAG text). -/
theorem printDag_chain (t : Term) :
    ∃ (binds : List (String × Sexp)) (key : Sexp),
      toSexpDag t = letWrap (binds.map (fun b => (Sexp.atom b.1, b.2))) key ∧
      (∀ b ∈ binds, ∃ k, b.1 = defName k ∧ b.1 ∉ t.fv.eraseDups.map (fun s => pyQuote s.name)) ∧
      ∀ (env : SEnv) (scope : List Binding),
        rd env scope (toSexpDag t) = match readBinds env scope binds.reverse with
          | .ok sc => rd env sc key
          | .error err => .error err := by
  unfold toSexpDag dagFuel
  generalize 8 * t.size + 16 = fuel
  cases fuel with
  | zero =>
    refine ⟨[], .atom "|<out of fuel>|", rfl, by simp, fun env scope => ?_⟩
    simp [dagPrint, readBinds]
  | succ fuel =>
    simp only [dagPrint]
    generalize hst : dagLoop dagSpell (t.fv.eraseDups.map (fun s => pyQuote s.name)) (dagPrint dagSpell fuel) fuel
      { stack := [(false, t)], memo := [], seed := 0, binds := [] } = st
    have hok : BindsOK (t.fv.eraseDups.map (fun s => pyQuote s.name)) st.binds := by
      rw [← hst]
      exact dagLoop_ok _ _ _ _ _ (fun _ h => by simp at h)
    refine ⟨bindNames st.binds, memoGet st.memo t, by rw [bindNames_map hok], ?_, fun env scope => ?_⟩
    · intro b hb
      simp only [bindNames, List.mem_map] at hb
      obtain ⟨de, hde, rfl⟩ := hb
      obtain ⟨k, hk, hfresh⟩ := hok de hde
      exact ⟨k, by simp [hk], by simpa [hk] using hfresh⟩
    · have := rd_letWrap env scope (bindNames st.binds) (memoGet st.memo t)
      rw [bindNames_map hok] at this
      exact this

end PySMT.Printer
