import PySMT.Proofs.C08AgreeTop
import PySMT.Proofs.C09Frag4
import PySMT.Proofs.C09RotTree
import PySMT.Proofs.C09Normal
import PySMT.Proofs.C07Sound
import PySMT.Proofs.C07DagSound
/-!
# C09: print → parse returns the very same formula (tree printer), from C07's `read_toSexp` and C08's agreement theorem

`toSexp t` is read by the standard as `unfoldAV t` (C07), it lies in the fragment of the agreement theorem
(`fragS_toSexp`) and satisfies its side condition for rotations (`rotOK_toSexp`), so the parser model reads `mkNorm (unfoldAV t)`, which is `unfoldAV t` for a formula in the manager's
normal form (`mkNorm_unfoldAV`).
-/
namespace PySMT.Parser.Agree
open PySMT PySMT.Parser PySMT.Std PySMT.Sexp PySMT.Printer

theorem parse_print_id (env : SEnv) (ρ : List (String × Sym)) (Γ : PEnv) (hc : Corr env [] Γ) (hm : MgrLe Γ.mgr ρ)
    (t : Term) (hP : Printable env [] t = true) (hQ : parseOK env ρ t = true) (hN : mgrNormal t = true) :
    readTerm Γ (toSexp t) = .ok (unfoldAV t) := by
  have hstd := Printer.read_toSexp env t hP
  have hfrag := fragS_toSexp_tree env ρ t [] hP hQ
  have h := (readTerm_agree env ρ Γ hc hm (toSexp t) hfrag (rotOK_toSexp_tree env t hP) (unfoldAV t) hstd).1
  rw [mkNorm_unfoldAV env t hP hN] at h
  exact h

/-- … with the manager's state: it stays within `ρ` (no fresh symbol is invented for a bound variable) -/
theorem parse_print_id_st (env : SEnv) (ρ : List (String × Sym)) (Γ : PEnv) (hc : Corr env [] Γ) (hm : MgrLe Γ.mgr ρ)
    (t : Term) (hP : Printable env [] t = true) (hQ : parseOK env ρ t = true) (hN : mgrNormal t = true) :
    ∃ σ', readTermSt Γ (toSexp t) = .ok (unfoldAV t, σ') ∧ MgrLe σ' ρ := by
  have hstd := Printer.read_toSexp env t hP
  have hfrag := fragS_toSexp_tree env ρ t [] hP hQ
  obtain ⟨σ', h, hm'⟩ := readTermSt_agree env ρ Γ hc hm (toSexp t) hfrag (rotOK_toSexp_tree env t hP) (unfoldAV t) hstd
  rw [mkNorm_unfoldAV env t hP hN] at h
  exact ⟨σ', h, hm'⟩

/-- … in the environment the declarations of `env` build -/
theorem parse_print_id_penv (env : SEnv) (henv : envOK env = true) (ρ : List (String × Sym))
    (t : Term) (hP : Printable env [] t = true) (hQ : parseOK env ρ t = true) (hN : mgrNormal t = true) :
    readTerm (penvOf env) (toSexp t) = .ok (unfoldAV t) :=
  parse_print_id env ρ (penvOf env) (corr_penvOf env henv) (mgrLe_penvOf env ρ) t hP hQ hN

end PySMT.Parser.Agree
