import PySMT.Proofs.C10Basic
import PySMT.Impl.Rewritings.AIG
/-!
# C10 — `aig`: equivalence and shape
-/
namespace PySMT.Rewritings

theorem aig_atom {op : Op} (h : isConnective op = false) (args : List Term) (p : Payload) :
    aig (.node op args p) = .node op args p := by
  unfold aig
  split <;> simp_all [isConnective]

theorem wb_notAnd {x y : Term} (hx : WB x) (hy : WB y) : WB (mkNot (mkAnd [x, mkNot y])) :=
  wb_mkNot (wb_mkAnd (wb_pair hx (wb_mkNot hy)))

theorem truth_notAnd {I : Interp} (hI : I.WF) {x y : Term} (hx : WB x) (hy : WB y) :
    truth I (mkNot (mkAnd [x, mkNot y])) = !(truth I x && !truth I y) := by
  have h1 := wb_pair hx (wb_mkNot hy)
  rw [truth_of_eval (eval_mkNot hI (wb_mkAnd h1)), truth_of_eval (eval_mkAnd hI h1)]
  simp [truth_of_eval (eval_mkNot hI hy)]

/-- `aig t` is well-formed Boolean and has the value of `t` -/
theorem aig_spec : (t : Term) → WB t →
    WB (aig t) ∧ ∀ I : Interp, I.WF → eval I (aig t) = .b (truth I t)
  | .node op args p => fun h => by
    have ih : ∀ a ∈ args, WB a → WB (aig a) ∧ ∀ I : Interp, I.WF → eval I (aig a) = .b (truth I a) :=
      fun a _ ha => aig_spec a ha
    have tr : ∀ a ∈ args, WB a → ∀ I : Interp, I.WF → truth I (aig a) = truth I a :=
      fun a ha hwa I hI => truth_of_eval ((ih a ha hwa).2 I hI)
    by_cases hc : isConnective op = false
    · rw [aig_atom hc]
      exact ⟨h, fun I hI => h.isB hI⟩
    · cases op <;> simp [isConnective] at hc
      case and =>
        have hch := (wb_and _ _).mp h
        have hw : ∀ x ∈ args.map aig, WB x := by
          intro x hx
          obtain ⟨a, ha, rfl⟩ := List.mem_map.mp hx
          exact (ih a ha (hch a ha)).1
        simp only [aig]
        refine ⟨wb_mkAnd hw, fun I hI => ?_⟩
        rw [eval_mkAnd hI hw, truth_and, List.all_map]
        congr 1
        exact list_all_congr (fun a ha => tr a ha (hch a ha) I hI)
      case or =>
        have hch := (wb_or _ _).mp h
        have hw : ∀ x ∈ args.map (fun a => mkNot (aig a)), WB x := by
          intro x hx
          obtain ⟨a, ha, rfl⟩ := List.mem_map.mp hx
          exact wb_mkNot (ih a ha (hch a ha)).1
        simp only [aig]
        refine ⟨wb_mkNot (wb_mkAnd hw), fun I hI => ?_⟩
        rw [eval_mkNot hI (wb_mkAnd hw), truth_of_eval (eval_mkAnd hI hw), truth_or, List.all_map, list_not_all]
        congr 1
        refine list_any_congr (fun a ha => ?_)
        simp only [Function.comp]
        rw [truth_of_eval (eval_mkNot hI (ih a ha (hch a ha)).1), tr a ha (hch a ha) I hI]
        simp
      case not =>
        obtain ⟨a, rfl⟩ := wf_not_args h.1
        have ha := (wb_not _ _).mp h
        have := ih a (by simp) ha
        simp only [aig]
        refine ⟨wb_mkNot this.1, fun I hI => ?_⟩
        rw [eval_mkNot hI this.1, truth_of_eval (this.2 I hI), truth_not]
      case implies =>
        obtain ⟨a, b, rfl⟩ := wf_binary_args (.inl rfl) h.1
        obtain ⟨ha, hb⟩ := (wb_implies _ _ _).mp h
        have a1 := ih a (by simp) ha; have b1 := ih b (by simp) hb
        simp only [aig]
        refine ⟨wb_notAnd a1.1 b1.1, fun I hI => ?_⟩
        rw [(wb_notAnd a1.1 b1.1).isB hI, truth_notAnd hI a1.1 b1.1, truth_implies,
          truth_of_eval (a1.2 I hI), truth_of_eval (b1.2 I hI)]
        cases truth I a <;> cases truth I b <;> rfl
      case iff =>
        obtain ⟨a, b, rfl⟩ := wf_binary_args (.inr rfl) h.1
        obtain ⟨ha, hb⟩ := (wb_iff _ _ _).mp h
        have a1 := ih a (by simp) ha; have b1 := ih b (by simp) hb
        simp only [aig]
        have hw := wb_pair (wb_notAnd a1.1 b1.1) (wb_notAnd b1.1 a1.1)
        refine ⟨wb_mkAnd hw, fun I hI => ?_⟩
        rw [eval_mkAnd hI hw]
        simp only [List.all_cons, List.all_nil, truth_notAnd hI a1.1 b1.1, truth_notAnd hI b1.1 a1.1, truth_iff,
          truth_of_eval (a1.2 I hI), truth_of_eval (b1.2 I hI)]
        cases truth I a <;> cases truth I b <;> rfl
      case ite =>
        obtain ⟨c, a, b, rfl⟩ := wf_ite_args h.1
        obtain ⟨hc', ha, hb⟩ := (wb_ite _ _ _ _).mp h
        have c1 := ih c (by simp) hc'; have a1 := ih a (by simp) ha; have b1 := ih b (by simp) hb
        simp only [aig, ha.2, beq_self_eq_true, if_true]
        have hw := wb_pair (wb_notAnd c1.1 a1.1) (wb_notAnd (wb_mkNot c1.1) b1.1)
        refine ⟨wb_mkAnd hw, fun I hI => ?_⟩
        rw [eval_mkAnd hI hw]
        simp only [List.all_cons, List.all_nil, truth_notAnd hI c1.1 a1.1, truth_notAnd hI (wb_mkNot c1.1) b1.1,
          truth_ite, truth_of_eval (eval_mkNot hI c1.1),
          truth_of_eval (a1.2 I hI), truth_of_eval (b1.2 I hI), truth_of_eval (c1.2 I hI)]
        cases truth I c <;> cases truth I a <;> cases truth I b <;> rfl
      case forall_ =>
        obtain ⟨b, vs, rfl, rfl⟩ := wf_quant_args (.inl rfl) h.1
        have hb := (wb_forall _ _).mp h
        have b1 := ih b (by simp) hb
        simp only [aig]
        refine ⟨wb_mkForall b1.1, fun I hI => ?_⟩
        rw [eval_mkForall hI vs b1.1, truth_forall]
        congr 1
        exact quant_congr_wf _ _ _ (fun J hJ => truth_of_eval (b1.2 J hJ)) vs I hI
      case exists_ =>
        obtain ⟨b, vs, rfl, rfl⟩ := wf_quant_args (.inr rfl) h.1
        have hb := (wb_exists _ _).mp h
        have b1 := ih b (by simp) hb
        simp only [aig]
        refine ⟨wb_mkExists b1.1, fun I hI => ?_⟩
        rw [eval_mkExists hI vs b1.1, truth_exists]
        congr 1
        exact quant_congr_wf _ _ _ (fun J hJ => truth_of_eval (b1.2 J hJ)) vs I hI

theorem aig_equiv (t : Term) (hwf : t.wf = true) (hty : t.typeOf = some .bool) (I : Interp) (hI : I.WF) :
    eval I (aig t) = eval I t := by
  rw [(aig_spec t ⟨hwf, hty⟩).2 I hI, WB.isB ⟨hwf, hty⟩ hI]

theorem aig_wf (t : Term) (hwf : t.wf = true) (hty : t.typeOf = some .bool) :
    (aig t).wf = true ∧ (aig t).typeOf = some .bool := (aig_spec t ⟨hwf, hty⟩).1

/-! ## shape -/

theorem isAIG_and (as : List Term) (p : Payload) : isAIG (.node .and as p) = as.all isAIG := by
  rw [isAIG, List.all_map]; rfl
theorem isAIG_not (a : Term) (p : Payload) : isAIG (.node .not [a] p) = isAIG a := by rw [isAIG]
theorem isAIG_forall (b : Term) (p : Payload) : isAIG (.node .forall_ [b] p) = isAIG b := by rw [isAIG]
theorem isAIG_exists (b : Term) (p : Payload) : isAIG (.node .exists_ [b] p) = isAIG b := by rw [isAIG]
theorem isAIG_atom {op : Op} (h : isConnective op = false) (args : List Term) (p : Payload) :
    isAIG (.node op args p) = true := by
  unfold isAIG
  split <;> simp_all [isConnective]

theorem isAIG_mkAnd {as : List Term} (h : ∀ a ∈ as, isAIG a = true) : isAIG (mkAnd as) = true := by
  match as, h with
  | [], _ => exact isAIG_atom rfl _ _
  | [a], h => exact h a (by simp)
  | a :: b :: rest, h =>
    rw [show mkAnd (a :: b :: rest) = .node .and (a :: b :: rest) .none from rfl, isAIG_and]
    exact List.all_eq_true.mpr h

theorem isAIG_mkNot {t : Term} (h : isAIG t = true) : isAIG (mkNot t) = true := by
  rcases mkNot_cases t with ⟨a, p, rfl, h2⟩ | h2
  · rw [h2]; rwa [isAIG_not] at h
  · rw [h2, isAIG_not]; exact h

theorem isAIG_pair {x y : Term} (hx : isAIG x = true) (hy : isAIG y = true) : ∀ z ∈ [x, y], isAIG z = true := by
  intro z hz
  simp only [List.mem_cons, List.not_mem_nil, or_false] at hz
  rcases hz with rfl | rfl
  · exact hx
  · exact hy

theorem isAIG_notAnd {x y : Term} (hx : isAIG x = true) (hy : isAIG y = true) :
    isAIG (mkNot (mkAnd [x, mkNot y])) = true :=
  isAIG_mkNot (isAIG_mkAnd (isAIG_pair hx (isAIG_mkNot hy)))

theorem isAIG_mkForall (vs : List Sym) {b : Term} (h : isAIG b = true) : isAIG (mkForall vs b) = true := by
  unfold mkForall; split
  · exact h
  · rw [isAIG_forall]; exact h

theorem isAIG_mkExists (vs : List Sym) {b : Term} (h : isAIG b = true) : isAIG (mkExists vs b) = true := by
  unfold mkExists; split
  · exact h
  · rw [isAIG_exists]; exact h

/-- only `and` and `not` above the atoms (binders are kept) -/
theorem aig_shape : (t : Term) → WB t → isAIG (aig t) = true
  | .node op args p => fun h => by
    have ih : ∀ a ∈ args, WB a → isAIG (aig a) = true := fun a _ ha => aig_shape a ha
    by_cases hc : isConnective op = false
    · rw [aig_atom hc]; exact isAIG_atom hc _ _
    · cases op <;> simp [isConnective] at hc
      case and =>
        have hch := (wb_and _ _).mp h
        simp only [aig]
        refine isAIG_mkAnd (fun x hx => ?_)
        obtain ⟨a, ha, rfl⟩ := List.mem_map.mp hx
        exact ih a ha (hch a ha)
      case or =>
        have hch := (wb_or _ _).mp h
        simp only [aig]
        refine isAIG_mkNot (isAIG_mkAnd (fun x hx => ?_))
        obtain ⟨a, ha, rfl⟩ := List.mem_map.mp hx
        exact isAIG_mkNot (ih a ha (hch a ha))
      case not =>
        obtain ⟨a, rfl⟩ := wf_not_args h.1
        simp only [aig]
        exact isAIG_mkNot (ih a (by simp) ((wb_not _ _).mp h))
      case implies =>
        obtain ⟨a, b, rfl⟩ := wf_binary_args (.inl rfl) h.1
        obtain ⟨ha, hb⟩ := (wb_implies _ _ _).mp h
        simp only [aig]
        exact isAIG_notAnd (ih a (by simp) ha) (ih b (by simp) hb)
      case iff =>
        obtain ⟨a, b, rfl⟩ := wf_binary_args (.inr rfl) h.1
        obtain ⟨ha, hb⟩ := (wb_iff _ _ _).mp h
        simp only [aig]
        exact isAIG_mkAnd (isAIG_pair (isAIG_notAnd (ih a (by simp) ha) (ih b (by simp) hb))
          (isAIG_notAnd (ih b (by simp) hb) (ih a (by simp) ha)))
      case ite =>
        obtain ⟨c, a, b, rfl⟩ := wf_ite_args h.1
        obtain ⟨hc', ha, hb⟩ := (wb_ite _ _ _ _).mp h
        simp only [aig, ha.2, beq_self_eq_true, if_true]
        exact isAIG_mkAnd (isAIG_pair (isAIG_notAnd (ih c (by simp) hc') (ih a (by simp) ha))
          (isAIG_notAnd (isAIG_mkNot (ih c (by simp) hc')) (ih b (by simp) hb)))
      case forall_ =>
        obtain ⟨b, vs, rfl, rfl⟩ := wf_quant_args (.inl rfl) h.1
        simp only [aig]
        exact isAIG_mkForall vs (ih b (by simp) ((wb_forall _ _).mp h))
      case exists_ =>
        obtain ⟨b, vs, rfl, rfl⟩ := wf_quant_args (.inr rfl) h.1
        simp only [aig]
        exact isAIG_mkExists vs (ih b (by simp) ((wb_exists _ _).mp h))

end PySMT.Rewritings
