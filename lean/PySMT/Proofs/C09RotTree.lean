import PySMT.Proofs.C09Frag4
import PySMT.Proofs.C08AgreeRot
import PySMT.Proofs.C07ReadMain
/-!
# C09: what the tree printer writes satisfies the rotation side condition `RotOK` of the agreement theorem (C08)

`RotOK env sc s` asks that every `((_ rotate_left k) x)` / `((_ rotate_right k) x)` in the text `s` rotates by at most the
width of `x` (as the standard reads `x` in the scope). The printers write a rotation only for a `bvRol` / `bvRor` node, and
`Printable` makes the node well-typed for pySMT's checker (`typeOfNode`), which refuses `k > width`.

Same case analysis over `nodeSexp` as `fragS_node` (C09Frag3/4).
-/
namespace PySMT.Parser.Agree
open PySMT PySMT.Parser PySMT.Std PySMT.Sexp PySMT.Printer

/-! ## unfolding `RotOK` -/

theorem RotOK_atom (env : SEnv) (sc : List Binding) (a : String) : RotOK env sc (.atom a) = true := by
  rw [RotOK]

theorem RotOK_str (env : SEnv) (sc : List Binding) (v : String) : RotOK env sc (.str v) = true := by
  rw [RotOK]

theorem RotOKL_nil (env : SEnv) (sc : List Binding) : RotOKL env sc [] = true := by
  rw [RotOKL]

theorem RotOKL_of_mem (env : SEnv) (sc : List Binding) : ∀ (l : List Sexp), (∀ s ∈ l, RotOK env sc s = true) →
    RotOKL env sc l = true
  | [], _ => RotOKL_nil env sc
  | s :: r, h => by
    rw [RotOKL_cons, h s (by simp), RotOKL_of_mem env sc r (fun x hx => h x (List.mem_cons_of_mem _ hx))]
    rfl

theorem RotOKL_map (env : SEnv) (sc : List Binding) (toS : Term → Sexp) (args : List Term)
    (h : ∀ a ∈ args, RotOK env sc (toS a) = true) : RotOKL env sc (args.map toS) = true := by
  apply RotOKL_of_mem
  intro s hs
  obtain ⟨a, ha, rfl⟩ := List.mem_map.1 hs
  exact h a ha

/-- an application of an operator token of the fragment -/
theorem RotOK_op (env : SEnv) (sc : List Binding) (f : String) (hf : f ∈ fragOps) (as : List Sexp)
    (hl : RotOKL env sc as = true) : RotOK env sc (.list (.atom f :: as)) = true := by
  obtain ⟨_, _, _, e1, e2, e3, _⟩ := opTok_unpack (fragOps_facts f hf)
  rw [RotOK_app env sc f as e1 (by rw [e2, e3]; rfl)]
  exact hl

/-- an application of a declared function -/
theorem RotOK_user (env : SEnv) (sc : List Binding) (hd n : String) (hsn : symName? hd = some n) (as : List Sexp)
    (hl : RotOKL env sc as = true) : RotOK env sc (.list (.atom hd :: as)) = true := by
  obtain ⟨e1, e2, e3, _⟩ := sym_not_special hsn
  rw [RotOK_app env sc hd as e1 (by rw [e2, e3]; rfl)]
  exact hl

/-- a head `(u …)` whose first token is not `_` -/
theorem rotHeadOK_ne (env : SEnv) (sc : List Binding) (u : String) (hu : (u == "_") = false) (rest args : List Sexp) :
    rotHeadOK env sc (.atom u :: rest) args = true := by
  unfold rotHeadOK
  split
  · next heq =>
    injection heq with h1 _
    injection h1 with h1
    subst h1
    simp only [hu, Bool.false_and, Bool.false_eq_true, if_false]
  · rfl

/-- a head `(_ f …)` for `f` not a rotation -/
theorem rotHeadOK_notRot (env : SEnv) (sc : List Binding) (f : String) (hf : isRot f = false) (rest args : List Sexp) :
    rotHeadOK env sc (.atom "_" :: .atom f :: rest) args = true := by
  unfold rotHeadOK
  split
  · next heq =>
    injection heq with _ h2
    injection h2 with h3 _
    injection h3 with h3
    subst h3
    simp only [hf, Bool.and_false, Bool.false_eq_true, if_false]
  · rfl

/-- a rotation head applied to one argument -/
theorem rotHeadOK_rot (env : SEnv) (sc : List Binding) (f : String) (hf : isRot f = true) (k : String) (x : Sexp) :
    rotHeadOK env sc [.atom "_", .atom f, .atom k] [x] =
      (match rd env sc x, numeral? k with
       | .ok (_, .bv m), some kk => decide (kk ≤ m)
       | _, _ => true) := by
  unfold rotHeadOK
  simp only [beq_self_eq_true, hf, Bool.and_self, if_true]
  rfl

theorem RotOK_indexed (env : SEnv) (sc : List Binding) (f : String) (hf : isRot f = false) (idx : List Nat)
    (as : List Sexp) (hl : RotOKL env sc as = true) : RotOK env sc (indexed f idx as) = true := by
  unfold indexed
  rw [RotOK_head, rotHeadOK_notRot env sc f hf, hl]
  rfl

theorem RotOK_quoteAtom (env : SEnv) (sc : List Binding) (n : String) : RotOK env sc (quoteAtom n) = true := by
  unfold quoteAtom atomOfText
  split <;> exact RotOK_atom env sc _

theorem RotOK_quantS (env : SEnv) (sc : List Binding) (q : String) (hq : q = "forall" ∨ q = "exists")
    (vs : List Sym) (body : Sexp)
    (hv : ∀ v ∈ vs, (nameFine v.name && v.params.isEmpty && SortOK env v.ret) = true)
    (hb : RotOK env (vs.reverse.map Binding.var ++ sc) body = true) :
    RotOK env sc (.list (.atom q :: .list (vs.map sortedVar) :: [body])) = true := by
  rw [RotOK_quant env sc q hq, rotQuant_eq, rdSortedVars_vars env vs hv]
  exact hb

section
variable (sp : Spell) (hsp : SpellStd sp) (env : SEnv) (sc : List Binding) (srt : Bool) (toS : Term → Sexp)
include hsp

/-- the operators printed `(f args…)` -/
theorem rotOK_plain (op : Op) (f : String) (h : plainName op = some f) (args : List Term) (p : Payload)
    (hargs : ∀ a ∈ args, RotOK env sc (toS a) = true) :
    RotOK env sc (nodeSexp sp srt op p args (args.map toS)) = true := by
  obtain ⟨hspell, hf⟩ := plain_spell op f h
  rw [plain_nodeSexp sp srt op f h, spell sp hsp _ _ hspell]
  exact RotOK_op env sc f hf _ (RotOKL_map env sc toS args hargs)

theorem rotOK_intSexp (n : Int) : RotOK env sc (intSexp sp n) = true := by
  unfold intSexp
  split
  · rw [spell sp hsp "walk_int_constant" "-" (by decide)]
    apply RotOK_op env sc "-" (by decide)
    rw [RotOKL_cons, natAtom, RotOK_atom, RotOKL_nil]; rfl
  · exact RotOK_atom env sc _

theorem rotOK_realSexp (q : Rat) : RotOK env sc (realSexp sp q) = true := by
  have hbody : ∀ body : Sexp, body = (if q.den != 1 then Sexp.list [.atom (sp "walk_real_constant:1"),
      decAtom q.num.natAbs, decAtom q.den] else decAtom q.num.natAbs) → RotOK env sc body = true := by
    intro body hb
    subst hb
    split
    · rw [spell sp hsp "walk_real_constant:1" "/" (by decide)]
      apply RotOK_op env sc "/" (by decide)
      rw [RotOKL_cons, RotOKL_cons, decAtom, decAtom, RotOK_atom, RotOK_atom, RotOKL_nil]; rfl
    · exact RotOK_atom env sc _
  simp only [realSexp]
  generalize hB : (if q.den != 1 then Sexp.list [.atom (sp "walk_real_constant:1"),
      decAtom q.num.natAbs, decAtom q.den] else decAtom q.num.natAbs) = body
  have h1 := hbody body hB.symm
  split
  · rw [spell sp hsp "walk_real_constant:0" "-" (by decide)]
    apply RotOK_op env sc "-" (by decide)
    rw [RotOKL_cons, h1, RotOKL_nil]; rfl
  · exact h1

/-! ## array values -/

theorem rotOK_storeChain (arrTy d : Sexp) (hd : RotOK env sc d = true) :
    ∀ (ents : List (Sexp × Sexp)), (∀ kv ∈ ents, RotOK env sc kv.1 = true ∧ RotOK env sc kv.2 = true) →
      RotOK env sc (storeChain sp arrTy d ents) = true := by
  have hbase : RotOK env sc (.list [.list [.atom (sp "walk_array_value:1"), .atom (sp "walk_array_value:2"), arrTy], d])
      = true := by
    rw [spell sp hsp "walk_array_value:1" "as" (by decide), RotOK_head,
      rotHeadOK_ne env sc "as" (by decide), RotOKL_cons, hd, RotOKL_nil]
    rfl
  have step : ∀ (ents : List (Sexp × Sexp)) (acc : Sexp),
      (∀ kv ∈ ents, RotOK env sc kv.1 = true ∧ RotOK env sc kv.2 = true) → RotOK env sc acc = true →
      RotOK env sc (ents.foldl (fun acc kv => .list [.atom (sp "walk_array_value:0"), acc, kv.1, kv.2]) acc) = true := by
    intro ents
    induction ents with
    | nil => intro acc _ h; exact h
    | cons kv l ih =>
      intro acc hl hacc
      simp only [List.foldl_cons]
      apply ih _ (fun x hx => hl x (List.mem_cons_of_mem _ hx))
      rw [spell sp hsp "walk_array_value:0" "store" (by decide)]
      obtain ⟨hk, hv⟩ := hl kv (by simp)
      apply RotOK_op env sc "store" (by decide)
      rw [RotOKL_cons, RotOKL_cons, RotOKL_cons, hacc, hk, hv, RotOKL_nil]; rfl
  intro ents hents
  exact step ents _ hents hbase

theorem rotOK_arrayValue (args : List Term) (p : Payload) (τ : Ty)
    (hargs : ∀ a ∈ args, RotOK env sc (toS a) = true)
    (hS : stdTy .arrayValue p (args.map tyD) = some τ) :
    RotOK env sc (nodeSexp sp srt .arrayValue p args (args.map toS)) = true := by
  simp only [stdTy] at hS
  split at hS
  · next ts idx dT restT hts =>
    cases args with
    | nil => simp at hts
    | cons d rest =>
      simp only [nodeSexp, List.map_cons]
      apply rotOK_storeChain sp hsp env sc
      · exact hargs d (by simp)
      · intro kv hkv
        obtain ⟨e, he, rfl⟩ := List.mem_map.1 hkv
        obtain ⟨m1, m2⟩ := mem_avEnts srt rest toS e he
        obtain ⟨a1, ha1, e1⟩ := List.mem_map.1 m1
        obtain ⟨a2, ha2, e2⟩ := List.mem_map.1 m2
        rw [← e1, ← e2]
        exact ⟨hargs a1 (List.mem_cons_of_mem _ ha1), hargs a2 (List.mem_cons_of_mem _ ha2)⟩
  · simp at hS

/-! ## rotations -/

omit hsp in
/-- pySMT's checker accepts a rotation node only if the amount is at most the width -/
theorem rot_le_of_typeOf (op : Op) (hop : op = .bvRol ∨ op = .bvRor) (w k m : Nat) (a : Term) (τ : Ty)
    (ha : a.typeOf = some (.bv m)) (hty : (Term.node op [a] (.ints [w, k])).typeOf = some τ) : k ≤ w := by
  rw [typeOf_node] at hty
  have e : [a].map Term.typeOf = [Ty.bv m].map some := by simp [ha]
  rw [e, C03.typeOfNode_eq_tyNode] at hty
  rcases hop with rfl | rfl <;>
  · simp only [C03.tyNode] at hty
    by_cases hlt : w < k
    · rw [if_pos hlt] at hty; cases hty
    · omega

omit hsp in
theorem rotOK_rotS (f : String) (hf : isRot f = true) (w k : Nat) (a : Term)
    (hr : Reads env sc srt toS a) (hta : tyD a = .bv w) (hk : k ≤ w)
    (ha : RotOK env sc (toS a) = true) :
    RotOK env sc (indexed f [k] [toS a]) = true := by
  unfold indexed
  simp only [List.map_cons, List.map_nil, natAtom]
  rw [RotOK_head, rotHeadOK_rot env sc f hf, hr.2, numeral?_natStr, RotOKL_cons, ha, RotOKL_nil]
  simp only [U, hta, decide_eq_true hk, Bool.and_self]

theorem rotOK_rot (op : Op) (hop : op = .bvRol ∨ op = .bvRor) (args : List Term) (p : Payload) (τ : Ty)
    (hargs : ∀ a ∈ args, RotOK env sc (toS a) = true)
    (hreads : ∀ a ∈ args, Reads env sc srt toS a)
    (hty : (Term.node op args p).typeOf = some τ)
    (hS : stdTy op p (args.map tyD) = some τ) :
    RotOK env sc (nodeSexp sp srt op p args (args.map toS)) = true := by
  have key : ∃ w k a, p = .ints [w, k] ∧ args = [a] ∧ tyD a = .bv w := by
    rcases hop with rfl | rfl <;>
    · simp only [stdTy] at hS
      split at hS
      · next ts w k m hts =>
        split at hS <;> simp at hS
        rename_i hc
        simp only [beq_iff_eq] at hc
        obtain ⟨a, rfl, ha⟩ := map_eq_one hts
        exact ⟨w, k, a, rfl, rfl, by rw [ha, hc]⟩
      · simp at hS
  obtain ⟨w, k, a, rfl, rfl, hta⟩ := key
  have hr := hreads a (by simp)
  have hk : k ≤ w := rot_le_of_typeOf op hop w k w a τ (by rw [hr.1, hta]) hty
  rcases hop with rfl | rfl
  · simp only [nodeSexp, walkKey, spell sp hsp "walk_bv_rotate:is_bv_rol" "rotate_left" (by decide), List.map_cons,
      List.map_nil]
    exact rotOK_rotS env sc srt toS "rotate_left" (by decide) w k a hr hta hk (hargs a (by simp))
  · simp only [nodeSexp, walkKey, spell sp hsp "walk_bv_rotate:is_bv_ror" "rotate_right" (by decide), List.map_cons,
      List.map_nil]
    exact rotOK_rotS env sc srt toS "rotate_right" (by decide) w k a hr hta hk (hargs a (by simp))

/-! ## every node other than a binder -/

/-- what either printer writes for a node that `Printable` accepts satisfies the rotation side condition, given that what
was written for the arguments does and is read back as the arguments -/
theorem rotOK_node (scope : List Sym) (op : Op) (args : List Term) (p : Payload) (τ : Ty)
    (h1 : op ≠ .forall_) (h2 : op ≠ .exists_)
    (hargs : ∀ a ∈ args, RotOK env sc (toS a) = true)
    (hreads : ∀ a ∈ args, Reads env sc srt toS a)
    (hty : (Term.node op args p).typeOf = some τ)
    (hS : stdTy op p (args.map tyD) = some τ) (hok : nodeOK env scope op p args = true) :
    RotOK env sc (nodeSexp sp srt op p args (args.map toS)) = true := by
  cases hpn : plainName op with
  | some f => exact rotOK_plain sp hsp env sc srt toS op f hpn args p hargs
  | none =>
    cases op <;> simp only [plainName, reduceCtorEq] at hpn
    case forall_ => exact absurd rfl h1
    case exists_ => exact absurd rfl h2
    case symbol =>
      simp only [stdTy] at hS
      split at hS
      · next ts s hts => simp only [nodeSexp]; exact RotOK_quoteAtom env sc _
      · simp at hS
    case function =>
      cases p with
      | sym f =>
        simp only [nodeOK, Bool.and_eq_true] at hok
        have hfine := hok.1.1.1.2
        simp only [nameFine, Bool.and_eq_true, Bool.not_eq_true'] at hfine
        obtain ⟨⟨hch, hr⟩, _⟩ := hfine
        obtain ⟨tok, htok, hsn⟩ := symTok f.name hch hr
        simp only [nodeSexp]
        rw [htok]
        exact RotOK_user env sc tok f.name hsn _ (RotOKL_map env sc toS args hargs)
      | _ => simp [stdTy] at hS
    case realConst =>
      simp only [stdTy] at hS
      split at hS
      · next ts r hts => simp only [nodeSexp]; exact rotOK_realSexp sp hsp env sc r
      · simp at hS
    case boolConst =>
      simp only [stdTy] at hS
      split at hS
      · next ts r hts => simp only [nodeSexp]; exact RotOK_atom env sc _
      · simp at hS
    case intConst =>
      simp only [stdTy] at hS
      split at hS
      · next ts r hts => simp only [nodeSexp]; exact rotOK_intSexp sp hsp env sc r
      · simp at hS
    case strConst =>
      simp only [stdTy] at hS
      split at hS
      · next ts r hts => simp only [nodeSexp]; exact RotOK_str env sc _
      · simp at hS
    case bvConst =>
      simp only [stdTy] at hS
      split at hS
      · next ts v w hts => simp only [nodeSexp, bvSexp]; exact RotOK_atom env sc _
      · simp at hS
    case bvExtract =>
      simp only [stdTy] at hS
      split at hS
      · next ts w lo hi m hts =>
        simp only [nodeSexp, walkKey, spell sp hsp "walk_bv_extract" "extract" (by decide)]
        exact RotOK_indexed env sc _ (by decide) _ _ (RotOKL_map env sc toS args hargs)
      · simp at hS
    case bvRol => exact rotOK_rot sp hsp env sc srt toS _ (Or.inl rfl) args p τ hargs hreads hty hS
    case bvRor => exact rotOK_rot sp hsp env sc srt toS _ (Or.inr rfl) args p τ hargs hreads hty hS
    case bvZext =>
      simp only [stdTy] at hS
      split at hS
      · next ts w k a hts =>
        simp only [nodeSexp, walkKey, spell sp hsp "walk_bv_extend:is_bv_zext" "zero_extend" (by decide)]
        exact RotOK_indexed env sc _ (by decide) _ _ (RotOKL_map env sc toS args hargs)
      · simp at hS
    case bvSext =>
      simp only [stdTy] at hS
      split at hS
      · next ts w k a hts =>
        simp only [nodeSexp, walkKey, spell sp hsp "walk_bv_extend:is_bv_sext" "sign_extend" (by decide)]
        exact RotOK_indexed env sc _ (by decide) _ _ (RotOKL_map env sc toS args hargs)
      · simp at hS
    case arrayValue => exact rotOK_arrayValue sp hsp env sc srt toS args p τ hargs hS
    all_goals simp [stdTy] at hS

/-- a quantifier node, given that the printed body satisfies the condition under the binder -/
theorem rotOK_quantNode (op : Op) (hop : op = .forall_ ∨ op = .exists_) (vs : List Sym) (args : List Term) (τ : Ty)
    (hb : binderOK env vs = true)
    (hargs : ∀ a ∈ args, RotOK env (vs.reverse.map Binding.var ++ sc) (toS a) = true)
    (hS : stdTy op (.qvars vs) (args.map tyD) = some τ) :
    RotOK env sc (nodeSexp sp srt op (.qvars vs) args (args.map toS)) = true := by
  have key : ∃ b, args = [b] := by
    rcases hop with rfl | rfl <;>
    · simp only [stdTy] at hS
      split at hS <;> simp at hS
      rename_i hts
      obtain ⟨b, rfl, _⟩ := map_eq_one hts
      exact ⟨b, rfl⟩
  obtain ⟨b, rfl⟩ := key
  simp only [binderOK, Bool.and_eq_true, Bool.not_eq_true', List.all_eq_true] at hb
  have hv : ∀ v ∈ vs, (nameFine v.name && v.params.isEmpty && SortOK env v.ret) = true :=
    fun v hv => by simpa using hb.2 v hv
  have hbody := hargs b (by simp)
  rcases hop with rfl | rfl
  · simp only [nodeSexp, walkKey, spell sp hsp "walk_forall" "forall" (by decide), List.map_cons, List.map_nil]
    exact RotOK_quantS env sc "forall" (Or.inl rfl) vs _ hv hbody
  · simp only [nodeSexp, walkKey, spell sp hsp "walk_exists" "exists" (by decide), List.map_cons, List.map_nil]
    exact RotOK_quantS env sc "exists" (Or.inr rfl) vs _ hv hbody

/-! ## the tree printer -/

/-- what the tree printer writes for a `Printable` term satisfies the rotation side condition of the agreement theorem -/
theorem rotOK_toSexp : ∀ (t : Term) (scope : List Sym), Printer.ScopeOK scope → Printer.Printable env scope t = true →
    RotOK env (scope.map Binding.var) (Printer.toSexpWith sp t) = true
  | .node op args p, scope, hsc, hP => by
    obtain ⟨τ, hS, hty, hcase⟩ := printable_node env scope op args p hP
    rw [toSexpWith_node]
    rcases hcase with ⟨vs, hq, rfl, hb, hargsP⟩ | ⟨h1, h2, hok, hargsP⟩
    · have hsc' := scopeOK_binder hb hsc
      apply rotOK_quantNode sp hsp env (scope.map Binding.var) true (toSexpWith sp) op hq vs args τ hb _ hS
      intro a ha
      have := rotOK_toSexp a (vs.reverse ++ scope) hsc' (hargsP a ha)
      rw [List.map_append] at this
      exact this
    · exact rotOK_node sp hsp env (scope.map Binding.var) true (toSexpWith sp) scope op args p τ h1 h2
        (fun a ha => rotOK_toSexp a scope hsc (hargsP a ha))
        (fun a ha => reads_all sp hsp env a scope hsc (hargsP a ha)) hty hS hok
termination_by t => sizeOf t
decreasing_by
  all_goals
    simp_wf
    have := List.sizeOf_lt_of_mem ha
    omega

end

/-- … in particular `to_smtlib(f, daggify=False)` of a closed `Printable` formula -/
theorem rotOK_toSexp_tree (env : SEnv) (t : Term) (hP : Printer.Printable env [] t = true) :
    RotOK env [] (Printer.toSexp t) = true :=
  rotOK_toSexp treeSpell treeSpell_std env t [] (fun _ h => by cases h) hP

end PySMT.Parser.Agree
