import PySMT.Impl.Simp.Bool
import PySMT.Proofs.SimpBuild
import PySMT.Proofs.SimpBoolAC
/-!
# `RuleOK` for `walk_forall` / `walk_exists`: bound variables that are not free in the
(simplified) body are dropped — coincidence lemma + non-empty quantification domains
-/
namespace PySMT.Simp.BoolRules
open PySMT PySMT.Build PySMT.Simp

theorem mem_usedVars {fvs : List Sym} {s : Sym} : ∀ {vs : List Sym}, s ∈ usedVars fvs vs ↔ s ∈ vs ∧ s ∈ fvs
  | [] => by simp [usedVars]
  | v :: vs => by
    unfold usedVars
    have ih := mem_usedVars (fvs := fvs) (s := s) (vs := vs)
    split
    · next h =>
      simp only [Bool.and_eq_true, Bool.not_eq_true', List.contains_eq_mem, decide_eq_true_eq,
        decide_eq_false_iff_not] at h
      simp only [List.mem_cons, ih]
      constructor
      · rintro (rfl | ⟨h1, h2⟩)
        · exact ⟨Or.inl rfl, h.1⟩
        · exact ⟨Or.inr h1, h2⟩
      · rintro ⟨rfl | h1, h2⟩
        · exact Or.inl rfl
        · exact Or.inr ⟨h1, h2⟩
    · next h =>
      simp only [Bool.and_eq_true, Bool.not_eq_true', List.contains_eq_mem, decide_eq_true_eq,
        decide_eq_false_iff_not, not_and, Classical.not_not] at h
      simp only [List.mem_cons, ih]
      constructor
      · rintro ⟨h1, h2⟩; exact ⟨Or.inr h1, h2⟩
      · rintro ⟨rfl | h1, h2⟩
        · exact ⟨h h2, h2⟩
        · exact ⟨h1, h2⟩

theorem all_const_of_ne {α} {l : List α} (hne : l ≠ []) (c : Bool) : (l.all fun _ => c) = c := by
  cases l with
  | nil => exact absurd rfl hne
  | cons x xs => cases c <;> simp

theorem any_const_of_ne {α} {l : List α} (hne : l ≠ []) (c : Bool) : (l.any fun _ => c) = c := by
  cases l with
  | nil => exact absurd rfl hne
  | cons x xs => cases c <;> simp

/-- quantifying over variables on which the body does not depend (or that are re-bound further
in) is vacuous when the domains are non-empty -/
theorem quant_usedVars (all : Bool) (fvs : List Sym) (k : Interp → Bool) (I0 : Interp)
    (hne : ∀ t, I0.dom t ≠ [])
    (hk : ∀ σ' τ' : Sym → Val, (∀ s ∈ fvs, σ' s = τ' s) → k (I0.withSym σ') = k (I0.withSym τ')) :
    ∀ (vs : List Sym) (σ : Sym → Val),
      (I0.withSym σ).quant all vs k = (I0.withSym σ).quant all (usedVars fvs vs) k
  | [], σ => by simp [usedVars]
  | x :: xs, σ => by
    have ih := quant_usedVars all fvs k I0 hne hk xs
    unfold usedVars
    split
    · next h =>
      simp only [Interp.quant, Interp.withSym_bind, ih]
    · next h =>
      simp only [Bool.and_eq_true, Bool.not_eq_true', List.contains_eq_mem, decide_eq_true_eq,
        decide_eq_false_iff_not, not_and, Classical.not_not] at h
      rw [← ih σ]
      have step : ∀ v, ((I0.withSym σ).bind x v).quant all xs k = (I0.withSym σ).quant all xs k := by
        intro v
        rw [Interp.withSym_bind]
        apply Interp.quant_congr all I0 I0 rfl (fun s => s ∈ fvs) k k (fun σ' τ' h' => hk σ' τ' h') xs
        intro s hs hsx
        have : s ≠ x := by
          intro e; subst e
          exact hsx (h hs)
        simp [this]
      simp only [Interp.quant, step]
      have hd : (I0.withSym σ).dom x.ret ≠ [] := hne x.ret
      cases all
      · simp only [Bool.false_eq_true, if_false]; exact any_const_of_ne hd _
      · simp only [if_true]; exact all_const_of_ne hd _

/-- the two body functions of a quantifier node depend on the free symbols of the body only -/
theorem body_coincidence (sf : Term) (hwf : sf.wf = true) (I : Interp) (σ' τ' : Sym → Val)
    (h : ∀ s ∈ sf.fv, σ' s = τ' s) :
    eval (I.withSym σ') sf = eval (I.withSym τ') sf ∧ div0 (I.withSym σ') sf = div0 (I.withSym τ') sf := by
  have hag : (I.withSym σ').Agree (I.withSym τ') sf.fv sf.fnames :=
    ⟨h, fun _ _ => rfl, rfl, rfl, rfl⟩
  exact ⟨coincidence_gen sf _ _ hag, div0_coincidence_gen sf (Term.wf_wt sf hwf) _ _ hag⟩

theorem wf_quant_inv {op : Op} (hq : op.isQuantifier = true) {args : List Term} {p : Payload} {τ : Ty}
    (hwf : (Term.node op args p).wf = true) (hty : (Term.node op args p).typeOf = some τ) :
    ∃ vs sf, p = .qvars vs ∧ args = [sf] ∧ BT sf ∧ τ = .bool := by
  have hs := wf_shape hwf
  have hsh : ∃ vs sf, p = .qvars vs ∧ args = [sf] := by
    cases op <;> simp [Op.isQuantifier] at hq <;>
      (cases p <;> first
        | cases hs
        | (simp only [Op.shapeOK, beq_iff_eq] at hs
           match args, hs with
           | [b], _ => exact ⟨_, b, rfl, rfl⟩))
  obtain ⟨vs, sf, rfl, rfl⟩ := hsh
  refine ⟨vs, sf, rfl, rfl, ?_⟩
  rw [typeOf_node] at hty
  have hargs : [sf].map Term.typeOf = [some .bool] ∧ τ = .bool := by
    cases op <;> simp [Op.isQuantifier] at hq
    · have := typeOfNode_forall (by rw [hty]; rfl : (typeOfNode .forall_ (.qvars vs) ([sf].map Term.typeOf)).isSome = true)
      rw [this] at hty
      exact ⟨this, (Option.some.inj hty).symm⟩
    · have := typeOfNode_exists (by rw [hty]; rfl : (typeOfNode .exists_ (.qvars vs) ([sf].map Term.typeOf)).isSome = true)
      rw [this] at hty
      exact ⟨this, (Option.some.inj hty).symm⟩
  refine ⟨⟨wf_args hwf sf (by simp), ?_⟩, hargs.2⟩
  simpa using hargs.1

theorem quantRule_res {op : Op} (hq : op.isQuantifier = true) (vs : List Sym) (sf : Term) (hsf : BT sf)
    (hwf : (Term.node op [sf] (.qvars vs)).wf = true) :
    Res (.node op [sf] (.qvars vs)) .bool
      (if (usedVars sf.fv vs).isEmpty then sf else .node op [sf] (.qvars (usedVars sf.fv vs))) := by
  have hsym : op ≠ .symbol := by intro h; subst h; simp [Op.isQuantifier] at hq
  -- value and proviso of a quantifier node over any variable list
  have hev : ∀ (I : Interp) (ws : List Sym), eval I (.node op [sf] (.qvars ws)) =
      .b (I.quant (op == .forall_) ws fun J => (eval J sf).isTrue) := by
    intro I ws
    cases op <;> simp [Op.isQuantifier] at hq
    · rw [eval_forall]; rfl
    · rw [eval_exists]; rfl
  have hkv : ∀ (I : Interp) (σ' τ' : Sym → Val), (∀ s ∈ sf.fv, σ' s = τ' s) →
      (fun J => (eval J sf).isTrue) (I.withSym σ') = (fun J => (eval J sf).isTrue) (I.withSym τ') := by
    intro I σ' τ' h; simp only; rw [(body_coincidence sf hsf.1 I σ' τ' h).1]
  have hkd : ∀ (I : Interp) (σ' τ' : Sym → Val), (∀ s ∈ sf.fv, σ' s = τ' s) →
      (fun J => div0 J sf) (I.withSym σ') = (fun J => div0 J sf) (I.withSym τ') := by
    intro I σ' τ' h; exact (body_coincidence sf hsf.1 I σ' τ' h).2
  have qv : ∀ (I : Interp), I.WF → ∀ all, I.quant all vs (fun J => (eval J sf).isTrue) =
      I.quant all (usedVars sf.fv vs) (fun J => (eval J sf).isTrue) := by
    intro I hI all
    exact quant_usedVars all sf.fv _ I hI.dom_ne (hkv I) vs I.sym
  have qd : ∀ (I : Interp), I.WF → I.quant false vs (fun J => div0 J sf) =
      I.quant false (usedVars sf.fv vs) (fun J => div0 J sf) := by
    intro I hI
    exact quant_usedVars false sf.fv _ I hI.dom_ne (hkd I) vs I.sym
  split
  · next hemp =>
    have hnil : usedVars sf.fv vs = [] := by simpa using hemp
    refine Res.of_hyp hsf.2 hsf.1 (fun I hI _ => ?_) (fun I hI hd => ?_) (fun s hs => ?_)
    · rw [hev, qv I hI, hnil]
      simp only [Interp.quant]
      exact eval_bool hsf.1 hsf.2 hI
    · rw [div0_quant I op hq, qd I hI, hnil] at hd
      simpa only [Interp.quant] using hd
    · have hnot : s ∉ vs := by
        intro h
        have : s ∈ usedVars sf.fv vs := mem_usedVars.mpr ⟨h, hs⟩
        rw [hnil] at this; cases this
      rw [fv_node]
      cases op <;> simp [Op.isQuantifier] at hq <;>
        simp [List.mem_filter, hs, hnot]
  · have hty' : (Term.node op [sf] (.qvars (usedVars sf.fv vs))).typeOf = some .bool := by
      rw [typeOf_node]
      simp only [List.map_cons, List.map_nil, hsf.2]
      cases op <;> simp [Op.isQuantifier] at hq <;> rfl
    have hsh : op.shapeOK (.qvars (usedVars sf.fv vs)) [sf].length = true := by
      cases op <;> simp [Op.isQuantifier] at hq <;> rfl
    refine Res.of_hyp hty' (wf_mk' (wf_args hwf) hsh hty') (fun I hI _ => ?_) (fun I hI hd => ?_) (fun s hs => ?_)
    · rw [hev, hev, qv I hI]
    · rw [div0_quant I op hq, qd I hI] at hd
      rw [div0_quant I op hq]
      exact hd
    · rw [fv_node] at hs ⊢
      cases op <;> simp [Op.isQuantifier] at hq <;>
        (simp only [List.map_cons, List.map_nil, List.flatten_cons, List.flatten_nil, List.append_nil,
           List.mem_filter, List.contains_eq_mem, Bool.not_eq_true', decide_eq_false_iff_not] at hs ⊢
         exact ⟨hs.1, fun h => hs.2 (mem_usedVars.mpr ⟨h, hs.1⟩)⟩)

theorem walkForall_ok : RuleOK .forall_ walkForall := by
  apply RuleOK.of_res
  intro p args τ hwf hty _
  obtain ⟨vs, sf, rfl, rfl, hsf, rfl⟩ := wf_quant_inv rfl hwf hty
  exact quantRule_res rfl vs sf hsf hwf

theorem walkExists_ok : RuleOK .exists_ walkExists := by
  apply RuleOK.of_res
  intro p args τ hwf hty _
  obtain ⟨vs, sf, rfl, rfl, hsf, rfl⟩ := wf_quant_inv rfl hwf hty
  exact quantRule_res rfl vs sf hsf hwf

end PySMT.Simp.BoolRules
