import PySMT.Proofs.C10Prenex
import PySMT.Proofs.C10Partition
import PySMT.Impl.Rewritings.Propagate
/-!
# C10 — `propagate_toplevel` on quantifier-free formulas (`propagate_equiv_partial`)
-/
namespace PySMT.Rewritings

theorem typeOfNode_equals' (p : Payload) (ta tb : Ty) :
    typeOfNode .equals p [some ta, some tb] =
      if ta = .bool then none else if tb = ta then some .bool else none := by
  cases ta
  case bool => rfl
  all_goals
    show (if allAre [some tb] _ then some Ty.bool else none) = _
    simp only [allAre, List.all_cons, List.all_nil, Bool.and_true, beq_iff_eq, Option.some.injEq, reduceCtorEq,
      if_false]

/-! ## replacing terms by terms of equal value -/

/-- every replacement is well-formed and has the sort of its key -/
def EqMap (σ : List (Term × Term)) : Prop := ∀ kv ∈ σ, kv.2.wf = true ∧ kv.2.typeOf = kv.1.typeOf

theorem substT_equal {σ : List (Term × Term)} (hσ : EqMap σ) : (t : Term) → t.wf = true → t.isQF = true →
    ((substT σ t).wf = true ∧ (substT σ t).typeOf = t.typeOf) ∧
    ∀ I : Interp, I.WF → (∀ kv ∈ σ, eval I kv.1 = eval I kv.2) → eval I (substT σ t) = eval I t
  | .node op args p => fun hwf hqf => by
    rw [isQF_node] at hqf
    simp only [Bool.and_eq_true, Bool.not_eq_eq_eq_not, Bool.not_true, List.all_eq_true] at hqf
    obtain ⟨hq, hch⟩ := hqf
    have hchwf := (Term.wf_node.mp hwf).1
    have ih : ∀ a ∈ args, ((substT σ a).wf = true ∧ (substT σ a).typeOf = a.typeOf) ∧
        ∀ I : Interp, I.WF → (∀ kv ∈ σ, eval I kv.1 = eval I kv.2) → eval I (substT σ a) = eval I a :=
      fun a ha => substT_equal hσ a (hchwf a ha) (hch a ha)
    cases hl : lookupT σ (.node op args p) with
    | some r =>
      have hm := lookupT_mem hl
      have hsub : substT σ (.node op args p) = r := by rw [substT, hl]
      rw [hsub]
      exact ⟨hσ _ hm, fun I _ he => (he _ hm).symm⟩
    | none =>
      rw [substT_nonquant hq hl]
      have hs : SameSorts (substT σ) args := fun a ha => (ih a ha).1
      by_cases hsym : op = .symbol
      · subst hsym
        have hargs := Term.wt_symbol_args (Term.wf_wt _ hwf)
        subst hargs
        simp only [List.map_nil]
        rw [rebuild_plain rfl]
        exact ⟨⟨hwf, rfl⟩, fun _ _ _ => rfl⟩
      · exact ⟨rebuild_wf hq hwf hs, fun I hI he =>
          rebuild_eval hq hsym hwf hs hI hI rfl rfl rfl (fun a ha => (ih a ha).2 I hI he)⟩

/-! ## … also below binders that bind none of the symbols involved -/

theorem boundVars_node (op : Op) (args : List Term) (p : Payload) :
    boundVars (.node op args p) =
      (match p with | .qvars vs => vs | _ => []) ++ (args.map boundVars).flatten := by
  cases p <;> (rw [boundVars] <;> simp)

theorem boundVars_child {op : Op} {args : List Term} {p : Payload} {a : Term} (ha : a ∈ args) {s : Sym}
    (hs : s ∈ boundVars a) : s ∈ boundVars (.node op args p) := by
  rw [boundVars_node]
  apply List.mem_append_right
  simp only [List.mem_flatten, List.mem_map]
  exact ⟨_, ⟨a, ha, rfl⟩, hs⟩

theorem boundVars_qvars {op : Op} {args : List Term} {vs : List Sym} {s : Sym} (hs : s ∈ vs) :
    s ∈ boundVars (.node op args (.qvars vs)) := by
  rw [boundVars_node]; exact List.mem_append_left _ hs

/-- congruence of a block of binders for bodies that agree on the interpretations satisfying a
property that binding the block's variables preserves -/
theorem quant_congr_P (all : Bool) (P : Interp → Prop) (B : List Sym) (k k' : Interp → Bool)
    (hP : ∀ (J : Interp) (s : Sym) (x : Val), P J → s ∈ B → P (J.bind s x))
    (hk : ∀ J : Interp, J.WF → P J → k J = k' J) :
    ∀ (vs : List Sym), (∀ s ∈ vs, s ∈ B) → ∀ I : Interp, I.WF → P I → I.quant all vs k = I.quant all vs k'
  | [], _, I, hI, hp => hk I hI hp
  | v :: vs, hvs, I, hI, hp => by
    have step : ∀ x ∈ I.dom v.ret, (I.bind v x).quant all vs k = (I.bind v x).quant all vs k' :=
      fun x hx => quant_congr_P all P B k k' hP hk vs (fun s hs => hvs s (by simp [hs])) _
        (hI.bind v x (hI.dom_sort _ x hx)) (hP I v x hp (hvs v (by simp)))
    simp only [Interp.quant]
    rw [list_all_congr step, list_any_congr step]

theorem dropBound_eq_self {σ : List (Term × Term)} {vs B : List Sym} (hvs : ∀ s ∈ vs, s ∈ B)
    (hst : ∀ kv ∈ σ, ∀ s ∈ kv.1.fv ++ kv.2.fv, s ∉ B) : dropBound σ vs = σ := by
  unfold dropBound
  rw [List.filter_eq_self]
  intro kv hkv
  simp only [List.all_eq_true, Bool.not_eq_eq_eq_not, Bool.not_true]
  intro m hm
  cases hc : vs.contains m with
  | false => rfl
  | true =>
    have : m ∈ vs := by simpa using hc
    exact absurd (hvs m this) (hst kv hkv m (List.mem_append_left _ hm))

theorem substT_equal_gen {σ : List (Term × Term)} (hσ : EqMap σ) (B : List Sym)
    (hst : ∀ kv ∈ σ, ∀ s ∈ kv.1.fv ++ kv.2.fv, s ∉ B) : (t : Term) → t.wf = true →
    (∀ s ∈ boundVars t, s ∈ B) →
    ((substT σ t).wf = true ∧ (substT σ t).typeOf = t.typeOf) ∧
    ∀ I : Interp, I.WF → (∀ kv ∈ σ, eval I kv.1 = eval I kv.2) → eval I (substT σ t) = eval I t
  | .node op args p => fun hwf hB => by
    have hchwf := (Term.wf_node.mp hwf).1
    have ih : ∀ a ∈ args, ((substT σ a).wf = true ∧ (substT σ a).typeOf = a.typeOf) ∧
        ∀ I : Interp, I.WF → (∀ kv ∈ σ, eval I kv.1 = eval I kv.2) → eval I (substT σ a) = eval I a :=
      fun a ha => substT_equal_gen hσ B hst a (hchwf a ha) (fun s hs => hB s (boundVars_child ha hs))
    -- the recorded equalities survive the binding of a variable of `B`
    have hPres : ∀ (J : Interp) (s : Sym) (x : Val), (∀ kv ∈ σ, eval J kv.1 = eval J kv.2) → s ∈ B →
        ∀ kv ∈ σ, eval (J.bind s x) kv.1 = eval (J.bind s x) kv.2 := by
      intro J s x hJ hs kv hkv
      have e : ∀ u : Term, (∀ y ∈ u.fv, y ∉ B) → eval (J.bind s x) u = eval J u := by
        intro u hu
        apply coincidence_gen
        refine ⟨fun y hy => ?_, fun _ _ => rfl, rfl, rfl, rfl⟩
        have : y ≠ s := fun e => hu y hy (e ▸ hs)
        simp [Interp.bind, this]
      rw [e kv.1 (fun y hy => hst kv hkv y (List.mem_append_left _ hy)),
        e kv.2 (fun y hy => hst kv hkv y (List.mem_append_right _ hy))]
      exact hJ kv hkv
    cases hl : lookupT σ (.node op args p) with
    | some r =>
      have hm := lookupT_mem hl
      have hsub : substT σ (.node op args p) = r := by rw [substT, hl]
      rw [hsub]
      exact ⟨hσ _ hm, fun I _ he => (he _ hm).symm⟩
    | none =>
      by_cases hq : op.isQuantifier = true
      · -- a binder: the map is not restricted, the body is rewritten
        have quantCase : ∀ (isEx : Bool), op = (if isEx then .exists_ else .forall_) →
            ((substT σ (.node op args p)).wf = true ∧ (substT σ (.node op args p)).typeOf = (Term.node op args p).typeOf) ∧
            ∀ I : Interp, I.WF → (∀ kv ∈ σ, eval I kv.1 = eval I kv.2) →
              eval I (substT σ (.node op args p)) = eval I (.node op args p) := by
          intro isEx hop
          obtain ⟨b, vs, rfl, rfl⟩ := wf_quant_args (by cases isEx <;> simp [hop]) hwf
          have hvsB : ∀ s ∈ vs, s ∈ B := fun s hs => hB s (boundVars_qvars hs)
          have hbm : bodyMap σ op (.qvars vs) = σ := by
            subst hop
            cases isEx <;> simp only [bodyMap, Bool.false_eq_true, if_false, if_true] <;>
              exact dropBound_eq_self hvsB hst
          have hty : (Term.node op [b] (.qvars vs)).typeOf = some .bool := by
            subst hop
            rw [typeOf_node]
            cases isEx
            · simp only [Bool.false_eq_true, if_false]
              have := typeOfNode_forall (Term.wt_typeOf (Term.wf_wt _ (by simpa using hwf)))
              rw [this]; rfl
            · simp only [if_true]
              have := typeOfNode_exists (Term.wt_typeOf (Term.wf_wt _ (by simpa using hwf)))
              rw [this]; rfl
          have hb : WB b := by
            subst hop
            cases isEx
            · exact (wb_forall b vs).mp ⟨by simpa using hwf, by simpa using hty⟩
            · exact (wb_exists b vs).mp ⟨by simpa using hwf, by simpa using hty⟩
          have hb1 := ih b (by simp)
          have hb' : WB (substT σ b) := ⟨hb1.1.1, by rw [hb1.1.2]; exact hb.2⟩
          have hsub : substT σ (.node op [b] (.qvars vs)) =
              (if isEx then mkExists vs (substT σ b) else mkForall vs (substT σ b)) := by
            rw [substT, hl, hbm]
            subst hop
            cases isEx <;> rfl
          rw [hsub, hty]
          subst hop
          cases isEx
          · simp only [Bool.false_eq_true, if_false]
            refine ⟨wb_mkForall hb', fun I hI he => ?_⟩
            rw [eval_mkForall hI vs hb', eval_forall']
            congr 1
            exact quant_congr_P true _ B _ _ hPres
              (fun J hJ hp => by simp only [truth]; rw [hb1.2 J hJ hp]) vs hvsB I hI he
          · simp only [if_true]
            refine ⟨wb_mkExists hb', fun I hI he => ?_⟩
            rw [eval_mkExists hI vs hb', eval_exists']
            congr 1
            exact quant_congr_P false _ B _ _ hPres
              (fun J hJ hp => by simp only [truth]; rw [hb1.2 J hJ hp]) vs hvsB I hI he
        cases op <;> simp [Op.isQuantifier] at hq
        · exact quantCase false rfl
        · exact quantCase true rfl
      · have hq' : op.isQuantifier = false := by simpa using hq
        rw [substT_nonquant hq' hl]
        have hs : SameSorts (substT σ) args := fun a ha => (ih a ha).1
        by_cases hsym : op = .symbol
        · subst hsym
          have hargs := Term.wt_symbol_args (Term.wf_wt _ hwf)
          subst hargs
          simp only [List.map_nil]
          rw [rebuild_plain rfl]
          exact ⟨⟨hwf, rfl⟩, fun _ _ _ => rfl⟩
        · exact ⟨rebuild_wf hq' hwf hs, fun I hI he =>
            rebuild_eval hq' hsym hwf hs hI hI rfl rfl rfl (fun a ha => (ih a ha).2 I hI he)⟩

/-! ## the disjoint set: every member has the value of its leader -/

/-- the pairs of the leader map are well-formed terms of one (non-Boolean) sort -/
def LTy (l : Leader) : Prop :=
  ∀ kv ∈ l, ∃ τ : Ty, τ ≠ .bool ∧ kv.1.wf = true ∧ kv.2.wf = true ∧ kv.1.typeOf = some τ ∧ kv.2.typeOf = some τ

/-- under `I` every member has the value of its leader -/
def LInv (I : Interp) (l : Leader) : Prop := ∀ kv ∈ l, eval I kv.1 = eval I kv.2

theorem ensure_mem {l : Leader} {k : Term} {kv : Term × Term} (h : kv ∈ l.ensure k) : kv ∈ l ∨ kv = (k, k) := by
  unfold Leader.ensure at h
  split at h
  · exact .inl h
  · simp only [List.mem_append, List.mem_cons, List.not_mem_nil, or_false] at h
    exact h

theorem ensure_get (l : Leader) (k : Term) : ∃ v, (l.ensure k).get k = some v := by
  unfold Leader.ensure
  split
  · next h => exact Option.isSome_iff_exists.mp h
  · next h =>
    have hn : l.get k = none := by simpa using h
    refine ⟨k, ?_⟩
    unfold Leader.get lookupT at hn ⊢
    rw [List.find?_append]
    cases hf : List.find? (fun kv => kv.1 == k) l with
    | some x => rw [hf] at hn; simp at hn
    | none => simp

theorem ensure_get_mono {l : Leader} {k k' v : Term} (h : l.get k = some v) : (l.ensure k').get k = some v := by
  unfold Leader.ensure
  split
  · exact h
  · unfold Leader.get lookupT at h ⊢
    rw [List.find?_append]
    cases hf : List.find? (fun kv => kv.1 == k) l with
    | some x => rw [hf] at h; simpa using h
    | none => rw [hf] at h; simp at h

structure DefOK (I : Interp) (a b : Term) : Prop where
  ty : ∃ τ : Ty, τ ≠ .bool ∧ a.wf = true ∧ b.wf = true ∧ a.typeOf = some τ ∧ b.typeOf = some τ

theorem dsAdd_inv {rank : Term → Int} {l l' : Leader} {a b : Term} (h : dsAdd rank l a b = some l')
    (hty : ∃ τ : Ty, τ ≠ .bool ∧ a.wf = true ∧ b.wf = true ∧ a.typeOf = some τ ∧ b.typeOf = some τ)
    (hl : LTy l) : LTy l' ∧ ∀ I : Interp, eval I a = eval I b → LInv I l → LInv I l' := by
  obtain ⟨τ, hτ, hwa, hwb, hta, htb⟩ := hty
  -- the map after both elements have been entered
  have hl2 : LTy ((l.ensure a).ensure b) := by
    intro kv hkv
    rcases ensure_mem hkv with h1 | rfl
    · rcases ensure_mem h1 with h2 | rfl
      · exact hl kv h2
      · exact ⟨τ, hτ, hwa, hwa, hta, hta⟩
    · exact ⟨τ, hτ, hwb, hwb, htb, htb⟩
  have hi2 : ∀ I : Interp, LInv I l → LInv I ((l.ensure a).ensure b) := by
    intro I hi kv hkv
    rcases ensure_mem hkv with h1 | rfl
    · rcases ensure_mem h1 with h2 | rfl
      · exact hi kv h2
      · rfl
    · rfl
  obtain ⟨la, hla0⟩ := ensure_get l a
  have hla : ((l.ensure a).ensure b).get a = some la := ensure_get_mono hla0
  obtain ⟨lb, hlb⟩ := ensure_get (l.ensure a) b
  unfold dsAdd at h
  simp only [hla, hlb] at h
  have hma : (a, la) ∈ (l.ensure a).ensure b := lookupT_mem hla
  have hmb : (b, lb) ∈ (l.ensure a).ensure b := lookupT_mem hlb
  split at h
  · cases h
    exact ⟨hl2, fun I _ hi => hi2 I hi⟩
  · cases hc : compareRank rank la lb with
    | none => rw [hc] at h; cases h
    | some c =>
      rw [hc] at h
      simp only [Option.bind_eq_bind, Option.bind_some, Option.pure_def, Option.some.injEq] at h
      subst h
      obtain ⟨τa, _, _, hwla, htaa, htla⟩ := hl2 _ hma
      obtain ⟨τb, _, _, hwlb, htbb, htlb⟩ := hl2 _ hmb
      have e1 : τa = τ := by simp only at htaa; rw [hta] at htaa; exact (Option.some.inj htaa).symm
      have e2 : τb = τ := by simp only at htbb; rw [htb] at htbb; exact (Option.some.inj htbb).symm
      have htla' : la.typeOf = some τ := by rw [← e1]; exact htla
      have htlb' : lb.typeOf = some τ := by rw [← e2]; exact htlb
      -- winner / loser, whichever way round
      have hwl : ∃ w lo : Term, (if c > 0 then lb else la) = w ∧ (if c > 0 then la else lb) = lo ∧
          w.wf = true ∧ w.typeOf = some τ ∧ lo.typeOf = some τ ∧ ∀ I : Interp, eval I la = eval I lb → eval I lo = eval I w := by
        by_cases hc0 : c > 0
        · exact ⟨lb, la, by simp [hc0], by simp [hc0], hwlb, htlb', htla', fun I h => h⟩
        · exact ⟨la, lb, by simp [hc0], by simp [hc0], hwla, htla', htlb', fun I h => h.symm⟩
      obtain ⟨w, lo, hw, hlo, hww, htw, htlo, hev⟩ := hwl
      rw [hw, hlo]
      constructor
      · intro kv hkv
        obtain ⟨kv0, hkv0, rfl⟩ := List.mem_map.mp hkv
        obtain ⟨τ', hτ', hw1, hw2, ht1, ht2⟩ := hl2 kv0 hkv0
        by_cases heq : (kv0.2 == lo) = true
        · simp only [heq, if_true]
          have e : kv0.2 = lo := by simpa using heq
          have : τ' = τ := by rw [e, htlo] at ht2; exact (Option.some.inj ht2).symm
          subst this
          exact ⟨τ', hτ', hw1, hww, ht1, htw⟩
        · simp only [heq, Bool.false_eq_true, if_false]
          exact ⟨τ', hτ', hw1, hw2, ht1, ht2⟩
      · intro I hab hi kv hkv
        have hi' := hi2 I hi
        have hea : eval I a = eval I la := hi' _ hma
        have heb : eval I b = eval I lb := hi' _ hmb
        have hll : eval I la = eval I lb := by rw [← hea, ← heb, hab]
        obtain ⟨kv0, hkv0, rfl⟩ := List.mem_map.mp hkv
        have h0 := hi' kv0 hkv0
        by_cases heq : (kv0.2 == lo) = true
        · simp only [heq, if_true]
          have e : kv0.2 = lo := by simpa using heq
          rw [h0, e, hev I hll]
        · simp only [heq, Bool.false_eq_true, if_false]
          exact h0

/-! ## definitions, constants -/

theorem isDefinition_eq {c a b : Term} (h : isDefinition c = some (a, b)) : ∃ p, c = .node .equals [a, b] p := by
  unfold isDefinition at h
  split at h
  · next l r p =>
    split at h
    · simp only [Option.some.injEq, Prod.mk.injEq] at h
      obtain ⟨rfl, rfl⟩ := h
      exact ⟨p, rfl⟩
    · cases h
  · cases h

theorem wf_typeOf_some {t : Term} (h : t.wf = true) : ∃ τ, t.typeOf = some τ := by
  match t, h with
  | .node op args p, h =>
    have := (Term.wf_node.mp h).2.2
    rw [typeOf_node]
    exact Option.isSome_iff_exists.mp this

theorem def_ty {a b : Term} {p : Payload} (h : WB (.node .equals [a, b] p)) :
    ∃ τ : Ty, τ ≠ .bool ∧ a.wf = true ∧ b.wf = true ∧ a.typeOf = some τ ∧ b.typeOf = some τ := by
  have hch := (Term.wf_node.mp h.1).1
  have hwa := hch a (by simp)
  have hwb := hch b (by simp)
  obtain ⟨τa, hta⟩ := wf_typeOf_some hwa
  obtain ⟨τb, htb⟩ := wf_typeOf_some hwb
  have hty := h.2
  rw [typeOf_node] at hty
  simp only [List.map_cons, List.map_nil, hta, htb] at hty
  rw [typeOfNode_equals'] at hty
  split at hty
  · cases hty
  · next hnb =>
    split at hty
    · next heq => subst heq; exact ⟨τb, hnb, hwa, hwb, hta, htb⟩
    · cases hty

theorem truth_equals (I : Interp) (a b : Term) (p : Payload) :
    truth I (.node .equals [a, b] p) = decide (eval I a = eval I b) := by
  apply truth_of_eval
  rw [eval_plain I .equals [a, b] p (by decide) (by decide) rfl]
  rfl

theorem wb_mkEq {a b : Term} {τ : Ty} (hτ : τ ≠ .bool) (ha : a.wf = true) (hb : b.wf = true)
    (hta : a.typeOf = some τ) (htb : b.typeOf = some τ) : WB (Term.mkEq a b) := by
  have hty : typeOfNode .equals .none ([a, b].map Term.typeOf) = some .bool := by
    simp only [List.map_cons, List.map_nil, hta, htb]
    rw [typeOfNode_equals']
    simp [hτ]
  refine ⟨Term.wf_node.mpr ⟨?_, rfl, by rw [hty]; rfl⟩, by rw [Term.mkEq, typeOf_node, hty]⟩
  intro x hx
  simp only [List.mem_cons, List.not_mem_nil, or_false] at hx
  rcases hx with rfl | rfl
  · exact ha
  · exact hb

/-- a well-formed constant is determined by its value -/
theorem const_inj {a b : Term} (ha : a.wf = true) (hb : b.wf = true) (hca : isConstant a = true)
    (hcb : isConstant b = true) (I : Interp) (h : eval I a = eval I b) : a = b := by
  have form : ∀ t : Term, t.wf = true → isConstant t = true →
      (∃ v, t = .node .intConst [] (.i v) ∧ eval I t = .i v) ∨ (∃ v, t = .node .realConst [] (.q v) ∧ eval I t = .r v) ∨
      (∃ v, t = .node .boolConst [] (.b v) ∧ eval I t = .b v) ∨ (∃ v, t = .node .strConst [] (.s v) ∧ eval I t = .s v) ∨
      (∃ v w, t = .node .bvConst [] (.bv v w) ∧ eval I t = .bv w v) := by
    intro t hwf hc
    match t, hwf, hc with
    | .node op args p, hwf, hc =>
      have hs := (Term.wf_node.mp hwf).2.1
      have hnil : ∀ {q : Payload}, (args.length == 0) = true → args = [] := by
        intro _ h0
        cases args with
        | nil => rfl
        | cons x xs => simp at h0
      cases op <;> simp [isConstant, Term.op, Op.isConstant] at hc
      case intConst =>
        cases p with
        | i v =>
          have : args = [] := hnil (q := .none) hs
          subst this
          exact .inl ⟨v, rfl, by rw [eval_plain I _ _ _ (by decide) (by decide) rfl]; rfl⟩
        | _ => exact Bool.noConfusion hs
      case realConst =>
        cases p with
        | q v =>
          have : args = [] := hnil (q := .none) hs
          subst this
          exact .inr (.inl ⟨v, rfl, by rw [eval_plain I _ _ _ (by decide) (by decide) rfl]; rfl⟩)
        | _ => exact Bool.noConfusion hs
      case boolConst =>
        cases p with
        | b v =>
          have : args = [] := hnil (q := .none) hs
          subst this
          exact .inr (.inr (.inl ⟨v, rfl, by rw [eval_plain I _ _ _ (by decide) (by decide) rfl]; rfl⟩))
        | _ => exact Bool.noConfusion hs
      case strConst =>
        cases p with
        | s v =>
          have : args = [] := hnil (q := .none) hs
          subst this
          exact .inr (.inr (.inr (.inl ⟨v, rfl, by rw [eval_plain I _ _ _ (by decide) (by decide) rfl]; rfl⟩)))
        | _ => exact Bool.noConfusion hs
      case bvConst =>
        cases p with
        | bv v w =>
          have hs' : (args.length == 0) = true := by
            have : (args.length == 0 && decide (v < 2 ^ w)) = true := hs
            simp only [Bool.and_eq_true] at this
            exact this.1
          have : args = [] := hnil (q := .none) hs'
          subst this
          exact .inr (.inr (.inr (.inr ⟨v, w, rfl, by rw [eval_plain I _ _ _ (by decide) (by decide) rfl]; rfl⟩)))
        | _ => exact Bool.noConfusion hs
      case algebraicConst => exact Bool.noConfusion hs
  rcases form a ha hca with ⟨v, rfl, e1⟩ | ⟨v, rfl, e1⟩ | ⟨v, rfl, e1⟩ | ⟨v, rfl, e1⟩ | ⟨v, w, rfl, e1⟩ <;>
  rcases form b hb hcb with ⟨v', rfl, e2⟩ | ⟨v', rfl, e2⟩ | ⟨v', rfl, e2⟩ | ⟨v', rfl, e2⟩ | ⟨v', w', rfl, e2⟩ <;>
  (rw [e1, e2] at h; first | (cases h; rfl) | cases h)

/-! ## the terms of the leader map are sides of top-level definitions -/

def LMem (T : List Term) (l : Leader) : Prop := ∀ kv ∈ l, kv.1 ∈ T ∧ kv.2 ∈ T

theorem dsAdd_mem {rank : Term → Int} {T : List Term} {l l' : Leader} {a b : Term} (h : dsAdd rank l a b = some l')
    (ha : a ∈ T) (hb : b ∈ T) (hl : LMem T l) : LMem T l' := by
  have hl2 : LMem T ((l.ensure a).ensure b) := by
    intro kv hkv
    rcases ensure_mem hkv with h1 | rfl
    · rcases ensure_mem h1 with h2 | rfl
      · exact hl kv h2
      · exact ⟨ha, ha⟩
    · exact ⟨hb, hb⟩
  obtain ⟨la, hla0⟩ := ensure_get l a
  have hla : ((l.ensure a).ensure b).get a = some la := ensure_get_mono hla0
  obtain ⟨lb, hlb⟩ := ensure_get (l.ensure a) b
  unfold dsAdd at h
  simp only [hla, hlb] at h
  have hma := (hl2 _ (lookupT_mem hla)).2
  have hmb := (hl2 _ (lookupT_mem hlb)).2
  split at h
  · cases h; exact hl2
  · cases hc : compareRank rank la lb with
    | none => rw [hc] at h; cases h
    | some c =>
      rw [hc] at h
      simp only [Option.bind_eq_bind, Option.bind_some, Option.pure_def, Option.some.injEq] at h
      subst h
      have hw : (if c > 0 then lb else la) ∈ T := by split <;> assumption
      generalize (if c > 0 then lb else la) = w at hw
      generalize (if c > 0 then la else lb) = lo
      intro kv hkv
      obtain ⟨kv0, hkv0, rfl⟩ := List.mem_map.mp hkv
      by_cases heq : (kv0.2 == lo) = true
      · simp only [heq, if_true]; exact ⟨(hl2 kv0 hkv0).1, hw⟩
      · simp only [heq, Bool.false_eq_true, if_false]; exact hl2 kv0 hkv0

theorem buildLeader_mem {rank : Term → Int} {T : List Term} : ∀ (cs : List Term) (l l' : Leader),
    buildLeader rank cs l = some l' →
    (∀ c ∈ cs, ∀ a b, isDefinition c = some (a, b) → a ∈ T ∧ b ∈ T) → LMem T l → LMem T l'
  | [], l, l', h, _, hl => by
    simp only [buildLeader, Option.some.injEq] at h
    subst h; exact hl
  | c :: cs, l, l', h, hT, hl => by
    rw [buildLeader] at h
    cases hd : isDefinition c with
    | none =>
      rw [hd] at h
      exact buildLeader_mem cs l l' h (fun x hx => hT x (by simp [hx])) hl
    | some ab =>
      obtain ⟨a, b⟩ := ab
      rw [hd] at h
      simp only at h
      cases hds : dsAdd rank l a b with
      | none => rw [hds] at h; cases h
      | some l1 =>
        rw [hds] at h
        simp only [Option.bind_some] at h
        have hab := hT c (by simp) a b hd
        exact buildLeader_mem cs l1 l' h (fun x hx => hT x (by simp [hx])) (dsAdd_mem hds hab.1 hab.2 hl)

theorem defTerms_mem {t c a b : Term} (hc : c ∈ conjPartition t) (hd : isDefinition c = some (a, b)) :
    a ∈ defTerms t ∧ b ∈ defTerms t := by
  unfold defTerms
  simp only [List.mem_flatMap]
  exact ⟨⟨c, hc, by rw [hd]; simp⟩, ⟨c, hc, by rw [hd]; simp⟩⟩

/-! ## the loop over the conjuncts -/

theorem buildLeader_inv {rank : Term → Int} : ∀ (cs : List Term) (l l' : Leader),
    buildLeader rank cs l = some l' → (∀ c ∈ cs, WB c) → LTy l →
    LTy l' ∧ ∀ I : Interp, (∀ c ∈ cs, truth I c = true) → LInv I l → LInv I l'
  | [], l, l', h, _, hl => by
    simp only [buildLeader, Option.some.injEq] at h
    subst h
    exact ⟨hl, fun _ _ hi => hi⟩
  | c :: cs, l, l', h, hwb, hl => by
    rw [buildLeader] at h
    cases hd : isDefinition c with
    | none =>
      rw [hd] at h
      have := buildLeader_inv cs l l' h (fun x hx => hwb x (by simp [hx])) hl
      exact ⟨this.1, fun I ht hi => this.2 I (fun x hx => ht x (by simp [hx])) hi⟩
    | some ab =>
      obtain ⟨a, b⟩ := ab
      rw [hd] at h
      simp only at h
      obtain ⟨p, rfl⟩ := isDefinition_eq hd
      cases hds : dsAdd rank l a b with
      | none => rw [hds] at h; cases h
      | some l1 =>
        rw [hds] at h
        simp only [Option.bind_some] at h
        have hty := def_ty (hwb (.node .equals [a, b] p) List.mem_cons_self)
        have h1 := dsAdd_inv hds hty hl
        have h2 := buildLeader_inv cs l1 l' h (fun x hx => hwb x (by simp [hx])) h1.1
        refine ⟨h2.1, fun I ht hi => h2.2 I (fun x hx => ht x (by simp [hx])) (h1.2 I ?_ hi)⟩
        have := ht _ (List.mem_cons_self)
        rw [truth_equals] at this
        simpa using this

/-- the core of `propagate_equiv`, for any class of formulas in which replacing the members of the
recorded classes by their leaders preserves the value (`hrep`) -/
theorem propagate_core (rank : Term → Int) (t r : Term) (hwf : t.wf = true) (hty : t.typeOf = some .bool)
    (hrep : ∀ σ : List (Term × Term), EqMap σ → (∀ kv ∈ σ, kv.1 ∈ defTerms t ∧ kv.2 ∈ defTerms t) →
      ((substT σ t).wf = true ∧ (substT σ t).typeOf = t.typeOf) ∧
      ∀ I : Interp, I.WF → (∀ kv ∈ σ, eval I kv.1 = eval I kv.2) → eval I (substT σ t) = eval I t)
    (h : propagate rank t = some r) (I : Interp) (hI : I.WF) :
    eval I r = eval I t := by
  have hwb : WB t := ⟨hwf, hty⟩
  have hleaves := conjLeaves_spec t hwb
  have hcs : ∀ c ∈ conjPartition t, WB c := fun c hc => (hleaves.1 c ((mem_dedup c _).mp hc)).1
  unfold propagate at h
  cases hb : buildLeader rank (conjPartition t) [] with
  | none => rw [hb] at h; cases h
  | some l =>
    rw [hb] at h
    simp only [Option.bind_eq_bind, Option.bind_some] at h
    obtain ⟨hlty, hlinv⟩ := buildLeader_inv _ [] l hb hcs (fun kv hkv => by cases hkv)
    have hlmem : LMem (defTerms t) l :=
      buildLeader_mem _ [] l hb (fun c hc a b hd => defTerms_mem hc hd) (fun kv hkv => by cases hkv)
    -- if `t` holds, every member has the value of its leader
    have key : truth I t = true → LInv I l := by
      intro ht
      apply hlinv I _ (fun kv hkv => by cases hkv)
      intro c hc
      have := hleaves.2 I hI
      rw [ht, List.all_eq_true] at this
      exact this c ((mem_dedup c _).mp hc)
    have hmoved : ∀ kv ∈ l.filter (fun kv => kv.1 != kv.2), kv ∈ l ∧ kv.1 ≠ kv.2 := by
      intro kv hkv
      have := List.mem_filter.mp hkv
      exact ⟨this.1, by simpa using this.2⟩
    split at h
    · -- two different constants in one class
      next hconf =>
      simp only [Option.pure_def, Option.some.injEq] at h
      subst h
      obtain ⟨kv, hkv, hk⟩ := List.any_eq_true.mp hconf
      simp only [Bool.and_eq_true] at hk
      obtain ⟨hm, hne⟩ := hmoved kv hkv
      obtain ⟨τ, _, hw1, hw2, _, _⟩ := hlty kv hm
      rw [eval_ff, hwb.isB hI]
      congr 1
      cases ht : truth I t with
      | false => rfl
      | true => exact absurd (const_inj hw1 hw2 hk.1 hk.2 I (key ht kv hm)) hne
    · simp only [Option.pure_def, Option.some.injEq] at h
      subst h
      have heq : EqMap (l.filter (fun kv => kv.1 != kv.2)) := by
        intro kv hkv
        obtain ⟨τ, _, _, hw2, ht1, ht2⟩ := hlty kv (hmoved kv hkv).1
        exact ⟨hw2, by rw [ht1, ht2]⟩
      have hsub := hrep _ heq (fun kv hkv => hlmem kv (hmoved kv hkv).1)
      have hwsub : WB (substT (l.filter (fun kv => kv.1 != kv.2)) t) := ⟨hsub.1.1, by rw [hsub.1.2]; exact hty⟩
      have hweqs : ∀ x ∈ (l.filter (fun kv => kv.1 != kv.2)).map (fun kv => Term.mkEq kv.1 kv.2), WB x := by
        intro x hx
        obtain ⟨kv, hkv, rfl⟩ := List.mem_map.mp hx
        obtain ⟨τ, hτ, hw1, hw2, ht1, ht2⟩ := hlty kv (hmoved kv hkv).1
        exact wb_mkEq hτ hw1 hw2 ht1 ht2
      have hwpair := wb_pair hwsub (wb_mkAnd hweqs)
      rw [eval_mkAnd hI hwpair, hwb.isB hI]
      congr 1
      simp only [List.all_cons, List.all_nil, Bool.and_true, truth_of_eval (eval_mkAnd hI hweqs), List.all_map]
      -- do all the recorded equalities hold?
      by_cases hall : ∀ kv ∈ l.filter (fun kv => kv.1 != kv.2), eval I kv.1 = eval I kv.2
      · have h1 : (l.filter (fun kv => kv.1 != kv.2)).all (truth I ∘ fun kv => Term.mkEq kv.1 kv.2) = true := by
          rw [List.all_eq_true]
          intro kv hkv
          simp only [Function.comp, Term.mkEq, truth_equals, decide_eq_true_eq]
          exact hall kv hkv
        rw [h1, Bool.and_true]
        simp only [truth, hsub.2 I hI hall]
      · have h1 : (l.filter (fun kv => kv.1 != kv.2)).all (truth I ∘ fun kv => Term.mkEq kv.1 kv.2) = false := by
          rw [List.all_eq_false]
          have hex : ∃ kv, kv ∈ l.filter (fun kv => kv.1 != kv.2) ∧ ¬ eval I kv.1 = eval I kv.2 :=
            Classical.byContradiction (fun hno => hall (fun kv hkv =>
              Classical.byContradiction (fun hne => hno ⟨kv, hkv, hne⟩)))
          obtain ⟨kv, hkv, hne⟩ := hex
          exact ⟨kv, hkv, by simp only [Function.comp, Term.mkEq, truth_equals, decide_eq_true_eq]; exact hne⟩
        rw [h1, Bool.and_false]
        cases ht : truth I t with
        | false => rfl
        | true => exact absurd (fun kv hkv => key ht kv (hmoved kv hkv).1) hall

/-- **`propagate_equiv`** on quantifier-free formulas -/
theorem propagate_equiv_qf (rank : Term → Int) (t r : Term) (hwf : t.wf = true) (hty : t.typeOf = some .bool)
    (hqf : t.isQF = true) (h : propagate rank t = some r) (I : Interp) (hI : I.WF) :
    eval I r = eval I t :=
  propagate_core rank t r hwf hty (fun σ hσ _ => substT_equal hσ t hwf hqf) h I hI

/-- **`propagate_equiv`** when no symbol of a top-level definition is bound anywhere in the formula -/
theorem propagate_equiv_safe (rank : Term → Int) (t r : Term) (hwf : t.wf = true) (hty : t.typeOf = some .bool)
    (hsafe : propagateSafe t = true) (h : propagate rank t = some r) (I : Interp) (hI : I.WF) :
    eval I r = eval I t := by
  refine propagate_core rank t r hwf hty (fun σ hσ hmem => ?_) h I hI
  apply substT_equal_gen hσ (boundVars t) _ t hwf (fun s hs => hs)
  intro kv hkv s hs hb
  unfold propagateSafe at hsafe
  simp only [List.all_eq_true, Bool.not_eq_eq_eq_not, Bool.not_true] at hsafe
  rcases List.mem_append.mp hs with h1 | h1
  · have := hsafe _ (hmem kv hkv).1 s h1
    simp [hb] at this
  · have := hsafe _ (hmem kv hkv).2 s h1
    simp [hb] at this

end PySMT.Rewritings
