import PySMT.Proofs.C10Prenex
import PySMT.Proofs.C10Partition
import PySMT.Impl.Rewritings.Propagate
import PySMT.Proofs.C05Sem
/-!
# C10 — `propagate_toplevel` (`do_simplify=False`): equivalence, totality, well-formedness
-/
namespace PySMT.Rewritings

theorem typeOfNode_equals' (p : Payload) (ta tb : Ty) :
    typeOfNode .equals p [some ta, some tb] =
      if ta = .bool then none else if tb = ta then some .bool else none := by
  cases ta
  case bool => rfl
  all_goals
    show (if allAre [some tb] _ then some Ty.bool else none) = _
    simp only [allAre, List.all_cons, List.all_nil, Bool.and_true, beq_iff_eq, Option.some.injEq, reduceCtorEq,
      if_false]

/-! ## bound variables -/

theorem boundVars_node (op : Op) (args : List Term) (p : Payload) :
    boundVars (.node op args p) =
      (match p with | .qvars vs => vs | _ => []) ++ (args.map boundVars).flatten := by
  cases p <;> (rw [boundVars] <;> simp)

theorem boundVars_child {op : Op} {args : List Term} {p : Payload} {a : Term} (ha : a ∈ args) {s : Sym}
    (hs : s ∈ boundVars a) : s ∈ boundVars (.node op args p) := by
  rw [boundVars_node]
  apply List.mem_append_right
  simp only [List.mem_flatten, List.mem_map]
  exact ⟨_, ⟨a, ha, rfl⟩, hs⟩

theorem boundVars_qvars {op : Op} {args : List Term} {vs : List Sym} {s : Sym} (hs : s ∈ vs) :
    s ∈ boundVars (.node op args (.qvars vs)) := by
  rw [boundVars_node]; exact List.mem_append_left _ hs

/-! ## the disjoint set: every member has the value of its leader -/

/-- the pairs of the leader map are well-formed terms of one (non-Boolean) sort -/
def LTy (l : Leader) : Prop :=
  ∀ kv ∈ l, ∃ τ : Ty, τ ≠ .bool ∧ kv.1.wf = true ∧ kv.2.wf = true ∧ kv.1.typeOf = some τ ∧ kv.2.typeOf = some τ

/-- under `I` every member has the value of its leader -/
def LInv (I : Interp) (l : Leader) : Prop := ∀ kv ∈ l, eval I kv.1 = eval I kv.2

theorem ensure_mem {l : Leader} {k : Term} {kv : Term × Term} (h : kv ∈ l.ensure k) : kv ∈ l ∨ kv = (k, k) := by
  unfold Leader.ensure at h
  split at h
  · exact .inl h
  · simp only [List.mem_append, List.mem_cons, List.not_mem_nil, or_false] at h
    exact h

theorem ensure_get (l : Leader) (k : Term) : ∃ v, (l.ensure k).get k = some v := by
  unfold Leader.ensure
  split
  · next h => exact Option.isSome_iff_exists.mp h
  · next h =>
    have hn : l.get k = none := by simpa using h
    refine ⟨k, ?_⟩
    unfold Leader.get lookupT at hn ⊢
    rw [List.find?_append]
    cases hf : List.find? (fun kv => kv.1 == k) l with
    | some x => rw [hf] at hn; simp at hn
    | none => simp

theorem ensure_get_mono {l : Leader} {k k' v : Term} (h : l.get k = some v) : (l.ensure k').get k = some v := by
  unfold Leader.ensure
  split
  · exact h
  · unfold Leader.get lookupT at h ⊢
    rw [List.find?_append]
    cases hf : List.find? (fun kv => kv.1 == k) l with
    | some x => rw [hf] at h; simpa using h
    | none => rw [hf] at h; simp at h

structure DefOK (I : Interp) (a b : Term) : Prop where
  ty : ∃ τ : Ty, τ ≠ .bool ∧ a.wf = true ∧ b.wf = true ∧ a.typeOf = some τ ∧ b.typeOf = some τ

theorem dsAdd_inv {rank : Term → Int} {l l' : Leader} {a b : Term} (h : dsAdd rank l a b = some l')
    (hty : ∃ τ : Ty, τ ≠ .bool ∧ a.wf = true ∧ b.wf = true ∧ a.typeOf = some τ ∧ b.typeOf = some τ)
    (hl : LTy l) : LTy l' ∧ ∀ I : Interp, eval I a = eval I b → LInv I l → LInv I l' := by
  obtain ⟨τ, hτ, hwa, hwb, hta, htb⟩ := hty
  -- the map after both elements have been entered
  have hl2 : LTy ((l.ensure a).ensure b) := by
    intro kv hkv
    rcases ensure_mem hkv with h1 | rfl
    · rcases ensure_mem h1 with h2 | rfl
      · exact hl kv h2
      · exact ⟨τ, hτ, hwa, hwa, hta, hta⟩
    · exact ⟨τ, hτ, hwb, hwb, htb, htb⟩
  have hi2 : ∀ I : Interp, LInv I l → LInv I ((l.ensure a).ensure b) := by
    intro I hi kv hkv
    rcases ensure_mem hkv with h1 | rfl
    · rcases ensure_mem h1 with h2 | rfl
      · exact hi kv h2
      · rfl
    · rfl
  obtain ⟨la, hla0⟩ := ensure_get l a
  have hla : ((l.ensure a).ensure b).get a = some la := ensure_get_mono hla0
  obtain ⟨lb, hlb⟩ := ensure_get (l.ensure a) b
  unfold dsAdd at h
  simp only [hla, hlb] at h
  have hma : (a, la) ∈ (l.ensure a).ensure b := lookupT_mem hla
  have hmb : (b, lb) ∈ (l.ensure a).ensure b := lookupT_mem hlb
  split at h
  · cases h
    exact ⟨hl2, fun I _ hi => hi2 I hi⟩
  · cases hc : compareRank rank la lb with
    | none => rw [hc] at h; cases h
    | some c =>
      rw [hc] at h
      simp only [Option.bind_eq_bind, Option.bind_some, Option.pure_def, Option.some.injEq] at h
      subst h
      obtain ⟨τa, _, _, hwla, htaa, htla⟩ := hl2 _ hma
      obtain ⟨τb, _, _, hwlb, htbb, htlb⟩ := hl2 _ hmb
      have e1 : τa = τ := by simp only at htaa; rw [hta] at htaa; exact (Option.some.inj htaa).symm
      have e2 : τb = τ := by simp only at htbb; rw [htb] at htbb; exact (Option.some.inj htbb).symm
      have htla' : la.typeOf = some τ := by rw [← e1]; exact htla
      have htlb' : lb.typeOf = some τ := by rw [← e2]; exact htlb
      -- winner / loser, whichever way round
      have hwl : ∃ w lo : Term, (if c > 0 then lb else la) = w ∧ (if c > 0 then la else lb) = lo ∧
          w.wf = true ∧ w.typeOf = some τ ∧ lo.typeOf = some τ ∧ ∀ I : Interp, eval I la = eval I lb → eval I lo = eval I w := by
        by_cases hc0 : c > 0
        · exact ⟨lb, la, by simp [hc0], by simp [hc0], hwlb, htlb', htla', fun I h => h⟩
        · exact ⟨la, lb, by simp [hc0], by simp [hc0], hwla, htla', htlb', fun I h => h.symm⟩
      obtain ⟨w, lo, hw, hlo, hww, htw, htlo, hev⟩ := hwl
      rw [hw, hlo]
      constructor
      · intro kv hkv
        obtain ⟨kv0, hkv0, rfl⟩ := List.mem_map.mp hkv
        obtain ⟨τ', hτ', hw1, hw2, ht1, ht2⟩ := hl2 kv0 hkv0
        by_cases heq : (kv0.2 == lo) = true
        · simp only [heq, if_true]
          have e : kv0.2 = lo := by simpa using heq
          have : τ' = τ := by rw [e, htlo] at ht2; exact (Option.some.inj ht2).symm
          subst this
          exact ⟨τ', hτ', hw1, hww, ht1, htw⟩
        · simp only [heq, Bool.false_eq_true, if_false]
          exact ⟨τ', hτ', hw1, hw2, ht1, ht2⟩
      · intro I hab hi kv hkv
        have hi' := hi2 I hi
        have hea : eval I a = eval I la := hi' _ hma
        have heb : eval I b = eval I lb := hi' _ hmb
        have hll : eval I la = eval I lb := by rw [← hea, ← heb, hab]
        obtain ⟨kv0, hkv0, rfl⟩ := List.mem_map.mp hkv
        have h0 := hi' kv0 hkv0
        by_cases heq : (kv0.2 == lo) = true
        · simp only [heq, if_true]
          have e : kv0.2 = lo := by simpa using heq
          rw [h0, e, hev I hll]
        · simp only [heq, Bool.false_eq_true, if_false]
          exact h0

/-! ## definitions, constants -/

theorem isDefinition_eq {c a b : Term} (h : isDefinition c = some (a, b)) : ∃ p, c = .node .equals [a, b] p := by
  unfold isDefinition at h
  split at h
  · next l r p =>
    split at h
    · simp only [Option.some.injEq, Prod.mk.injEq] at h
      obtain ⟨rfl, rfl⟩ := h
      exact ⟨p, rfl⟩
    · cases h
  · cases h

theorem wf_typeOf_some {t : Term} (h : t.wf = true) : ∃ τ, t.typeOf = some τ := by
  match t, h with
  | .node op args p, h =>
    have := (Term.wf_node.mp h).2.2
    rw [typeOf_node]
    exact Option.isSome_iff_exists.mp this

theorem def_ty {a b : Term} {p : Payload} (h : WB (.node .equals [a, b] p)) :
    ∃ τ : Ty, τ ≠ .bool ∧ a.wf = true ∧ b.wf = true ∧ a.typeOf = some τ ∧ b.typeOf = some τ := by
  have hch := (Term.wf_node.mp h.1).1
  have hwa := hch a (by simp)
  have hwb := hch b (by simp)
  obtain ⟨τa, hta⟩ := wf_typeOf_some hwa
  obtain ⟨τb, htb⟩ := wf_typeOf_some hwb
  have hty := h.2
  rw [typeOf_node] at hty
  simp only [List.map_cons, List.map_nil, hta, htb] at hty
  rw [typeOfNode_equals'] at hty
  split at hty
  · cases hty
  · next hnb =>
    split at hty
    · next heq => subst heq; exact ⟨τb, hnb, hwa, hwb, hta, htb⟩
    · cases hty

theorem truth_equals (I : Interp) (a b : Term) (p : Payload) :
    truth I (.node .equals [a, b] p) = decide (eval I a = eval I b) := by
  apply truth_of_eval
  rw [eval_plain I .equals [a, b] p (by decide) (by decide) rfl]
  rfl

theorem wb_mkEq {a b : Term} {τ : Ty} (hτ : τ ≠ .bool) (ha : a.wf = true) (hb : b.wf = true)
    (hta : a.typeOf = some τ) (htb : b.typeOf = some τ) : WB (Term.mkEq a b) := by
  have hty : typeOfNode .equals .none ([a, b].map Term.typeOf) = some .bool := by
    simp only [List.map_cons, List.map_nil, hta, htb]
    rw [typeOfNode_equals']
    simp [hτ]
  refine ⟨Term.wf_node.mpr ⟨?_, rfl, by rw [hty]; rfl⟩, by rw [Term.mkEq, typeOf_node, hty]⟩
  intro x hx
  simp only [List.mem_cons, List.not_mem_nil, or_false] at hx
  rcases hx with rfl | rfl
  · exact ha
  · exact hb

/-- a well-formed constant is determined by its value -/
theorem const_inj {a b : Term} (ha : a.wf = true) (hb : b.wf = true) (hca : isConstant a = true)
    (hcb : isConstant b = true) (I : Interp) (h : eval I a = eval I b) : a = b := by
  have form : ∀ t : Term, t.wf = true → isConstant t = true →
      (∃ v, t = .node .intConst [] (.i v) ∧ eval I t = .i v) ∨ (∃ v, t = .node .realConst [] (.q v) ∧ eval I t = .r v) ∨
      (∃ v, t = .node .boolConst [] (.b v) ∧ eval I t = .b v) ∨ (∃ v, t = .node .strConst [] (.s v) ∧ eval I t = .s v) ∨
      (∃ v w, t = .node .bvConst [] (.bv v w) ∧ eval I t = .bv w v) := by
    intro t hwf hc
    match t, hwf, hc with
    | .node op args p, hwf, hc =>
      have hs := (Term.wf_node.mp hwf).2.1
      have hnil : ∀ {q : Payload}, (args.length == 0) = true → args = [] := by
        intro _ h0
        cases args with
        | nil => rfl
        | cons x xs => simp at h0
      cases op <;> simp [isConstant, Term.op, Op.isConstant] at hc
      case intConst =>
        cases p with
        | i v =>
          have : args = [] := hnil (q := .none) hs
          subst this
          exact .inl ⟨v, rfl, by rw [eval_plain I _ _ _ (by decide) (by decide) rfl]; rfl⟩
        | _ => exact Bool.noConfusion hs
      case realConst =>
        cases p with
        | q v =>
          have : args = [] := hnil (q := .none) hs
          subst this
          exact .inr (.inl ⟨v, rfl, by rw [eval_plain I _ _ _ (by decide) (by decide) rfl]; rfl⟩)
        | _ => exact Bool.noConfusion hs
      case boolConst =>
        cases p with
        | b v =>
          have : args = [] := hnil (q := .none) hs
          subst this
          exact .inr (.inr (.inl ⟨v, rfl, by rw [eval_plain I _ _ _ (by decide) (by decide) rfl]; rfl⟩))
        | _ => exact Bool.noConfusion hs
      case strConst =>
        cases p with
        | s v =>
          have : args = [] := hnil (q := .none) hs
          subst this
          exact .inr (.inr (.inr (.inl ⟨v, rfl, by rw [eval_plain I _ _ _ (by decide) (by decide) rfl]; rfl⟩)))
        | _ => exact Bool.noConfusion hs
      case bvConst =>
        cases p with
        | bv v w =>
          have hs' : (args.length == 0) = true := by
            have : (args.length == 0 && decide (v < 2 ^ w)) = true := hs
            simp only [Bool.and_eq_true] at this
            exact this.1
          have : args = [] := hnil (q := .none) hs'
          subst this
          exact .inr (.inr (.inr (.inr ⟨v, w, rfl, by rw [eval_plain I _ _ _ (by decide) (by decide) rfl]; rfl⟩)))
        | _ => exact Bool.noConfusion hs
      case algebraicConst => exact Bool.noConfusion hs
  rcases form a ha hca with ⟨v, rfl, e1⟩ | ⟨v, rfl, e1⟩ | ⟨v, rfl, e1⟩ | ⟨v, rfl, e1⟩ | ⟨v, w, rfl, e1⟩ <;>
  rcases form b hb hcb with ⟨v', rfl, e2⟩ | ⟨v', rfl, e2⟩ | ⟨v', rfl, e2⟩ | ⟨v', rfl, e2⟩ | ⟨v', w', rfl, e2⟩ <;>
  (rw [e1, e2] at h; first | (cases h; rfl) | cases h)

/-! ## the loop over the conjuncts -/

theorem buildLeader_inv {rank : Term → Int} : ∀ (cs : List Term) (l l' : Leader),
    buildLeader rank cs l = some l' → (∀ c ∈ cs, WB c) → LTy l →
    LTy l' ∧ ∀ I : Interp, (∀ c ∈ cs, truth I c = true) → LInv I l → LInv I l'
  | [], l, l', h, _, hl => by
    simp only [buildLeader, Option.some.injEq] at h
    subst h
    exact ⟨hl, fun _ _ hi => hi⟩
  | c :: cs, l, l', h, hwb, hl => by
    rw [buildLeader] at h
    cases hd : isDefinition c with
    | none =>
      rw [hd] at h
      have := buildLeader_inv cs l l' h (fun x hx => hwb x (by simp [hx])) hl
      exact ⟨this.1, fun I ht hi => this.2 I (fun x hx => ht x (by simp [hx])) hi⟩
    | some ab =>
      obtain ⟨a, b⟩ := ab
      rw [hd] at h
      simp only at h
      obtain ⟨p, rfl⟩ := isDefinition_eq hd
      cases hds : dsAdd rank l a b with
      | none => rw [hds] at h; cases h
      | some l1 =>
        rw [hds] at h
        simp only [Option.bind_some] at h
        have hty := def_ty (hwb (.node .equals [a, b] p) List.mem_cons_self)
        have h1 := dsAdd_inv hds hty hl
        have h2 := buildLeader_inv cs l1 l' h (fun x hx => hwb x (by simp [hx])) h1.1
        refine ⟨h2.1, fun I ht hi => h2.2 I (fun x hx => ht x (by simp [hx])) (h1.2 I ?_ hi)⟩
        have := ht _ (List.mem_cons_self)
        rw [truth_equals] at this
        simpa using this

/-! ## kinds of the members: symbols and constants; a class that contains a constant is led by one -/

open PySMT.Subst PySMT.SubstSpec PySMT.Build in
section

def Leaf (t : Term) : Prop := isSymbol t = true ∨ isConstant t = true

def LKind (l : Leader) : Prop := ∀ kv ∈ l, Leaf kv.1 ∧ Leaf kv.2 ∧ (isConstant kv.1 = true → isConstant kv.2 = true)

theorem compareRank_winner {rank : Term → Int} {la lb : Term} {c : Int} (hne : (la == lb) = false)
    (h : compareRank rank la lb = some c) :
    isConstant (if c > 0 then la else lb) = true → isConstant (if c > 0 then lb else la) = true := by
  unfold compareRank at h
  simp only [hne, Bool.false_eq_true, if_false] at h
  by_cases h1 : isConstant la = true <;> by_cases h2 : isConstant lb = true
  · intro _; split <;> assumption
  · simp only [h1, h2, Bool.and_false, Bool.false_eq_true, if_false, if_true, Option.some.injEq] at h
    subst h; simp [h1]
  · simp only [h1, h2, Bool.false_and, Bool.false_eq_true, if_false, if_true, Option.some.injEq] at h
    subst h; simp [h2]
  · intro hc
    split at hc
    · exact absurd hc h1
    · exact absurd hc h2

theorem isDefinition_leaf {c a b : Term} (h : isDefinition c = some (a, b)) : Leaf a ∧ Leaf b := by
  unfold isDefinition at h
  split at h
  · split at h
    · next hc =>
      simp only [Option.some.injEq, Prod.mk.injEq] at h
      obtain ⟨rfl, rfl⟩ := h
      simp only [Bool.and_eq_true, Bool.or_eq_true] at hc
      exact ⟨hc.1, hc.2⟩
    · cases h
  · cases h

theorem dsAdd_kind {rank : Term → Int} {l l' : Leader} {a b : Term} (h : dsAdd rank l a b = some l')
    (ha : Leaf a) (hb : Leaf b) (hl : LKind l) : LKind l' := by
  have hl2 : LKind ((l.ensure a).ensure b) := by
    intro kv hkv
    rcases ensure_mem hkv with h1 | rfl
    · rcases ensure_mem h1 with h2 | rfl
      · exact hl kv h2
      · exact ⟨ha, ha, fun h => h⟩
    · exact ⟨hb, hb, fun h => h⟩
  obtain ⟨la, hla0⟩ := ensure_get l a
  have hla : ((l.ensure a).ensure b).get a = some la := ensure_get_mono hla0
  obtain ⟨lb, hlb⟩ := ensure_get (l.ensure a) b
  unfold dsAdd at h
  simp only [hla, hlb] at h
  have hma := (hl2 _ (lookupT_mem hla)).2.1
  have hmb := (hl2 _ (lookupT_mem hlb)).2.1
  split at h
  · cases h; exact hl2
  · next hne =>
    cases hc : compareRank rank la lb with
    | none => rw [hc] at h; cases h
    | some c =>
      rw [hc] at h
      simp only [Option.bind_eq_bind, Option.bind_some, Option.pure_def, Option.some.injEq] at h
      subst h
      have hwin := compareRank_winner (by simpa using hne) hc
      have hw : Leaf (if c > 0 then lb else la) := by split <;> assumption
      generalize (if c > 0 then lb else la) = w at hw hwin
      generalize (if c > 0 then la else lb) = lo at hwin
      intro kv hkv
      obtain ⟨kv0, hkv0, rfl⟩ := List.mem_map.mp hkv
      by_cases heq : (kv0.2 == lo) = true
      · simp only [heq, if_true]
        have e : kv0.2 = lo := by simpa using heq
        exact ⟨(hl2 kv0 hkv0).1, hw, fun hk => hwin (e ▸ (hl2 kv0 hkv0).2.2 hk)⟩
      · simp only [heq, Bool.false_eq_true, if_false]; exact hl2 kv0 hkv0

/-! ## well-formed constants and symbols -/

theorem const_form {t : Term} (hwf : t.wf = true) (hc : isConstant t = true) :
    (∃ v, t = .node .intConst [] (.i v)) ∨ (∃ v, t = .node .realConst [] (.q v)) ∨
    (∃ v, t = .node .boolConst [] (.b v)) ∨ (∃ v, t = .node .strConst [] (.s v)) ∨
    (∃ v w, t = .node .bvConst [] (.bv v w)) := by
  match t, hwf, hc with
  | .node op args p, hwf, hc =>
    have hs := (Term.wf_node.mp hwf).2.1
    have hnil : (args.length == 0) = true → args = [] := by
      intro h0
      cases args with
      | nil => rfl
      | cons x xs => simp at h0
    cases op <;> simp [isConstant, Term.op, Op.isConstant] at hc
    case intConst =>
      cases p with
      | i v => have := hnil hs; subst this; exact .inl ⟨v, rfl⟩
      | _ => exact Bool.noConfusion hs
    case realConst =>
      cases p with
      | q v => have := hnil hs; subst this; exact .inr (.inl ⟨v, rfl⟩)
      | _ => exact Bool.noConfusion hs
    case boolConst =>
      cases p with
      | b v => have := hnil hs; subst this; exact .inr (.inr (.inl ⟨v, rfl⟩))
      | _ => exact Bool.noConfusion hs
    case strConst =>
      cases p with
      | s v => have := hnil hs; subst this; exact .inr (.inr (.inr (.inl ⟨v, rfl⟩)))
      | _ => exact Bool.noConfusion hs
    case bvConst =>
      cases p with
      | bv v w =>
        have hs' : (args.length == 0) = true := by
          have : (args.length == 0 && decide (v < 2 ^ w)) = true := hs
          simp only [Bool.and_eq_true] at this
          exact this.1
        have := hnil hs'; subst this
        exact .inr (.inr (.inr (.inr ⟨v, w, rfl⟩)))
      | _ => exact Bool.noConfusion hs
    case algebraicConst => exact Bool.noConfusion hs

theorem sym_form {t : Term} (hwf : t.wf = true) (hs : isSymbol t = true) : ∃ s, t = Term.sym s ∧ s.params = [] := by
  match t, hwf, hs with
  | .node op args p, hwf, hs =>
    have hop : op = .symbol := by
      unfold isSymbol at hs
      split at hs
      · next heq => cases heq; rfl
      · cases hs
    subst hop
    have hargs := Term.wt_symbol_args (Term.wf_wt _ hwf)
    subst hargs
    obtain ⟨_, s, rfl, hp⟩ := typeOfNode_symbol (Term.wt_typeOf (Term.wf_wt _ hwf))
    exact ⟨s, rfl, hp⟩

/-- constants of one sort can be ranked -/
theorem compareRank_total {rank : Term → Int} {la lb : Term} {τ : Ty} (hτ : τ ≠ .bool)
    (hwa : la.wf = true) (hwb : lb.wf = true) (hta : la.typeOf = some τ) (htb : lb.typeOf = some τ) :
    ∃ c, compareRank rank la lb = some c := by
  unfold compareRank
  split
  · exact ⟨_, rfl⟩
  · split
    · next hcc =>
      simp only [Bool.and_eq_true] at hcc
      have tint : ∀ v, (Term.node .intConst [] (.i v)).typeOf = some .int := fun v => by rw [typeOf_node]; rfl
      have treal : ∀ v, (Term.node .realConst [] (.q v)).typeOf = some .real := fun v => by rw [typeOf_node]; rfl
      have tbool : ∀ v, (Term.node .boolConst [] (.b v)).typeOf = some .bool := fun v => by rw [typeOf_node]; rfl
      have tstr : ∀ v, (Term.node .strConst [] (.s v)).typeOf = some .str := fun v => by rw [typeOf_node]; rfl
      have tbv : ∀ v w, (Term.node .bvConst [] (.bv v w)).typeOf = some (.bv w) := fun v w => by rw [typeOf_node]; rfl
      rcases const_form hwa hcc.1 with ⟨v, rfl⟩ | ⟨v, rfl⟩ | ⟨v, rfl⟩ | ⟨v, rfl⟩ | ⟨v, w, rfl⟩ <;>
      rcases const_form hwb hcc.2 with ⟨v', rfl⟩ | ⟨v', rfl⟩ | ⟨v', rfl⟩ | ⟨v', rfl⟩ | ⟨v', w', rfl⟩ <;>
      first
        | exact ⟨_, rfl⟩
        | (exfalso
           simp only [tint, treal, tbool, tstr, tbv, Option.some.injEq] at hta htb
           subst hta
           first | exact hτ rfl | cases htb)
    · split
      · exact ⟨_, rfl⟩
      · split <;> exact ⟨_, rfl⟩

/-! ## the loop never fails on well-formed input -/

theorem dsAdd_total {rank : Term → Int} {l : Leader} {a b : Term}
    (hty : ∃ τ : Ty, τ ≠ .bool ∧ a.wf = true ∧ b.wf = true ∧ a.typeOf = some τ ∧ b.typeOf = some τ)
    (hl : LTy l) : ∃ l', dsAdd rank l a b = some l' := by
  obtain ⟨τ, hτ, hwa, hwb, hta, htb⟩ := hty
  have hl2 : LTy ((l.ensure a).ensure b) := by
    intro kv hkv
    rcases ensure_mem hkv with h1 | rfl
    · rcases ensure_mem h1 with h2 | rfl
      · exact hl kv h2
      · exact ⟨τ, hτ, hwa, hwa, hta, hta⟩
    · exact ⟨τ, hτ, hwb, hwb, htb, htb⟩
  obtain ⟨la, hla0⟩ := ensure_get l a
  have hla : ((l.ensure a).ensure b).get a = some la := ensure_get_mono hla0
  obtain ⟨lb, hlb⟩ := ensure_get (l.ensure a) b
  obtain ⟨τa, _, _, hwla, htaa, htla⟩ := hl2 _ (lookupT_mem hla)
  obtain ⟨τb, _, _, hwlb, htbb, htlb⟩ := hl2 _ (lookupT_mem hlb)
  have e1 : τa = τ := by simp only at htaa; rw [hta] at htaa; exact (Option.some.inj htaa).symm
  have e2 : τb = τ := by simp only at htbb; rw [htb] at htbb; exact (Option.some.inj htbb).symm
  obtain ⟨c, hc⟩ := compareRank_total (rank := rank) hτ hwla hwlb (by rw [← e1]; exact htla) (by rw [← e2]; exact htlb)
  unfold dsAdd
  simp only [hla, hlb]
  split
  · exact ⟨_, rfl⟩
  · rw [hc]; exact ⟨_, rfl⟩

theorem buildLeader_total {rank : Term → Int} : ∀ (cs : List Term) (l : Leader),
    (∀ c ∈ cs, WB c) → LTy l → ∃ l', buildLeader rank cs l = some l'
  | [], l, _, _ => ⟨l, rfl⟩
  | c :: cs, l, hwb, hl => by
    rw [buildLeader]
    cases hd : isDefinition c with
    | none => exact buildLeader_total cs l (fun x hx => hwb x (by simp [hx])) hl
    | some ab =>
      obtain ⟨a, b⟩ := ab
      simp only
      obtain ⟨p, rfl⟩ := isDefinition_eq hd
      have hty := def_ty (hwb (.node .equals [a, b] p) List.mem_cons_self)
      obtain ⟨l1, h1⟩ := dsAdd_total (rank := rank) hty hl
      rw [h1]
      simp only [Option.bind_some]
      exact buildLeader_total cs l1 (fun x hx => hwb x (by simp [hx])) (dsAdd_inv h1 hty hl).1

theorem buildLeader_kind {rank : Term → Int} : ∀ (cs : List Term) (l l' : Leader),
    buildLeader rank cs l = some l' → LKind l → LKind l'
  | [], l, l', h, hl => by
    simp only [buildLeader, Option.some.injEq] at h
    subst h; exact hl
  | c :: cs, l, l', h, hl => by
    rw [buildLeader] at h
    cases hd : isDefinition c with
    | none => rw [hd] at h; exact buildLeader_kind cs l l' h hl
    | some ab =>
      obtain ⟨a, b⟩ := ab
      rw [hd] at h
      simp only at h
      cases hds : dsAdd rank l a b with
      | none => rw [hds] at h; cases h
      | some l1 =>
        rw [hds] at h
        simp only [Option.bind_some] at h
        have hab := isDefinition_leaf hd
        exact buildLeader_kind cs l1 l' h (dsAdd_kind hds hab.1 hab.2 hl)

/-! ## no capture when no symbol of a representative is bound -/

theorem noCapture_of_vals : (t : Term) → ∀ σ : SMap, (∀ kv ∈ σ, ∀ s ∈ kv.2.fv, s ∉ boundVars t) →
    NoCapture σ t = true
  | .node op args p, σ, h => by
    have ihc : ∀ (σ' : SMap), (∀ kv ∈ σ', kv ∈ σ) → (args.map (NoCapture σ')).all id = true := by
      intro σ' hsub
      simp only [List.all_eq_true, List.mem_map, id]
      rintro _ ⟨a, ha, rfl⟩
      exact noCapture_of_vals a σ' (fun kv hkv s hs hb => h kv (hsub kv hkv) s hs (boundVars_child ha hb))
    by_cases hq : op.isQuantifier = true
    · cases p with
      | qvars vs =>
        rw [NoCapture_q σ args vs hq, Bool.and_eq_true]
        refine ⟨?_, ihc _ (fun kv hkv => (List.mem_filter.mp hkv).1)⟩
        simp only [List.all_eq_true, Bool.or_eq_true]
        intro kv hkv
        right
        intro z hz
        have := h kv (List.mem_filter.mp hkv).1 z hz
        cases hc : vs.contains z with
        | false => rfl
        | true => exact absurd (boundVars_qvars (by simpa using hc)) this
      | _ =>
        rw [NoCapture.eq_def]
        simp only [hq]
        exact ihc σ (fun _ h => h)
    · have hq' : op.isQuantifier = false := by simpa using hq
      rw [NoCapture_nq σ args p hq']
      exact ihc σ (fun _ h => h)

/-! ## the main theorems -/

/-- the symbol of a symbol node -/
def symOf : Term → Sym
  | .node _ _ (.sym s) => s
  | _ => default

/-- what the run of `propagate` looks like on a well-formed formula -/
theorem propagate_run (rank : Term → Int) (t : Term) (hwf : t.wf = true) (hty : t.typeOf = some .bool) :
    ∃ l, buildLeader rank (conjPartition t) [] = some l ∧ LTy l ∧ LKind l ∧
      (∀ I : Interp, I.WF → truth I t = true → LInv I l) := by
  have hwb : WB t := ⟨hwf, hty⟩
  have hleaves := conjLeaves_spec t hwb
  have hcs : ∀ c ∈ conjPartition t, WB c := fun c hc => (hleaves.1 c ((mem_dedup c _).mp hc)).1
  obtain ⟨l, hb⟩ := buildLeader_total (rank := rank) (conjPartition t) [] hcs (fun kv hkv => by cases hkv)
  obtain ⟨hlty, hlinv⟩ := buildLeader_inv _ [] l hb hcs (fun kv hkv => by cases hkv)
  refine ⟨l, hb, hlty, buildLeader_kind _ [] l hb (fun kv hkv => by cases hkv), fun I hI ht => ?_⟩
  apply hlinv I _ (fun kv hkv => by cases hkv)
  intro c hc
  have := hleaves.2 I hI
  rw [ht, List.all_eq_true] at this
  exact this c ((mem_dedup c _).mp hc)

/-- the substitution of the non-conflict branch as a symbol-keyed map of C05 -/
theorem moved_smap {l : Leader} (hlty : LTy l) (hk : LKind l)
    (hnc : (l.filter (fun kv => kv.1 != kv.2)).any (fun kv => isConstant kv.1 && isConstant kv.2) = false) :
    (l.filter (fun kv => kv.1 != kv.2)) =
      SMap.toTMap ((l.filter (fun kv => kv.1 != kv.2)).map (fun kv => (symOf kv.1, kv.2))) ∧
    SMapOK ((l.filter (fun kv => kv.1 != kv.2)).map (fun kv => (symOf kv.1, kv.2))) := by
  have key : ∀ kv ∈ l.filter (fun kv => kv.1 != kv.2), ∃ s, kv.1 = Term.sym s ∧ s.params = [] ∧ symOf kv.1 = s := by
    intro kv hkv
    have hm := (List.mem_filter.mp hkv).1
    obtain ⟨τ, _, hw1, _, _, _⟩ := hlty kv hm
    obtain ⟨hl1, _, hcc⟩ := hk kv hm
    have hnc1 : isConstant kv.1 = false := by
      cases hc : isConstant kv.1 with
      | false => rfl
      | true =>
        have := List.any_eq_false.mp hnc kv hkv
        simp [hc, hcc hc] at this
    rcases hl1 with hs | hc
    · obtain ⟨s, e, hp⟩ := sym_form hw1 hs
      exact ⟨s, e, hp, by rw [e]; rfl⟩
    · rw [hnc1] at hc; cases hc
  constructor
  · unfold SMap.toTMap
    rw [List.map_map]
    conv => lhs; rw [← List.map_id (l.filter (fun kv => kv.1 != kv.2))]
    apply List.map_congr_left
    intro kv hkv
    obtain ⟨s, e, _, e2⟩ := key kv hkv
    simp only [Function.comp, id, e2]
    rw [← e]
  · intro p hp
    obtain ⟨kv, hkv, rfl⟩ := List.mem_map.mp hp
    obtain ⟨s, e, hpar, e2⟩ := key kv hkv
    obtain ⟨τ, _, _, hw2, ht1, ht2⟩ := hlty kv (List.mem_filter.mp hkv).1
    simp only [e2]
    refine ⟨hpar, hw2, ?_⟩
    rw [e, typeOf_sym hpar] at ht1
    rw [ht2, ← ht1]

theorem propagate_unfold (rank : Term → Int) (t : Term) {l : Leader}
    (hb : buildLeader rank (conjPartition t) [] = some l) :
    propagate rank t =
      if (l.filter (fun kv => kv.1 != kv.2)).any (fun kv => isConstant kv.1 && isConstant kv.2) then some Term.ff
      else some (mkAnd [substG false noInterp (l.filter (fun kv => kv.1 != kv.2)) t,
                        mkAnd ((l.filter (fun kv => kv.1 != kv.2)).map (fun kv => Term.mkEq kv.1 kv.2))]) := by
  unfold propagate
  rw [hb]
  simp only [Option.bind_eq_bind, Option.bind_some, Option.pure_def]

/-- **`propagate_total`**: on a well-formed formula `propagate_toplevel` returns (the ranking never fails) -/
theorem propagate_total_main (rank : Term → Int) (t : Term) (hwf : t.wf = true) (hty : t.typeOf = some .bool) :
    ∃ r, propagate rank t = some r := by
  obtain ⟨l, hb, _, _, _⟩ := propagate_run rank t hwf hty
  rw [propagate_unfold rank t hb]
  split <;> exact ⟨_, rfl⟩

/-- well-formedness of the pieces of the non-conflict result -/
theorem propagate_pieces {t : Term} (hwf : t.wf = true) (hty : t.typeOf = some .bool) (hn : normal t = true)
    {l : Leader} (hlty : LTy l) :
    WB (substG false noInterp (l.filter (fun kv => kv.1 != kv.2)) t) ∧
    ∀ x ∈ (l.filter (fun kv => kv.1 != kv.2)).map (fun kv => Term.mkEq kv.1 kv.2), WB x := by
  have hwm : WfMap (l.filter (fun kv => kv.1 != kv.2)) := by
    intro kv hkv
    obtain ⟨τ, _, _, hw2, ht1, ht2⟩ := hlty kv (List.mem_filter.mp hkv).1
    exact ⟨hw2, by rw [ht1, ht2]⟩
  refine ⟨⟨substG_wf false noInterp_typed noInterp_wf t _ hwm hwf hn, ?_⟩, ?_⟩
  · rw [(substG_type false noInterp_typed t _ hwm.tyMap (Term.wf_wt _ hwf) hn).2]; exact hty
  · intro x hx
    obtain ⟨kv, hkv, rfl⟩ := List.mem_map.mp hx
    obtain ⟨τ, hτ, hw1, hw2, ht1, ht2⟩ := hlty kv (List.mem_filter.mp hkv).1
    exact wb_mkEq hτ hw1 hw2 ht1 ht2

/-- **`propagate_wf`**: the result is a well-formed formula -/
theorem propagate_wf_main (rank : Term → Int) (t r : Term) (hwf : t.wf = true) (hty : t.typeOf = some .bool)
    (hn : normal t = true) (h : propagate rank t = some r) : r.wf = true ∧ r.typeOf = some .bool := by
  obtain ⟨l, hb, hlty, _, _⟩ := propagate_run rank t hwf hty
  rw [propagate_unfold rank t hb] at h
  split at h
  · cases h; exact wb_ff
  · cases h
    obtain ⟨h1, h2⟩ := propagate_pieces hwf hty hn hlty
    exact wb_mkAnd (wb_pair h1 (wb_mkAnd h2))

/-- **`propagate_equiv`** (`do_simplify=False`): when no symbol of a representative is bound in the
formula, the result has the value of the input -/
theorem propagate_equiv_main (rank : Term → Int) (t r : Term) (hwf : t.wf = true) (hty : t.typeOf = some .bool)
    (hn : normal t = true) (hck : ConstKeys t = true) (hsafe : repsNotBound rank t = true)
    (h : propagate rank t = some r) (I : Interp) (hI : I.WF) : eval I r = eval I t := by
  have hwb : WB t := ⟨hwf, hty⟩
  obtain ⟨l, hb, hlty, hkind, key⟩ := propagate_run rank t hwf hty
  rw [propagate_unfold rank t hb] at h
  have hmoved : ∀ kv ∈ l.filter (fun kv => kv.1 != kv.2), kv ∈ l ∧ kv.1 ≠ kv.2 := by
    intro kv hkv
    have := List.mem_filter.mp hkv
    exact ⟨this.1, by simpa using this.2⟩
  split at h
  · -- two different constants in one class
    next hconf =>
    cases h
    obtain ⟨kv, hkv, hk⟩ := List.any_eq_true.mp hconf
    simp only [Bool.and_eq_true] at hk
    obtain ⟨hm, hne⟩ := hmoved kv hkv
    obtain ⟨τ, _, hw1, hw2, _, _⟩ := hlty kv hm
    rw [eval_ff, hwb.isB hI]
    congr 1
    cases ht : truth I t with
    | false => rfl
    | true => exact absurd (const_inj hw1 hw2 hk.1 hk.2 I (key I hI ht kv hm)) hne
  · next hnconf =>
    cases h
    have hnc : (l.filter (fun kv => kv.1 != kv.2)).any (fun kv => isConstant kv.1 && isConstant kv.2) = false := by
      simpa using hnconf
    obtain ⟨hsub, hweqs⟩ := propagate_pieces hwf hty hn hlty
    obtain ⟨emv, hσ⟩ := moved_smap hlty hkind hnc
    -- no capture
    have hcap : NoCapture ((l.filter (fun kv => kv.1 != kv.2)).map (fun kv => (symOf kv.1, kv.2))) t = true := by
      apply noCapture_of_vals
      intro p hp s hs hbv
      obtain ⟨kv, hkv, rfl⟩ := List.mem_map.mp hp
      unfold repsNotBound movedOf at hsafe
      rw [hb] at hsafe
      simp only [Option.map_some, List.all_eq_true, Bool.not_eq_eq_eq_not, Bool.not_true] at hsafe
      have := hsafe kv hkv s hs
      simp [hbv] at this
    have hsem := subst_sem false t _ I hI hwf hn hck hσ hcap (fun e => by cases e)
    rw [← emv] at hsem
    rw [eval_mkAnd hI (wb_pair hsub (wb_mkAnd hweqs)), hwb.isB hI]
    congr 1
    simp only [List.all_cons, List.all_nil, Bool.and_true, truth_of_eval (eval_mkAnd hI hweqs), List.all_map]
    by_cases hall : ∀ kv ∈ l.filter (fun kv => kv.1 != kv.2), eval I kv.1 = eval I kv.2
    · have h1 : (l.filter (fun kv => kv.1 != kv.2)).all (truth I ∘ fun kv => Term.mkEq kv.1 kv.2) = true := by
        rw [List.all_eq_true]
        intro kv hkv
        simp only [Function.comp, Term.mkEq, truth_equals, decide_eq_true_eq]
        exact hall kv hkv
      rw [h1, Bool.and_true]
      -- under these equalities the updated interpretation is `I` itself
      have hsymeq : ∀ x, (updSyms I ((l.filter (fun kv => kv.1 != kv.2)).map (fun kv => (symOf kv.1, kv.2)))).sym x =
          I.sym x := by
        intro x
        show (match SMap.get ((l.filter (fun kv => kv.1 != kv.2)).map (fun kv => (symOf kv.1, kv.2))) x with
            | some v => eval I v | none => I.sym x) = I.sym x
        cases hg : SMap.get ((l.filter (fun kv => kv.1 != kv.2)).map (fun kv => (symOf kv.1, kv.2))) x with
        | none => rfl
        | some v =>
          simp only
          obtain ⟨kv, hkv, e⟩ := List.mem_map.mp (get_mem hg)
          simp only [Prod.mk.injEq] at e
          obtain ⟨e1, e2⟩ := e
          subst e2
          obtain ⟨hlm, _⟩ := hmoved kv hkv
          obtain ⟨τ, _, hw1, _, _, _⟩ := hlty kv hlm
          obtain ⟨hl1, _, hcc⟩ := hkind kv hlm
          have hnc1 : isConstant kv.1 = false := by
            cases hc : isConstant kv.1 with
            | false => rfl
            | true =>
              have := List.any_eq_false.mp hnc kv hkv
              simp [hc, hcc hc] at this
          have hk1 : kv.1 = Term.sym x := by
            rcases hl1 with hs | hc
            · obtain ⟨s, e, _⟩ := sym_form hw1 hs
              rw [e] at e1 ⊢
              have : symOf (Term.sym s) = s := rfl
              rw [this] at e1; rw [e1]
            · rw [hnc1] at hc; cases hc
          rw [← hall kv hkv, hk1]
          exact eval_symbol I x []
      have hupd : updSyms I ((l.filter (fun kv => kv.1 != kv.2)).map (fun kv => (symOf kv.1, kv.2))) = I := by
        have hf := funext hsymeq
        unfold updSyms at hf ⊢
        simp only at hf
        rw [hf]
      rw [hupd] at hsem
      simp only [truth, hsem]
    · have h1 : (l.filter (fun kv => kv.1 != kv.2)).all (truth I ∘ fun kv => Term.mkEq kv.1 kv.2) = false := by
        rw [List.all_eq_false]
        have hex : ∃ kv, kv ∈ l.filter (fun kv => kv.1 != kv.2) ∧ ¬ eval I kv.1 = eval I kv.2 :=
          Classical.byContradiction (fun hno => hall (fun kv hkv =>
            Classical.byContradiction (fun hne => hno ⟨kv, hkv, hne⟩)))
        obtain ⟨kv, hkv, hne⟩ := hex
        exact ⟨kv, hkv, by simp only [Function.comp, Term.mkEq, truth_equals, decide_eq_true_eq]; exact hne⟩
      rw [h1, Bool.and_false]
      cases ht : truth I t with
      | false => rfl
      | true => exact absurd (fun kv hkv => key I hI ht kv (hmoved kv hkv).1) hall

end

end PySMT.Rewritings
