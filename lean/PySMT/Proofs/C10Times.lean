import PySMT.Proofs.C10Subst
import PySMT.Proofs.C10Arith
/-!
# C10 — `TimesDistributor`: `times_equiv`
-/
namespace PySMT.Rewritings

/-- well-formed of sort `τ` -/
def WT (τ : Ty) (t : Term) : Prop := t.wf = true ∧ t.typeOf = some τ

def NumTy (τ : Ty) : Prop := τ = .int ∨ τ = .real

theorem allAre_map_typeOf {args : List Term} {τ : Ty} :
    allAre (args.map Term.typeOf) τ = true ↔ ∀ a ∈ args, a.typeOf = some τ := by
  rw [allAre_iff]
  constructor
  · intro h a ha; exact h _ (List.mem_map.mpr ⟨a, ha, rfl⟩)
  · rintro h _ hx
    obtain ⟨a, ha, rfl⟩ := List.mem_map.mp hx
    exact h a ha

theorem isArith_of {op : Op} (hop : op = .plus ∨ op = .times ∨ op = .minus) : op.isArith = true := by
  rcases hop with rfl | rfl | rfl <;> rfl

/-- the arguments of an arithmetic node have the sort of the node, which is Int or Real -/
theorem wt_arith {op : Op} (hop : op = .plus ∨ op = .times ∨ op = .minus) {args : List Term} {p : Payload}
    {τ : Ty} (h : WT τ (.node op args p)) : NumTy τ ∧ ∀ a ∈ args, WT τ a := by
  obtain ⟨hwf, hty⟩ := h
  have hch := (Term.wf_node.mp hwf).1
  rw [typeOf_node, typeOfNode_arith op (isArith_of hop)] at hty
  split at hty
  · next h1 =>
    cases hty
    exact ⟨.inr rfl, fun a ha => ⟨hch a ha, allAre_map_typeOf.mp h1 a ha⟩⟩
  · split at hty
    · next h2 =>
      cases hty
      exact ⟨.inl rfl, fun a ha => ⟨hch a ha, allAre_map_typeOf.mp h2 a ha⟩⟩
    · cases hty

theorem wt_arith_mk {op : Op} (hop : op = .plus ∨ op = .times ∨ op = .minus) {args : List Term} {p : Payload}
    {τ : Ty} (hτ : NumTy τ) (hs : op.shapeOK p args.length = true) (hne : args ≠ [])
    (h : ∀ a ∈ args, WT τ a) : WT τ (.node op args p) := by
  have hty : typeOfNode op p (args.map Term.typeOf) = some τ := by
    rw [typeOfNode_arith op (isArith_of hop)]
    rcases hτ with rfl | rfl
    · have h1 : allAre (args.map Term.typeOf) .real = false := by
        cases hr : allAre (args.map Term.typeOf) .real with
        | false => rfl
        | true =>
          obtain ⟨a, ha⟩ := List.exists_mem_of_ne_nil args hne
          have := allAre_map_typeOf.mp hr a ha
          rw [(h a ha).2] at this
          cases this
      have h2 : allAre (args.map Term.typeOf) .int = true := allAre_map_typeOf.mpr (fun a ha => (h a ha).2)
      simp [h1, h2]
    · have h1 : allAre (args.map Term.typeOf) .real = true := allAre_map_typeOf.mpr (fun a ha => (h a ha).2)
      simp [h1]
  exact ⟨Term.wf_node.mpr ⟨fun a ha => (h a ha).1, hs, by rw [hty]; rfl⟩, by rw [typeOf_node, hty]⟩

/-- the semiring `K` is the value domain of the sort `τ` -/
structure KFor {R : Type} (K : NumK R) (τ : Ty) : Prop where
  num : NumTy τ
  val : ∀ (t : Term) (I : Interp), WT τ t → I.WF → eval I t = K.inj (K.out (eval I t))
  m1_wt : WT τ (if τ == .real then Term.real (-1) else Term.int (-1))
  m1_eval : ∀ I : Interp, eval I (if τ == .real then Term.real (-1) else Term.int (-1)) = K.inj K.m1

theorem wt_int (n : Int) : WT .int (Term.int n) :=
  ⟨Term.wf_node.mpr ⟨by simp, rfl, rfl⟩, by rw [Term.int, typeOf_node]; rfl⟩
theorem wt_real (q : Rat) : WT .real (Term.real q) :=
  ⟨Term.wf_node.mpr ⟨by simp, rfl, rfl⟩, by rw [Term.real, typeOf_node]; rfl⟩
theorem eval_int (I : Interp) (n : Int) : eval I (Term.int n) = .i n := by
  rw [Term.int, eval_plain I _ _ _ (by decide) (by decide) rfl]; rfl
theorem eval_real (I : Interp) (q : Rat) : eval I (Term.real q) = .r q := by
  rw [Term.real, eval_plain I _ _ _ (by decide) (by decide) rfl]; rfl

theorem kfor_int : KFor intK .int where
  num := .inl rfl
  val := fun t I h hI => by
    obtain ⟨n, hn⟩ := eval_int_of_wf h.1 h.2 hI
    rw [hn]; rfl
  m1_wt := wt_int (-1)
  m1_eval := fun I => eval_int I (-1)

theorem kfor_real : KFor ratK .real where
  num := .inr rfl
  val := fun t I h hI => by
    obtain ⟨q, hq⟩ := eval_real_of_wf h.1 h.2 hI
    rw [hq]; rfl
  m1_wt := wt_real (-1)
  m1_eval := fun I => eval_real I (-1)

section
variable {R : Type} {K : NumK R} {τ : Ty} (hk : KFor K τ) {I : Interp} (hI : I.WF)

/-- the number a term of sort `τ` denotes -/
def rv (K : NumK R) (I : Interp) (t : Term) : R := K.out (eval I t)

include hk hI

theorem map_eval {as : List Term} (h : ∀ a ∈ as, WT τ a) : as.map (eval I) = (as.map (rv K I)).map K.inj := by
  rw [List.map_map]
  exact List.map_congr_left (fun a ha => hk.val a I (h a ha) hI)

theorem eval_plus {as : List Term} (p : Payload) (h : ∀ a ∈ as, WT τ a) (hne : as ≠ []) :
    eval I (.node .plus as p) = K.inj (K.lsum (as.map (rv K I))) := by
  rw [eval_plain I .plus as p (by decide) (by decide) rfl, map_eval hk hI h]
  exact K.sem_sum _ (by simpa using hne)

theorem eval_times {as : List Term} (p : Payload) (h : ∀ a ∈ as, WT τ a) (hne : as ≠ []) :
    eval I (.node .times as p) = K.inj (K.lprod (as.map (rv K I))) := by
  rw [eval_plain I .times as p (by decide) (by decide) rfl, map_eval hk hI h]
  exact K.sem_prod _ (by simpa using hne)

theorem rv_eq {t : Term} {r : R} (h : eval I t = K.inj r) : rv K I t = r := by
  rw [rv, h, K.out_inj]

theorem eval_rv {t : Term} (h : WT τ t) : eval I t = K.inj (rv K I t) := hk.val t I h hI

omit hI in
theorem wt_mkPlus {as : List Term} (h : ∀ a ∈ as, WT τ a) (hne : as ≠ []) : WT τ (mkPlus as) := by
  match as, hne, h with
  | [a], _, h => exact h a (by simp)
  | a :: b :: rest, _, h => exact wt_arith_mk (.inl rfl) hk.num (by simp [Op.shapeOK]) (by simp) h

omit hI in
theorem wt_mkTimes {as : List Term} (h : ∀ a ∈ as, WT τ a) (hne : as ≠ []) : WT τ (mkTimes as) := by
  match as, hne, h with
  | [a], _, h => exact h a (by simp)
  | a :: b :: rest, _, h => exact wt_arith_mk (.inr (.inl rfl)) hk.num (by simp [Op.shapeOK]) (by simp) h

theorem eval_mkPlus {as : List Term} (h : ∀ a ∈ as, WT τ a) (hne : as ≠ []) :
    eval I (mkPlus as) = K.inj (K.lsum (as.map (rv K I))) := by
  match as, hne, h with
  | [a], _, h =>
    rw [mkPlus, eval_rv hk hI (h a (by simp))]
    simp [K.add_zero]
  | a :: b :: rest, _, h => exact eval_plus hk hI .none h (by simp)

theorem eval_mkTimes {as : List Term} (h : ∀ a ∈ as, WT τ a) (hne : as ≠ []) :
    eval I (mkTimes as) = K.inj (K.lprod (as.map (rv K I))) := by
  match as, hne, h with
  | [a], _, h =>
    rw [mkTimes, eval_rv hk hI (h a (by simp))]
    simp [K.mul_one]
  | a :: b :: rest, _, h => exact eval_times hk hI .none h (by simp)

omit hI in
theorem summands_wt {a : Term} (h : WT τ a) : (∀ x ∈ summands a, WT τ x) ∧ summands a ≠ [] := by
  match a, h with
  | .node op args p, h =>
    by_cases hop : op = .plus
    · subst hop
      have hch := (wt_arith (.inl rfl) h).2
      have hlen : 2 ≤ args.length := by
        have := (Term.wf_node.mp h.1).2.1
        simpa [Op.shapeOK] using this
      have hne : args ≠ [] := by intro e; subst e; simp at hlen
      simp only [summands]
      exact ⟨hch, hne⟩
    · have : summands (.node op args p) = [.node op args p] := by
        unfold summands; split <;> simp_all
      rw [this]
      exact ⟨fun x hx => by simp at hx; subst hx; exact h, by simp⟩

theorem summands_val {a : Term} (h : WT τ a) : K.lsum ((summands a).map (rv K I)) = rv K I a := by
  match a, h with
  | .node op args p, h =>
    by_cases hop : op = .plus
    · subst hop
      have sw := summands_wt hk h
      simp only [summands] at sw ⊢
      exact (rv_eq hk hI (eval_plus hk hI p sw.1 sw.2)).symm
    · have : summands (.node op args p) = [.node op args p] := by
        unfold summands; split <;> simp_all
      rw [this]
      simp [K.add_zero]

omit hI in
theorem walkPlus_wt {as : List Term} (h : ∀ a ∈ as, WT τ a) (hne : as ≠ []) :
    (∀ x ∈ as.flatMap summands, WT τ x) ∧ as.flatMap summands ≠ [] ∧ WT τ (walkPlus as) := by
  have hall : ∀ x ∈ as.flatMap summands, WT τ x := by
    intro x hx
    obtain ⟨a, ha, hxa⟩ := List.mem_flatMap.mp hx
    exact (summands_wt hk (h a ha)).1 x hxa
  have hne' : as.flatMap summands ≠ [] := by
    obtain ⟨a, ha⟩ := List.exists_mem_of_ne_nil as hne
    obtain ⟨x, hx⟩ := List.exists_mem_of_ne_nil _ (summands_wt hk (h a ha)).2
    exact List.ne_nil_of_mem (List.mem_flatMap.mpr ⟨a, ha, hx⟩)
  exact ⟨hall, hne', wt_mkPlus hk hall hne'⟩

theorem walkPlus_val {as : List Term} (h : ∀ a ∈ as, WT τ a) (hne : as ≠ []) :
    eval I (walkPlus as) = K.inj (K.lsum (as.map (rv K I))) := by
  obtain ⟨hall, hne', _⟩ := walkPlus_wt hk h hne
  rw [walkPlus, eval_mkPlus hk hI hall hne']
  congr 1
  rw [List.flatMap_def, List.map_flatten, K.lsum_flatten, List.map_map, List.map_map]
  congr 1
  exact List.map_congr_left (fun a ha => summands_val hk hI (h a ha))

omit hI in
theorem walkTimes_parts {as : List Term} (h : ∀ a ∈ as, WT τ a) (hlen : 2 ≤ as.length) :
    (∀ q ∈ cartesian (as.map summands), (∀ x ∈ q, WT τ x) ∧ q ≠ []) ∧
    (∀ x ∈ (cartesian (as.map summands)).map mkTimes, WT τ x) ∧
    (cartesian (as.map summands)).map mkTimes ≠ [] := by
  have hLs : ∀ L ∈ as.map summands, L ≠ [] := by
    intro L hL
    obtain ⟨a, ha, rfl⟩ := List.mem_map.mp hL
    exact (summands_wt hk (h a ha)).2
  have hq : ∀ q ∈ cartesian (as.map summands), (∀ x ∈ q, WT τ x) ∧ q ≠ [] := by
    intro q hq
    constructor
    · intro x hx
      obtain ⟨L, hL, hxL⟩ := cartesian_mem _ q hq x hx
      obtain ⟨a, ha, rfl⟩ := List.mem_map.mp hL
      exact (summands_wt hk (h a ha)).1 x hxL
    · intro e
      have := cartesian_length _ q hq
      rw [e, List.length_map] at this
      simp at this
      omega
  refine ⟨hq, ?_, by simpa using cartesian_ne_nil _ hLs⟩
  intro x hx
  obtain ⟨q, hq', rfl⟩ := List.mem_map.mp hx
  exact wt_mkTimes hk (hq q hq').1 (hq q hq').2

omit hI in
theorem walkTimes_wt {as : List Term} (h : ∀ a ∈ as, WT τ a) (hlen : 2 ≤ as.length) : WT τ (walkTimes as) := by
  have hne : as ≠ [] := by intro e; subst e; simp at hlen
  unfold walkTimes
  split
  · obtain ⟨_, hall, hne'⟩ := walkTimes_parts hk h hlen
    exact wt_mkPlus hk hall hne'
  · exact wt_mkTimes hk h hne

theorem walkTimes_val {as : List Term} (h : ∀ a ∈ as, WT τ a) (hlen : 2 ≤ as.length) :
    eval I (walkTimes as) = K.inj (K.lprod (as.map (rv K I))) := by
  have hne : as ≠ [] := by intro e; subst e; simp at hlen
  unfold walkTimes
  split
  · obtain ⟨hq, hall, hne'⟩ := walkTimes_parts hk h hlen
    rw [eval_mkPlus hk hI hall hne']
    congr 1
    rw [List.map_map]
    have e1 : (cartesian (as.map summands)).map (rv K I ∘ mkTimes) =
        ((cartesian (as.map summands)).map (List.map (rv K I))).map K.lprod := by
      rw [List.map_map]
      apply List.map_congr_left
      intro q hq'
      simp only [Function.comp]
      exact rv_eq hk hI (eval_mkTimes hk hI (hq q hq').1 (hq q hq').2)
    rw [e1, ← cartesian_map, K.lsum_cartesian, List.map_map, List.map_map]
    congr 1
    exact List.map_congr_left (fun a ha => summands_val hk hI (h a ha))
  · exact eval_mkTimes hk hI h hne

omit hI in
theorem walkMinus_parts {a b : Term} (ha : WT τ a) (hb : WT τ b) :
    (∀ r ∈ summands b, ∀ x ∈ [if τ == .real then Term.real (-1) else Term.int (-1), r], WT τ x) ∧
    (∀ x ∈ summands a ++ (summands b).map
      (fun r => mkTimes [if τ == .real then Term.real (-1) else Term.int (-1), r]), WT τ x) ∧
    summands a ++ (summands b).map
      (fun r => mkTimes [if τ == .real then Term.real (-1) else Term.int (-1), r]) ≠ [] := by
  have sa := summands_wt hk ha
  have sb := summands_wt hk hb
  have hw : ∀ r ∈ summands b, ∀ x ∈ [if τ == .real then Term.real (-1) else Term.int (-1), r], WT τ x := by
    intro r hr x hx
    simp only [List.mem_cons, List.not_mem_nil, or_false] at hx
    rcases hx with rfl | rfl
    · exact hk.m1_wt
    · exact sb.1 _ hr
  refine ⟨hw, ?_, by simp [sa.2]⟩
  intro x hx
  rcases List.mem_append.mp hx with hx | hx
  · exact sa.1 x hx
  · obtain ⟨r, hr, rfl⟩ := List.mem_map.mp hx
    exact wt_mkTimes hk (hw r hr) (by simp)

omit hI in
theorem walkMinus_wt {a b : Term} (ha : WT τ a) (hb : WT τ b) : WT τ (walkMinus (τ == .real) a b) := by
  obtain ⟨_, hall, hne⟩ := walkMinus_parts hk ha hb
  exact wt_mkPlus hk hall hne

theorem walkMinus_val {a b : Term} (ha : WT τ a) (hb : WT τ b) :
    eval I (walkMinus (τ == .real) a b) = K.inj (K.add (rv K I a) (K.mul K.m1 (rv K I b))) := by
  obtain ⟨hw, hall, hne⟩ := walkMinus_parts hk ha hb
  have hm : ∀ r ∈ summands b,
      rv K I (mkTimes [if τ == .real then Term.real (-1) else Term.int (-1), r]) = K.mul K.m1 (rv K I r) := by
    intro r hr
    refine rv_eq hk hI ?_
    rw [eval_mkTimes hk hI (hw r hr) (by simp)]
    simp only [List.map_cons, List.map_nil, NumK.lprod_cons, NumK.lprod_nil, K.mul_one]
    rw [rv_eq hk hI (hk.m1_eval I)]
  unfold walkMinus
  rw [eval_mkPlus hk hI hall hne]
  congr 1
  rw [List.map_append, K.lsum_append, summands_val hk hI ha, List.map_map]
  congr 1
  have : (summands b).map (rv K I ∘ fun r => mkTimes [if τ == .real then Term.real (-1) else Term.int (-1), r]) =
      ((summands b).map (rv K I)).map (K.mul K.m1) := by
    rw [List.map_map]
    exact List.map_congr_left (fun r hr => hm r hr)
  rw [this, K.lsum_map_mul_left, summands_val hk hI hb]

theorem eval_minus {a b : Term} (p : Payload) (ha : WT τ a) (hb : WT τ b) :
    eval I (.node .minus [a, b] p) = K.inj (K.add (rv K I a) (K.mul K.m1 (rv K I b))) := by
  rw [eval_plain I .minus [a, b] p (by decide) (by decide) rfl]
  simp only [List.map_cons, List.map_nil]
  rw [eval_rv hk hI ha, eval_rv hk hI hb]
  exact K.sem_sub _ _

end


theorem typeOf_some_of_wf {t : Term} (h : t.wf = true) : ∃ τ, t.typeOf = some τ := by
  match t, h with
  | .node op args p, h =>
    have := (Term.wf_node.mp h).2.2
    rw [typeOf_node]
    exact Option.isSome_iff_exists.mp this

theorem rebuild_forall (b : Term) (vs : List Sym) : rebuild .forall_ [b] (.qvars vs) = mkForall vs b := rfl
theorem rebuild_exists (b : Term) (vs : List Sym) : rebuild .exists_ [b] (.qvars vs) = mkExists vs b := rfl

/-- the three arithmetic rules, for a given value domain -/
theorem arith_spec {R : Type} {K : NumK R} {τ : Ty} (hk : KFor K τ) {op : Op} {args : List Term} {p : Payload}
    (hop : op = .plus ∨ op = .times ∨ op = .minus) (hw : WT τ (.node op args p))
    (ih : ∀ a ∈ args, ((timesDistr a).wf = true ∧ (timesDistr a).typeOf = a.typeOf) ∧
        ∀ I : Interp, I.WF → eval I (timesDistr a) = eval I a) :
    WT τ (timesDistr (.node op args p)) ∧
    ∀ I : Interp, I.WF → eval I (timesDistr (.node op args p)) = eval I (.node op args p) := by
  have hch := (wt_arith hop hw).2
  have hch' : ∀ x ∈ args.map timesDistr, WT τ x := by
    intro x hx
    obtain ⟨a, ha, rfl⟩ := List.mem_map.mp hx
    exact ⟨(ih a ha).1.1, by rw [(ih a ha).1.2]; exact (hch a ha).2⟩
  have hrv : ∀ I : Interp, I.WF → (args.map timesDistr).map (rv K I) = args.map (rv K I) := by
    intro I hI
    rw [List.map_map]
    exact List.map_congr_left (fun a ha => by simp only [Function.comp, rv, (ih a ha).2 I hI])
  have hshape := (Term.wf_node.mp hw.1).2.1
  rcases hop with rfl | rfl | rfl
  · -- plus
    have hlen : 2 ≤ args.length := by simpa [Op.shapeOK] using hshape
    have hne : args ≠ [] := by intro e; subst e; simp at hlen
    have hne' : args.map timesDistr ≠ [] := by simpa using hne
    simp only [timesDistr]
    refine ⟨(walkPlus_wt hk hch' hne').2.2, fun I hI => ?_⟩
    rw [walkPlus_val hk hI hch' hne', hrv I hI, eval_plus hk hI p hch hne]
  · -- times
    have hlen : 2 ≤ args.length := by simpa [Op.shapeOK] using hshape
    have hne : args ≠ [] := by intro e; subst e; simp at hlen
    have hlen' : 2 ≤ (args.map timesDistr).length := by simpa using hlen
    simp only [timesDistr]
    refine ⟨walkTimes_wt hk hch' hlen', fun I hI => ?_⟩
    rw [walkTimes_val hk hI hch' hlen', hrv I hI, eval_times hk hI p hch hne]
  · -- minus
    have hlen : args.length = 2 := by simpa [Op.shapeOK] using hshape
    match args, hlen with
    | [a, b], _ =>
      have ha := hch a (by simp); have hb := hch b (by simp)
      have ha' := hch' (timesDistr a) (by simp); have hb' := hch' (timesDistr b) (by simp)
      have hreal : ((Term.node .minus [a, b] p).typeOf == some .real) = (τ == .real) := by
        rw [hw.2]
        cases τ <;> rfl
      simp only [timesDistr, hreal]
      refine ⟨walkMinus_wt hk ha' hb', fun I hI => ?_⟩
      rw [walkMinus_val hk hI ha' hb', eval_minus hk hI p ha hb]
      simp only [rv, (ih a (by simp)).2 I hI, (ih b (by simp)).2 I hI]

/-- `TimesDistributor` preserves well-formedness, the sort and the value -/
theorem times_spec : (t : Term) → t.wf = true →
    ((timesDistr t).wf = true ∧ (timesDistr t).typeOf = t.typeOf) ∧
    ∀ I : Interp, I.WF → eval I (timesDistr t) = eval I t
  | .node op args p => fun hwf => by
    have hchwf := (Term.wf_node.mp hwf).1
    have ih : ∀ a ∈ args, ((timesDistr a).wf = true ∧ (timesDistr a).typeOf = a.typeOf) ∧
        ∀ I : Interp, I.WF → eval I (timesDistr a) = eval I a :=
      fun a ha => times_spec a (hchwf a ha)
    obtain ⟨τ, hτ⟩ := typeOf_some_of_wf hwf
    have hs : SameSorts timesDistr args := fun a ha => (ih a ha).1
    by_cases hop : op = .plus ∨ op = .times ∨ op = .minus
    · have hw : WT τ (.node op args p) := ⟨hwf, hτ⟩
      rcases (wt_arith hop hw).1 with rfl | rfl
      · have := arith_spec kfor_int hop hw ih
        exact ⟨⟨this.1.1, by rw [this.1.2, hτ]⟩, this.2⟩
      · have := arith_spec kfor_real hop hw ih
        exact ⟨⟨this.1.1, by rw [this.1.2, hτ]⟩, this.2⟩
    · have hgen : timesDistr (.node op args p) = rebuild op (args.map timesDistr) p := by
        unfold timesDistr
        split <;> simp_all
      rw [hgen]
      by_cases hq : op.isQuantifier = true
      · cases op <;> simp [Op.isQuantifier] at hq
        case forall_ =>
          obtain ⟨b, vs, rfl, rfl⟩ := wf_quant_args (.inl rfl) hwf
          have hty : (Term.node .forall_ [b] (.qvars vs)).typeOf = some .bool := by
            rw [typeOf_node]
            have := typeOfNode_forall (Term.wt_typeOf (Term.wf_wt _ hwf))
            rw [this]; rfl
          have hb : WB b := (wb_forall b vs).mp ⟨hwf, hty⟩
          have hb1 := ih b (by simp)
          have hb' : WB (timesDistr b) := ⟨hb1.1.1, by rw [hb1.1.2]; exact hb.2⟩
          simp only [List.map_cons, List.map_nil, rebuild_forall]
          refine ⟨⟨(wb_mkForall hb').1, by rw [(wb_mkForall hb').2, hty]⟩, fun I hI => ?_⟩
          rw [eval_mkForall hI vs hb', eval_forall']
          congr 1
          exact quant_congr_wf _ _ _ (fun J hJ => by simp only [truth]; rw [hb1.2 J hJ]) vs I hI
        case exists_ =>
          obtain ⟨b, vs, rfl, rfl⟩ := wf_quant_args (.inr rfl) hwf
          have hty : (Term.node .exists_ [b] (.qvars vs)).typeOf = some .bool := by
            rw [typeOf_node]
            have := typeOfNode_exists (Term.wt_typeOf (Term.wf_wt _ hwf))
            rw [this]; rfl
          have hb : WB b := (wb_exists b vs).mp ⟨hwf, hty⟩
          have hb1 := ih b (by simp)
          have hb' : WB (timesDistr b) := ⟨hb1.1.1, by rw [hb1.1.2]; exact hb.2⟩
          simp only [List.map_cons, List.map_nil, rebuild_exists]
          refine ⟨⟨(wb_mkExists hb').1, by rw [(wb_mkExists hb').2, hty]⟩, fun I hI => ?_⟩
          rw [eval_mkExists hI vs hb', eval_exists']
          congr 1
          exact quant_congr_wf _ _ _ (fun J hJ => by simp only [truth]; rw [hb1.2 J hJ]) vs I hI
      · have hq' : op.isQuantifier = false := by simpa using hq
        refine ⟨rebuild_wf hq' hwf hs, fun I hI => ?_⟩
        by_cases hsym : op = .symbol
        · subst hsym
          have hargs := Term.wt_symbol_args (Term.wf_wt _ hwf)
          subst hargs
          rw [List.map_nil, rebuild_plain rfl]
        · exact rebuild_eval hq' hsym hwf hs hI hI rfl rfl rfl (fun a ha => (ih a ha).2 I hI)

/-- **`times_equiv`** -/
theorem times_equiv (t : Term) (hwf : t.wf = true) (I : Interp) (hI : I.WF) :
    eval I (timesDistr t) = eval I t := (times_spec t hwf).2 I hI

end PySMT.Rewritings
