import PySMT.Proofs.C10Basic
import PySMT.Impl.Rewritings.Partition
/-!
# C10 — `conjunctive_partition` / `disjunctive_partition`
-/
namespace PySMT.Rewritings

theorem mem_dedup (x : Term) : ∀ l : List Term, x ∈ dedup l ↔ x ∈ l
  | [] => by simp [dedup]
  | y :: ys => by
    simp only [dedup, List.mem_cons, List.mem_filter, mem_dedup x ys, bne_iff_ne, ne_eq]
    constructor
    · rintro (h | ⟨h, _⟩)
      · exact .inl h
      · exact .inr h
    · rintro (h | h)
      · exact .inl h
      · by_cases hxy : x = y
        · exact .inl hxy
        · exact .inr ⟨h, hxy⟩

theorem all_dedup (f : Term → Bool) (l : List Term) : (dedup l).all f = l.all f := by
  rw [Bool.eq_iff_iff]
  simp only [List.all_eq_true, mem_dedup]

theorem any_dedup (f : Term → Bool) (l : List Term) : (dedup l).any f = l.any f := by
  rw [Bool.eq_iff_iff]
  simp only [List.any_eq_true, mem_dedup]

theorem conjLeaves_atom {op : Op} (h : op ≠ .and) (args : List Term) (p : Payload) :
    conjLeaves (.node op args p) = [.node op args p] := by
  unfold conjLeaves
  split <;> simp_all

theorem disjLeaves_atom {op : Op} (h : op ≠ .or) (args : List Term) (p : Payload) :
    disjLeaves (.node op args p) = [.node op args p] := by
  unfold disjLeaves
  split <;> simp_all

theorem all_flatten_map {α β} (f : β → Bool) (g : α → List β) (l : List α) :
    ((l.map g).flatten).all f = l.all (fun a => (g a).all f) := by
  induction l with
  | nil => rfl
  | cons a l ih => simp [List.all_append, ih]

theorem any_flatten_map {α β} (f : β → Bool) (g : α → List β) (l : List α) :
    ((l.map g).flatten).any f = l.any (fun a => (g a).any f) := by
  induction l with
  | nil => rfl
  | cons a l ih => simp [List.any_append, ih]

theorem all_reverse' {α} (f : α → Bool) (l : List α) : l.reverse.all f = l.all f := by
  rw [Bool.eq_iff_iff]; simp [List.all_eq_true]

theorem any_reverse' {α} (f : α → Bool) (l : List α) : l.reverse.any f = l.any f := by
  rw [Bool.eq_iff_iff]; simp [List.any_eq_true]

/-- the leaves are well-formed Boolean, none is an `and`, and their conjunction is `t` -/
theorem conjLeaves_spec : (t : Term) → WB t →
    (∀ x ∈ conjLeaves t, WB x ∧ isAnd x = false) ∧
      ∀ I : Interp, I.WF → (conjLeaves t).all (truth I) = truth I t
  | .node op args p => fun h => by
    by_cases hop : op = .and
    · subst hop
      have hch := (wb_and _ _).mp h
      have ih : ∀ a ∈ args, (∀ x ∈ conjLeaves a, WB x ∧ isAnd x = false) ∧
          ∀ I : Interp, I.WF → (conjLeaves a).all (truth I) = truth I a :=
        fun a ha => conjLeaves_spec a (hch a ha)
      simp only [conjLeaves]
      constructor
      · intro x hx
        simp only [List.mem_flatten, List.mem_map, List.mem_reverse] at hx
        obtain ⟨_, ⟨a, ha, rfl⟩, hx⟩ := hx
        exact (ih a ha).1 x hx
      · intro I hI
        rw [all_flatten_map, all_reverse', truth_and]
        exact list_all_congr (fun a ha => (ih a ha).2 I hI)
    · rw [conjLeaves_atom hop]
      refine ⟨fun x hx => ?_, fun I _ => by simp⟩
      simp only [List.mem_cons, List.not_mem_nil, or_false] at hx
      subst hx
      refine ⟨h, ?_⟩
      unfold isAnd
      split <;> simp_all

theorem disjLeaves_spec : (t : Term) → WB t →
    (∀ x ∈ disjLeaves t, WB x ∧ isOr x = false) ∧
      ∀ I : Interp, I.WF → (disjLeaves t).any (truth I) = truth I t
  | .node op args p => fun h => by
    by_cases hop : op = .or
    · subst hop
      have hch := (wb_or _ _).mp h
      have ih : ∀ a ∈ args, (∀ x ∈ disjLeaves a, WB x ∧ isOr x = false) ∧
          ∀ I : Interp, I.WF → (disjLeaves a).any (truth I) = truth I a :=
        fun a ha => disjLeaves_spec a (hch a ha)
      simp only [disjLeaves]
      constructor
      · intro x hx
        simp only [List.mem_flatten, List.mem_map, List.mem_reverse] at hx
        obtain ⟨_, ⟨a, ha, rfl⟩, hx⟩ := hx
        exact (ih a ha).1 x hx
      · intro I hI
        rw [any_flatten_map, any_reverse', truth_or]
        exact list_any_congr (fun a ha => (ih a ha).2 I hI)
    · rw [disjLeaves_atom hop]
      refine ⟨fun x hx => ?_, fun I _ => by simp⟩
      simp only [List.mem_cons, List.not_mem_nil, or_false] at hx
      subst hx
      refine ⟨h, ?_⟩
      unfold isOr
      split <;> simp_all

/-- `phi <-> And(conjunctive_partition(phi))` -/
theorem conj_partition_equiv (t : Term) (hwf : t.wf = true) (hty : t.typeOf = some .bool)
    (I : Interp) (hI : I.WF) : eval I (mkAnd (conjPartition t)) = eval I t := by
  have h : WB t := ⟨hwf, hty⟩
  have hs := conjLeaves_spec t h
  have hw : ∀ x ∈ conjPartition t, WB x := fun x hx => (hs.1 x ((mem_dedup x _).mp hx)).1
  rw [eval_mkAnd hI hw, conjPartition, all_dedup, hs.2 I hI, h.isB hI]

/-- `phi <-> Or(disjunctive_partition(phi))` -/
theorem disj_partition_equiv (t : Term) (hwf : t.wf = true) (hty : t.typeOf = some .bool)
    (I : Interp) (hI : I.WF) : eval I (mkOr (disjPartition t)) = eval I t := by
  have h : WB t := ⟨hwf, hty⟩
  have hs := disjLeaves_spec t h
  have hw : ∀ x ∈ disjPartition t, WB x := fun x hx => (hs.1 x ((mem_dedup x _).mp hx)).1
  rw [eval_mkOr hI hw, disjPartition, any_dedup, hs.2 I hI, h.isB hI]

theorem conj_partition_no_and (t : Term) (hwf : t.wf = true) (hty : t.typeOf = some .bool) :
    ∀ x ∈ conjPartition t, isAnd x = false :=
  fun x hx => ((conjLeaves_spec t ⟨hwf, hty⟩).1 x ((mem_dedup x _).mp hx)).2

theorem disj_partition_no_or (t : Term) (hwf : t.wf = true) (hty : t.typeOf = some .bool) :
    ∀ x ∈ disjPartition t, isOr x = false :=
  fun x hx => ((disjLeaves_spec t ⟨hwf, hty⟩).1 x ((mem_dedup x _).mp hx)).2

/-- no element is yielded twice -/
theorem dedup_nodup : ∀ l : List Term, (dedup l).Nodup
  | [] => by simp [dedup]
  | x :: xs => by
    simp only [dedup, List.nodup_cons, List.mem_filter, bne_iff_ne, ne_eq, not_true_eq_false, and_false,
      not_false_eq_true, true_and]
    exact (dedup_nodup xs).filter _

end PySMT.Rewritings
