import PySMT.Proofs.C17Strict
/-!
# C17, part 3: a fact about the strict front end itself

In every state the strict front end can reach, each live assertion only mentions symbols and sorts that are in
scope (at its own level or below).  Hence a model that covers the symbols in scope covers the live assertions.
-/
namespace PySMT.SmtSolver
open PySMT.StrictSolver

def Scoped : List Level → Prop
  | [] => True
  | l :: r => (∀ e ∈ l.asserts, exprInScope (l :: r) e = true) ∧ Scoped r

theorem exprInScope_mono (ls ls' : List Level) (e : Expr)
    (hs : ∀ s, s ∈ scopeSyms ls → s ∈ scopeSyms ls') (hd : ∀ d, d ∈ scopeSorts ls → d ∈ scopeSorts ls')
    (h : exprInScope ls e = true) : exprInScope ls' e = true := by
  simp only [exprInScope, Bool.and_eq_true, List.all_eq_true] at h ⊢
  exact ⟨fun s hs' => (symInScope_iff _ _).mpr (hs s ((symInScope_iff _ _).mp (h.1 s hs'))),
         fun d hd' => (sortInScope_iff _ _).mpr (hd d ((sortInScope_iff _ _).mp (h.2 d hd')))⟩

theorem scoped_addSort (d : SortDecl) : ∀ ls, Scoped ls → Scoped (addSort d ls)
  | [], h => h
  | l :: r, h => by
    refine ⟨fun e he => exprInScope_mono (l :: r) _ e ?_ ?_ (h.1 e he), h.2⟩
    · intro s hs; simpa [scopeSyms] using hs
    · intro d' hd'; simp only [scopeSorts, List.flatMap_cons, List.mem_append] at hd' ⊢
      rcases hd' with h | h
      · exact Or.inl (List.mem_cons_of_mem _ h)
      · exact Or.inr h

theorem scoped_addSym (s : Sym) : ∀ ls, Scoped ls → Scoped (addSym s ls)
  | [], h => h
  | l :: r, h => by
    refine ⟨fun e he => exprInScope_mono (l :: r) _ e ?_ ?_ (h.1 e he), h.2⟩
    · intro s' hs'; simp only [scopeSyms, List.flatMap_cons, List.mem_append] at hs' ⊢
      rcases hs' with h | h
      · exact Or.inl (List.mem_cons_of_mem _ h)
      · exact Or.inr h
    · intro d' hd'; simpa [scopeSorts] using hd'

theorem scoped_addAssert (e : Expr) : ∀ ls, exprInScope ls e = true → Scoped ls → Scoped (addAssert e ls)
  | [], _, h => h
  | l :: r, he, h => by
    refine ⟨fun e' he' => ?_, h.2⟩
    have hmono : ∀ x, exprInScope (l :: r) x = true → exprInScope ({ l with asserts := e :: l.asserts } :: r) x = true :=
      fun x hx => exprInScope_mono _ _ x (fun s hs => by simpa [scopeSyms] using hs)
        (fun d hd => by simpa [scopeSorts] using hd) hx
    rcases List.mem_cons.mp he' with rfl | h'
    · exact hmono _ he
    · exact hmono _ (h.1 e' h')

theorem scoped_replicate (n : Nat) (ls : List Level) (h : Scoped ls) : Scoped (List.replicate n ({} : Level) ++ ls) := by
  induction n with
  | zero => simpa using h
  | succ k ih =>
    simp only [List.replicate_succ, List.cons_append]
    exact ⟨by simp, ih⟩

theorem scoped_drop : ∀ (n : Nat) (ls : List Level), Scoped ls → Scoped (ls.drop n)
  | 0, ls, h => by simpa using h
  | _ + 1, [], h => by simpa using h
  | n + 1, _ :: r, h => by simpa using scoped_drop n r h.2

theorem next_scoped (st : State) (v : Verdict) (c : Cmd) (hl : legal st c = true) (h : Scoped st.levels) :
    Scoped (next st v c).levels := by
  cases c with
  | declareSort d => exact scoped_addSort d _ h
  | declareFun s => exact scoped_addSym s _ h
  | assert e =>
    refine scoped_addAssert e _ ?_ h
    simp only [legal, Bool.and_eq_true] at hl
    exact hl.2
  | push n => exact scoped_replicate n _ h
  | pop n => exact scoped_drop n _ h
  | resetAssertions => exact ⟨by simp, trivial⟩
  | _ => exact h

theorem respond_scoped {O : Oracle} (s : State × O.ω) (c : Cmd) (h : Scoped s.1.levels)
    (hr : (respond O s c).2.isError = false) : Scoped (respond O s c).1.1.levels := by
  unfold respond at hr ⊢
  by_cases hl : legal s.1 c = true
  · simp only [hl, if_true] at hr ⊢
    cases c <;> first | exact next_scoped _ _ _ hl h | exact h
  · simp only [hl] at hr
    cases hr

theorem exec_scoped {O : Oracle} : ∀ (cs : List Cmd) (s₀ s : State × O.ω), exec O s₀ cs = some s →
    Scoped s₀.1.levels → Scoped s.1.levels
  | [], s₀, s, h, hs => by simp only [exec] at h; cases h; exact hs
  | c :: cs, s₀, s, h, hs => by
    simp only [exec] at h
    split at h
    · cases h
    · rename_i hr
      exact exec_scoped cs _ s h (respond_scoped s₀ c hs (by simpa using hr))

theorem live_in_scope : ∀ (ls : List Level), Scoped ls → ∀ e ∈ live ls, ∀ s ∈ e.syms, s ∈ scopeSyms ls
  | [], _, e, he, _, _ => by simp [live] at he
  | l :: r, h, e, he, s, hs => by
    simp only [live, List.flatMap_cons, List.mem_append] at he
    rcases he with he | he
    · have := h.1 e he
      simp only [exprInScope, Bool.and_eq_true, List.all_eq_true] at this
      exact (symInScope_iff _ _).mp (this.1 s hs)
    · have := live_in_scope r h.2 e (by simpa [live] using he) s hs
      simp only [scopeSyms, List.flatMap_cons, List.mem_append]
      exact Or.inr this

/-- in a state the strict front end accepted its way into, the live assertions are in scope -/
theorem Final.scoped {O : Oracle} {w : W O} (h : Final w) : Scoped (levelsOf w) :=
  exec_scoped _ _ _ h.accepted ⟨by simp, trivial⟩

end PySMT.SmtSolver
