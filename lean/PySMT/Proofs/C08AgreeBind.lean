import PySMT.Proofs.C08AgreeStep
/-!
# C08/C09 agreement: `let` and the quantifiers
-/
namespace PySMT.Parser.Agree
open PySMT PySMT.Parser PySMT.Std PySMT.Sexp

/-! ## the bound variables of a quantifier -/

theorem name_nonempty {n : String} (h : pnameOK n = true) : n.isEmpty = false := by
  have h := pnameOK_base h
  unfold pnameOK0 at h
  split at h
  · cases h
  · rename_i c cs heq
    rw [Bool.eq_false_iff]
    intro hh
    rw [String.isEmpty_iff] at hh
    subst hh
    simp at heq

/-- `_get_quantified_var` when the manager's symbol of that name (if any) has this very sort -/
theorem quantVar_ok (σ : MgrSt) (ρ : List (String × Sym)) (n : String) (ty : Ty) (hm : MgrLe σ ρ)
    (hρ : ρ.lookup n = some (Sym.var n ty)) (hn : pnameOK n = true) :
    ∃ σ', quantVar σ n ty = .ok (Sym.var n ty, σ') ∧ MgrLe σ' ρ := by
  have hne : (Sym.var n ty).name.isEmpty = false := name_nonempty hn
  unfold quantVar mkSymbol
  simp only [hne, Bool.false_eq_true, if_false]
  cases hfind : σ.symbols.find? (fun e => e.1 == (Sym.var n ty).name) with
  | none =>
    refine ⟨_, rfl, ?_⟩
    intro e he
    simp only [List.mem_cons] at he
    rcases he with rfl | he
    · exact hρ
    · exact hm e he
  | some e =>
    obtain ⟨k, s'⟩ := e
    have hmem := List.mem_of_find?_eq_some hfind
    have hk : k = n := by
      have := List.find?_some hfind
      simpa [Sym.var] using this
    have := hm _ hmem
    simp only [hk, hρ, Option.some.injEq] at this
    subst this
    simp only [if_true]
    exact ⟨σ, rfl, hm⟩

theorem quantBinds_agree (env : SEnv) (ρ : List (String × Sym)) : ∀ (vs : List Sexp), fragVars env ρ vs = true →
    ∀ (sc : List Binding) (Γc : PEnv) (acc : List Sym), Corr env sc Γc → MgrLe Γc.mgr ρ →
    ∀ syms, rdSortedVars env vs = .ok syms →
    ∃ Γ', rdQuantBinds Γc acc vs = .ok (Γ', acc.reverse ++ syms) ∧
      Corr env (syms.reverse.map Binding.var ++ sc) Γ' ∧ MgrLe Γ'.mgr ρ
  | [], _, sc, Γc, acc, hc, hm, syms, h => by
    simp only [rdSortedVars, Except.ok.injEq] at h
    subst h
    exact ⟨Γc, by rw [rdQuantBinds_nil]; simp, by simpa using hc, hm⟩
  | .list [.atom x, sort] :: rest, hf, sc, Γc, acc, hc, hm, syms, h => by
    simp only [fragVars, Bool.and_eq_true] at hf
    obtain ⟨hx, hrest⟩ := hf
    simp only [rdSortedVars] at h
    cases hsn : symName? x with
    | none => simp [hsn] at hx
    | some n =>
      simp only [hsn, Bool.and_eq_true] at hx h
      obtain ⟨⟨hbn, hfs⟩, hρ⟩ := hx
      split at h
      · cases h
      · rename_i hth
        have hth' : theorySymbols.contains n = false := by simpa using hth
        cases hso : sortStd env sort with
        | error e => simp [hso] at h
        | ok ty =>
          cases hrs : rdSortedVars env rest with
          | error e => simp [hso, hrs] at h
          | ok syms' =>
            simp only [hso, hrs, Except.ok.injEq] at h
            subst h
            simp only [hso, beq_iff_eq] at hρ
            have hpn : pnameOK n = true := by
              simp only [bindNameOK, Bool.and_eq_true] at hbn; exact hbn.1.1
            have hrt := readTy_agree env sc Γc hc Lit.pyInt_numeral sort ty hfs hso
            obtain ⟨σ', hqv, hm'⟩ := quantVar_ok Γc.mgr ρ n ty hm hρ hpn
            have hc' : Corr env (.var (Sym.var n ty) :: sc)
                { Γc with binds := (n, .term (Term.sym (Sym.var n ty))) :: Γc.binds, mgr := σ' } :=
              corr_mgr (corr_var hc (Sym.var n ty) rfl hbn hth') σ'
            obtain ⟨Γ', hq, hcf, hmf⟩ :=
              quantBinds_agree env ρ rest hrest (.var (Sym.var n ty) :: sc) _ (Sym.var n ty :: acc) hc' hm' syms' hrs
            refine ⟨Γ', ?_, ?_, hmf⟩
            · rw [rdQuantBinds]
              simp only [pyTok_sym hsn, hrt, hqv, hq]
              simp
            · simpa using hcf
  | .atom _ :: _, hf, _, _, _, _, _, _, _ => by simp [fragVars] at hf
  | .str _ :: _, hf, _, _, _, _, _, _, _ => by simp [fragVars] at hf
  | .list [] :: _, hf, _, _, _, _, _, _, _ => by simp [fragVars] at hf
  | .list [_] :: _, hf, _, _, _, _, _, _, _ => by simp [fragVars] at hf
  | .list (_ :: _ :: _ :: _) :: _, hf, _, _, _, _, _, _, _ => by simp [fragVars] at hf
  | .list [.str _, _] :: _, hf, _, _, _, _, _, _, _ => by simp [fragVars] at hf
  | .list [.list _, _] :: _, hf, _, _, _, _, _, _, _ => by simp [fragVars] at hf

end PySMT.Parser.Agree
