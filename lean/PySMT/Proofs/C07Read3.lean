import PySMT.Proofs.C07Read2
/-!
# C07 (`read_toSexp`, continued): one node at a time
-/
namespace PySMT.Printer
open PySMT.Std PySMT.Sexp

/-- what the reader returns for the printed form of `a` (`b`: which printer's order of array-value assignments) -/
def U (b : Bool) (a : Term) : TT := (unfoldAVw b a, tyD a)

/-- In the scope `sc`, the S-expression `toS a` that was printed for the sub-term `a` is read back as `a`, with `a`'s
sort. (`toS` is `toSexpWith sp` for the tree printer, the memoized result for the DAG printer.) -/
def Reads (env : SEnv) (sc : List Binding) (b : Bool) (toS : Term → Sexp) (a : Term) : Prop :=
  a.typeOf = some (tyD a) ∧ rd env sc (toS a) = .ok (U b a)

/-- … and what the printer writes for the node itself, from the results `toS` of its arguments, is read back as the node -/
def NodeReads (sp : Spell) (env : SEnv) (sc : List Binding) (b : Bool) (toS : Term → Sexp)
    (op : Op) (args : List Term) (p : Payload) : Prop :=
  (Term.node op args p).typeOf = some (tyD (.node op args p)) ∧
    rd env sc (nodeSexp sp b op p args (args.map toS)) = .ok (U b (.node op args p))

theorem rdList_args (env : SEnv) (sc : List Binding) (b : Bool) (toS : Term → Sexp) : ∀ (args : List Term),
    (∀ a ∈ args, Reads env sc b toS a) → rdList env sc (args.map toS) = .ok (args.map (U b))
  | [], _ => rfl
  | a :: as, h => by
    simp [rdList, (h a (by simp)).2, rdList_args env sc b toS as (fun x hx => h x (List.mem_cons_of_mem _ hx))]

theorem typeOf_node (op : Op) (args : List Term) (p : Payload) :
    (Term.node op args p).typeOf = typeOfNode op p (args.map Term.typeOf) := by
  simp [Term.typeOf]

theorem toSexpWith_node (sp : Spell) (op : Op) (args : List Term) (p : Payload) :
    toSexpWith sp (.node op args p) = nodeSexp sp true op p args (args.map (toSexpWith sp)) := by
  simp [toSexpWith]

theorem reads_of (sp : Spell) (env : SEnv) (sc : List Binding) (b : Bool) (toS : Term → Sexp)
    (op : Op) (args : List Term) (p : Payload) (u : Term) (τ : Ty) (hty : (Term.node op args p).typeOf = some τ)
    (hu : unfoldAVw b (.node op args p) = u)
    (h : rd env sc (nodeSexp sp b op p args (args.map toS)) = .ok (u, τ)) : NodeReads sp env sc b toS op args p := by
  have htd : tyD (.node op args p) = τ := by simp [tyD, hty]
  exact ⟨by rw [hty, htd], by rw [h, U, hu, htd]⟩

/-- the generic step for an operator that is printed `(f args…)` and read by `applyTheory f` -/
theorem reads_simple (sp : Spell) (env : SEnv) (sc : List Binding) (hsc : ThFree sc) (b : Bool) (toS : Term → Sexp)
    (op : Op) (p : Payload) (args : List Term) (f : String) (hf : f ∈ opToks)
    (hsexp : ∀ as, nodeSexp sp b op p args as = .list (.atom f :: as))
    (hunf : unfoldAVw b (.node op args p) = .node op (args.map (unfoldAVw b)) p)
    (hargs : ∀ a ∈ args, Reads env sc b toS a) (hne : args ≠ [])
    (τ : Ty) (hty : (Term.node op args p).typeOf = some τ)
    (hap : applyTheory f (args.map (U b)) = .ok (.node op (args.map (unfoldAVw b)) p, τ)) :
    NodeReads sp env sc b toS op args p := by
  apply reads_of sp env sc b toS _ _ _ _ τ hty hunf
  rw [hsexp, rd_op env sc hsc f hf _ _ (rdList_args env sc b toS args hargs)
    (by cases args <;> simp_all), hap]

theorem spell (sp : Spell) (hsp : SpellStd sp) (k v : String) (h : (k, v) ∈ stdSpellings) : sp k = v := hsp (k, v) h

theorem map_eq_one {α β} {f : α → β} {l : List α} {x : β} (h : l.map f = [x]) : ∃ a, l = [a] ∧ f a = x := by
  match l, h with
  | [a], h => exact ⟨a, rfl, by simpa using h⟩

theorem map_eq_two {α β} {f : α → β} {l : List α} {x y : β} (h : l.map f = [x, y]) :
    ∃ a b, l = [a, b] ∧ f a = x ∧ f b = y := by
  match l, h with
  | [a, b], h => simp at h; exact ⟨a, b, rfl, h.1, h.2⟩

theorem map_eq_three {α β} {f : α → β} {l : List α} {x y z : β} (h : l.map f = [x, y, z]) :
    ∃ a b c, l = [a, b, c] ∧ f a = x ∧ f b = y ∧ f c = z := by
  match l, h with
  | [a, b, c], h => simp at h; exact ⟨a, b, c, rfl, h.1, h.2.1, h.2.2⟩

theorem allTy_U {b : Bool} {args : List Term} {t : Ty} (h : (args.map tyD).all (· == t) = true) :
    allTy (args.map (U b)) t = true := by
  simp only [allTy, List.all_map, List.all_eq_true, Function.comp] at *
  intro a ha
  simpa [U] using h a ha

theorem map_fst_U (b : Bool) (args : List Term) : (args.map (U b)).map (·.1) = args.map (unfoldAVw b) := by
  simp [U, Function.comp_def]

theorem unfoldAV_plain (b : Bool) (op : Op) (args : List Term) (p : Payload) (h : op ≠ .arrayValue) :
    unfoldAVw b (.node op args p) = .node op (args.map (unfoldAVw b)) p := by
  unfold unfoldAVw
  dsimp only
  split
  · exact absurd rfl h
  · rfl

section
variable (sp : Spell) (hsp : SpellStd sp) (env : SEnv) (sc : List Binding) (hsc : ThFree sc) (srt : Bool)
  (toS : Term → Sexp) (scope0 : List Sym)
include hsp hsc

/-- n-ary `and`, `or` -/
theorem reads_andor (op : Op) (hop : op = .and ∨ op = .or) (p : Payload) (args : List Term) (τ : Ty)
    (hargs : ∀ a ∈ args, Reads env sc srt toS a) (hty : (Term.node op args p).typeOf = some τ)
    (hS : stdTy op p (args.map tyD) = some τ) (hok : nodeOK env scope0 op p args = true) :
    NodeReads sp env sc srt toS op args p := by
  rcases hop with rfl | rfl
  · simp only [stdTy, Bool.and_eq_true, beq_iff_eq] at hS
    split at hS <;> simp at hS
    rename_i hc
    obtain ⟨rfl, hall⟩ := hc
    subst hS
    simp only [nodeOK, decide_eq_true_eq] at hok
    have hne : args ≠ [] := by intro h; subst h; simp at hok
    apply reads_simple sp env sc hsc srt toS .and .none args "and" (by decide)
      (fun as => by simp [nodeSexp, walkKey, spell sp hsp "walk_and" "and" (by decide)])
      (unfoldAV_plain srt _ _ _ (by decide)) hargs hne _ hty
    rw [ap_and _ (by simpa using hok) (allTy_U hall), map_fst_U srt]
  · simp only [stdTy, Bool.and_eq_true, beq_iff_eq] at hS
    split at hS <;> simp at hS
    rename_i hc
    obtain ⟨rfl, hall⟩ := hc
    subst hS
    simp only [nodeOK, decide_eq_true_eq] at hok
    have hne : args ≠ [] := by intro h; subst h; simp at hok
    apply reads_simple sp env sc hsc srt toS .or .none args "or" (by decide)
      (fun as => by simp [nodeSexp, walkKey, spell sp hsp "walk_or" "or" (by decide)])
      (unfoldAV_plain srt _ _ _ (by decide)) hargs hne _ hty
    rw [ap_or _ (by simpa using hok) (allTy_U hall), map_fst_U srt]

/-- `not`, `=>`, `=` on Bool -/
theorem reads_boolfix (op : Op) (hop : op = .not ∨ op = .implies ∨ op = .iff) (p : Payload) (args : List Term) (τ : Ty)
    (hargs : ∀ a ∈ args, Reads env sc srt toS a) (hty : (Term.node op args p).typeOf = some τ)
    (hS : stdTy op p (args.map tyD) = some τ) : NodeReads sp env sc srt toS op args p := by
  rcases hop with rfl | rfl | rfl
  · simp only [stdTy] at hS
    split at hS <;> simp at hS
    rename_i hc
    simp only [Bool.and_eq_true, beq_iff_eq] at hc
    obtain ⟨rfl, hts⟩ := hc
    subst hS
    obtain ⟨a, rfl, ha⟩ := map_eq_one hts
    apply reads_simple sp env sc hsc srt toS .not .none [a] "not" (by decide)
      (fun as => by simp [nodeSexp, walkKey, spell sp hsp "walk_not" "not" (by decide)])
      (unfoldAV_plain srt _ _ _ (by decide)) hargs (by simp) _ hty
    simp only [List.map, U, ha]; exact ap_not _
  · simp only [stdTy] at hS
    split at hS <;> simp at hS
    rename_i hc
    simp only [Bool.and_eq_true, beq_iff_eq] at hc
    obtain ⟨rfl, hts⟩ := hc
    subst hS
    obtain ⟨a, b, rfl, ha, hb⟩ := map_eq_two hts
    apply reads_simple sp env sc hsc srt toS .implies .none [a, b] "=>" (by decide)
      (fun as => by simp [nodeSexp, walkKey, spell sp hsp "walk_implies" "=>" (by decide)])
      (unfoldAV_plain srt _ _ _ (by decide)) hargs (by simp) _ hty
    simp only [List.map, U, ha, hb]; exact ap_implies _ _
  · simp only [stdTy] at hS
    split at hS <;> simp at hS
    rename_i hc
    simp only [Bool.and_eq_true, beq_iff_eq] at hc
    obtain ⟨rfl, hts⟩ := hc
    subst hS
    obtain ⟨a, b, rfl, ha, hb⟩ := map_eq_two hts
    apply reads_simple sp env sc hsc srt toS .iff .none [a, b] "=" (by decide)
      (fun as => by simp [nodeSexp, walkKey, spell sp hsp "walk_iff" "=" (by decide)])
      (unfoldAV_plain srt _ _ _ (by decide)) hargs (by simp) _ hty
    simp only [List.map, U, ha, hb]; exact ap_iff _ _

/-- n-ary `+`, `*` -/
theorem reads_plustimes (op : Op) (hop : op = .plus ∨ op = .times) (p : Payload) (args : List Term) (τ : Ty)
    (hargs : ∀ a ∈ args, Reads env sc srt toS a) (hty : (Term.node op args p).typeOf = some τ)
    (hS : stdTy op p (args.map tyD) = some τ) (hok : nodeOK env scope0 op p args = true) :
    NodeReads sp env sc srt toS op args p := by
  have key : ∃ t, (t = .int ∨ t = .real) ∧ p = .none ∧ τ = t ∧ (args.map tyD).all (· == t) = true := by
    rcases hop with rfl | rfl <;>
    · simp only [stdTy] at hS
      split at hS
      · rename_i hc
        simp only [Bool.and_eq_true, beq_iff_eq] at hc
        exact ⟨.int, Or.inl rfl, hc.1, by simpa using hS.symm, hc.2⟩
      · split at hS
        · rename_i hc
          simp only [Bool.and_eq_true, beq_iff_eq] at hc
          exact ⟨.real, Or.inr rfl, hc.1, by simpa using hS.symm, hc.2⟩
        · simp at hS
  obtain ⟨t, ht, rfl, rfl, hall⟩ := key
  have h2 : 2 ≤ args.length := by
    rcases hop with rfl | rfl <;> simpa [nodeOK] using hok
  have hne : args ≠ [] := by intro h; subst h; simp at h2
  rcases hop with rfl | rfl
  · apply reads_simple sp env sc hsc srt toS .plus .none args "+" (by decide)
      (fun as => by simp [nodeSexp, walkKey, spell sp hsp "walk_plus" "+" (by decide)])
      (unfoldAV_plain srt _ _ _ (by decide)) hargs hne _ hty
    rw [ap_plus _ τ ht (by simpa using h2) (allTy_U hall), map_fst_U srt]
  · apply reads_simple sp env sc hsc srt toS .times .none args "*" (by decide)
      (fun as => by simp [nodeSexp, walkKey, spell sp hsp "walk_times" "*" (by decide)])
      (unfoldAV_plain srt _ _ _ (by decide)) hargs hne _ hty
    rw [ap_times _ τ ht (by simpa using h2) (allTy_U hall), map_fst_U srt]

end

end PySMT.Printer
