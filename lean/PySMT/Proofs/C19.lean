import PySMT.Impl.Portfolio
/-!
# C19 — inductive invariants of the portfolio transition system

`Inv` holds in every reachable state for every `OS` (it speaks about the `solve()` phase only).
`QInv` additionally needs assumption A1 (`cfg.os.killAtomic = true`) and speaks about the
`get_model / get_value` phase.  Everything is proved by induction over `Reach`, i.e. for all schedules and
any number of members; nothing is explored.
-/
namespace PySMT.Portfolio

/-! ### list helpers -/

theorem get_set_eq {α} {l : List α} {i : Nat} {a b : α} (h : l[i]? = some a) : (l.set i b)[i]? = some b := by
  grind

theorem get_set_ne {α} {l : List α} {i j : Nat} {b : α} (h : i ≠ j) : (l.set i b)[j]? = l[j]? := by
  grind

theorem get_modify_eq {α} {l : List α} {i : Nat} {a : α} (f : α → α) (h : l[i]? = some a) :
    (l.modify i f)[i]? = some (f a) := by grind

theorem get_modify_ne {α} {l : List α} {i j : Nat} (f : α → α) (h : i ≠ j) : (l.modify i f)[j]? = l[j]? := by
  grind

theorem get_lt {α} {l : List α} {i : Nat} {a : α} (h : l[i]? = some a) : i < l.length := by
  grind

/-- what `set` does, as seen from index `j` -/
theorem get_set_cases {α} {l : List α} {i j : Nat} {a b c : α} (hi : l[i]? = some a)
    (h : (l.set i b)[j]? = some c) : (j = i ∧ c = b) ∨ (j ≠ i ∧ l[j]? = some c) := by
  grind

theorem get_modify_cases {α} {l : List α} {i j : Nat} {c : α} (f : α → α)
    (h : (l.modify i f)[j]? = some c) : (j = i ∧ ∃ a, l[i]? = some a ∧ c = f a) ∨ (j ≠ i ∧ l[j]? = some c) := by
  by_cases hij : i = j
  · subst hij
    left
    refine ⟨rfl, ?_⟩
    cases hl : l[i]? with
    | none => simp [hl] at h
    | some a => exact ⟨a, rfl, by simp [hl] at h; exact h.symm⟩
  · right
    exact ⟨fun h' => hij h'.symm, by rw [get_modify_ne f hij] at h; exact h⟩

/-! ### the invariant of the solve phase -/

variable (cfg : Cfg)

def sender : Msg → Nat
  | .ans i _ => i
  | .exn i _ => i

/-- a message says what its sender's solver really did in call `c` -/
def truthful (c : Nat) : Msg → Prop
  | .ans i v => i < cfg.n ∧ cfg.beh c i = .answer v
  | .exn i e => i < cfg.n ∧ cfg.beh c i = .raise e

/-- an error raised by `solve()` number `c` is justified -/
def errOK (c : Nat) : Err → Prop
  | .member i e => cfg.eoe = true ∧ i < cfg.n ∧ cfg.beh c i = .raise e
  | .allFailed => (∀ i, i < cfg.n → ∀ v, cfg.beh c i ≠ .answer v) ∧
                  (cfg.eoe = true → ∀ i, i < cfg.n → ∀ e, cfg.beh c i ≠ .raise e)

structure Inv (s : State) : Prop where
  len : s.ms = [] ∨ s.ms.length = cfg.n
  chan : inSolve s.p = true → s.ctrl = [] ∧ s.reply = []
  queue : ∀ m, m ∈ s.queue → truthful cfg s.cycle m
  putting : ∀ j m, s.ms[j]? = some (.putting m) → truthful cfg s.cycle m ∧ sender m = j
  wServing : s.p = .waiting → ∀ i v, Msg.ans i v ∈ s.queue → s.ms[i]? = some .serving
  wQueued : s.p = .waiting → ∀ i, s.ms[i]? = some .serving → ∃ v, Msg.ans i v ∈ s.queue
  wAnswer : s.p = .waiting → ∀ i, i < cfg.n → ∀ v, cfg.beh s.cycle i = .answer v →
              ∃ m, s.ms[i]? = some m ∧ alive m = true
  wRaise : s.p = .waiting → cfg.eoe = true → ∀ i, i < cfg.n → ∀ e, cfg.beh s.cycle i = .raise e →
              (∃ m, s.ms[i]? = some m ∧ alive m = true) ∨ Msg.exn i e ∈ s.queue
  kLosers : ∀ v w k, s.p = .killLosers v w k →
              w < cfg.n ∧ cfg.beh s.cycle w = .answer v ∧ s.ms[w]? = some .serving
  kAll : ∀ e k, s.p = .killAll e k →
              errOK cfg s.cycle e ∧ ∀ j, j < k → ∀ m, s.ms[j]? = some m → alive m = false
  ret : ∀ v w, s.p = .returned v w → w < cfg.n ∧ cfg.beh s.cycle w = .answer v
  await : ∀ v w q, s.p = .awaiting v w q → w < cfg.n ∧ cfg.beh s.cycle w = .answer v
  raised : ∀ e, s.p = .raised e → errOK cfg s.cycle e ∧ ∀ (j : Nat) m, s.ms[j]? = some m → alive m = false

theorem inv_init : Inv cfg init := by
  constructor <;> simp [init, inSolve]

theorem truthful_afterSolve (c i : Nat) (hi : i < cfg.n) (m : Msg)
    (h : afterSolve i (cfg.beh c i) = .putting m) : truthful cfg c m ∧ sender m = i := by
  cases hb : cfg.beh c i with
  | answer v => simp [afterSolve, hb] at h; subst h; exact ⟨⟨hi, hb⟩, rfl⟩
  | raise e => simp [afterSolve, hb] at h; subst h; exact ⟨⟨hi, hb⟩, rfl⟩
  | crash => simp [afterSolve, hb] at h

theorem alive_kill_false (os : OS) (m : MSt) (h : alive m = false) : alive (kill os m) = false := by
  cases m <;> simp_all [alive, kill]

theorem alive_kill (os : OS) (m : MSt) : alive (kill os m) = false := by
  cases m <;> simp [alive, kill]
  cases os.killAtomic <;> simp

end PySMT.Portfolio
