import PySMT.Impl.Portfolio
/-!
# C19 — inductive invariants of the portfolio transition system

`Inv` holds in every reachable state for every `OS` (it speaks about the `solve()` phase only).
`QInv` additionally needs assumption A1 (`cfg.os.killAtomic = true`) and speaks about the
`get_model / get_value` phase.  Everything is proved by induction over `Reach`, i.e. for all schedules and
any number of members; nothing is explored.
-/
set_option linter.unusedVariables false
namespace PySMT.Portfolio

/-! ### list helpers -/

theorem get_set_eq {α} {l : List α} {i : Nat} {a b : α} (h : l[i]? = some a) : (l.set i b)[i]? = some b := by
  grind

theorem get_set_ne {α} {l : List α} {i j : Nat} {b : α} (h : i ≠ j) : (l.set i b)[j]? = l[j]? := by
  grind

theorem get_modify_eq {α} {l : List α} {i : Nat} {a : α} (f : α → α) (h : l[i]? = some a) :
    (l.modify i f)[i]? = some (f a) := by grind

theorem get_modify_ne {α} {l : List α} {i j : Nat} (f : α → α) (h : i ≠ j) : (l.modify i f)[j]? = l[j]? := by
  grind

theorem get_lt {α} {l : List α} {i : Nat} {a : α} (h : l[i]? = some a) : i < l.length := by
  grind

/-- what `set` does, as seen from index `j` -/
theorem get_set_cases {α} {l : List α} {i j : Nat} {a b c : α} (hi : l[i]? = some a)
    (h : (l.set i b)[j]? = some c) : (j = i ∧ c = b) ∨ (j ≠ i ∧ l[j]? = some c) := by
  grind

theorem get_modify_cases {α} {l : List α} {i j : Nat} {c : α} (f : α → α)
    (h : (l.modify i f)[j]? = some c) : (j = i ∧ ∃ a, l[i]? = some a ∧ c = f a) ∨ (j ≠ i ∧ l[j]? = some c) := by
  by_cases hij : i = j
  · subst hij
    left
    refine ⟨rfl, ?_⟩
    cases hl : l[i]? with
    | none => simp [hl] at h
    | some a => exact ⟨a, rfl, by simp [hl] at h; exact h.symm⟩
  · right
    exact ⟨fun h' => hij h'.symm, by rw [get_modify_ne f hij] at h; exact h⟩

/-! ### the invariant of the solve phase -/

variable (cfg : Cfg)

def sender : Msg → Nat
  | .ans i _ => i
  | .exn i _ => i

/-- a message says what its sender's solver really did in call `c` -/
def truthful (c : Nat) : Msg → Prop
  | .ans i v => i < cfg.n ∧ cfg.beh c i = .answer v
  | .exn i e => i < cfg.n ∧ cfg.beh c i = .raise e

/-- an error raised by `solve()` number `c` is justified -/
def errOK (c : Nat) : Err → Prop
  | .member i e => cfg.eoe = true ∧ i < cfg.n ∧ cfg.beh c i = .raise e
  | .allFailed => (∀ i, i < cfg.n → ∀ v, cfg.beh c i ≠ .answer v) ∧
                  (cfg.eoe = true → ∀ i, i < cfg.n → ∀ e, cfg.beh c i ≠ .raise e)

structure Inv (s : State) : Prop where
  len : s.ms = [] ∨ s.ms.length = cfg.n
  chan : inSolve s.p = true → s.ctrl = [] ∧ s.reply = []
  queue : ∀ m, m ∈ s.queue → truthful cfg s.cycle m
  putting : ∀ j m, s.ms[j]? = some (.putting m) → truthful cfg s.cycle m ∧ sender m = j
  wServing : s.p = .waiting → ∀ i v, Msg.ans i v ∈ s.queue → s.ms[i]? = some .serving ∨ s.ms[i]? = some .crashed
  wQueued : s.p = .waiting → ∀ i, s.ms[i]? = some .serving → ∃ v, Msg.ans i v ∈ s.queue
  wAnswer : s.p = .waiting → ∀ i, i < cfg.n → ∀ v, cfg.beh s.cycle i = .answer v →
              ∃ m, s.ms[i]? = some m ∧ (alive m = true ∨ (m = .crashed ∧ Msg.ans i v ∈ s.queue))
  wRaise : s.p = .waiting → cfg.eoe = true → ∀ i, i < cfg.n → ∀ e, cfg.beh s.cycle i = .raise e →
              (∃ m, s.ms[i]? = some m ∧ alive m = true) ∨ Msg.exn i e ∈ s.queue
  kLosers : ∀ v w k, s.p = .killLosers v w k →
              w < cfg.n ∧ cfg.beh s.cycle w = .answer v ∧ (s.ms[w]? = some .serving ∨ s.ms[w]? = some .crashed)
  kAll : ∀ e k, s.p = .killAll e k →
              errOK cfg s.cycle e ∧ ∀ j, j < k → ∀ m, s.ms[j]? = some m → alive m = false
  ret : ∀ v w, s.p = .returned v w → w < cfg.n ∧ cfg.beh s.cycle w = .answer v
  await : ∀ v w q, s.p = .awaiting v w q → w < cfg.n ∧ cfg.beh s.cycle w = .answer v
  raised : ∀ e, s.p = .raised e → errOK cfg s.cycle e ∧ ∀ (j : Nat) m, s.ms[j]? = some m → alive m = false

theorem inv_init : Inv cfg init := by
  constructor <;> simp [init, inSolve]

theorem truthful_afterSolve (c i : Nat) (hi : i < cfg.n) (m : Msg)
    (h : afterSolve i (cfg.beh c i) = .putting m) : truthful cfg c m ∧ sender m = i := by
  cases hb : cfg.beh c i with
  | answer v => simp [afterSolve, hb] at h; subst h; exact ⟨⟨hi, hb⟩, rfl⟩
  | raise e => simp [afterSolve, hb] at h; subst h; exact ⟨⟨hi, hb⟩, rfl⟩
  | crash => simp [afterSolve, hb] at h

theorem alive_kill_false (os : OS) (m : MSt) (h : alive m = false) : alive (kill os m) = false := by
  cases m <;> simp_all [alive, kill]

theorem alive_kill (os : OS) (m : MSt) : alive (kill os m) = false := by
  cases m <;> simp [alive, kill]
  cases os.killAtomic <;> simp

/-! ### preservation, one lemma per step -/


theorem idx_lt_n {s : State} (hi : Inv cfg s) {i : Nat} {m : MSt} (h : s.ms[i]? = some m) : i < cfg.n := by
  have := get_lt h
  rcases hi.len with h0 | h0
  · simp [h0] at this
  · omega

theorem afterSolve_ne_serving (i : Nat) (b : Beh) : afterSolve i b ≠ .serving := by
  cases b <;> simp [afterSolve]

theorem alive_afterSolve_answer (i : Nat) (v : Bool) : alive (afterSolve i (.answer v)) = true := rfl
theorem alive_afterSolve_raise (i : Nat) (e : Exn) : alive (afterSolve i (.raise e)) = true := rfl

theorem inv_finish (s : State) (hi : Inv cfg s) (i : Nat) (hm : s.ms[i]? = some .solving) :
    Inv cfg { s with ms := s.ms.set i (afterSolve i (cfg.beh s.cycle i)) } := by
  have hin := idx_lt_n cfg hi hm
  obtain ⟨len, chan, queue, putting, wServing, wQueued, wAnswer, wRaise, kLosers, kAll, ret, await, raised⟩ := hi
  constructor <;> simp only [] <;> try (first | assumption | grind [inSolve])
  case putting =>
    intro j m h
    rcases get_set_cases hm h with ⟨rfl, h2⟩ | ⟨_, h2⟩
    · exact truthful_afterSolve cfg _ _ hin m h2.symm
    · exact putting j m h2
  case wQueued =>
    intro hp j h
    rcases get_set_cases hm h with ⟨rfl, h2⟩ | ⟨_, h2⟩
    · exact absurd h2.symm (afterSolve_ne_serving _ _)
    · exact wQueued hp j h2
  case wAnswer =>
    intro hp j hj v hb
    by_cases hji : j = i
    · subst hji; exact ⟨_, get_set_eq hm, Or.inl (by rw [hb]; rfl)⟩
    · rw [get_set_ne (fun h => hji h.symm)]; exact wAnswer hp j hj v hb
  case wRaise =>
    intro hp he j hj e hb
    by_cases hji : j = i
    · subst hji; exact Or.inl ⟨_, get_set_eq hm, by rw [hb]; rfl⟩
    · rw [get_set_ne (fun h => hji h.symm)]; exact wRaise hp he j hj e hb
  case kAll =>
    intro e k hp
    refine ⟨(kAll e k hp).1, ?_⟩
    intro j hj m h
    rcases get_set_cases hm h with ⟨rfl, h2⟩ | ⟨_, h2⟩
    · have := (kAll e k hp).2 j hj _ hm; simp [alive] at this
    · exact (kAll e k hp).2 j hj m h2
  case raised =>
    intro e hp
    refine ⟨(raised e hp).1, ?_⟩
    intro j m h
    rcases get_set_cases hm h with ⟨rfl, h2⟩ | ⟨_, h2⟩
    · have := (raised e hp).2 j _ hm; simp [alive] at this
    · exact (raised e hp).2 j m h2


theorem afterFlush_ne_putting (m m' : Msg) : afterFlush m ≠ .putting m' := by
  cases m <;> simp [afterFlush]

theorem inv_flush (s : State) (hi : Inv cfg s) (i : Nat) (m : Msg) (hm : s.ms[i]? = some (.putting m)) :
    Inv cfg { s with ms := s.ms.set i (afterFlush m), queue := s.queue ++ [m] } := by
  obtain ⟨len, chan, queue, putting, wServing, wQueued, wAnswer, wRaise, kLosers, kAll, ret, await, raised⟩ := hi
  obtain ⟨htr, hsend⟩ := putting i m hm
  constructor <;> simp only [] <;> try (first | assumption | grind [inSolve])
  case putting =>
    intro j m' h
    rcases get_set_cases hm h with ⟨rfl, h2⟩ | ⟨_, h2⟩
    · exact absurd h2.symm (afterFlush_ne_putting _ _)
    · exact putting j m' h2
  case wServing =>
    intro hp j v hmem
    rcases List.mem_append.mp hmem with h | h
    · have hs := wServing hp j v h
      have hji : i ≠ j := by intro h'; subst h'; rw [hm] at hs; simp at hs
      rw [get_set_ne hji]; exact hs
    · simp at h; subst h
      simp [sender] at hsend; subst hsend
      exact Or.inl (get_set_eq hm)
  case wQueued =>
    intro hp j h
    rcases get_set_cases hm h with ⟨rfl, h2⟩ | ⟨_, h2⟩
    · cases m with
      | ans i' v => simp [sender] at hsend; subst hsend; exact ⟨v, by simp⟩
      | exn i' e => simp [afterFlush] at h2
    · obtain ⟨v, hv⟩ := wQueued hp j h2
      exact ⟨v, List.mem_append_left _ hv⟩
  case wAnswer =>
    intro hp j hj v hb
    by_cases hji : j = i
    · subst hji
      cases m with
      | ans i' v' => exact ⟨_, get_set_eq hm, Or.inl rfl⟩
      | exn i' e => simp [sender] at hsend; subst hsend; simp [truthful, hb] at htr
    · rw [get_set_ne (fun h => hji h.symm)]
      obtain ⟨m', h1, h2⟩ := wAnswer hp j hj v hb
      exact ⟨m', h1, h2.imp id (fun h3 => ⟨h3.1, List.mem_append_left _ h3.2⟩)⟩
  case wRaise =>
    intro hp he j hj e hb
    by_cases hji : j = i
    · subst hji
      cases m with
      | ans i' v' => simp [sender] at hsend; subst hsend; simp [truthful, hb] at htr
      | exn i' e' =>
        simp [sender] at hsend; subst hsend
        simp [truthful, hb] at htr
        right; simp [htr.2]
    · rw [get_set_ne (fun h => hji h.symm)]
      rcases wRaise hp he j hj e hb with h | h
      · exact Or.inl h
      · exact Or.inr (List.mem_append_left _ h)
  case kAll =>
    intro e k hp
    refine ⟨(kAll e k hp).1, ?_⟩
    intro j hj m' h
    rcases get_set_cases hm h with ⟨rfl, h2⟩ | ⟨_, h2⟩
    · have := (kAll e k hp).2 j hj _ hm; simp [alive] at this
    · exact (kAll e k hp).2 j hj m' h2
  case raised =>
    intro e hp
    refine ⟨(raised e hp).1, ?_⟩
    intro j m' h
    rcases get_set_cases hm h with ⟨rfl, h2⟩ | ⟨_, h2⟩
    · have := (raised e hp).2 j _ hm; simp [alive] at this
    · exact (raised e hp).2 j m' h2


theorem inv_recvExit (s : State) (hi : Inv cfg s) (i : Nat) (cs : List Cmd) (hm : s.ms[i]? = some .serving)
    (hc : s.ctrl = .exit :: cs) : Inv cfg { s with ms := s.ms.set i .exited, ctrl := cs } := by
  obtain ⟨len, chan, queue, putting, wServing, wQueued, wAnswer, wRaise, kLosers, kAll, ret, await, raised⟩ := hi
  constructor <;> simp only [] <;> try (first | assumption | grind [inSolve])
  case raised =>
    intro e hp
    have := (raised e hp).2 i _ hm; simp [alive] at this

theorem inv_recvQuery (s : State) (hi : Inv cfg s) (i q : Nat) (cs : List Cmd) (hm : s.ms[i]? = some .serving)
    (hc : s.ctrl = .query q :: cs) : Inv cfg { s with ctrl := cs, reply := s.reply ++ [(i, q)] } := by
  obtain ⟨len, chan, queue, putting, wServing, wQueued, wAnswer, wRaise, kLosers, kAll, ret, await, raised⟩ := hi
  constructor <;> simp only [] <;> try (first | assumption | grind [inSolve])

theorem inv_lateRecv (s : State) (hi : Inv cfg s) (i : Nat) (c : Cmd) (cs : List Cmd) (hm : s.ms[i]? = some .dying)
    (hc : s.ctrl = c :: cs) : Inv cfg { s with ms := s.ms.set i .killed, ctrl := cs } := by
  obtain ⟨len, chan, queue, putting, wServing, wQueued, wAnswer, wRaise, kLosers, kAll, ret, await, raised⟩ := hi
  constructor <;> simp only [] <;> try (first | assumption | grind [inSolve])
  case raised =>
    intro e hp
    refine ⟨(raised e hp).1, ?_⟩
    intro j m' h
    rcases get_set_cases hm h with ⟨rfl, h2⟩ | ⟨_, h2⟩
    · subst h2; rfl
    · exact (raised e hp).2 j m' h2

theorem inv_getAns (s : State) (hi : Inv cfg s) (i : Nat) (v : Bool) (q : List Msg) (hp : s.p = .waiting)
    (hq : s.queue = .ans i v :: q) : Inv cfg { s with queue := q, p := .killLosers v i 0 } := by
  obtain ⟨len, chan, queue, putting, wServing, wQueued, wAnswer, wRaise, kLosers, kAll, ret, await, raised⟩ := hi
  constructor <;> simp only [] <;> try (first | assumption | grind [inSolve])
  case kLosers =>
    intro v' w k h
    simp at h; obtain ⟨h1, h2, h3⟩ := h; subst h1 h2 h3
    have hmem : Msg.ans i v ∈ s.queue := by rw [hq]; exact List.mem_cons_self
    have := queue _ hmem
    exact ⟨this.1, this.2, wServing hp i v hmem⟩

theorem inv_getExnSkip (s : State) (hi : Inv cfg s) (i : Nat) (e : Exn) (q : List Msg) (hp : s.p = .waiting)
    (he : cfg.eoe = false) (hq : s.queue = .exn i e :: q) : Inv cfg { s with queue := q } := by
  obtain ⟨len, chan, queue, putting, wServing, wQueued, wAnswer, wRaise, kLosers, kAll, ret, await, raised⟩ := hi
  constructor <;> simp only [] <;> try (first | assumption | grind [inSolve])

theorem inv_getExnExit (s : State) (hi : Inv cfg s) (i : Nat) (e : Exn) (q : List Msg) (hp : s.p = .waiting)
    (he : cfg.eoe = true) (hq : s.queue = .exn i e :: q) :
    Inv cfg { s with queue := q, p := .killAll (.member i e) 0 } := by
  obtain ⟨len, chan, queue, putting, wServing, wQueued, wAnswer, wRaise, kLosers, kAll, ret, await, raised⟩ := hi
  constructor <;> simp only [] <;> try (first | assumption | grind [inSolve])
  case kAll =>
    intro e' k h
    simp at h; obtain ⟨rfl, rfl⟩ := h
    have hmem : Msg.exn i e ∈ s.queue := by rw [hq]; exact List.mem_cons_self
    have := queue _ hmem
    exact ⟨⟨he, this.1, this.2⟩, by intro j hj; omega⟩

theorem inv_allDead (s : State) (hi : Inv cfg s) (hp : s.p = .waiting) (hq : s.queue = [])
    (hd : ∀ m ∈ s.ms, alive m = false) : Inv cfg { s with p := .raised .allFailed } := by
  obtain ⟨len, chan, queue, putting, wServing, wQueued, wAnswer, wRaise, kLosers, kAll, ret, await, raised⟩ := hi
  have hd' : ∀ (j : Nat) m, s.ms[j]? = some m → alive m = false :=
    fun j m h => hd m (List.mem_iff_getElem?.mpr ⟨j, h⟩)
  constructor <;> simp only [] <;> try (first | assumption | grind [inSolve])
  case raised =>
    intro e h
    simp at h; subst h
    refine ⟨⟨?_, ?_⟩, hd'⟩
    · intro i hi v hb
      obtain ⟨m, h1, h2⟩ := wAnswer hp i hi v hb
      rcases h2 with h2 | ⟨_, h2⟩
      · rw [hd' i m h1] at h2; simp at h2
      · rw [hq] at h2; simp at h2
    · intro he i hi e hb
      rcases wRaise hp he i hi e hb with ⟨m, h1, h2⟩ | h
      · rw [hd' i m h1] at h2; simp at h2
      · rw [hq] at h; simp at h

theorem kill_ne_putting (os : OS) (m : MSt) (m' : Msg) (h : kill os m = .putting m') : False := by
  cases m <;> cases hk : os.killAtomic <;> simp [kill, hk] at h

theorem inv_killLoser (s : State) (hi : Inv cfg s) (v : Bool) (w k : Nat) (hp : s.p = .killLosers v w k)
    (hk : k < s.ms.length) :
    Inv cfg { s with ms := if k = w then s.ms else s.ms.modify k (kill cfg.os), p := .killLosers v w (k + 1) } := by
  obtain ⟨len, chan, queue, putting, wServing, wQueued, wAnswer, wRaise, kLosers, kAll, ret, await, raised⟩ := hi
  constructor <;> simp only [] <;> try (first | assumption | grind [inSolve])
  case putting =>
    intro j m h
    split at h
    · exact putting j m h
    · rcases get_modify_cases _ h with ⟨_, a, _, h2⟩ | ⟨_, h2⟩
      · exact absurd h2.symm (fun h' => kill_ne_putting _ _ _ h')
      · exact putting j m h2

theorem inv_killLosersDone (s : State) (hi : Inv cfg s) (v : Bool) (w k : Nat) (hp : s.p = .killLosers v w k) :
    Inv cfg { s with p := .returned v w } := by
  obtain ⟨len, chan, queue, putting, wServing, wQueued, wAnswer, wRaise, kLosers, kAll, ret, await, raised⟩ := hi
  constructor <;> simp only [] <;> try (first | assumption | grind [inSolve])

theorem inv_killAllStep (s : State) (hi : Inv cfg s) (e : Err) (k : Nat) (hp : s.p = .killAll e k)
    (hk : k < s.ms.length) :
    Inv cfg { s with ms := s.ms.modify k (kill cfg.os), p := .killAll e (k + 1) } := by
  obtain ⟨len, chan, queue, putting, wServing, wQueued, wAnswer, wRaise, kLosers, kAll, ret, await, raised⟩ := hi
  constructor <;> simp only [] <;> try (first | assumption | grind [inSolve])
  case putting =>
    intro j m h
    rcases get_modify_cases _ h with ⟨_, a, _, h2⟩ | ⟨_, h2⟩
    · exact absurd h2.symm (fun h' => kill_ne_putting _ _ _ h')
    · exact putting j m h2
  case kAll =>
    intro e' k' h
    simp at h; obtain ⟨h1, h2⟩ := h; subst h1 h2
    refine ⟨(kAll e k hp).1, ?_⟩
    intro j hj m h
    rcases get_modify_cases _ h with ⟨_, a, _, h2⟩ | ⟨hne, h2⟩
    · subst h2; exact alive_kill _ _
    · exact (kAll e k hp).2 j (by omega) m h2

theorem inv_killAllDone (s : State) (hi : Inv cfg s) (e : Err) (k : Nat) (hp : s.p = .killAll e k)
    (hk : s.ms.length ≤ k) : Inv cfg { s with p := .raised e } := by
  obtain ⟨len, chan, queue, putting, wServing, wQueued, wAnswer, wRaise, kLosers, kAll, ret, await, raised⟩ := hi
  constructor <;> simp only [] <;> try (first | assumption | grind [inSolve])
  case raised =>
    intro e' h
    simp at h; subst h
    refine ⟨(kAll e k hp).1, ?_⟩
    intro j m h
    exact (kAll e k hp).2 j (by have := get_lt h; omega) m h

theorem inv_recvReply (s : State) (hi : Inv cfg s) (v : Bool) (w q j q' : Nat) (r : List (Nat × Nat))
    (hp : s.p = .awaiting v w q) (hr : s.reply = (j, q') :: r) :
    Inv cfg { s with reply := r, p := .returned v w, served := s.served ++ [(j, q')] } := by
  obtain ⟨len, chan, queue, putting, wServing, wQueued, wAnswer, wRaise, kLosers, kAll, ret, await, raised⟩ := hi
  constructor <;> simp only [] <;> try (first | assumption | grind [inSolve])

theorem inv_fresh (s : State) : Inv cfg (fresh cfg s) := by
  constructor <;> simp only [fresh] <;> try (first | assumption | grind [inSolve])
  case wAnswer =>
    intro _ i hi v _
    exact ⟨.solving, by simp [hi], Or.inl rfl⟩
  case wRaise =>
    intro _ _ i hi e _
    exact Or.inl ⟨.solving, by simp [hi], rfl⟩

theorem inv_ask (s : State) (hi : Inv cfg s) (v : Bool) (w q : Nat) (hp : s.p = .returned v w) :
    Inv cfg { s with ctrl := s.ctrl ++ [.query q], p := .awaiting v w q } := by
  obtain ⟨len, chan, queue, putting, wServing, wQueued, wAnswer, wRaise, kLosers, kAll, ret, await, raised⟩ := hi
  constructor <;> simp only [] <;> try (first | assumption | grind [inSolve])

theorem inv_serveCrash (s : State) (hi : Inv cfg s) (i : Nat) (hm : s.ms[i]? = some .serving) :
    Inv cfg { s with ms := s.ms.set i .crashed } := by
  have hin := idx_lt_n cfg hi hm
  obtain ⟨len, chan, queue, putting, wServing, wQueued, wAnswer, wRaise, kLosers, kAll, ret, await, raised⟩ := hi
  constructor <;> simp only [] <;> try (first | assumption | grind [inSolve])
  case wAnswer =>
    intro hp j hj v hb
    by_cases hji : j = i
    · subst hji
      obtain ⟨v', hv'⟩ := wQueued hp j hm
      have := (queue _ hv').2
      rw [hb] at this; simp at this; subst this
      exact ⟨_, get_set_eq hm, Or.inr ⟨rfl, hv'⟩⟩
    · rw [get_set_ne (fun h => hji h.symm)]; exact wAnswer hp j hj v hb
  case wRaise =>
    intro hp he j hj e hb
    by_cases hji : j = i
    · subst hji
      obtain ⟨v', hv'⟩ := wQueued hp j hm
      have := (queue _ hv').2
      rw [hb] at this; simp at this
    · rw [get_set_ne (fun h => hji h.symm)]; exact wRaise hp he j hj e hb
  case kAll =>
    intro e k hp
    refine ⟨(kAll e k hp).1, ?_⟩
    intro j hj m' h
    rcases get_set_cases hm h with ⟨_, h2⟩ | ⟨_, h2⟩
    · subst h2; rfl
    · exact (kAll e k hp).2 j hj m' h2
  case raised =>
    intro e hp
    have := (raised e hp).2 i _ hm; simp [alive] at this

theorem inv_recvEOF (s : State) (hi : Inv cfg s) (v : Bool) (w q : Nat) (hp : s.p = .awaiting v w q) :
    Inv cfg { s with ctrl := [], p := .returned v w } := by
  obtain ⟨len, chan, queue, putting, wServing, wQueued, wAnswer, wRaise, kLosers, kAll, ret, await, raised⟩ := hi
  constructor <;> simp only [] <;> try (first | assumption | grind [inSolve])

theorem inv_close (s : State) :
    Inv cfg { s with ms := [], queue := [], ctrl := [], reply := [], p := .ready, served := [] } := by
  constructor <;> simp [inSolve]

theorem inv_istep (s t : State) (hi : Inv cfg s) (h : IStep cfg s t) : Inv cfg t := by
  cases h with
  | finish i hm => exact inv_finish cfg s hi i hm
  | flush i m hm => exact inv_flush cfg s hi i m hm
  | recvExit i cs hm hc => exact inv_recvExit cfg s hi i cs hm hc
  | recvQuery i q cs hm hc => exact inv_recvQuery cfg s hi i q cs hm hc
  | lateRecv i c cs _ hm hc => exact inv_lateRecv cfg s hi i c cs hm hc
  | serveCrash i _ hm => exact inv_serveCrash cfg s hi i hm
  | recvEOF v w q hp _ _ => exact inv_recvEOF cfg s hi v w q hp
  | getAns i v q hp hq => exact inv_getAns cfg s hi i v q hp hq
  | getExnSkip i e q hp he hq => exact inv_getExnSkip cfg s hi i e q hp he hq
  | getExnExit i e q hp he hq => exact inv_getExnExit cfg s hi i e q hp he hq
  | allDead hp hq hd => exact inv_allDead cfg s hi hp hq hd
  | killLoser v w k hp hk => exact inv_killLoser cfg s hi v w k hp hk
  | killLosersDone v w k hp _ => exact inv_killLosersDone cfg s hi v w k hp
  | killAllStep e k hp hk => exact inv_killAllStep cfg s hi e k hp hk
  | killAllDone e k hp hk => exact inv_killAllDone cfg s hi e k hp hk
  | recvReply v w q j q' r hp hr => exact inv_recvReply cfg s hi v w q j q' r hp hr

theorem inv_ustep (s t : State) (hi : Inv cfg s) (h : UStep cfg s t) : Inv cfg t := by
  cases h with
  | solveStart _ => exact inv_fresh cfg s
  | ask v w q hp => exact inv_ask cfg s hi v w q hp
  | edit _ => exact hi
  | askNoSolver _ => exact hi
  | close _ => exact inv_close cfg s

theorem inv_step (s t : State) (hi : Inv cfg s) (h : Step cfg s t) : Inv cfg t := by
  cases h with
  | internal h => exact inv_istep cfg s t hi h
  | user h => exact inv_ustep cfg s t hi h

theorem inv_reach (s : State) (h : Reach cfg s) : Inv cfg s := by
  induction h with
  | init => exact inv_init cfg
  | step s t _ hst ih => exact inv_step cfg s t ih hst

end PySMT.Portfolio
