import PySMT.Proofs.C07Read8
/-!
# C07 (`read_toSexp`, continued): Real constants
-/
namespace PySMT.Printer
open PySMT.Std PySMT.Sexp

theorem rat_abs_div (r : Rat) :
    ((r.num.natAbs : Nat) : Rat) / ((r.den : Nat) : Rat) = if r < 0 then -r else r := by
  have e := Rat.mkRat_self r
  rw [Rat.mkRat_eq_div] at e
  by_cases h : r < 0
  · simp only [h, if_true]
    have h0 : ¬ 0 ≤ r.num := by rw [Rat.num_nonneg]; exact Rat.not_le.2 h
    have : ((r.num.natAbs : Nat) : Int) = -r.num := by omega
    rw [← Rat.intCast_natCast, this, Rat.intCast_neg, Rat.div_def, Rat.neg_mul, ← Rat.div_def, e]
  · simp only [h, if_false]
    have h0 : 0 ≤ r.num := by rw [Rat.num_nonneg]; exact Rat.not_lt.1 h
    have : ((r.num.natAbs : Nat) : Int) = r.num := Int.natAbs_of_nonneg h0
    rw [← Rat.intCast_natCast, this, e]

theorem rat_abs_int (r : Rat) (hd : r.den = 1) : ((r.num.natAbs : Nat) : Rat) = if r < 0 then -r else r := by
  have e := Rat.mkRat_self r
  rw [hd, Rat.mkRat_one] at e
  by_cases h : r < 0
  · simp only [h, if_true]
    have h0 : ¬ 0 ≤ r.num := by rw [Rat.num_nonneg]; exact Rat.not_le.2 h
    have : ((r.num.natAbs : Nat) : Int) = -r.num := by omega
    rw [← Rat.intCast_natCast, this, Rat.intCast_neg, e]
  · simp only [h, if_false]
    have h0 : 0 ≤ r.num := by rw [Rat.num_nonneg]; exact Rat.not_lt.1 h
    have : ((r.num.natAbs : Nat) : Int) = r.num := Int.natAbs_of_nonneg h0
    rw [← Rat.intCast_natCast, this, e]

theorem den_ne_zero (r : Rat) : ((r.den : Nat) : Rat) ≠ 0 := by
  intro h
  exact r.den_nz (Rat.natCast_eq_zero_iff.mp h)

section
variable (sp : Spell) (env : SEnv) (sc : List Binding) (srt : Bool) (toS : Term → Sexp)

theorem rd_decAtom (n : Nat) : rd env sc (decAtom n) = .ok (Term.real (n : Rat), .real) := by
  have h := decimal_read n
  simp only [decAtom, rd, atomTerm, h.1, h.2]

theorem ap_neg_real (x : Rat) : applyTheory "-" [(Term.real x, .real)] = .ok (Term.real (-x), .real) := by
  simp [applyTheory, isNumConst, Term.real]

theorem ap_div_consts (x y : Rat) (hy : y ≠ 0) :
    applyTheory "/" [(Term.real x, .real), (Term.real y, .real)] = .ok (Term.real (x / y), .real) := by
  simp [applyTheory, leftFold, realDiv, isNumConst, Term.real, hy]

theorem reads_realConst (hsp : SpellStd sp) (hsc : ThFree sc) (r : Rat) (τ : Ty)
    (hty : (Term.node .realConst [] (.q r)).typeOf = some τ) (hS : stdTy .realConst (.q r) [] = some τ) :
    NodeReads sp env sc srt toS .realConst [] (.q r) := by
  simp only [stdTy, Option.some.injEq] at hS
  subst hS
  apply reads_of sp env sc srt toS _ _ _ _ _ hty (unfoldAV_plain srt _ _ _ (by decide))
  -- the body (without the sign) reads as |r|
  have hbody : rd env sc
      (if r.den != 1 then Sexp.list [.atom (sp "walk_real_constant:1"), decAtom r.num.natAbs, decAtom r.den]
       else decAtom r.num.natAbs) = .ok (Term.real (if r < 0 then -r else r), .real) := by
    by_cases hd : r.den = 1
    · have : (r.den != 1) = false := by simp [hd]
      simp only [this, Bool.false_eq_true, if_false]
      rw [rd_decAtom, rat_abs_int r hd]
    · have : (r.den != 1) = true := by simpa using hd
      simp only [this, if_true, spell sp hsp "walk_real_constant:1" "/" (by decide)]
      rw [rd_op env sc hsc "/" (by decide) _ [(Term.real (r.num.natAbs : Rat), .real), (Term.real (r.den : Rat), .real)]
        (by simp [rdList, rd_decAtom]) (by simp), ap_div_consts _ _ (den_ne_zero r), rat_abs_div]
  simp only [nodeSexp, realSexp]
  generalize (if r.den != 1 then Sexp.list [.atom (sp "walk_real_constant:1"), decAtom r.num.natAbs, decAtom r.den]
       else decAtom r.num.natAbs) = body at hbody ⊢
  by_cases hneg : r < 0
  · simp only [hneg, if_true, spell sp hsp "walk_real_constant:0" "-" (by decide)] at hbody ⊢
    rw [rd_op env sc hsc "-" (by decide) _ [(Term.real (-r), .real)] (by simp [rdList, hbody]) (by simp),
      ap_neg_real, Rat.neg_neg]
    rfl
  · simp only [hneg, if_false] at hbody ⊢
    rw [hbody]; rfl

end

end PySMT.Printer
