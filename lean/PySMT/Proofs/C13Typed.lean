/-
C13, detection, typed half: on well-sorted terms (`Spec.HasType`, the SMT-LIB sorting discipline of C03)
the modelled `TheoryOracle` enables *all* features of the formula (`Features.features`), i.e. also the
operand-implied ones: operator families over bit-vector / string / array operands and the parameter sorts of
applied functions.

Proof shape.  Next to `Covers (theoryOf t) (features t)` the recursion carries
`Covers (theoryOf t) (ofSort τ)` ("the theory of a term enables the sort of the term").  At a node of rank
`Sig op p σs τ` let `N = intrinsic ⊔ ⨆ ofSort σᵢ`.  The rule result covers `N` (`rule_own`, `rule_mono` and the
second invariant for the children); and `N` covers both the result sort (`sig_result`) and the
operand-implied needs of the node (`sig_operand`) -- two case analyses over the 60 ranks that never look at
the oracle.
-/
import PySMT.Proofs.C13Detect
import PySMT.Proofs.C03Spec
import PySMT.Proofs.C03Tree
import PySMT.Impl.WF
namespace PySMT.TheoryOracle
open PySMT PySMT.Logics PySMT.Features PySMT.Spec

theorem join_covers_left (a b : Theory) : Covers (Features.join a b) a := by
  constructor <;> simp only [Features.join] <;> intro h <;> simp [h]
theorem join_covers_right (a b : Theory) : Covers (Features.join a b) b := by
  constructor <;> simp only [Features.join] <;> intro h <;> simp [h]

theorem joinAll_covers_mem {l : List Theory} {x : Theory} (h : x ∈ l) : Covers (Features.joinAll l) x := by
  induction l with
  | nil => cases h
  | cons a l ih =>
    simp only [Features.joinAll, List.foldr_cons]
    rcases List.mem_cons.1 h with rfl | h
    · exact join_covers_left _ _
    · exact (join_covers_right _ _).trans (ih h)

theorem ofSort_linear : (τ : Ty) → (ofSort τ).linear = true
  | .bool | .int | .real | .str | .bv _ | .custom _ => rfl
  | .array i e => by simp [ofSort, Features.join, ofSort_linear i, ofSort_linear e, Features.none]

theorem array_covers_idx (ι ε : Ty) : Covers (ofSort (.array ι ε)) (ofSort ι) := by
  simp only [ofSort]; exact (join_covers_right _ _).trans (join_covers_left _ _)
theorem array_covers_elem (ι ε : Ty) : Covers (ofSort (.array ι ε)) (ofSort ε) := by
  simp only [ofSort]; exact (join_covers_right _ _).trans (join_covers_right _ _)
theorem array_covers_arrays (ι ε : Ty) : (ofSort (.array ι ε)).arrays = true := by
  simp [ofSort, Features.join, Features.none]

/-- what a node of argument sorts `σs` can rely on: its intrinsic needs and the sorts of its arguments -/
def nodeNeed (op : Op) (p : Payload) (args : List Term) (σs : List Ty) : Theory :=
  Features.join (intrinsic op p args) (Features.joinAll (σs.map ofSort))

theorem need_arg {op p args σs} {σ : Ty} (h : σ ∈ σs) : Covers (nodeNeed op p args σs) (ofSort σ) :=
  (join_covers_right _ _).trans (joinAll_covers_mem (List.mem_map_of_mem h))

theorem need_head {op p args} {σ : Ty} {σs : List Ty} : Covers (nodeNeed op p args (σ :: σs)) (ofSort σ) :=
  need_arg List.mem_cons_self

/-- all bit-vector sorts need the same thing -/
theorem need_bv {op p args} {m w : Nat} {σs : List Ty} :
    Covers (nodeNeed op p args (.bv m :: σs)) (ofSort (.bv w)) :=
  need_head (σ := .bv m)

theorem need_intrinsic {op p args σs} : Covers (nodeNeed op p args σs) (intrinsic op p args) :=
  join_covers_left _ _

/-- unfolding set for needs of concrete operators -/
macro "need_simp" : tactic => `(tactic|
  simp [intrinsic, operandImplied, Features.join, Features.joinAll, Features.none, isIntValuedOp, isBvOp, isStrOp,
    ofSort, ofSym, Sym.isFn, ofSort_linear, array_covers_arrays])

theorem head_of_all {σs : List Ty} {σ : Ty} (h2 : 2 ≤ σs.length) (h : ∀ s ∈ σs, s = σ) : σ ∈ σs := by
  cases σs with
  | nil => simp at h2
  | cons a r => have := h a (by simp); subst this; simp

/-! ### the result sort of a rank is accounted for by the node's intrinsic needs and its argument sorts -/
theorem sig_result {op : Op} {p : Payload} {σs : List Ty} {τ : Ty} (args : List Term) (h : Sig op p σs τ)
    (hp : op ≠ .pow) : Covers (nodeNeed op p args σs) (ofSort τ) := by
  cases h
  case pow => exact absurd rfl hp
  case plus => exact need_arg (head_of_all (by assumption) (by assumption))
  case times => exact need_arg (head_of_all (by assumption) (by assumption))
  case strConcat => exact need_arg (head_of_all (by assumption) (by assumption))
  case bvComp => exact need_bv
  case bvConcat => exact need_bv
  case bvExtract => exact need_bv
  case bvZext => exact need_bv
  case bvSext => exact need_bv
  case select => exact (need_arg List.mem_cons_self).trans (array_covers_elem _ _)
  case arrayValue =>
    simp only [ofSort]
    refine Covers.join (need_intrinsic.trans ?_) (Covers.join (need_intrinsic.trans ?_) (need_arg List.mem_cons_self))
    · constructor <;> need_simp
    · simp only [intrinsic]; exact join_covers_right _ _
  case symbol hs =>
    refine need_intrinsic.trans ?_
    rename_i s
    have : s.isFn = false := by simp [Sym.isFn, hs]
    simp only [intrinsic, ofSym, this]
    exact join_covers_right _ _
  case app =>
    refine need_intrinsic.trans ?_
    simp only [intrinsic]
    exact join_covers_right _ _
  all_goals first
    | exact Covers.none _
    | exact need_arg List.mem_cons_self
    | exact need_arg (List.mem_cons_of_mem _ List.mem_cons_self)
    | exact need_intrinsic.trans (by constructor <;> need_simp)

/-! ### the operand-implied needs of a rank are accounted for in the same way -/

/-- a bit-vector operand accounts for the bit-vector operator family, etc. -/
theorem bv_accounts (op : Op) (p : Payload) (m : Nat) (h1 : isStrOp op = false)
    (h2 : (op == .arraySelect || op == .arrayStore) = false) (h3 : op ≠ .function) :
    Covers (ofSort (.bv m)) (operandImplied op p) := by
  constructor <;> cases op <;> simp_all [operandImplied, Features.join, Features.none, ofSort, isStrOp]

theorem str_accounts (op : Op) (p : Payload) (h1 : isBvOp op = false)
    (h2 : (op == .arraySelect || op == .arrayStore) = false) (h3 : op ≠ .function) :
    Covers (ofSort .str) (operandImplied op p) := by
  constructor <;> cases op <;> simp_all [operandImplied, Features.join, Features.none, ofSort, isBvOp]

theorem sig_operand {op : Op} {p : Payload} {σs : List Ty} {τ : Ty} (args : List Term) (h : Sig op p σs τ) :
    Covers (nodeNeed op p args σs) (operandImplied op p) := by
  cases h
  case app =>
    simp only [operandImplied]
    refine Covers.join ?_ (join_covers_right _ _)
    constructor <;> need_simp
  case bvUn hm =>
    simp only [bvUnary, List.mem_cons, List.mem_nil_iff, or_false] at hm
    rcases hm with rfl | rfl <;> exact need_head.trans (bv_accounts _ _ _ rfl rfl (by decide))
  case bvBin hm =>
    simp only [bvBinary, List.mem_cons, List.mem_nil_iff, or_false] at hm
    rcases hm with rfl | rfl | rfl | rfl | rfl | rfl | rfl | rfl | rfl | rfl | rfl | rfl | rfl <;>
      exact need_head.trans (bv_accounts _ _ _ rfl rfl (by decide))
  case bvRel hm =>
    simp only [bvRelation, List.mem_cons, List.mem_nil_iff, or_false] at hm
    rcases hm with rfl | rfl | rfl | rfl <;> exact need_head.trans (bv_accounts _ _ _ rfl rfl (by decide))
  case strConcat =>
    exact (need_arg (head_of_all (by assumption) (by assumption))).trans (str_accounts _ _ rfl rfl (by decide))
  case select =>
    refine need_head.trans ?_
    constructor <;> need_simp
  case store =>
    refine need_head.trans ?_
    constructor <;> need_simp
  all_goals first
    | exact need_head.trans (bv_accounts _ _ _ rfl rfl (by decide))
    | exact need_head.trans (str_accounts _ _ rfl rfl (by decide))
    | exact need_intrinsic.trans (by constructor <;> need_simp)

/-! ### recursion over the term -/

theorem sig_shape {op : Op} {p : Payload} {σs : List Ty} {τ : Ty} (h : Sig op p σs τ) (hp : op ≠ .pow) :
    opShape op σs.length ∧ nodeFO op p := by
  cases h
  case pow => exact absurd rfl hp
  case bvUn hm =>
    simp only [bvUnary, List.mem_cons, List.mem_nil_iff, or_false] at hm
    rcases hm with rfl | rfl <;> simp [opShape, nodeFO]
  case bvBin hm =>
    simp only [bvBinary, List.mem_cons, List.mem_nil_iff, or_false] at hm
    rcases hm with rfl | rfl | rfl | rfl | rfl | rfl | rfl | rfl | rfl | rfl | rfl | rfl | rfl <;>
      simp [opShape, nodeFO]
  case bvRel hm =>
    simp only [bvRelation, List.mem_cons, List.mem_nil_iff, or_false] at hm
    rcases hm with rfl | rfl | rfl | rfl <;> simp [opShape, nodeFO]
  case symbol hs => simp [opShape, nodeFO, Sym.isFn, hs]
  case forall_ hne hall =>
    refine ⟨by simp [opShape], ?_⟩
    intro v hv
    simp [Sym.isFn, hall v hv]
  case exists_ hne hall =>
    refine ⟨by simp [opShape], ?_⟩
    intro v hv
    simp [Sym.isFn, hall v hv]
  all_goals simp [opShape, nodeFO]

theorem map_sorts : ∀ {args : List Term} {σs : List Ty}, args.map Term.sortOf = σs.map some →
    args.length = σs.length ∧ (∀ σ ∈ σs, ∃ a ∈ args, a.sortOf = some σ) ∧
    (∀ a ∈ args, ∃ σ, a.sortOf = some σ)
  | [], [], _ => ⟨rfl, by simp, by simp⟩
  | [], _ :: _, h => by simp at h
  | _ :: _, [], h => by simp at h
  | a :: as, σ :: σs, h => by
    simp only [List.map_cons, List.cons.injEq] at h
    obtain ⟨h1, h2, h3⟩ := map_sorts h.2
    refine ⟨by simp [h1], ?_, ?_⟩
    · intro x hx
      rcases List.mem_cons.1 hx with rfl | hx
      · exact ⟨a, by simp, h.1⟩
      · obtain ⟨b, hb, hbs⟩ := h2 x hx
        exact ⟨b, by simp [hb], hbs⟩
    · intro b hb
      rcases List.mem_cons.1 hb with rfl | hb
      · exact ⟨σ, h.1⟩
      · exact h3 b hb

/-- on a well-sorted, `pow`-free term the detected theory enables every feature of the term, and the sort of
the term -/
theorem theoryOf_covers_typed : (t : Term) → (τ : Ty) → t.sortOf = some τ → noPow t = true →
    Covers (theoryOf t) (features t) ∧ Covers (theoryOf t) (ofSort τ)
  | .node op args p, τ, hs, hnp => by
    obtain ⟨σs, hmap, hsig⟩ := (Term.sortOf_node op args p τ).1 hs
    have sig := sig_of_sigOf hsig
    rw [noPow] at hnp
    simp only [Bool.and_eq_true, bne_iff_ne, ne_eq] at hnp
    obtain ⟨hop, hch⟩ := hnp
    have hchild := all_map_id hch
    obtain ⟨hlen, hex, hall⟩ := map_sorts hmap
    obtain ⟨hshape, hfo⟩ := sig_shape sig hop
    rw [← hlen] at hshape
    have ih : ∀ a ∈ args, ∀ σ, a.sortOf = some σ →
        Covers (theoryOf a) (features a) ∧ Covers (theoryOf a) (ofSort σ) :=
      fun a ha σ hσ => theoryOf_covers_typed a σ hσ (hchild a ha)
    have hmono : ∀ a ∈ args, Covers (rule op p args (args.map theoryOf)) (theoryOf a) :=
      fun a ha => rule_mono op p args _ (by simpa using hshape) (List.mem_map_of_mem ha)
    have hown : Covers (rule op p args (args.map theoryOf)) (intrinsic op p args) :=
      rule_own op p args theoryOf hshape hfo
    have hN : Covers (rule op p args (args.map theoryOf)) (nodeNeed op p args σs) := by
      refine Covers.join hown (Covers.joinAll ?_)
      intro x hx
      obtain ⟨σ, hσ, rfl⟩ := List.mem_map.1 hx
      obtain ⟨a, ha, has⟩ := hex σ hσ
      exact (hmono a ha).trans (ih a ha σ has).2
    simp only [theoryOf, features, own]
    refine ⟨Covers.join (Covers.join hown (hN.trans (sig_operand args sig))) (Covers.joinAll ?_),
      hN.trans (sig_result args sig hop)⟩
    intro x hx
    obtain ⟨a, ha, rfl⟩ := List.mem_map.1 hx
    obtain ⟨σ, hσ⟩ := hall a ha
    exact (hmono a ha).trans (ih a ha σ hσ).1

/-! ### corollaries -/

/-- well-sorted by the SMT-LIB discipline -/
theorem covers_of_hasType (t : Term) (τ : Ty) (h : HasType t τ) (hp : noPow t = true) :
    Covers (theoryOf t) (features t) :=
  (theoryOf_covers_typed t τ (sortOf_of_hasType h) hp).1

/-- a well-formed term (`Term.wf`) contains no `pow` -/
theorem noPow_of_wf : (t : Term) → t.wf = true → noPow t = true
  | .node op args p, h => by
    obtain ⟨h1, h2, _⟩ := Term.wf_node.1 h
    rw [noPow]
    simp only [Bool.and_eq_true, bne_iff_ne, ne_eq, List.all_eq_true, List.mem_map, id]
    refine ⟨?_, ?_⟩
    · rintro rfl
      simp [Op.shapeOK] at h2
    · rintro _ ⟨a, ha, rfl⟩
      exact noPow_of_wf a (h1 a ha)

/-- accepted by pySMT's checker with constructor arities (`Term.wf`), outside the checker's holes (`noF06`) -/
theorem covers_of_wf (t : Term) (hwf : t.wf = true) (hex : t.noF06 = true) :
    Covers (theoryOf t) (features t) := by
  have hwt := Term.wf_wt t hwf
  obtain ⟨τ, hτ⟩ := Option.isSome_iff_exists.1 (C03.wt_typeOf_isSome t hwt)
  exact (theoryOf_covers_typed t τ (C03.sound_sortOf t τ hex hwt hτ) (noPow_of_wf t hwf)).1

end PySMT.TheoryOracle
