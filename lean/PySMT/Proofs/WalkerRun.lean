import PySMT.Proofs.WalkerBasic

/-! The key lemma on the walker machine (`run_expand`), by strong induction on `rank` with an inner induction on
    the list of pending children: from `(false, n) :: tail`, with a memo that is correct and closed under children,
    the loop reaches `tail` after at most `2 + 2·(edges leaving the newly memoised nodes)` iterations, having invoked
    the callback exactly once on each node that is below `n` and was not memoised, and on no other node --
    or it stops with the error that the recursive specification prescribes. -/

namespace PySMT.Walker
set_option linter.unusedSectionVars false
set_option linter.unusedSimpArgs false

section
variable {M N R E : Type} [DecidableEq N] [MemoLike M N R]

/-- every memoised value is the value prescribed by the recursive specification -/
def MemoOK (g : Graph N) (d : N → Bool) (f0 : N → List R → Except E R) (m : M) : Prop :=
  ∀ n r, look m n = some r → spec g d f0 n = .ok r

/-- the children of a memoised node are memoised -/
def DownClosed (g : Graph N) (d : N → Bool) (m : M) : Prop :=
  ∀ n, (look m n).isSome → ∀ c ∈ kids g d n, (look m c).isSome

structure Closed (g : Graph N) (d : N → Bool) (f0 : N → List R → Except E R) (m : M) : Prop where
  ok : MemoOK g d f0 m
  down : DownClosed g d m

/-- `m'` extends `m` -/
def Ext (m m' : M) : Prop := ∀ n r, look m n = some r → look m' n = some r

theorem Ext.refl (m : M) : Ext m m := fun _ _ h => h
theorem Ext.trans {a b c : M} (h1 : Ext a b) (h2 : Ext b c) : Ext a c :=
  fun n r h => h2 n r (h1 n r h)

/-- reflexive-transitive descendant relation (not looking below `direct` nodes) -/
inductive Desc (g : Graph N) (d : N → Bool) : N → N → Prop
  | refl (n : N) : Desc g d n n
  | step (n c x : N) : c ∈ kids g d n → Desc g d c x → Desc g d n x

theorem kids_rank (g : Graph N) (d : N → Bool) (n c : N) (h : c ∈ kids g d n) : g.rank c < g.rank n := by
  unfold kids at h
  by_cases hd : d n
  · simp [hd] at h
  · simp only [hd, Bool.false_eq_true, if_false] at h; exact g.acyclic n c h

theorem Desc.rank_le {g : Graph N} {d : N → Bool} {a b : N} (h : Desc g d a b) : g.rank b ≤ g.rank a := by
  induction h with
  | refl n => exact Nat.le_refl _
  | step n c x hc _ ih => have := kids_rank g d n c hc; omega

/-- number of edges leaving the nodes of `l` -/
def cost (g : Graph N) (l : List N) : Nat := (l.map (fun x => (g.children x).length)).sum

theorem cost_nil (g : Graph N) : cost g [] = 0 := rfl
theorem cost_cons (g : Graph N) (x : N) (l : List N) : cost g (x :: l) = (g.children x).length + cost g l := by
  simp [cost]
theorem cost_append (g : Graph N) (l1 l2 : List N) : cost g (l1 ++ l2) = cost g l1 + cost g l2 := by
  simp [cost]

/-- when all of `cs` is memoised in a correct memo, the argument list built by `_compute_node_result` is the list
    of specified values -/
theorem lookAll_collect (g : Graph N) (d : N → Bool) (f0 : N → List R → Except E R) (m : M)
    (hm : MemoOK g d f0 m) (cs : List N) (h : ∀ c ∈ cs, (look m c).isSome) :
    ∃ args, lookAll m cs = some args ∧ collect (spec g d f0) cs = .ok args := by
  induction cs with
  | nil => exact ⟨[], rfl, rfl⟩
  | cons c cs ih =>
    obtain ⟨args, h1, h2⟩ := ih (fun c' hc' => h c' (List.mem_cons_of_mem _ hc'))
    obtain ⟨r, hr⟩ := Option.isSome_iff_exists.mp (h c List.mem_cons_self)
    refine ⟨r :: args, ?_, ?_⟩
    · simp [lookAll, hr, h1]
    · simp [collect, h2, hm c r hr]

/-- what the machine has done after `j` iterations started in `s` (whose stack is `cs` pending on top of `tail`);
    `new` = the nodes memoised meanwhile, `vis` = the nodes expanded meanwhile while not memoised -/
def Outcome (g : Graph N) (d : N → Bool) (f0 : N → List R → Except E R) (s : WState M N)
    (tail : List (Bool × N)) (cs : List N) (j : Nat) (new vis : List N) (m' : M) : Prop :=
  match collect (spec g d f0) cs with
  | .ok _ => vis = new ∧
             ∃ p', iter g d (fun _ => f0) j s = .run ⟨tail, m', new ++ s.trace, p', s.iters + j⟩ ∧
               p' ≤ s.pushes + cs.length + 2 * cost g new ∧ ∀ c ∈ cs, (look m' c).isSome
  | .error e => ∃ s', iter g d (fun _ => f0) j s = .fail (.cb e) s' ∧
               s'.pushes ≤ s.pushes + cs.length + 2 * cost g vis

def Reach (g : Graph N) (d : N → Bool) (f0 : N → List R → Except E R) (s : WState M N)
    (tail : List (Bool × N)) (cs : List N) : Prop :=
  ∃ j new m' vis, new.Nodup ∧ (∀ x ∈ new, look s.memo x = none ∧ ∃ r ∈ cs, Desc g d r x) ∧
    (∀ x, (look m' x).isSome ↔ ((look s.memo x).isSome ∨ x ∈ new)) ∧ Ext s.memo m' ∧ Closed g d f0 m' ∧
    (vis.Nodup ∧ (∀ x ∈ vis, look s.memo x = none ∧ ∃ r ∈ cs, Desc g d r x) ∧
      j ≤ 2 * cs.length + 2 * cost g vis) ∧
    Outcome g d f0 s tail cs j new vis m'

end

section
variable {M N R E : Type} [DecidableEq N] [MemoLike M N R] [LawfulMemo M N R]

theorem run_list (g : Graph N) (d : N → Bool) (f0 : N → List R → Except E R) (k : Nat)
    (IH : ∀ n, g.rank n < k → ∀ (tail : List (Bool × N)) (m : M) (tr : List N) (p it : Nat), Closed g d f0 m →
      Reach g d f0 ⟨(false, n) :: tail, m, tr, p, it⟩ tail [n]) :
    ∀ cs : List N, (∀ c ∈ cs, g.rank c < k) →
      ∀ (tail : List (Bool × N)) (m : M) (tr : List N) (p it : Nat), Closed g d f0 m →
      Reach g d f0 ⟨(cs.map (fun c => (false, c))).reverse ++ tail, m, tr, p, it⟩ tail cs := by
  intro cs
  induction cs with
  | nil =>
    intro _ tail m tr p it hm
    refine ⟨0, [], m, [], List.nodup_nil, by simp, by simp, Ext.refl m, hm, ⟨List.nodup_nil, by simp, by simp⟩, ?_⟩
    simp only [Outcome, collect]
    exact ⟨by simp, p, by simp [iter], by simp [cost], by simp⟩
  | cons c cs ih =>
    intro hr tail m tr p it hm
    have hr' : ∀ c' ∈ cs, g.rank c' < k := fun c' h => hr c' (List.mem_cons_of_mem _ h)
    have hstack : (List.map (fun c => (false, c)) (c :: cs)).reverse ++ tail
        = (List.map (fun c => (false, c)) cs).reverse ++ ((false, c) :: tail) := by
      simp [List.map_cons, List.reverse_cons, List.append_assoc]
    rw [hstack]
    obtain ⟨j1, new1, m1, vis1, nd1, fr1, dom1, x1, hm1, ⟨vnd1, vfr1, b1⟩, o1⟩ :=
      ih hr' ((false, c) :: tail) m tr p it hm
    simp only [Outcome] at o1
    have lift1 : ∀ {l : List N}, (∀ x ∈ l, look m x = none ∧ ∃ r ∈ cs, Desc g d r x) →
        ∀ x ∈ l, look m x = none ∧ ∃ r ∈ c :: cs, Desc g d r x := by
      intro l h x hx
      obtain ⟨h1, r, hr1, hd⟩ := h x hx
      exact ⟨h1, r, List.mem_cons_of_mem _ hr1, hd⟩
    cases hcs : collect (spec g d f0) cs with
    | error e =>
      -- a later sibling fails: so does the whole list, with the same error
      rw [hcs] at o1
      obtain ⟨s', hs', hp'⟩ := o1
      refine ⟨j1, new1, m1, vis1, nd1, lift1 fr1, dom1, x1, hm1, ⟨vnd1, lift1 vfr1, ?_⟩, ?_⟩
      · simp only [List.length_cons]; omega
      · simp only [Outcome, collect, hcs]
        exact ⟨s', hs', by simp only [List.length_cons] at hp' ⊢; omega⟩
    | ok rs =>
      rw [hcs] at o1
      obtain ⟨hv1, p1, e1, pb1, al1⟩ := o1
      subst hv1
      obtain ⟨j2, new2, m2, vis2, nd2, fr2, dom2, x2, hm2, ⟨vnd2, vfr2, b2⟩, o2⟩ :=
        IH c (hr c List.mem_cons_self) tail m1 (vis1 ++ tr) p1 (it + j1) hm1
      simp only [Outcome, collect] at o2
      simp only at fr2 dom2 x2 vfr2 fr1 dom1 x1
      have lift2 : ∀ {l : List N}, (∀ x ∈ l, look m1 x = none ∧ ∃ r ∈ [c], Desc g d r x) →
          (l ++ vis1).Nodup → l.Nodup →
          (l ++ vis1).Nodup ∧ ∀ x ∈ l ++ vis1, look m x = none ∧ ∃ r ∈ c :: cs, Desc g d r x := by
        intro l h hnd _
        refine ⟨hnd, ?_⟩
        intro x hx
        rcases List.mem_append.mp hx with h' | h'
        · obtain ⟨h1, r, hr1, hd⟩ := h x h'
          simp only [List.mem_singleton] at hr1; subst hr1
          refine ⟨?_, r, List.mem_cons_self, hd⟩
          cases hl : look m x with
          | none => rfl
          | some v => rw [x1 x v hl] at h1; cases h1
        · exact lift1 fr1 x h'
      have hnd_of : ∀ {l : List N}, (∀ x ∈ l, look m1 x = none ∧ ∃ r ∈ [c], Desc g d r x) → l.Nodup →
          (l ++ vis1).Nodup := by
        intro l h hl
        refine List.nodup_append.mpr ⟨hl, nd1, ?_⟩
        intro a ha b hb hab
        subst hab
        have h2 := (h a ha).1
        have : (look m1 a).isSome := (dom1 a).mpr (Or.inr hb)
        rw [h2] at this; cases this
      have hdom : ∀ x, (look m2 x).isSome ↔ ((look m x).isSome ∨ x ∈ new2 ++ vis1) := by
        intro x
        rw [dom2 x, dom1 x]; simp only [List.mem_append]
        constructor
        · rintro ((h | h) | h)
          · exact Or.inl h
          · exact Or.inr (Or.inr h)
          · exact Or.inr (Or.inl h)
        · rintro (h | h | h)
          · exact Or.inl (Or.inl h)
          · exact Or.inr h
          · exact Or.inl (Or.inr h)
      obtain ⟨hndn, hfrn⟩ := lift2 fr2 (hnd_of fr2 nd2) nd2
      obtain ⟨hndv, hfrv⟩ := lift2 vfr2 (hnd_of vfr2 vnd2) vnd2
      have hb : j1 + j2 ≤ 2 * (c :: cs).length + 2 * cost g (vis2 ++ vis1) := by
        simp only [List.length_cons, cost_append, List.length_nil] at b2 b1 ⊢; omega
      cases hc : spec g d f0 c with
      | error e =>
        rw [hc] at o2
        obtain ⟨s', hs', hp'⟩ := o2
        refine ⟨j1 + j2, new2 ++ vis1, m2, vis2 ++ vis1, hndn, hfrn, hdom, x1.trans x2, hm2, ⟨hndv, hfrv, hb⟩, ?_⟩
        simp only [Outcome, collect, hcs, hc]
        refine ⟨s', by rw [iter_run_add e1]; exact hs', ?_⟩
        simp only [List.length_cons, List.length_nil, cost_append] at hp' pb1 ⊢; omega
      | ok r =>
        rw [hc] at o2
        obtain ⟨hv2, p2, e2, pb2, al2⟩ := o2
        subst hv2
        refine ⟨j1 + j2, vis2 ++ vis1, m2, vis2 ++ vis1, hndn, hfrn, hdom, x1.trans x2, hm2, ⟨hndv, hfrv, hb⟩, ?_⟩
        simp only [Outcome, collect, hcs, hc]
        refine ⟨by simp, p2, ?_, ?_, ?_⟩
        · rw [iter_run_add e1, e2]
          simp only [List.append_assoc, Nat.add_assoc]
        · simp only [List.length_cons, List.length_nil, cost_append] at pb2 pb1 ⊢; omega
        · intro c' hc'
          rcases List.mem_cons.mp hc' with rfl | h
          · exact al2 c' List.mem_cons_self
          · obtain ⟨v, hv⟩ := Option.isSome_iff_exists.mp (al1 c' h)
            simp [x2 c' v hv]

theorem nodup_one (n : N) : [n].Nodup := by simp

theorem look_insert_self (m : M) (n : N) (r : R) : look (MemoLike.insert m n r) n = some r := by
  rw [LawfulMemo.look_insert]; simp

theorem look_insert_ne (m : M) (n x : N) (r : R) (h : x ≠ n) : look (MemoLike.insert m n r) x = look m x := by
  rw [LawfulMemo.look_insert]; simp [h]

theorem ext_insert (m : M) (n : N) (r : R) (h : look m n = none) : Ext m (MemoLike.insert m n r) := by
  intro x v hx
  by_cases hxn : x = n
  · subst hxn; rw [h] at hx; cases hx
  · rw [look_insert_ne m n x r hxn]; exact hx

theorem dom_insert (m : M) (n : N) (r : R) (x : N) :
    (look (MemoLike.insert m n r) x).isSome ↔ ((look m x).isSome ∨ x = n) := by
  by_cases hxn : x = n
  · subst hxn; simp [look_insert_self]
  · simp [look_insert_ne m n x r hxn, hxn]

theorem closed_insert (g : Graph N) (d : N → Bool) (f0 : N → List R → Except E R) (m : M) (n : N) (r : R)
    (hm : Closed g d f0 m) (hs : spec g d f0 n = .ok r) (hk : ∀ c ∈ kids g d n, (look m c).isSome) :
    Closed g d f0 (MemoLike.insert m n r) := by
  constructor
  · intro x v hx
    by_cases hxn : x = n
    · subst hxn; rw [look_insert_self] at hx; cases hx; exact hs
    · rw [look_insert_ne m n x r hxn] at hx; exact hm.ok x v hx
  · intro x hx c hc
    rw [dom_insert] at hx ⊢
    rcases hx with hx | rfl
    · exact Or.inl (hm.down x hx c hc)
    · exact Or.inl (hk c hc)

theorem run_expand (g : Graph N) (d : N → Bool) (f0 : N → List R → Except E R) :
    ∀ k n, g.rank n < k → ∀ (tail : List (Bool × N)) (m : M) (tr : List N) (p it : Nat), Closed g d f0 m →
      Reach g d f0 ⟨(false, n) :: tail, m, tr, p, it⟩ tail [n] := by
  intro k
  induction k with
  | zero => intro n hn; omega
  | succ k ih =>
    intro n hn tail m tr p it hm
    have hself : ∀ x, x = n → ∃ r ∈ [n], Desc g d r x := fun x hx => ⟨n, List.mem_singleton.mpr rfl, by subst hx; exact Desc.refl x⟩
    by_cases hd : d n = true
    · -- `direct` node: computed at once, nothing pushed
      have hkids : kids g d n = [] := by simp [kids, hd]
      have hspec : spec g d f0 n = f0 n [] := by rw [spec_eq, hkids]; simp [collect]
      cases hl : look m n with
      | some r =>
        have hstep : step g d (fun _ => f0) ⟨(false, n) :: tail, m, tr, p, it⟩ = .run ⟨tail, m, tr, p, it + 1⟩ := by
          simp [step, hd, hl]
        refine ⟨1, [], m, [], List.nodup_nil, by simp, by simp, Ext.refl m, hm,
          ⟨List.nodup_nil, by simp, (by simp only [List.length_cons, List.length_nil, cost_nil, cost_cons]; omega)⟩, ?_⟩
        simp only [Outcome, collect, hm.ok n r hl]
        exact ⟨by simp, p, by simp [iter, hstep], (by simp only [List.length_cons, List.length_nil, cost_nil, cost_cons]; omega), by simp [hl]⟩
      | none =>
        cases hf : f0 n [] with
        | error e =>
          have hstep : step g d (fun _ => f0) ⟨(false, n) :: tail, m, tr, p, it⟩
              = .fail (.cb e) ⟨tail, m, n :: tr, p, it + 1⟩ := by
            simp [step, hd, hl, hf]
          refine ⟨1, [], m, [], List.nodup_nil, by simp, by simp, Ext.refl m, hm,
            ⟨List.nodup_nil, by simp, (by simp only [List.length_cons, List.length_nil, cost_nil, cost_cons]; omega)⟩, ?_⟩
          simp only [Outcome, collect, hspec, hf]
          exact ⟨⟨tail, m, n :: tr, p, it + 1⟩, by simp [iter, hstep], by simp only [List.length_cons, List.length_nil]; omega⟩
        | ok r =>
          have hstep : step g d (fun _ => f0) ⟨(false, n) :: tail, m, tr, p, it⟩
              = .run ⟨tail, MemoLike.insert m n r, n :: tr, p, it + 1⟩ := by
            simp [step, hd, hl, hf]
          have hfr : ∀ x ∈ [n], look m x = none ∧ ∃ r ∈ [n], Desc g d r x := by
            intro x hx
            simp only [List.mem_singleton] at hx; subst hx
            exact ⟨hl, hself x rfl⟩
          refine ⟨1, [n], MemoLike.insert m n r, [n], (nodup_one n), hfr, ?_, ext_insert m n r hl, ?_,
            ⟨(nodup_one n), hfr, (by simp only [List.length_cons, List.length_nil, cost_nil, cost_cons]; omega)⟩, ?_⟩
          · intro x; rw [dom_insert]; simp
          · exact closed_insert g d f0 m n r hm (hspec ▸ hf) (by simp [hkids])
          · simp only [Outcome, collect, hspec, hf]
            exact ⟨by simp, p, by simp [iter, hstep], (by simp only [List.length_cons, List.length_nil, cost_nil, cost_cons]; omega), by simp [look_insert_self]⟩
    · -- ordinary node: expand, process the pending children, compute
      have hd' : d n = false := by simpa using hd
      have hkids : kids g d n = g.children n := by simp [kids, hd']
      let todo := (g.children n).filter (fun c => (look m c).isNone)
      have htodo : ∀ c ∈ todo, g.rank c < k := by
        intro c hc
        have := g.acyclic n c (List.mem_filter.mp hc).1
        omega
      have hstep1 : step g d (fun _ => f0) ⟨(false, n) :: tail, m, tr, p, it⟩ =
          .run ⟨(todo.map (fun c => (false, c))).reverse ++ (true, n) :: tail, m, tr, p + 1 + todo.length, it + 1⟩ := by
        simp [step, hd', todo]
      obtain ⟨j1, new1, m1, vis1, nd1, fr1, dom1, x1, hm1, ⟨vnd1, vfr1, b1⟩, o1⟩ :=
        run_list g d f0 k ih todo htodo ((true, n) :: tail) m tr (p + 1 + todo.length) (it + 1) hm
      simp only at fr1 dom1 x1 vfr1
      have hlen : todo.length ≤ (g.children n).length := List.length_filter_le _ _
      have lift : ∀ {l : List N}, (∀ x ∈ l, look m x = none ∧ ∃ r ∈ todo, Desc g d r x) →
          ∀ x ∈ l, look m x = none ∧ ∃ r ∈ [n], Desc g d r x := by
        intro l h x hx
        obtain ⟨h1, r, hr, hdsc⟩ := h x hx
        refine ⟨h1, n, List.mem_singleton.mpr rfl, Desc.step n r x ?_ hdsc⟩
        rw [hkids]; exact (List.mem_filter.mp hr).1
      -- `n` is not among the nodes met below its children
      have hnotin : ∀ {l : List N}, (∀ x ∈ l, look m x = none ∧ ∃ r ∈ todo, Desc g d r x) → n ∉ l := by
        intro l h hn'
        obtain ⟨_, r, hr, hdsc⟩ := h n hn'
        have := hdsc.rank_le
        have := g.acyclic n r (List.mem_filter.mp hr).1
        omega
      -- errors of the pending children are the errors of all children
      have herr : errOf (collect (spec g d f0) todo) = errOf (collect (spec g d f0) (g.children n)) := by
        apply errOf_collect_filter
        intro c _ hc
        have : (look m c).isSome := by
          cases h : look m c with
          | none => simp [h] at hc
          | some v => rfl
        obtain ⟨v, hv⟩ := Option.isSome_iff_exists.mp this
        exact ⟨v, hm.ok c v hv⟩
      -- a memoised node has nothing pending
      have htodo_nil : (look m n).isSome → todo = [] := by
        intro h
        apply List.filter_eq_nil_iff.mpr
        intro c hc
        have := hm.down n h c (hkids ▸ hc)
        cases h' : look m c with
        | none => rw [h'] at this; cases this
        | some v => simp
      simp only [Outcome] at o1
      cases hcs : collect (spec g d f0) todo with
      | error e =>
        rw [hcs] at o1
        obtain ⟨s', hs', hp'⟩ := o1
        have hall : collect (spec g d f0) (g.children n) = .error e := by
          rw [hcs] at herr; exact (errOf_eq_some _ e).mp herr.symm
        have hspec : spec g d f0 n = .error e := by rw [spec_eq, hkids, hall]
        have hln : look m n = none := by
          cases h : look m n with
          | none => rfl
          | some v => rw [hm.ok n v h] at hspec; cases hspec
        refine ⟨1 + j1, new1, m1, n :: vis1, nd1, lift fr1, dom1, x1, hm1,
          ⟨List.nodup_cons.mpr ⟨hnotin vfr1, vnd1⟩, ?_, ?_⟩, ?_⟩
        · intro x hx
          rcases List.mem_cons.mp hx with rfl | h
          · exact ⟨hln, hself x rfl⟩
          · exact lift vfr1 x h
        · simp only [List.length_cons, List.length_nil, cost_cons]; omega
        · simp only [Outcome, collect, hspec]
          refine ⟨s', ?_, ?_⟩
          · rw [Nat.add_comm, iter_succ, hstep1]; exact hs'
          · simp only [List.length_cons, List.length_nil, cost_cons] at hp' ⊢; omega
      | ok rs =>
        rw [hcs] at o1
        obtain ⟨hv1, p1, e1, pb1, al1⟩ := o1
        subst hv1
        -- every child is memoised now
        have hall : ∀ c ∈ g.children n, (look m1 c).isSome := by
          intro c hc
          by_cases hmc : (look m c).isSome
          · obtain ⟨v, hv⟩ := Option.isSome_iff_exists.mp hmc
            simp [x1 c v hv]
          · apply al1
            apply List.mem_filter.mpr
            refine ⟨hc, ?_⟩
            cases h : look m c <;> simp_all
        obtain ⟨args, hargs, hcoll⟩ := lookAll_collect g d f0 m1 hm1.ok (g.children n) hall
        have hspec : spec g d f0 n = f0 n args := by rw [spec_eq, hkids, hcoll]
        have hrun1 : iter g d (fun _ => f0) (1 + j1) ⟨(false, n) :: tail, m, tr, p, it⟩ =
            .run ⟨(true, n) :: tail, m1, vis1 ++ tr, p1, it + 1 + j1⟩ := by
          rw [Nat.add_comm, iter_succ, hstep1]; exact e1
        cases hl1 : look m1 n with
        | some r =>
          -- `n` was memoised from the start: nothing was pending
          have hmn : (look m n).isSome := by
            rcases (dom1 n).mp (by simp [hl1]) with h | h
            · exact h
            · exact absurd h (hnotin fr1)
          have ht := htodo_nil hmn
          have hstep2 : step g d (fun _ => f0) ⟨(true, n) :: tail, m1, vis1 ++ tr, p1, it + 1 + j1⟩ =
              .run ⟨tail, m1, vis1 ++ tr, p1, it + 1 + j1 + 1⟩ := by
            simp [step, hl1]
          refine ⟨1 + j1 + 1, vis1, m1, vis1, nd1, lift fr1, dom1, x1, hm1, ⟨vnd1, lift vfr1, ?_⟩, ?_⟩
          · rw [ht] at b1; simp only [List.length_nil, List.length_cons] at b1 ⊢; omega
          · simp only [Outcome, collect, hm1.ok n r hl1]
            refine ⟨by simp, p1, ?_, ?_, by simp [hl1]⟩
            · rw [iter_run_add hrun1]
              simp only [iter, hstep2]
              simp only [Nat.add_assoc]
            · rw [ht] at pb1; simp only [List.length_nil, List.length_cons] at pb1 ⊢; omega
        | none =>
          have hln : look m n = none := by
            cases h : look m n with
            | none => rfl
            | some v => rw [x1 n v h] at hl1; cases hl1
          have hvis : (n :: vis1).Nodup ∧ ∀ x ∈ n :: vis1, look m x = none ∧ ∃ r ∈ [n], Desc g d r x := by
            refine ⟨List.nodup_cons.mpr ⟨hnotin vfr1, vnd1⟩, ?_⟩
            intro x hx
            rcases List.mem_cons.mp hx with rfl | h
            · exact ⟨hln, hself x rfl⟩
            · exact lift vfr1 x h
          have hb : 1 + j1 + 1 ≤ 2 * [n].length + 2 * cost g (n :: vis1) := by
            simp only [List.length_cons, List.length_nil, cost_cons]; omega
          cases hf : f0 n args with
          | error e =>
            have hstep2 : step g d (fun _ => f0) ⟨(true, n) :: tail, m1, vis1 ++ tr, p1, it + 1 + j1⟩ =
                .fail (.cb e) ⟨tail, m1, n :: (vis1 ++ tr), p1, it + 1 + j1 + 1⟩ := by
              simp [step, hl1, hargs, hf]
            refine ⟨1 + j1 + 1, vis1, m1, n :: vis1, nd1, lift fr1, dom1, x1, hm1, ⟨hvis.1, hvis.2, hb⟩, ?_⟩
            simp only [Outcome, collect, hspec, hf]
            refine ⟨⟨tail, m1, n :: (vis1 ++ tr), p1, it + 1 + j1 + 1⟩, ?_, ?_⟩
            · rw [iter_run_add hrun1]
              simp only [iter, hstep2]
            · simp only [List.length_cons, List.length_nil, cost_cons] at pb1 ⊢; omega
          | ok r =>
            have hstep2 : step g d (fun _ => f0) ⟨(true, n) :: tail, m1, vis1 ++ tr, p1, it + 1 + j1⟩ =
                .run ⟨tail, MemoLike.insert m1 n r, n :: (vis1 ++ tr), p1, it + 1 + j1 + 1⟩ := by
              simp [step, hl1, hargs, hf]
            refine ⟨1 + j1 + 1, n :: vis1, MemoLike.insert m1 n r, n :: vis1, hvis.1, hvis.2, ?_,
              x1.trans (ext_insert m1 n r hl1), ?_, ⟨hvis.1, hvis.2, hb⟩, ?_⟩
            · intro x
              rw [dom_insert, dom1 x]
              simp only [List.mem_cons]
              constructor
              · rintro ((h | h) | h)
                · exact Or.inl h
                · exact Or.inr (Or.inr h)
                · exact Or.inr (Or.inl h)
              · rintro (h | h | h)
                · exact Or.inl (Or.inl h)
                · exact Or.inr h
                · exact Or.inl (Or.inr h)
            · exact closed_insert g d f0 m1 n r hm1 (hspec ▸ hf) (by rw [hkids]; exact hall)
            · simp only [Outcome, collect, hspec, hf]
              refine ⟨by simp, p1, ?_, ?_, by simp [look_insert_self]⟩
              · rw [iter_run_add hrun1]
                simp only [iter, hstep2]
                simp only [List.cons_append, Nat.add_assoc]
              · simp only [List.length_cons, List.length_nil, cost_cons] at pb1 ⊢; omega

end

end PySMT.Walker
