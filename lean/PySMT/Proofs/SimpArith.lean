import PySMT.Impl.Simp.Arith
import PySMT.Proofs.SimpBuild
import Mathlib.Tactic.Ring
/-!
# `RuleOK` for `walk_minus`, `walk_div`, `walk_times`, `walk_plus`

Values of Int and Real terms are mapped to `Rat` (`toQ`); a result is correct as soon as it
is well-formed of the type `τ` of the node and has the same `toQ`-value (`res_of_ev`).
-/
namespace PySMT.Simp.ArithRules
open PySMT PySMT.Build PySMT.Simp
open PySMT.Simp.BoolRules (numVal)

/-! ## numeric sorts, values as rationals -/

/-- `τ` is Int or Real -/
def Num (τ : Ty) : Prop := τ = .int ∨ τ = .real

/-- well-formed term of type `τ` -/
def NT (τ : Ty) (t : Term) : Prop := t.wf = true ∧ t.typeOf = some τ

def toQ : Val → Rat
  | .i n => n
  | .r q => q
  | _ => 0

/-- the rational value of a term -/
def ev (I : Interp) (t : Term) : Rat := toQ (eval I t)

theorem toQ_inj {τ : Ty} (hτ : Num τ) {v w : Val} (hv : v.hasSort τ = true) (hw : w.hasSort τ = true)
    (h : toQ v = toQ w) : v = w := by
  rcases hτ with rfl | rfl
  · obtain ⟨a, rfl⟩ := Val.hasSort_int hv
    obtain ⟨b, rfl⟩ := Val.hasSort_int hw
    simp only [toQ] at h
    rw [Rat.intCast_inj.mp h]
  · obtain ⟨a, rfl⟩ := Val.hasSort_real hv
    obtain ⟨b, rfl⟩ := Val.hasSort_real hw
    simp only [toQ] at h
    rw [h]

theorem NT.sort {τ : Ty} {t : Term} (h : NT τ t) {I : Interp} (hI : I.WF) : (eval I t).hasSort τ = true :=
  eval_hasSort t h.1 τ h.2 I hI

/-- a constant is integral when the sort is Int -/
def QOK (τ : Ty) (c : Rat) : Prop := τ = .int → ∃ n : Int, c = n

theorem QOK.add {τ c d} (h1 : QOK τ c) (h2 : QOK τ d) : QOK τ (c + d) := by
  intro h
  obtain ⟨a, rfl⟩ := h1 h
  obtain ⟨b, rfl⟩ := h2 h
  exact ⟨a + b, (Rat.intCast_add a b).symm⟩

theorem QOK.mul {τ c d} (h1 : QOK τ c) (h2 : QOK τ d) : QOK τ (c * d) := by
  intro h
  obtain ⟨a, rfl⟩ := h1 h
  obtain ⟨b, rfl⟩ := h2 h
  exact ⟨a * b, (Rat.intCast_mul a b).symm⟩

theorem QOK.neg {τ c} (h1 : QOK τ c) : QOK τ (-c) := by
  intro h
  obtain ⟨a, rfl⟩ := h1 h
  exact ⟨-a, (Rat.intCast_neg a).symm⟩

theorem QOK.int (τ) (n : Int) : QOK τ n := fun _ => ⟨n, rfl⟩
theorem QOK.zero (τ) : QOK τ 0 := fun _ => ⟨0, rfl⟩
theorem QOK.one (τ) : QOK τ 1 := fun _ => ⟨1, rfl⟩

/-- the value of a term of sort `τ` is integral when `τ` is Int -/
theorem ev_QOK {τ : Ty} {t : Term} (h : NT τ t) {I : Interp} (hI : I.WF) : QOK τ (ev I t) := by
  rintro rfl
  obtain ⟨n, hn⟩ := Val.hasSort_int (h.sort hI)
  exact ⟨n, by simp only [ev, hn, toQ]⟩

/-! ## typing of the four arithmetic operators -/

/-- plus, minus, times, div -/
def ArithOp (op : Op) : Prop := op = .plus ∨ op = .minus ∨ op = .times ∨ op = .div

theorem typeOfNode_arith {op : Op} (h : ArithOp op) (p : Payload) (ts : List (Option Ty)) :
    typeOfNode op p ts =
      if allAre ts .real then some .real else if allAre ts .int then some .int else none := by
  rcases h with rfl | rfl | rfl | rfl <;> rfl

theorem arith_inv {op : Op} (h : ArithOp op) {args : List Term} {p : Payload} {τ : Ty}
    (hty : (Term.node op args p).typeOf = some τ) : Num τ ∧ ∀ a ∈ args, a.typeOf = some τ := by
  rw [typeOf_node, typeOfNode_arith h] at hty
  split at hty
  · next h1 =>
    cases hty
    exact ⟨Or.inr rfl, allAre_map.mp h1⟩
  · split at hty
    · next h2 =>
      cases hty
      exact ⟨Or.inl rfl, allAre_map.mp h2⟩
    · cases hty

theorem arith_mk {op : Op} (h : ArithOp op) {a : Term} {args : List Term} (p : Payload) {τ : Ty} (hτ : Num τ)
    (hty : ∀ x ∈ a :: args, x.typeOf = some τ) : (Term.node op (a :: args) p).typeOf = some τ := by
  rw [typeOf_node, typeOfNode_arith h]
  rcases hτ with rfl | rfl
  · have h1 : allAre ((a :: args).map Term.typeOf) .real = false := by
      simp [allAre, hty a (by simp)]
    have h2 : allAre ((a :: args).map Term.typeOf) .int = true := allAre_map.mpr hty
    rw [h1, h2]; rfl
  · have h1 : allAre ((a :: args).map Term.typeOf) .real = true := allAre_map.mpr hty
    rw [h1]; rfl

theorem arith_ne {op : Op} (h : ArithOp op) : op ≠ .symbol ∧ op ≠ .function ∧ op.isQuantifier = false := by
  rcases h with rfl | rfl | rfl | rfl <;> exact ⟨by simp, by simp, rfl⟩

/-- arguments of a well-formed arithmetic node -/
theorem arith_args {op : Op} (h : ArithOp op) {args : List Term} {p : Payload} {τ : Ty}
    (hn : NT τ (.node op args p)) : Num τ ∧ ∀ a ∈ args, NT τ a :=
  ⟨(arith_inv h hn.2).1, fun a ha => ⟨wf_args hn.1 a ha, (arith_inv h hn.2).2 a ha⟩⟩

/-! ## the generic conclusion -/

theorem res_of_ev {t r : Term} {τ : Ty} (hτ : Num τ) (ht : NT τ t) (hr : NT τ r)
    (hs : ∀ I : Interp, I.WF → Hyp I t → ev I r = ev I t)
    (hdv : ∀ I : Interp, I.WF → div0 I t = false → div0 I r = false)
    (hfv : ∀ s ∈ r.fv, s ∈ t.fv) : Res t τ r :=
  Res.of_hyp hr.2 hr.1 (fun I hI hh => toQ_inj hτ (hr.sort hI) (ht.sort hI) (hs I hI hh)) hdv hfv

/-! ## constants -/

theorem NT_int (n : Int) : NT .int (Term.int n) := ⟨wf_int n, typeOf_int n⟩
theorem NT_real (q : Rat) : NT .real (Term.real q) := ⟨wf_real q, typeOf_real q⟩
@[simp] theorem ev_int (I : Interp) (n : Int) : ev I (Term.int n) = n := by simp only [ev, eval_intc, toQ]
@[simp] theorem ev_real (I : Interp) (q : Rat) : ev I (Term.real q) = q := by simp only [ev, eval_realc, toQ]

theorem numTerm_int (c : Rat) : numTerm (some .int) c = Term.int c.num := by
  simp [numTerm, int_]
theorem numTerm_real (c : Rat) : numTerm (some .real) c = Term.real c := by
  simp [numTerm, real_]

theorem numTerm_spec {τ : Ty} (hτ : Num τ) {c : Rat} (hc : QOK τ c) :
    NT τ (numTerm (some τ) c) ∧ (∀ I : Interp, ev I (numTerm (some τ) c) = c ∧ div0 I (numTerm (some τ) c) = false) ∧
      (numTerm (some τ) c).fv = [] ∧ numVal (numTerm (some τ) c) = some c := by
  rcases hτ with rfl | rfl
  · obtain ⟨n, rfl⟩ := hc rfl
    rw [numTerm_int, Rat.num_intCast]
    exact ⟨NT_int n, fun I => ⟨ev_int I n, div0_int I n⟩, fv_int n, rfl⟩
  · rw [numTerm_real]
    exact ⟨NT_real c, fun I => ⟨ev_real I c, div0_real I c⟩, fv_real c, rfl⟩

/-- a numeric constant recognised by `numVal` -/
theorem numVal_some {t : Term} {c : Rat} (h : numVal t = some c) :
    (∃ n : Int, t = Term.int n ∧ c = n) ∨ t = Term.real c := by
  unfold numVal at h
  split at h
  · next i hi =>
    cases h
    exact Or.inl ⟨i, isIntConst_some hi, rfl⟩
  · exact Or.inr (isRealConst_some h)

theorem numVal_spec {τ : Ty} {t : Term} {c : Rat} (h : numVal t = some c) (ht : t.typeOf = some τ) :
    QOK τ c ∧ (∀ I : Interp, ev I t = c ∧ div0 I t = false) ∧ t.fv = [] := by
  rcases numVal_some h with ⟨n, rfl, rfl⟩ | rfl
  · exact ⟨QOK.int τ n, fun I => ⟨ev_int I n, div0_int I n⟩, fv_int n⟩
  · refine ⟨?_, fun I => ⟨ev_real I c, div0_real I c⟩, fv_real c⟩
    rintro rfl
    rw [typeOf_real] at ht
    cases ht

/-! ## values of the nodes -/

theorem toQ_sub {τ : Ty} (hτ : Num τ) {v w : Val} (hv : v.hasSort τ = true) (hw : w.hasSort τ = true) :
    toQ (Sem.sub v w) = toQ v - toQ w ∧ (Sem.sub v w).hasSort τ = true := by
  rcases hτ with rfl | rfl
  · obtain ⟨a, rfl⟩ := Val.hasSort_int hv
    obtain ⟨b, rfl⟩ := Val.hasSort_int hw
    refine ⟨?_, rfl⟩
    simp only [Sem.sub, toQ]
    push_cast; ring
  · obtain ⟨a, rfl⟩ := Val.hasSort_real hv
    obtain ⟨b, rfl⟩ := Val.hasSort_real hw
    exact ⟨rfl, rfl⟩

theorem toQ_add {τ : Ty} (hτ : Num τ) {v w : Val} (hv : v.hasSort τ = true) (hw : w.hasSort τ = true) :
    toQ (Sem.add v w) = toQ v + toQ w ∧ (Sem.add v w).hasSort τ = true := by
  rcases hτ with rfl | rfl
  · obtain ⟨a, rfl⟩ := Val.hasSort_int hv
    obtain ⟨b, rfl⟩ := Val.hasSort_int hw
    refine ⟨?_, rfl⟩
    simp only [Sem.add, toQ]
    push_cast; ring
  · obtain ⟨a, rfl⟩ := Val.hasSort_real hv
    obtain ⟨b, rfl⟩ := Val.hasSort_real hw
    exact ⟨rfl, rfl⟩

theorem toQ_mul {τ : Ty} (hτ : Num τ) {v w : Val} (hv : v.hasSort τ = true) (hw : w.hasSort τ = true) :
    toQ (Sem.mul v w) = toQ v * toQ w ∧ (Sem.mul v w).hasSort τ = true := by
  rcases hτ with rfl | rfl
  · obtain ⟨a, rfl⟩ := Val.hasSort_int hv
    obtain ⟨b, rfl⟩ := Val.hasSort_int hw
    refine ⟨?_, rfl⟩
    simp only [Sem.mul, toQ]
    push_cast; ring
  · obtain ⟨a, rfl⟩ := Val.hasSort_real hv
    obtain ⟨b, rfl⟩ := Val.hasSort_real hw
    exact ⟨rfl, rfl⟩

def qsum : List Rat → Rat
  | [] => 0
  | a :: l => a + qsum l
def qprod : List Rat → Rat
  | [] => 1
  | a :: l => a * qprod l

theorem qsum_append (l1 l2 : List Rat) : qsum (l1 ++ l2) = qsum l1 + qsum l2 := by
  induction l1 with
  | nil => simp [qsum]
  | cons a l ih => simp only [List.cons_append, qsum, ih]; ring
theorem qprod_append (l1 l2 : List Rat) : qprod (l1 ++ l2) = qprod l1 * qprod l2 := by
  induction l1 with
  | nil => simp [qprod]
  | cons a l ih => simp only [List.cons_append, qprod, ih]; ring
theorem qsum_reverse (l : List Rat) : qsum l.reverse = qsum l := by
  induction l with
  | nil => rfl
  | cons a l ih => simp only [List.reverse_cons, qsum_append, qsum, ih]; ring
theorem qprod_reverse (l : List Rat) : qprod l.reverse = qprod l := by
  induction l with
  | nil => rfl
  | cons a l ih => simp only [List.reverse_cons, qprod_append, qprod, ih]; ring
theorem qsum_flatten (l : List (List Rat)) : qsum l.flatten = qsum (l.map qsum) := by
  induction l with
  | nil => rfl
  | cons a l ih => simp only [List.flatten_cons, qsum_append, List.map_cons, qsum, ih]
theorem qprod_flatten (l : List (List Rat)) : qprod l.flatten = qprod (l.map qprod) := by
  induction l with
  | nil => rfl
  | cons a l ih => simp only [List.flatten_cons, qprod_append, List.map_cons, qprod, ih]

theorem toQ_foldl_add {τ : Ty} (hτ : Num τ) : ∀ (vs : List Val) (v : Val), v.hasSort τ = true →
    (∀ x ∈ vs, x.hasSort τ = true) → toQ (vs.foldl Sem.add v) = toQ v + qsum (vs.map toQ)
  | [], v, _, _ => by simp [qsum]
  | x :: vs, v, hv, h => by
    have hx := h x (by simp)
    have := toQ_add hτ hv hx
    rw [List.foldl_cons, toQ_foldl_add hτ vs _ this.2 (fun y hy => h y (by simp [hy])), this.1]
    simp only [List.map_cons, qsum]; ring

theorem toQ_foldl_mul {τ : Ty} (hτ : Num τ) : ∀ (vs : List Val) (v : Val), v.hasSort τ = true →
    (∀ x ∈ vs, x.hasSort τ = true) → toQ (vs.foldl Sem.mul v) = toQ v * qprod (vs.map toQ)
  | [], v, _, _ => by simp [qprod]
  | x :: vs, v, hv, h => by
    have hx := h x (by simp)
    have := toQ_mul hτ hv hx
    rw [List.foldl_cons, toQ_foldl_mul hτ vs _ this.2 (fun y hy => h y (by simp [hy])), this.1]
    simp only [List.map_cons, qprod]; ring

theorem toQ_sum {τ : Ty} (hτ : Num τ) (vs : List Val) (h : ∀ x ∈ vs, x.hasSort τ = true) :
    toQ (Sem.sum vs) = qsum (vs.map toQ) := by
  cases vs with
  | nil => simp [Sem.sum, toQ, qsum]
  | cons v vs =>
    simp only [Sem.sum, List.map_cons, qsum]
    exact toQ_foldl_add hτ vs v (h v (by simp)) (fun y hy => h y (by simp [hy]))

theorem toQ_prod {τ : Ty} (hτ : Num τ) (vs : List Val) (h : ∀ x ∈ vs, x.hasSort τ = true) :
    toQ (Sem.prod vs) = qprod (vs.map toQ) := by
  cases vs with
  | nil => simp [Sem.prod, toQ, qprod]
  | cons v vs =>
    simp only [Sem.prod, List.map_cons, qprod]
    exact toQ_foldl_mul hτ vs v (h v (by simp)) (fun y hy => h y (by simp [hy]))

theorem ev_plus {τ : Ty} {args : List Term} {p : Payload} (hn : NT τ (.node .plus args p)) {I : Interp}
    (hI : I.WF) : ev I (.node .plus args p) = qsum (args.map (ev I)) := by
  obtain ⟨hτ, hargs⟩ := arith_args (Or.inl rfl) hn
  rw [ev, eval_plus, toQ_sum hτ, List.map_map]
  · rfl
  · intro x hx
    obtain ⟨a, ha, rfl⟩ := List.mem_map.mp hx
    exact (hargs a ha).sort hI

theorem ev_times {τ : Ty} {args : List Term} {p : Payload} (hn : NT τ (.node .times args p)) {I : Interp}
    (hI : I.WF) : ev I (.node .times args p) = qprod (args.map (ev I)) := by
  obtain ⟨hτ, hargs⟩ := arith_args (Or.inr (Or.inr (Or.inl rfl))) hn
  rw [ev, eval_times, toQ_prod hτ, List.map_map]
  · rfl
  · intro x hx
    obtain ⟨a, ha, rfl⟩ := List.mem_map.mp hx
    exact (hargs a ha).sort hI

theorem ev_minus {τ : Ty} {a b : Term} {p : Payload} (hn : NT τ (.node .minus [a, b] p)) {I : Interp}
    (hI : I.WF) : ev I (.node .minus [a, b] p) = ev I a - ev I b := by
  obtain ⟨hτ, hargs⟩ := arith_args (Or.inr (Or.inl rfl)) hn
  rw [ev, eval_minus]
  exact (toQ_sub hτ ((hargs a (by simp)).sort hI) ((hargs b (by simp)).sort hI)).1

/-! ## `walk_minus` -/

theorem args2 {op : Op} {args : List Term} {p : Payload} (h : op = .minus ∨ op = .div)
    (hwf : (Term.node op args p).wf = true) : ∃ a b, args = [a, b] := by
  have hs := wf_shape hwf
  rcases h with rfl | rfl <;>
  · simp only [Op.shapeOK, beq_iff_eq] at hs
    match args, hs with
    | [a, b], _ => exact ⟨a, b, rfl⟩

theorem isZero_spec {t : Term} (h : isZero t = true) : t = Term.int 0 ∨ t = Term.real 0 := by
  simp only [isZero, Bool.or_eq_true, beq_iff_eq] at h
  rcases h with h | h
  · exact Or.inl (isIntConst_some h)
  · exact Or.inr (isRealConst_some h)

theorem isOne_spec {t : Term} (h : isOne t = true) : t = Term.int 1 ∨ t = Term.real 1 := by
  simp only [isOne, Bool.or_eq_true, beq_iff_eq] at h
  rcases h with h | h
  · exact Or.inl (isIntConst_some h)
  · exact Or.inr (isRealConst_some h)

theorem isZero_ev {t : Term} (h : isZero t = true) (I : Interp) : ev I t = 0 := by
  rcases isZero_spec h with rfl | rfl
  · rw [ev_int]; rfl
  · rw [ev_real]

/-- the node with another payload -/
theorem res_repayload {op : Op} (h : ArithOp op) {args : List Term} {p q : Payload} {τ : Ty}
    (hwf : (Term.node op args p).wf = true) (hty : (Term.node op args p).typeOf = some τ)
    (hq : op.shapeOK q args.length = true) (hdiv : op ≠ .div) : Res (.node op args p) τ (.node op args q) := by
  have hty' : (Term.node op args q).typeOf = some τ := by
    rw [typeOf_node, typeOfNode_arith h] at hty ⊢; exact hty
  obtain ⟨h1, h2, h3⟩ := arith_ne h
  refine Res.of_hyp hty' (wf_mk' (wf_args hwf) hq hty') (fun I _ _ => ?_) (fun I _ hd => ?_) (fun s hs => ?_)
  rotate_left
  · rw [div0_plain I op args p h3 hdiv] at hd
    rw [div0_plain I op args q h3 hdiv]; exact hd
  rotate_left
  · rw [eval_plain I op args q h1 h2 h3, eval_plain I op args p h1 h2 h3]
    rcases h with rfl | rfl | rfl | rfl
    · rfl
    · match args with
      | [] => rfl
      | [_] => rfl
      | [_, _] => rfl
      | _ :: _ :: _ :: _ => rfl
    · rfl
    · exact absurd rfl hdiv
  · rw [mem_fv_plain h1 h2 h3] at hs ⊢; exact hs

theorem walkMinus_ok : RuleOK .minus walkMinus := by
  refine RuleOK.of_res ?_
  intro p args τ hwf hty _
  obtain ⟨sl, sr, rfl⟩ := args2 (Or.inl rfl) hwf
  have hop : ArithOp .minus := Or.inr (Or.inl rfl)
  obtain ⟨hτ, hargs⟩ := arith_args hop ⟨hwf, hty⟩
  have hl := hargs sl (by simp)
  have hr := hargs sr (by simp)
  have hev : ∀ I : Interp, I.WF → ev I (.node .minus [sl, sr] p) = ev I sl - ev I sr :=
    fun I hI => ev_minus ⟨hwf, hty⟩ hI
  show Res _ τ (walkMinus p [sl, sr])
  -- every constant result
  have hconst : ∀ c : Rat, QOK τ c → (∀ I : Interp, I.WF → ev I sl - ev I sr = c) →
      Res (.node .minus [sl, sr] p) τ (numTerm (some τ) c) := by
    intro c hc h
    obtain ⟨n1, n2, n3, _⟩ := numTerm_spec hτ hc
    refine res_of_ev hτ ⟨hwf, hty⟩ n1 (fun I hI _ => ?_) (fun I _ _ => (n2 I).2) (by rw [n3]; simp)
    rw [(n2 I).1, hev I hI, h I hI]
  unfold walkMinus
  simp only
  split
  · next l r h1 h2 =>
    have e1 := isRealConst_some h1
    have e2 := isRealConst_some h2
    subst e1; subst e2
    have : τ = .real := by
      have := hl.2; rw [typeOf_real] at this; cases this; rfl
    subst this
    have := hconst (l - r) (by intro h; cases h) (fun I _ => by rw [ev_real, ev_real])
    rw [numTerm_real] at this
    exact this
  · split
    · next l r h1 h2 =>
      have e1 := isIntConst_some h1
      have e2 := isIntConst_some h2
      subst e1; subst e2
      have : τ = .int := by
        have := hl.2; rw [typeOf_int] at this; cases this; rfl
      subst this
      have := hconst ((l - r : Int) : Rat) (QOK.int _ _) (fun I _ => by rw [ev_int, ev_int]; push_cast; ring)
      rw [numTerm_int, Rat.num_intCast] at this
      exact this
    · split
      · next hz =>
        refine res_of_ev hτ ⟨hwf, hty⟩ hl (fun I hI _ => ?_)
          (fun I _ hd => div0_args_false I .minus _ p rfl hd sl (by simp))
          (fun s hs => (mem_fv_plain (by simp) (by simp) rfl).mpr ⟨sl, by simp, hs⟩)
        rw [hev I hI, isZero_ev hz]
        ring
      · split
        · next heq =>
          subst heq
          have h0 := hconst 0 (QOK.zero τ) (fun I _ => by ring)
          rcases hτ with rfl | rfl
          · have : sl.typeOf ≠ some .real := by rw [hl.2]; simp
            rw [if_neg this]
            rw [numTerm_int] at h0
            exact h0
          · rw [if_pos hl.2]
            rw [numTerm_real] at h0
            exact h0
        · exact res_repayload hop hwf hty rfl (by simp)

/-! ## `walk_div` -/

/-- the constant-folding part of `walk_div` -/
def foldDiv (sl sr : Term) : Option Term :=
  match numVal sl, numVal sr with
  | some _, some _ =>
    if isZero sr then none
    else
      match isRealConst sl, isRealConst sr, isIntConst sl, isIntConst sr with
      | some l, some r, _, _ => some (real_ (l / r))
      | _, _, some l, some r =>
        if r > 0 then some (int_ (l / r))
        else if r < 0 then some (int_ (-(l / (-r))))
        else none
      | _, _, _, _ => none
  | _, _ => none

theorem walkDiv_eq (p : Payload) (sl sr : Term) :
    walkDiv p [sl, sr] =
      match foldDiv sl sr with
      | some t => t
      | none => if isZero sl then sl else if isOne sr then sl else div_ sl sr := rfl

theorem isZero_real (r : Rat) : isZero (Term.real r) = decide (r = 0) := by
  rw [Bool.eq_iff_iff]; simp [isZero, isIntConst, isRealConst, Term.real]
theorem isZero_int (r : Int) : isZero (Term.int r) = decide (r = 0) := by
  rw [Bool.eq_iff_iff]; simp [isZero, isIntConst, isRealConst, Term.int]

theorem foldDiv_spec {sl sr : Term} {p : Payload} {τ : Ty} {t : Term}
    (hn : NT τ (.node .div [sl, sr] p)) (h : foldDiv sl sr = some t) : Res (.node .div [sl, sr] p) τ t := by
  obtain ⟨hτ, hargs⟩ := arith_args (Or.inr (Or.inr (Or.inr rfl))) hn
  have hl := hargs sl (by simp)
  have hr := hargs sr (by simp)
  unfold foldDiv at h
  split at h
  · split at h
    · cases h
    · next hz =>
      split at h
      · next _ _ l r h1 h2 =>
        have e1 := isRealConst_some h1
        have e2 := isRealConst_some h2
        subst e1; subst e2
        cases h
        have : τ = .real := by
          have := hl.2; rw [typeOf_real] at this; cases this; rfl
        subst this
        have hr0 : r ≠ 0 := by
          rw [isZero_real] at hz; simpa using hz
        refine Res.real _ (fun I _ _ => ?_)
        rw [eval_div, eval_realc, eval_realc]
        simp only [Sem.div, hr0, if_false]
      · next l r h1 h2 _ =>
        have e1 := isIntConst_some h1
        have e2 := isIntConst_some h2
        subst e1; subst e2
        have : τ = .int := by
          have := hl.2; rw [typeOf_int] at this; cases this; rfl
        subst this
        have hr0 : r ≠ 0 := by
          rw [isZero_int] at hz; simpa using hz
        have hev : ∀ I : Interp, eval I (.node .div [Term.int l, Term.int r] p) = .i (l / r) := by
          intro I
          rw [eval_div, eval_intc, eval_intc]
          simp only [Sem.div, hr0, if_false]
          rfl
        split at h
        · cases h
          exact Res.int _ (fun I _ _ => hev I)
        · split at h
          · cases h
            refine Res.int _ (fun I _ _ => ?_)
            rw [hev I, Int.ediv_neg, Int.neg_neg]
          · cases h
      · cases h
  · cases h

theorem res_div_repayload {a b : Term} {p q : Payload} {τ : Ty} (hn : NT τ (.node .div [a, b] p)) :
    Res (.node .div [a, b] p) τ (.node .div [a, b] q) := by
  have hop : ArithOp .div := Or.inr (Or.inr (Or.inr rfl))
  have hty' : (Term.node .div [a, b] q).typeOf = some τ := by
    have := hn.2
    rw [typeOf_node, typeOfNode_arith hop] at this ⊢; exact this
  refine Res.of_hyp hty' (wf_mk' (wf_args hn.1) rfl hty') (fun I _ _ => ?_) (fun I _ hd => ?_) (fun s hs => ?_)
  · rw [eval_div, eval_div]
  · rw [div0_div] at hd
    rw [div0_div]
    exact hd
  · rw [mem_fv_plain (by simp) (by simp) rfl] at hs ⊢; exact hs

theorem walkDiv_ok : RuleOK .div walkDiv := by
  refine RuleOK.of_res ?_
  intro p args τ hwf hty _
  obtain ⟨sl, sr, rfl⟩ := args2 (Or.inr rfl) hwf
  have hop : ArithOp .div := Or.inr (Or.inr (Or.inr rfl))
  have hn : NT τ (.node .div [sl, sr] p) := ⟨hwf, hty⟩
  obtain ⟨hτ, hargs⟩ := arith_args hop hn
  have hl := hargs sl (by simp)
  have hr := hargs sr (by simp)
  show Res _ τ (walkDiv p [sl, sr])
  rw [walkDiv_eq]
  split
  · next t ht => exact foldDiv_spec hn ht
  · split
    · next hz =>
      refine Res.arg (by simp) (by simp) rfl (by simp) hl.1 hl.2 (fun I hI hh => ?_)
      -- `0 / x ↦ 0`: sound when no division by zero is evaluated, and when `0 / 0` is `0`
      have hnz : (eval I sr ≠ .i 0 ∧ eval I sr ≠ .r 0) ∨ I.Tot := by
        rcases hh with hd | ht
        · rw [div0_div] at hd
          simp only [Bool.or_eq_false_iff, beq_eq_false_iff_ne, ne_eq] at hd
          exact Or.inl ⟨hd.1.2, hd.2⟩
        · exact Or.inr ht
      rw [eval_div]
      rcases isZero_spec hz with rfl | rfl
      · have : τ = .int := by
          have := hl.2; rw [typeOf_int] at this; cases this; rfl
        subst this
        obtain ⟨m, hm⟩ := Val.hasSort_int (hr.sort hI)
        rw [hm] at hnz ⊢
        rw [eval_intc]
        by_cases hm0 : m = 0
        · subst hm0
          rcases hnz with h | h
          · exact absurd rfl h.1
          · simp only [Sem.div, if_true]; rw [h.2]
        · simp only [Sem.div, hm0, if_false]
          rw [show Int.ediv 0 m = 0 / m from rfl, Int.zero_ediv]
      · have : τ = .real := by
          have := hl.2; rw [typeOf_real] at this; cases this; rfl
        subst this
        obtain ⟨m, hm⟩ := Val.hasSort_real (hr.sort hI)
        rw [hm] at hnz ⊢
        rw [eval_realc]
        by_cases hm0 : m = 0
        · subst hm0
          rcases hnz with h | h
          · exact absurd rfl h.2
          · simp only [Sem.div, if_true]; rw [h.1]
        · simp only [Sem.div, hm0, if_false]
          rw [zero_div]
    · split
      · next ho =>
        refine Res.arg (by simp) (by simp) rfl (by simp) hl.1 hl.2 (fun I hI _ => ?_)
        rw [eval_div]
        rcases isOne_spec ho with rfl | rfl
        · have : τ = .int := by
            have := hr.2; rw [typeOf_int] at this; cases this; rfl
          subst this
          obtain ⟨m, hm⟩ := Val.hasSort_int (hl.sort hI)
          rw [hm, eval_intc]
          simp only [Sem.div, if_false, Int.one_ne_zero]
          rw [show Int.ediv m 1 = m / 1 from rfl, Int.ediv_one]
        · have : τ = .real := by
            have := hr.2; rw [typeOf_real] at this; cases this; rfl
          subst this
          obtain ⟨m, hm⟩ := Val.hasSort_real (hl.sort hI)
          rw [hm, eval_realc]
          have : (1 : Rat) ≠ 0 := by decide
          simp only [Sem.div, this, if_false]
          rw [div_one]
      · unfold div_
        split
        · next v hv =>
          have e := isRealConst_some hv
          subst e
          have : τ = .real := by
            have := hr.2; rw [typeOf_real] at this; cases this; rfl
          subst this
          split
          · exact res_div_repayload hn
          · next hv0 =>
            show Res _ _ (Term.node .times [sl, Term.real (1 / v)] .none)
            have hty' : (Term.node .times [sl, Term.real (1 / v)] .none).typeOf = some .real :=
              arith_mk (Or.inr (Or.inr (Or.inl rfl))) _ hτ (by
                intro x hx
                simp only [List.mem_cons, List.not_mem_nil, or_false] at hx
                rcases hx with rfl | rfl
                · exact hl.2
                · exact typeOf_real _)
            have hwf' : (Term.node .times [sl, Term.real (1 / v)] .none).wf = true :=
              wf_mk' (by
                intro x hx
                simp only [List.mem_cons, List.not_mem_nil, or_false] at hx
                rcases hx with rfl | rfl
                · exact hl.1
                · exact wf_real _) rfl hty'
            refine res_of_ev hτ hn ⟨hwf', hty'⟩ (fun I hI _ => ?_) (fun I _ hd => ?_) (fun s hs => ?_)
            rotate_left
            · have hdl := div0_args_false I .div _ p rfl hd sl (by simp)
              rw [div0_plain I .times _ _ rfl (by simp)]
              simp only [List.any_cons, hdl, div0_real, List.any_nil, Bool.or_false]
            rotate_left
            · rw [ev_times ⟨hwf', hty'⟩ hI]
              simp only [List.map_cons, List.map_nil, qprod, ev_real]
              obtain ⟨m, hm⟩ := Val.hasSort_real (hl.sort hI)
              simp only [ev, eval_div, eval_realc, hm, Sem.div, hv0, if_false, toQ]
              rw [div_eq_mul_inv]; ring
            · rw [mem_fv_plain (by simp) (by simp) rfl] at hs ⊢
              obtain ⟨a, ha, hs⟩ := hs
              simp only [List.mem_cons, List.not_mem_nil, or_false] at ha
              rcases ha with rfl | rfl
              · exact ⟨a, by simp, hs⟩
              · simp at hs
        · exact res_div_repayload hn

/-! ## terms that may occur in the result for the node `t` -/

/-- `x` is well-formed of sort `τ`, evaluates no division by zero when `t` does not, and mentions only
symbols of `t` -/
def Good (τ : Ty) (t x : Term) : Prop :=
  NT τ x ∧ (∀ I : Interp, div0 I t = false → div0 I x = false) ∧ (∀ s ∈ x.fv, s ∈ t.fv)

theorem Good.self {τ t} (h : NT τ t) : Good τ t t := ⟨h, fun _ hd => hd, fun _ hs => hs⟩

theorem Good.child {τ t op as p} (h : ArithOp op) (hx : Good τ t (.node op as p)) :
    ∀ a ∈ as, Good τ t a := by
  intro a ha
  obtain ⟨h1, h2, h3⟩ := arith_ne h
  refine ⟨(arith_args h hx.1).2 a ha, fun I hd => div0_args_false I op as p h3 (hx.2.1 I hd) a ha,
    fun s hs => hx.2.2 s ((mem_fv_plain h1 h2 h3).mpr ⟨a, ha, hs⟩)⟩

theorem Good.trans {τ t x y} (hx : Good τ t x) (hy : Good τ x y) : Good τ t y :=
  ⟨hy.1, fun I hd => hy.2.1 I (hx.2.1 I hd), fun s hs => hx.2.2 s (hy.2.2 s hs)⟩

theorem Good.numTerm {τ t c} (hτ : Num τ) (hc : QOK τ c) : Good τ t (numTerm (some τ) c) := by
  obtain ⟨n1, n2, n3, _⟩ := numTerm_spec hτ hc
  exact ⟨n1, fun I _ => (n2 I).2, by rw [n3]; simp⟩

/-- a node built from good arguments -/
theorem Good.node {τ t op a as} (hτ : Num τ) (h : ArithOp op) (hdiv : op ≠ .div)
    (hs : op.shapeOK .none (a :: as).length = true) (hargs : ∀ x ∈ a :: as, Good τ t x) :
    Good τ t (.node op (a :: as) .none) := by
  obtain ⟨h1, h2, h3⟩ := arith_ne h
  have hty := arith_mk h .none hτ (fun x hx => (hargs x hx).1.2)
  refine ⟨⟨wf_mk' (fun x hx => (hargs x hx).1.1) hs hty, hty⟩, fun I hd => ?_, fun s hs => ?_⟩
  · rw [div0_plain I op _ _ h3 hdiv, List.any_eq_false]
    intro x hx
    simpa using (hargs x hx).2.1 I hd
  · obtain ⟨x, hx, hs⟩ := (mem_fv_plain h1 h2 h3).mp hs
    exact (hargs x hx).2.2 s hs

theorem plus_good {τ t} (hτ : Num τ) {l : List Term} (hne : l ≠ []) (hl : ∀ x ∈ l, Good τ t x) :
    Good τ t (plus_ l) ∧ ∀ I : Interp, I.WF → ev I (plus_ l) = qsum (l.map (ev I)) := by
  match l, hne, hl with
  | [a], _, hl => exact ⟨hl a (by simp), fun I _ => by simp [plus_, qsum]⟩
  | a :: b :: r, _, hl =>
    have hg : Good τ t (.node .plus (a :: b :: r) .none) :=
      Good.node hτ (Or.inl rfl) (by simp) (by simp [Op.shapeOK]) hl
    exact ⟨hg, fun I hI => ev_plus hg.1 hI⟩

theorem times_good {τ t} (hτ : Num τ) {l : List Term} (hne : l ≠ []) (hl : ∀ x ∈ l, Good τ t x) :
    Good τ t (times_ l) ∧ ∀ I : Interp, I.WF → ev I (times_ l) = qprod (l.map (ev I)) := by
  match l, hne, hl with
  | [a], _, hl => exact ⟨hl a (by simp), fun I _ => by simp [times_, qprod]⟩
  | a :: b :: r, _, hl =>
    have hg : Good τ t (.node .times (a :: b :: r) .none) :=
      Good.node hτ (Or.inr (Or.inr (Or.inl rfl))) (by simp) (by simp [Op.shapeOK]) hl
    exact ⟨hg, fun I hI => ev_times hg.1 hI⟩

theorem minus_good {τ t a b} (hτ : Num τ) (ha : Good τ t a) (hb : Good τ t b) :
    Good τ t (minus_ a b) ∧ ∀ I : Interp, I.WF → ev I (minus_ a b) = ev I a - ev I b := by
  have hg : Good τ t (.node .minus [a, b] .none) :=
    Good.node hτ (Or.inr (Or.inl rfl)) (by simp) rfl (by
      intro x hx
      simp only [List.mem_cons, List.not_mem_nil, or_false] at hx
      rcases hx with rfl | rfl
      · exact ha
      · exact hb)
  exact ⟨hg, fun I hI => ev_minus hg.1 hI⟩

theorem res_of_good {t r : Term} {τ : Ty} (hτ : Num τ) (ht : NT τ t) (hr : Good τ t r)
    (hs : ∀ I : Interp, I.WF → Hyp I t → ev I r = ev I t) : Res t τ r :=
  res_of_ev hτ ht hr.1 hs (fun I _ hd => hr.2.1 I hd) hr.2.2

/-! ## flattening of nested sums / products -/

structure LeafSpec (o : Op) (leaves : Term → List Term) (q : List Rat → Rat) : Prop where
  arith : ArithOp o
  eq : ∀ op as p, leaves (.node op as p) =
    if op = o then ((as.map leaves).reverse).flatten else [.node op as p]
  ev : ∀ τ as p, NT τ (.node o as p) → ∀ I : Interp, I.WF → ev I (.node o as p) = q (as.map (ArithRules.ev I))
  q_flat : ∀ l : List (List Rat), q l.flatten = q (l.map q)
  q_rev : ∀ l, q l.reverse = q l
  q_single : ∀ x, q [x] = x

theorem plusSpec : LeafSpec .plus plusLeaves qsum where
  arith := Or.inl rfl
  eq := by intro op as p; rw [plusLeaves]
  ev := fun _ _ _ hn _ hI => ev_plus hn hI
  q_flat := qsum_flatten
  q_rev := qsum_reverse
  q_single := by intro x; simp [qsum]

theorem timesSpec : LeafSpec .times timesLeaves qprod where
  arith := Or.inr (Or.inr (Or.inl rfl))
  eq := by intro op as p; rw [timesLeaves]
  ev := fun _ _ _ hn _ hI => ev_times hn hI
  q_flat := qprod_flatten
  q_rev := qprod_reverse
  q_single := by intro x; simp [qprod]

theorem leaves_spec {o leaves q} (S : LeafSpec o leaves q) {τ : Ty} : (t : Term) → NT τ t →
    (∀ x ∈ leaves t, Good τ t x) ∧ (∀ I : Interp, I.WF → q ((leaves t).map (ev I)) = ev I t)
  | .node op as p => fun hn => by
    by_cases hop : op = o
    · subst hop
      have hargs := (arith_args S.arith hn).2
      have ih : ∀ a ∈ as, (∀ x ∈ leaves a, Good τ a x) ∧
          (∀ I : Interp, I.WF → q ((leaves a).map (ev I)) = ev I a) :=
        fun a ha => leaves_spec S a (hargs a ha)
      rw [S.eq, if_pos rfl]
      constructor
      · intro x hx
        simp only [List.mem_flatten, List.mem_reverse, List.mem_map] at hx
        obtain ⟨l, ⟨a, ha, rfl⟩, hx⟩ := hx
        exact (Good.child S.arith (Good.self hn) a ha).trans ((ih a ha).1 x hx)
      · intro I hI
        rw [List.map_flatten, S.q_flat, List.map_reverse, List.map_reverse, S.q_rev, List.map_map, List.map_map,
          S.ev τ as p hn I hI]
        congr 1
        apply List.map_congr_left
        intro a ha
        exact (ih a ha).2 I hI
    · rw [S.eq, if_neg hop]
      constructor
      · intro x hx
        simp only [List.mem_singleton] at hx
        subst hx
        exact Good.self hn
      · intro I _
        simp only [List.map_cons, List.map_nil, S.q_single]

/-! ## `walk_times` -/

theorem foldl_mul (l : List Rat) (a : Rat) : l.foldl (· * ·) a = a * qprod l := by
  induction l generalizing a with
  | nil => simp [qprod]
  | cons x l ih => simp only [List.foldl_cons, ih, qprod]; ring

theorem consts_qok {τ : Ty} : ∀ (l : List Term), (∀ x ∈ l, NT τ x) → QOK τ (qprod (l.filterMap numVal))
  | [], _ => QOK.one τ
  | x :: l, h => by
    have ih := consts_qok l (fun y hy => h y (by simp [hy]))
    cases hc : numVal x with
    | some c =>
      rw [List.filterMap_cons_some hc]
      exact (numVal_spec hc (h x (by simp)).2).1.mul ih
    | none => rw [List.filterMap_cons_none hc]; exact ih

theorem split_consts {τ : Ty} (I : Interp) : ∀ (l : List Term), (∀ x ∈ l, NT τ x) →
    QOK τ (qprod (l.filterMap numVal)) ∧
    qprod (l.map (ev I)) = qprod (l.filterMap numVal) * qprod ((l.filter (fun x => (numVal x).isNone)).map (ev I))
  | [], _ => ⟨QOK.one τ, by simp [qprod]⟩
  | x :: l, h => by
    obtain ⟨ih1, ih2⟩ := split_consts I l (fun y hy => h y (by simp [hy]))
    cases hc : numVal x with
    | some c =>
      obtain ⟨k1, k2, _⟩ := numVal_spec hc (h x (by simp)).2
      rw [List.filterMap_cons_some hc, List.filter_cons_of_neg (by simp [hc])]
      refine ⟨k1.mul ih1, ?_⟩
      simp only [List.map_cons, qprod, ih2, (k2 I).1]; ring
    | none =>
      rw [List.filterMap_cons_none hc, List.filter_cons_of_pos (by simp [hc])]
      refine ⟨ih1, ?_⟩
      simp only [List.map_cons, qprod, ih2]; ring

theorem walkTimes_ok : RuleOK .times walkTimes := by
  refine RuleOK.of_res ?_
  intro p args τ hwf hty _
  have hop : ArithOp .times := Or.inr (Or.inr (Or.inl rfl))
  have hn : NT τ (.node .times args p) := ⟨hwf, hty⟩
  obtain ⟨hτ, hargs⟩ := arith_args hop hn
  obtain ⟨hgood, hval⟩ := leaves_spec timesSpec _ hn
  rw [timesSpec.eq, if_pos rfl] at hgood hval
  match args, hargs, hgood, hval with
  | [], _, _, _ =>
    have := wf_shape hwf
    simp [Op.shapeOK] at this
  | a0 :: rest, hargs, hgood, hval =>
    show Res _ τ (walkTimes p (a0 :: rest))
    unfold walkTimes
    simp only [(hargs a0 (by simp)).2, foldl_mul, Rat.one_mul]
    generalize (((a0 :: rest).map timesLeaves).reverse).flatten = leaves at hgood hval
    have hsp := fun I => split_consts (τ := τ) I leaves (fun x hx => (hgood x hx).1)
    have hc := consts_qok (τ := τ) leaves (fun x hx => (hgood x hx).1)
    have hnew : ∀ x ∈ leaves.filter (fun x => (numVal x).isNone), Good τ (.node .times (a0 :: rest) p) x :=
      fun x hx => hgood x (List.mem_filter.mp hx).1
    split
    · next h0 =>
      refine res_of_good hτ hn (Good.numTerm hτ (QOK.zero τ)) (fun I hI _ => ?_)
      rw [((numTerm_spec hτ (QOK.zero τ)).2.1 I).1, ← hval I hI, (hsp I).2, h0]; ring
    · split
      · next hemp =>
        refine res_of_good hτ hn (Good.numTerm hτ hc) (fun I hI _ => ?_)
        rw [((numTerm_spec hτ hc).2.1 I).1, ← hval I hI, (hsp I).2]
        rw [List.isEmpty_iff] at hemp
        rw [hemp]; simp [qprod]
      · next hemp =>
        have hne : leaves.filter (fun x => (numVal x).isNone) ≠ [] := by
          intro h; rw [h] at hemp; simp at hemp
        split
        · next h1 =>
          obtain ⟨g1, g2⟩ := times_good hτ hne hnew
          refine res_of_good hτ hn g1 (fun I hI _ => ?_)
          rw [g2 I hI, ← hval I hI, (hsp I).2, h1]; ring
        · obtain ⟨g1, g2⟩ := times_good (t := .node .times (a0 :: rest) p) hτ
            (l := leaves.filter (fun x => (numVal x).isNone) ++ [numTerm (some τ) (qprod (leaves.filterMap numVal))])
            (by simp) (by
              intro x hx
              rcases List.mem_append.mp hx with hx | hx
              · exact hnew x hx
              · simp only [List.mem_singleton] at hx
                subst hx
                exact Good.numTerm hτ hc)
          refine res_of_good hτ hn g1 (fun I hI _ => ?_)
          rw [g2 I hI, ← hval I hI, (hsp I).2, List.map_append, qprod_append]
          simp only [List.map_cons, List.map_nil, qprod, ((numTerm_spec hτ hc).2.1 I).1]; ring

/-! ## `walk_plus` -/

def pushSum (acc : Acc) (x : Term) : Acc := { acc with toSum := acc.toSum ++ [x] }
def pushSub (acc : Acc) (x : Term) : Acc := { acc with toSub := acc.toSub ++ [x] }
def addConst (acc : Acc) (c : Rat) : Acc := { acc with const := acc.const + c }

/-- the value the accumulator stands for -/
def Acc.val (I : Interp) (acc : Acc) : Rat :=
  qsum (acc.toSum.map (ev I)) - qsum (acc.toSub.map (ev I)) + acc.const

structure AccOK (τ : Ty) (t : Term) (acc : Acc) : Prop where
  sum : ∀ x ∈ acc.toSum, Good τ t x
  sub : ∀ x ∈ acc.toSub, Good τ t x
  const : QOK τ acc.const

theorem AccOK.pushSum {τ t acc x} (h : AccOK τ t acc) (hx : Good τ t x) : AccOK τ t (pushSum acc x) := by
  refine ⟨fun y hy => ?_, h.sub, h.const⟩
  rcases List.mem_append.mp hy with hy | hy
  · exact h.sum y hy
  · simp only [List.mem_singleton] at hy; subst hy; exact hx

theorem AccOK.pushSub {τ t acc x} (h : AccOK τ t acc) (hx : Good τ t x) : AccOK τ t (pushSub acc x) := by
  refine ⟨h.sum, fun y hy => ?_, h.const⟩
  rcases List.mem_append.mp hy with hy | hy
  · exact h.sub y hy
  · simp only [List.mem_singleton] at hy; subst hy; exact hx

theorem AccOK.addConst {τ t acc c} (h : AccOK τ t acc) (hc : QOK τ c) : AccOK τ t (addConst acc c) :=
  ⟨h.sum, h.sub, h.const.add hc⟩

theorem val_pushSum (I : Interp) (acc : Acc) (x : Term) : (pushSum acc x).val I = acc.val I + ev I x := by
  simp only [Acc.val, pushSum, List.map_append, qsum_append, List.map_cons, List.map_nil, qsum]; ring
theorem val_pushSub (I : Interp) (acc : Acc) (x : Term) : (pushSub acc x).val I = acc.val I - ev I x := by
  simp only [Acc.val, pushSub, List.map_append, qsum_append, List.map_cons, List.map_nil, qsum]; ring
theorem val_addConst (I : Interp) (acc : Acc) (c : Rat) : (addConst acc c).val I = acc.val I + c := by
  simp only [Acc.val, addConst]; ring

theorem dropLast_getLast {α} (as : List α) (z : α) (h : as.getLast? = some z) : as = as.dropLast ++ [z] := by
  have hne : as ≠ [] := by intro h'; simp [h'] at h
  have := List.dropLast_concat_getLast hne
  rw [List.getLast?_eq_some_getLast hne] at h
  simp at h; rw [← h]; exact this.symm

theorem classify_spec {τ : Ty} {t x : Term} {acc : Acc} (hτ : Num τ) (hx : Good τ t x) (hacc : AccOK τ t acc) :
    AccOK τ t (classify (some τ) acc x) ∧
      ∀ I : Interp, I.WF → (classify (some τ) acc x).val I = acc.val I + ev I x := by
  have dflt : AccOK τ t (pushSum acc x) ∧ ∀ I : Interp, I.WF → (pushSum acc x).val I = acc.val I + ev I x :=
    ⟨hacc.pushSum hx, fun I _ => val_pushSum I acc x⟩
  unfold classify
  split
  · next c hc =>
    obtain ⟨k1, k2, _⟩ := numVal_spec hc hx.1.2
    refine ⟨hacc.addConst k1, fun I _ => ?_⟩
    rw [(k2 I).1]; exact val_addConst I acc c
  · split
    · next a b p _ =>
      have hop : ArithOp .minus := Or.inr (Or.inl rfl)
      have ha := Good.child hop hx a (by simp)
      have hb := Good.child hop hx b (by simp)
      refine ⟨(hacc.pushSum ha).pushSub hb, fun I hI => ?_⟩
      show (pushSub (pushSum acc a) b).val I = _
      rw [val_pushSub, val_pushSum, ev_minus hx.1 hI]; ring
    · next ts p _ =>
      have hop : ArithOp .times := Or.inr (Or.inr (Or.inl rfl))
      split
      · next c hc =>
        split
        · next hneg =>
          obtain ⟨last, hlast, hnv⟩ := Option.bind_eq_some_iff.mp hc
          have hts := dropLast_getLast ts last hlast
          have hch := Good.child hop hx
          have hdl : ∀ y ∈ ts.dropLast, Good τ t y := fun y hy => hch y (by rw [hts]; simp [hy])
          have hlastG : Good τ t last := hch last (by rw [hts]; simp)
          obtain ⟨k1, k2, _⟩ := numVal_spec hnv hlastG.1.2
          have hdne : ts.dropLast ≠ [] := by
            have hs := wf_shape hx.1.1
            simp only [Op.shapeOK, decide_eq_true_eq] at hs
            intro h
            have := congrArg List.length h
            simp only [List.length_dropLast, List.length_nil] at this
            omega
          have hxv : ∀ I : Interp, I.WF → ev I (.node .times ts p) = qprod (ts.dropLast.map (ev I)) * c := by
            intro I hI
            rw [ev_times hx.1 hI]
            conv => lhs; rw [hts]
            rw [List.map_append, qprod_append]
            simp only [List.map_cons, List.map_nil, qprod, (k2 I).1]; ring
          have hsub : ∀ l : List Term, l ≠ [] → (∀ y ∈ l, Good τ t y) →
              (∀ I : Interp, I.WF → qprod (l.map (ev I)) = - ev I (.node .times ts p)) →
              AccOK τ t (pushSub acc (times_ l)) ∧
                ∀ I : Interp, I.WF → (pushSub acc (times_ l)).val I = acc.val I + ev I (.node .times ts p) := by
            intro l hne hl hv
            obtain ⟨g1, g2⟩ := times_good hτ hne hl
            refine ⟨hacc.pushSub g1, fun I hI => ?_⟩
            rw [val_pushSub, g2 I hI, hv I hI]; ring
          split
          · next hm1 =>
            refine hsub _ hdne hdl (fun I hI => ?_)
            rw [hxv I hI, hm1]; ring
          · refine hsub _ (by simp) ?_ (fun I hI => ?_)
            · intro y hy
              rcases List.mem_append.mp hy with hy | hy
              · exact hdl y hy
              · simp only [List.mem_singleton] at hy
                subst hy
                exact Good.numTerm hτ k1.neg
            · rw [hxv I hI, List.map_append, qprod_append]
              simp only [List.map_cons, List.map_nil, qprod, ((numTerm_spec hτ k1.neg).2.1 I).1]; ring
        · exact dflt
      · exact dflt
    · exact dflt

theorem foldl_classify_spec {τ : Ty} {t : Term} (hτ : Num τ) : ∀ (l : List Term) (acc : Acc),
    (∀ x ∈ l, Good τ t x) → AccOK τ t acc →
    AccOK τ t (l.foldl (classify (some τ)) acc) ∧
      ∀ I : Interp, I.WF → (l.foldl (classify (some τ)) acc).val I = acc.val I + qsum (l.map (ev I))
  | [], acc, _, hacc => ⟨hacc, fun I _ => by simp [qsum]⟩
  | x :: l, acc, hl, hacc => by
    obtain ⟨c1, c2⟩ := classify_spec hτ (hl x (by simp)) hacc
    obtain ⟨f1, f2⟩ := foldl_classify_spec hτ l _ (fun y hy => hl y (by simp [hy])) c1
    refine ⟨f1, fun I hI => ?_⟩
    rw [List.foldl_cons, f2 I hI, c2 I hI]
    simp only [List.map_cons, qsum]; ring

theorem assemble_spec {τ : Ty} {t : Term} {acc : Acc} (hτ : Num τ) (hacc : AccOK τ t acc) :
    Good τ t (assemble (some τ) acc) ∧ ∀ I : Interp, I.WF → ev I (assemble (some τ) acc) = acc.val I := by
  obtain ⟨n1, n2, _, _⟩ := numTerm_spec hτ hacc.const
  have hcg : Good τ t (numTerm (some τ) acc.const) := Good.numTerm hτ hacc.const
  unfold assemble
  simp only
  split
  · next hemp =>
    simp only [Bool.and_eq_true, List.isEmpty_iff] at hemp
    refine ⟨hcg, fun I _ => ?_⟩
    rw [(n2 I).1, Acc.val, hemp.1, hemp.2]; simp [qsum]
  · next hemp =>
    -- the list of positive summands
    have hsum : ∃ l, (if acc.const = 0 then acc.toSum else acc.toSum ++ [numTerm (some τ) acc.const]) = l ∧
        (∀ x ∈ l, Good τ t x) ∧ (∀ I : Interp, qsum (l.map (ev I)) = qsum (acc.toSum.map (ev I)) + acc.const) ∧
        (l = [] → acc.toSum = []) := by
      refine ⟨_, rfl, ?_, ?_, ?_⟩
      · split
        · exact hacc.sum
        · intro x hx
          rcases List.mem_append.mp hx with hx | hx
          · exact hacc.sum x hx
          · simp only [List.mem_singleton] at hx; subst hx; exact hcg
      · intro I
        split
        · next h0 => rw [h0]; ring
        · rw [List.map_append, qsum_append]
          simp only [List.map_cons, List.map_nil, qsum, (n2 I).1]; ring
      · split
        · exact id
        · intro h; simp at h
    obtain ⟨l, hl, hlg, hlv, hlnil⟩ := hsum
    rw [hl]
    split
    · next hsub =>
      rw [List.isEmpty_iff] at hsub
      have hne : l ≠ [] := by
        intro h
        apply hemp
        simp [hlnil h, hsub]
      obtain ⟨g1, g2⟩ := plus_good hτ hne hlg
      refine ⟨g1, fun I hI => ?_⟩
      rw [g2 I hI, hlv I, Acc.val, hsub]; simp [qsum]
    · next hsub =>
      have hsne : acc.toSub ≠ [] := by
        intro h; rw [h] at hsub; simp at hsub
      obtain ⟨s1, s2⟩ := plus_good hτ hsne hacc.sub
      split
      · next hlemp =>
        rw [List.isEmpty_iff] at hlemp
        have hm1 : QOK τ (-1) := (QOK.one τ).neg
        obtain ⟨g1, g2⟩ := times_good (t := t) hτ (l := [numTerm (some τ) (-1), plus_ acc.toSub]) (by simp) (by
          intro x hx
          simp only [List.mem_cons, List.not_mem_nil, or_false] at hx
          rcases hx with rfl | rfl
          · exact Good.numTerm hτ hm1
          · exact s1)
        refine ⟨g1, fun I hI => ?_⟩
        have := hlv I
        rw [hlemp] at this
        rw [g2 I hI]
        simp only [List.map_cons, List.map_nil, qprod, qsum, ((numTerm_spec hτ hm1).2.1 I).1, s2 I hI, Acc.val] at this ⊢
        rw [show qsum (List.map (ev I) acc.toSum) - qsum (List.map (ev I) acc.toSub) + acc.const =
          (qsum (List.map (ev I) acc.toSum) + acc.const) - qsum (List.map (ev I) acc.toSub) by ring, ← this]
        ring
      · next hlemp =>
        have hne : l ≠ [] := by
          intro h; rw [h] at hlemp; simp at hlemp
        obtain ⟨p1, p2⟩ := plus_good hτ hne hlg
        obtain ⟨g1, g2⟩ := minus_good hτ p1 s1
        refine ⟨g1, fun I hI => ?_⟩
        rw [g2 I hI, p2 I hI, s2 I hI, hlv I, Acc.val]; ring

theorem walkPlus_ok : RuleOK .plus walkPlus := by
  refine RuleOK.of_res ?_
  intro p args τ hwf hty _
  have hop : ArithOp .plus := Or.inl rfl
  have hn : NT τ (.node .plus args p) := ⟨hwf, hty⟩
  obtain ⟨hτ, hargs⟩ := arith_args hop hn
  obtain ⟨hgood, hval⟩ := leaves_spec plusSpec _ hn
  rw [plusSpec.eq, if_pos rfl] at hgood hval
  match args, hargs, hgood, hval with
  | [], _, _, _ =>
    have := wf_shape hwf
    simp [Op.shapeOK] at this
  | a0 :: rest, hargs, hgood, hval =>
    show Res _ τ (walkPlus p (a0 :: rest))
    unfold walkPlus
    simp only [(hargs a0 (by simp)).2]
    have h0 : AccOK τ (.node .plus (a0 :: rest) p) {} := ⟨by simp, by simp, QOK.zero τ⟩
    obtain ⟨f1, f2⟩ := foldl_classify_spec hτ _ {} hgood h0
    obtain ⟨a1, a2⟩ := assemble_spec hτ f1
    refine res_of_good hτ hn a1 (fun I hI _ => ?_)
    rw [a2 I hI, f2 I hI, hval I hI]
    simp [Acc.val, qsum]

end PySMT.Simp.ArithRules
